import ObiVerif.Lemmas.Tag
import ObiVerif.Lemmas.Kmer4
import ObiVerif.Lemmas.Lcs
/-!
# The q-gram lemma (q = 4) for the 4-mer prefilter of obitag / obirefidx (C15)

`qgram4` : for every alignment (`Lcs.Ali`) of two words with `l` columns of which `s` are matches — the matching
relation `m` implying equality on the letters of the two words —, the number of shared 4-mers (multiset
intersection of the 4-mer codes, `Σ_c min(count_a c, count_b c)`) is at least `l - 3 - 4·(l - s)`.

Proof.  Induction on the alignment (built from the left) of the invariant

    4·s ≤ shared(a, b) + 3·l + min(cp(a, b), 3)            (`qgram_inv`)

where `cp` is the length of the common prefix of the two words.  A non-matching column (gap or mismatch) in
front adds 3 to the right-hand side and may reset `cp` (which is at most 3): nothing to prove, because the 4-mer
list of a word only grows when a letter is put in front.  A matching column in front adds 4 to the left and 3
to the right: either `cp < 3` grows by one, or the two words already share their first three letters and the
new first 4-mer is the same on both sides: the multiset intersection grows by one.  No injectivity of the 4-mer
code is needed (merging codes only increases the shared count); the alphabet restriction is only needed for
"match ⇒ same letter" (`samenuc` matches IUPAC ambiguity codes).

The bound is then read on the model's own definitions: `Tag.common4` (`Common4Mer` of the two `Count4Mer`
tables — 16-bit counters: the words must have at most 65538 letters, else the bound is FALSE, see
`qgram4_false_beyond_uint16`), `Lcs.lcsDP samenuc` (what `FastLCSScore` without bound computes, C09), and
`Tag.lcsPair` / `Tag.slack` (the textbook matrix of the `qg`/`qgn` operations of the driver).
-/
namespace ObiVerif.QGram
open ObiVerif.Kmer ObiVerif.Lcs ObiVerif.Tag

/-! ## sums of minima -/

/-- `Σ_{i<n} min (f i) (g i)` -/
def sumMin (f g : Nat → Nat) : Nat → Nat
  | 0 => 0
  | n + 1 => sumMin f g n + min (f n) (g n)

theorem foldl_range_eq (f g : Nat → Nat) (n : Nat) :
    (List.range n).foldl (fun s i => s + min (f i) (g i)) 0 = sumMin f g n := by
  induction n with
  | zero => rfl
  | succ n ih => rw [List.range_succ, List.foldl_append, ih]; rfl

theorem sumMin_mono {f g f' g' : Nat → Nat} (hf : ∀ i, f i ≤ f' i) (hg : ∀ i, g i ≤ g' i) (n : Nat) :
    sumMin f g n ≤ sumMin f' g' n := by
  induction n with
  | zero => exact Nat.le_refl _
  | succ n ih =>
    have := hf n; have := hg n
    simp only [sumMin]; omega

theorem sumMin_congr {f g f' g' : Nat → Nat} (n : Nat) (hf : ∀ i, i < n → f i = f' i) (hg : ∀ i, i < n → g i = g' i) :
    sumMin f g n = sumMin f' g' n := by
  induction n with
  | zero => rfl
  | succ n ih =>
    simp only [sumMin]
    rw [ih (fun i hi => hf i (by omega)) (fun i hi => hg i (by omega)), hf n (by omega), hg n (by omega)]

/-- one more occurrence of `c` on both sides: one more shared occurrence -/
theorem sumMin_bump {f g f' g' : Nat → Nat} (c : Nat)
    (hf : ∀ i, f' i = f i + (if i = c then 1 else 0)) (hg : ∀ i, g' i = g i + (if i = c then 1 else 0)) (n : Nat) :
    sumMin f' g' n = sumMin f g n + (if c < n then 1 else 0) := by
  induction n with
  | zero => rfl
  | succ n ih =>
    simp only [sumMin]
    rw [ih, hf n, hg n]
    by_cases e : n = c
    · subst e; simp; omega
    · simp only [if_neg e]
      by_cases h : c < n
      · have h' : c < n + 1 := by omega
        simp only [h, h', if_true]; omega
      · have h' : ¬ c < n + 1 := by omega
        simp only [h, h', if_false]; omega

/-! ## shared codes of two lists (multiset intersection over the 256 codes) -/

/-- `Σ_{c<256} min (count c L₁) (count c L₂)` -/
def inter (L₁ L₂ : List Nat) : Nat := sumMin (fun c => L₁.count c) (fun c => L₂.count c) 256

theorem count_cons_ite (c : Nat) (L : List Nat) (i : Nat) :
    (c :: L).count i = L.count i + (if i = c then 1 else 0) := by
  rw [List.count_cons]
  by_cases e : i = c
  · subst e; simp
  · have : ¬ c = i := fun h => e h.symm
    simp [e, this]

theorem inter_cons_cons (c : Nat) (hc : c < 256) (L₁ L₂ : List Nat) :
    inter (c :: L₁) (c :: L₂) = inter L₁ L₂ + 1 := by
  unfold inter
  rw [sumMin_bump c (fun i => count_cons_ite c L₁ i) (fun i => count_cons_ite c L₂ i) 256]
  simp [hc]

theorem inter_mono {L₁ L₂ L₁' L₂' : List Nat} (h₁ : ∀ i, L₁.count i ≤ L₁'.count i) (h₂ : ∀ i, L₂.count i ≤ L₂'.count i) :
    inter L₁ L₂ ≤ inter L₁' L₂' := sumMin_mono h₁ h₂ 256

/-! ## the 4-mers of a word with one more letter in front -/

theorem fourmers_cons (x : UInt8) (a : Bytes) :
    fourmers (x :: a) = fourmers a ∨ ∃ c, fourmers (x :: a) = c :: fourmers a := by
  match a with
  | [] => exact .inl rfl
  | [_] => exact .inl rfl
  | [_, _] => exact .inl rfl
  | p :: q :: r :: t => exact .inr ⟨code4 x p q r, by rw [fourmers]⟩

theorem count_fourmers_cons (x : UInt8) (a : Bytes) (i : Nat) :
    (fourmers a).count i ≤ (fourmers (x :: a)).count i := by
  rcases fourmers_cons x a with h | ⟨c, h⟩
  · rw [h]; exact Nat.le_refl _
  · rw [h, count_cons_ite]; omega

/-! ## common prefix -/

/-- length of the common prefix -/
def cp : Bytes → Bytes → Nat
  | x :: a, y :: b => if x = y then cp a b + 1 else 0
  | _, _ => 0

theorem cp_cons_self (x : UInt8) (a b : Bytes) : cp (x :: a) (x :: b) = cp a b + 1 := by
  simp [cp]

theorem cp_three {a b : Bytes} (h : 3 ≤ cp a b) :
    ∃ p q r a' b', a = p :: q :: r :: a' ∧ b = p :: q :: r :: b' := by
  match a, b with
  | [], _ => simp [cp] at h
  | _ :: _, [] => simp [cp] at h
  | x :: a, y :: b =>
    by_cases e : x = y
    · subst e
      rw [cp_cons_self] at h
      match a, b with
      | [], _ => simp [cp] at h
      | _ :: _, [] => simp [cp] at h
      | x2 :: a, y2 :: b =>
        by_cases e2 : x2 = y2
        · subst e2
          rw [cp_cons_self] at h
          match a, b with
          | [], _ => simp [cp] at h
          | _ :: _, [] => simp [cp] at h
          | x3 :: a, y3 :: b =>
            by_cases e3 : x3 = y3
            · subst e3; exact ⟨_, _, _, _, _, rfl, rfl⟩
            · simp [cp, e3] at h
        · simp [cp, e2] at h
    · simp [cp, e] at h

/-! ## the invariant and the q-gram lemma on alignments -/

/-- invariant of the induction on the alignment (see the header) -/
theorem qgram_inv {m : UInt8 → UInt8 → Bool} {a b : Seq} {s l : Nat} (h : Ali m a b s l) :
    (∀ x ∈ a, ∀ y ∈ b, m x y = true → x = y) →
    4 * s ≤ inter (fourmers a) (fourmers b) + 3 * l + min (cp a b) 3 := by
  induction h with
  | nil => intro _; simp
  | @gapB x a b s l _ ih =>
    intro hm
    have ih' := ih (fun x' hx' y hy => hm x' (List.mem_cons_of_mem _ hx') y hy)
    have := inter_mono (L₂ := fourmers b) (count_fourmers_cons x a) (fun _ => Nat.le_refl _)
    omega
  | @gapA y a b s l _ ih =>
    intro hm
    have ih' := ih (fun x' hx' y' hy => hm x' hx' y' (List.mem_cons_of_mem _ hy))
    have := inter_mono (L₁ := fourmers a) (fun _ => Nat.le_refl _) (count_fourmers_cons y b)
    omega
  | @pair x y a b s l _ ih =>
    intro hm
    have ih' := ih (fun x' hx' y' hy => hm x' (List.mem_cons_of_mem _ hx') y' (List.mem_cons_of_mem _ hy))
    have hmono := inter_mono (count_fourmers_cons x a) (count_fourmers_cons y b)
    by_cases hxy : m x y = true
    · have e : x = y := hm x List.mem_cons_self y List.mem_cons_self hxy
      subst e
      simp only [hxy, if_true]
      rw [cp_cons_self]
      by_cases h3 : 3 ≤ cp a b
      · obtain ⟨p, q, r, a', b', rfl, rfl⟩ := cp_three h3
        have e1 : fourmers (x :: p :: q :: r :: a') = code4 x p q r :: fourmers (p :: q :: r :: a') := by
          rw [fourmers]
        have e2 : fourmers (x :: p :: q :: r :: b') = code4 x p q r :: fourmers (p :: q :: r :: b') := by
          rw [fourmers]
        rw [e1, e2, inter_cons_cons _ (code4_lt x p q r)]
        omega
      · omega
    · have e0 : (if m x y = true then 1 else 0) = 0 := if_neg hxy
      rw [e0]
      omega

/-- **q-gram lemma, q = 4** (alignment form): an alignment with `l` columns of which `s` are matches leaves at
least `l - 3 - 4·(l - s)` shared 4-mers -/
theorem qgram4 {m : UInt8 → UInt8 → Bool} {a b : Seq} {s l : Nat} (h : Ali m a b s l)
    (hm : ∀ x ∈ a, ∀ y ∈ b, m x y = true → x = y) :
    l - 3 - 4 * (l - s) ≤ inter (fourmers a) (fourmers b) := by
  have := qgram_inv h hm
  have := (Ali.bounds m h).2.2.2.2.2
  omega

/-- the same with the lengths of the words: `max(|a|,|b|) ≤ l` -/
theorem qgram4_max {m : UInt8 → UInt8 → Bool} {a b : Seq} {s l : Nat} (h : Ali m a b s l)
    (hm : ∀ x ∈ a, ∀ y ∈ b, m x y = true → x = y) (d : Nat) (hd : l - s ≤ d) :
    max a.length b.length - 3 - 4 * d ≤ inter (fourmers a) (fourmers b) := by
  have := qgram4 h hm
  have := Ali.bounds m h
  omega

/-! ## the bound on the model's `Common4Mer` (16-bit counters) -/

/-- `Common4Mer(Count4Mer a, Count4Mer b)` is the multiset intersection of the 4-mer codes as long as no
16-bit counter wraps: at most 65535 4-mers, i.e. at most 65538 letters -/
theorem common4_eq_inter (a b : Bytes) (ha : a.length ≤ 65538) (hb : b.length ≤ 65538) :
    common4 a b = inter (fourmers a) (fourmers b) := by
  unfold common4 common4mer inter
  rw [foldl_range_eq]
  have key : ∀ (s : Bytes), s.length ≤ 65538 → ∀ i, i < 256 → (count4mer s).getD i 0 = (fourmers s).count i := by
    intro s hs i hi
    rw [count4mer_eq s i hi]
    have h1 : (fourmers s).count i ≤ (fourmers s).length := List.count_le_length
    rw [fourmers_length] at h1
    omega
  exact sumMin_congr 256 (key a ha) (key b hb)

/-- the lower-case letters `a c g t` -/
def IsACGT (s : Bytes) : Prop := ∀ x ∈ s, x ∈ ([97, 99, 103, 116] : List UInt8)

instance (s : Bytes) : Decidable (IsACGT s) := by unfold IsACGT; infer_instance

/-- on `a c g t`, `_samenuc` is equality (decided over the 16 pairs, on the regenerated IUPAC table) -/
theorem samenuc_acgt : ∀ x ∈ ([97, 99, 103, 116] : List UInt8), ∀ y ∈ ([97, 99, 103, 116] : List UInt8),
    samenuc x y = true → x = y := by decide

theorem samenuc_eq_of_acgt {a b : Bytes} (ha : IsACGT a) (hb : IsACGT b) :
    ∀ x ∈ a, ∀ y ∈ b, samenuc x y = true → x = y :=
  fun x hx y hy => samenuc_acgt x (ha x hx) y (hb y hy)

/-- **q-gram lemma on the model's definitions**: for words over `a c g t` of at most 65538 letters, whatever
alignment with `l` columns and `s` matches (`_samenuc`), `Common4Mer ≥ max(|a|,|b|) - 3 - 4·d` for every
`d ≥ l - s` -/
theorem qgram4_common4 {a b : Bytes} {s l : Nat} (h : Ali samenuc a b s l)
    (ha : IsACGT a) (hb : IsACGT b) (hla : a.length ≤ 65538) (hlb : b.length ≤ 65538) (d : Nat) (hd : l - s ≤ d) :
    max a.length b.length - 3 - 4 * d ≤ common4 a b := by
  rw [common4_eq_inter a b hla hlb]
  exact qgram4_max h (samenuc_eq_of_acgt ha hb) d hd

/-- … in particular for the optimum `(LCS, shortest alignment achieving it)` that `FastLCSScore` without bound
computes (C09: `bandLCS_exact_unbounded`) -/
theorem qgram4_lcsDP {a b : Bytes} (ha : IsACGT a) (hb : IsACGT b) (hla : a.length ≤ 65538) (hlb : b.length ≤ 65538)
    (d : Nat) (hd : (lcsDP samenuc a b).2 - (lcsDP samenuc a b).1 ≤ d) :
    max a.length b.length - 3 - 4 * d ≤ common4 a b :=
  qgram4_common4 (lcsDP_opt samenuc a b).1 ha hb hla hlb d hd

/-! ## candidates made of actual sequences -/

/-- what the search loops see of the reference `r` when the scanned sequence is `q`: its length, `Common4Mer`
of the two `Count4Mer` tables, and the answer of `FastLCSScore(q, r, -1)` (`lcsDP samenuc`, C09) -/
def candOf (q r : Bytes) : Cand :=
  { len := r.length, cw := common4 q r, lcs := (lcsDP samenuc q r).1, ali := (lcsDP samenuc q r).2 }

/-- the `(lcs, alilength)` of `candOf` is the answer of the banded matrix of `FastLCSScore(q, r, -1)` (structural
layer of C09, tied to the verbatim kernel by correspondence) within the 16-bit range of its packed cells -/
theorem candOf_is_fastLCS (q r : Bytes) (hn : q.length + r.length + 1 ≤ 30000) :
    bandLCS q r (-1) = some ((candOf q r).lcs, (candOf q r).ali) :=
  bandLCS_exact_unbounded q r hn

/-- **the hypothesis `QGramBound` of the pruning theorems holds** for a scanned sequence and references over
`a c g t` of at most 65538 letters -/
theorem qgramBound_acgt (q : Bytes) (refs : Nat → Bytes) (o : List Nat)
    (hq : IsACGT q) (hlq : q.length ≤ 65538)
    (hr : ∀ i ∈ o, IsACGT (refs i) ∧ (refs i).length ≤ 65538) :
    QGramBound q.length (fun i => candOf q (refs i)) o := by
  simp only [QGramBound, candOf, Cand.dist]
  intro i hi d hd
  exact qgram4_lcsDP hq (hr i hi).1 hlq (hr i hi).2 d hd

/-! ## the textbook matrix of the driver (`Tag.lcsPair`, `Tag.slack`): byte equality, no alphabet restriction -/

/-- byte equality as a matching relation -/
def eqm (x y : UInt8) : Bool := decide (x = y)

theorem lcsBetter_cases (x y : Nat × Nat) : lcsBetter x y = x ∨ lcsBetter x y = y := by
  unfold lcsBetter; split <;> simp

/-- cells of a row after the prefix `pb`: one achievable `(score, length)` per further letter of `b` -/
def TailOK (pa : Seq) : Seq → Seq → List (Nat × Nat) → Prop
  | _, [], cs => cs = []
  | pb, y :: bs, c :: cs => Ali eqm pa (pb ++ [y]) c.1 c.2 ∧ TailOK pa (pb ++ [y]) bs cs
  | _, _ :: _, [] => False

def RowOK (pa b : Seq) (row : List (Nat × Nat)) : Prop :=
  ∃ c cs, row = c :: cs ∧ Ali eqm pa [] c.1 c.2 ∧ TailOK pa [] b cs

theorem rowGo_ok (pa : Seq) (x : UInt8) : ∀ (bs pb : Seq) (diag : Nat × Nat) (ups : List (Nat × Nat)) (left : Nat × Nat),
    Ali eqm pa pb diag.1 diag.2 → TailOK pa pb bs ups → Ali eqm (pa ++ [x]) pb left.1 left.2 →
    TailOK (pa ++ [x]) pb bs (lcsRowGo x bs diag ups left) := by
  intro bs
  induction bs with
  | nil =>
    intro pb diag ups left _ _ _
    cases ups <;> simp [lcsRowGo, TailOK]
  | cons y bs ih =>
    intro pb diag ups left hd hu hl
    cases ups with
    | nil => simp [TailOK] at hu
    | cons up ups =>
      simp only [TailOK] at hu
      obtain ⟨hup, hups⟩ := hu
      simp only [lcsRowGo, TailOK]
      have h1 : Ali eqm (pa ++ [x]) (pb ++ [y]) (diag.1 + (if x = y then 1 else 0), diag.2 + 1).1
          (diag.1 + (if x = y then 1 else 0), diag.2 + 1).2 := by
        have := Ali.snocPair eqm x y hd
        simpa [eqm] using this
      have h2 : Ali eqm (pa ++ [x]) (pb ++ [y]) (up.1, up.2 + 1).1 (up.1, up.2 + 1).2 := Ali.snocB eqm x hup
      have h3 : Ali eqm (pa ++ [x]) (pb ++ [y]) (left.1, left.2 + 1).1 (left.1, left.2 + 1).2 := Ali.snocA eqm y hl
      have hcell : Ali eqm (pa ++ [x]) (pb ++ [y])
          (lcsBetter (diag.1 + (if x = y then 1 else 0), diag.2 + 1) (lcsBetter (up.1, up.2 + 1) (left.1, left.2 + 1))).1
          (lcsBetter (diag.1 + (if x = y then 1 else 0), diag.2 + 1) (lcsBetter (up.1, up.2 + 1) (left.1, left.2 + 1))).2 := by
        rcases lcsBetter_cases (diag.1 + (if x = y then 1 else 0), diag.2 + 1)
            (lcsBetter (up.1, up.2 + 1) (left.1, left.2 + 1)) with e | e
        · rw [e]; exact h1
        · rw [e]
          rcases lcsBetter_cases (up.1, up.2 + 1) (left.1, left.2 + 1) with e' | e'
          · rw [e']; exact h2
          · rw [e']; exact h3
      exact ⟨hcell, ih _ _ _ _ hup hups hcell⟩

theorem lcsRow_ok (pa b : Seq) (x : UInt8) (prev : List (Nat × Nat)) (h : RowOK pa b prev) :
    RowOK (pa ++ [x]) b (lcsRow b prev x) := by
  obtain ⟨c, cs, rfl, hc, ht⟩ := h
  have h0 := (Ali.of_nil_right eqm hc).1
  have hf : Ali eqm (pa ++ [x]) [] (0, c.2 + 1).1 (0, c.2 + 1).2 := by
    have := Ali.snocB eqm x hc
    rw [h0] at this
    exact this
  exact ⟨(0, c.2 + 1), _, rfl, hf, rowGo_ok pa x b [] c cs (0, c.2 + 1) hc ht hf⟩

theorem tail0_ok : ∀ (bs pb : Seq),
    TailOK [] pb bs ((List.range bs.length).map (fun j => (0, pb.length + 1 + j))) := by
  intro bs
  induction bs with
  | nil => intro pb; simp [TailOK]
  | cons y bs ih =>
    intro pb
    rw [List.length_cons, List.range_succ_eq_map, List.map_cons, List.map_map]
    simp only [TailOK]
    refine ⟨?_, ?_⟩
    · have := Ali.nil_left eqm (pb ++ [y])
      simpa using this
    · have := ih (pb ++ [y])
      have e : ((fun j => ((0 : Nat), pb.length + 1 + j)) ∘ Nat.succ) = (fun j => ((0 : Nat), (pb ++ [y]).length + 1 + j)) := by
        funext j; simp; omega
      rw [e]; exact this

theorem row0_ok (b : Seq) : RowOK [] b ((List.range (b.length + 1)).map (fun j => (0, j))) := by
  refine ⟨(0, 0), (List.range b.length).map (fun j => (0, 1 + j)), ?_, .nil, ?_⟩
  · rw [List.range_succ_eq_map, List.map_cons, List.map_map]
    congr 1
    apply List.map_congr_left
    intro j _; simp; omega
  · have := tail0_ok b []
    simpa using this

theorem foldl_ok (b : Seq) : ∀ (a pa : Seq) (row : List (Nat × Nat)), RowOK pa b row →
    RowOK (pa ++ a) b (a.foldl (lcsRow b) row) := by
  intro a
  induction a with
  | nil => intro pa row h; simpa using h
  | cons x a ih =>
    intro pa row h
    have := ih (pa ++ [x]) _ (lcsRow_ok pa b x row h)
    simpa using this

theorem tail_last (pa : Seq) : ∀ (bs pb : Seq) (c : Nat × Nat) (cs : List (Nat × Nat)),
    Ali eqm pa pb c.1 c.2 → TailOK pa pb bs cs →
    ∃ c', (c :: cs).getLast? = some c' ∧ Ali eqm pa (pb ++ bs) c'.1 c'.2 := by
  intro bs
  induction bs with
  | nil =>
    intro pb c cs hc ht
    simp only [TailOK] at ht
    subst ht
    exact ⟨c, rfl, by simpa using hc⟩
  | cons y bs ih =>
    intro pb c cs hc ht
    cases cs with
    | nil => simp [TailOK] at ht
    | cons c2 cs =>
      simp only [TailOK] at ht
      obtain ⟨c', h1, h2⟩ := ih (pb ++ [y]) c2 cs ht.1 ht.2
      refine ⟨c', ?_, by simpa using h2⟩
      rw [List.getLast?_cons_cons]; exact h1

/-- the textbook matrix of the driver returns the `(score, length)` of an actual alignment (byte equality) -/
theorem lcsPair_ali (a b : Bytes) : Ali eqm a b (lcsPair a b).1 (lcsPair a b).2 := by
  have h := foldl_ok b a [] _ (row0_ok b)
  obtain ⟨c, cs, e, hc, ht⟩ := h
  obtain ⟨c', h1, h2⟩ := tail_last _ b [] c cs hc ht
  unfold lcsPair
  simp only
  rw [e, h1]
  simpa using h2

/-- **the q-gram slack recomputed by the driver (`qg` / `qgn` operations) is never negative**, for ANY two byte
strings of at most 65538 letters (the matrix of the driver matches equal bytes only) -/
theorem slack_nonneg (a b : Bytes) (hla : a.length ≤ 65538) (hlb : b.length ≤ 65538) : 0 ≤ slack a b := by
  have h := lcsPair_ali a b
  have hq := qgram4_max h (fun x _ y _ hxy => by simpa [eqm] using hxy) ((lcsPair a b).2 - (lcsPair a b).1) (Nat.le_refl _)
  rw [← common4_eq_inter a b hla hlb] at hq
  unfold slack
  simp only
  omega

/-! ## the length bound is necessary: the 16-bit counters of `Table4mer` wrap -/

theorem sumMin_zero {f g : Nat → Nat} (n : Nat) (hf : ∀ i, i < n → f i = 0) : sumMin f g n = 0 := by
  induction n with
  | zero => rfl
  | succ n ih =>
    simp only [sumMin]
    rw [ih (fun i hi => hf i (by omega)), hf n (by omega)]
    simp

theorem ali_diag (m : UInt8 → UInt8 → Bool) : ∀ (a : Seq), (∀ x ∈ a, m x x = true) → Ali m a a a.length a.length
  | [], _ => .nil
  | x :: a, h => by
    have := Ali.pair (m := m) x x (ali_diag m a (fun y hy => h y (List.mem_cons_of_mem _ hy)))
    rw [h x List.mem_cons_self] at this
    simpa using this

/-- a word is at distance 0 of itself: `lcsDP` answers `(|a|, |a|)` -/
theorem lcsDP_self (m : UInt8 → UInt8 → Bool) (a : Seq) (h : ∀ x ∈ a, m x x = true) :
    lcsDP m a a = (a.length, a.length) := by
  have h1 := lcsDP_opt m a a
  have h2 := h1.2 _ _ (ali_diag m a h)
  have h3 := Ali.bounds m h1.1
  rw [better_iff] at h2
  simp only at h2
  exact Prod.ext (by simp only; omega) (by simp only; omega)

theorem samenuc_self_acgt : ∀ x ∈ ([97, 99, 103, 116] : List UInt8), samenuc x x = true := by decide

/-- a word over `a c g t` is at distance 0 of itself -/
theorem candOf_self_dist (q : Bytes) (hq : IsACGT q) : (candOf q q).dist = 0 := by
  have := lcsDP_self samenuc q (fun x hx => samenuc_self_acgt x (hq x hx))
  simp only [candOf, Cand.dist, this, Nat.sub_self]

/-- **beyond 65538 letters the bound is FALSE on the model (and the code)**: `Count4Mer` counts in `uint16`
cells; the word `a^(65536·k+3)`, `k ≥ 1`, has `65536·k` occurrences of the 4-mer `aaaa`, its counter wraps to 0, and
the word shares NO 4-mer with itself according to `Common4Mer` although it is at distance 0 of itself
(`max(|a|,|b|) - 3 - 4·0 = 65536·k`) -/
theorem qgram4_false_beyond_uint16 (k : Nat) (hk : 0 < k) (w : Bytes) (hw : w = List.replicate (65536 * k + 3) 97) :
    IsACGT w ∧ (candOf w w).dist = 0 ∧ (candOf w w).cw = 0 ∧ ¬ QGramBound w.length (fun _ => candOf w w) [0] := by
  have hmem : ∀ x ∈ w, x = 97 := by
    intro x hx
    rw [hw] at hx
    exact List.eq_of_mem_replicate hx
  have hlen : w.length = 65536 * k + 3 := by rw [hw, List.length_replicate]
  have hacgt : IsACGT w := by
    intro x hx
    rw [hmem x hx]
    decide
  have hself := lcsDP_self samenuc w (by
    intro x hx
    rw [hmem x hx]
    decide)
  have hdist : (candOf w w).dist = 0 := by
    simp only [candOf, Cand.dist, hself, Nat.sub_self]
  have hcw : (candOf w w).cw = 0 := by
    simp only [candOf]
    unfold common4 common4mer
    rw [foldl_range_eq]
    apply sumMin_zero
    intro i hi
    rw [count4mer_eq _ i hi, hw, fourmers_replicate_a, List.count_replicate]
    split
    · exact Nat.mul_mod_right _ _
    · rfl
  refine ⟨hacgt, hdist, hcw, ?_⟩
  intro hq
  have := hq 0 List.mem_cons_self 0 (by rw [hdist]; exact Nat.le_refl _)
  rw [hcw] at this
  simp only [candOf] at this
  omega

end ObiVerif.QGram
