import ObiVerif.Model.Writer
import ObiVerif.Lemmas.Reseq
import ObiVerif.Lemmas.WriteDev
import ObiVerif.Lemmas.WritePgzipClose
/-!
# C04: the byte path `Wfile` = `bufio.Writer` (→ pgzip) → file, for EVERY arrival history (lemmas)

The transcriptions of `bufio.Writer` (`GW`, generic in the underlying writer), of the scripted device `Dev`
and of `klauspost/pgzip`'s `Writer` (`PZ`) belong to property C18 (`Model/WriteErr.lean`, `WriteDev.lean`,
`WritePgzip.lean`: imported, not edited).  C18 characterises them on *complete* arrival histories (a permutation of
`0..n-1`).  Here the re-sequencing machine is shown to be parametric in its accumulator (`run_sim`), so the writer
that pushes every released chunk through `bufio.Writer.Write` simulates the plain writer of `Model/Writer.lean`
(bytes appended to a list) on **every** arrival history — duplicates, gaps, incomplete histories included — and the
bytes that reach the file are those of the plain writer, whatever the buffer size and the sizes of the chunks.
-/
set_option Elab.async false  -- one elaboration thread: each Lean thread reserves 1 GiB of address space (builds run under `ulimit -v`)
namespace ObiVerif.WriterWfile
open ObiVerif.Reseq ObiVerif.WriteErr

variable {σ τ α : Type}

/-- the drain loop is parametric in the accumulator -/
theorem drain_sim (R : σ → τ → Prop) (f : σ → α → σ) (g : τ → α → τ) (hR : ∀ s t a, R s t → R (f s a) (g t a))
    (s : WS σ α) : ∀ (t : WS τ α), s.next = t.next → s.pending = t.pending → R s.acc t.acc →
    (drain f s).next = (drain g t).next ∧ (drain f s).pending = (drain g t).pending ∧
      R (drain f s).acc (drain g t).acc := by
  induction s using drain.induct (fD := f) with
  | case1 s hnone =>
    intro t hn hp ha
    have hnone' : lookupK t.next t.pending = none := by rw [← hn, ← hp]; exact hnone
    rw [drain, drain]
    split
    · split
      · exact ⟨hn, hp, ha⟩
      · rename_i y heq; rw [hnone'] at heq; cases heq
    · rename_i x heq; rw [hnone] at heq; cases heq
  | case2 s x hsome ih =>
    intro t hn hp ha
    have hsome' : lookupK t.next t.pending = some x := by rw [← hn, ← hp]; exact hsome
    rw [drain, drain]
    split
    · rename_i heq; rw [hsome] at heq; cases heq
    · rename_i y heq
      rw [hsome] at heq; cases heq
      split
      · rename_i heq'; rw [hsome'] at heq'; cases heq'
      · rename_i z heq'
        rw [hsome'] at heq'; cases heq'
        exact ih _ (by simp [hn]) (by simp [hn, hp]) (hR _ _ _ ha)

theorem step_sim (R : σ → τ → Prop) (f : σ → α → σ) (g : τ → α → τ) (hR : ∀ s t a, R s t → R (f s a) (g t a))
    (s : WS σ α) (t : WS τ α) (hn : s.next = t.next) (hp : s.pending = t.pending) (ha : R s.acc t.acc) (a : Nat × α) :
    (step f f s a).next = (step g g t a).next ∧ (step f f s a).pending = (step g g t a).pending ∧
      R (step f f s a).acc (step g g t a).acc := by
  unfold step
  by_cases h : a.1 = s.next
  · rw [if_pos h, if_pos (h.trans hn)]
    exact drain_sim R f g hR _ _ (by simp [hn]) (by simp [hp]) (hR _ _ _ ha)
  · rw [if_neg h, if_neg (fun h' => h (h'.trans hn.symm))]
    exact ⟨hn, by simp [hp], ha⟩

/-- **the re-sequencing machine is parametric in what it does with a released item**: two accumulators related by `R`
stay related along every arrival history, and counter and buffer are the same -/
theorem run_sim (R : σ → τ → Prop) (f : σ → α → σ) (g : τ → α → τ) (hR : ∀ s t a, R s t → R (f s a) (g t a))
    (i : σ) (j : τ) (h : R i j) (arr : List (Nat × α)) :
    (run f f i arr).next = (run g g j arr).next ∧ (run f f i arr).pending = (run g g j arr).pending ∧
      R (run f f i arr).acc (run g g j arr).acc := by
  unfold run
  suffices H : ∀ (s : WS σ α) (t : WS τ α), s.next = t.next → s.pending = t.pending → R s.acc t.acc →
      (arr.foldl (step f f) s).next = (arr.foldl (step g g) t).next ∧
      (arr.foldl (step f f) s).pending = (arr.foldl (step g g) t).pending ∧
      R (arr.foldl (step f f) s).acc (arr.foldl (step g g) t).acc from H _ _ rfl rfl h
  induction arr with
  | nil => intro s t hn hp ha; exact ⟨hn, hp, ha⟩
  | cons a as ih =>
    intro s t hn hp ha
    simp only [List.foldl_cons]
    obtain ⟨h1, h2, h3⟩ := step_sim R f g hR s t hn hp ha a
    exact ih _ _ h1 h2 h3

/-! ## the plain `Wfile`: `bufio.Writer` over a file that accepts everything -/

/-- a file that accepts every `Write` completely -/
def goodBeh : Nat → Nat → Nat → Nat × Bool := fun _ _ l => (l, false)

abbrev GoodInv (cf : Bool) := GInv Dev.got (fun _ => False) (fun d => d.beh = goodBeh ∧ d.closeFails = cf)

theorem goodLaw (cf : Bool) :
    DevLaw Dev.write Dev.got (fun _ => False) (fun d => d.beh = goodBeh ∧ d.closeFails = cf) :=
  devLaw_good goodBeh (fun _ _ _ => rfl) cf

/-- FASTA / FASTQ / CSV through `Wfile` (plain), every arrival history, every buffer size -/
theorem rawDev_good (size : Nat) (cf own : Bool) (arr : List (Nat × Bytes)) :
    writeRawDev size goodBeh cf own arr = (if own && cf then .fatal else .ok, Writer.writeRaw arr) := by
  unfold writeRawDev Writer.writeRaw
  have h := (run_sim (GoodInv cf) (emitRawG Dev.write) Writer.emitRaw
    (fun s t a hst => gwrite_inv (goodLaw cf) hst a) _ [] (ginv_dev_init size goodBeh cf _) arr).2.2
  exact closeDev_good (goodLaw cf) own h

/-- JSON through `Wfile` (plain), every arrival history, every buffer size -/
theorem jsonDev_good (size : Nat) (cf own : Bool) (arr : List (Nat × Bytes)) :
    writeJsonDev size goodBeh cf own arr = (if own && cf then .fatal else .ok, Writer.writeJson arr) := by
  unfold writeJsonDev Writer.writeJson
  simp only
  have L := goodLaw cf
  have h0 : GoodInv cf ((⟨size, [], false, ⟨goodBeh, 0, [], cf⟩⟩ : GW Dev).write Dev.write openJson) Writer.openJson := by
    have := gwrite_inv L (ginv_dev_init size goodBeh cf (fun _ => False)) openJson
    rw [List.nil_append] at this
    exact this
  have h := (run_sim (fun (s : JG Dev) (m : Writer.JS) => s.started = m.some ∧ GoodInv cf s.bw m.out)
    (emitJsonG Dev.write) Writer.emitJson (fun s t a hst => gemitJson_sim L s t a hst.1 hst.2)
    ⟨_, false⟩ ⟨Writer.openJson, false⟩ ⟨rfl, h0⟩ arr).2.2
  exact closeDev_good L own (gwrite_inv L h.2 closeJson)

/-! ## the compressed `Wfile`: `bufio.Writer` over the transcribed pgzip writer over the file -/

abbrev PInv (c : PCodec) (limit : Nat) (cf : Bool) := HInv PZ.acc (PDead c limit cf) (PLive c limit cf)

/-- FASTA / FASTQ / CSV through the compressed `Wfile`, every arrival history, buffer size, listener schedule -/
theorem rawP_all (c : PCodec) (hbs : 0 < c.bs) (s : Sched) (size limit : Nat) (cf own : Bool)
    (arr : List (Nat × Bytes)) :
    writeRawP c s size limit cf own arr =
      (if limit < (c.toCodec.stream (Writer.writeRaw arr)).length || (own && cf) then .fatal else .ok,
       (c.toCodec.stream (Writer.writeRaw arr)).take limit) := by
  unfold writeRawP Writer.writeRaw
  have L := pzLaw c hbs s limit cf
  have h := (run_sim (PInv c limit cf) (emitRawG (PZ.write c s)) Writer.emitRaw
    (fun s t a hst => hwrite_inv L hst a) _ [] (pinv_init c size limit cf) arr).2.2
  exact closeP_eq c hbs s own h

/-- JSON through the compressed `Wfile` -/
theorem jsonP_all (c : PCodec) (hbs : 0 < c.bs) (s : Sched) (size limit : Nat) (cf own : Bool)
    (arr : List (Nat × Bytes)) :
    writeJsonP c s size limit cf own arr =
      (if limit < (c.toCodec.stream (Writer.writeJson arr)).length || (own && cf) then .fatal else .ok,
       (c.toCodec.stream (Writer.writeJson arr)).take limit) := by
  unfold writeJsonP Writer.writeJson
  simp only
  have L := pzLaw c hbs s limit cf
  have h0 : PInv c limit cf ((⟨size, [], false, pz0 limit cf⟩ : GW PZ).write (PZ.write c s) openJson) Writer.openJson := by
    have := hwrite_inv L (pinv_init c size limit cf) openJson
    rw [List.nil_append] at this
    exact this
  have h := (run_sim (fun (x : JG PZ) (m : Writer.JS) => x.started = m.some ∧ PInv c limit cf x.bw m.out)
    (emitJsonG (PZ.write c s)) Writer.emitJson (fun x t a hst => hemitJson_sim L x t a hst.1 hst.2)
    ⟨_, false⟩ ⟨Writer.openJson, false⟩ ⟨rfl, h0⟩ arr).2.2
  exact closeP_eq c hbs s own (hwrite_inv L h.2 closeJson)

end ObiVerif.WriterWfile
