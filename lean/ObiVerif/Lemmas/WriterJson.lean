import ObiVerif.Lemmas.Json
import ObiVerif.Model.JsonRead
/-!
# The indented JSON text of the writer is read back to the value it must denote (C04) — core Lean only

`decodeText = Json.decVal ∘ strip` (`Model/JsonRead.lean`) applied to what `WriterFmt.jVal` / `fmtJsonBatch` print.

* A. `dec i` is a number literal of RFC 8259 (`dec_numLitOK`), hence `toJ v` is well formed (`toJ_WF`);
* B. `cVal v`: the compact text of `v` (string bodies `s.flatMap escByte`); the strict decoder reads it (`dec_cVal`);
* C. `strip` turns the indented text `jVal d v` into `cVal v` (`strip_jVal`);
* D. `decodeText_jVal`, `decodeText_file`.
-/
namespace ObiVerif.WriterJson
open ObiVerif.Header (forall_uint8)
open ObiVerif.Json (JVal JList JMems numChar isDigit isNumLit numLitOK decStrBody decVal decElems decMems NoNumHead
  decVal_cons decElems_succ decMems_succ fuel_succ noNumHead_cons noNumHead_nil)
open ObiVerif.WriterFmt (Val Rec B natDigits dec escByte hexDigit jStr ind jVal jElems jEntries recordVal jsonRecord
  jsonTail fmtJsonBatch)
open ObiVerif.JsonRead (isWs isWord St strip decodeText toJ toJList toJMems recJ fileJ)

/-! ## A. numbers -/

theorem natDigits_lt {n : Nat} (h : n < 10) : natDigits n = [48 + UInt8.ofNat n] := by
  rw [natDigits]; simp [h]

theorem natDigits_ge {n : Nat} (h : ¬ n < 10) :
    natDigits n = natDigits (n / 10) ++ [48 + UInt8.ofNat (n % 10)] := by
  rw [natDigits]; simp [h]

theorem digit_facts : ∀ k, k < 10 →
    isDigit (48 + UInt8.ofNat k) = true ∧ ((48 : UInt8) + UInt8.ofNat k = 48 → k = 0) := by decide

/-- the decimal digits: a digit, then digits; a leading `0` only for zero -/
theorem natDigits_spec (n : Nat) :
    ∃ c t, natDigits n = c :: t ∧ isDigit c = true ∧ t.all isDigit = true ∧ (c = 48 → n = 0 ∧ t = []) := by
  induction n using Nat.strongRecOn with
  | _ n ih =>
    by_cases h : n < 10
    · have := digit_facts n h
      exact ⟨_, [], natDigits_lt h, this.1, rfl, fun e => ⟨this.2 e, rfl⟩⟩
    · obtain ⟨c, t, e, hc, ht, h0⟩ := ih (n / 10) (by omega)
      have := digit_facts (n % 10) (by omega)
      refine ⟨c, t ++ [48 + UInt8.ofNat (n % 10)], ?_, hc, ?_, ?_⟩
      · rw [natDigits_ge h, e]; rfl
      · simp [ht, this.1]
      · intro e0; have := (h0 e0).1; omega

set_option maxRecDepth 100000 in
theorem digit_uint8 : ∀ c : UInt8, isDigit c = true →
    numChar c = true ∧ c ≠ 45 ∧ (c ≠ 48 → (49 ≤ c && c ≤ 57) = true) := by
  apply forall_uint8
  decide

theorem isNumLit_of_ne (c : UInt8) (t : B) (h : c ≠ 45) : isNumLit (c :: t) = Json.intOK (c :: t) := by
  unfold isNumLit
  split
  · rename_i heq; injection heq with e _; exact absurd e h
  · rfl

theorem digits_numLit (c : UInt8) (t : B) (hc : isDigit c = true) (ht : t.all isDigit = true)
    (h0 : c = 48 → t = []) : Json.intOK (c :: t) = true ∧ (c :: t).all numChar = true := by
  obtain ⟨h1, _, h3⟩ := digit_uint8 c hc
  have hall : t.all numChar = true := Json.all_imp (fun c h => (digit_uint8 c h).1) t ht
  refine ⟨?_, by simp [h1, hall]⟩
  by_cases hc0 : c = 48
  · subst hc0; rw [h0 rfl]; decide
  · have hd : t.dropWhile isDigit = [] := by
      have := (Json.takeWhile_all isDigit t [] ht (by simp)).2
      simpa using this
    have h3' := h3 hc0
    simp only [Json.intOK, hd]
    simp [hc0, h3']
    decide

/-- **`strconv.Itoa` prints a number literal of the JSON grammar** -/
theorem dec_numLitOK (i : Int) : numLitOK (dec i) = true := by
  obtain ⟨c, t, e, hc, ht, h0⟩ := natDigits_spec i.natAbs
  obtain ⟨k1, k2⟩ := digits_numLit c t hc ht (fun e0 => (h0 e0).2)
  have hne := (digit_uint8 c hc).2.1
  unfold dec numLitOK
  split
  · rw [e]
    have : isNumLit (45 :: c :: t) = Json.intOK (c :: t) := rfl
    rw [this, k1]
    simp only [List.all_cons] at k2 ⊢
    rw [k2]; decide
  · rw [e, isNumLit_of_ne c t hne, k1, k2]; rfl

/-! ## B. the compact text of a value, and the strict decoder on it -/

mutual
/-- the text of `v` without insignificant white space -/
def cVal : Val → B
  | .str s => jStr s
  | .int i => dec i
  | .bool b => if b then [116, 114, 117, 101] else [102, 97, 108, 115, 101]
  | .list [] => [91, 93]
  | .list (v :: vs) => 91 :: (cVal v ++ cElems vs ++ [93])
  | .map [] => [123, 125]
  | .map ((k, v) :: es) => 123 :: (jStr k ++ 58 :: cVal v ++ cEntries es ++ [125])
def cElems : List Val → B
  | [] => []
  | v :: vs => 44 :: (cVal v ++ cElems vs)
def cEntries : List (B × Val) → B
  | [] => []
  | (k, v) :: es => 44 :: (jStr k ++ 58 :: cVal v ++ cEntries es)
end

mutual
theorem toJ_WF : ∀ v : Val, (toJ v).WF = true
  | .str _ => by simp [toJ, JVal.WF]
  | .int i => by simpa [toJ, JVal.WF] using dec_numLitOK i
  | .bool _ => by simp [toJ, JVal.WF]
  | .list l => by simpa [toJ, JVal.WF] using toJList_WF l
  | .map m => by simpa [toJ, JVal.WF] using toJMems_WF m
theorem toJList_WF : ∀ l : List Val, (toJList l).WF = true
  | [] => by simp [toJList, JList.WF]
  | v :: vs => by simp [toJList, JList.WF, toJ_WF v, toJList_WF vs]
theorem toJMems_WF : ∀ m : List (B × Val), (toJMems m).WF = true
  | [] => by simp [toJMems, JMems.WF]
  | (k, v) :: es => by simp [toJMems, JMems.WF, toJ_WF v, toJMems_WF es]
end

theorem escByte_eq : escByte = Json.escByte := by funext c; rfl

/-- the body of a string literal of the writer is decoded to the string -/
theorem dec_body (s rest : B) : decStrBody (s.flatMap escByte ++ 34 :: rest) = some (s, rest) := by
  induction s with
  | nil => simp [Json.decStrBody_cons]
  | cons c s ih =>
    rw [List.flatMap_cons, List.append_assoc, escByte_eq, Json.dec_escByte, ← escByte_eq, ih]; rfl

theorem dec_jStr (s rest : B) : decStrBody ((s.flatMap escByte ++ [34]) ++ rest) = some (s, rest) := by
  rw [List.append_assoc]; exact dec_body s rest

/-- the first byte of a compact text -/
theorem cVal_head (v : Val) : ∃ c t, cVal v = c :: t ∧ c ≠ 93 ∧ c ≠ 125 := by
  match v with
  | .str s => exact ⟨34, _, by rw [cVal, jStr], by decide, by decide⟩
  | .int i =>
    obtain ⟨c, t, e, hc⟩ := Json.numLitOK_ne_nil (dec i) (dec_numLitOK i)
    have := Json.numChar_ne c hc
    exact ⟨c, t, by rw [cVal, e], this.2.2.2.2.2.2.1, this.2.2.2.2.2.2.2.1⟩
  | .bool true => exact ⟨116, [114, 117, 101], by simp [cVal], by decide, by decide⟩
  | .bool false => exact ⟨102, [97, 108, 115, 101], by simp [cVal], by decide, by decide⟩
  | .list [] => exact ⟨91, _, by rw [cVal], by decide, by decide⟩
  | .list (v :: vs) => exact ⟨91, _, by rw [cVal], by decide, by decide⟩
  | .map [] => exact ⟨123, _, by rw [cVal], by decide, by decide⟩
  | .map ((k, v) :: es) => exact ⟨123, _, by rw [cVal], by decide, by decide⟩

theorem noNumHead_elems (vs : List Val) (rest : B) : NoNumHead (cElems vs ++ 93 :: rest) := by
  cases vs with
  | nil => exact noNumHead_cons _ _ (by decide)
  | cons v vs => rw [cElems]; exact noNumHead_cons _ _ (by decide)

theorem noNumHead_entries (es : List (B × Val)) (rest : B) : NoNumHead (cEntries es ++ 125 :: rest) := by
  match es with
  | [] => exact noNumHead_cons _ _ (by decide)
  | (k, v) :: es => rw [cEntries]; exact noNumHead_cons _ _ (by decide)

mutual
  theorem dec_cVal : ∀ (v : Val) (rest : B), NoNumHead rest → ∀ fuel, (toJ v).size ≤ fuel →
      decVal fuel (cVal v ++ rest) = some (toJ v, rest)
    | .str s, rest, _, fuel, hf => by
      obtain ⟨n, rfl, _⟩ := fuel_succ (k := 0) (by simpa [toJ, JVal.size] using hf)
      rw [cVal, jStr, List.cons_append, decVal_cons]
      simp [dec_body, toJ]
    | .int i, rest, hr, fuel, hf => by
      have := Json.dec_enc_val (.num (dec i)) (by simpa [JVal.WF] using dec_numLitOK i) rest hr fuel
        (by simpa [toJ] using hf)
      simpa [cVal, toJ, Json.encVal] using this
    | .bool true, rest, hr, fuel, hf => by
      have := Json.dec_enc_val (.bool true) (by simp [JVal.WF]) rest hr fuel (by simpa [toJ] using hf)
      simpa [cVal, toJ, Json.encVal] using this
    | .bool false, rest, hr, fuel, hf => by
      have := Json.dec_enc_val (.bool false) (by simp [JVal.WF]) rest hr fuel (by simpa [toJ] using hf)
      simpa [cVal, toJ, Json.encVal] using this
    | .list [], rest, _, fuel, hf => by
      obtain ⟨n, rfl, _⟩ := fuel_succ (k := 0) (by simpa [toJ, toJList, JVal.size, JList.size] using hf)
      simp [cVal, toJ, toJList, decVal_cons]
    | .list (v :: vs), rest, hr, fuel, hf => by
      obtain ⟨n, rfl, hn⟩ := fuel_succ (k := (toJList (v :: vs)).size) (by simpa [toJ, JVal.size] using hf)
      obtain ⟨c, tl, hc, h93, _⟩ := cVal_head v
      have ih := dec_cElems (v :: vs) (by simp) rest n hn
      simp only [cElems, List.tail_cons, List.append_assoc] at ih
      rw [cVal, toJ, List.cons_append, decVal_cons]
      simp only [show (91 : UInt8) ≠ 34 from by decide, show (91 : UInt8) ≠ 123 from by decide, ↓reduceIte,
        List.append_assoc]
      rw [show ([93] : B) ++ rest = 93 :: rest from rfl, ih, hc]
      simp [h93]
    | .map [], rest, _, fuel, hf => by
      obtain ⟨n, rfl, _⟩ := fuel_succ (k := 0) (by simpa [toJ, toJMems, JVal.size, JMems.size] using hf)
      simp [cVal, toJ, toJMems, decVal_cons]
    | .map ((k, v) :: es), rest, hr, fuel, hf => by
      obtain ⟨n, rfl, hn⟩ := fuel_succ (k := (toJMems ((k, v) :: es)).size) (by simpa [toJ, JVal.size] using hf)
      have ih := dec_cEntries ((k, v) :: es) (by simp) rest n hn
      simp only [cEntries, List.tail_cons, List.append_assoc, List.cons_append] at ih
      rw [cVal, toJ, List.cons_append, decVal_cons]
      simp only [show (123 : UInt8) ≠ 34 from by decide, ↓reduceIte, List.append_assoc, List.cons_append,
        List.nil_append]
      rw [ih]
      simp [jStr]
  theorem dec_cElems : ∀ (l : List Val), l ≠ [] → ∀ (rest : B) fuel, (toJList l).size ≤ fuel →
      decElems fuel ((cElems l).tail ++ 93 :: rest) = some (toJList l, rest)
    | [], h, _, _, _ => absurd rfl h
    | [v], _, rest, fuel, hf => by
      obtain ⟨n, rfl, hn⟩ := fuel_succ (k := (toJ v).size) (by simpa [toJList, JList.size] using hf)
      have ih := dec_cVal v (93 :: rest) (noNumHead_cons _ _ (by decide)) n hn
      simp only [cElems, List.tail_cons, List.append_nil]
      rw [decElems_succ, ih]
      simp [toJList]
    | v :: v' :: vs, _, rest, fuel, hf => by
      have hf' : 1 + ((toJ v).size + (toJList (v' :: vs)).size) ≤ fuel := by
        simp only [toJList, JList.size] at hf ⊢; omega
      obtain ⟨n, rfl, hn⟩ := fuel_succ hf'
      have ih1 := dec_cVal v (44 :: (cVal v' ++ cElems vs ++ 93 :: rest))
        (noNumHead_cons _ _ (by decide)) n (by omega)
      have ih2 := dec_cElems (v' :: vs) (by simp) rest n (by omega)
      simp only [cElems, List.tail_cons, List.append_assoc, List.cons_append] at ih1 ih2 ⊢
      rw [decElems_succ, ih1]
      simp [ih2, toJList]
  theorem dec_cEntries : ∀ (m : List (B × Val)), m ≠ [] → ∀ (rest : B) fuel, (toJMems m).size ≤ fuel →
      decMems fuel ((cEntries m).tail ++ 125 :: rest) = some (toJMems m, rest)
    | [], h, _, _, _ => absurd rfl h
    | [(k, v)], _, rest, fuel, hf => by
      obtain ⟨n, rfl, hn⟩ := fuel_succ (k := (toJ v).size) (by simpa [toJMems, JMems.size] using hf)
      have ih := dec_cVal v (125 :: rest) (noNumHead_cons _ _ (by decide)) n hn
      simp only [cEntries, List.tail_cons, List.append_nil, jStr, List.cons_append, List.append_assoc,
        List.nil_append]
      rw [decMems_succ]
      simp only [ne_eq, not_true_eq_false, ↓reduceIte]
      rw [dec_body]
      simp [ih, toJMems]
    | (k, v) :: (k', v') :: es, _, rest, fuel, hf => by
      have hf' : 1 + ((toJ v).size + (toJMems ((k', v') :: es)).size) ≤ fuel := by
        simp only [toJMems, JMems.size] at hf ⊢; omega
      obtain ⟨n, rfl, hn⟩ := fuel_succ hf'
      have ih1 := dec_cVal v (44 :: (jStr k' ++ 58 :: cVal v' ++ cEntries es ++ 125 :: rest))
        (noNumHead_cons _ _ (by decide)) n (by omega)
      have ih2 := dec_cEntries ((k', v') :: es) (by simp) rest n (by omega)
      simp only [cEntries, List.tail_cons, List.append_assoc, List.cons_append] at ih1 ih2 ⊢
      rw [jStr, List.cons_append, decMems_succ]
      simp only [ne_eq, not_true_eq_false, ↓reduceIte, List.append_assoc, List.cons_append, List.nil_append]
      rw [dec_body]
      simp only [not_true_eq_false, ↓reduceIte]
      rw [ih1]
      simp [ih2, toJMems]
end

/-! ### fuel: twice the length of the compact text is enough -/

mutual
  theorem size_cVal : ∀ v : Val, (toJ v).size ≤ 2 * (cVal v).length + 1
    | .str _ => by simp [toJ, JVal.size]
    | .int _ => by simp [toJ, JVal.size]
    | .bool _ => by simp [toJ, JVal.size]
    | .list [] => by simp [toJ, toJList, JVal.size, JList.size]
    | .list (v :: vs) => by
      have h1 := size_cVal v
      have h2 := size_cElems vs
      simp only [toJ, toJList, JVal.size, JList.size, cVal, List.length_cons, List.length_append,
        List.length_nil] at h1 h2 ⊢
      omega
    | .map [] => by simp [toJ, toJMems, JVal.size, JMems.size]
    | .map ((k, v) :: es) => by
      have h1 := size_cVal v
      have h2 := size_cEntries es
      simp only [toJ, toJMems, JVal.size, JMems.size, cVal, List.length_cons, List.length_append,
        List.length_nil] at h1 h2 ⊢
      omega
  theorem size_cElems : ∀ l : List Val, (toJList l).size ≤ 2 * (cElems l).length
    | [] => by simp [toJList, JList.size]
    | v :: vs => by
      have h1 := size_cVal v
      have h2 := size_cElems vs
      simp only [toJList, JList.size, cElems, List.length_cons, List.length_append] at h1 h2 ⊢
      omega
  theorem size_cEntries : ∀ m : List (B × Val), (toJMems m).size ≤ 2 * (cEntries m).length
    | [] => by simp [toJMems, JMems.size]
    | (k, v) :: es => by
      have h1 := size_cVal v
      have h2 := size_cEntries es
      simp only [toJMems, JMems.size, cEntries, List.length_cons, List.length_append] at h1 h2 ⊢
      omega
end

/-- a text that strips to the compact text of `v` is decoded to `toJ v` -/
theorem decodeText_of_strip (t : B) (v : Val) (h : strip (.out false false) t = some (cVal v)) :
    decodeText t = some (toJ v) := by
  have hd := dec_cVal v [] noNumHead_nil (2 * (cVal v).length + 2) (by have := size_cVal v; omega)
  rw [List.append_nil] at hd
  unfold decodeText
  rw [h]
  simp only
  rw [hd]

/-! ## C. the white-space stripper on the indented text -/

def endsWord : Val → Bool
  | .int _ => true
  | .bool _ => true
  | _ => false

theorem map_map_app (x : Option B) (u w : B) : (x.map (w ++ ·)).map (u ++ ·) = x.map ((u ++ w) ++ ·) := by
  cases x <;> simp

theorem map_map_cons (x : Option B) (c : UInt8) (w : B) : (x.map (w ++ ·)).map (c :: ·) = x.map ((c :: w) ++ ·) := by
  cases x <;> simp

theorem map_cons_eq (x : Option B) (c : UInt8) : x.map (c :: ·) = x.map ([c] ++ ·) := by
  cases x <;> simp

theorem map_nil_app (x : Option B) : x.map (([] : B) ++ ·) = x := by
  cases x <;> simp

theorem strip_out_cons (pw g : Bool) (c : UInt8) (t : B) :
    strip (.out pw g) (c :: t) =
      if isWs c then strip (.out pw true) t
      else if c = 34 then (strip .str t).map (c :: ·)
      else if isWord c then (if pw && g then none else (strip (.out true false) t).map (c :: ·))
      else (strip (.out false false) t).map (c :: ·) := by
  rw [strip]

theorem strip_str_cons (c : UInt8) (t : B) :
    strip .str (c :: t) =
      if c = 34 then (strip (.out false false) t).map (c :: ·)
      else if c = 92 then (strip .esc t).map (c :: ·)
      else (strip .str t).map (c :: ·) := by
  rw [strip]

theorem strip_esc_cons (c : UInt8) (t : B) : strip .esc (c :: t) = (strip .str t).map (c :: ·) := by
  rw [strip]

theorem strip_ws (pw g : Bool) (c : UInt8) (t : B) (h : isWs c = true) :
    strip (.out pw g) (c :: t) = strip (.out pw true) t := by
  rw [strip_out_cons]; simp [h]

/-- a structural character (`[ ] { } , :`) from any state outside a string -/
theorem strip_struct (pw g : Bool) (c : UInt8) (t : B) (h1 : isWs c = false) (h2 : c ≠ 34) (h3 : isWord c = false) :
    strip (.out pw g) (c :: t) = (strip (.out false false) t).map (c :: ·) := by
  rw [strip_out_cons]; simp [h1, h2, h3]

theorem strip_quote (pw g : Bool) (t : B) : strip (.out pw g) (34 :: t) = (strip .str t).map (34 :: ·) := by
  rw [strip_out_cons]; simp [show isWs 34 = false by decide]

/-- `gap` only matters after a word -/
theorem strip_gap (g : Bool) (t : B) : strip (.out false g) t = strip (.out false false) t := by
  cases t with
  | nil => simp [strip]
  | cons c t => rw [strip_out_cons, strip_out_cons]; simp

theorem strip_wsrun_false (w : B) (hw : w.all isWs = true) (g : Bool) (t : B) :
    strip (.out false g) (w ++ t) = strip (.out false false) t := by
  induction w generalizing g with
  | nil => exact strip_gap g t
  | cons c w ih =>
    simp only [List.all_cons, Bool.and_eq_true] at hw
    rw [List.cons_append, strip_ws _ _ _ _ hw.1]; exact ih hw.2 true

theorem strip_wsrun_struct (w : B) (hw : w.all isWs = true) (pw g : Bool) (c : UInt8) (t : B)
    (h1 : isWs c = false) (h2 : c ≠ 34) (h3 : isWord c = false) :
    strip (.out pw g) (w ++ c :: t) = (strip (.out false false) t).map (c :: ·) := by
  induction w generalizing g with
  | nil => exact strip_struct pw g c t h1 h2 h3
  | cons d w ih =>
    simp only [List.all_cons, Bool.and_eq_true] at hw
    rw [List.cons_append, strip_ws _ _ _ _ hw.1]; exact ih hw.2 true

theorem ind_ws (d : Nat) : (ind d).all isWs = true := by
  simp [ind, List.all_replicate, show isWs 32 = true by decide]

/-! ### words (numbers, `true`, `false`) -/

set_option maxRecDepth 100000 in
theorem word_uint8 : ∀ c : UInt8, isWord c = true → isWs c = false ∧ c ≠ 34 := by
  apply forall_uint8
  decide

theorem strip_word_true (w : B) (hw : w.all isWord = true) (t : B) :
    strip (.out true false) (w ++ t) = (strip (.out true false) t).map (w ++ ·) := by
  induction w with
  | nil => rw [map_nil_app]; rfl
  | cons c w ih =>
    simp only [List.all_cons, Bool.and_eq_true] at hw
    obtain ⟨h1, h2⟩ := word_uint8 c hw.1
    rw [List.cons_append, strip_out_cons]
    simp only [h1, h2, hw.1, Bool.false_eq_true, ↓reduceIte, Bool.and_false]
    rw [ih hw.2, map_map_cons]

theorem strip_word (c : UInt8) (w : B) (hc : isWord c = true) (hw : w.all isWord = true) (g : Bool) (t : B) :
    strip (.out false g) (c :: w ++ t) = (strip (.out true false) t).map ((c :: w) ++ ·) := by
  obtain ⟨h1, h2⟩ := word_uint8 c hc
  rw [List.cons_append, strip_out_cons]
  simp only [h1, h2, hc, Bool.false_eq_true, ↓reduceIte, Bool.false_and]
  rw [strip_word_true w hw, map_map_cons]

theorem numChar_word (c : UInt8) (h : numChar c = true) : isWord c = true := by simp [isWord, h]

theorem strip_dec (i : Int) (g : Bool) (t : B) :
    strip (.out false g) (dec i ++ t) = (strip (.out true false) t).map (dec i ++ ·) := by
  have hok := dec_numLitOK i
  obtain ⟨c, w, e, hc⟩ := Json.numLitOK_ne_nil (dec i) hok
  simp only [numLitOK, Bool.and_eq_true] at hok
  rw [e] at hok ⊢
  have hall := Json.all_imp numChar_word _ hok.1
  simp only [List.all_cons, Bool.and_eq_true] at hall
  exact strip_word c w hall.1 hall.2 g t

/-! ### string literals -/

theorem strip_str_plain (c : UInt8) (t : B) (h1 : c ≠ 34) (h2 : c ≠ 92) :
    strip .str (c :: t) = (strip .str t).map (c :: ·) := by
  rw [strip_str_cons]; simp [h1, h2]

theorem strip_str_esc2 (e : UInt8) (t : B) : strip .str (92 :: e :: t) = (strip .str t).map ([92, e] ++ ·) := by
  rw [strip_str_cons]
  simp only [show (92 : UInt8) ≠ 34 from by decide, ↓reduceIte]
  rw [strip_esc_cons]
  cases strip .str t <;> simp

set_option maxRecDepth 100000 in
theorem hex_uint8 : ∀ c : UInt8, hexDigit (c >>> 4) ≠ 34 ∧ hexDigit (c >>> 4) ≠ 92 ∧
    hexDigit (c &&& 15) ≠ 34 ∧ hexDigit (c &&& 15) ≠ 92 := by
  apply forall_uint8
  decide

theorem strip_escByte (c : UInt8) (t : B) : strip .str (escByte c ++ t) = (strip .str t).map (escByte c ++ ·) := by
  unfold escByte
  split
  · exact strip_str_esc2 34 t
  split
  · exact strip_str_esc2 92 t
  split
  · exact strip_str_esc2 110 t
  split
  · exact strip_str_esc2 114 t
  split
  · exact strip_str_esc2 116 t
  split
  · obtain ⟨k1, k2, k3, k4⟩ := hex_uint8 c
    show strip .str (92 :: 117 :: 48 :: 48 :: hexDigit (c >>> 4) :: hexDigit (c &&& 15) :: t) = _
    rw [strip_str_esc2, strip_str_plain 48 _ (by decide) (by decide), strip_str_plain 48 _ (by decide) (by decide),
      strip_str_plain _ _ k1 k2, strip_str_plain _ _ k3 k4]
    cases strip .str t <;> simp
  · rename_i h1 h2 _ _ _ _
    show strip .str (c :: t) = _
    rw [strip_str_plain c t h1 h2]
    cases strip .str t <;> simp

theorem strip_body (s t : B) :
    strip .str (s.flatMap escByte ++ 34 :: t) = (strip (.out false false) t).map (s.flatMap escByte ++ 34 :: ·) := by
  induction s with
  | nil => rw [List.flatMap_nil, List.nil_append, strip_str_cons]; simp
  | cons c s ih =>
    rw [List.flatMap_cons, List.append_assoc, strip_escByte, ih]
    cases strip (.out false false) t <;> simp

/-- a string literal is copied, from any state outside a string -/
theorem strip_jStr (pw g : Bool) (s t : B) :
    strip (.out pw g) (jStr s ++ t) = (strip (.out false false) t).map (jStr s ++ ·) := by
  rw [jStr, List.cons_append, List.append_assoc, strip_quote]
  rw [show ([34] : B) ++ t = 34 :: t from rfl, strip_body]
  cases strip (.out false false) t <;> simp

/-! ### values -/

theorem ws10 (w : B) (hw : w.all isWs = true) : ((10 : UInt8) :: w).all isWs = true := by
  simp only [List.all_cons, hw, Bool.and_true]; decide

mutual
  /-- **the stripper turns the indented text of a value into its compact text** -/
  theorem strip_jVal : ∀ (v : Val) (d : Nat) (g : Bool) (t : B),
      strip (.out false g) (jVal d v ++ t) = (strip (.out (endsWord v) false) t).map (cVal v ++ ·)
    | .str s, d, g, t => by
      rw [jVal, cVal, strip_jStr]; rfl
    | .int i, d, g, t => by
      rw [jVal, cVal, strip_dec]; rfl
    | .bool true, d, g, t => by
      simp only [jVal, cVal, endsWord, ↓reduceIte]
      exact strip_word 116 [114, 117, 101] (by decide) (by decide) g t
    | .bool false, d, g, t => by
      simp only [jVal, cVal, endsWord, Bool.false_eq_true, ↓reduceIte]
      exact strip_word 102 [97, 108, 115, 101] (by decide) (by decide) g t
    | .list [], d, g, t => by
      simp only [jVal, cVal, endsWord, List.cons_append, List.nil_append]
      rw [strip_struct _ _ 91 _ (by decide) (by decide) (by decide),
        strip_struct _ _ 93 _ (by decide) (by decide) (by decide)]
      cases strip (.out false false) t <;> simp
    | .list (v :: vs), d, g, t => by
      have h1 := strip_jVal v (d + 1) false (jElems (d + 1) vs ++ ((10 :: ind d) ++ 93 :: t))
      have h2 := strip_jElems vs (d + 1) (endsWord v) false (10 :: ind d) (ws10 _ (ind_ws d)) t
      simp only [jVal, cVal, endsWord, List.cons_append, List.nil_append, List.append_assoc] at h1 h2 ⊢
      rw [strip_struct _ _ 91 _ (by decide) (by decide) (by decide), strip_ws _ _ 10 _ (by decide),
        strip_wsrun_false _ (ind_ws _), h1, h2]
      cases strip (.out false false) t <;> simp
    | .map [], d, g, t => by
      simp only [jVal, cVal, endsWord, List.cons_append, List.nil_append]
      rw [strip_struct _ _ 123 _ (by decide) (by decide) (by decide),
        strip_struct _ _ 125 _ (by decide) (by decide) (by decide)]
      cases strip (.out false false) t <;> simp
    | .map ((k, v) :: es), d, g, t => by
      have h1 := strip_jVal v (d + 1) false (jEntries (d + 1) es ++ ((10 :: ind d) ++ 125 :: t))
      have h2 := strip_jEntries es (d + 1) (endsWord v) false (10 :: ind d) (ws10 _ (ind_ws d)) t
      simp only [jVal, cVal, endsWord, List.cons_append, List.nil_append, List.append_assoc] at h1 h2 ⊢
      rw [strip_struct _ _ 123 _ (by decide) (by decide) (by decide), strip_ws _ _ 10 _ (by decide),
        strip_wsrun_false _ (ind_ws _), strip_jStr, strip_struct _ _ 58 _ (by decide) (by decide) (by decide),
        strip_ws _ _ 32 _ (by decide), strip_gap, h1, h2]
      cases strip (.out false false) t <;> simp
  /-- the following elements, up to the closing bracket (after any white space `w`) -/
  theorem strip_jElems : ∀ (vs : List Val) (d : Nat) (pw g : Bool) (w : B), w.all isWs = true → ∀ (t : B),
      strip (.out pw g) (jElems d vs ++ (w ++ 93 :: t)) = (strip (.out false false) t).map (cElems vs ++ 93 :: ·)
    | [], d, pw, g, w, hw, t => by
      simp only [jElems, cElems, List.nil_append]
      exact strip_wsrun_struct w hw pw g 93 t (by decide) (by decide) (by decide)
    | v :: vs, d, pw, g, w, hw, t => by
      have h1 := strip_jVal v d false (jElems d vs ++ (w ++ 93 :: t))
      have h2 := strip_jElems vs d (endsWord v) false w hw t
      simp only [jElems, cElems, List.cons_append, List.nil_append, List.append_assoc] at h1 h2 ⊢
      rw [strip_struct _ _ 44 _ (by decide) (by decide) (by decide), strip_ws _ _ 10 _ (by decide),
        strip_wsrun_false _ (ind_ws _), h1, h2]
      cases strip (.out false false) t <;> simp
  /-- the following entries, up to the closing brace -/
  theorem strip_jEntries : ∀ (es : List (B × Val)) (d : Nat) (pw g : Bool) (w : B), w.all isWs = true → ∀ (t : B),
      strip (.out pw g) (jEntries d es ++ (w ++ 125 :: t)) = (strip (.out false false) t).map (cEntries es ++ 125 :: ·)
    | [], d, pw, g, w, hw, t => by
      simp only [jEntries, cEntries, List.nil_append]
      exact strip_wsrun_struct w hw pw g 125 t (by decide) (by decide) (by decide)
    | (k, v) :: es, d, pw, g, w, hw, t => by
      have h1 := strip_jVal v d false (jEntries d es ++ (w ++ 125 :: t))
      have h2 := strip_jEntries es d (endsWord v) false w hw t
      simp only [jEntries, cEntries, List.cons_append, List.nil_append, List.append_assoc] at h1 h2 ⊢
      rw [strip_struct _ _ 44 _ (by decide) (by decide) (by decide), strip_ws _ _ 10 _ (by decide),
        strip_wsrun_false _ (ind_ws _), strip_jStr, strip_struct _ _ 58 _ (by decide) (by decide) (by decide),
        strip_ws _ _ 32 _ (by decide), strip_gap, h1, h2]
      cases strip (.out false false) t <;> simp
end

theorem strip_end (pw : Bool) : strip (.out pw false) [] = some [] := by rw [strip]

/-! ## D. the written text is read back -/

/-- **the indented text of a value denotes the value** -/
theorem decodeText_jVal (v : Val) : decodeText (jVal 0 v) = some (toJ v) := by
  apply decodeText_of_strip
  have := strip_jVal v 0 false []
  rw [List.append_nil, strip_end] at this
  rw [this]; simp

theorem jsonTail_eq (sh : UInt8) (rs : List Rec) : jsonTail sh rs = jElems 0 (rs.map (recordVal sh)) := by
  induction rs with
  | nil => simp [jsonTail, jElems]
  | cons r rs ih =>
    rw [jsonTail, List.map_cons, jElems, ih, jsonRecord]; rfl

/-- what the stripper leaves of a whole file: the compact text of the array of the records -/
theorem strip_file (sh : UInt8) (rs : List Rec) :
    strip (.out false false) (Writer.openJson ++ fmtJsonBatch sh rs ++ Writer.closeJson)
      = some (cVal (.list (rs.map (recordVal sh)))) := by
  cases rs with
  | nil => simp only [fmtJsonBatch, List.map_nil, cVal]; decide
  | cons r rs =>
    have h1 := strip_jVal (recordVal sh r) 0 true (jElems 0 (rs.map (recordVal sh)) ++ ([10] ++ 93 :: [10]))
    have h2 := strip_jElems (rs.map (recordVal sh)) 0 (endsWord (recordVal sh r)) false [10] (by decide) [10]
    have h3 : strip (.out false false) [10] = some [] := by decide
    rw [fmtJsonBatch, jsonTail_eq, jsonRecord, List.map_cons, cVal]
    simp only [Writer.openJson, Writer.closeJson, List.cons_append, List.nil_append, List.append_assoc] at h1 h2 ⊢
    rw [strip_struct _ _ 91 _ (by decide) (by decide) (by decide), strip_ws _ _ 10 _ (by decide),
      strip_ws _ _ 32 _ (by decide), strip_ws _ _ 32 _ (by decide), h1, h2, h3]
    simp

/-- **the whole file `[\n  record(,\n  record)*\n]\n` is one JSON array holding the records' objects in order** -/
theorem decodeText_file (sh : UInt8) (rs : List Rec) :
    decodeText (Writer.openJson ++ fmtJsonBatch sh rs ++ Writer.closeJson) = some (fileJ sh rs) := by
  have := decodeText_of_strip _ _ (strip_file sh rs)
  rw [this, toJ, fileJ]

/-- the `i`-th element of the decoded file is the object of the `i`-th record -/
theorem fileJ_get (sh : UInt8) (rs : List Rec) (i : Nat) :
    (match fileJ sh rs with | .arr l => JsonRead.JList.get? l i | _ => none) = (rs[i]?).map (recJ sh) := by
  simp only [fileJ]
  induction rs generalizing i with
  | nil => simp [toJList, JsonRead.JList.get?]
  | cons r rs ih =>
    cases i with
    | zero => simp [toJList, JsonRead.JList.get?, recJ]
    | succ i => simpa [toJList, JsonRead.JList.get?] using ih i

/-- non-vacuity: the text of a concrete value (nested containers, an escaped quote, a control character printed
`\u0001`, raw U+2028) is evaluated through `jVal`, `strip` and the strict decoder -/
example :
    decodeText (jVal 0 (.map [([107], .list [.bool true, .str [34, 1, 0xE2, 0x80, 0xA8], .list [], .map []]),
      ([105, 100], .bool false)]))
    = some (.obj (.cons [107] (.arr (.cons (.bool true) (.cons (.str [34, 1, 0xE2, 0x80, 0xA8])
        (.cons (.arr .nil) (.cons (.obj .nil) .nil)))))
        (.cons [105, 100] (.bool false) .nil))) := by
  decide

/-- the empty file; white space inside a token is rejected by the reader -/
example : decodeText (Writer.openJson ++ fmtJsonBatch 33 [] ++ Writer.closeJson) = some (.arr .nil) := by decide
example : decodeText [91, 10, 32, 32, 49, 32, 50, 10, 93, 10] = none := by decide

/-- a concrete file of two records (kernel evaluation: the keys are `String.toUTF8` of literals, which the
elaborator's `decide` does not unfold) -/
example :
    decodeText (Writer.openJson ++ fmtJsonBatch 33
      [⟨[97], [97, 99], none, [], [([107], .list [.bool true, .str [34, 1]])]⟩, ⟨[98], [], some [0], [], []⟩]
      ++ Writer.closeJson)
    = some (.arr (.cons (.obj (.cons [97, 110, 110, 111, 116, 97, 116, 105, 111, 110, 115]
          (.obj (.cons [107] (.arr (.cons (.bool true) (.cons (.str [34, 1]) .nil))) .nil))
          (.cons [105, 100] (.str [97]) (.cons [115, 101, 113, 117, 101, 110, 99, 101] (.str [97, 99]) .nil))))
        (.cons (.obj (.cons [105, 100] (.str [98])
          (.cons [113, 117, 97, 108, 105, 116, 105, 101, 115] (.str [33]) .nil))) .nil))) := by
  decide +kernel

end ObiVerif.WriterJson
