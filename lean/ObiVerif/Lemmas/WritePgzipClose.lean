import ObiVerif.Lemmas.WritePgzipLoop
/-!
# `Write` and `Close` of the transcribed pgzip writer; compressed `Wfile.Close` over it (C18)
-/
namespace ObiVerif.WriteErr

/-- invariant of a live writer (no error pushed), between two calls -/
structure PLive0 (c : PCodec) (limit : Nat) (cf : Bool) (z : PZ) : Prop where
  cfe : z.sink.closeFails = cf
  err : z.err = false
  hdr0 : z.wroteHeader = false → z.acc = [] ∧ z.done = [] ∧ z.cur = [] ∧ z.sink.got = [] ∧ z.pend = [] ∧
    z.sink.limit = limit ∧ z.lfailed = false ∧ z.listening = false
  hdr1 : z.wroteHeader = true → Tracks c limit z z.acc ∧ z.listening = true

structure PLive (c : PCodec) (limit : Nat) (cf : Bool) (z : PZ) : Prop extends PLive0 c limit cf z where
  ncl : z.closed = false

/-- a dead writer: the sink holds the first `limit` bytes of the stream of `x`, which does not fit -/
structure PDead (c : PCodec) (limit : Nat) (cf : Bool) (z : PZ) (x : Bytes) : Prop where
  cfe : z.sink.closeFails = cf
  err : z.err = true
  core : Core limit (c.pre x) z

theorem sync_not_listening (s : Sched) {z : PZ} (h : z.listening = false) :
    z.sync s = { z with tick := z.tick + 1 } := by
  unfold PZ.sync; exact lrun_not_listening _ h

theorem sync_pend_nil (s : Sched) {z : PZ} (h : z.pend = []) : z.sync s = { z with tick := z.tick + 1 } := by
  unfold PZ.sync; exact lrun_pend_nil _ h

theorem feed_nil (c : PCodec) : c.feed [] = ⟨[], [], []⟩ := rfl

theorem pre_nil (c : PCodec) : c.pre [] = c.hdr := by unfold PCodec.pre; rw [feed_nil]; simp

/-- the header, written by the caller itself on the first `Write` (or by `Close`) -/
theorem hdr_spec (c : PCodec) (hbs : 0 < c.bs) {limit : Nat} (z : PZ) (he : z.err = false) (hd : z.done = [])
    (hg : z.sink.got = []) (hp : z.pend = []) (hl : z.sink.limit = limit) (hf : z.lfailed = false)
    (hli : z.listening = false) :
    ((z.sink.write c.hdr).2.2 = true →
      Core limit (c.pre []) { z with wroteHeader := true, sink := (z.sink.write c.hdr).1, err := true }) ∧
    ((z.sink.write c.hdr).2.2 = false →
      Tracks c limit { z with wroteHeader := true, listening := true, sink := (z.sink.write c.hdr).1, cur := [] } []) := by
  have hcap : z.sink.got.length ≤ z.sink.limit := by rw [hg]; exact Nat.zero_le _
  constructor
  · intro hr
    have hw := Sink.write_err z.sink c.hdr hcap hr
    refine ⟨by rw [Sink.write_limit]; exact hl, fun h => (by cases h), fun _ => ⟨Or.inr hli, c.hdr, ?_, ?_, ?_⟩⟩
    · rw [pre_nil]; exact List.prefix_refl _
    · have := hw.2; rw [hg, hl] at this; simpa using this
    · show (z.sink.write c.hdr).1.got = _
      have hpre : (z.sink.write c.hdr).1.got <+: c.hdr := by
        rw [Sink.write_got, hg]; exact List.take_prefix _ _
      rw [List.prefix_iff_eq_take.mp hpre, hw.1, hl]
  · intro hr
    have hn := Sink.write_ok_n z.sink c.hdr hr
    have hgot : (z.sink.write c.hdr).1.got = c.hdr := by
      rw [Sink.write_got, hn, List.take_length, hg]; rfl
    refine ⟨⟨by rw [Sink.write_limit]; exact hl, fun _ => ⟨hf, ?_, ?_⟩, fun h => ?_⟩, ?_, rfl, hbs⟩
    · show (z.sink.write c.hdr).1.got ++ z.pend.flatten = c.pre []
      rw [hgot, hp, pre_nil]; simp
    · have := Sink.write_cap z.sink c.hdr hcap
      rw [hl] at this; exact this
    · have : z.err = true := h
      rw [he] at this; cases this
    · show (c.feed []).done = z.done
      rw [hd]; rfl

theorem tracks_congr {c : PCodec} {limit : Nat} {z z' : PZ} {X : Bytes} (h : Tracks c limit z X)
    (h1 : z'.sink = z.sink) (h2 : z'.err = z.err) (h3 : z'.lfailed = z.lfailed) (h4 : z'.pend = z.pend)
    (h5 : z'.listening = z.listening) (h6 : z'.done = z.done) (h7 : z'.cur = z.cur) : Tracks c limit z' X := by
  refine ⟨⟨by rw [h1]; exact h.core.lim, ?_, ?_⟩, by rw [h6]; exact h.fd, by rw [h7]; exact h.fc, by rw [h7]; exact h.lt⟩
  · intro he; rw [h2] at he; rw [h3, h1, h4]; exact h.core.live he
  · intro he; rw [h2] at he; rw [h3, h1, h5]; exact h.core.dead he

theorem core_congr {limit : Nat} {V : Bytes} {z z' : PZ} (h : Core limit V z)
    (h1 : z'.sink = z.sink) (h2 : z'.err = z.err) (h3 : z'.lfailed = z.lfailed) (h4 : z'.pend = z.pend)
    (h5 : z'.listening = z.listening) : Core limit V z' := by
  refine ⟨by rw [h1]; exact h.lim, ?_, ?_⟩
  · intro he; rw [h2] at he; rw [h3, h1, h4]; exact h.live he
  · intro he; rw [h2] at he; rw [h3, h1, h5]; exact h.dead he

/-- what `Write` keeps, whatever the state -/
theorem write0_keep (c : PCodec) (s : Sched) (z : PZ) (p : Bytes) :
    (PZ.write0 c s z p).1.acc = z.acc ∧ (PZ.write0 c s z p).1.closed = z.closed ∧
    (PZ.write0 c s z p).1.sink.closeFails = z.sink.closeFails := by
  unfold PZ.write0
  have hf := sync_frame s z
  dsimp only
  split
  · exact ⟨hf.ac, hf.cl, hf.cf⟩
  · split
    · split
      · exact ⟨hf.ac, hf.cl, hf.cf⟩
      · have hl := loop_frame c s (p.length + 1)
          { z.sync s with wroteHeader := true, listening := true, sink := ((z.sync s).sink.write c.hdr).1, cur := [] } p p.length
        exact ⟨hl.ac.trans hf.ac, hl.cl.trans hf.cl, hl.cf.trans hf.cf⟩
    · have hl := loop_frame c s (p.length + 1) (z.sync s) p p.length
      exact ⟨hl.ac.trans hf.ac, hl.cl.trans hf.cl, hl.cf.trans hf.cf⟩

/-- `Write` on a writer that has not written its header yet (no listener: `sync` only counts the observation) -/
theorem write0_fresh (c : PCodec) (s : Sched) (z : PZ) (p : Bytes) (hli : z.listening = false) (he : z.err = false)
    (hwh : z.wroteHeader = false) :
    PZ.write0 c s z p =
      if (z.sink.write c.hdr).2.2 = true then
        (({ z with tick := z.tick + 1, wroteHeader := true, sink := (z.sink.write c.hdr).1, err := true } : PZ),
          (z.sink.write c.hdr).2.1, true)
      else PZ.loop c s (p.length + 1)
        ({ z with tick := z.tick + 1, wroteHeader := true, listening := true, sink := (z.sink.write c.hdr).1, cur := [] } : PZ)
        p p.length := by
  unfold PZ.write0
  rw [sync_not_listening s hli]
  simp only [he, hwh, Bool.false_eq_true, if_false, Bool.not_false, if_true]

theorem write0_spec (c : PCodec) (hbs : 0 < c.bs) (s : Sched) {limit : Nat} {cf : Bool} (z : PZ) (p : Bytes)
    (h : PLive0 c limit cf z) (hcl : p.length ≠ 0 → z.closed = false) :
    ((PZ.write0 c s z p).2.2 = false → (PZ.write0 c s z p).2.1 = p.length ∧ (PZ.write0 c s z p).1.err = false ∧
      Tracks c limit (PZ.write0 c s z p).1 (z.acc ++ p) ∧ (PZ.write0 c s z p).1.listening = true ∧
      (PZ.write0 c s z p).1.wroteHeader = true) ∧
    ((PZ.write0 c s z p).2.2 = true → (PZ.write0 c s z p).1.err = true ∧
      Core limit (c.pre (z.acc ++ p)) (PZ.write0 c s z p).1) := by
  unfold PZ.write0
  have hf := sync_frame s z
  have hd := sync_dc s z
  dsimp only
  cases hwh : z.wroteHeader with
  | true =>
    obtain ⟨hT, hli⟩ := h.hdr1 hwh
    have hT' : Tracks c limit (z.sync s) z.acc :=
      ⟨sync_core s hT.core, hT.fd.trans hd.dn.symm, hT.fc.trans hd.cu.symm, by rw [hd.cu]; exact hT.lt⟩
    by_cases he : (z.sync s).err = true
    · rw [if_pos he]
      exact ⟨fun hh => absurd hh (by simp), fun _ => ⟨he, core_dead_mono hT'.core he (pre_mono c _ _)⟩⟩
    · rw [if_neg he]
      have hw' : (!(z.sync s).wroteHeader) = false := by rw [hf.wh, hwh]; rfl
      rw [hw']
      simp only [Bool.false_eq_true, if_false]
      have hl := loop_spec c hbs s (p.length + 1) (z.sync s) p p.length z.acc (Nat.lt_succ_self _) hT'
        (fun hp => hf.cl.trans (hcl hp))
      have hfr := loop_frame c s (p.length + 1) (z.sync s) p p.length
      refine ⟨fun hh => ?_, hl.2⟩
      obtain ⟨a, b, d⟩ := hl.1 hh
      exact ⟨a, b, d, hfr.li.trans (hf.li.trans hli), hfr.wh.trans (hf.wh.trans hwh)⟩
  | false =>
    obtain ⟨hacc, hdn, hcu, hgot, hpend, hlim, hlf, hli⟩ := h.hdr0 hwh
    have he : z.err = false := h.err
    have hs := hdr_spec c hbs (limit := limit) z he hdn hgot hpend hlim hlf hli
    have hap : z.acc ++ p = p := by rw [hacc]; rfl
    have hfresh := write0_fresh c s z p hli he hwh
    unfold PZ.write0 at hfresh
    dsimp only at hfresh
    rw [hfresh, hap]
    by_cases hr : (z.sink.write c.hdr).2.2 = true
    · rw [if_pos hr]
      refine ⟨fun hh => absurd hh (by simp), fun _ => ⟨rfl, ?_⟩⟩
      have hc' : Core limit (c.pre []) ({ z with tick := z.tick + 1, wroteHeader := true, sink := (z.sink.write c.hdr).1, err := true } : PZ) :=
        core_congr (hs.1 hr) rfl rfl rfl rfl rfl
      exact core_dead_mono hc' rfl (pre_mono c [] p)
    · rw [if_neg hr]
      have hr' : (z.sink.write c.hdr).2.2 = false := by simpa using hr
      have hT' : Tracks c limit ({ z with tick := z.tick + 1, wroteHeader := true, listening := true, sink := (z.sink.write c.hdr).1, cur := [] } : PZ) [] :=
        tracks_congr (hs.2 hr') rfl rfl rfl rfl rfl rfl rfl
      have hl := loop_spec c hbs s (p.length + 1) _ p p.length [] (Nat.lt_succ_self _) hT' (fun hp => hcl hp)
      have hfr := loop_frame c s (p.length + 1) ({ z with tick := z.tick + 1, wroteHeader := true, listening := true, sink := (z.sink.write c.hdr).1, cur := [] } : PZ) p p.length
      simp only [List.nil_append] at hl
      refine ⟨fun hh => ?_, hl.2⟩
      obtain ⟨a, b, d⟩ := hl.1 hh
      exact ⟨a, b, d, hfr.li, hfr.wh⟩

/-- the law of the transcribed pgzip writer as the device under `bufio.Writer` -/
theorem pzLaw (c : PCodec) (hbs : 0 < c.bs) (s : Sched) (limit : Nat) (cf : Bool) :
    HLaw (PZ.write c s) PZ.acc (PDead c limit cf) (PLive c limit cf) := by
  refine ⟨?_, ?_, ?_⟩
  · intro z p
    show (PZ.write0 c s z p).1.acc ++ _ = _
    rw [(write0_keep c s z p).1]; rfl
  · intro z p hP hr
    have hk := write0_keep c s z p
    have hs := (write0_spec c hbs s z p hP.toPLive0 (fun _ => hP.ncl)).1 hr
    obtain ⟨hn, he, hT, hli, hwh⟩ := hs
    refine ⟨hn, ⟨⟨hk.2.2.trans hP.cfe, he, fun h0 => ?_, fun _ => ⟨?_, hli⟩⟩, hk.2.1.trans hP.ncl⟩⟩
    · have : (PZ.write0 c s z p).1.wroteHeader = false := h0
      rw [hwh] at this; cases this
    · have hacc : (PZ.write c s z p).1.acc = z.acc ++ p := by
        show (PZ.write0 c s z p).1.acc ++ p.take (PZ.write0 c s z p).2.1 = _
        rw [hk.1, hn, List.take_length]
      rw [hacc]
      exact tracks_congr hT rfl rfl rfl rfl rfl rfl rfl
  · intro z p hP hr
    have hk := write0_keep c s z p
    have hs := (write0_spec c hbs s z p hP.toPLive0 (fun _ => hP.ncl)).2 hr
    exact ⟨z.acc ++ p, List.prefix_refl _, ⟨hk.2.2.trans hP.cfe, hs.1, core_congr hs.2 rfl rfl rfl rfl rfl⟩⟩

theorem pinv_init (c : PCodec) (size limit : Nat) (cf : Bool) :
    HInv PZ.acc (PDead c limit cf) (PLive c limit cf) (⟨size, [], false, pz0 limit cf⟩ : GW PZ) [] := by
  refine ⟨List.prefix_refl _, fun _ => ⟨rfl, ⟨⟨rfl, rfl, fun _ => ⟨rfl, rfl, rfl, rfl, rfl, rfl, rfl, rfl⟩, fun h => ?_⟩, rfl⟩⟩,
    fun h => by cases h⟩
  cases h

/-! ## `Close` -/

theorem foldl_feed1_dig (c : PCodec) (l : Bytes) (f : Feed) :
    (l.foldl c.feed1 f).done ++ (l.foldl c.feed1 f).cur = f.done ++ f.cur ++ l := by
  induction l generalizing f with
  | nil => simp
  | cons x t ih =>
    rw [List.foldl_cons, ih]
    unfold PCodec.feed1
    split <;> simp

theorem feed_dig (c : PCodec) (e : Bytes) : (c.feed e).done ++ (c.feed e).cur = e := by
  unfold PCodec.feed; rw [foldl_feed1_dig]; rfl

theorem stream_eq (c : PCodec) (e : Bytes) :
    c.toCodec.stream e = c.pre e ++ c.blk (c.feed e).done (c.feed e).cur true ++ c.trl e := by
  unfold Codec.stream PCodec.toCodec PCodec.fin; simp

theorem core_dead_result {limit : Nat} {V S : Bytes} {z : PZ} (h : Core limit V z) (he : z.err = true)
    (hp : V <+: S) : z.sink.got = S.take limit ∧ limit < S.length := by
  obtain ⟨_, t, h2, h3, h4⟩ := h.dead he
  have hts : t <+: S := List.IsPrefix.trans h2 hp
  exact ⟨by rw [h4]; exact prefix_take_eq hts (Nat.le_of_lt h3), Nat.lt_of_lt_of_le h3 hts.length_le⟩

theorem closeTail_spec (c : PCodec) (s : Sched) {limit : Nat} (z1 : PZ) (e : Bytes)
    (hT : Tracks c limit z1 e) (hli : z1.listening = true) (hcl : z1.closed = true) :
    (PZ.closeTail c s z1).1.sink.got = (c.toCodec.stream e).take limit ∧
    ((PZ.closeTail c s z1).2 = true ↔ limit < (c.toCodec.stream e).length) ∧
    (PZ.closeTail c s z1).1.sink.closeFails = z1.sink.closeFails := by
  unfold PZ.closeTail
  have hcc := cc_spec c s true hT.core
  have hfr := cc_frame c s true z1
  generalize z1.compressCurrent c s true = z2 at hcc hfr ⊢
  have hf3 := sync_frame s z2
  have hcf : (z2.sync s).sink.closeFails = z1.sink.closeFails := hf3.cf.trans hfr.cf
  have hpre1 : c.pre e <+: c.toCodec.stream e := by
    rw [stream_eq, List.append_assoc]; exact List.prefix_append _ _
  have hpre2 : c.pre e ++ c.blk z1.done z1.cur z1.closed <+: c.toCodec.stream e := by
    rw [stream_eq, ← hT.fd, ← hT.fc, hcl]; exact List.prefix_append _ _
  dsimp only
  by_cases he3 : (z2.sync s).err = true
  · rw [if_pos he3]
    rcases hcc with ⟨_, hcv⟩ | ⟨hcv, _, _, _⟩
    · obtain ⟨a, b⟩ := core_dead_result (sync_core s hcv) he3 hpre1
      exact ⟨a, ⟨fun _ => b, fun _ => rfl⟩, hcf⟩
    · obtain ⟨a, b⟩ := core_dead_result (sync_core s hcv) he3 hpre2
      exact ⟨a, ⟨fun _ => b, fun _ => rfl⟩, hcf⟩
  · rw [if_neg he3]
    have he3' : (z2.sync s).err = false := by simpa using he3
    have he2 : z2.err = false := sync_err_false he3'
    rcases hcc with ⟨hbad, _⟩ | ⟨hcv, hdn, hcu, hpn⟩
    · rw [he2] at hbad; cases hbad
    · have hp2 : z2.pend = [] := hpn rfl hli
      have hz3 : z2.sync s = { z2 with tick := z2.tick + 1 } := sync_pend_nil s hp2
      obtain ⟨_, hv, hcap⟩ := hcv.live he2
      rw [hp2] at hv
      simp only [List.flatten_nil, List.append_nil] at hv
      have hdig : (z2.sync s).done ++ (z2.sync s).cur = e := by
        rw [hz3]
        show z2.done ++ z2.cur = e
        rw [hdn, hcu, List.append_nil, ← hT.fd, ← hT.fc]; exact feed_dig c e
      have hsink : (z2.sync s).sink = z2.sink := by rw [hz3]
      rw [hdig, hsink]
      have hS : c.toCodec.stream e = z2.sink.got ++ c.trl e := by
        rw [stream_eq, hv, ← hT.fd, ← hT.fc, hcl]
      have hcap' : z2.sink.got.length ≤ z2.sink.limit := by rw [hcv.lim]; exact hcap
      have hcf2 : z2.sink.closeFails = z1.sink.closeFails := hfr.cf
      by_cases hr : (z2.sink.write (c.trl e)).2.2 = true
      · rw [if_pos hr]
        have hw := Sink.write_err z2.sink (c.trl e) hcap' hr
        refine ⟨?_, ⟨fun _ => ?_, fun _ => rfl⟩, hcf2⟩
        · show (z2.sink.write (c.trl e)).1.got = _
          have hpre : (z2.sink.write (c.trl e)).1.got <+: c.toCodec.stream e := by
            rw [hS, Sink.write_got]; exact (List.prefix_append_right_inj _).mpr (List.take_prefix _ _)
          rw [List.prefix_iff_eq_take.mp hpre, hw.1, hcv.lim]
        · rw [hS, List.length_append, ← hcv.lim]; exact hw.2
      · rw [if_neg hr]
        have hr' : (z2.sink.write (c.trl e)).2.2 = false := by simpa using hr
        have hn := Sink.write_ok_n z2.sink (c.trl e) hr'
        have hg : (z2.sink.write (c.trl e)).1.got = c.toCodec.stream e := by
          rw [Sink.write_got, hn, List.take_length, hS]
        have hle : (c.toCodec.stream e).length ≤ limit := by
          have := Sink.write_cap z2.sink (c.trl e) hcap'
          rw [hg, hcv.lim] at this; exact this
        refine ⟨?_, ⟨fun hh => (by cases hh), fun hh => (by omega)⟩, hcf2⟩
        show (z2.sink.write (c.trl e)).1.got = _
        rw [hg, List.take_of_length_le hle]

/-- `Close` when the pushed error is visible at its entry -/
theorem close_err (c : PCodec) (s : Sched) (z : PZ) (he : (z.sync s).err = true) :
    PZ.close c s z = (z.sync s, true) := by
  unfold PZ.close
  dsimp only
  rw [if_pos he]

/-- `Close` of a writer that has written its header -/
theorem close_hdr (c : PCodec) (s : Sched) (z : PZ) (he : (z.sync s).err = false) (hw : (z.sync s).wroteHeader = true) :
    PZ.close c s z = PZ.closeTail c s ({ z.sync s with closed := true } : PZ) := by
  unfold PZ.close
  simp only [he, hw, Bool.false_eq_true, if_false, if_true]

/-- `Close` of a writer that never wrote anything: `z.Write(nil)` writes the header first -/
theorem close_fresh (c : PCodec) (s : Sched) (z : PZ) (hli : z.listening = false) (he : z.err = false)
    (hwh : z.wroteHeader = false) :
    PZ.close c s z =
      if ((PZ.write0 c s ({ z with tick := z.tick + 1, closed := true } : PZ) []).1.sync s).err = true then
        ((PZ.write0 c s ({ z with tick := z.tick + 1, closed := true } : PZ) []).1.sync s, true)
      else PZ.closeTail c s ((PZ.write0 c s ({ z with tick := z.tick + 1, closed := true } : PZ) []).1.sync s) := by
  unfold PZ.close
  rw [sync_not_listening s hli]
  simp only [he, hwh, Bool.false_eq_true, if_false]

theorem close_spec (c : PCodec) (hbs : 0 < c.bs) (s : Sched) {limit : Nat} {cf : Bool} (z : PZ)
    (h : PLive c limit cf z) :
    (PZ.close c s z).1.sink.got = (c.toCodec.stream z.acc).take limit ∧
    ((PZ.close c s z).2 = true ↔ limit < (c.toCodec.stream z.acc).length) ∧
    (PZ.close c s z).1.sink.closeFails = cf := by
  have hf := sync_frame s z
  have hd := sync_dc s z
  have hpre1 : c.pre z.acc <+: c.toCodec.stream z.acc := by
    rw [stream_eq, List.append_assoc]; exact List.prefix_append _ _
  cases hwh : z.wroteHeader with
  | true =>
    obtain ⟨hT, hli⟩ := h.hdr1 hwh
    have hT' : Tracks c limit (z.sync s) z.acc :=
      ⟨sync_core s hT.core, hT.fd.trans hd.dn.symm, hT.fc.trans hd.cu.symm, by rw [hd.cu]; exact hT.lt⟩
    by_cases he : (z.sync s).err = true
    · rw [close_err c s z he]
      obtain ⟨a, b⟩ := core_dead_result hT'.core he hpre1
      exact ⟨a, ⟨fun _ => b, fun _ => rfl⟩, hf.cf.trans h.cfe⟩
    · have he' : (z.sync s).err = false := by simpa using he
      have hw' : (z.sync s).wroteHeader = true := hf.wh.trans hwh
      rw [close_hdr c s z he' hw']
      have hT1 : Tracks c limit ({ z.sync s with closed := true } : PZ) z.acc :=
        tracks_congr hT' rfl rfl rfl rfl rfl rfl rfl
      obtain ⟨a, b, d⟩ := closeTail_spec c s _ z.acc hT1 (hf.li.trans hli) rfl
      exact ⟨a, b, d.trans (hf.cf.trans h.cfe)⟩
  | false =>
    obtain ⟨hacc, hdn, hcu, hgot, hpend, hlim, hlf, hli⟩ := h.hdr0 hwh
    have he : z.err = false := h.err
    rw [close_fresh c s z hli he hwh]
    -- `z.Write(nil)` from `Close`
    have hP0 : PLive0 c limit cf ({ z with tick := z.tick + 1, closed := true } : PZ) :=
      ⟨h.cfe, he, fun _ => ⟨hacc, hdn, hcu, hgot, hpend, hlim, hlf, hli⟩, fun hh => by
        have : z.wroteHeader = true := hh
        rw [hwh] at this; cases this⟩
    have hs := write0_spec c hbs s ({ z with tick := z.tick + 1, closed := true } : PZ) [] hP0 (fun hh => absurd rfl hh)
    have hk := write0_keep c s ({ z with tick := z.tick + 1, closed := true } : PZ) []
    generalize PZ.write0 c s ({ z with tick := z.tick + 1, closed := true } : PZ) [] = r at hs hk ⊢
    have hacc' : ({ z with tick := z.tick + 1, closed := true } : PZ).acc = z.acc := rfl
    rw [hacc', List.append_nil] at hs
    have hf1 := sync_frame s r.1
    have hd1 := sync_dc s r.1
    have hcf1 : (r.1.sync s).sink.closeFails = cf := hf1.cf.trans (hk.2.2.trans h.cfe)
    cases hr : r.2.2 with
    | true =>
      obtain ⟨hre, hrc⟩ := hs.2 hr
      have he1 : (r.1.sync s).err = true := sync_err hre
      rw [if_pos he1]
      obtain ⟨a, b⟩ := core_dead_result (sync_core s hrc) he1 hpre1
      exact ⟨a, ⟨fun _ => b, fun _ => rfl⟩, hcf1⟩
    | false =>
      obtain ⟨_, hre, hrT, hrl, _⟩ := hs.1 hr
      have hT1 : Tracks c limit (r.1.sync s) z.acc :=
        ⟨sync_core s hrT.core, hrT.fd.trans hd1.dn.symm, hrT.fc.trans hd1.cu.symm, by rw [hd1.cu]; exact hrT.lt⟩
      by_cases he1 : (r.1.sync s).err = true
      · rw [if_pos he1]
        obtain ⟨a, b⟩ := core_dead_result hT1.core he1 hpre1
        exact ⟨a, ⟨fun _ => b, fun _ => rfl⟩, hcf1⟩
      · rw [if_neg he1]
        obtain ⟨a, b, d⟩ := closeTail_spec c s _ z.acc hT1 (hf1.li.trans hrl) (hf1.cl.trans hk.2.1)
        exact ⟨a, b, d.trans hcf1⟩

/-- compressed `Wfile.Close` over the transcribed pgzip writer: the characterisation of `closeZ_eq`, for every
schedule of the listener goroutine and every choice of the `select` -/
theorem closeP_eq (c : PCodec) (hbs : 0 < c.bs) (s : Sched) {limit : Nat} {cf : Bool} (own : Bool)
    {b : GW PZ} {e : Bytes} (h : HInv PZ.acc (PDead c limit cf) (PLive c limit cf) b e) :
    closeP c s own b =
      (if limit < (c.toCodec.stream e).length || (own && cf) then .fatal else .ok, (c.toCodec.stream e).take limit) := by
  obtain ⟨hi, hbuf⟩ := hflush_inv (pzLaw c hbs s limit cf) h
  unfold closeP
  dsimp only
  generalize b.flush (PZ.write c s) = b' at hi hbuf
  cases hb : b'.err with
  | true =>
    obtain ⟨x, hx, hQ⟩ := hi.bad hb
    have hpx : c.pre x <+: c.toCodec.stream e := by
      refine List.IsPrefix.trans ((pmono c).le hx) ?_
      show c.pre e <+: _
      rw [stream_eq, List.append_assoc]; exact List.prefix_append _ _
    have hcl : PZ.close c s b'.dev = (b'.dev.sync s, true) := by
      unfold PZ.close
      dsimp only
      rw [if_pos (sync_err hQ.err)]
    rw [hcl]
    obtain ⟨a, bb⟩ := core_dead_result (sync_core s hQ.core) (sync_err hQ.err) hpx
    simp only [Bool.true_or, if_true, a]
    simp [bb]
  | false =>
    obtain ⟨hacc, hP⟩ := hi.ok hb
    rw [hbuf hb, List.append_nil] at hacc
    obtain ⟨a, bb, d⟩ := close_spec c hbs s b'.dev hP
    rw [hacc] at a bb
    rw [a, d]
    cases hr : (PZ.close c s b'.dev).2 with
    | true =>
      have := bb.mp hr
      simp [this]
    | false =>
      have : ¬ (limit < (c.toCodec.stream e).length) := fun hh => by
        have := bb.mpr hh
        rw [hr] at this; cases this
      simp only [this, decide_false, Bool.false_or, Bool.or_false]
      cases own <;> cases cf <;> rfl

end ObiVerif.WriteErr
