import ObiVerif.Model.Chunk
import ObiVerif.Lemmas.Chunk
/-!
# Range contracts of `EndOfLastFastqEntry` and `EndOfLastFlatFileEntry`

Both return −1 or a position in `[1, len]`: this is what `ReadSeqFileChunk` needs to terminate and to
cut the file into consecutive pieces (`chunks_terminate`, `chunks_reassemble`).  For the FASTQ
splitter a non-negative result is moreover the offset of an `@` that follows an end-of-line byte.
-/
namespace ObiVerif.Chunk

/-! ## EndOfLastFastqEntry -/

/-- position facts about a successful attempt: `l` = reversed `buffer[0..i]`; in state 6 the `@` just
seen sits at index `l.length` -/
theorem fqTry_spec : ∀ (l : List UInt8) (st cut cut' : Nat) (i : Int),
    fqTry l st cut = .found cut' i → (st = 6 → cut = l.length) →
    1 ≤ cut' ∧ cut' ≤ l.length ∧ i = (cut' : Int) - 2 ∧
      ∃ e, l[l.length - cut']? = some e ∧ isEol e = true := by
  intro l
  induction l with
  | nil => intro st cut cut' i h; simp [fqTry] at h
  | cons c rest ih =>
    intro st cut cut' i h h6
    have step : ∀ st2 cut2, fqTry rest st2 cut2 = .found cut' i → (st2 = 6 → cut2 = rest.length) →
        1 ≤ cut' ∧ cut' ≤ (c :: rest).length ∧ i = (cut' : Int) - 2 ∧
          ∃ e, (c :: rest)[(c :: rest).length - cut']? = some e ∧ isEol e = true := by
      intro st2 cut2 h2 h62
      obtain ⟨a, b, hi, e, he, hee⟩ := ih st2 cut2 cut' i h2 h62
      refine ⟨a, by simp; omega, hi, e, ?_, hee⟩
      have : (c :: rest).length - cut' = (rest.length - cut') + 1 := by simp; omega
      rw [this, List.getElem?_cons_succ]
      exact he
    have hcases : st = 1 ∨ st = 2 ∨ st = 3 ∨ st = 4 ∨ st = 5 ∨ st = 6 ∨ (st = 0 ∨ 7 ≤ st) := by omega
    rcases hcases with rfl | rfl | rfl | rfl | rfl | rfl | hst
    · simp only [fqTry] at h
      split at h
      · exact step _ _ h (by intro hh; cases hh)
      · cases h
    · simp only [fqTry] at h
      split at h
      · exact step _ _ h (by intro hh; cases hh)
      · split at h
        · exact step _ _ h (by intro hh; cases hh)
        · cases h
    · simp only [fqTry] at h
      split at h
      · exact step _ _ h (by intro hh; cases hh)
      · split at h
        · exact step _ _ h (by intro hh; cases hh)
        · cases h
    · simp only [fqTry] at h
      split at h
      · exact step _ _ h (by intro hh; cases hh)
      · exact step _ _ h (by intro hh; cases hh)
    · simp only [fqTry] at h
      split at h
      · cases h
      · split at h
        · exact step _ _ h (fun _ => rfl)
        · exact step _ _ h (by intro hh; cases hh)
    · simp only [fqTry] at h
      split at h
      · rename_i hc
        simp only [FqTry.found.injEq] at h
        obtain ⟨rfl, rfl⟩ := h
        have hcut := h6 rfl
        subst hcut
        exact ⟨by simp, by simp, by simp; omega, c, by simp, hc⟩
      · exact step _ _ h (by intro hh; cases hh)
    · rcases hst with rfl | hst
      · simp [fqTry] at h
      · obtain ⟨k, rfl⟩ : ∃ k, st = k + 7 := ⟨st - 7, by omega⟩
        simp [fqTry] at h

theorem fqScan_spec : ∀ (l : List UInt8), fqScan l = -1 ∨
    ∃ cut : Nat, fqScan l = (cut : Int) ∧ 1 ≤ cut ∧ cut ≤ l.length ∧
      ∃ e, l[l.length - cut]? = some e ∧ isEol e = true := by
  intro l
  induction l with
  | nil => left; rfl
  | cons c rest ih =>
    have lift : (fqScan rest = -1 ∨ ∃ cut : Nat, fqScan rest = (cut : Int) ∧ 1 ≤ cut ∧ cut ≤ rest.length ∧
          ∃ e, rest[rest.length - cut]? = some e ∧ isEol e = true) →
        (fqScan rest = -1 ∨ ∃ cut : Nat, fqScan rest = (cut : Int) ∧ 1 ≤ cut ∧ cut ≤ (c :: rest).length ∧
          ∃ e, (c :: rest)[(c :: rest).length - cut]? = some e ∧ isEol e = true) := by
      intro h
      rcases h with h | ⟨cut, h1, h2, h3, e, he, hee⟩
      · left; exact h
      · right
        refine ⟨cut, h1, h2, by simp; omega, e, ?_, hee⟩
        have : (c :: rest).length - cut = (rest.length - cut) + 1 := by simp; omega
        rw [this, List.getElem?_cons_succ]
        exact he
    rw [fqScan]
    split
    · cases htry : fqTry rest 1 0 with
      | found cut i =>
        simp only
        obtain ⟨h1, h2, hi, e, he, hee⟩ := fqTry_spec rest 1 0 cut i htry (by intro hh; cases hh)
        split
        · left; rfl
        · rename_i hne
          right
          refine ⟨cut, rfl, h1, by simp; omega, e, ?_, hee⟩
          have : (c :: rest).length - cut = (rest.length - cut) + 1 := by simp; omega
          rw [this, List.getElem?_cons_succ]
          exact he
      | restart => simp only; exact lift ih
      | exhausted => left; rfl
    · exact lift ih

/-- `EndOfLastFastqEntry`: −1 or a position in `[1, len]` -/
theorem splitFastq_range (buf : Seq) :
    splitFastq buf < 0 ∨ (1 ≤ splitFastq buf ∧ splitFastq buf ≤ buf.length) := by
  unfold splitFastq
  rcases fqScan_spec buf.reverse with h | ⟨cut, h1, h2, h3, _⟩
  · left; omega
  · right
    rw [h1]
    simp only [List.length_reverse] at h3
    omega

theorem splitFastq_ok : SplitterOK splitFastq (fun _ _ => True) :=
  ⟨splitFastq_range, fun _ _ => trivial, fun _ _ _ _ => trivial⟩

/-! ## EndOfLastFlatFileEntry -/

theorem flatNext_le (st : Nat) (c : UInt8) : flatNext st c ≤ 5 := by
  unfold flatNext
  split <;> (repeat' split) <;> omega

/-- from state 1 the next state is computed after `start` has been assigned; states ≥ 2 are only
entered from state 1 or from a state ≥ 2 -/
theorem flatNext_ge2 (st : Nat) (c : UInt8) (h : 2 ≤ flatNext st c) : 1 ≤ st := by
  cases st with
  | zero =>
    simp only [flatNext] at h
    split at h <;> omega
  | succ k => omega

theorem flatLoop_range (n : Nat) : ∀ (l : List UInt8) (st start start' : Nat) (i : Int),
    l.length ≤ n → (1 ≤ st → l.length + 1 ≤ n) → (2 ≤ st → 1 ≤ start ∧ start ≤ n) →
    flatLoop l st start = (start', i) → 0 < i → 1 ≤ start' ∧ start' ≤ n := by
  intro l
  induction l with
  | nil =>
    intro st start start' i _ _ _ h hi
    simp only [flatLoop, Prod.mk.injEq] at h
    omega
  | cons c rest ih =>
    intro st start start' i h0 h1 h2 h hi
    rw [flatLoop] at h
    simp only [List.length_cons] at h0 h1
    split at h
    · rename_i hst
      refine ih _ _ _ _ (by omega) (by intro _; omega) ?_ h hi
      intro hge
      have hst1 := flatNext_ge2 st c hge
      split
      · have := h1 hst1
        omega
      · rename_i hne
        have : 2 ≤ st := by
          simp only [beq_iff_eq] at hne
          omega
        exact h2 this
    · simp only [Prod.mk.injEq] at h
      have : 2 ≤ st := by omega
      have := h2 this
      omega

/-- `EndOfLastFlatFileEntry`: −1 or a position in `[1, len]` -/
theorem splitFlat_range (buf : Seq) :
    splitFlat buf < 0 ∨ (1 ≤ splitFlat buf ∧ splitFlat buf ≤ buf.length) := by
  unfold splitFlat
  generalize hfl : flatLoop buf.reverse 0 0 = r
  obtain ⟨start', i⟩ := r
  simp only
  split
  · rename_i hi
    right
    have := flatLoop_range buf.length buf.reverse 0 0 start' i (by simp) (by omega) (by omega) hfl hi
    omega
  · left; omega

theorem splitFlat_ok : SplitterOK splitFlat (fun _ _ => True) :=
  ⟨splitFlat_range, fun _ _ => trivial, fun _ _ _ _ => trivial⟩

end ObiVerif.Chunk
