import ObiVerif.Model.WritePgzip
import ObiVerif.Lemmas.WriteHInv
import ObiVerif.Lemmas.WriteDev
/-!
# Lemmas on the transcribed pgzip writer (C18)

* `feed`: the stream as a function of the input fed one byte at a time: monotone (`pmono`), and cut exactly as the
  loop of `Write` cuts it (`foldl_feed1_small`, `foldl_feed1_fill`);
* `Core limit V z`: `V` is the *virtual* stream (what the sink holds followed by the blocks waiting in `z.results`);
  while no error has been pushed the sink holds a prefix of `V` within its capacity; once an error has been pushed
  the sink holds exactly the first `limit` bytes of `V`, which does not fit, and nothing will ever be written again;
  kept by every step of the listener, by `sync`, by handing a block over.
-/
namespace ObiVerif.WriteErr

/-! ## the stream -/

theorem feed1_out_prefix (c : PCodec) (f : Feed) (x : UInt8) : f.out <+: (c.feed1 f x).out := by
  unfold PCodec.feed1
  split
  · exact List.prefix_append _ _
  · exact List.prefix_refl _

theorem foldl_feed1_out_prefix (c : PCodec) (l : Bytes) (f : Feed) : f.out <+: (l.foldl c.feed1 f).out := by
  induction l generalizing f with
  | nil => exact List.prefix_refl _
  | cons x t ih => exact List.IsPrefix.trans (feed1_out_prefix c f x) (ih _)

theorem feed_append (c : PCodec) (h p : Bytes) : c.feed (h ++ p) = p.foldl c.feed1 (c.feed h) := by
  unfold PCodec.feed; rw [List.foldl_append]

/-- the transcribed writer is a compressor in the sense of the abstract model: its output only grows -/
theorem pmono (c : PCodec) : Mono c.toCodec := by
  intro h p
  show c.hdr ++ (c.feed h).out <+: c.hdr ++ (c.feed (h ++ p)).out
  rw [feed_append]
  exact (List.prefix_append_right_inj _).mpr (foldl_feed1_out_prefix c p _)

theorem foldl_feed1_small (c : PCodec) (l : Bytes) (f : Feed) (h : f.cur.length + l.length < c.bs) :
    l.foldl c.feed1 f = ⟨f.done, f.cur ++ l, f.out⟩ := by
  induction l generalizing f with
  | nil => cases f; simp
  | cons x t ih =>
    simp only [List.foldl_cons, List.length_cons] at h ⊢
    have hne : ¬ ((f.cur ++ [x]).length = c.bs) := by
      simp only [List.length_append, List.length_cons, List.length_nil]; omega
    have h1 : c.feed1 f x = ⟨f.done, f.cur ++ [x], f.out⟩ := by
      unfold PCodec.feed1; rw [if_neg hne]
    rw [h1, ih]
    · simp
    · simp only [List.length_append, List.length_cons, List.length_nil]; omega

theorem foldl_feed1_fill (c : PCodec) (l : Bytes) (f : Feed) (hne : l ≠ []) (h : f.cur.length + l.length = c.bs) :
    l.foldl c.feed1 f = ⟨f.done ++ (f.cur ++ l), [], f.out ++ c.blk f.done (f.cur ++ l) false⟩ := by
  have hl : l = l.dropLast ++ [l.getLast hne] := (List.dropLast_concat_getLast hne).symm
  generalize l.dropLast = l0 at hl
  generalize l.getLast hne = x at hl
  subst hl
  simp only [List.length_append, List.length_cons, List.length_nil] at h
  rw [List.foldl_append, foldl_feed1_small c l0 f (by omega)]
  simp only [List.foldl_cons, List.foldl_nil]
  unfold PCodec.feed1
  have : ((f.cur ++ l0) ++ [x]).length = c.bs := by
    simp only [List.length_append, List.length_cons, List.length_nil]; omega
  simp only
  rw [if_pos this]
  simp only [List.append_assoc]

/-! ## the listener and the sink -/

structure Core (limit : Nat) (V : Bytes) (z : PZ) : Prop where
  lim : z.sink.limit = limit
  live : z.err = false → z.lfailed = false ∧ z.sink.got ++ z.pend.flatten = V ∧ z.sink.got.length ≤ limit
  dead : z.err = true → (z.lfailed = true ∨ z.listening = false) ∧
    ∃ t, t <+: V ∧ limit < t.length ∧ z.sink.got = t.take limit

theorem lstep_core {limit : Nat} {V : Bytes} {z : PZ} (h : Core limit V z) : Core limit V z.lstep := by
  unfold PZ.lstep
  cases hl : z.listening with
  | false => simpa using h
  | true =>
    simp only [Bool.not_true, Bool.false_eq_true, if_false]
    cases hp : z.pend with
    | nil => simpa using h
    | cons b rest =>
      simp only
      cases hf : z.lfailed with
      | true =>
        simp only [if_true]
        refine ⟨h.lim, ?_, ?_⟩
        · intro he; have := (h.live he).1; simp [hf] at this
        · intro he
          obtain ⟨_, t, ht⟩ := h.dead he
          exact ⟨Or.inl rfl, t, ht⟩
      | false =>
        simp only [Bool.false_eq_true, if_false]
        have he : z.err = false := by
          cases hz : z.err with
          | false => rfl
          | true => have := (h.dead hz).1; simp [hf, hl] at this
        obtain ⟨_, hv, hcap⟩ := h.live he
        rw [hp] at hv
        simp only [List.flatten_cons] at hv
        cases hr : (z.sink.write b).2.2 with
        | true =>
          simp only [if_true]
          have hcap' : z.sink.got.length ≤ z.sink.limit := by rw [h.lim]; exact hcap
          have hw := Sink.write_err z.sink b hcap' hr
          refine ⟨by rw [Sink.write_limit]; exact h.lim, ?_, ?_⟩
          · intro hh; simp at hh
          · intro _
            refine ⟨Or.inl rfl, z.sink.got ++ b, ?_, ?_, ?_⟩
            · rw [← hv, ← List.append_assoc]; exact List.prefix_append _ _
            · rw [List.length_append, ← h.lim]; exact hw.2
            · show (z.sink.write b).1.got = _
              have hpre : (z.sink.write b).1.got <+: z.sink.got ++ b := by
                rw [Sink.write_got]; exact (List.prefix_append_right_inj _).mpr (List.take_prefix _ _)
              rw [List.prefix_iff_eq_take.mp hpre, hw.1, h.lim]
        | false =>
          simp only [Bool.false_eq_true, if_false]
          have hn := Sink.write_ok_n z.sink b hr
          have hg : (z.sink.write b).1.got = z.sink.got ++ b := by
            rw [Sink.write_got, hn, List.take_length]
          refine ⟨by rw [Sink.write_limit]; exact h.lim, ?_, ?_⟩
          · intro _
            refine ⟨rfl, ?_, ?_⟩
            · show (z.sink.write b).1.got ++ rest.flatten = V
              rw [hg, List.append_assoc]; exact hv
            · have := Sink.write_cap z.sink b (by rw [h.lim]; exact hcap)
              rw [h.lim] at this; exact this
          · intro hh; rw [he] at hh; cases hh

theorem lrun_core {limit : Nat} {V : Bytes} (n : Nat) {z : PZ} (h : Core limit V z) : Core limit V (PZ.lrun n z) := by
  induction n generalizing z with
  | zero => exact h
  | succ k ih => exact ih (lstep_core h)

theorem tick_core {limit : Nat} {V : Bytes} {z : PZ} (h : Core limit V z) (t : Nat) :
    Core limit V { z with tick := t } := ⟨h.lim, h.live, h.dead⟩

theorem sync_core {limit : Nat} {V : Bytes} (s : Sched) {z : PZ} (h : Core limit V z) : Core limit V (z.sync s) :=
  lrun_core _ (tick_core h _)

/-- handing a block over to the listener -/
theorem enqueue_core {limit : Nat} {V : Bytes} {z : PZ} (h : Core limit V z) (b dn cu : Bytes) :
    Core limit (V ++ b) { z with pend := z.pend ++ [b], done := dn, cur := cu } := by
  refine ⟨h.lim, ?_, ?_⟩
  · intro he
    obtain ⟨h1, h2, h3⟩ := h.live he
    refine ⟨h1, ?_, h3⟩
    show z.sink.got ++ (z.pend ++ [b]).flatten = V ++ b
    rw [List.flatten_append, ← List.append_assoc, h2]; simp
  · intro he
    obtain ⟨h1, t, h2, h3, h4⟩ := h.dead he
    exact ⟨h1, t, List.IsPrefix.trans h2 (List.prefix_append _ _), h3, h4⟩

/-! ## frame: what the listener does not touch -/

structure Frame (z z' : PZ) : Prop where
  wh : z'.wroteHeader = z.wroteHeader
  li : z'.listening = z.listening
  cl : z'.closed = z.closed
  ac : z'.acc = z.acc
  cf : z'.sink.closeFails = z.sink.closeFails

/-- the listener does not touch the caller's buffers either -/
structure DC (z z' : PZ) : Prop where
  dn : z'.done = z.done
  cu : z'.cur = z.cur

theorem Frame.refl (z : PZ) : Frame z z := ⟨rfl, rfl, rfl, rfl, rfl⟩
theorem DC.refl (z : PZ) : DC z z := ⟨rfl, rfl⟩

theorem Frame.trans {a b c : PZ} (h1 : Frame a b) (h2 : Frame b c) : Frame a c :=
  ⟨h2.wh.trans h1.wh, h2.li.trans h1.li, h2.cl.trans h1.cl, h2.ac.trans h1.ac, h2.cf.trans h1.cf⟩

theorem DC.trans {a b c : PZ} (h1 : DC a b) (h2 : DC b c) : DC a c := ⟨h2.dn.trans h1.dn, h2.cu.trans h1.cu⟩

theorem lstep_frame (z : PZ) : Frame z z.lstep := by
  unfold PZ.lstep
  split
  · exact Frame.refl z
  · split
    · exact Frame.refl z
    · split
      · exact ⟨rfl, rfl, rfl, rfl, rfl⟩
      · dsimp only
        split <;> exact ⟨rfl, rfl, rfl, rfl, rfl⟩

theorem lrun_frame (n : Nat) (z : PZ) : Frame z (PZ.lrun n z) := by
  induction n generalizing z with
  | zero => exact Frame.refl z
  | succ k ih => exact Frame.trans (lstep_frame z) (ih _)

theorem sync_frame (s : Sched) (z : PZ) : Frame z (z.sync s) :=
  Frame.trans (⟨rfl, rfl, rfl, rfl, rfl⟩ : Frame z { z with tick := z.tick + 1 }) (lrun_frame _ _)

theorem lstep_dc (z : PZ) : DC z z.lstep := by
  unfold PZ.lstep
  split
  · exact DC.refl z
  · split
    · exact DC.refl z
    · split
      · exact ⟨rfl, rfl⟩
      · dsimp only
        split <;> exact ⟨rfl, rfl⟩

theorem lrun_dc (n : Nat) (z : PZ) : DC z (PZ.lrun n z) := by
  induction n generalizing z with
  | zero => exact DC.refl z
  | succ k ih => exact DC.trans (lstep_dc z) (ih _)

theorem sync_dc (s : Sched) (z : PZ) : DC z (z.sync s) :=
  DC.trans (⟨rfl, rfl⟩ : DC z { z with tick := z.tick + 1 }) (lrun_dc _ _)

/-- the error, once pushed, stays -/
theorem lstep_err {z : PZ} (h : z.err = true) : z.lstep.err = true := by
  unfold PZ.lstep
  split
  · exact h
  · split
    · exact h
    · split
      · exact h
      · dsimp only
        split
        · rfl
        · exact h

theorem lrun_err (n : Nat) {z : PZ} (h : z.err = true) : (PZ.lrun n z).err = true := by
  induction n generalizing z with
  | zero => exact h
  | succ k ih => exact ih (lstep_err h)

/-- a listener that has been started empties the queue when waited for -/
theorem lstep_pend_length (z : PZ) (hl : z.listening = true) : z.lstep.pend.length = z.pend.length - 1 ∧
    z.lstep.listening = true := by
  unfold PZ.lstep
  simp only [hl, Bool.not_true, Bool.false_eq_true, if_false]
  cases hp : z.pend with
  | nil => simp [hp, hl]
  | cons b rest =>
    dsimp only
    split
    · simp [hl]
    · split <;> simp [hl]

theorem lrun_all_pend (n : Nat) (z : PZ) (hl : z.listening = true) (hn : z.pend.length ≤ n) :
    (PZ.lrun n z).pend = [] := by
  induction n generalizing z with
  | zero => exact List.eq_nil_of_length_eq_zero (Nat.le_zero.mp hn)
  | succ k ih =>
    have h1 := lstep_pend_length z hl
    exact ih _ h1.2 (by omega)

end ObiVerif.WriteErr
