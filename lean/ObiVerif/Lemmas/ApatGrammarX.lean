import ObiVerif.Lemmas.ApatGrammar
/-!
# EXACTLY which strings `MakeApatPattern` accepts, and what they compile to (C10, `compile_iff_x`)

`Lemmas/ApatGrammar.lean` characterises the strings accepted by `CheckPattern` under the hypothesis `plain` (no `##`, `!#`,
`!!`).  This file removes the hypothesis.  The grammar really implemented by `CheckPattern` + `splitPattern` + `valPattern`
+ `obliBitPattern` is

    token  ::=  '!'*  body  ['#']          body ::= Letter | '[' Letter+ ']' | '#'

(`XTok`): any number of leading `!` (each one complements the class: an even number cancels), and — exotic — a body that
is a bare `#` (value 0: accepts nothing; `!#` accepts every symbol; the position is always obligatory because the token
ends with `#`).  The greedy tokenizer takes the optional `#` whenever it is there, so a token starts with `#` only when
the previous token already carries its own `#`, and the first token never starts with `#` (`Canon`).

* `compile_x`        : the string of a canonical list of well-formed tokens compiles, one code `XTok.code` per token;
* `check_x_parse`    : every non-empty string accepted by `CheckPattern` is the string of such a list;
* `compile_iff_x`, `compile_codes_x` : `compile pat` succeeds iff the upper-cased C string is the string of a canonical
  list, and then the code list is `ts.map XTok.code` for EVERY such list;
* `xtok_semantics`   : what a code accepts and when it is obligatory;
* `tok_embeds`, `plain_tokens_documented` : the documented grammar is the sub-case `bangs ≤ 1`, body not `#`.
-/
namespace ObiVerif.Apat

/-! ## tokens of the implemented grammar -/

/-- body of a position: one letter, a class `[Letter+]`, or (exotic) a bare `#` -/
inductive XBody
  | letter (c : UInt8)
  | cls (ls : Bytes)
  | hash
  deriving DecidableEq, Repr

/-- one position: `'!'^bangs body ['#']` -/
structure XTok where
  bangs : Nat
  body : XBody
  oblig : Bool
  deriving DecidableEq, Repr

def XBody.WF : XBody → Prop
  | .letter c => isUpper c = true
  | .cls ls => ls ≠ [] ∧ ∀ c ∈ ls, isUpper c = true
  | .hash => True

instance : (b : XBody) → Decidable b.WF
  | .letter c => inferInstanceAs (Decidable (isUpper c = true))
  | .cls ls => inferInstanceAs (Decidable (ls ≠ [] ∧ ∀ c ∈ ls, isUpper c = true))
  | .hash => inferInstanceAs (Decidable True)

def XTok.WF (t : XTok) : Prop := t.body.WF
instance (t : XTok) : Decidable t.WF := inferInstanceAs (Decidable t.body.WF)

def XBody.isHash : XBody → Bool
  | .hash => true
  | _ => false

def XBody.str : XBody → Bytes
  | .letter c => [c]
  | .cls ls => chLBr :: (ls ++ [chRBr])
  | .hash => [chHash]

def obStr (ob : Bool) : Bytes := if ob then [chHash] else []

/-- the token as written in a pattern -/
def XTok.str (t : XTok) : Bytes := List.replicate t.bangs chBang ++ (t.body.str ++ obStr t.oblig)

/-- the pattern string of a token list -/
def xpatStr (ts : List XTok) : Bytes := (ts.map XTok.str).flatten

theorem xpatStr_cons (t : XTok) (ts : List XTok) : xpatStr (t :: ts) = t.str ++ xpatStr ts := rfl

/-- the token string starts with `#` -/
def XTok.startsHash (t : XTok) : Bool := t.bangs == 0 && t.body.isHash

/-- `allow` = the previous token ends with its own `#` (only then may a token start with `#`) -/
def CanonFrom : Bool → List XTok → Prop
  | _, [] => True
  | allow, t :: ts => (t.startsHash = true → allow = true) ∧ CanonFrom t.oblig ts

instance : (allow : Bool) → (ts : List XTok) → Decidable (CanonFrom allow ts)
  | _, [] => inferInstanceAs (Decidable True)
  | allow, t :: ts =>
    have := instDecidableCanonFrom t.oblig ts
    inferInstanceAs (Decidable ((t.startsHash = true → allow = true) ∧ CanonFrom t.oblig ts))

/-- canonical = what the greedy tokenizer produces: the first token does not start with `#`, and a token starting with `#`
only follows a token that ends with its own `#` -/
def Canon (ts : List XTok) : Prop := CanonFrom false ts
instance (ts : List XTok) : Decidable (Canon ts) := inferInstanceAs (Decidable (CanonFrom false ts))

theorem canon_cons (t : XTok) (ts : List XTok) : Canon (t :: ts) ↔ t.startsHash = false ∧ CanonFrom t.oblig ts := by
  unfold Canon
  simp [CanonFrom]

theorem canonFrom_cons_cons (a : Bool) (t u : XTok) (ts : List XTok) :
    CanonFrom a (t :: u :: ts) ↔ (t.startsHash = true → a = true) ∧ (u.startsHash = true → t.oblig = true) ∧
      CanonFrom u.oblig ts := by
  simp [CanonFrom]

/-- `CanonFrom` spelled out: the head may start with `#` only if `allow`, and a token starting with `#` only follows a
token that carries its own `#` -/
theorem canonFrom_iff (ts : List XTok) : ∀ a, CanonFrom a ts ↔
    (∀ t, ts.head? = some t → t.startsHash = true → a = true) ∧
    (∀ i t u, ts[i]? = some t → ts[i + 1]? = some u → u.startsHash = true → t.oblig = true) := by
  induction ts with
  | nil => intro a; simp [CanonFrom]
  | cons t ts ih =>
    intro a
    simp only [CanonFrom, ih t.oblig]
    constructor
    · rintro ⟨h1, h2, h3⟩
      refine ⟨?_, ?_⟩
      · intro t' ht'
        simp only [List.head?_cons, Option.some.injEq] at ht'
        subst ht'
        exact h1
      · intro i x u hx hu
        cases i with
        | zero =>
          simp only [List.getElem?_cons_zero, Option.some.injEq, Nat.zero_add, List.getElem?_cons_succ] at hx hu
          subst hx
          exact h2 u (by rw [List.head?_eq_getElem?]; exact hu)
        | succ i =>
          simp only [List.getElem?_cons_succ] at hx hu
          exact h3 i x u hx hu
    · rintro ⟨h1, h2⟩
      refine ⟨h1 t rfl, ?_, ?_⟩
      · intro u hu
        exact h2 0 t u rfl (by rw [List.head?_eq_getElem?] at hu; simpa using hu)
      · intro i x u hx hu
        exact h2 (i + 1) x u (by simpa using hx) (by simpa using hu)

/-- **`Canon` spelled out**: the first token does not start with `#`; a token that starts with `#` directly follows a token
carrying its own `#` -/
theorem canon_iff (ts : List XTok) : Canon ts ↔
    (∀ t, ts.head? = some t → t.startsHash = false) ∧
    (∀ i t u, ts[i]? = some t → ts[i + 1]? = some u → u.startsHash = true → t.oblig = true) := by
  unfold Canon
  rw [canonFrom_iff]
  simp

/-- accepted-letter set of a body -/
def XBody.val : XBody → Nat
  | .letter c => Gen.apatDnaCode.getD (c.toNat - 65) 0
  | .cls ls => valLetters Gen.apatDnaCode ls
  | .hash => 0

/-- the code word of a token: class (complemented for an odd number of `!`) | `OBLIBIT` when the token ends with `#` -/
def XTok.code (t : XTok) : Nat :=
  (if t.bangs % 2 = 1 then t.body.val ^^^ Gen.apatPatMask else t.body.val) |||
    (if (t.oblig || t.body.isHash) then Gen.apatObliBit else 0)

/-! ## characters -/

/-- the first character of a body: not NUL, not `]`, and `#` only for the hash body -/
theorem body_head (b : XBody) (hb : b.WF) (tail : Bytes) :
    ∃ y tl, b.str ++ tail = y :: tl ∧ (y == 0) = false ∧ (y == chRBr) = false ∧ (y == chHash) = b.isHash := by
  cases b with
  | letter c =>
    have hx := upper_ne c hb
    exact ⟨c, tail, rfl, by simpa using hx.2.2.2.2, hx.2.1, hx.2.2.2.1⟩
  | cls ls => exact ⟨chLBr, (ls ++ [chRBr]) ++ tail, by simp [XBody.str], by decide, by decide, by show _ = false; decide⟩
  | hash => exact ⟨chHash, tail, rfl, by decide, by decide, by decide⟩

theorem xstr_head (t : XTok) (ht : t.WF) (rest : Bytes) :
    ((t.str ++ rest).headD 0 == chHash) = t.startsHash := by
  unfold XTok.str XTok.startsHash
  cases hk : t.bangs with
  | zero =>
    obtain ⟨y, tl, hy, _, _, h3⟩ := body_head t.body ht (obStr t.oblig ++ rest)
    simp only [List.replicate_zero, List.nil_append, List.append_assoc, hy, List.headD_cons, h3]
    simp
  | succ k =>
    simp only [List.replicate_succ, List.cons_append, List.headD_cons]
    simp
    decide

theorem xpat_head (ts : List XTok) (hts : ∀ t ∈ ts, t.WF) (hc : Canon ts) : ((xpatStr ts).headD 0 == chHash) = false := by
  cases ts with
  | nil => decide
  | cons t ts =>
    rw [xpatStr_cons, xstr_head t (hts t (by simp))]
    exact ((canon_cons t ts).1 hc).1

theorem xstr_length (t : XTok) : t.str.length = t.bangs + (t.body.str.length + (obStr t.oblig).length) := by
  simp [XTok.str]

theorem body_length (b : XBody) : 1 ≤ b.str.length := by
  cases b <;> simp [XBody.str]

theorem xstr_pos (t : XTok) : 1 ≤ t.str.length := by
  have := body_length t.body
  rw [xstr_length]
  omega

/-! ## `splitPattern` on one token -/

theorem skipOblig_x (c : UInt8) (ob : Bool) (rest : Bytes) (hr : ob = false → (rest.headD 0 == chHash) = false) :
    skipOblig (c :: (obStr ob ++ rest)) = (obStr ob).length := by
  unfold skipOblig obStr
  cases ob
  · simp only [List.drop_succ_cons, List.drop_zero, Bool.false_eq_true, if_false, List.nil_append, hr rfl, List.length_nil]
  · simp [List.headD]

theorem split_body (b : XBody) (hb : b.WF) (ob : Bool) (rest : Bytes)
    (hr : ob = false → (rest.headD 0 == chHash) = false) :
    ∃ k, splitPattern (b.str ++ (obStr ob ++ rest)) = some k ∧ k + 1 = b.str.length + (obStr ob).length := by
  cases b with
  | letter c =>
    have hx := upper_ne c hb
    refine ⟨(obStr ob).length, ?_, by simp [XBody.str]; omega⟩
    simp only [XBody.str, List.cons_append, List.nil_append, splitPattern, hx.1, hx.2.2.1, Bool.false_eq_true, if_false,
      skipOblig_x c ob rest hr]
  | hash =>
    have h1 : (chHash == chLBr) = false := by decide
    have h3 : (chHash == chBang) = false := by decide
    refine ⟨(obStr ob).length, ?_, by simp [XBody.str]; omega⟩
    simp only [XBody.str, List.cons_append, List.nil_append, splitPattern, h1, h3, Bool.false_eq_true, if_false,
      skipOblig_x chHash ob rest hr]
  | cls ls =>
    obtain ⟨_, hup⟩ := hb
    refine ⟨ls.length + 1 + (obStr ob).length, ?_, by simp [XBody.str]; omega⟩
    simp only [XBody.str, List.cons_append, splitPattern, beq_self_eq_true, if_true]
    have : chLBr :: (ls ++ [chRBr] ++ (obStr ob ++ rest)) = (chLBr :: ls) ++ chRBr :: (obStr ob ++ rest) := by simp
    rw [this, findRBr_run (chLBr :: ls) (obStr ob ++ rest) (by
      intro c hc
      rcases List.mem_cons.1 hc with rfl | hc
      · decide
      · exact (upper_ne c (hup c hc)).2.1)]
    simp only [skipOblig_x chRBr ob rest hr, List.length_cons]

theorem split_bangs (k : Nat) (s : Bytes) (j : Nat) (h : splitPattern s = some j) :
    splitPattern (List.replicate k chBang ++ s) = some (k + j) := by
  induction k with
  | zero => simpa using h
  | succ k ih =>
    have h1 : (chBang == chLBr) = false := by decide
    simp only [List.replicate_succ, List.cons_append, splitPattern, h1, Bool.false_eq_true, if_false, beq_self_eq_true,
      if_true, ih, Option.map_some]
    congr 1
    omega

theorem split_xtok (t : XTok) (ht : t.WF) (rest : Bytes) (hr : t.oblig = false → (rest.headD 0 == chHash) = false) :
    ∃ k, splitPattern (t.str ++ rest) = some k ∧ k + 1 = t.str.length := by
  obtain ⟨j, hj, hjl⟩ := split_body t.body ht t.oblig rest hr
  refine ⟨t.bangs + j, ?_, by rw [xstr_length]; omega⟩
  unfold XTok.str
  simp only [List.append_assoc]
  exact split_bangs _ _ _ hj

/-! ## the token loop -/

theorem xpatStr_length (ts : List XTok) : ts.length ≤ (xpatStr ts).length := by
  induction ts with
  | nil => simp
  | cons t ts ih =>
    rw [xpatStr_cons, List.length_append, List.length_cons]
    have := xstr_pos t
    omega

/-- the head of what follows a token without its own `#` is not `#` -/
theorem canon_next (t : XTok) (ts : List XTok) (hts : ∀ u ∈ ts, u.WF) (hc : CanonFrom t.oblig ts) :
    t.oblig = false → ((xpatStr ts).headD 0 == chHash) = false := by
  intro hob
  rw [hob] at hc
  exact xpat_head ts hts hc

theorem tokens_x (ts : List XTok) : ∀ (allow : Bool), (∀ t ∈ ts, t.WF) → CanonFrom allow ts → ∀ fuel, ts.length + 1 ≤ fuel →
    tokens fuel (xpatStr ts) = some (ts.map XTok.str) := by
  induction ts with
  | nil =>
    intro _ _ _ fuel hf
    obtain ⟨fuel, rfl⟩ : ∃ f, fuel = f + 1 := ⟨fuel - 1, by simp at hf; omega⟩
    rfl
  | cons t ts ih =>
    intro allow hts hc fuel hf
    obtain ⟨fuel, rfl⟩ : ∃ f, fuel = f + 1 := ⟨fuel - 1, by omega⟩
    have ht := hts t (by simp)
    have hts' : ∀ u ∈ ts, u.WF := fun u hu => hts u (List.mem_cons_of_mem _ hu)
    have hlen := xstr_pos t
    obtain ⟨k, hk, hkl⟩ := split_xtok t ht (xpatStr ts) (canon_next t ts hts' hc.2)
    rw [xpatStr_cons]
    generalize hl : t.str ++ xpatStr ts = l
    cases l with
    | nil =>
      have := congrArg List.length hl
      simp only [List.length_append, List.length_nil] at this
      omega
    | cons c l' =>
      rw [tokens]
      · rw [← hl, hk]
        simp only [hkl, List.drop_left, List.take_left, ih t.oblig hts' hc.2 fuel (by simp at hf; omega), Option.map_some,
          List.map_cons]
      · intro h; cases h

/-! ## `valPattern`, `obliBitPattern` on one token -/

theorem xor_mask_twice (v m : Nat) : (v ^^^ m) ^^^ m = v := by
  rw [Nat.xor_assoc, Nat.xor_self, Nat.xor_zero]

theorem val_bangs (k : Nat) (s : Bytes) :
    valPattern Gen.apatDnaCode (List.replicate k chBang ++ s) =
      if k % 2 = 1 then valPattern Gen.apatDnaCode s ^^^ Gen.apatPatMask else valPattern Gen.apatDnaCode s := by
  induction k with
  | zero => simp
  | succ k ih =>
    have h1 : (chBang == chLBr) = false := by decide
    simp only [List.replicate_succ, List.cons_append, valPattern, h1, Bool.false_eq_true, if_false, beq_self_eq_true,
      if_true, ih]
    by_cases hk : k % 2 = 1
    · have : ¬ ((k + 1) % 2 = 1) := by omega
      rw [if_pos hk, if_neg this, xor_mask_twice]
    · have : (k + 1) % 2 = 1 := by omega
      rw [if_neg hk, if_pos this]

theorem valLetters_ob (ob : Bool) : valLetters Gen.apatDnaCode (obStr ob) = 0 := by
  cases ob <;> decide

theorem val_xbody (b : XBody) (hb : b.WF) (ob : Bool) : valPattern Gen.apatDnaCode (b.str ++ obStr ob) = b.val := by
  cases b with
  | letter c =>
    have hx := upper_ne c hb
    have hb' : isUpper c = true := hb
    simp only [XBody.str, List.cons_append, List.nil_append, valPattern, hx.1, hx.2.2.1, Bool.false_eq_true, if_false,
      valLetters, hb', if_true, valLetters_ob, XBody.val, Nat.or_zero]
  | hash =>
    have h1 : (chHash == chLBr) = false := by decide
    have h3 : (chHash == chBang) = false := by decide
    have h5 : isUpper chHash = false := by decide
    simp only [XBody.str, List.cons_append, List.nil_append, valPattern, h1, h3, Bool.false_eq_true, if_false,
      valLetters, h5, XBody.val]
  | cls ls =>
    obtain ⟨hne, hup⟩ := hb
    match ls, hne with
    | x :: ls, _ =>
      have hx := upper_ne x (hup x (by simp))
      simp only [XBody.str, List.cons_append, valPattern, beq_self_eq_true, if_true, hx.1, hx.2.2.1, Bool.false_eq_true,
        if_false, List.append_assoc, XBody.val]
      exact valLetters_append _ (x :: ls) _ hup (by
        intro c hc; simp at hc; subst hc; decide)

theorem obli_x (t : XTok) (ht : t.WF) : obliBit t.str = if (t.oblig || t.body.isHash) then Gen.apatObliBit else 0 := by
  unfold obliBit XTok.str
  cases hob : t.oblig
  · have hlast : ∃ pre z, List.replicate t.bangs chBang ++ (t.body.str ++ obStr false) = pre ++ [z] ∧
        (z == chHash) = t.body.isHash := by
      cases hb : t.body with
      | letter c =>
        have hc : isUpper c = true := by have := ht; unfold XTok.WF at this; rw [hb] at this; exact this
        exact ⟨List.replicate t.bangs chBang, c, by simp [XBody.str, obStr], (upper_ne c hc).2.2.2.1⟩
      | cls ls => exact ⟨List.replicate t.bangs chBang ++ chLBr :: ls, chRBr, by simp [XBody.str, obStr], by show _ = false; decide⟩
      | hash => exact ⟨List.replicate t.bangs chBang, chHash, by simp [XBody.str, obStr], by decide⟩
    obtain ⟨pre, z, hz, hzz⟩ := hlast
    rw [hz, List.getLast?_append]
    simp only [List.getLast?_singleton, Bool.false_or]
    cases hh : t.body.isHash
    · rw [hh] at hzz
      have : z ≠ chHash := by simpa using hzz
      simp [this]
    · rw [hh] at hzz
      have : z = chHash := by simpa using hzz
      simp [this]
  · have : List.replicate t.bangs chBang ++ (t.body.str ++ obStr true) =
        (List.replicate t.bangs chBang ++ t.body.str) ++ [chHash] := by simp [obStr]
    rw [this, List.getLast?_append]
    simp

theorem val_xtok (t : XTok) (ht : t.WF) : valPattern Gen.apatDnaCode t.str ||| obliBit t.str = t.code := by
  rw [obli_x t ht]
  unfold XTok.str XTok.code
  rw [val_bangs, val_xbody t.body ht]

/-- **`EncodePattern` on a canonical token list**: one code per token -/
theorem encode_x (ts : List XTok) (hts : ∀ t ∈ ts, t.WF) (hne : ts ≠ []) (hc : Canon ts) :
    encodePattern (xpatStr ts) = some (ts.map XTok.code) := by
  unfold encodePattern
  rw [tokens_x ts false hts hc _ (by have := xpatStr_length ts; omega)]
  match ts, hne, hts with
  | t :: ts, _, hts =>
    simp only [List.map_cons, List.map_map]
    congr 2
    · exact val_xtok t (hts t (by simp))
    · apply List.map_congr_left
      intro u hu
      exact val_xtok u (hts u (List.mem_cons_of_mem _ hu))

/-! ## `CheckPattern` accepts the string of a canonical token list -/

theorem check_ob (ob : Bool) (p : UInt8) (rest : Bytes) (hp : (p == chLBr) = false) :
    ∃ p', (p' == chLBr) = false ∧ checkLoop p 0 (obStr ob ++ rest) = checkLoop p' 0 rest := by
  unfold obStr
  cases ob
  · exact ⟨p, hp, rfl⟩
  · refine ⟨chHash, by decide, ?_⟩
    have h1 : (chHash == chLBr) = false := by decide
    have h2 : (chHash == chRBr) = false := by decide
    have h3 : (chHash == chBang) = false := by decide
    have h4 : ((0 : Int) != 0) = false := by decide
    simp only [if_true, List.cons_append, List.nil_append, checkLoop, h1, h2, h3, h4, hp, Bool.false_eq_true, if_false,
      beq_self_eq_true]

theorem check_xbody (b : XBody) (hb : b.WF) (prev : UInt8) (hprev : (prev == chLBr) = false) (rest : Bytes) :
    ∃ p, (p == chLBr) = false ∧ checkLoop prev 0 (b.str ++ rest) = checkLoop p 0 rest := by
  cases b with
  | letter c =>
    have hb' : isUpper c = true := hb
    have hx := upper_ne c hb'
    refine ⟨c, hx.1, ?_⟩
    simp only [XBody.str, List.cons_append, List.nil_append, checkLoop, hx.1, hx.2.1, hx.2.2.1, hx.2.2.2.1,
      Bool.false_eq_true, if_false, hb', if_true]
  | hash =>
    refine ⟨chHash, by decide, ?_⟩
    have h1 : (chHash == chLBr) = false := by decide
    have h2 : (chHash == chRBr) = false := by decide
    have h3 : (chHash == chBang) = false := by decide
    have h4 : ((0 : Int) != 0) = false := by decide
    simp only [XBody.str, List.cons_append, List.nil_append, checkLoop, h1, h2, h3, h4, hprev, Bool.false_eq_true, if_false,
      beq_self_eq_true, if_true]
  | cls ls =>
    obtain ⟨hne, hup⟩ := hb
    match ls, hne with
    | x :: ls, _ =>
      have hx := upper_ne x (hup x (by simp))
      have h4 : ((0 : Int) != 0) = false := by decide
      have h1 : checkLoop prev 0 ((XBody.cls (x :: ls)).str ++ rest) =
          checkLoop chLBr 1 ((x :: ls) ++ (chRBr :: rest)) := by
        simp only [XBody.str, List.cons_append, List.append_assoc, List.nil_append, checkLoop, beq_self_eq_true, if_true, h4,
          Bool.false_eq_true, if_false, List.headD_cons, hx.2.1]
        rfl
      obtain ⟨p, _, h2⟩ := check_letters (x :: ls) chLBr 1 (chRBr :: rest) hup (by simp)
      have h5 : (chRBr == chLBr) = false := by decide
      have h6 : (((1 : Int) - 1) != 0) = false := by decide
      have h3 : checkLoop p 1 (chRBr :: rest) = checkLoop chRBr 0 rest := by
        simp only [checkLoop, h5, Bool.false_eq_true, if_false, beq_self_eq_true, if_true, h6]
        rfl
      exact ⟨chRBr, h5, by rw [h1, h2, h3]⟩

/-- a run of `!` in front of something that is neither the end of the string nor `]` -/
theorem check_bangs (k : Nat) (y : UInt8) (tl : Bytes) (hy0 : (y == 0) = false) (hyr : (y == chRBr) = false) :
    ∀ prev, (prev == chLBr) = false →
      ∃ p, (p == chLBr) = false ∧ checkLoop prev 0 (List.replicate k chBang ++ y :: tl) = checkLoop p 0 (y :: tl) := by
  induction k with
  | zero => intro prev hprev; exact ⟨prev, hprev, rfl⟩
  | succ k ih =>
    intro prev _
    have h1 : (chBang == chLBr) = false := by decide
    have h2 : (chBang == chRBr) = false := by decide
    have h4 : ((0 : Int) != 0) = false := by decide
    obtain ⟨p, hp, h⟩ := ih chBang h1
    refine ⟨p, hp, ?_⟩
    rw [← h]
    have hnext : ∃ z tz, List.replicate k chBang ++ y :: tl = z :: tz ∧ (z == 0) = false ∧ (z == chRBr) = false := by
      cases k with
      | zero => exact ⟨y, tl, rfl, hy0, hyr⟩
      | succ k => exact ⟨chBang, List.replicate k chBang ++ y :: tl, rfl, by decide, by decide⟩
    obtain ⟨z, tz, hz, hz0, hzr⟩ := hnext
    rw [List.replicate_succ, List.cons_append, hz]
    simp only [checkLoop, h1, h2, h4, Bool.false_eq_true, if_false, beq_self_eq_true, if_true, List.headD_cons, hz0, hzr]

theorem check_xtok (t : XTok) (ht : t.WF) (prev : UInt8) (hprev : (prev == chLBr) = false) (rest : Bytes) :
    ∃ p, (p == chLBr) = false ∧ checkLoop prev 0 (t.str ++ rest) = checkLoop p 0 rest := by
  obtain ⟨y, tl, hy, hy0, hyr, _⟩ := body_head t.body ht (obStr t.oblig ++ rest)
  obtain ⟨p1, hp1, h1⟩ := check_bangs t.bangs y tl hy0 hyr prev hprev
  obtain ⟨p2, hp2, h2⟩ := check_xbody t.body ht p1 hp1 (obStr t.oblig ++ rest)
  obtain ⟨p3, hp3, h3⟩ := check_ob t.oblig p2 rest hp2
  refine ⟨p3, hp3, ?_⟩
  unfold XTok.str
  simp only [List.append_assoc]
  rw [hy, h1, ← hy, h2, h3]

theorem check_all_x (ts : List XTok) : (∀ t ∈ ts, t.WF) → ∀ prev, (prev == chLBr) = false →
    checkLoop prev 0 (xpatStr ts) = true := by
  induction ts with
  | nil => intro _ _ _; rfl
  | cons t ts ih =>
    intro hts prev hprev
    rw [xpatStr_cons]
    obtain ⟨p, hp, h⟩ := check_xtok t (hts t (by simp)) prev hprev (xpatStr ts)
    rw [h]
    exact ih (fun u hu => hts u (List.mem_cons_of_mem _ hu)) p hp

/-- **`CheckPattern` accepts the string of every canonical list of well-formed tokens** -/
theorem check_x (ts : List XTok) (hts : ∀ t ∈ ts, t.WF) (hc : Canon ts) : checkPattern (xpatStr ts) = true := by
  unfold checkPattern
  rw [xpat_head ts hts hc]
  simp only [Bool.false_eq_true, if_false]
  exact check_all_x ts hts 0 (by decide)

/-! ## `MakeApatPattern` on a canonical token list -/

theorem xpat_chars (ts : List XTok) (hts : ∀ t ∈ ts, t.WF) :
    ∀ c ∈ xpatStr ts, isUpper c = true ∨ c = chLBr ∨ c = chRBr ∨ c = chBang ∨ c = chHash := by
  intro c hc
  simp only [xpatStr, List.mem_flatten, List.mem_map] at hc
  obtain ⟨l, ⟨t, ht, rfl⟩, hc⟩ := hc
  have hwf : t.body.WF := hts t ht
  simp only [XTok.str, List.mem_append, List.mem_replicate] at hc
  rcases hc with hc | hc | hc
  · exact Or.inr (Or.inr (Or.inr (Or.inl hc.2)))
  · cases hb : t.body with
    | letter x =>
      rw [hb] at hc hwf
      simp only [XBody.str, List.mem_singleton] at hc
      subst hc
      exact Or.inl hwf
    | cls ls =>
      rw [hb] at hc hwf
      simp only [XBody.str, List.mem_cons, List.mem_append, List.not_mem_nil, or_false] at hc
      rcases hc with hc | hc | hc
      · exact Or.inr (Or.inl hc)
      · exact Or.inl (hwf.2 c hc)
      · exact Or.inr (Or.inr (Or.inl hc))
    | hash =>
      rw [hb] at hc
      simp only [XBody.str, List.mem_singleton] at hc
      exact Or.inr (Or.inr (Or.inr (Or.inr hc)))
  · unfold obStr at hc
    split at hc
    · simp at hc; exact Or.inr (Or.inr (Or.inr (Or.inr hc)))
    · simp at hc

/-- a string over upper-case letters and `[ ] ! #` is its own upper-cased C string -/
theorem upper_cstring_id (l : Bytes) (h : ∀ c ∈ l, isUpper c = true ∨ c = chLBr ∨ c = chRBr ∨ c = chBang ∨ c = chHash) :
    upperSeq (cString l) = l := by
  have hc : cString l = l := by
    unfold cString
    have hall : ∀ c ∈ l, (c != 0) = true := by
      intro c hc
      have := (pat_char_facts c (h c hc)).1
      simpa using this
    clear h
    induction l with
    | nil => rfl
    | cons c l ih =>
      rw [List.takeWhile_cons_of_pos (p := fun x => x != 0) (hall c (by simp)),
        ih (fun c' hc' => hall c' (List.mem_cons_of_mem _ hc'))]
  rw [hc]
  unfold upperSeq
  conv => rhs; rw [← List.map_id l]
  apply List.map_congr_left
  intro c hc'
  rw [(pat_char_facts c (h c hc')).2]
  rfl

/-- **`MakeApatPattern` on the string of a canonical list of well-formed tokens** (`compile_x`): it compiles, one code per
token.  Covers the exotic strings `A##`, `!#`, `!!A`, `A###`, `!![AC]#`, `!##A`. -/
theorem compile_x (ts : List XTok) (hwf : ∀ t ∈ ts, t.WF) (hne : ts ≠ []) (hc : Canon ts) (e : Nat) (b : Bool) :
    compile (xpatStr ts) e b = .ok ⟨xpatStr ts, ts.map XTok.code, e, b⟩ := by
  unfold compile
  simp only [upper_cstring_id _ (xpat_chars ts hwf), check_x ts hwf hc, Bool.not_true, Bool.false_eq_true, if_false,
    encode_x ts hwf hne hc]

/-! ## converse: every accepted string is the string of a canonical token list -/

/-- the body found by `check_body` as an `XBody` -/
theorem check_xbody_inv (d : UInt8) (r : Bytes) (prev : UInt8) (hd : (d == chLBr) = true ∨ isUpper d = true)
    (h : checkLoop prev 0 (d :: r) = true) :
    ∃ (b : XBody) (tail : Bytes) (p : UInt8), b.WF ∧ b.isHash = false ∧ d :: r = b.str ++ tail ∧ (p == chLBr) = false ∧
      checkLoop p 0 tail = true := by
  obtain ⟨br, ls, tail, p, hup, hne, hone, heq, hp, hck⟩ := check_body d r prev hd h
  cases br with
  | true => exact ⟨.cls ls, tail, p, ⟨hne, hup⟩, rfl, by simpa [XBody.str] using heq, hp, hck⟩
  | false =>
    have hl := hone rfl
    match ls, hl with
    | [x], _ =>
      exact ⟨.letter x, tail, p, hup x (by simp), rfl, by simpa [XBody.str] using heq, hp, hck⟩

/-- peel the `!` run and the body of the first token of an accepted string -/
theorem peel_tok (l : Bytes) : ∀ (prev : UInt8), l ≠ [] → (prev == chLBr) = false → checkLoop prev 0 l = true →
    ∃ (k : Nat) (b : XBody) (tail : Bytes) (p : UInt8), b.WF ∧ l = List.replicate k chBang ++ (b.str ++ tail) ∧
      (p == chLBr) = false ∧ checkLoop p 0 tail = true := by
  induction l with
  | nil => intro _ h; exact absurd rfl h
  | cons c rest ih =>
    intro prev _ hprev hck
    have h4 : ((0 : Int) != 0) = false := by decide
    have fromBody : ((c == chLBr) = true ∨ isUpper c = true) →
        ∃ (k : Nat) (b : XBody) (tail : Bytes) (p : UInt8), b.WF ∧ c :: rest = List.replicate k chBang ++ (b.str ++ tail) ∧
          (p == chLBr) = false ∧ checkLoop p 0 tail = true := by
      intro hd
      obtain ⟨b, tail, p, hb, _, heq, hp, hck'⟩ := check_xbody_inv c rest prev hd hck
      exact ⟨0, b, tail, p, hb, by simpa using heq, hp, hck'⟩
    by_cases c1 : (c == chLBr) = true
    · exact fromBody (Or.inl c1)
    · by_cases c2 : (c == chRBr) = true
      · have h6 : (((0 : Int) - 1) != 0) = true := by decide
        simp only [checkLoop, c1, c2, if_true, h6, Bool.false_eq_true, if_false] at hck
      · by_cases c3 : (c == chBang) = true
        · have hc : c = chBang := eq_of_beq c3
          subst hc
          simp only [checkLoop, c1, c2, beq_self_eq_true, if_true, h4, Bool.false_eq_true, if_false] at hck
          split at hck
          · cases hck
          · rename_i hn0
            split at hck
            · cases hck
            · have hrest : rest ≠ [] := by
                intro h0
                subst h0
                simp at hn0
              obtain ⟨k, b, tail, p, hb, heq, hp, hck'⟩ := ih chBang hrest (by decide) hck
              exact ⟨k + 1, b, tail, p, hb, by rw [heq]; rfl, hp, hck'⟩
        · by_cases c4 : (c == chHash) = true
          · have hc : c = chHash := eq_of_beq c4
            subst hc
            simp only [checkLoop, c1, c2, c3, beq_self_eq_true, if_true, h4, hprev, Bool.false_eq_true, if_false] at hck
            exact ⟨0, .hash, rest, chHash, trivial, rfl, by decide, hck⟩
          · by_cases c5 : isUpper c = true
            · exact fromBody (Or.inr c5)
            · simp only [checkLoop, c1, c2, c3, c4, c5, Bool.false_eq_true, if_false] at hck

/-- **every string accepted by the `CheckPattern` loop is the string of a canonical list of well-formed tokens** -/
theorem parse_x : ∀ (n : Nat) (l : Bytes) (prev : UInt8) (allow : Bool), l.length ≤ n → (prev == chLBr) = false →
    checkLoop prev 0 l = true → ((l.headD 0 == chHash) = true → allow = true) →
    ∃ ts : List XTok, (∀ t ∈ ts, t.WF) ∧ CanonFrom allow ts ∧ l = xpatStr ts := by
  intro n
  induction n with
  | zero =>
    intro l _ _ hl _ _ _
    have : l = [] := List.length_eq_zero_iff.1 (by omega)
    subst this
    exact ⟨[], by simp, trivial, rfl⟩
  | succ n ih =>
    intro l prev allow hl hprev hck hhead
    by_cases hnil : l = []
    · subst hnil
      exact ⟨[], by simp, trivial, rfl⟩
    · obtain ⟨k, b, tail, p, hb, heq, hp, hcktail⟩ := peel_tok l prev hnil hprev hck
      have h4 : ((0 : Int) != 0) = false := by decide
      have htl : tail.length ≤ n := by
        have := congrArg List.length heq
        have hbl := body_length b
        simp only [List.length_append, List.length_replicate] at this
        omega
      -- the result, given the optional `#` and the token list of what follows
      have fin : ∀ (ob : Bool) (tail' : Bytes) (ts : List XTok), tail = obStr ob ++ tail' → (∀ t ∈ ts, t.WF) →
          CanonFrom ob ts → tail' = xpatStr ts →
          ∃ ts : List XTok, (∀ t ∈ ts, t.WF) ∧ CanonFrom allow ts ∧ l = xpatStr ts := by
        intro ob tail' ts htail hts hcan hstr
        have hl' : l = (XTok.mk k b ob).str ++ xpatStr ts := by
          rw [heq, htail, hstr]
          simp [XTok.str]
        refine ⟨⟨k, b, ob⟩ :: ts, ?_, ⟨?_, hcan⟩, by rw [xpatStr_cons]; exact hl'⟩
        · intro t ht
          rcases List.mem_cons.1 ht with rfl | ht
          · exact hb
          · exact hts t ht
        · intro hsh
          apply hhead
          rw [hl', xstr_head ⟨k, b, ob⟩ hb]
          exact hsh
      by_cases c4 : (tail.headD 0 == chHash) = true
      · cases tail with
        | nil => simp [chHash] at c4
        | cons x tail' =>
          have hx : x = chHash := by simpa using c4
          subst hx
          have h1 : (chHash == chLBr) = false := by decide
          have h2 : (chHash == chRBr) = false := by decide
          have h3 : (chHash == chBang) = false := by decide
          have hck' : checkLoop chHash 0 tail' = true := by
            simp only [checkLoop, h1, h2, h3, h4, hp, Bool.false_eq_true, if_false, beq_self_eq_true, if_true] at hcktail
            exact hcktail
          obtain ⟨ts, hts, hcan, hstr⟩ := ih tail' chHash true (by simp only [List.length_cons] at htl; omega) h1 hck'
            (fun _ => rfl)
          exact fin true tail' ts rfl hts hcan hstr
      · obtain ⟨ts, hts, hcan, hstr⟩ := ih tail p false htl hp hcktail (fun h => absurd h c4)
        exact fin false tail ts rfl hts hcan hstr

/-- **converse of `compile_x`** (`check_x_parse`): every non-empty string accepted by `CheckPattern` is the string of a
non-empty canonical list of well-formed tokens — no `plain` hypothesis -/
theorem check_x_parse (cpat : Bytes) (hne : cpat ≠ []) (hck : checkPattern cpat = true) :
    ∃ ts : List XTok, (∀ t ∈ ts, t.WF) ∧ ts ≠ [] ∧ Canon ts ∧ cpat = xpatStr ts := by
  unfold checkPattern at hck
  split at hck
  · cases hck
  · rename_i hh
    have hh' : (cpat.headD 0 == chHash) = false := by simpa using hh
    obtain ⟨ts, hts, hcan, heq⟩ := parse_x cpat.length cpat 0 false (Nat.le_refl _) (by decide) hck
      (fun h => by rw [hh'] at h; cases h)
    refine ⟨ts, hts, ?_, hcan, heq⟩
    intro h0
    subst h0
    exact hne heq

/-! ## the exact characterisation of `MakeApatPattern` -/

/-- **`MakeApatPattern` accepts exactly the strings of canonical token lists** (`compile_iff_x`): no hypothesis on `pat` -/
theorem compile_iff_x (pat : Bytes) (e : Nat) (b : Bool) :
    (∃ P, compile pat e b = .ok P) ↔
      ∃ ts : List XTok, (∀ t ∈ ts, t.WF) ∧ ts ≠ [] ∧ Canon ts ∧ upperSeq (cString pat) = xpatStr ts := by
  constructor
  · rintro ⟨P, h⟩
    unfold compile at h
    simp only at h
    split at h
    · cases h
    · rename_i hck
      split at h
      · cases h
      · rename_i codes henc
        apply check_x_parse _ _ (by simpa using hck)
        intro h0
        rw [h0] at henc
        simp [encodePattern, tokens] at henc
  · rintro ⟨ts, hts, hne, hc, heq⟩
    refine ⟨⟨xpatStr ts, ts.map XTok.code, e, b⟩, ?_⟩
    unfold compile
    simp only [heq, check_x ts hts hc, encode_x ts hts hne hc, Bool.not_true, Bool.false_eq_true, if_false]

/-- … and the compiled pattern is determined by ANY canonical token list of the string: one code `XTok.code` per token -/
theorem compile_codes_x (pat : Bytes) (e : Nat) (b : Bool) (P : Pattern) (h : compile pat e b = .ok P)
    (ts : List XTok) (hwf : ∀ t ∈ ts, t.WF) (hne : ts ≠ []) (hc : Canon ts) (heq : upperSeq (cString pat) = xpatStr ts) :
    P.codes = ts.map XTok.code ∧ P.cpat = xpatStr ts ∧ P.maxerr = e ∧ P.hasIndel = b := by
  unfold compile at h
  simp only [heq, check_x ts hwf hc, encode_x ts hwf hne hc, Bool.not_true, Bool.false_eq_true, if_false] at h
  cases h
  exact ⟨rfl, rfl, rfl, rfl⟩

/-- the token strings of a canonical list are determined by the pattern string (the greedy tokenizer is deterministic) -/
theorem canon_strs_unique (ts us : List XTok) (hts : ∀ t ∈ ts, t.WF) (hus : ∀ t ∈ us, t.WF) (hct : Canon ts) (hcu : Canon us)
    (heq : xpatStr ts = xpatStr us) : ts.map XTok.str = us.map XTok.str := by
  have h1 := tokens_x ts false hts hct (ts.length + us.length + 1) (by omega)
  have h2 := tokens_x us false hus hcu (ts.length + us.length + 1) (by omega)
  rw [heq, h2] at h1
  exact (Option.some.inj h1).symm

/-! ## what a code word means -/

/-- the body accepts the sequence symbol `c` (`c < 26` = letter - 'a') -/
def XBody.acc (b : XBody) (c : Nat) : Bool :=
  match b with
  | .letter l => (Gen.apatDnaCode.getD (l.toNat - 65) 0).testBit c
  | .cls ls => ls.any fun l => (Gen.apatDnaCode.getD (l.toNat - 65) 0).testBit c
  | .hash => false

theorem xval_lt (b : XBody) : b.val < 2 ^ 26 := by
  cases b with
  | letter c =>
    simp only [XBody.val]
    rw [List.getD_eq_getElem?_getD]
    cases h : Gen.apatDnaCode[c.toNat - 65]? with
    | none => simp
    | some v => exact code_table_lt v (List.mem_of_getElem? h)
  | cls ls => exact valLetters_lt ls
  | hash => simp [XBody.val]

theorem xval_bit (b : XBody) (hb : b.WF) (c : Nat) : b.val.testBit c = b.acc c := by
  cases b with
  | letter l => rfl
  | cls ls => exact valLetters_bit ls c hb.2
  | hash => simp [XBody.val, XBody.acc]

theorem xnegval_lt (t : XTok) : (if t.bangs % 2 = 1 then t.body.val ^^^ Gen.apatPatMask else t.body.val) < 2 ^ 26 := by
  split
  · exact Nat.xor_lt_two_pow (xval_lt _) (by rw [obli_eq.2]; decide)
  · exact xval_lt _

/-- **what a compiled position means** (`xtok_semantics`): the position accepts the symbol `c` iff its body does — a letter:
`c` is in its IUPAC class; a class: in the class of one of its letters; a bare `#`: never — negated when the number of `!` is
odd; it is obligatory iff the token ends with `#` (its own `#`, or the bare-`#` body) -/
theorem xtok_semantics (t : XTok) (ht : t.WF) (c : Nat) (hc : c < 26) :
    accepts t.code c = (t.body.acc c ^^ (t.bangs % 2 == 1)) ∧ oblig t.code = (t.oblig || t.body.isHash) := by
  constructor
  · unfold accepts XTok.code
    have hne : ¬ (26 = c) := by omega
    rw [Nat.testBit_or, obpart_bit]
    simp only [hne, decide_false, Bool.and_false, Bool.or_false]
    by_cases hk : t.bangs % 2 = 1
    · simp only [hk, if_true, Nat.testBit_xor, obli_eq.2, Nat.testBit_two_pow_sub_one, hc, decide_true,
        xval_bit t.body ht, beq_self_eq_true]
    · have hk' : (t.bangs % 2 == 1) = false := by simpa using hk
      simp only [hk, if_false, hk', Bool.xor_false, xval_bit t.body ht]
  · unfold oblig XTok.code
    rw [obli_eq.1, and_two_pow_ne, Nat.testBit_or, Nat.testBit_lt_two_pow (xnegval_lt t), ← obli_eq.1, obpart_bit]
    simp

/-! ## the documented grammar is the sub-case `bangs ≤ 1`, body not `#` -/

/-- a token of the documented grammar as a token of the implemented grammar -/
def Tok.toX (t : Tok) : XTok :=
  ⟨if t.neg then 1 else 0, if t.bracket then .cls t.letters else .letter (t.letters.headD 0), t.oblig⟩

/-- **the documented token is an `XTok`** with at most one `!` and a non-`#` body: same string, same code -/
theorem tok_embeds (t : Tok) (ht : t.WF) :
    t.toX.WF ∧ t.toX.bangs = (if t.neg then 1 else 0) ∧ t.toX.body.isHash = false ∧ t.toX.startsHash = false ∧
      t.toX.oblig = t.oblig ∧ t.toX.str = t.str ∧ t.toX.code = t.code := by
  obtain ⟨neg, bracket, letters, oblig⟩ := t
  obtain ⟨hup, hne, hone⟩ := ht
  simp only at hup hne hone
  cases bracket with
  | true =>
    refine ⟨⟨hne, hup⟩, rfl, rfl, ?_, rfl, ?_, ?_⟩
    · simp [Tok.toX, XTok.startsHash, XBody.isHash]
    · cases neg <;> cases oblig <;> simp [Tok.toX, XTok.str, XBody.str, obStr, Tok.str, Tok.bang, Tok.body, Tok.hash]
    · cases neg <;> cases oblig <;> simp [Tok.toX, XTok.code, XBody.val, XBody.isHash, Tok.code]
  | false =>
    have hl := hone rfl
    match letters, hl with
    | [x], _ =>
      have hx : isUpper x = true := hup x (by simp)
      refine ⟨hx, rfl, rfl, ?_, rfl, ?_, ?_⟩
      · simp [Tok.toX, XTok.startsHash, XBody.isHash]
      · cases neg <;> cases oblig <;> simp [Tok.toX, XTok.str, XBody.str, obStr, Tok.str, Tok.bang, Tok.body, Tok.hash]
      · cases neg <;> cases oblig <;> simp [Tok.toX, XTok.code, XBody.val, XBody.isHash, Tok.code, valLetters, hx]

theorem canonFrom_embeds (ts : List Tok) (hts : ∀ t ∈ ts, t.WF) : ∀ allow, CanonFrom allow (ts.map Tok.toX) := by
  induction ts with
  | nil => intro _; trivial
  | cons t ts ih =>
    intro allow
    refine ⟨?_, ih (fun u hu => hts u (List.mem_cons_of_mem _ hu)) _⟩
    intro h
    rw [(tok_embeds t (hts t (by simp))).2.2.2.1] at h
    cases h

/-- a pattern of the documented grammar is a canonical `XTok` list: `compile_x` specialises to `compile_pat` -/
theorem pat_embeds (ts : List Tok) (hts : ∀ t ∈ ts, t.WF) :
    (∀ t ∈ ts.map Tok.toX, t.WF) ∧ Canon (ts.map Tok.toX) ∧ xpatStr (ts.map Tok.toX) = patStr ts ∧
      (ts.map Tok.toX).map XTok.code = ts.map Tok.code := by
  refine ⟨?_, canonFrom_embeds ts hts false, ?_, ?_⟩
  · intro t ht
    obtain ⟨u, hu, rfl⟩ := List.mem_map.1 ht
    exact (tok_embeds u (hts u hu)).1
  · unfold xpatStr patStr
    rw [List.map_map]
    congr 1
    apply List.map_congr_left
    intro u hu
    exact (tok_embeds u (hts u hu)).2.2.2.2.2.1
  · rw [List.map_map]
    apply List.map_congr_left
    intro u hu
    exact (tok_embeds u (hts u hu)).2.2.2.2.2.2

/-- conversely an `XTok` with at most one `!` and a non-`#` body is a documented token -/
theorem xtok_documented (t : XTok) (ht : t.WF) (h1 : t.bangs ≤ 1) (h2 : t.body.isHash = false) :
    ∃ u : Tok, u.WF ∧ u.toX = t := by
  obtain ⟨k, b, ob⟩ := t
  have hk : (if (k == 1) = true then 1 else 0) = k := by
    match k, h1 with
    | 0, _ => rfl
    | 1, _ => rfl
  cases b with
  | letter c =>
    refine ⟨⟨k == 1, false, [c], ob⟩, ⟨by intro x hx; simp at hx; subst hx; exact ht, by simp, by simp⟩, ?_⟩
    simp only [Tok.toX, hk, Bool.false_eq_true, if_false, List.headD_cons]
  | cls ls =>
    refine ⟨⟨k == 1, true, ls, ob⟩, ⟨ht.2, ht.1, by simp⟩, ?_⟩
    simp only [Tok.toX, hk, if_true]
  | hash => cases h2

theorem plain_two_bangs (x : Bytes) : plain (chBang :: chBang :: x) = false := by
  simp [plain]

theorem plain_bang_hash (x : Bytes) : plain (chBang :: chHash :: x) = false := by
  simp [plain]

theorem plain_hash_hash (x : Bytes) : plain (chHash :: chHash :: x) = false := by
  simp [plain]

theorem plain_tokens_from (ts : List XTok) : ∀ (allow : Bool), CanonFrom allow ts →
    plain (obStr allow ++ xpatStr ts) = true → ∀ t ∈ ts, t.bangs ≤ 1 ∧ t.body.isHash = false := by
  induction ts with
  | nil => intro _ _ _ t ht; cases ht
  | cons t ts ih =>
    intro allow hc hpl
    obtain ⟨k, b, ob⟩ := t
    have hrec : plain (obStr ob ++ xpatStr ts) = true := by
      have e : obStr allow ++ xpatStr (⟨k, b, ob⟩ :: ts) =
          (obStr allow ++ List.replicate k chBang ++ b.str) ++ (obStr ob ++ xpatStr ts) := by
        simp [xpatStr_cons, XTok.str]
      rw [e] at hpl
      exact plain_suffix _ _ hpl
    have hown : plain (List.replicate k chBang ++ (b.str ++ (obStr ob ++ xpatStr ts))) = true := by
      have e : obStr allow ++ xpatStr (⟨k, b, ob⟩ :: ts) =
          obStr allow ++ (List.replicate k chBang ++ (b.str ++ (obStr ob ++ xpatStr ts))) := by
        simp [xpatStr_cons, XTok.str]
      rw [e] at hpl
      exact plain_suffix _ _ hpl
    have hk : k ≤ 1 := by
      match k, hown with
      | 0, _ => omega
      | 1, _ => omega
      | k + 2, hown =>
        rw [List.replicate_succ, List.replicate_succ, List.cons_append, List.cons_append, plain_two_bangs] at hown
        cases hown
    have hb : b.isHash = false := by
      cases b with
      | letter c => rfl
      | cls ls => rfl
      | hash =>
        match k, hk, hown, hc with
        | 1, _, hown, _ =>
          simp only [List.replicate_succ, List.replicate_zero, XBody.str, List.cons_append, List.nil_append,
            plain_bang_hash] at hown
          cases hown
        | 0, _, _, hc =>
          have ha : allow = true := hc.1 rfl
          subst ha
          simp only [obStr, if_true, xpatStr_cons, XTok.str, List.replicate_zero, XBody.str, List.cons_append,
            List.nil_append, plain_hash_hash] at hpl
          cases hpl
    intro u hu
    rcases List.mem_cons.1 hu with rfl | hu
    · exact ⟨hk, hb⟩
    · exact ih ob hc.2 hrec u hu

/-- **on `plain` strings the implemented grammar is the documented one**: every token of the canonical list of a `plain`
string has at most one `!` and a non-`#` body (hence is a `Tok`, `xtok_documented`) — `compile_iff_x` specialises to
`compile_grammar_iff` -/
theorem plain_tokens_documented (ts : List XTok) (hc : Canon ts) (hpl : plain (xpatStr ts) = true) :
    ∀ t ∈ ts, t.bangs ≤ 1 ∧ t.body.isHash = false :=
  plain_tokens_from ts false hc (by simpa [obStr] using hpl)

/-! ## tests on concrete strings (by evaluation; these are tests, the theorems above are the proofs) -/

/-- the hypotheses of `compile_x` on `ts`, its string and its codes (decidable: for the tests) -/
def xSpec (ts : List XTok) (s : Bytes) (codes : List Nat) : Prop :=
  (∀ t ∈ ts, t.WF) ∧ ts ≠ [] ∧ Canon ts ∧ xpatStr ts = s ∧ ts.map XTok.code = codes
instance (ts : List XTok) (s : Bytes) (codes : List Nat) : Decidable (xSpec ts s codes) := by
  unfold xSpec; infer_instance

/-- the error of a failed compilation (for the tests) -/
def errOf (r : Except PatErr Pattern) : Option PatErr :=
  match r with
  | .error e => some e
  | .ok _ => none

/-- `A##` = tokens `A#`, `#` : codes `[1 ||| OBLIBIT, OBLIBIT]`; hypotheses of `compile_x` satisfiable on an exotic list -/
example : xSpec [⟨0, .letter 65, true⟩, ⟨0, .hash, false⟩] [65, 35, 35] [67108865, 67108864] ∧
    (compile [65, 35, 35] 0 false).toOption = some ⟨[65, 35, 35], [67108865, 67108864], 0, false⟩ := by decide

/-- `!#` = one token: accepts every symbol, obligatory: `PATMASK ||| OBLIBIT` -/
example : xSpec [⟨1, .hash, false⟩] [33, 35] [Gen.apatPatMask ||| Gen.apatObliBit] ∧
    (compile [33, 35] 2 true).toOption = some ⟨[33, 35], [134217727], 2, true⟩ := by decide

/-- `!!A` = `A` -/
example : xSpec [⟨2, .letter 65, false⟩] [33, 33, 65] [1] ∧
    (compile [33, 33, 65] 0 false).toOption = some ⟨[33, 33, 65], [1], 0, false⟩ := by decide

/-- `A###` = `A#`, `##`;  `!![AC]#` = one token;  `!##A` = `!##`, `A`;  lower case and NUL-terminated input `a##\0x` -/
example :
    (compile [65, 35, 35, 35] 0 false).toOption.map Pattern.codes = some [67108865, 67108864] ∧
    xSpec [⟨0, .letter 65, true⟩, ⟨0, .hash, true⟩] [65, 35, 35, 35] [67108865, 67108864] ∧
    (compile [33, 33, 91, 65, 67, 93, 35] 0 false).toOption.map Pattern.codes = some [67108869] ∧
    xSpec [⟨2, .cls [65, 67], true⟩] [33, 33, 91, 65, 67, 93, 35] [67108869] ∧
    (compile [33, 35, 35, 65] 0 false).toOption.map Pattern.codes = some [134217727, 1] ∧
    xSpec [⟨1, .hash, true⟩, ⟨0, .letter 65, false⟩] [33, 35, 35, 65] [134217727, 1] ∧
    (compile [97, 35, 35, 0, 120] 0 false).toOption.map Pattern.codes = some [67108865, 67108864] := by decide

/-- rejected: `#A`, `A!`, `[A#]`, `!]`, `[]`, `[[A]]`, `[!A]`, the empty string -/
example :
    errOf (compile [35, 65] 0 false) = some .check ∧ errOf (compile [65, 33] 0 false) = some .check ∧
    errOf (compile [91, 65, 35, 93] 0 false) = some .check ∧ errOf (compile [33, 93] 0 false) = some .check ∧
    errOf (compile [91, 93] 0 false) = some .check ∧ errOf (compile [91, 91, 65, 93, 93] 0 false) = some .check ∧
    errOf (compile [91, 33, 65, 93] 0 false) = some .check ∧ errOf (compile [] 0 false) = some .encode := by decide

/-- a non-canonical list: `A`, `#` has the same string as the canonical `A#` and other codes — `Canon` is needed -/
example : ¬ Canon [⟨0, .letter 65, false⟩, ⟨0, .hash, false⟩] ∧
    xpatStr [⟨0, .letter 65, false⟩, ⟨0, .hash, false⟩] = xpatStr [⟨0, .letter 65, true⟩] ∧
    [XTok.mk 0 (.letter 65) false, ⟨0, .hash, false⟩].map XTok.code ≠ [XTok.mk 0 (.letter 65) true].map XTok.code := by
  decide

end ObiVerif.Apat
