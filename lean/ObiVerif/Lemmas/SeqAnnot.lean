import ObiVerif.Model.SeqAnnot
import ObiVerif.Lemmas.SeqHeapRefine
/-!
# `_revcmpMutation` / `_subseqMutation` on the `pairing_mismatches` attribute, whole-object laws (C07)
-/
namespace ObiVerif.SeqAnnot
open ObiVerif.SeqOps

/-- complementing twice -/
def cc (b : UInt8) : UInt8 := nucComplement (nucComplement b)

/-- byte `i` of the rewritten key -/
def keyAt (m : Bytes) (i : Nat) : UInt8 :=
  if i = 12 then m.getD 4 0 else if i = 11 then m.getD 3 0 else if i = 4 then m.getD 12 0
  else if i = 3 then m.getD 11 0 else if i = 9 then nucComplement (m.getD 1 0)
  else if i = 1 then nucComplement (m.getD 9 0) else m.getD i 0

/-- `rev` panics exactly on keys shorter than 13 bytes -/
theorem revcmpKey_none_iff (m : Bytes) : revcmpKey m = none ↔ m.length < 13 := by
  unfold revcmpKey
  split <;> simp_all

theorem revcmpKey_spec (m : Bytes) (h : 13 ≤ m.length) :
    ∃ m', revcmpKey m = some m' ∧ m'.length = m.length ∧ ∀ i, i < m.length → m'[i]? = some (keyAt m i) := by
  unfold revcmpKey
  rw [if_neg (by omega)]
  refine ⟨_, rfl, by simp, ?_⟩
  intro i hi
  simp only [Array.set!_eq_setIfInBounds, Array.getElem?_toList, Array.getElem?_setIfInBounds,
    Array.size_setIfInBounds, List.size_toArray, keyAt]
  have e : ∀ j, (List.toArray m).getD j 0 = m.getD j 0 := by
    intro j; simp [Array.getD_eq_getD_getElem?, List.getD_eq_getElem?_getD]
  simp only [e]
  by_cases h12 : 12 = i
  · subst h12; simp [show 12 < m.length by omega]
  by_cases h11 : 11 = i
  · subst h11; simp [show 11 < m.length by omega]
  by_cases h4 : 4 = i
  · subst h4; simp [show 4 < m.length by omega]
  by_cases h3 : 3 = i
  · subst h3; simp [show 3 < m.length by omega]
  by_cases h9 : 9 = i
  · subst h9; simp [show 9 < m.length by omega]
  by_cases h1 : 1 = i
  · subst h1; simp [show 1 < m.length by omega]
  · simp only [h12, h11, h4, h3, h9, h1, if_false, List.getElem?_toArray]
    simp [Ne.symm h12, Ne.symm h11, Ne.symm h4, Ne.symm h3, Ne.symm h9, Ne.symm h1, List.getD_eq_getElem?_getD, hi]

theorem getD_of_getElem? {l : Bytes} {i : Nat} {v : UInt8} (h : l[i]? = some v) : l.getD i 0 = v := by
  simp [List.getD_eq_getElem?_getD, h]

/-- rewriting a key twice: everything returns to its place, bytes 1 and 9 have been complemented twice -/
theorem revcmpKey_twice (m : Bytes) (h : 13 ≤ m.length) :
    ∃ m' m'', revcmpKey m = some m' ∧ revcmpKey m' = some m'' ∧ m''.length = m.length ∧
      ∀ i, i < m.length → m''[i]? = some (if i = 1 ∨ i = 9 then cc (m.getD i 0) else m.getD i 0) := by
  obtain ⟨m', h1, l1, s1⟩ := revcmpKey_spec m h
  obtain ⟨m'', h2, l2, s2⟩ := revcmpKey_spec m' (by omega)
  refine ⟨m', m'', h1, h2, by omega, ?_⟩
  intro i hi
  rw [s2 i (by omega)]
  have g : ∀ j, j < m.length → m'.getD j 0 = keyAt m j := fun j hj => getD_of_getElem? (s1 j hj)
  congr 1
  unfold keyAt
  rw [g 4 (by omega), g 3 (by omega), g 12 (by omega), g 11 (by omega), g 1 (by omega), g 9 (by omega), g i hi]
  simp only [keyAt, cc]
  by_cases h12 : i = 12
  · subst h12; simp
  by_cases h11 : i = 11
  · subst h11; simp
  by_cases h4 : i = 4
  · subst h4; simp
  by_cases h3 : i = 3
  · subst h3; simp
  by_cases h9 : i = 9
  · subst h9; simp
  by_cases h1' : i = 1
  · subst h1'; simp
  · simp [h12, h11, h4, h3, h9, h1']

/-- a key that `rev` rewrites without panic and whose two symbols are restored by complementing twice -/
def KeyOk (k : Bytes) : Prop := 13 ≤ k.length ∧ cc (k.getD 1 0) = k.getD 1 0 ∧ cc (k.getD 9 0) = k.getD 9 0

/-- **the key rewriting is an involution exactly on the keys whose two symbols are fixed by the double
complement** (keys of at least 13 bytes; shorter keys panic, `revcmpKey_none_iff`) -/
theorem revcmpKey_involutive_iff (m : Bytes) (h : 13 ≤ m.length) :
    (revcmpKey m).bind revcmpKey = some m ↔ (cc (m.getD 1 0) = m.getD 1 0 ∧ cc (m.getD 9 0) = m.getD 9 0) := by
  obtain ⟨m', m'', h1, h2, l2, s2⟩ := revcmpKey_twice m h
  rw [h1, Option.bind_some, h2]
  constructor
  · intro e
    simp only [Option.some.injEq] at e
    subst e
    have a := s2 1 (by omega)
    have b := s2 9 (by omega)
    simp only [true_or, or_true, if_true] at a b
    have a' := getD_of_getElem? a
    have b' := getD_of_getElem? b
    exact ⟨a'.symm, b'.symm⟩
  · rintro ⟨a, b⟩
    congr 1
    apply List.ext_getElem?
    intro i
    by_cases hi : i < m.length
    · rw [s2 i hi]
      have : m[i]? = some (m.getD i 0) := by simp [List.getD_eq_getElem?_getD, hi]
      rw [this]
      congr 1
      split
      · rename_i h19; rcases h19 with e | e <;> subst e <;> assumption
      · rfl
    · rw [List.getElem?_eq_none (by omega), List.getElem?_eq_none (by omega)]

theorem KeyOk.invol {k : Bytes} (hk : KeyOk k) : ∃ k', revcmpKey k = some k' ∧ revcmpKey k' = some k := by
  have := (revcmpKey_involutive_iff k hk.1).mpr ⟨hk.2.1, hk.2.2⟩
  cases h1 : revcmpKey k with
  | none => rw [h1] at this; cases this
  | some k' => rw [h1, Option.bind_some] at this; exact ⟨k', rfl, this⟩

/-- no collision among rewritten keys: `rev` is injective on good keys (so the Go map built by
`_revcmpMutation` has as many entries as the one it reads, whatever the iteration order) -/
theorem revcmpKey_injective {k1 k2 k : Bytes} (h1 : KeyOk k1) (h2 : KeyOk k2)
    (e1 : revcmpKey k1 = some k) (e2 : revcmpKey k2 = some k) : k1 = k2 := by
  obtain ⟨a, ha, hb⟩ := h1.invol
  obtain ⟨b, hc, hd⟩ := h2.invol
  rw [e1] at ha; rw [e2] at hc
  cases ha; cases hc
  rw [hb] at hd; cases hd; rfl

/-! ## the attribute -/

theorem revcmpMm_invol (n : Nat) (m : Mm) (hk : ∀ kp ∈ m, KeyOk kp.1) :
    ∃ m', revcmpMm n m = some m' ∧ revcmpMm n m' = some m ∧ (m' = [] ↔ m = []) := by
  induction m with
  | nil => exact ⟨[], rfl, rfl, Iff.rfl⟩
  | cons kp t ih =>
    obtain ⟨k, p⟩ := kp
    obtain ⟨t', h1, h2, _⟩ := ih (fun x hx => hk x (List.mem_cons_of_mem _ hx))
    obtain ⟨k', e1, e2⟩ := (hk (k, p) (by simp)).invol
    refine ⟨(k', revcmpPos n p) :: t', ?_, ?_, by simp⟩
    · simp only [revcmpMm, e1, h1]
    · simp only [revcmpMm, e2, h2]
      have : revcmpPos (↑n) (revcmpPos (↑n) p) = p := by unfold revcmpPos; omega
      rw [this]

theorem rcMut_invol (n : Nat) (mm : Option Mm) (hk : ∀ m, mm = some m → ∀ kp ∈ m, KeyOk kp.1) :
    ∃ mm', rcMut n mm = some mm' ∧ rcMut n mm' = some mm := by
  cases mm with
  | none => exact ⟨none, rfl, rfl⟩
  | some m =>
    cases m with
    | nil => exact ⟨some [], rfl, rfl⟩
    | cons kp t =>
      obtain ⟨m', h1, h2, h3⟩ := revcmpMm_invol n (kp :: t) (hk _ rfl)
      refine ⟨some m', by simp only [rcMut, h1, Option.map_some], ?_⟩
      cases m' with
      | nil => simp at h3
      | cons kp' t' => simp only [rcMut, h2, Option.map_some]

theorem rcQual_invol (n : Nat) (q : Bytes) (hq : q = [] ∨ q.length = n) :
    ∃ q', rcQual n q = some q' ∧ rcQual n q' = some q ∧ (q' = [] ∨ q'.length = n) := by
  rcases hq with hq | hq
  · subst hq; exact ⟨[], rfl, rfl, Or.inl rfl⟩
  · by_cases hq0 : q = []
    · subst hq0; exact ⟨[], rfl, rfl, Or.inl rfl⟩
    · have hl : (reverseInPlace q).length = n := by rw [SeqHeap.reverseInPlace_length, hq]
      have hne : reverseInPlace q ≠ [] := by
        intro e; rw [e] at hl; subst hl; exact hq0 (List.eq_nil_of_length_eq_zero hq)
      have e1 : rcQual n q = some (reverseInPlace q) := by
        unfold rcQual
        rw [if_neg hq0, if_neg (by omega), ← hq]; simp
      refine ⟨reverseInPlace q, e1, ?_, Or.inr hl⟩
      unfold rcQual
      rw [if_neg hne, if_neg (by omega), ← hl]
      simp only [List.take_length, List.drop_length, List.append_nil]
      congr 1
      -- reverse twice
      have : ∀ l : Bytes, reverseInPlace l = l.reverse := by
        intro l
        unfold reverseInPlace
        rw [revLoop_eq_genLoop, genLoop_spec id l (l.length + 1) l.toArray l.length 0 (LoopInv.init _ _) (by omega),
          List.map_id]
      rw [this, this, List.reverse_reverse]

/-- well-formed object: qualities absent or as long as the sequence, good keys -/
structure WF (o : WObj) : Prop where
  qual : o.qual = [] ∨ o.qual.length = o.seq.length
  keys : ∀ m, o.mm = some m → ∀ kp ∈ m, KeyOk kp.1

/-- **rc ∘ rc = id on the whole object** (bases, qualities, `pairing_mismatches` keys and positions, other
annotations), given that the bases are restored (`Props.C07.rc_rc_inplace`: sequences over the alphabet) -/
theorem rcW_rcW (o : WObj) (hw : WF o) (hs : revcompInPlace (revcompInPlace o.seq) = o.seq) :
    ∃ o', rcW o = some o' ∧ rcW o' = some o := by
  obtain ⟨q', q1, q2, _⟩ := rcQual_invol o.seq.length o.qual hw.qual
  obtain ⟨mm', m1, m2⟩ := rcMut_invol o.seq.length o.mm hw.keys
  have hl : (revcompInPlace o.seq).length = o.seq.length := SeqHeap.revcompInPlace_length _
  refine ⟨⟨revcompInPlace o.seq, q', mm', o.rest⟩, by simp only [rcW, q1, m1], ?_⟩
  simp only [rcW, hl, q2, m2, hs]

/-- **the proposed finding, as a theorem**: after `Join` on a receiver WITH qualities (and a non-empty
second sequence) `ReverseComplement` panics — the qualities were not extended -/
theorem join_then_rc_panics (o o2 : WObj) (hq : o.qual ≠ []) (hl : o.qual.length = o.seq.length)
    (h2 : o2.seq ≠ []) : rcW (joinW o o2) = none := by
  have : o.qual.length < (o.seq ++ o2.seq).length := by
    have := List.length_pos_iff.mpr h2
    simp only [List.length_append]; omega
  have e : rcQual (o.seq ++ o2.seq).length o.qual = none := by
    unfold rcQual; rw [if_neg hq, if_pos this]
  simp only [rcW, joinW, e]

/-! ## positions under cut-then-rc and rc-then-cut -/

/-- the position transforms commute: cutting `[fr, to)` then mirroring = mirroring then cutting the
mirrored window, for a position of the original sequence -/
theorem subseqPos_revcmpPos (n fr to : Nat) (p : Int) (hft : fr < to) (hto : to ≤ n) (h1 : 1 ≤ p) (hn : p ≤ n) :
    (subseqPos fr n (to - fr : Nat) p).map (revcmpPos (to - fr : Nat)) =
      subseqPos (n - to : Nat) n (to - fr : Nat) (revcmpPos n p) := by
  unfold subseqPos revcmpPos
  simp only [ge_iff_le, Bool.and_eq_true, decide_eq_true_eq]
  have e1 : ((n - to : Nat) : Int) = (n : Int) - to := by omega
  have e2 : ((to - fr : Nat) : Int) = (to : Int) - fr := by omega
  rw [e1, e2]
  by_cases a : p - (fr : Int) < 1 <;> by_cases b : (n : Int) - p + 1 - ((n : Int) - to) < 1 <;>
    simp only [a, b, if_true, if_false] <;> split <;> split <;> simp only [Option.map_some, Option.map_none, Option.some.injEq, reduceCtorEq] <;> omega

end ObiVerif.SeqAnnot
