import ObiVerif.Lemmas.LcsVerbatim
/-!
# C09: the verbatim kernel, BOTH modes (endgapfree = false / true): no panic, independence of the scratch buffer

`evenCell_eq_body` / `oddCell_eq_body`: inside the `xs..xf` ranges a loop body never fails a bounds check and is a
pure function (`evenBody` / `oddBody`) of the three buffer cells it reads and of `pend`/`end`.
-/
namespace ObiVerif.Lcs


/-- the geometry facts, endgapfree free -/
structure GeoW (g : Geo) (A B : Seq) : Prop where
  hA : g.A = A.toArray
  hB : g.B = B.toArray
  hlA : g.lA = A.length
  hlB : g.lB = B.length
  hle : B.length ≤ A.length
  hextra : 1 ≤ g.extra
  heven : g.even = 1 + (g.lA - g.lB) + 2 * g.extra
  hwidth : (g.width : Int) = 2 * g.even - 1

/-- the body of the first inner loop as a pure function of the three cells it reads and of `pend`/`end` -/
def evenBody (g : Geo) (y x : Int) (p up lf : UInt64) (pend : Nat) (endp : Int) : UInt64 × Nat × Int :=
  let i := y - x + g.extra
  let j := y + x - g.extra
  let t : UInt64 × UInt64 × UInt64 :=
    if i == 0 then (notavailV, notavailV, if g.egf then encodeValues 0 0 false else encodeValues 0 j.toNat false)
    else if j == 0 then (notavailV, encodeValues 0 i.toNat false, notavailV)
    else (if samenuc (g.A.getD (j - 1).toNat 0) (g.B.getD (i - 1).toNat 0) then incscore (incpath p) else incpath p,
          if x < g.even - 1 then incpath up else outV,
          if x > 0 then (if (i > 0 ∧ i < g.lB) ∨ !g.egf then incpath lf else lf) else outV)
  let r := choose g i j t.1 t.2.1 t.2.2 ⟨#[], pend, endp⟩
  (if x == 0 ∨ x == g.even - 1 then setout r.1 else r.1, r.2.pend, r.2.endp)

theorem choose_fst (g : Geo) (i j : Int) (d u l : UInt64) (st : St) : (choose g i j d u l st).1 = (pick d u l).1 := by
  unfold choose; split <;> rename_i h <;> simp only [] <;> split <;> (try split) <;> simp_all

theorem choose_snd (g : Geo) (i j : Int) (d u l : UInt64) (st : St) :
    (choose g i j d u l st).2 = ⟨st.buf, (choose g i j d u l ⟨#[], st.pend, st.endp⟩).2.pend,
      (choose g i j d u l ⟨#[], st.pend, st.endp⟩).2.endp⟩ := by
  unfold choose; split <;> rename_i h <;> simp only [] <;> split <;> (try split) <;> simp_all

theorem choose_buf (g : Geo) (i j : Int) (d u l : UInt64) (st : St) : (choose g i j d u l st).2.buf = st.buf := by
  rw [choose_snd]

theorem choose_pend (g : Geo) (i j : Int) (d u l : UInt64) (st : St) :
    (choose g i j d u l st).2.pend = (choose g i j d u l ⟨#[], st.pend, st.endp⟩).2.pend := by rw [choose_snd]

theorem choose_endp (g : Geo) (i j : Int) (d u l : UInt64) (st : St) :
    (choose g i j d u l st).2.endp = (choose g i j d u l ⟨#[], st.pend, st.endp⟩).2.endp := by rw [choose_snd]

theorem evenCell_eq_body {g : Geo} {A B : Seq} (hg : GeoW g A B) (poff coff : Nat) (y x : Int) (st : St) (i j : Nat)
    (hx0 : 0 ≤ x) (hx1 : x ≤ g.even - 1)
    (hi : y - x + g.extra = (i : Int)) (hi1 : i ≤ B.length)
    (hj : y + x - g.extra = (j : Int)) (hj1 : j ≤ A.length) :
    evenCell g poff coff y x st = .ok ⟨st.buf.setIfInBounds (coff + x.toNat)
      (evenBody g y x (st.buf.getD (poff + x.toNat) 0) (st.buf.getD (poff + (x + g.even).toNat) 0)
        (st.buf.getD (poff + (x + g.even - 1).toNat) 0) st.pend st.endp).1,
      (evenBody g y x (st.buf.getD (poff + x.toNat) 0) (st.buf.getD (poff + (x + g.even).toNat) 0)
        (st.buf.getD (poff + (x + g.even - 1).toNat) 0) st.pend st.endp).2.1,
      (evenBody g y x (st.buf.getD (poff + x.toNat) 0) (st.buf.getD (poff + (x + g.even).toNat) 0)
        (st.buf.getD (poff + (x + g.even - 1).toNat) 0) st.pend st.endp).2.2⟩ := by
  obtain ⟨hA, hB, hlA, hlB, hle, hextra, heven, hwidth⟩ := hg
  have hw : 0 ≤ x ∧ x < (g.width : Int) := by omega
  unfold evenCell evenBody
  simp only [hi, hj]
  by_cases h0 : i = 0
  · subst h0
    simp only [Int.natCast_zero, beq_self_eq_true, if_true, pure, Except.pure, bind, Except.bind]
    simp [wr, hw, choose_fst, choose_buf, choose_pend g _ _ _ _ _ st, choose_endp g _ _ _ _ _ st]
  · by_cases hj0 : j = 0
    · subst hj0
      have : ((i : Int) == 0) = false := by simp [h0]
      simp only [this, Int.natCast_zero, beq_self_eq_true, if_true, pure, Except.pure, bind, Except.bind]
      simp [wr, hw, choose_fst, choose_buf, choose_pend g _ _ _ _ _ st, choose_endp g _ _ _ _ _ st]
    · have hi0 : ((i : Int) == 0) = false := by simp [h0]
      have hj0' : ((j : Int) == 0) = false := by simp [hj0]
      have hja : 0 ≤ (j : Int) - 1 ∧ (j : Int) - 1 < (g.A.size : Int) := by rw [hA]; simp; omega
      have hia : 0 ≤ (i : Int) - 1 ∧ (i : Int) - 1 < (g.B.size : Int) := by rw [hB]; simp; omega
      simp only [hi0, hj0', Bool.false_eq_true, if_false]
      have hj1' : 1 ≤ (j : Int) := by omega
      have hi1' : 1 ≤ (i : Int) := by omega
      by_cases c1 : x < g.even - 1 <;> by_cases c2 : 0 < x
      · have r1 : 0 ≤ x + g.even ∧ x + g.even < (g.width : Int) := by omega
        have r2 : 0 ≤ x + g.even - 1 ∧ x + g.even - 1 < (g.width : Int) := by omega
        have r3 : 1 ≤ x + g.even := by omega
        simp [wr, rd, byteAt, hw, hja, hia, c1, c2, r1, r2, r3, hj1', hi1', choose_fst, choose_buf, choose_pend g _ _ _ _ _ st, choose_endp g _ _ _ _ _ st]
        try rfl
      · have r1 : 0 ≤ x + g.even ∧ x + g.even < (g.width : Int) := by omega
        simp [wr, rd, byteAt, hw, hja, hia, c1, c2, r1, hj1', hi1', choose_fst, choose_buf, choose_pend g _ _ _ _ _ st, choose_endp g _ _ _ _ _ st]
        try rfl
      · have r2 : 0 ≤ x + g.even - 1 ∧ x + g.even - 1 < (g.width : Int) := by omega
        have r3 : 1 ≤ x + g.even := by omega
        simp [wr, rd, byteAt, hw, hja, hia, c1, c2, r2, r3, hj1', hi1', choose_fst, choose_buf, choose_pend g _ _ _ _ _ st, choose_endp g _ _ _ _ _ st]
        try rfl
      · simp [wr, rd, byteAt, hw, hja, hia, c1, c2, hj1', hi1', choose_fst, choose_buf, choose_pend g _ _ _ _ _ st, choose_endp g _ _ _ _ _ st]
        try rfl

/-- the body of the second inner loop as a pure function of the three cells it reads and of `pend`/`end` -/
def oddBody (g : Geo) (y x : Int) (p up lf : UInt64) (pend : Nat) (endp : Int) : UInt64 × Nat × Int :=
  let i := y - x + g.extra + g.even
  let j := y + x - g.extra - g.even + 1
  let t : UInt64 × UInt64 × UInt64 :=
    if i == 0 then (notavailV, notavailV, if g.egf then encodeValues 0 0 false else encodeValues 0 j.toNat false)
    else if j == 0 then (notavailV, encodeValues 0 i.toNat false, notavailV)
    else (if samenuc (g.A.getD (j - 1).toNat 0) (g.B.getD (i - 1).toNat 0) then incscore (incpath p) else incpath p,
          incpath up,
          if (i > 0 ∧ i < g.lB) ∨ !g.egf then incpath lf else lf)
  let r := choose g i j t.1 t.2.1 t.2.2 ⟨#[], pend, endp⟩
  (r.1, r.2.pend, r.2.endp)

theorem oddCell_eq_body {g : Geo} {A B : Seq} (hg : GeoW g A B) (poff coff : Nat) (y x : Int) (st : St) (i j : Nat)
    (hx0 : g.even ≤ x) (hx1 : x ≤ (g.width : Int) - 1)
    (hi : y - x + g.extra + g.even = (i : Int)) (hi1 : i ≤ B.length)
    (hj : y + x - g.extra - g.even + 1 = (j : Int)) (hj1 : j ≤ A.length) :
    oddCell g poff coff y x st = .ok ⟨st.buf.setIfInBounds (coff + x.toNat)
      (oddBody g y x (st.buf.getD (poff + x.toNat) 0) (st.buf.getD (coff + (x - g.even + 1).toNat) 0)
        (st.buf.getD (coff + (x - g.even).toNat) 0) st.pend st.endp).1,
      (oddBody g y x (st.buf.getD (poff + x.toNat) 0) (st.buf.getD (coff + (x - g.even + 1).toNat) 0)
        (st.buf.getD (coff + (x - g.even).toNat) 0) st.pend st.endp).2.1,
      (oddBody g y x (st.buf.getD (poff + x.toNat) 0) (st.buf.getD (coff + (x - g.even + 1).toNat) 0)
        (st.buf.getD (coff + (x - g.even).toNat) 0) st.pend st.endp).2.2⟩ := by
  obtain ⟨hA, hB, hlA, hlB, hle, hextra, heven, hwidth⟩ := hg
  have hw : 0 ≤ x ∧ x < (g.width : Int) := by omega
  unfold oddCell oddBody
  simp only [hi, hj]
  by_cases h0 : i = 0
  · subst h0
    simp only [Int.natCast_zero, beq_self_eq_true, if_true, pure, Except.pure, bind, Except.bind]
    simp [wr, hw, choose_fst, choose_buf, choose_pend g _ _ _ _ _ st, choose_endp g _ _ _ _ _ st]
  · by_cases hj0 : j = 0
    · subst hj0
      have : ((i : Int) == 0) = false := by simp [h0]
      simp only [this, Int.natCast_zero, beq_self_eq_true, if_true, pure, Except.pure, bind, Except.bind]
      simp [wr, hw, choose_fst, choose_buf, choose_pend g _ _ _ _ _ st, choose_endp g _ _ _ _ _ st]
    · have hi0 : ((i : Int) == 0) = false := by simp [h0]
      have hj0' : ((j : Int) == 0) = false := by simp [hj0]
      have hja : 0 ≤ (j : Int) - 1 ∧ (j : Int) - 1 < (g.A.size : Int) := by rw [hA]; simp; omega
      have hia : 0 ≤ (i : Int) - 1 ∧ (i : Int) - 1 < (g.B.size : Int) := by rw [hB]; simp; omega
      simp only [hi0, hj0', Bool.false_eq_true, if_false]
      have hj1' : 1 ≤ (j : Int) := by omega
      have hi1' : 1 ≤ (i : Int) := by omega
      have r1 : 0 ≤ x - g.even ∧ x - g.even < (g.width : Int) := by omega
      have r2 : 0 ≤ x - g.even + 1 ∧ x - g.even + 1 < (g.width : Int) := by omega
      simp [wr, rd, byteAt, hw, hja, hia, r1, r2, hx0, hj1', hi1', choose_fst, choose_buf, choose_pend g _ _ _ _ _ st, choose_endp g _ _ _ _ _ st]
      try rfl

/-! ## what the bodies do not look at -/

theorem evenBody_congr (g : Geo) (y x : Int) (p up lf p' up' lf' : UInt64) (pend : Nat) (endp : Int)
    (h1 : y - x + g.extra ≠ 0 → y + x - g.extra ≠ 0 → p = p')
    (h2 : y - x + g.extra ≠ 0 → y + x - g.extra ≠ 0 → x < g.even - 1 → up = up')
    (h3 : y - x + g.extra ≠ 0 → y + x - g.extra ≠ 0 → 0 < x → lf = lf') :
    evenBody g y x p up lf pend endp = evenBody g y x p' up' lf' pend endp := by
  unfold evenBody
  by_cases c0 : y - x + g.extra = 0
  · simp [c0]
  · by_cases c1 : y + x - g.extra = 0
    · simp [c0, c1]
    · have e1 := h1 c0 c1
      subst e1
      by_cases c2 : x < g.even - 1 <;> by_cases c3 : 0 < x
      · rw [h2 c0 c1 c2, h3 c0 c1 c3]
      · rw [h2 c0 c1 c2]; simp [c0, c1, c3]
      · rw [h3 c0 c1 c3]; simp [c0, c1, c2]
      · simp [c0, c1, c2, c3]

theorem oddBody_congr (g : Geo) (y x : Int) (p up lf p' up' lf' : UInt64) (pend : Nat) (endp : Int)
    (h1 : y - x + g.extra + g.even ≠ 0 → y + x - g.extra - g.even + 1 ≠ 0 → p = p' ∧ up = up' ∧ lf = lf') :
    oddBody g y x p up lf pend endp = oddBody g y x p' up' lf' pend endp := by
  unfold oddBody
  by_cases c0 : y - x + g.extra + g.even = 0
  · simp [c0]
  · by_cases c1 : y + x - g.extra - g.even + 1 = 0
    · simp [c0, c1]
    · obtain ⟨e1, e2, e3⟩ := h1 c0 c1
      subst e1 e2 e3; rfl


end ObiVerif.Lcs
