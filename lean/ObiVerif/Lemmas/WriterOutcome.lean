import ObiVerif.Lemmas.WriterFile
/-!
# Outcomes of the sequence-file writers on empty sequences, and paired files (C04 lemmas)

`FormatFastaBatch` / `FormatFastqBatch` meet a sequence of length zero: with `skipEmpty` the record is left out of
the text, without it the formatter calls `log.Fatalf` (outcome `none`).  Both outcomes are made explicit here for
whole files, for every arrival order.
-/
namespace ObiVerif.WriterOutcome
open ObiVerif.Reseq ObiVerif.Writer ObiVerif.WriterFmt ObiVerif.WriterFile

/-- the records that reach the file: those whose sequence is not empty -/
def keep (rs : List Rec) : List Rec := rs.filter (fun r => decide (r.seq ≠ []))

/-- no record of the list has an empty sequence -/
def noEmpty (rs : List Rec) : Bool := rs.all (fun r => decide (r.seq ≠ []))

/-- the text of one FASTA record in a batch: `FormatFasta` + `\n` -/
def fastaText (r : Rec) : B := Header.formatFasta r.id r.info r.seq ++ [10]

/-- the text of one FASTQ record in a batch: `_formatFastq` -/
def fastqText (sh : UInt8) (r : Rec) : B := Header.formatFastq sh r.id r.info r.seq r.qual

theorem keep_of_noEmpty (rs : List Rec) (h : noEmpty rs = true) : keep rs = rs := by
  unfold keep noEmpty at *
  exact List.filter_eq_self.mpr (by simpa using h)

theorem keep_append (a b : List Rec) : keep (a ++ b) = keep a ++ keep b := by simp [keep]

theorem keep_flatten (ls : List (List Rec)) : keep ls.flatten = (ls.map keep).flatten := by
  induction ls with
  | nil => rfl
  | cons l ls ih => simp [keep_append, ih]

theorem noEmpty_keep (rs : List Rec) : noEmpty (keep rs) = true := by
  simp [noEmpty, keep]

/-- `FormatFastaBatch`: both outcomes -/
theorem fmtFastaBatch_outcome (se : Bool) (rs : List Rec) :
    fmtFastaBatch se rs = if se || noEmpty rs then some ((keep rs).map fastaText).flatten else none := by
  induction rs with
  | nil => simp [fmtFastaBatch, keep, noEmpty]
  | cons r rs ih =>
    by_cases hr : r.seq = []
    · cases se <;> simp_all [fmtFastaBatch, keep, noEmpty]
    · simp only [fmtFastaBatch, hr, if_false, ih]
      cases se <;> by_cases hn : noEmpty rs = true <;>
        simp_all [keep, noEmpty, fastaText]

/-- `FormatFastqBatch`: both outcomes -/
theorem fmtFastqBatch_outcome (sh : UInt8) (se : Bool) (rs : List Rec) :
    fmtFastqBatch sh se rs = if se || noEmpty rs then some ((keep rs).map (fastqText sh)).flatten else none := by
  induction rs with
  | nil => simp [fmtFastqBatch, keep, noEmpty]
  | cons r rs ih =>
    by_cases hr : r.seq = []
    · cases se <;> simp_all [fmtFastqBatch, keep, noEmpty]
    · simp only [fmtFastqBatch, hr, if_false, ih]
      cases se <;> by_cases hn : noEmpty rs = true <;>
        simp_all [keep, noEmpty, fastqText]

/-- the text of one record of a sequence file -/
def recText (c : Cfg) (r : Rec) : B :=
  match c.kind with
  | .fastq => fastqText c.shift r
  | _ => fastaText r

theorem fmtBatch_outcome (c : Cfg) (hk : c.kind = Kind.fasta ∨ c.kind = Kind.fastq) (k : Nat) (rs : List Rec) :
    fmtBatch c k rs = if c.skipEmpty || noEmpty rs then some ((keep rs).map (recText c)).flatten else none := by
  rcases hk with h | h
  · simp only [fmtBatch, h, fmtFastaBatch_outcome]
    have : recText c = fastaText := by funext r; simp [recText, h]
    rw [this]
  · simp only [fmtBatch, h, fmtFastqBatch_outcome]
    have : recText c = fastqText c.shift := by funext r; simp [recText, h]
    rw [this]

/-- one formatter dying kills the run: `mapM` is `none` as soon as one batch is not formatted -/
theorem mapM_fmt_none (c : Cfg) (arr : List (Nat × List Rec)) (a : Nat × List Rec) (ha : a ∈ arr)
    (h : fmtBatch c a.1 a.2 = none) :
    arr.mapM (fun a => (fmtBatch c a.1 a.2).map (fun t => (a.1, t))) = none := by
  induction arr with
  | nil => cases ha
  | cons b arr ih =>
    rw [List.mapM_cons]
    rcases List.mem_cons.mp ha with rfl | ha
    · simp [h]
    · rw [ih ha]
      cases (fmtBatch c b.1 b.2).map (fun t => (b.1, t)) <;> rfl

theorem writeFile_none (c : Cfg) (arr : List (Nat × List Rec)) (a : Nat × List Rec) (ha : a ∈ arr)
    (h : fmtBatch c a.1 a.2 = none) : writeFile c arr = none := by
  unfold writeFile
  rw [mapM_fmt_none c arr a ha h]
  rfl

theorem all_range_false {n : Nat} {p : Nat → Bool} (h : (List.range n).all p = false) : ∃ k, k < n ∧ p k = false := by
  have : ¬ ∀ k ∈ List.range n, p k = true := by
    intro hall
    rw [List.all_eq_true.mpr hall] at h
    cases h
  refine Classical.byContradiction fun hne => this fun k hk => ?_
  have hk' : k < n := List.mem_range.mp hk
  cases hp : p k with
  | true => rfl
  | false => exact absurd ⟨k, hk', hp⟩ hne

/-- **both outcomes of a FASTA / FASTQ file**, for every `n`, every arrival order and arbitrary records:
with `skipEmpty`, or when no sequence is empty, the file is the texts of the records with a non-empty sequence in
batch order; otherwise (an empty sequence somewhere and `skipEmpty` off) a formatter dies: `none` -/
theorem seqfile_outcome (c : Cfg) (hk : c.kind = Kind.fasta ∨ c.kind = Kind.fastq) (recs : Nat → List Rec)
    (n : Nat) (ks : List Nat) (hp : ks.Perm (List.range n)) :
    writeFile c (ks.map fun k => (k, recs k)) =
      if c.skipEmpty || (List.range n).all (fun k => noEmpty (recs k))
      then some ((keep ((List.range n).map recs).flatten).map (recText c)).flatten
      else none := by
  by_cases hgood : (c.skipEmpty || (List.range n).all (fun k => noEmpty (recs k))) = true
  · rw [if_pos hgood]
    -- every batch is formatted: replace the batches beyond n by empty ones to get a total text function
    let recs' : Nat → List Rec := fun k => if k < n then recs k else []
    have hks : ∀ k ∈ ks, k < n := fun k hk => List.mem_range.mp (hp.mem_iff.mp hk)
    have harr : (ks.map fun k => (k, recs k)) = (ks.map fun k => (k, recs' k)) := by
      apply List.map_congr_left
      intro k hk
      simp [recs', hks k hk]
    have hfmt : ∀ k, fmtBatch c k (recs' k) = some ((keep (recs' k)).map (recText c)).flatten := by
      intro k
      rw [fmtBatch_outcome c hk]
      by_cases hkn : k < n
      · have : (c.skipEmpty || noEmpty (recs' k)) = true := by
          simp only [recs', hkn, if_true]
          cases hse : c.skipEmpty with
          | true => rfl
          | false =>
            rw [hse] at hgood
            simp only [Bool.false_or] at hgood ⊢
            exact List.all_eq_true.mp hgood k (List.mem_range.mpr hkn)
        rw [if_pos this]
      · simp [recs', hkn, noEmpty, keep]
    have hjson : c.kind ≠ Kind.json := by rcases hk with h | h <;> rw [h] <;> intro h' <;> cases h'
    rw [harr, writeFile_raw c hjson recs' _ hfmt n ks hp]
    congr 1
    rw [keep_flatten, List.map_map, ← flatten_map_flatten, List.map_map]
    congr 1
    apply List.map_congr_left
    intro k hk
    simp [recs', List.mem_range.mp hk]
  · rw [if_neg hgood]
    have hse : c.skipEmpty = false := by
      cases h : c.skipEmpty with
      | false => rfl
      | true => rw [h] at hgood; simp at hgood
    rw [hse] at hgood
    simp only [Bool.false_or, Bool.not_eq_true] at hgood
    obtain ⟨k, hkn, hbad⟩ := all_range_false hgood
    have hmem : (k, recs k) ∈ ks.map fun k => (k, recs k) :=
      List.mem_map.mpr ⟨k, hp.mem_iff.mpr (List.mem_range.mpr hkn), rfl⟩
    apply writeFile_none c _ (k, recs k) hmem
    rw [fmtBatch_outcome c hk]
    simp [hse, hbad]

/-! ## paired files -/

/-- the two files of a paired output are the two independent files of the records and of the mates -/
theorem writePaired_eq (c : Cfg) (pairs : Nat → PBatch) (ks1 ks2 : List Nat) :
    writePaired c (ks1.map fun k => (k, pairs k)) (ks2.map fun k => (k, pairs k)) =
      (do let f1 ← writeFile c (ks1.map fun k => (k, (pairs k).map Prod.fst))
          let f2 ← writeFile c (ks2.map fun k => (k, (pairs k).map Prod.snd))
          pure (f1, f2)) := by
  simp [writePaired, List.map_map, Function.comp_def]

end ObiVerif.WriterOutcome
