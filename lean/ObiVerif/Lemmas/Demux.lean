import ObiVerif.Model.Demux
/-! helper lemmas for C12 (distances, nearest unique tag) -/
namespace ObiVerif.Demux

open ObiVerif.SeqOps (Bytes rc subsequence)

/-! ## Hamming -/

/-- number of positions where two byte strings differ (specification) -/
def mismatches (a b : Bytes) : Nat := ((a.zip b).filter (fun p => p.1 ≠ p.2)).length

theorem hammingEq_eq_mismatches (a b : Bytes) : hammingEq a b = mismatches a b := by
  induction a generalizing b with
  | nil => simp [hammingEq, mismatches]
  | cons x xs ih =>
    cases b with
    | nil => simp [hammingEq, mismatches]
    | cons y ys =>
      have := ih ys
      by_cases h : x = y
      · simp [hammingEq, mismatches, h] at *; exact this
      · simp [hammingEq, mismatches, h] at *; omega

theorem hammingEq_self (a : Bytes) : hammingEq a a = 0 := by
  induction a with
  | nil => rfl
  | cons x xs ih => simp [hammingEq, ih]

theorem hammingEq_zero {a b : Bytes} (hl : a.length = b.length) (h : hammingEq a b = 0) : a = b := by
  induction a generalizing b with
  | nil => cases b with
    | nil => rfl
    | cons y ys => simp at hl
  | cons x xs ih =>
    cases b with
    | nil => simp at hl
    | cons y ys =>
      simp [hammingEq] at h
      simp at hl
      rw [h.1, ih hl h.2]

theorem hamming_zero_iff (a b : Bytes) : hamming a b = 0 ↔ a = b := by
  constructor
  · intro h
    unfold hamming at h
    split at h
    · rename_i hl
      have : a.length = 0 ∧ b.length = 0 := by omega
      omega
    · rename_i hl
      exact hammingEq_zero (by omega) h
  · intro h
    subst h
    simp [hamming, hammingEq_self]

/-! ## Levenshtein -/

/-- textbook edit distance (recursion on the first characters) -/
def editDist : Bytes → Bytes → Nat
  | [], t => t.length
  | s, [] => s.length
  | a :: s, b :: t =>
    min (min (editDist s (b :: t) + 1) (editDist (a :: s) t + 1)) (editDist s t + (if a ≠ b then 1 else 0))

theorem editDist_nil_left (t : Bytes) : editDist [] t = t.length := by
  cases t <;> simp [editDist]

theorem editDist_nil_right (s : Bytes) : editDist s [] = s.length := by
  cases s <;> simp [editDist]

/-- the DP row for the processed prefix `ru` (reversed) of `s1`: entries for the processed prefix
`rt` (reversed) of `s2` extended by 0, 1, … characters of `bs` -/
def rowOf (ru rt : Bytes) : Bytes → List Nat
  | [] => [editDist ru rt]
  | b :: bs => editDist ru rt :: rowOf ru (b :: rt) bs

theorem rowOf_head (ru rt bs : Bytes) : ∃ tl, rowOf ru rt bs = editDist ru rt :: tl := by
  cases bs <;> simp [rowOf]

theorem levRowAux_rowOf (c : UInt8) (ru : Bytes) (bs rt : Bytes) :
    levRowAux c bs (rowOf ru rt bs) (editDist (c :: ru) rt) = (rowOf (c :: ru) rt bs).tail := by
  induction bs generalizing rt with
  | nil => simp [rowOf, levRowAux]
  | cons b bs ih =>
    obtain ⟨tl, htl⟩ := rowOf_head ru (b :: rt) bs
    have hv : min (min (editDist ru (b :: rt) + 1) (editDist (c :: ru) rt + 1))
        (editDist ru rt + (if c ≠ b then 1 else 0)) = editDist (c :: ru) (b :: rt) := by
      simp [editDist]
    have := ih (b :: rt)
    rw [htl] at this
    simp only [rowOf, htl, levRowAux, List.tail_cons]
    rw [hv, this]
    obtain ⟨tl', htl'⟩ := rowOf_head (c :: ru) (b :: rt) bs
    rw [htl']
    simp

theorem levRow_rowOf (s2 : Bytes) (c : UInt8) (ru : Bytes) :
    levRow s2 c (ru.length + 1) (rowOf ru [] s2) = rowOf (c :: ru) [] s2 := by
  have h := levRowAux_rowOf c ru s2 []
  rw [editDist_nil_right] at h
  simp only [List.length_cons] at h
  unfold levRow
  rw [h]
  obtain ⟨tl, htl⟩ := rowOf_head (c :: ru) [] s2
  rw [htl, editDist_nil_right]
  simp

theorem levRows_rowOf (s2 : Bytes) (cs ru : Bytes) :
    levRows s2 cs (ru.length + 1) (rowOf ru [] s2) = rowOf (cs.reverse ++ ru) [] s2 := by
  induction cs generalizing ru with
  | nil => simp [levRows]
  | cons c cs ih =>
    simp only [levRows]
    rw [levRow_rowOf]
    have := ih (c :: ru)
    simp only [List.length_cons] at this
    rw [this]
    simp

theorem rowOf_nil_eq_range' (rt bs : Bytes) :
    rowOf [] rt bs = List.range' rt.length (bs.length + 1) := by
  induction bs generalizing rt with
  | nil => simp [rowOf, editDist_nil_left, List.range']
  | cons b bs ih =>
    simp only [rowOf, editDist_nil_left, List.length_cons]
    rw [ih (b :: rt)]
    simp [List.range']

theorem rowOf_getLastD (ru rt bs : Bytes) :
    (rowOf ru rt bs).getLastD 0 = editDist ru (bs.reverse ++ rt) := by
  induction bs generalizing rt with
  | nil => simp [rowOf]
  | cons b bs ih =>
    obtain ⟨tl, htl⟩ := rowOf_head ru (b :: rt) bs
    have := ih (b :: rt)
    simp only [rowOf]
    rw [htl] at this
    rw [htl]
    simp only [List.getLastD_cons] at this ⊢
    simpa [List.getLastD_eq_getLast?] using this

/-! ## nearest unique tag -/

/-- the invariant of the loop of `ClosestForwardTag` after the non-empty list `P` of tags -/
structure ClosestInv (dist : Bytes → Bytes → Nat) (tag : Bytes) (P : List Bytes)
    (acc : Bytes × Option Nat) : Prop where
  some_min : ∃ m, acc.2 = some m ∧ (∀ t ∈ P, m ≤ dist t tag) ∧ (∃ t ∈ P, dist t tag = m) ∧
    (acc.1 ≠ [] → acc.1 ∈ P ∧ dist acc.1 tag = m ∧ ∀ t ∈ P, dist t tag = m → t = acc.1) ∧
    (acc.1 = [] → ∀ x, x ≠ [] → x ∈ P → dist x tag = m → ∃ t ∈ P, dist t tag = m ∧ t ≠ x)

theorem closestInv_first (dist : Bytes → Bytes → Nat) (tag t : Bytes) :
    ClosestInv dist tag [t] (closestStep dist tag ([], none) t) := by
  refine ⟨dist t tag, ?_⟩
  simp [closestStep]
  intro h x hx hxt
  exact absurd (hxt.trans h) hx

theorem closestInv_step (dist : Bytes → Bytes → Nat) (tag : Bytes) (P : List Bytes)
    (acc : Bytes × Option Nat) (t : Bytes) (h : ClosestInv dist tag P acc) :
    ClosestInv dist tag (P ++ [t]) (closestStep dist tag acc t) := by
  obtain ⟨m, hm, hle, ⟨w, hwP, hwd⟩, hne, hnil⟩ := h
  obtain ⟨u, d0⟩ := acc
  simp only at hm hne hnil
  subst hm
  by_cases hlt : dist t tag < m
  · -- a strictly nearer tag
    refine ⟨dist t tag, ?_⟩
    have hstep : closestStep dist tag (u, some m) t = (t, some (dist t tag)) := by
      simp [closestStep, hlt]
    rw [hstep]
    refine ⟨rfl, ?_, ⟨t, by simp, rfl⟩, ?_, ?_⟩
    · intro x hx
      rcases List.mem_append.1 hx with hx | hx
      · have := hle x hx; omega
      · simp at hx; subst hx; omega
    · intro _
      refine ⟨by simp, rfl, ?_⟩
      intro x hx hxd
      rcases List.mem_append.1 hx with hx | hx
      · have := hle x hx; omega
      · simpa using hx
    · intro ht x hxne hx hxd
      rcases List.mem_append.1 hx with hx | hx
      · have := hle x hx; omega
      · simp at hx; subst hx; exact absurd ht hxne
  · by_cases heq : dist t tag = m
    · -- same distance
      refine ⟨m, ?_⟩
      have hstep : closestStep dist tag (u, some m) t =
          ((if u ≠ [] ∧ t ≠ u then [] else u), some m) := by
        simp [closestStep, heq]
      rw [hstep]
      refine ⟨rfl, ?_, ⟨w, by simp [hwP], hwd⟩, ?_, ?_⟩
      · intro x hx
        rcases List.mem_append.1 hx with hx | hx
        · exact hle x hx
        · simp at hx; subst hx; omega
      · intro hu
        by_cases hc : u ≠ [] ∧ t ≠ u
        · simp [hc] at hu
        · simp only [hc, if_false] at hu ⊢
          have htu : t = u := by
            by_cases h1 : t = u
            · exact h1
            · exact absurd ⟨hu, h1⟩ hc
          obtain ⟨h1, h2, h3⟩ := hne hu
          refine ⟨by simp [h1], h2, ?_⟩
          intro x hx hxd
          rcases List.mem_append.1 hx with hx | hx
          · exact h3 x hx hxd
          · simp at hx; subst hx; exact htu
      · intro hu x hxne hx hxd
        by_cases hc : u ≠ [] ∧ t ≠ u
        · -- a tie has just been detected between u and t
          obtain ⟨h1, h2, _⟩ := hne hc.1
          by_cases hxu : x = u
          · exact ⟨t, by simp, heq, by rw [hxu]; exact hc.2⟩
          · exact ⟨u, by simp [h1], h2, fun h => hxu h.symm⟩
        · simp only [hc, if_false] at hu
          rcases List.mem_append.1 hx with hx | hx
          · obtain ⟨y, hy, hyd, hyx⟩ := hnil hu x hxne hx hxd
            exact ⟨y, by simp [hy], hyd, hyx⟩
          · simp at hx
            subst hx
            -- x = t ≠ [] is a new minimiser while the previous state was a tie / the empty tag
            by_cases hwx : w = x
            · subst hwx
              obtain ⟨y, hy, hyd, hyx⟩ := hnil hu w hxne hwP hwd
              exact ⟨y, by simp [hy], hyd, hyx⟩
            · exact ⟨w, by simp [hwP], hwd, hwx⟩
    · -- farther: nothing changes
      have hgt : m < dist t tag := by omega
      refine ⟨m, ?_⟩
      have hstep : closestStep dist tag (u, some m) t = (u, some m) := by
        simp only [closestStep]
        have h1 : ¬ (some m = some (dist t tag)) := by
          intro h; injection h with h; omega
        simp [h1, hlt]
      rw [hstep]
      refine ⟨rfl, ?_, ⟨w, by simp [hwP], hwd⟩, ?_, ?_⟩
      · intro x hx
        rcases List.mem_append.1 hx with hx | hx
        · exact hle x hx
        · simp at hx; subst hx; omega
      · intro hu
        obtain ⟨h1, h2, h3⟩ := hne hu
        refine ⟨by simp [h1], h2, ?_⟩
        intro x hx hxd
        rcases List.mem_append.1 hx with hx | hx
        · exact h3 x hx hxd
        · simp at hx; subst hx; omega
      · intro hu x hxne hx hxd
        rcases List.mem_append.1 hx with hx | hx
        · obtain ⟨y, hy, hyd, hyx⟩ := hnil hu x hxne hx hxd
          exact ⟨y, by simp [hy], hyd, hyx⟩
        · simp at hx; subst hx; omega

theorem closestInv_foldl (dist : Bytes → Bytes → Nat) (tag : Bytes) (l P : List Bytes)
    (acc : Bytes × Option Nat) (h : ClosestInv dist tag P acc) :
    ClosestInv dist tag (P ++ l) (l.foldl (closestStep dist tag) acc) := by
  induction l generalizing P acc with
  | nil => simpa using h
  | cons t l ih =>
    have := ih (P ++ [t]) _ (closestInv_step dist tag P acc t h)
    simpa using this

theorem closestInv_closestUnique (dist : Bytes → Bytes → Nat) (tag : Bytes) (tags : List Bytes)
    (hne : tags ≠ []) : ClosestInv dist tag tags (closestUnique dist tags tag) := by
  cases tags with
  | nil => exact absurd rfl hne
  | cons t l =>
    have := closestInv_foldl dist tag l [t] _ (closestInv_first dist tag t)
    simpa [closestUnique] using this

end ObiVerif.Demux
