import ObiVerif.Model.Uniq
/-!
# Lemmas on the merge part of the dereplication model (`mergeInto`, `mergeClass`)

`contrib na k r v` is what record `r` contributes to the weight of value `v` in `merged_<k>`:
the weight its own `merged_<k>` map gives to `v` when it carries one, otherwise its count if its
value of attribute `k` (or `na`) is `v`, 0 if not.
-/
namespace ObiVerif.Uniq

/-! ## association lists -/

theorem weight_addW (m : Stats) (v : String) (w : Nat) (v' : String) :
    weight (addW m v w) v' = weight m v' + (if v = v' then w else 0) := by
  induction m with
  | nil => simp [addW, weight]
  | cons e t ih =>
    obtain ⟨a, b⟩ := e
    simp only [addW]
    split
    · next h =>
      subst h
      simp only [weight]
      split <;> omega
    · next h =>
      simp only [weight, ih]
      split
      · simp [Nat.add_assoc]
      · rfl

theorem weight_foldl_addW (m' m : Stats) (v : String) :
    weight (m'.foldl (fun acc e => addW acc e.1 e.2) m) v = weight m v + weight m' v := by
  induction m' generalizing m with
  | nil => simp [weight]
  | cons e t ih =>
    obtain ⟨a, b⟩ := e
    simp only [List.foldl_cons, ih, weight_addW, weight]
    by_cases h : a = v <;> simp [h] <;> omega

theorem weight_mergeStats (m m' : Stats) (v : String) :
    weight (mergeStats m m') v = weight m v + weight m' v := weight_foldl_addW m' m v

theorem lookup_setKey {β : Type} (l : List (String × β)) (k : String) (x : β) (k' : String) :
    (setKey l k x).lookup k' = if k = k' then some x else l.lookup k' := by
  induction l with
  | nil =>
    by_cases h : k = k'
    · simp [setKey, h]
    · have : (k' == k) = false := by simpa using fun e => h e.symm
      simp [setKey, List.lookup, h, this]
  | cons e t ih =>
    obtain ⟨a, b⟩ := e
    by_cases h1 : a = k
    · subst h1
      by_cases h : a = k'
      · simp [setKey, h]
      · have : (k' == a) = false := by simpa using fun e => h e.symm
        simp [setKey, List.lookup, h, this]
    · by_cases h2 : k' = a
      · subst h2
        have : ¬ k = k' := fun e => h1 e.symm
        simp [setKey, List.lookup, h1, this]
      · have : (k' == a) = false := by simpa using h2
        simp [setKey, List.lookup, h1, this, ih]

/-! ## `statsOn`, `mergeKey` -/

/-- the contribution of record `r` to the weight of value `v` in `merged_<k>` -/
def contrib (na k : String) (r : Rec) (v : String) : Nat := weight (statsOn na k r).2 v

theorem contrib_some {na k : String} {r : Rec} {m : Stats} (h : r.merged.lookup k = some m) (v : String) :
    contrib na k r v = weight m v := by
  simp [contrib, statsOn, h]

theorem contrib_none {na k : String} {r : Rec} (h : r.merged.lookup k = none) (v : String) :
    contrib na k r v = if r.value k na = v then r.count else 0 := by
  simp [contrib, statsOn, h, addW, weight]

theorem statsOn_frame (na k : String) (r : Rec) :
    (statsOn na k r).1.attrs = r.attrs ∧ (statsOn na k r).1.cnt = r.cnt ∧
    (statsOn na k r).1.seq = r.seq ∧ (statsOn na k r).1.id = r.id := by
  unfold statsOn; split <;> simp

theorem statsOn_lookup (na k : String) (r : Rec) :
    (statsOn na k r).1.merged.lookup k = some (statsOn na k r).2 := by
  unfold statsOn; split
  · next m h => simpa using h
  · simp [lookup_setKey]

theorem statsOn_lookup_ne (na k : String) (r : Rec) {k' : String} (h : k ≠ k') :
    (statsOn na k r).1.merged.lookup k' = r.merged.lookup k' := by
  unfold statsOn; split
  · rfl
  · simp [lookup_setKey, h]

theorem statsOn_congr (na k : String) {r r' : Rec} (h1 : r'.merged.lookup k = r.merged.lookup k)
    (h2 : r'.attrs = r.attrs) (h3 : r'.count = r.count) : (statsOn na k r').2 = (statsOn na k r).2 := by
  unfold statsOn
  rw [h1]
  split
  · rfl
  · simp [Rec.value, h2, h3]

theorem count_of_cnt {r r' : Rec} (h : r'.cnt = r.cnt) : r'.count = r.count := by simp [Rec.count, h]

theorem mergeKey_frame (na : String) (tm r : Rec) (k : String) :
    (mergeKey na tm r k).attrs = r.attrs ∧ (mergeKey na tm r k).cnt = r.cnt ∧
    (mergeKey na tm r k).seq = r.seq ∧ (mergeKey na tm r k).id = r.id := by
  have h := statsOn_frame na k r
  unfold mergeKey statsPlusOne
  split <;> simp [h]

theorem lookup_none_of_not_hasStats {tm : Rec} {k : String} (h : ¬ tm.hasStats k = true) :
    tm.merged.lookup k = none := by
  simp only [Rec.hasStats] at h
  cases hh : tm.merged.lookup k with
  | none => rfl
  | some m => simp [hh] at h

theorem mergeKey_lookup (na : String) (tm r : Rec) (k : String) :
    ∃ m, (mergeKey na tm r k).merged.lookup k = some m ∧
      ∀ v, weight m v = contrib na k r v + contrib na k tm v := by
  unfold mergeKey
  split
  · next h =>
    refine ⟨mergeStats (statsOn na k r).2 (statsOn na k tm).2, by simp [lookup_setKey], fun v => ?_⟩
    simp [weight_mergeStats, contrib]
  · next h =>
    have hn : tm.merged.lookup k = none := lookup_none_of_not_hasStats h
    refine ⟨addW (statsOn na k r).2 (tm.value k na) tm.count, by simp [statsPlusOne, lookup_setKey],
      fun v => ?_⟩
    rw [weight_addW, contrib_none hn]; rfl

theorem mergeKey_lookup_ne (na : String) (tm r : Rec) {k k' : String} (h : k ≠ k') :
    (mergeKey na tm r k).merged.lookup k' = r.merged.lookup k' := by
  unfold mergeKey statsPlusOne
  split <;> simp [lookup_setKey, h, statsOn_lookup_ne na k r h]

theorem contrib_congr (na k : String) {r r' : Rec} (h1 : r'.merged.lookup k = r.merged.lookup k)
    (h2 : r'.attrs = r.attrs) (h3 : r'.count = r.count) (v : String) : contrib na k r' v = contrib na k r v := by
  simp [contrib, statsOn_congr na k h1 h2 h3]

/-- the loop over the requested keys in `BioSequence.Merge` -/
theorem foldKeys (na : String) (tm : Rec) (stats : List String) (hnd : stats.Nodup) (r : Rec) :
    let r1 := stats.foldl (mergeKey na tm) r
    (r1.attrs = r.attrs ∧ r1.cnt = r.cnt ∧ r1.seq = r.seq ∧ r1.id = r.id) ∧
    (∀ k ∈ stats, ∃ m, r1.merged.lookup k = some m ∧
        ∀ v, weight m v = contrib na k r v + contrib na k tm v) ∧
    (∀ k, k ∉ stats → r1.merged.lookup k = r.merged.lookup k) := by
  induction stats generalizing r with
  | nil => simp
  | cons k0 ks ih =>
    have hnd' := (List.nodup_cons.mp hnd)
    obtain ⟨⟨a1, a2, a3, a4⟩, b, c⟩ := ih hnd'.2 (mergeKey na tm r k0)
    obtain ⟨f1, f2, f3, f4⟩ := mergeKey_frame na tm r k0
    simp only [List.foldl_cons]
    refine ⟨⟨a1.trans f1, a2.trans f2, a3.trans f3, a4.trans f4⟩, ?_, ?_⟩
    · intro k hk
      rcases List.mem_cons.mp hk with rfl | hk
      · obtain ⟨m, hm, hw⟩ := mergeKey_lookup na tm r k
        exact ⟨m, (c k hnd'.1).trans hm, hw⟩
      · obtain ⟨m, hm, hw⟩ := b k hk
        have hne : k0 ≠ k := fun e => hnd'.1 (e ▸ hk)
        refine ⟨m, hm, fun v => ?_⟩
        rw [hw v, contrib_congr na k (mergeKey_lookup_ne na tm r hne) f1 (count_of_cnt f2)]
    · intro k hk
      have hk' : k ≠ k0 ∧ k ∉ ks := by simpa [List.mem_cons, not_or] using hk
      rw [c k hk'.2]
      exact mergeKey_lookup_ne na tm r (fun e => hk'.1 e.symm)

/-! ## `mergeInto` -/

theorem setCount_pos {n : Nat} (h : 1 ≤ n) : setCount n = n := by
  unfold setCount; split <;> omega

theorem mergeInto_spec (na : String) (stats : List String) (hnd : stats.Nodup) (r tm : Rec) :
    let out := mergeInto na stats r tm
    out.seq = r.seq ∧ out.id = r.id ∧ out.count = setCount (r.count + tm.count) ∧
    out.attrs = r.attrs.filter (fun kv => tm.attrs.lookup kv.1 == some kv.2) ∧
    (∀ k ∈ stats, ∃ m, out.merged.lookup k = some m ∧
        ∀ v, weight m v = contrib na k r v + contrib na k tm v) ∧
    (∀ k, k ∉ stats → out.merged.lookup k = r.merged.lookup k) := by
  obtain ⟨⟨a1, _, a3, a4⟩, b, c⟩ := foldKeys na tm stats hnd r
  simp only [mergeInto]
  exact ⟨a3, a4, by simp [Rec.count], by rw [a1], b, c⟩

theorem filter_const_true {α : Type} (l : List α) : l.filter (fun _ => true) = l :=
  List.filter_eq_self.mpr (by simp)

/-- sum of the counts of a list of records -/
def total (l : List Rec) : Nat := (l.map Rec.count).sum

/-- sum of the contributions of a list of records -/
def contribSum (na k : String) (l : List Rec) (v : String) : Nat := (l.map fun r => contrib na k r v).sum

theorem foldMerge_spec (na : String) (stats : List String) (hnd : stats.Nodup) (rs : List Rec) (r : Rec)
    (hc : 1 ≤ r.count) :
    let out := rs.foldl (mergeInto na stats) r
    out.seq = r.seq ∧ out.id = r.id ∧ out.count = r.count + total rs ∧
    out.attrs = r.attrs.filter (fun kv => rs.all fun t => t.attrs.lookup kv.1 == some kv.2) ∧
    (∀ k ∈ stats, ∀ v, contrib na k out v = contrib na k r v + contribSum na k rs v) ∧
    (∀ k ∈ stats, rs ≠ [] → (out.merged.lookup k).isSome) ∧
    (∀ k, k ∉ stats → out.merged.lookup k = r.merged.lookup k) := by
  induction rs generalizing r with
  | nil => simp [total, contribSum, filter_const_true]
  | cons t ts ih =>
    obtain ⟨s1, s2, s3, s4, s5, s6⟩ := mergeInto_spec na stats hnd r t
    have hc' : 1 ≤ (mergeInto na stats r t).count := by
      rw [s3, setCount_pos (by omega)]; omega
    obtain ⟨i1, i2, i3, i4, i5, i6, i7⟩ := ih (mergeInto na stats r t) hc'
    simp only [List.foldl_cons]
    refine ⟨i1.trans s1, i2.trans s2, ?_, ?_, ?_, ?_, ?_⟩
    · rw [i3, s3, setCount_pos (by omega)]; simp [total]; omega
    · rw [i4, s4, List.filter_filter]
      apply List.filter_congr
      intro kv _
      simp only [List.all_cons, Bool.and_comm]
    · intro k hk v
      obtain ⟨m, hm, hw⟩ := s5 k hk
      rw [i5 k hk v, contrib_some hm, hw v]
      simp [contribSum]; omega
    · intro k hk _
      by_cases hts : ts = []
      · subst hts
        obtain ⟨m, hm, _⟩ := s5 k hk
        simp [hm]
      · exact i6 k hk hts
    · intro k hk
      rw [i7 k hk, s6 k hk]

/-! ## `mergeClass` -/

theorem foldStatsOn (na : String) (stats : List String) (r : Rec) :
    let r1 := stats.foldl (fun r k => (statsOn na k r).1) r
    (r1.attrs = r.attrs ∧ r1.cnt = r.cnt ∧ r1.seq = r.seq ∧ r1.id = r.id) ∧
    (∀ k ∈ stats, ∀ v, contrib na k r1 v = contrib na k r v) ∧
    (∀ k ∈ stats, (r1.merged.lookup k).isSome) ∧
    (∀ k, k ∉ stats → r1.merged.lookup k = r.merged.lookup k) := by
  induction stats generalizing r with
  | nil => simp
  | cons k0 ks ih =>
    obtain ⟨⟨a1, a2, a3, a4⟩, b, c, d⟩ := ih (statsOn na k0 r).1
    obtain ⟨f1, f2, f3, f4⟩ := statsOn_frame na k0 r
    simp only [List.foldl_cons]
    refine ⟨⟨a1.trans f1, a2.trans f2, a3.trans f3, a4.trans f4⟩, ?_, ?_, ?_⟩
    · intro k hk v
      by_cases hks : k ∈ ks
      · rw [b k hks v]
        by_cases e : k0 = k
        · subst e; rw [contrib_some (statsOn_lookup na k0 r)]; rfl
        · exact contrib_congr na k (statsOn_lookup_ne na k0 r e) f1 (count_of_cnt f2) v
      · have e : k = k0 := by
          rcases List.mem_cons.mp hk with e | e
          · exact e
          · exact absurd e hks
        subst e
        have h1 := d k hks
        rw [contrib_congr na k h1 a1 (count_of_cnt a2), contrib_some (statsOn_lookup na k r)]; rfl
    · intro k hk
      by_cases hks : k ∈ ks
      · exact c k hks
      · have e : k = k0 := by
          rcases List.mem_cons.mp hk with e | e
          · exact e
          · exact absurd e hks
        subst e
        rw [d k hks, statsOn_lookup]; rfl
    · intro k hk
      have hk' : k ≠ k0 ∧ k ∉ ks := by simpa [List.mem_cons, not_or] using hk
      rw [d k hk'.2]
      exact statsOn_lookup_ne na k0 r (fun e => hk'.1 e.symm)

/-- what `BioSequenceSlice.Merge` makes of a class `r :: rs` (any size ≥ 1) -/
theorem mergeClass_spec (na : String) (stats : List String) (hnd : stats.Nodup) (r : Rec) (rs : List Rec)
    (hc : 1 ≤ r.count) :
    ∃ out, mergeClass na stats (r :: rs) = some out ∧
      out.seq = r.seq ∧ out.id = r.id ∧ out.count = total (r :: rs) ∧
      out.attrs = r.attrs.filter (fun kv => rs.all fun t => t.attrs.lookup kv.1 == some kv.2) ∧
      (∀ k ∈ stats, ∃ m, out.merged.lookup k = some m ∧ ∀ v, weight m v = contribSum na k (r :: rs) v) ∧
      (∀ k, k ∉ stats → out.merged.lookup k = r.merged.lookup k) := by
  cases rs with
  | nil =>
    refine ⟨_, rfl, ?_⟩
    obtain ⟨⟨a1, a2, a3, a4⟩, b, c, d⟩ :=
      foldStatsOn na stats { r with cnt := some (setCount r.count) }
    refine ⟨a3, a4, ?_, ?_, ?_, ?_⟩
    · rw [count_of_cnt a2]
      show setCount r.count = total [r]
      rw [setCount_pos hc]; simp [total]
    · rw [a1]; simp [filter_const_true]
    · intro k hk
      have hs := c k hk
      obtain ⟨m, hm⟩ := Option.isSome_iff_exists.mp hs
      refine ⟨m, hm, fun v => ?_⟩
      have ec : ({ r with cnt := some (setCount r.count) } : Rec).count = r.count := setCount_pos hc
      have e : contrib na k { r with cnt := some (setCount r.count) } v = contrib na k r v :=
        contrib_congr na k (r := r) (r' := { r with cnt := some (setCount r.count) }) rfl rfl ec v
      rw [← contrib_some (na := na) hm v, b k hk v, e]; simp [contribSum]
    · exact d
  | cons t ts =>
    refine ⟨_, rfl, ?_⟩
    obtain ⟨i1, i2, i3, i4, i5, i6, i7⟩ := foldMerge_spec na stats hnd (t :: ts) r hc
    refine ⟨i1, i2, ?_, i4, ?_, i7⟩
    · rw [i3]; simp [total]
    · intro k hk
      obtain ⟨m, hm⟩ := Option.isSome_iff_exists.mp (i6 k hk (by simp))
      refine ⟨m, hm, fun v => ?_⟩
      rw [← contrib_some (na := na) hm v, i5 k hk v]
      simp [contribSum]

end ObiVerif.Uniq
