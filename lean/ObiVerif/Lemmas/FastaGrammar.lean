import ObiVerif.Lemmas.Fasta
/-!
# A FASTA grammar whose files the chunk parser reads as a whole number of records

`WellFormedFasta`: records `>` title-line EOL sequence-lines, separated by one or more end-of-line
bytes (`\n`, `\r\n`, blank lines), optionally followed by end-of-line bytes.  The title line starts
with a non-blank byte and may contain anything but `\n`/`\r` (also `>`, `@`, `+`); a sequence line is
a non-empty run of bytes of the sequence alphabet (letters, `-`, `.`, `[`, `]`); sequences may be
folded over several lines.
-/
namespace ObiVerif.Parse
open ObiVerif.Chunk

def NoEol (h : Seq) : Prop := ∀ c ∈ h, isEol c = false
def TitleOK (h : Seq) : Prop := ∃ c t, h = c :: t ∧ isSep c = false ∧ NoEol t
def SeqBytes (l : Seq) : Prop := ∀ c ∈ l, seqOK (lower c) = true
def SeqLineOK (l : Seq) : Prop := l ≠ [] ∧ SeqBytes l
def EolRun (e : Seq) : Prop := e ≠ [] ∧ AllEol e

inductive SeqLines : Seq → Prop
  | one {l : Seq} : SeqLineOK l → SeqLines l
  | more {l e rest : Seq} : SeqLineOK l → EolRun e → SeqLines rest → SeqLines (l ++ e ++ rest)

inductive FastaRecords : Seq → Prop
  | one {h e body : Seq} : TitleOK h → EolRun e → SeqLines body → FastaRecords (62 :: h ++ e ++ body)
  | more {h e body e' rest : Seq} : TitleOK h → EolRun e → SeqLines body → EolRun e' → FastaRecords rest →
      FastaRecords (62 :: h ++ e ++ body ++ e' ++ rest)

def WellFormedFasta (file : Seq) : Prop := ∃ recs tail, FastaRecords recs ∧ AllEol tail ∧ file = recs ++ tail

/-- bytes of the sequence alphabet are neither `>` nor separators -/
theorem seqByte_facts {c : UInt8} (h : seqOK (lower c) = true) : (c == 62) = false ∧ isSep c = false := by
  constructor
  · cases hc : (c == 62) with
    | false => rfl
    | true =>
      have : c = 62 := by simpa using hc
      subst this
      revert h; decide
  · cases hs : isSep c with
    | false => rfl
    | true =>
      exfalso
      simp only [isSep, isSpace, isEol, Bool.or_eq_true, beq_iff_eq] at hs
      rcases hs with (rfl | rfl) | (rfl | rfl) <;> revert h <;> decide

def InTitle : FaSt → Prop
  | .s2 _ | .s3 _ | .s4 _ _ => True
  | _ => False

theorem faRun_title : ∀ (t : Seq) (s : FaSt), NoEol t → InTitle s → ∃ s', InTitle s' ∧ faRun s t = .ok (s', []) := by
  intro t
  induction t with
  | nil => intro s _ hs; exact ⟨s, hs, rfl⟩
  | cons c t ih =>
    intro s hne hs
    have hc : isEol c = false := hne c (by simp)
    have ht : NoEol t := fun x hx => hne x (by simp [hx])
    have : ∃ s1, InTitle s1 ∧ faStep s c = .ok (s1, none) := by
      cases s <;> simp only [InTitle] at hs
      · simp only [faStep, hc]
        by_cases h : isSep c = true
        · simp only [h, if_true]; (refine ⟨_, ?_, rfl⟩; exact True.intro)
        · simp only [h]; (refine ⟨_, ?_, rfl⟩; exact True.intro)
      · simp only [faStep, hc]
        by_cases h : isSpace c = true
        · simp only [h]; (refine ⟨_, ?_, rfl⟩; exact True.intro)
        · simp only [h]; (refine ⟨_, ?_, rfl⟩; exact True.intro)
      · simp only [faStep, hc]; (refine ⟨_, ?_, rfl⟩; exact True.intro)
    obtain ⟨s1, hs1, hstep⟩ := this
    obtain ⟨s', hs', hrun⟩ := ih s1 ht hs1
    exact ⟨s', hs', by simp only [faRun, hstep, hrun]; rfl⟩

theorem faRun_s5_eols : ∀ (e : Seq) (id d : Seq), AllEol e → faRun (.s5 id d) e = .ok (.s5 id d, []) := by
  intro e
  induction e with
  | nil => intro id d _; rfl
  | cons c t ih =>
    intro id d hall
    have hc : isEol c = true := hall c (by simp)
    have ht : AllEol t := fun x hx => hall x (by simp [hx])
    have hstep : faStep (.s5 id d) c = .ok (.s5 id d, none) := by simp [faStep, hc]
    simp only [faRun, hstep, ih id d ht]; rfl

/-- title line and the end-of-line run after it -/
theorem faRun_title_eol {h e : Seq} (hh : TitleOK h) (he : EolRun e) :
    ∃ id d, faRun .s1 (h ++ e) = .ok (.s5 id d, []) := by
  obtain ⟨c, t, rfl, hc, ht⟩ := hh
  obtain ⟨hne, hall⟩ := he
  cases e with
  | nil => exact absurd rfl hne
  | cons x e' =>
    have hx : isEol x = true := hall x (by simp)
    have he' : AllEol e' := fun y hy => hall y (by simp [hy])
    have h1 : faStep .s1 c = .ok (.s2 [c], none) := by simp [faStep, hc]
    obtain ⟨s', hs', hrun⟩ := faRun_title t (.s2 [c]) ht trivial
    have : ∃ id d, faStep s' x = .ok (.s5 id d, none) := by
      cases s' <;> simp only [InTitle] at hs' <;> simp only [faStep, hx, if_true] <;> exact ⟨_, _, rfl⟩
    obtain ⟨id, d, hstep⟩ := this
    refine ⟨id, d, ?_⟩
    simp only [List.cons_append, faRun_cons, h1]
    rw [faRun_append, hrun]
    simp only [faRun_cons, hstep, faRun_s5_eols e' id d he']
    rfl

theorem faRun_seqBytes : ∀ (l : Seq) (id d sq : Seq) (pe : Bool), SeqBytes l →
    ∃ sq' pe', faRun (.s6 id d sq pe) l = .ok (.s6 id d sq' pe', []) := by
  intro l
  induction l with
  | nil => intro id d sq pe _; exact ⟨sq, pe, rfl⟩
  | cons c t ih =>
    intro id d sq pe hl
    have hc := hl c (by simp)
    have ht : SeqBytes t := fun x hx => hl x (by simp [hx])
    obtain ⟨h62, hsep⟩ := seqByte_facts hc
    have hstep : faStep (.s6 id d sq pe) c = .ok (.s6 id d (sq ++ [lower c]) false, none) := by
      simp [faStep, h62, hsep, hc]
    obtain ⟨sq', pe', hrun⟩ := ih id d (sq ++ [lower c]) false ht
    exact ⟨sq', pe', by simp only [faRun, hstep, hrun]; rfl⟩

def InSeqStart (id d : Seq) (s : FaSt) : Prop := s = .s5 id d ∨ ∃ sq pe, s = .s6 id d sq pe

theorem faRun_seqLine {l : Seq} (hl : SeqLineOK l) (id d : Seq) (s : FaSt) (hs : InSeqStart id d s) :
    ∃ sq pe, faRun s l = .ok (.s6 id d sq pe, []) := by
  obtain ⟨hne, hb⟩ := hl
  rcases hs with rfl | ⟨sq, pe, rfl⟩
  · cases l with
    | nil => exact absurd rfl hne
    | cons c t =>
      have hc := hb c (by simp)
      have ht : SeqBytes t := fun x hx => hb x (by simp [hx])
      obtain ⟨_, hsep⟩ := seqByte_facts hc
      have heol : isEol c = false := by
        cases h : isEol c with
        | false => rfl
        | true => simp [isSep, h] at hsep
      have hstep : faStep (.s5 id d) c = .ok (.s6 id d [lower c] false, none) := by
        simp [faStep, heol, hc]
      obtain ⟨sq', pe', hrun⟩ := faRun_seqBytes t id d [lower c] false ht
      exact ⟨sq', pe', by simp only [faRun, hstep, hrun]; rfl⟩
  · exact faRun_seqBytes l id d sq pe hb

theorem faRun_seqLines {body : Seq} (hb : SeqLines body) :
    ∀ (id d : Seq) (s : FaSt), InSeqStart id d s → ∃ sq pe, faRun s body = .ok (.s6 id d sq pe, []) := by
  induction hb with
  | one hl => intro id d s hs; exact faRun_seqLine hl id d s hs
  | @more l e rest hl he _ ih =>
    intro id d s hs
    obtain ⟨sq, pe, h1⟩ := faRun_seqLine hl id d s hs
    have h2 := faRun_s6_eols_true e id d sq pe he.2 he.1
    obtain ⟨sq', pe', h3⟩ := ih id d (.s6 id d sq true) (Or.inr ⟨sq, true, rfl⟩)
    refine ⟨sq', pe', ?_⟩
    rw [List.append_assoc, faRun_append, h1]
    simp only
    rw [faRun_append, h2]
    simp only [h3]
    rfl

/-- one record from state 1 (after its `>`) -/
theorem faRun_record {h e body : Seq} (hh : TitleOK h) (he : EolRun e) (hb : SeqLines body) :
    ∃ id d sq pe, faRun .s1 (h ++ e ++ body) = .ok (.s6 id d sq pe, []) := by
  obtain ⟨id, d, h1⟩ := faRun_title_eol hh he
  obtain ⟨sq, pe, h2⟩ := faRun_seqLines hb id d (.s5 id d) (Or.inl rfl)
  refine ⟨id, d, sq, pe, ?_⟩
  rw [faRun_append, h1]
  simp only [h2]
  rfl

theorem fastaRecords_run {r : Seq} (h : FastaRecords r) :
    ∃ t, r = 62 :: t ∧ ∃ rs id d sq pe, faRun .s1 t = .ok (.s6 id d sq pe, rs) := by
  induction h with
  | @one h e body hh he hb =>
    obtain ⟨id, d, sq, pe, hrun⟩ := faRun_record hh he hb
    exact ⟨h ++ e ++ body, by simp, [], id, d, sq, pe, hrun⟩
  | @more h e body e' rest hh he hb he' _ ih =>
    obtain ⟨id, d, sq, pe, hrun⟩ := faRun_record hh he hb
    obtain ⟨t, rfl, rs, id2, d2, sq2, pe2, hrest⟩ := ih
    refine ⟨h ++ e ++ body ++ e' ++ 62 :: t, by simp, mkRec id d sq :: rs, id2, d2, sq2, pe2, ?_⟩
    have hinv : FaInv (.s6 id d sq pe) := faRun_inv _ .s1 _ [] trivial hrun
    have hsq : sq.isEmpty = false := by
      cases sq with
      | nil => exact absurd rfl hinv
      | cons a t => rfl
    have hgt : faStep (.s6 id d sq true) 62 = .ok (.s1, some (mkRec id d sq)) := by simp [faStep, hsq]
    rw [List.append_assoc, faRun_append, hrun]
    simp only
    rw [faRun_append, faRun_s6_eols_true e' id d sq pe he'.2 he'.1]
    simp only
    rw [faRun_cons, hgt]
    simp only [hrest]
    rfl

/-- every file of the grammar is read by the chunk parser as a whole number of records -/
theorem wellFormed_complete {file : Seq} (h : WellFormedFasta file) :
    ∃ rs id d sq, FaComplete file rs id d sq := by
  obtain ⟨recs, tail, hr, htail, rfl⟩ := h
  obtain ⟨t, rfl, rs, id, d, sq, pe, hrun⟩ := fastaRecords_run hr
  obtain ⟨pe', htl⟩ := faRun_s6_eols tail id d sq pe htail
  refine ⟨rs, id, d, sq, pe', ?_⟩
  have h0 : faStep .s0 62 = .ok (.s1, none) := by simp [faStep]
  rw [faRun_append]
  simp only [faRun_cons, h0, hrun, htl]
  simp

end ObiVerif.Parse
