import ObiVerif.Lemmas.Tax
import ObiVerif.Lemmas.TaxExample
/-!
# The weighted LCA at threshold 1.0 with zero weights and duplicate keys (C14)

`weightedLca_threshold_one` (Props/C14.lean) asks for positive counts.  Here the loop of
`Taxonomy.LCA(sequence, 1.0)` is followed for arbitrary weights: the items of weight zero contribute
nothing to `levels`/`total`, so that the loop runs as on the items of positive weight (the others are
deleted on the way or stay, harmlessly); with no positive weight the loop stops at once on its
initial answer, the root.  `TaxonomicDistribution` is characterised when several keys resolve to
the same node: since the repair 5d9c1cf the counts are ADDED (`taxDist_sum`), so the answer is the
deepest common ancestor of the taxa whose summed count is positive and does not depend on the
iteration order of the Go map (`weightedLca_sum`, `weightedLca_perm_any`), with no side condition.
The unrepaired assignment semantics (`taxDistAssign`: the last key in iteration order wins) is kept
in section G together with the order dependence it caused.
-/
namespace ObiVerif.Tax

/-! ## A. `levels` as a lookup table -/

/-- `levels[k]` (0 when absent): the first value stored under `k` -/
def lvGet : List (Nat × Nat) → Nat → Nat
  | [], _ => 0
  | (k', v) :: r, k => if k' = k then v else lvGet r k

theorem lvGet_levelsAdd (k w k' : Nat) : ∀ lv : List (Nat × Nat),
    lvGet (levelsAdd lv k w) k' = lvGet lv k' + (if k' = k then w else 0) := by
  intro lv
  induction lv with
  | nil =>
    simp only [levelsAdd, lvGet]
    by_cases e : k = k'
    · subst e; simp
    · have : ¬ k' = k := fun h => e h.symm
      simp [e, this]
  | cons a r ih =>
    obtain ⟨ka, va⟩ := a
    by_cases e : ka = k
    · subst e
      simp only [levelsAdd, if_true, lvGet]
      by_cases e' : ka = k'
      · subst e'; simp
      · have : ¬ k' = ka := fun h => e' h.symm
        simp [e', this]
    · simp only [levelsAdd, e, if_false, lvGet, ih]
      by_cases e' : ka = k'
      · subst e'; simp [e]
      · simp [e']

theorem lvFold_get (i k : Nat) : ∀ (items : List WItem) (lv : List (Nat × Nat)) (tot : Nat),
    lvGet (items.foldl (lvStep i) (lv, tot)).1 k = lvGet lv k + sumAt i k items ∧
    (items.foldl (lvStep i) (lv, tot)).2 = tot + sumW items := by
  intro items
  induction items with
  | nil => intro lv tot; simp [sumAt, sumW]
  | cons it r ih =>
    intro lv tot
    simp only [List.foldl_cons]
    cases hk : it.rp[i]? with
    | none =>
      have := ih lv (tot + it.w)
      simp only [lvStep, hk, sumAt, sumW]
      refine ⟨by rw [this.1]; simp, by rw [this.2]; omega⟩
    | some k' =>
      have := ih (levelsAdd lv k' it.w) (tot + it.w)
      simp only [lvStep, hk, sumAt, sumW]
      refine ⟨?_, by rw [this.2]; omega⟩
      rw [this.1, lvGet_levelsAdd]
      by_cases e : k = k'
      · subst e; simp; omega
      · have e' : ¬ k' = k := fun h => e h.symm
        simp [e, e']

/-- the table built at level `i` holds, under every key, the weight of the items carrying that key -/
theorem mkLevels_get (items : List WItem) (i k : Nat) :
    lvGet (mkLevels items i).1 k = sumAt i k items ∧ (mkLevels items i).2 = sumW items := by
  have := lvFold_get i k items [] 0
  rw [← mkLevels_eq] at this
  simpa [lvGet] using this

theorem mkLevels_bnd (items : List WItem) (i : Nat) :
    ∀ k v, (k, v) ∈ (mkLevels items i).1 → v ≤ sumAt i k items := by
  have hb := (lvFold_bnd i items [] 0 (fun _ => 0) (by intro k v hm; simp at hm)).1
  rw [← mkLevels_eq] at hb
  intro k v hm
  have := hb k v hm
  simpa using this

theorem lvGet_pos_mem (k : Nat) : ∀ lv : List (Nat × Nat), 0 < lvGet lv k → (k, lvGet lv k) ∈ lv := by
  intro lv
  induction lv with
  | nil => intro h; simp [lvGet] at h
  | cons a r ih =>
    obtain ⟨ka, va⟩ := a
    intro h
    by_cases e : ka = k
    · subst e; simp [lvGet]
    · simp only [lvGet, e, if_false] at h ⊢
      exact List.mem_cons_of_mem _ (ih h)

/-- the strict arg max dominates every entry -/
theorem amFold_ge : ∀ (lv : List (Nat × Nat)) (m0 : Nat) (k0 : Option Nat),
    m0 ≤ (lv.foldl amStep (m0, k0)).1 ∧ ∀ k v, (k, v) ∈ lv → v ≤ (lv.foldl amStep (m0, k0)).1 := by
  intro lv
  induction lv with
  | nil => intro m0 k0; simp
  | cons a r ih =>
    intro m0 k0
    simp only [List.foldl_cons]
    by_cases h : a.2 > m0
    · have e : amStep (m0, k0) a = (a.2, some a.1) := by simp [amStep, h]
      rw [e]
      obtain ⟨h1, h2⟩ := ih a.2 (some a.1)
      refine ⟨by omega, ?_⟩
      intro k v hm
      rcases List.mem_cons.1 hm with h3 | h3
      · subst h3; exact h1
      · exact h2 k v h3
    · have e : amStep (m0, k0) a = (m0, k0) := by simp [amStep, h]
      rw [e]
      obtain ⟨h1, h2⟩ := ih m0 k0
      refine ⟨h1, ?_⟩
      intro k v hm
      rcases List.mem_cons.1 hm with h3 | h3
      · subst h3; simp only at h; omega
      · exact h2 k v h3

theorem argMax_ge (lv : List (Nat × Nat)) : ∀ k v, (k, v) ∈ lv → v ≤ (argMax lv).1 := by
  rw [argMax_eq]; exact (amFold_ge lv 0 none).2

/-! ## sums and the items of positive weight -/

theorem sumW_pos_of_mem : ∀ (items : List WItem) (it : WItem), it ∈ items → 0 < it.w → 0 < sumW items := by
  intro items
  induction items with
  | nil => intro it h; simp at h
  | cons a r ih =>
    intro it hm hw
    simp only [sumW]
    rcases List.mem_cons.1 hm with e | e
    · subst e; omega
    · have := ih it e hw; omega

theorem exists_pos_of_sumW : ∀ (items : List WItem), 0 < sumW items → ∃ it ∈ items, 0 < it.w := by
  intro items
  induction items with
  | nil => intro h; simp [sumW] at h
  | cons a r ih =>
    intro h
    simp only [sumW] at h
    by_cases ha : 0 < a.w
    · exact ⟨a, by simp, ha⟩
    · obtain ⟨it, h1, h2⟩ := ih (by omega)
      exact ⟨it, List.mem_cons_of_mem _ h1, h2⟩

/-- when every item of positive weight carries `k` at level `i`, `levels[k]` is the total -/
theorem sumAt_eq_of_pos (i k : Nat) : ∀ (items : List WItem),
    (∀ it ∈ items, 0 < it.w → it.rp[i]? = some k) → sumAt i k items = sumW items := by
  intro items
  induction items with
  | nil => intro _; rfl
  | cons a r ih =>
    intro h
    have h1 := ih (fun it hm => h it (List.mem_cons_of_mem _ hm))
    simp only [sumAt, sumW, h1]
    by_cases e : a.rp[i]? = some k
    · simp [e]
    · have : a.w = 0 := Nat.eq_zero_of_not_pos (fun hw => e (h a (by simp) hw))
      simp [e, this]

theorem filter_comm {α : Type} (p q : α → Bool) (l : List α) :
    (l.filter p).filter q = (l.filter q).filter p := by
  induction l with
  | nil => rfl
  | cons a r ih =>
    cases hp : p a <;> cases hq : q a <;> simp [hp, hq, ih]

theorem mem_posFilter {items : List WItem} {it : WItem} :
    it ∈ items.filter (fun it => 0 < it.w) ↔ it ∈ items ∧ 0 < it.w := by
  simp [List.mem_filter]

/-! ## one turn of the main loop, arbitrary weights -/

/-- the loop goes on: some weight is positive and all the items of positive weight carry `k` at level `i` -/
theorem wloop_go (items : List WItem) (f i : Nat) (tm : Option Nat) (k : Nat)
    (hex : ∃ it ∈ items, 0 < it.w) (hall : ∀ it ∈ items, 0 < it.w → it.rp[i]? = some k) :
    wloop (f + 1) i items tm = wloop f (i + 1) (items.filter (keepItem i (some k))) (some k) := by
  obtain ⟨hg, ht⟩ := mkLevels_get items i k
  have hb := mkLevels_bnd items i
  have hsum := sumAt_eq_of_pos i k items hall
  obtain ⟨it0, hm0, hw0⟩ := hex
  have hpos : 0 < sumW items := sumW_pos_of_mem items it0 hm0 hw0
  have hmem : (k, sumW items) ∈ (mkLevels items i).1 := by
    have := lvGet_pos_mem k (mkLevels items i).1 (by rw [hg, hsum]; exact hpos)
    rwa [hg, hsum] at this
  have hge := argMax_ge _ _ _ hmem
  have hA : argMax (mkLevels items i).1 = (sumW items, some k) := by
    rw [argMax_eq] at hge ⊢
    rcases amFold_mem (mkLevels items i).1 0 none with h1 | ⟨k', h1, h2⟩
    · rw [h1] at hge; simp only at hge; omega
    · have h3 := hb _ _ h2
      have h4 := sumAt_le i k' items
      have hv : (List.foldl amStep (0, none) (mkLevels items i).1).1 = sumW items := by omega
      have hk : k' = k := by
        apply Classical.byContradiction
        intro hne
        have hne' : it0.rp[i]? ≠ some k' := by
          rw [hall it0 hm0 hw0]; intro e; cases e; exact hne rfl
        have := sumAt_lt i k' items ⟨it0, hm0, hne', hw0⟩
        omega
      subst hk
      apply Prod.ext
      · exact hv
      · exact h1
  conv => lhs; unfold wloop
  simp only [hA, ht]
  rw [if_pos ⟨hpos, trivial⟩]

/-- the loop stops: no positive weight, or the items of positive weight disagree at level `i` -/
theorem wloop_stop (items : List WItem) (f i : Nat) (tm : Option Nat)
    (h : (∃ it ∈ items, 0 < it.w) → (∃ k, ∀ it ∈ items, 0 < it.w → it.rp[i]? = some k) → False) :
    wloop (f + 1) i items tm = .ok tm := by
  conv => lhs; unfold wloop
  simp only
  rw [if_neg]
  rintro ⟨hp, he⟩
  obtain ⟨_, ht⟩ := mkLevels_get items i 0
  have hb := mkLevels_bnd items i
  rw [ht] at hp he
  apply h (exists_pos_of_sumW items hp)
  rw [argMax_eq] at he
  rcases amFold_mem (mkLevels items i).1 0 none with h1 | ⟨k, _, h2⟩
  · rw [h1] at he; simp only at he; omega
  · rw [he] at h2
    have h3 := hb k _ h2
    refine ⟨k, fun it hm hw => ?_⟩
    apply Classical.byContradiction
    intro hc
    have := sumAt_lt i k items ⟨it, hm, hc, hw⟩
    omega

/-- one turn of the main loop on ANY items, read on `P` = the items of positive weight:
(i) all of `P` at the same taxon `k`: the loop goes on with candidate `k`, and the deletions leave `P`
untouched; (ii) `P` disagrees: the loop stops; (iii) `P` empty: the loop stops -/
theorem wloop_succ0 (items : List WItem) (f i : Nat) (tm : Option Nat) :
    (∀ k, items.filter (fun it => 0 < it.w) ≠ [] → AllAt (items.filter (fun it => 0 < it.w)) i k →
      wloop (f + 1) i items tm = wloop f (i + 1) (items.filter (keepItem i (some k))) (some k) ∧
      (items.filter (keepItem i (some k))).filter (fun it => 0 < it.w) = items.filter (fun it => 0 < it.w)) ∧
    (items.filter (fun it => 0 < it.w) ≠ [] → (¬ ∃ k, AllAt (items.filter (fun it => 0 < it.w)) i k) →
      wloop (f + 1) i items tm = .ok tm) ∧
    (items.filter (fun it => 0 < it.w) = [] → wloop (f + 1) i items tm = .ok tm) := by
  refine ⟨?_, ?_, ?_⟩
  · intro k hne hall
    constructor
    · apply wloop_go
      · obtain ⟨it, hit⟩ := List.exists_mem_of_ne_nil _ hne
        exact ⟨it, (mem_posFilter.1 hit).1, (mem_posFilter.1 hit).2⟩
      · intro it hm hw
        exact hall it (mem_posFilter.2 ⟨hm, hw⟩)
    · rw [filter_comm]
      exact keep_all i k _ hall
  · intro _ hno
    apply wloop_stop
    rintro _ ⟨k, hk⟩
    exact hno ⟨k, fun it hit => hk it (mem_posFilter.1 hit).1 (mem_posFilter.1 hit).2⟩
  · intro hnil
    apply wloop_stop
    rintro ⟨it, hm, hw⟩ _
    have : it ∈ items.filter (fun it => 0 < it.w) := mem_posFilter.2 ⟨hm, hw⟩
    rw [hnil] at this
    simp at this

/-- the loop returns the last taxon of the longest common prefix `C` of the root-first paths of the
items of positive weight `P`, whatever the items of weight zero are -/
theorem wloop_cp0 (P : List WItem) (hne : P ≠ [])
    (C : List Nat) (hC : ∀ c, c <+: C ↔ ∀ it ∈ P, c <+: it.rp) (tm0 : Option Nat) :
    ∀ (d : Nat) (c : List Nat) (f : Nat) (items : List WItem), items.filter (fun it => 0 < it.w) = P →
      c <+: C → C.length = c.length + d → d < f →
      wloop f c.length items ((c.getLast?).or tm0) = .ok ((C.getLast?).or tm0) := by
  intro d
  induction d with
  | zero =>
    intro c f items hP hc hl hf
    have e : c = C := hc.eq_of_length (by omega)
    subst e
    cases f with
    | zero => omega
    | succ f =>
      have h := (wloop_succ0 items f c.length ((c.getLast?).or tm0)).2.1
      rw [hP] at h
      apply h hne
      rintro ⟨k, hk⟩
      have : c ++ [k] <+: c := (hC _).2 (fun it hm => prefix_snoc_of_getElem ((hC c).1 hc it hm) (hk it hm))
      have := this.length_le
      simp at this
      omega
  | succ d ih =>
    intro c f items hP hc hl hf
    obtain ⟨s, hs⟩ := hc
    cases s with
    | nil => simp at hs; subst hs; omega
    | cons k s' =>
      have hck : c ++ [k] <+: C := ⟨s', by rw [← hs]; simp⟩
      have hall : AllAt P c.length k := fun it hm => getElem_of_prefix_snoc ((hC _).1 hck it hm)
      cases f with
      | zero => omega
      | succ f =>
        have h := (wloop_succ0 items f c.length ((c.getLast?).or tm0)).1 k
        rw [hP] at h
        obtain ⟨h1, h2⟩ := h hne hall
        rw [h1]
        have := ih (c ++ [k]) f _ h2 hck (by simp; omega) (by omega)
        simpa using this

/-! ## B. the loops of `Taxonomy.LCA(…, 1.0)` on a distribution with zero weights -/

theorem filter_pos_map (g : Nat → List Nat) (dist : List (Nat × Nat)) :
    (dist.map fun d => (⟨d.1, d.2, g d.1⟩ : WItem)).filter (fun it => 0 < it.w) =
      (dist.filter (fun d => 0 < d.2)).map fun d => (⟨d.1, d.2, g d.1⟩ : WItem) := by
  induction dist with
  | nil => rfl
  | cons d r ih =>
    by_cases h : 0 < d.2
    · simp only [List.map_cons, List.filter_cons, h, decide_true, if_true, ih]
    · simp only [List.map_cons, List.filter_cons, h, decide_false, ih]; rfl

/-- the root-first path of a node starts at the root -/
theorem rpOf_head {t : Taxo} {root : Nat} {depth : Nat → Nat} (wf : WF t root depth) {fuel : Nat}
    (hf : FuelOK t fuel) {x : Nat} {n : Node} (hn : t.node x = some n) : (rpOf t fuel x).head? = some root := by
  obtain ⟨p, hp, ip⟩ := path_total wf hf hn
  simp only [rpOf, hp, List.head?_reverse]
  exact ip.getLast wf

/-- the initial answer of the loop is the root -/
theorem firstAnswer_root {t : Taxo} {root : Nat} {depth : Nat → Nat} (wf : WF t root depth) {fuel : Nat}
    (hf : FuelOK t fuel) (dist : List (Nat × Nat)) (hne : dist ≠ [])
    (hn : ∀ d ∈ dist, ∃ n, t.node d.1 = some n) :
    firstAnswer (dist.map fun d => (⟨d.1, d.2, rpOf t fuel d.1⟩ : WItem)) = some root := by
  rcases List.eq_nil_or_concat dist with h | ⟨l, d, h⟩
  · exact absurd h hne
  · have h' : dist = l ++ [d] := by simpa using h
    subst h'
    obtain ⟨n, hd⟩ := hn d (by simp)
    simp only [firstAnswer, List.map_append, List.map_cons, List.map_nil, List.getLast?_concat]
    exact rpOf_head wf hf hd

/-- `Taxonomy.LCA(…, 1.0)` on a non-empty distribution over nodes, weights arbitrary: with no positive
weight the answer is the root; otherwise it is the left fold of `TaxNode.LCA` over the taxa of
positive weight, the deepest common ancestor of those taxa -/
theorem wlcaNodes_zero {t : Taxo} {root : Nat} {depth : Nat → Nat} (wf : WF t root depth) {fuel : Nat}
    (hf : FuelOK t fuel) (dist : List (Nat × Nat)) (hne : dist ≠ [])
    (hn : ∀ d ∈ dist, ∃ n, t.node d.1 = some n) :
    (dist.filter (fun d => 0 < d.2) = [] → wlcaNodes t fuel dist = .ok (some root)) ∧
    (∀ x w rest, dist.filter (fun d => 0 < d.2) = (x, w) :: rest →
      ∃ z, lcaFold t fuel x (rest.map (·.1)) = .ok z ∧ wlcaNodes t fuel dist = .ok (some z) ∧
        ∀ a, Anc t a z ↔ ∀ d ∈ dist, 0 < d.2 → Anc t a d.1) := by
  have hitems := mkItems_ok wf hf dist hn
  have hfirst := firstAnswer_root wf hf dist hne hn
  have hfil := filter_pos_map (rpOf t fuel) dist
  constructor
  · intro h0
    rw [h0] at hfil
    simp only [wlcaNodes, hitems, hfirst]
    exact (wloop_succ0 _ (fuel + 1) 0 (some root)).2.2 hfil
  · intro x w rest hpos
    rw [hpos] at hfil
    have hsub : ∀ d ∈ (x, w) :: rest, d ∈ dist ∧ 0 < d.2 := by
      intro d hd
      rw [← hpos] at hd
      simpa [List.mem_filter] using hd
    obtain ⟨nx, hx⟩ := hn (x, w) (hsub _ (by simp)).1
    have hrest : ∀ y ∈ rest.map (·.1), ∃ n, t.node y = some n := by
      intro y hy
      obtain ⟨d, hd, rfl⟩ := List.mem_map.1 hy
      exact hn d (hsub d (List.mem_cons_of_mem _ hd)).1
    obtain ⟨z, nz, hz, hnz, hrp, cz⟩ := lcaFold_ok wf hf (rest.map (·.1)) x nx hx hrest
    refine ⟨z, hz, ?_, ?_⟩
    · have hC : ∀ c, c <+: rpOf t fuel z ↔
          ∀ it ∈ ((x, w) :: rest).map (fun d => (⟨d.1, d.2, rpOf t fuel d.1⟩ : WItem)), c <+: it.rp := by
        intro c
        rw [hrp, prefix_foldl_cpre]
        simp only [List.map_cons, List.mem_cons, forall_eq_or_imp, List.mem_map, List.map_map]
        constructor
        · rintro ⟨h1, h2⟩
          refine ⟨h1, ?_⟩
          rintro it ⟨d, hd, rfl⟩
          exact h2 _ ⟨d, hd, rfl⟩
        · rintro ⟨h1, h2⟩
          refine ⟨h1, ?_⟩
          rintro l ⟨d, hd, rfl⟩
          exact h2 _ ⟨d, hd, rfl⟩
      obtain ⟨pz, hpz, ipz⟩ := path_total wf hf hnz
      have hlen := (path_ok_isPath _ _ _ hpz).2
      have hrz : rpOf t fuel z = pz.reverse := by simp [rpOf, hpz]
      have hlast : (rpOf t fuel z).getLast? = some z := by
        rw [hrz, List.getLast?_reverse]
        obtain ⟨q, rfl⟩ := ipz.head; rfl
      have := wloop_cp0 _ (by simp) (rpOf t fuel z) hC (some root) (rpOf t fuel z).length [] (fuel + 2) _ hfil
        List.nil_prefix (by simp) (by rw [hrz]; simp; omega)
      simp only [wlcaNodes, hitems, hfirst]
      rw [hlast] at this
      simpa using this
    · intro a
      rw [cz a]
      constructor
      · rintro ⟨h1, h2⟩ d hd hw
        have hm : d ∈ (x, w) :: rest := by
          rw [← hpos]; simp [List.mem_filter, hd, hw]
        rcases List.mem_cons.1 hm with e | e
        · subst e; exact h1
        · exact h2 _ (List.mem_map.2 ⟨d, e, rfl⟩)
      · intro h
        refine ⟨h _ (hsub (x, w) (by simp)).1 (hsub (x, w) (by simp)).2, ?_⟩
        intro y hy
        obtain ⟨d, hd, rfl⟩ := List.mem_map.1 hy
        have := hsub d (List.mem_cons_of_mem _ hd)
        exact h d this.1 this.2

/-! ## C. `TaxonomicDistribution` with several keys for one node: the counts are added -/

/-- the summed count of the keys of the `merged_taxid` map that designate node `x` (directly or as a
merged taxid) -/
def taxCount (t : Taxo) (x : Nat) : List (Nat × Nat) → Nat
  | [] => 0
  | kw :: r => (if resolve t kw.1 = some x then kw.2 else 0) + taxCount t x r

theorem taxCount_pos_iff {t : Taxo} (x : Nat) : ∀ kws : List (Nat × Nat),
    0 < taxCount t x kws ↔ ∃ kw ∈ kws, resolve t kw.1 = some x ∧ 0 < kw.2 := by
  intro kws
  induction kws with
  | nil => simp [taxCount]
  | cons kw r ih =>
    simp only [taxCount, List.mem_cons, exists_eq_or_imp]
    by_cases e : resolve t kw.1 = some x
    · simp only [e, if_true, true_and]
      rw [← ih]; omega
    · simp only [e, if_false, false_and, false_or, Nat.zero_add]
      exact ih

theorem taxCount_append {t : Taxo} (x : Nat) (l1 l2 : List (Nat × Nat)) :
    taxCount t x (l1 ++ l2) = taxCount t x l1 + taxCount t x l2 := by
  induction l1 with
  | nil => simp [taxCount]
  | cons a r ih => simp only [List.cons_append, taxCount, ih]; omega

/-- the summed count does not depend on the order of the keys -/
theorem taxCount_perm {t : Taxo} (x : Nat) {kws kws' : List (Nat × Nat)} (hp : kws.Perm kws') :
    taxCount t x kws = taxCount t x kws' := by
  induction hp with
  | nil => rfl
  | cons a _ ih => simp only [taxCount, ih]
  | swap a b l => simp only [taxCount]; omega
  | trans _ _ ih1 ih2 => rw [ih1, ih2]

theorem lvGet_addW (k w k' : Nat) : ∀ lv : List (Nat × Nat),
    lvGet (addW lv k w) k' = lvGet lv k' + (if k' = k then w else 0) := by
  intro lv
  induction lv with
  | nil =>
    simp only [addW, lvGet]
    by_cases e : k = k'
    · subst e; simp
    · have : ¬ k' = k := fun h => e h.symm
      simp [e, this]
  | cons a r ih =>
    obtain ⟨ka, va⟩ := a
    by_cases e : ka = k
    · subst e
      simp only [addW, if_true, lvGet]
      by_cases e' : ka = k'
      · subst e'; simp
      · have : ¬ k' = ka := fun h => e' h.symm
        simp [e', this]
    · simp only [addW, e, if_false, lvGet, ih]
      by_cases e' : ka = k'
      · subst e'; simp [e]
      · simp [e']

theorem addW_nodup (x w : Nat) : ∀ (acc : List (Nat × Nat)),
    (acc.map (·.1)).Nodup → ((addW acc x w).map (·.1)).Nodup := by
  intro acc
  induction acc with
  | nil => intro _; simp [addW]
  | cons a r ih =>
    obtain ⟨xa, va⟩ := a
    intro h
    by_cases e : xa = x
    · simpa [addW, e] using h
    · simp only [List.map_cons, List.nodup_cons] at h
      simp only [addW, e, if_false, List.map_cons, List.nodup_cons]
      refine ⟨?_, ih h.2⟩
      intro hm
      rcases ((addW_mem x w r).1 xa).1 hm with h1 | h1
      · exact h.1 h1
      · exact e h1

/-- with one entry per key, the entry of a key is what the lookup returns -/
theorem lvGet_of_mem_nodup : ∀ (lv : List (Nat × Nat)), (lv.map (·.1)).Nodup → ∀ x w, (x, w) ∈ lv →
    lvGet lv x = w := by
  intro lv
  induction lv with
  | nil => intro _ x w h; simp at h
  | cons a r ih =>
    obtain ⟨ka, va⟩ := a
    intro hnd x w hm
    simp only [List.map_cons, List.nodup_cons] at hnd
    rcases List.mem_cons.1 hm with e | e
    · obtain ⟨e1, e2⟩ := Prod.mk.inj e
      subst e1; subst e2; simp [lvGet]
    · have hne : ¬ ka = x := by
        intro e'; subst e'
        exact hnd.1 (List.mem_map.2 ⟨(ka, w), e, rfl⟩)
      simp only [lvGet, hne, if_false]
      exact ih hnd.2 x w e

/-- `TaxonomicDistribution` run from the partial map `acc`: one entry per node, and the count stored for a
node is its count in `acc` plus the summed count of the keys designating it -/
theorem taxDist_sum_acc {t : Taxo} : ∀ (kws acc dist : List (Nat × Nat)), taxDist t kws acc = .ok dist →
    ((acc.map (·.1)).Nodup → (dist.map (·.1)).Nodup) ∧
    (∀ x, lvGet dist x = lvGet acc x + taxCount t x kws) := by
  intro kws
  induction kws with
  | nil =>
    intro acc dist h
    simp [taxDist] at h; subst h
    exact ⟨id, fun x => by simp [taxCount]⟩
  | cons kw r ih =>
    intro acc dist h
    obtain ⟨k, w⟩ := kw
    unfold taxDist at h
    split at h
    · cases h
    · rename_i x0 hx0
      obtain ⟨h1, h2⟩ := ih _ _ h
      refine ⟨fun hn => h1 (addW_nodup x0 w acc hn), ?_⟩
      intro x
      rw [h2 x, lvGet_addW]
      simp only [taxCount, hx0, Option.some.injEq]
      by_cases e : x = x0
      · subst e; simp; omega
      · have e' : ¬ x0 = x := fun h => e h.symm
        simp [e, e']

/-- `TaxonomicDistribution` on keys that all resolve, several keys possibly resolving to the same node
(a merged taxid next to its current taxid): one entry per node reached, holding the SUM of the counts of
the keys that designate the node -/
theorem taxDist_sum {t : Taxo} (kws : List (Nat × Nat)) (hr : ∀ kw ∈ kws, (resolve t kw.1).isSome) :
    ∃ dist, taxDist t kws [] = .ok dist ∧ (dist.map (·.1)).Nodup ∧
      (∀ y, y ∈ dist.map (·.1) ↔ ∃ kw ∈ kws, resolve t kw.1 = some y) ∧
      (∀ x w, (x, w) ∈ dist → w = taxCount t x kws) := by
  obtain ⟨dist, h1, h2, _⟩ := taxDist_ok kws [] hr
  obtain ⟨h3, h4⟩ := taxDist_sum_acc kws [] dist h1
  have hnd := h3 (by simp)
  refine ⟨dist, h1, hnd, ?_, ?_⟩
  · intro y; rw [h2 y]; simp
  · intro x w hm
    have := h4 x
    rw [lvGet_of_mem_nodup dist hnd x w hm] at this
    simpa [lvGet] using this

/-! ## D. zero counts, aliases and duplicate keys at the level of the sequence -/

/-- `Taxonomy.LCA(sequence, 1.0)` on ANY `merged_taxid` map of known taxids: the answer is the deepest
common ancestor of the taxa whose summed count (over the keys designating them) is positive; all
counts zero on a non-empty map: the root.  The values of the positive counts are irrelevant. -/
theorem weightedLca_sum {t : Taxo} {root : Nat} {depth : Nat → Nat} {fuel : Nat}
    (wf : WF t root depth) (hf : FuelOK t fuel) (ha : AliasOK t)
    (kws : List (Nat × Nat)) (hr : ∀ kw ∈ kws, (resolve t kw.1).isSome) :
    (kws ≠ [] → (∀ kw ∈ kws, kw.2 = 0) → weightedLca t fuel kws = .ok (some root)) ∧
    ((∃ kw ∈ kws, 0 < kw.2) → ∃ z, weightedLca t fuel kws = .ok (some z) ∧
      ∀ a, Anc t a z ↔ ∀ y, 0 < taxCount t y kws → Anc t a y) := by
  obtain ⟨dist, h1, _, h2, h3⟩ := taxDist_sum kws hr
  have hnode : ∀ d ∈ dist, ∃ n, t.node d.1 = some n := by
    intro d hd
    obtain ⟨kw, _, hk⟩ := (h2 d.1).1 (List.mem_map.2 ⟨d, hd, rfl⟩)
    exact resolve_isNode ha hk
  have hwl : weightedLca t fuel kws = wlcaNodes t fuel dist := by simp [weightedLca, h1]
  -- a node of positive summed count is in the distribution with a positive weight, and conversely
  have hposd : ∀ y, 0 < taxCount t y kws → ∃ d ∈ dist, d.1 = y ∧ 0 < d.2 := by
    intro y hy
    obtain ⟨kw, hkw, hk, _⟩ := (taxCount_pos_iff y kws).1 hy
    have : y ∈ dist.map (·.1) := (h2 y).2 ⟨kw, hkw, hk⟩
    obtain ⟨d, hd, rfl⟩ := List.mem_map.1 this
    refine ⟨d, hd, rfl, ?_⟩
    rw [h3 d.1 d.2 hd]; exact hy
  constructor
  · intro hne hz
    have hdne : dist ≠ [] := by
      cases kws with
      | nil => exact absurd rfl hne
      | cons kw r =>
        obtain ⟨y, hy⟩ := Option.isSome_iff_exists.1 (hr kw (by simp))
        have := (h2 y).2 ⟨kw, by simp, hy⟩
        intro e; rw [e] at this; simp at this
    have hfil : dist.filter (fun d => 0 < d.2) = [] := by
      apply List.filter_eq_nil_iff.2
      intro d hd
      simp only [decide_eq_true_eq]
      intro hp
      rw [h3 d.1 d.2 hd] at hp
      obtain ⟨kw, hkw, _, hw⟩ := (taxCount_pos_iff d.1 kws).1 hp
      have := hz kw hkw
      omega
    rw [hwl]
    exact (wlcaNodes_zero wf hf dist hdne hnode).1 hfil
  · rintro ⟨kw0, hkw0, hp0⟩
    obtain ⟨y0, hy0⟩ := Option.isSome_iff_exists.1 (hr kw0 hkw0)
    obtain ⟨d0, hd0, _, hw0⟩ := hposd y0 ((taxCount_pos_iff y0 kws).2 ⟨kw0, hkw0, hy0, hp0⟩)
    have hdne : dist ≠ [] := by intro e; rw [e] at hd0; simp at hd0
    cases hfil : dist.filter (fun d => 0 < d.2) with
    | nil =>
      have := List.filter_eq_nil_iff.1 hfil d0 hd0
      simp only [decide_eq_true_eq] at this
      exact absurd hw0 this
    | cons xw rest =>
      obtain ⟨x, w⟩ := xw
      obtain ⟨z, _, hz, hc⟩ := (wlcaNodes_zero wf hf dist hdne hnode).2 x w rest hfil
      refine ⟨z, by rw [hwl, hz], ?_⟩
      intro a
      rw [hc a]
      constructor
      · intro h y hy
        obtain ⟨d, hd, e, hdw⟩ := hposd y hy
        exact e ▸ h d hd hdw
      · intro h d hd hw
        apply h
        rw [← h3 d.1 d.2 hd]; exact hw

/-- the same read on the keys: the deepest common ancestor of the taxa designated by a key of positive count -/
theorem weightedLca_sum_keys {t : Taxo} {root : Nat} {depth : Nat → Nat} {fuel : Nat}
    (wf : WF t root depth) (hf : FuelOK t fuel) (ha : AliasOK t)
    (kws : List (Nat × Nat)) (hr : ∀ kw ∈ kws, (resolve t kw.1).isSome) (hpos : ∃ kw ∈ kws, 0 < kw.2) :
    ∃ z, weightedLca t fuel kws = .ok (some z) ∧
      ∀ a, Anc t a z ↔ ∀ kw ∈ kws, 0 < kw.2 → ∃ y, resolve t kw.1 = some y ∧ Anc t a y := by
  obtain ⟨z, hz, cz⟩ := (weightedLca_sum wf hf ha kws hr).2 hpos
  refine ⟨z, hz, fun a => ?_⟩
  rw [cz a]
  constructor
  · intro h kw hkw hw
    obtain ⟨y, hy⟩ := Option.isSome_iff_exists.1 (hr kw hkw)
    exact ⟨y, hy, h y ((taxCount_pos_iff y kws).2 ⟨kw, hkw, hy, hw⟩)⟩
  · intro h y hy
    obtain ⟨kw, hkw, hk, hw⟩ := (taxCount_pos_iff y kws).1 hy
    obtain ⟨y', hy', hay⟩ := h kw hkw hw
    rw [hk] at hy'; cases hy'; exact hay

/-! ## E. the iteration order of the Go map is irrelevant -/

/-- whatever the order in which `range` lists the `merged_taxid` map, the answer is the same -/
theorem weightedLca_perm_any {t : Taxo} {root : Nat} {depth : Nat → Nat} {fuel : Nat}
    (wf : WF t root depth) (hf : FuelOK t fuel) (ha : AliasOK t)
    (kws kws' : List (Nat × Nat)) (hp : kws.Perm kws')
    (hr : ∀ kw ∈ kws, (resolve t kw.1).isSome) :
    weightedLca t fuel kws' = weightedLca t fuel kws := by
  have hr' : ∀ kw ∈ kws', (resolve t kw.1).isSome := fun kw h => hr kw (hp.mem_iff.2 h)
  by_cases hpos : ∃ kw ∈ kws, 0 < kw.2
  · have hpos' : ∃ kw ∈ kws', 0 < kw.2 := by
      obtain ⟨kw, h, hw⟩ := hpos
      exact ⟨kw, hp.mem_iff.1 h, hw⟩
    obtain ⟨z, hz, cz⟩ := (weightedLca_sum wf hf ha kws hr).2 hpos
    obtain ⟨z', hz', cz'⟩ := (weightedLca_sum wf hf ha kws' hr').2 hpos'
    have h1 : Anc t z z' := (cz' z).2 (fun y hy => (cz z).1 (Anc.refl z) y (by rw [taxCount_perm y hp]; exact hy))
    have h2 : Anc t z' z := (cz z').2 (fun y hy => (cz' z').1 (Anc.refl z') y (by rw [← taxCount_perm y hp]; exact hy))
    rw [hz, hz', Anc.antisymm wf h1 h2]
  · have hz : ∀ kw ∈ kws, kw.2 = 0 := by
      intro kw h
      apply Nat.eq_zero_of_not_pos
      intro hw; exact hpos ⟨kw, h, hw⟩
    by_cases hne : kws = []
    · subst hne
      rw [hp.nil_eq]
    · have hne' : kws' ≠ [] := by
        intro e; subst e; exact hne hp.eq_nil
      rw [(weightedLca_sum wf hf ha kws hr).1 hne hz,
        (weightedLca_sum wf hf ha kws' hr').1 hne' (fun kw h => hz kw (hp.mem_iff.2 h))]

/-! ## F. non-vacuity on the example taxonomy

`exT`: 1 root, 2→1, 3→2, 4→2, 5→1; 9 and 10 are aliases of 3. -/

/-- zero counts (here on 3 through its two aliases and itself, and on 5) are ignored: the LCA is that
of the only taxon of positive count -/
example : ∃ z, weightedLca exT 6 [(3, 0), (9, 0), (4, 2), (10, 0), (5, 0)] = .ok (some z) ∧
    ∀ a, Anc exT a z ↔ ∀ y, 0 < taxCount exT y [(3, 0), (9, 0), (4, 2), (10, 0), (5, 0)] → Anc exT a y :=
  (weightedLca_sum exT_wf exT_fuel exT_aliasOK _ (by decide)).2 ⟨(4, 2), by decide⟩

example : weightedLca exT 6 [(3, 0), (9, 0), (4, 2), (10, 0), (5, 0)] = .ok (some 4) := rfl

/-- three keys of different counts for taxon 3, one for 4, a zero count on 5: the counts are added -/
example : taxDist exT [(3, 1), (9, 5), (4, 2), (10, 3), (5, 0)] [] = .ok [(3, 9), (4, 2), (5, 0)] := rfl
example : taxCount exT 3 [(3, 1), (9, 5), (4, 2), (10, 3), (5, 0)] = 9 := by decide
example : weightedLca exT 6 [(3, 1), (9, 5), (4, 2), (10, 3), (5, 0)] = .ok (some 2) := rfl

/-- all counts zero: the root -/
example : weightedLca exT 6 [(3, 0), (9, 0), (5, 0)] = .ok (some 1) :=
  (weightedLca_sum exT_wf exT_fuel exT_aliasOK _ (by decide)).1 (by simp) (by decide)

/-- the order of the map is irrelevant, also on the map on which the unrepaired code was order dependent -/
example : weightedLca exT 6 [(9, 2), (3, 0), (5, 1)] = weightedLca exT 6 [(3, 0), (9, 2), (5, 1)] :=
  weightedLca_perm_any exT_wf exT_fuel exT_aliasOK _ _ (List.Perm.swap _ _ _) (by decide)

example : weightedLca exT 6 [(3, 0), (9, 2), (5, 1)] = .ok (some 1) ∧
    weightedLca exT 6 [(9, 2), (3, 0), (5, 1)] = .ok (some 1) := ⟨rfl, rfl⟩

/-! ## G. history: the UNREPAIRED `TaxonomicDistribution` (`taxons[t] = v`, before 5d9c1cf)

`taxDistAssign` keeps the count of the key met LAST in iteration order; with a zero and a positive
count under two keys of one taxon the answer depended on the map order. -/

theorem taxDistAssign_ok {t : Taxo} : ∀ (kws acc : List (Nat × Nat)), (∀ kw ∈ kws, (resolve t kw.1).isSome) →
    ∃ dist, taxDistAssign t kws acc = .ok dist ∧
      (∀ y, y ∈ dist.map (·.1) ↔ (y ∈ acc.map (·.1) ∨ ∃ kw ∈ kws, resolve t kw.1 = some y)) := by
  intro kws
  induction kws with
  | nil => intro acc _; exact ⟨acc, rfl, by simp⟩
  | cons kw r ih =>
    intro acc h
    obtain ⟨k, w⟩ := kw
    obtain ⟨x, hx⟩ := Option.isSome_iff_exists.1 (h (k, w) (by simp))
    obtain ⟨dist, h1, h2⟩ := ih (setW acc x w) (fun kw hkw => h kw (List.mem_cons_of_mem _ hkw))
    refine ⟨dist, by simp [taxDistAssign, hx, h1], ?_⟩
    intro y
    rw [h2 y, (setW_mem x w acc).1 y]
    simp only [List.mem_cons, exists_eq_or_imp, hx, Option.some.injEq]
    constructor
    · rintro ((h | h) | h)
      · exact Or.inl h
      · exact Or.inr (Or.inl h.symm)
      · exact Or.inr (Or.inr h)
    · rintro (h | h | h)
      · exact Or.inl (Or.inl h)
      · exact Or.inl (Or.inr h.symm)
      · exact Or.inr h

theorem setW_nodup (x w : Nat) : ∀ (acc : List (Nat × Nat)),
    (acc.map (·.1)).Nodup → ((setW acc x w).map (·.1)).Nodup := by
  intro acc
  induction acc with
  | nil => intro _; simp [setW]
  | cons a r ih =>
    obtain ⟨xa, va⟩ := a
    intro h
    by_cases e : xa = x
    · simpa [setW, e] using h
    · simp only [List.map_cons, List.nodup_cons] at h
      simp only [setW, e, if_false, List.map_cons, List.nodup_cons]
      refine ⟨?_, ih h.2⟩
      intro hm
      rcases ((setW_mem x w r).1 xa).1 hm with h1 | h1
      · exact h.1 h1
      · exact e h1

/-- a stored pair is an old one or the one just written -/
theorem setW_val (x w : Nat) : ∀ (acc : List (Nat × Nat)) (y v : Nat),
    (y, v) ∈ setW acc x w → (y, v) ∈ acc ∨ (y = x ∧ v = w) := by
  intro acc
  induction acc with
  | nil => intro y v h; simp [setW] at h; exact Or.inr h
  | cons a r ih =>
    obtain ⟨xa, va⟩ := a
    intro y v h
    by_cases e : xa = x
    · simp only [setW, e, if_true, List.mem_cons] at h
      rcases h with h | h
      · right; simpa using h
      · left; exact List.mem_cons_of_mem _ h
    · simp only [setW, e, if_false, List.mem_cons] at h
      rcases h with h | h
      · left; rw [h]; simp
      · rcases ih y v h with h1 | h1
        · left; exact List.mem_cons_of_mem _ h1
        · right; exact h1

theorem taxDistAssign_inv {t : Taxo} : ∀ (kws acc dist : List (Nat × Nat)), taxDistAssign t kws acc = .ok dist →
    ((acc.map (·.1)).Nodup → (dist.map (·.1)).Nodup) ∧
    (∀ x w, (x, w) ∈ dist → (x, w) ∈ acc ∨ ∃ kw ∈ kws, resolve t kw.1 = some x ∧ kw.2 = w) := by
  intro kws
  induction kws with
  | nil =>
    intro acc dist h
    simp [taxDistAssign] at h; subst h
    exact ⟨id, fun x w h => Or.inl h⟩
  | cons kw r ih =>
    intro acc dist h
    obtain ⟨k, w⟩ := kw
    unfold taxDistAssign at h
    split at h
    · cases h
    · rename_i x hx
      obtain ⟨h1, h2⟩ := ih _ _ h
      refine ⟨fun hn => h1 (setW_nodup x w acc hn), ?_⟩
      intro y v hm
      rcases h2 y v hm with h3 | ⟨kw, hkw, h4⟩
      · rcases setW_val x w acc y v h3 with h5 | ⟨e1, e2⟩
        · exact Or.inl h5
        · exact Or.inr ⟨(k, w), by simp, by rw [e1]; exact hx, e2.symm⟩
      · exact Or.inr ⟨kw, List.mem_cons_of_mem _ hkw, h4⟩

/-- the unrepaired `TaxonomicDistribution` on keys that all resolve, several keys possibly resolving to the same
node (aliases): one entry per node reached, and the weight stored for a node is the weight of one of
the keys resolving to it (the last one in iteration order: `taxDistAssign_last`) -/
theorem taxDistAssign_spec {t : Taxo} (kws : List (Nat × Nat)) (hr : ∀ kw ∈ kws, (resolve t kw.1).isSome) :
    ∃ dist, taxDistAssign t kws [] = .ok dist ∧ (dist.map (·.1)).Nodup ∧
      (∀ y, y ∈ dist.map (·.1) ↔ ∃ kw ∈ kws, resolve t kw.1 = some y) ∧
      (∀ x w, (x, w) ∈ dist → ∃ kw ∈ kws, resolve t kw.1 = some x ∧ kw.2 = w) := by
  obtain ⟨dist, h1, h2⟩ := taxDistAssign_ok kws [] hr
  obtain ⟨h3, h4⟩ := taxDistAssign_inv kws [] dist h1
  refine ⟨dist, h1, h3 (by simp), ?_, ?_⟩
  · intro y; rw [h2 y]; simp
  · intro x w hm
    rcases h4 x w hm with h | h
    · simp at h
    · exact h

/-- with one entry per node, writing `x` leaves the other entries alone and replaces the entry of `x` -/
theorem setW_val' (x w : Nat) : ∀ (acc : List (Nat × Nat)), (acc.map (·.1)).Nodup → ∀ (y v : Nat),
    (y, v) ∈ setW acc x w → ((y, v) ∈ acc ∧ y ≠ x) ∨ (y = x ∧ v = w) := by
  intro acc
  induction acc with
  | nil => intro _ y v h; simp [setW] at h; exact Or.inr h
  | cons a r ih =>
    obtain ⟨xa, va⟩ := a
    intro hnd y v h
    simp only [List.map_cons, List.nodup_cons] at hnd
    by_cases e : xa = x
    · subst e
      simp only [setW, if_true, List.mem_cons] at h
      rcases h with h | h
      · right; simpa using h
      · left
        refine ⟨List.mem_cons_of_mem _ h, ?_⟩
        intro e; subst e
        exact hnd.1 (List.mem_map.2 ⟨(y, v), h, rfl⟩)
    · simp only [setW, e, if_false, List.mem_cons] at h
      rcases h with h | h
      · left
        obtain ⟨e1, e2⟩ := Prod.mk.inj h
        subst e1; subst e2
        exact ⟨by simp, e⟩
      · rcases ih hnd.2 y v h with ⟨h1, h2⟩ | h1
        · left; exact ⟨List.mem_cons_of_mem _ h1, h2⟩
        · right; exact h1

/-- the weight stored for a node is the weight of the LAST key (in iteration order) resolving to it -/
theorem taxDistAssign_last_acc {t : Taxo} : ∀ (kws acc dist : List (Nat × Nat)), (acc.map (·.1)).Nodup →
    taxDistAssign t kws acc = .ok dist → ∀ x w, (x, w) ∈ dist →
    ((x, w) ∈ acc ∧ ∀ kw ∈ kws, resolve t kw.1 ≠ some x) ∨
    ∃ l1 kw l2, kws = l1 ++ kw :: l2 ∧ resolve t kw.1 = some x ∧ kw.2 = w ∧
      ∀ kw' ∈ l2, resolve t kw'.1 ≠ some x := by
  intro kws
  induction kws with
  | nil =>
    intro acc dist _ h x w hm
    simp [taxDistAssign] at h; subst h
    exact Or.inl ⟨hm, by simp⟩
  | cons kw r ih =>
    intro acc dist hnd h x w hm
    obtain ⟨k, w0⟩ := kw
    unfold taxDistAssign at h
    split at h
    · cases h
    · rename_i x0 hx0
      rcases ih _ _ (setW_nodup x0 w0 acc hnd) h x w hm with ⟨h1, h2⟩ | ⟨l1, kw, l2, e, h3, h4, h5⟩
      · rcases setW_val' x0 w0 acc hnd x w h1 with ⟨h6, h7⟩ | ⟨e1, e2⟩
        · left
          refine ⟨h6, ?_⟩
          intro kw hkw
          rcases List.mem_cons.1 hkw with e | e
          · subst e; simp only; rw [hx0]; intro e'; cases e'; exact h7 rfl
          · exact h2 kw e
        · right
          exact ⟨[], (k, w0), r, rfl, by rw [e1]; exact hx0, e2.symm, h2⟩
      · right
        exact ⟨(k, w0) :: l1, kw, l2, by rw [e]; rfl, h3, h4, h5⟩

theorem taxDistAssign_last {t : Taxo} (kws dist : List (Nat × Nat)) (h : taxDistAssign t kws [] = .ok dist) :
    ∀ x w, (x, w) ∈ dist → ∃ l1 kw l2, kws = l1 ++ kw :: l2 ∧ resolve t kw.1 = some x ∧ kw.2 = w ∧
      ∀ kw' ∈ l2, resolve t kw'.1 ≠ some x := by
  intro x w hm
  rcases taxDistAssign_last_acc kws [] dist (by simp) h x w hm with ⟨h1, _⟩ | h1
  · simp at h1
  · exact h1

/-- the order dependence of the UNREPAIRED code: taxon 3 is given count 0 under its own taxid and count 2
under its merged taxid 9; the key met last decides whether taxon 3 takes part (`[(3, 2), (5, 1)]`:
LCA(3, 5) = 1) or not (`[(3, 0), (5, 1)]`: 5) -/
example : weightedLcaAssign exT 6 [(3, 0), (9, 2), (5, 1)] = .ok (some 1) ∧
    weightedLcaAssign exT 6 [(9, 2), (3, 0), (5, 1)] = .ok (some 5) := ⟨rfl, rfl⟩

example : taxDistAssign exT [(3, 0), (9, 2), (5, 1)] [] = .ok [(3, 2), (5, 1)] ∧
    taxDistAssign exT [(9, 2), (3, 0), (5, 1)] [] = .ok [(3, 0), (5, 1)] := ⟨rfl, rfl⟩

/-- where no taxon has two keys the two semantics coincide -/
theorem setW_eq_addW_of_not_mem (x w : Nat) : ∀ acc : List (Nat × Nat), x ∉ acc.map (·.1) →
    setW acc x w = addW acc x w := by
  intro acc
  induction acc with
  | nil => intro _; rfl
  | cons a r ih =>
    obtain ⟨xa, va⟩ := a
    intro h
    simp only [List.map_cons, List.mem_cons, not_or] at h
    have e : ¬ xa = x := fun e => h.1 e.symm
    simp only [setW, addW, e, if_false, ih h.2]

end ObiVerif.Tax
