import ObiVerif.Model.IterMore
import ObiVerif.Lemmas.Iter
/-! # Lemmas on the remaining combinators (C03) -/
namespace ObiVerif.Iter

/-- the windows of `fragWindows` start at `i`, are contiguous up to overlap and end at `L`:
here only what C03 needs — at least one window, hence no record vanishes -/
theorem fragWindows_ne_nil (L length step fuel i : Nat) (hi : i < L) (hf : 0 < fuel) :
    fragWindows L length step fuel i ≠ [] := by
  cases fuel with
  | zero => omega
  | succ f =>
    unfold fragWindows
    simp only [hi, if_true]
    split <;> simp

theorem fragRec_ne_nil (len : Rec → Nat) (sub : Rec → Nat → Nat → Rec) (minsize length overlap : Nat)
    (r : Rec) : fragRec len sub minsize length overlap r ≠ [] := by
  unfold fragRec
  split
  · simp
  · rename_i h
    have hpos : 0 < len r := by omega
    simpa using fragWindows_ne_nil (len r) length (length - overlap) (len r) 0 hpos hpos

/-- an `IsStream` stays one under any re-ordering of its batches (a different push order) -/
theorem IsStream.perm {out arr : List Batch} {N : Nat} {F : List Rec} (h : IsStream out N F)
    (hp : arr.Perm out) : IsStream arr N F := by
  obtain ⟨ks, w, hks, rfl, hF⟩ := h
  have := isStream_of_perm_keyed w N ks hks arr hp
  rwa [hF] at this

theorem map_fst_zip' {α β : Type} (a : List α) (b : List β) (h : a.length = b.length) :
    (a.zip b).map (·.1) = a := by
  induction a generalizing b with
  | nil => simp
  | cons x t ih =>
    cases b with
    | nil => simp at h
    | cons y u => simp [ih u (by simpa using h)]

theorem map_snd_zip' {α β : Type} (a : List α) (b : List β) (h : a.length = b.length) :
    (a.zip b).map (·.2) = b := by
  induction a generalizing b with
  | nil => cases b <;> simp at h ⊢
  | cons x t ih =>
    cases b with
    | nil => simp at h
    | cons y u => simp [ih u (by simpa using h)]

end ObiVerif.Iter
