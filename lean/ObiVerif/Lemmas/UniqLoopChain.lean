import ObiVerif.Lemmas.UniqLoop
import ObiVerif.Lemmas.Uniq
/-!
# The chain of loop-level stages (`stageL`, `ffL`, `terminalsL`) yields exactly the classes of the key

`Classes fs whole T`: every batch of `T` is (a permutation of) a complete class of `whole` under the
classifiers `fs`, and two batches of `T` never hold records of the same class.  Every stage refines this
invariant by its classifier, whatever the state of the classifier when a batch arrives and whatever the
unstable sort does (`stageL_classes`), every chain by all its classifiers (`ffL_classes`), and so does the
set of chains of the workers however the hash chunks are shared out between them (`terminalsL_classes`).
`class_output`: the merge of a permutation of the class of a key is an `IsOutput` record of that key.
-/
namespace ObiVerif.Uniq

theorem same_symm (fs : List (Rec → Code)) (a a' : Rec) : same fs a a' = same fs a' a := by
  unfold same
  apply decide_eq_decide.mpr
  constructor <;> (intro h g hg; exact (h g hg).symm)

theorem same_trans_left {fs : List (Rec → Code)} {x y : Rec} (h : same fs y x = true) (r : Rec) :
    same fs y r = same fs x r := by
  have h' := same_iff.mp h
  unfold same
  apply decide_eq_decide.mpr
  constructor
  · intro hh g hg; rw [hh g hg, h' g hg]
  · intro hh g hg; rw [hh g hg, ← h' g hg]

theorem same_mono {fs fs' : List (Rec → Code)} (hsub : ∀ g ∈ fs, g ∈ fs') {a a' : Rec}
    (h : same fs a a' = false) : same fs' a a' = false := by
  rw [same_false_iff] at h ⊢
  intro hh; exact h fun g hg => hh g (hsub g hg)

theorem same_congr_mem {fs fs' : List (Rec → Code)} (h : ∀ g, g ∈ fs ↔ g ∈ fs') : same fs = same fs' := by
  funext x r
  unfold same
  apply decide_eq_decide.mpr
  constructor
  · intro hh g hg; exact hh g ((h g).mpr hg)
  · intro hh g hg; exact hh g ((h g).mp hg)

structure Classes (fs : List (Rec → Code)) (whole : List Rec) (T : List (List Rec)) : Prop where
  cls : ∀ t ∈ T, ∃ x ∈ t, t.Perm (whole.filter (same fs x))
  sep : T.Pairwise (fun t t' => ∀ a ∈ t, ∀ a' ∈ t', same fs a a' = false)

theorem sepSymm {fs : List (Rec → Code)} {t t' : List Rec}
    (h : ∀ a ∈ t, ∀ a' ∈ t', same fs a a' = false) : ∀ a ∈ t', ∀ a' ∈ t, same fs a a' = false :=
  fun a ha a' ha' => by rw [same_symm]; exact h a' ha' a ha

theorem Classes.ne_nil {fs whole T} (h : Classes fs whole T) : ∀ t ∈ T, t ≠ [] := by
  intro t ht e
  obtain ⟨x, hx, _⟩ := h.cls t ht
  simp [e] at hx

theorem Classes.sublist {fs whole T T'} (h : Classes fs whole T) (hs : T'.Sublist T) : Classes fs whole T' :=
  ⟨fun t ht => h.cls t (hs.subset ht), h.sep.sublist hs⟩

/-- a sub-batch of `b` under `f`, `b` being a class under `gs`, is a class under `f :: gs` -/
theorem cls_refine (f : Rec → Code) (gs : List (Rec → Code)) (whole b t : List Rec) (x0 x : Rec)
    (hb : b.Perm (whole.filter (same gs x0))) (hx : x ∈ b) (ht : t.Perm (b.filter (same [f] x))) :
    t.Perm (whole.filter (same (f :: gs) x)) := by
  refine ht.trans ((hb.filter _).trans ?_)
  rw [List.filter_filter]
  apply List.Perm.of_eq
  apply List.filter_congr
  intro r _
  have hx0 : same gs x0 x = true := (List.mem_filter.mp (hb.mem_iff.mp hx)).2
  rw [same_cons, same_trans_left hx0 r]
  simp [same]

theorem stageL_classes (kind : Kind) (f : Rec → Code) (srt : Sorter) (hs : ValidSorter srt)
    (gs : List (Rec → Code)) (whole : List Rec) : ∀ (bs : List (List Rec)) (st : ClsSt),
    Classes gs whole bs →
    Classes (f :: gs) whole (stageL kind f srt st bs) ∧
    (∀ t ∈ stageL kind f srt st bs, ∃ b ∈ bs, ∀ a ∈ t, a ∈ b) ∧
    (stageL kind f srt st bs).flatten.Perm bs.flatten := by
  intro bs
  induction bs with
  | nil => intro st _; exact ⟨⟨by simp [stageL], by simp [stageL]⟩, by simp [stageL], by simp [stageL]⟩
  | cons b bs' ih =>
    intro st hC
    have hbne : b ≠ [] := hC.ne_nil b (by simp)
    have hS := subChunkL_specP kind f srt hs st b hbne
    have hC' : Classes gs whole bs' := hC.sublist (List.sublist_cons_self _ _)
    obtain ⟨i1, i2, i3⟩ := ih (subChunkL kind f srt st b).1 hC'
    obtain ⟨x0, _, hb0⟩ := hC.cls b (by simp)
    have hcross := (List.pairwise_cons.mp hC.sep).1
    simp only [stageL]
    refine ⟨⟨?_, ?_⟩, ?_, ?_⟩
    · intro t ht
      rcases List.mem_append.mp ht with ht | ht
      · obtain ⟨x, hx, hp⟩ := hS.cls t ht
        exact ⟨x, hx, cls_refine f gs whole b t x0 x hb0 (hS.sub t ht x hx) hp⟩
      · exact i1.cls t ht
    · rw [List.pairwise_append]
      refine ⟨?_, i1.sep, ?_⟩
      · refine List.Pairwise.imp ?_ hS.sep
        intro t t' h a ha a' ha'
        exact same_mono (fs := [f]) (by intro g hg; simp at hg; simp [hg]) (h a ha a' ha')
      · intro t ht t' ht' a ha a' ha'
        obtain ⟨b', hb', hsub⟩ := i2 t' ht'
        have := hcross b' hb' a (hS.sub t ht a ha) a' (hsub a' ha')
        exact same_mono (fun g hg => List.mem_cons_of_mem _ hg) this
    · intro t ht
      rcases List.mem_append.mp ht with ht | ht
      · exact ⟨b, by simp, hS.sub t ht⟩
      · obtain ⟨b', hb', hsub⟩ := i2 t ht
        exact ⟨b', List.mem_cons_of_mem _ hb', hsub⟩
    · rw [List.flatten_append, List.flatten_cons]
      exact hS.perm.append i3

theorem filter_len_perm (out : List (List Rec)) :
    (out.filter (fun sb => decide (sb.length = 1)) ++ out.filter (fun sb => decide (¬ sb.length = 1))).Perm out := by
  have p2 := List.filter_append_perm (fun sb : List Rec => decide (sb.length = 1)) out
  have e : (fun sb : List Rec => !decide (sb.length = 1)) = (fun sb => decide (¬ sb.length = 1)) := by
    funext r; simp
  rw [e] at p2
  exact p2

/-- a batch of one record that is a class under `fs` is a class under any larger list of classifiers -/
theorem single_refine {fs fs' : List (Rec → Code)} (hsub : ∀ g ∈ fs, g ∈ fs') (whole : List Rec) (x : Rec)
    (h : [x].Perm (whole.filter (same fs x))) : [x].Perm (whole.filter (same fs' x)) := by
  have e : whole.filter (same fs' x) = (whole.filter (same fs x)).filter (same fs' x) := by
    rw [List.filter_filter]
    apply List.filter_congr
    intro r _
    by_cases hr : same fs' x r = true
    · have : same fs x r = true := same_iff.mpr fun g hg => same_iff.mp hr g (hsub g hg)
      simp [hr, this]
    · simp [hr]
  rw [e]
  have := h.filter (same fs' x)
  simpa [same_refl] using this

theorem ffL_classes (srt : Sorter) (hs : ValidSorter srt) (whole : List Rec) :
    ∀ (cs : List Level) (c : Level) (gs : List (Rec → Code)) (bs : List (List Rec)),
    Classes gs whole bs →
    Classes (c.2 :: cs.map (·.2) ++ gs) whole (ffL srt c cs bs) ∧
    (∀ t ∈ ffL srt c cs bs, ∃ b ∈ bs, ∀ a ∈ t, a ∈ b) ∧
    (ffL srt c cs bs).flatten.Perm bs.flatten := by
  intro cs
  induction cs with
  | nil =>
    intro c gs bs hC
    simpa [ffL] using stageL_classes c.1 c.2 srt hs gs whole bs .init hC
  | cons c' cs' ih =>
    intro c gs bs hC
    obtain ⟨s1, s2, s3⟩ := stageL_classes c.1 c.2 srt hs gs whole bs .init hC
    simp only [ffL]
    generalize stageL c.1 c.2 srt .init bs = out at s1 s2 s3 ⊢
    have hrest : Classes (c.2 :: gs) whole (out.filter (fun sb => decide (¬ sb.length = 1))) :=
      s1.sublist List.filter_sublist
    obtain ⟨i1, i2, i3⟩ := ih c' (c.2 :: gs) _ hrest
    have hF : same (c'.2 :: cs'.map (·.2) ++ (c.2 :: gs)) = same (c.2 :: (c' :: cs').map (·.2) ++ gs) := by
      apply same_congr_mem
      intro g
      simp only [List.map_cons, List.cons_append, List.mem_cons, List.mem_append]
      constructor <;> (intro h; rcases h with h | h | h | h <;> simp [h])
    have hsubF : ∀ g ∈ c.2 :: gs, g ∈ c.2 :: (c' :: cs').map (·.2) ++ gs := by
      intro g hg
      rcases List.mem_cons.mp hg with e | e
      · simp [e]
      · simp [e]
    have hsepAll : (out.filter (fun sb => decide (sb.length = 1)) ++
        out.filter (fun sb => decide (¬ sb.length = 1))).Pairwise
        (fun t t' => ∀ a ∈ t, ∀ a' ∈ t', same (c.2 :: gs) a a' = false) :=
      ((filter_len_perm out).pairwise_iff (fun h => sepSymm h)).mpr s1.sep
    rw [List.pairwise_append] at hsepAll
    obtain ⟨_, _, hcross⟩ := hsepAll
    refine ⟨⟨?_, ?_⟩, ?_, ?_⟩
    · intro t ht
      rcases List.mem_append.mp ht with ht | ht
      · have hto := (List.mem_filter.mp ht).1
        have hlen : t.length = 1 := by simpa using (List.mem_filter.mp ht).2
        obtain ⟨x, hx, hp⟩ := s1.cls t hto
        match t, hlen with
        | [y], _ =>
          simp only [List.mem_singleton] at hx
          subst hx
          exact ⟨x, by simp, single_refine hsubF whole x hp⟩
      · obtain ⟨x, hx, hp⟩ := i1.cls t ht
        rw [hF] at hp
        exact ⟨x, hx, hp⟩
    · rw [List.pairwise_append]
      refine ⟨?_, ?_, ?_⟩
      · refine List.Pairwise.imp ?_ (s1.sep.filter _)
        intro t t' h a ha a' ha'
        exact same_mono hsubF (h a ha a' ha')
      · have := i1.sep
        rw [hF] at this
        exact this
      · intro t ht t' ht' a ha a' ha'
        obtain ⟨r, hr, hsub⟩ := i2 t' ht'
        exact same_mono hsubF (hcross t ht r hr a ha a' (hsub a' ha'))
    · intro t ht
      rcases List.mem_append.mp ht with ht | ht
      · exact s2 t (List.mem_filter.mp ht).1
      · obtain ⟨r, hr, hsub⟩ := i2 t ht
        obtain ⟨b, hb, hsub'⟩ := s2 r (List.mem_filter.mp hr).1
        exact ⟨b, hb, fun a ha => hsub' a (hsub a ha)⟩
    · rw [List.flatten_append]
      have p1 : ((out.filter (fun sb => decide (sb.length = 1))).flatten ++
          (ffL srt c' cs' (out.filter (fun sb => decide (¬ sb.length = 1)))).flatten).Perm
          (out.filter (fun sb => decide (sb.length = 1)) ++
            out.filter (fun sb => decide (¬ sb.length = 1))).flatten := by
        rw [List.flatten_append]
        exact List.Perm.append_left _ i3
      exact p1.trans ((filter_len_perm out).flatten.trans s3)

theorem perm_flatMap_flatten2 (G : List (List (List Rec))) (T : List (List Rec) → List (List Rec))
    (h : ∀ g ∈ G, (T g).flatten.Perm g.flatten) : (G.flatMap T).flatten.Perm G.flatten.flatten := by
  induction G with
  | nil => simp
  | cons g G' ih =>
    simp only [List.flatMap_cons, List.flatten_append, List.flatten_cons]
    exact List.Perm.append (h g (by simp)) (ih fun g' hg' => h g' (List.mem_cons_of_mem _ hg'))

/-- the hash chunks, shared out between the workers: up to the order of the chunks and of the records inside
a chunk, the partition of the input by hash code -/
def ChunksOK (h : Seq → Nat) (input : List Rec) (ws : List (List (List Rec))) : Prop :=
  SpecP [hashC h] input ws.flatten

/-- **the loop-level pipeline delivers exactly the classes of the key to the merge stage**: for every
sort, every way the chunks are shared out between the workers (and every order in which they arrive), every
batch that reaches `iUnique` is a permutation of the class of a key, no two of them have the same key, and
together they hold every input record exactly once -/
theorem terminalsL_classes (srt : Sorter) (hs : ValidSorter srt) (h : Seq → Nat) (o : Opts)
    (input : List Rec) (ws : List (List (List Rec))) (hws : ChunksOK h input ws) :
    (∀ t ∈ terminalsL srt o ws, ∃ x ∈ t, t.Perm (classOf o input (key o x))) ∧
    (terminalsL srt o ws).Pairwise (fun t t' => ∀ a ∈ t, ∀ a' ∈ t', key o a ≠ key o a') ∧
    (terminalsL srt o ws).flatten.Perm input := by
  have hC : Classes [hashC h] input ws.flatten := ⟨hws.cls, hws.sep⟩
  have hw : ∀ w ∈ ws, Classes [hashC h] input w := by
    intro w hw
    refine ⟨fun b hb => hC.cls b (List.mem_flatten.mpr ⟨w, hw, hb⟩), ?_⟩
    exact (List.pairwise_flatten.mp hC.sep).1 w hw
  have hmap : (catLs o).map (·.2) = catCs o := by simp [catLs, List.map_map, Function.comp_def]
  have hF : same (seqC :: (catLs o).map (·.2) ++ [hashC h]) = same (hashC h :: seqC :: catCs o) := by
    apply same_congr_mem
    intro g
    rw [hmap]
    simp only [List.cons_append, List.mem_cons, List.mem_append, List.mem_singleton, List.not_mem_nil,
      or_false]
    constructor <;> (intro h; rcases h with h | h | h <;> simp [h])
  have hchain := fun w hw' => ffL_classes srt hs input (catLs o) (Kind.seq, seqC) [hashC h] w (hw w hw')
  have hkey : ∀ x, input.filter (same (hashC h :: seqC :: catCs o) x) = classOf o input (key o x) := by
    intro x; unfold classOf; apply List.filter_congr; intro r _; exact same_key h o x r
  refine ⟨?_, ?_, ?_⟩
  · intro t ht
    obtain ⟨w, hw', htw⟩ := List.mem_flatMap.mp ht
    obtain ⟨x, hx, hp⟩ := (hchain w hw').1.cls t htw
    refine ⟨x, hx, ?_⟩
    have e : (Kind.seq, seqC).2 = seqC := rfl
    rw [e, hF, hkey] at hp
    exact hp
  · have hsep : (terminalsL srt o ws).Pairwise
        (fun t t' => ∀ a ∈ t, ∀ a' ∈ t', same (hashC h :: seqC :: catCs o) a a' = false) := by
      unfold terminalsL
      rw [List.pairwise_flatMap]
      constructor
      · intro w hw'
        have := (hchain w hw').1.sep
        have e : (Kind.seq, seqC).2 = seqC := rfl
        rw [e, hF] at this
        exact this
      · refine List.Pairwise.imp_of_mem ?_ (List.pairwise_flatten.mp hC.sep).2
        intro w w' hw1 hw2 hh t ht t' ht' a ha a' ha'
        obtain ⟨b, hb, hsub⟩ := (hchain w hw1).2.1 t ht
        obtain ⟨b', hb', hsub'⟩ := (hchain w' hw2).2.1 t' ht'
        have := hh b hb b' hb' a (hsub a ha) a' (hsub' a' ha')
        exact same_mono (by intro g hg; simp at hg; simp [hg]) this
    refine List.Pairwise.imp ?_ hsep
    intro t t' hh a ha a' ha' ek
    have := hh a ha a' ha'
    rw [same_key, ek.symm] at this
    simp at this
  · unfold terminalsL
    exact (perm_flatMap_flatten2 ws _ fun w hw' => (hchain w hw').2.2).trans hws.perm

/-- the chunks `group (hashC h) input` (what `Distribute` makes), in any order, shared out in any way -/
theorem chunksOK_of_perm (h : Seq → Nat) (input : List Rec) (ws : List (List (List Rec)))
    (hp : ws.flatten.Perm (group (hashC h) input)) : ChunksOK h input ws := by
  have S := (group_spec (hashC h) input).toP
  exact ⟨fun t ht => S.cls t (hp.mem_iff.mp ht),
    (hp.pairwise_iff (fun hh => sepSymm hh)).mpr S.sep, hp.flatten.trans S.perm⟩

/-! ## the merge of a permuted class -/

theorem class_output (o : Opts) (input : List Rec) (hnd : o.stats.Nodup)
    (hc : ∀ r ∈ input, 1 ≤ r.count) (hwf : ∀ r ∈ input, r.WF) (t : List Rec) (x : Rec) (hx : x ∈ t)
    (hp : t.Perm (classOf o input (key o x))) :
    ∃ out, mergeClass o.na o.stats t = some out ∧ IsOutput o input out ∧
      key o out = key o x ∧ out.count = total t := by
  have hmem : ∀ a ∈ t, a ∈ input ∧ key o a = key o x := by
    intro a ha
    have := hp.mem_iff.mp ha
    simpa [classOf] using List.mem_filter.mp this
  cases t with
  | nil => simp at hx
  | cons r rs =>
    have hr := hmem r (by simp)
    obtain ⟨out, hout, s1, s2, s3, s4, s5, _⟩ :=
      mergeClass_spec o.na o.stats hnd r rs (hc r hr.1)
    have hkey : key o out = key o r := by
      rw [key_eq_iff]
      refine ⟨s1, fun c _ => ?_⟩
      show (out.attrs.lookup c).getD o.na = (r.attrs.lookup c).getD o.na
      rw [s4]
      apply value_filter r.attrs (hwf r hr.1) rs c o.na
      intro t' ht'
      have h1 := (hmem t' (List.mem_cons_of_mem _ ht')).2
      rw [← hr.2, key_eq_iff] at h1
      exact h1.2 c ‹_›
    have hkx : key o out = key o x := hkey.trans hr.2
    have hp' : (r :: rs).Perm (classOf o input (key o out)) := by rw [hkx]; exact hp
    refine ⟨out, hout, ⟨?_, ?_, ?_, ?_, ?_⟩, hkx, s3⟩
    · exact ⟨r, hp'.mem_iff.mp (by simp), s2, s1⟩
    · rw [s3]; exact total_perm hp'
    · intro k hk
      obtain ⟨m, hm, hw⟩ := s5 k hk
      exact ⟨m, hm, fun v => by rw [hw v]; exact contribSum_perm o.na k hp' v⟩
    · intro kv
      have e : (∀ r' ∈ classOf o input (key o out), r'.attrs.lookup kv.1 = some kv.2) ↔
          ∀ r' ∈ r :: rs, r'.attrs.lookup kv.1 = some kv.2 :=
        ⟨fun hh r' hr' => hh r' (hp'.mem_iff.mp hr'), fun hh r' hr' => hh r' (hp'.mem_iff.mpr hr')⟩
      rw [e, s4]
      simp only [List.mem_filter, List.all_eq_true, beq_iff_eq, List.mem_cons, forall_eq_or_imp]
      rw [lookup_iff_mem_of_nodup r.attrs (hwf r hr.1)]
    · show (out.attrs.map (·.1)).Nodup
      rw [s4]
      exact List.Nodup.sublist (List.Sublist.map _ List.filter_sublist) (hwf r hr.1)

end ObiVerif.Uniq
