import ObiVerif.Props.C03
import ObiVerif.Lemmas.Chunk
/-!
# Paired reading (property C01): `a.PairTo(b)` on the two streams delivered by the readers

`PairTo` (modelled and proved by C03: `pairTo`, `pairTo_spec`, over records named by natural numbers) sorts
both streams, re-batches them to the same size and zips them.  Here the records of a delivered stream are named
by their **rank** in that stream (`ranks`): whatever the batch boundaries of the two streams (they depend on the
read buffers and on where the chunk reader cut each file) and whatever the order in which the batches reach
`PairTo`, the pairs are `(i, i)`, in order, numbered `0, 1, 2, …`.
-/
namespace ObiVerif.Paired
open ObiVerif.Iter

/-- the batches `bs` with every record replaced by its rank in the stream (`off` = rank of the first one) -/
def ranks {α : Type} : Nat → List (List α) → List (List Nat)
  | _, [] => []
  | off, b :: bs => List.range' off b.length :: ranks (off + b.length) bs

theorem ranks_length {α : Type} : ∀ (off : Nat) (bs : List (List α)), (ranks off bs).length = bs.length
  | _, [] => rfl
  | off, b :: bs => by simp [ranks, ranks_length (off + b.length) bs]

theorem ranks_lengths {α : Type} : ∀ (off : Nat) (bs : List (List α)),
    (ranks off bs).map List.length = bs.map List.length
  | _, [] => rfl
  | off, b :: bs => by simp [ranks, ranks_lengths (off + b.length) bs]

theorem ranks_flatten {α : Type} : ∀ (off : Nat) (bs : List (List α)),
    (ranks off bs).flatten = List.range' off bs.flatten.length
  | _, [] => by simp [ranks]
  | off, b :: bs => by
    simp only [ranks, List.flatten_cons, List.length_append, ranks_flatten (off + b.length) bs]
    rw [List.range'_append_1]

theorem zip_self {α : Type} : ∀ (l : List α), l.zip l = l.map fun i => (i, i)
  | [] => rfl
  | a :: l => by simp [zip_self l]

/-- the input of `PairTo`, as `pairTo_spec` wants it -/
theorem inFlat_ranks {α : Type} (bs : List (List α)) :
    ObiVerif.Props.C03.inFlat (fun k => (ranks 0 bs).getD k []) bs.length = List.range bs.flatten.length := by
  unfold ObiVerif.Props.C03.inFlat
  have h := ObiVerif.Chunk.range_map_getD (ranks 0 bs) [] (fun x => x)
  rw [ranks_length] at h
  rw [List.flatMap_def, h, List.map_id', ranks_flatten, List.range_eq_range']

/-- **pairs are `(i, i)`**: two delivered streams `A`, `B` with the same number of records, any batch
boundaries, any arrival orders `ka`, `kb` of the numbered batches at `PairTo`, any batch size -/
theorem paired_ranks {α β : Type} (size : Nat) (hsize : 0 < size) (A : List (List α)) (B : List (List β))
    (hlen : A.flatten.length = B.flatten.length)
    (ka : List Nat) (hpa : ka.Perm (List.range A.length)) (kb : List Nat) (hpb : kb.Perm (List.range B.length)) :
    let out := pairTo size (ka.map fun k => (k, (ranks 0 A).getD k [])) (kb.map fun k => (k, (ranks 0 B).getD k []))
    out.map (·.1) = List.range out.length ∧
    out.flatMap (·.2) = (List.range A.flatten.length).map fun i => (i, i) := by
  intro out
  have h := ObiVerif.Props.C03.pairTo_spec size hsize (fun k => (ranks 0 A).getD k []) A.length ka hpa
    (fun k => (ranks 0 B).getD k []) B.length kb hpb (by rw [inFlat_ranks, inFlat_ranks]; simp [hlen])
  refine ⟨h.1, ?_⟩
  have h2 := h.2
  rw [inFlat_ranks, inFlat_ranks, ← hlen, zip_self] at h2
  exact h2

end ObiVerif.Paired
