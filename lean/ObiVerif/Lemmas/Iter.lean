import ObiVerif.Model.Iter
import ObiVerif.Lemmas.Reseq
/-! # Lemmas on the stream combinators of `Model/Iter.lean` (C03) -/
namespace ObiVerif.Iter
open ObiVerif.Reseq

/-- size discipline of a re-batched stream: no empty batch, none above `size`, all but the last full -/
def Sized (size : Nat) (out : List Batch) : Prop :=
  (∀ b ∈ out, 0 < b.2.length ∧ b.2.length ≤ size) ∧
  ∀ i (h : i + 1 < out.length), (out[i]).2.length = size

theorem length_of_keys {out : List Batch} {c : Nat} (h : out.map (·.1) = List.range c) :
    out.length = c := by
  have := congrArg List.length h
  simpa using this

theorem keys_range_length {out : List Batch} {c : Nat} (h : out.map (·.1) = List.range c) :
    out.map (·.1) = List.range out.length := by
  rw [length_of_keys h]; exact h

theorem flatten_append (a b : List Batch) : flatten (a ++ b) = flatten a ++ flatten b := by
  simp [flatten]

theorem flatten_nil : flatten [] = [] := rfl

theorem flatten_single (k : Nat) (l : List Rec) : flatten [(k, l)] = l := by
  simp [flatten]

/-! ## Pool -/

theorem pool_fold (arr out : List Batch) (c : Nat) (h : out.map (·.1) = List.range c) :
    ((arr.foldl (fun (st : List Batch × Nat) (b : Batch) => (st.1 ++ [(st.2, b.2)], st.2 + 1))
        (out, c)).1.map (·.1) =
      List.range (arr.foldl (fun (st : List Batch × Nat) (b : Batch) => (st.1 ++ [(st.2, b.2)], st.2 + 1))
        (out, c)).2) ∧
    flatten (arr.foldl (fun (st : List Batch × Nat) (b : Batch) => (st.1 ++ [(st.2, b.2)], st.2 + 1))
        (out, c)).1 = flatten out ++ arr.flatMap (·.2) := by
  induction arr generalizing out c with
  | nil => simp [h]
  | cons b t ih =>
    simp only [List.foldl_cons]
    have h' : (out ++ [(c, b.2)]).map (·.1) = List.range (c + 1) := by
      simp [h, List.range_succ]
    have := ih (out ++ [(c, b.2)]) (c + 1) h'
    refine ⟨this.1, ?_⟩
    rw [this.2, flatten_append, flatten_single]
    simp

theorem pool_keys_flat (arr : List Batch) :
    (pool arr).map (·.1) = List.range (pool arr).length ∧ flatten (pool arr) = arr.flatMap (·.2) := by
  have := pool_fold arr [] 0 (by simp)
  refine ⟨keys_range_length this.1, ?_⟩
  have h2 := this.2
  simpa [flatten_nil] using h2

/-! ## IBatchOver -/

theorem batchOver_aux (size : Nat) (hs : 0 < size) :
    ∀ (fuel : Nat) (data : List Rec) (start : Nat), data.length < fuel →
      (batchOver size fuel data start).map (·.1) =
        List.range' start (batchOver size fuel data start).length ∧
      flatten (batchOver size fuel data start) = data ∧
      Sized size (batchOver size fuel data start) ∧
      ((batchOver size fuel data start) = [] → data = []) := by
  intro fuel
  induction fuel with
  | zero => intro data start h; omega
  | succ fuel ih =>
    intro data start hlen
    unfold batchOver
    cases data with
    | nil => simp [flatten, Sized]
    | cons a t =>
      have hdrop : ((a :: t).drop size).length < fuel := by
        simp only [List.length_drop, List.length_cons] at *
        omega
      obtain ⟨ih1, ih2, ih3, ih4⟩ := ih ((a :: t).drop size) (start + 1) hdrop
      simp only [List.isEmpty_cons, Bool.false_eq_true, ↓reduceIte]
      refine ⟨?_, ?_, ?_, by simp⟩
      · simp only [List.map_cons, List.length_cons, List.range'_succ]
        rw [ih1]
      · show flatten ((start, (a :: t).take size) :: _) = _
        have : flatten ((start, (a :: t).take size) :: batchOver size fuel ((a :: t).drop size) (start + 1))
            = (a :: t).take size ++ flatten (batchOver size fuel ((a :: t).drop size) (start + 1)) := by
          simp [flatten]
        rw [this, ih2, List.take_append_drop]
      · constructor
        · intro b hb
          simp only [List.mem_cons] at hb
          rcases hb with hb | hb
          · subst hb
            simp only [List.length_take, List.length_cons]
            omega
          · exact ih3.1 b hb
        · intro i hi
          cases i with
          | zero =>
            simp only [List.getElem_cons_zero, List.length_take, List.length_cons]
            have hne : batchOver size fuel ((a :: t).drop size) (start + 1) ≠ [] := by
              intro h0; rw [h0] at hi; simp at hi
            have hd : (a :: t).drop size ≠ [] := fun h0 => hne (by
              rw [h0]; cases fuel <;> simp [batchOver])
            have : 0 < ((a :: t).drop size).length := List.length_pos_iff.mpr hd
            simp only [List.length_drop, List.length_cons] at this
            omega
          | succ j =>
            simp only [List.getElem_cons_succ]
            apply ih3.2
            simp only [List.length_cons] at hi
            omega

end ObiVerif.Iter
