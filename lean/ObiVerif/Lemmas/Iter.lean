import ObiVerif.Model.Iter
import ObiVerif.Lemmas.Reseq
/-! # Lemmas on the stream combinators of `Model/Iter.lean` (C03) -/
namespace ObiVerif.Iter
open ObiVerif.Reseq

/-- size discipline of a re-batched stream: no empty batch, none above `size`, all but the last full -/
def Sized (size : Nat) (out : List Batch) : Prop :=
  (∀ b ∈ out, 0 < b.2.length ∧ b.2.length ≤ size) ∧
  ∀ i (h : i + 1 < out.length), (out[i]).2.length = size

theorem length_of_keys {out : List Batch} {c : Nat} (h : out.map (·.1) = List.range c) :
    out.length = c := by
  have := congrArg List.length h
  simpa using this

theorem keys_range_length {out : List Batch} {c : Nat} (h : out.map (·.1) = List.range c) :
    out.map (·.1) = List.range out.length := by
  rw [length_of_keys h]; exact h

theorem flatten_append (a b : List Batch) : flatten (a ++ b) = flatten a ++ flatten b := by
  simp [flatten]

theorem flatten_nil : flatten [] = [] := rfl

theorem flatten_single (k : Nat) (l : List Rec) : flatten [(k, l)] = l := by
  simp [flatten]

/-! ## Pool -/

theorem pool_fold (arr out : List Batch) (c : Nat) (h : out.map (·.1) = List.range c) :
    ((arr.foldl (fun (st : List Batch × Nat) (b : Batch) => (st.1 ++ [(st.2, b.2)], st.2 + 1))
        (out, c)).1.map (·.1) =
      List.range (arr.foldl (fun (st : List Batch × Nat) (b : Batch) => (st.1 ++ [(st.2, b.2)], st.2 + 1))
        (out, c)).2) ∧
    flatten (arr.foldl (fun (st : List Batch × Nat) (b : Batch) => (st.1 ++ [(st.2, b.2)], st.2 + 1))
        (out, c)).1 = flatten out ++ arr.flatMap (·.2) := by
  induction arr generalizing out c with
  | nil => simp [h]
  | cons b t ih =>
    simp only [List.foldl_cons]
    have h' : (out ++ [(c, b.2)]).map (·.1) = List.range (c + 1) := by
      simp [h, List.range_succ]
    have := ih (out ++ [(c, b.2)]) (c + 1) h'
    refine ⟨this.1, ?_⟩
    rw [this.2, flatten_append, flatten_single]
    simp

theorem pool_keys_flat (arr : List Batch) :
    (pool arr).map (·.1) = List.range (pool arr).length ∧ flatten (pool arr) = arr.flatMap (·.2) := by
  have := pool_fold arr [] 0 (by simp)
  refine ⟨keys_range_length this.1, ?_⟩
  have h2 := this.2
  simpa [flatten_nil, pool] using h2

/-! ## IBatchOver -/

theorem batchOver_aux (size : Nat) (hs : 0 < size) :
    ∀ (fuel : Nat) (data : List Rec) (start : Nat), data.length < fuel →
      (batchOver size fuel data start).map (·.1) =
        List.range' start (batchOver size fuel data start).length ∧
      flatten (batchOver size fuel data start) = data ∧
      Sized size (batchOver size fuel data start) ∧
      ((batchOver size fuel data start) = [] → data = []) := by
  intro fuel
  induction fuel with
  | zero => intro data start h; omega
  | succ fuel ih =>
    intro data start hlen
    unfold batchOver
    cases data with
    | nil => simp [flatten, Sized]
    | cons a t =>
      have hdrop : ((a :: t).drop size).length < fuel := by
        simp only [List.length_drop, List.length_cons] at *
        omega
      obtain ⟨ih1, ih2, ih3, ih4⟩ := ih ((a :: t).drop size) (start + 1) hdrop
      simp only [List.isEmpty_cons, Bool.false_eq_true, ↓reduceIte]
      refine ⟨?_, ?_, ?_, by simp⟩
      · simp only [List.map_cons, List.length_cons, List.range'_succ]
        rw [ih1]
      · show flatten ((start, (a :: t).take size) :: _) = _
        have : flatten ((start, (a :: t).take size) :: batchOver size fuel ((a :: t).drop size) (start + 1))
            = (a :: t).take size ++ flatten (batchOver size fuel ((a :: t).drop size) (start + 1)) := by
          simp [flatten]
        rw [this, ih2, List.take_append_drop]
      · constructor
        · intro b hb
          simp only [List.mem_cons] at hb
          rcases hb with hb | hb
          · subst hb
            simp only [List.length_take, List.length_cons]
            omega
          · exact ih3.1 b hb
        · intro i hi
          cases i with
          | zero =>
            simp only [List.getElem_cons_zero, List.length_take, List.length_cons]
            have hne : batchOver size fuel ((a :: t).drop size) (start + 1) ≠ [] := by
              intro h0; rw [h0] at hi; simp at hi
            have hd : (a :: t).drop size ≠ [] := fun h0 => hne (by
              rw [h0]; cases fuel <;> simp [batchOver])
            have : 0 < ((a :: t).drop size).length := List.length_pos_iff.mpr hd
            simp only [List.length_drop, List.length_cons] at this
            omega
          | succ j =>
            simp only [List.getElem_cons_succ]
            apply ih3.2
            simp only [List.length_cons] at hi
            omega

/-! ## The "fill a slice, push it when full" loops (Rebatch, DivideOn, Distribute) -/

/-- result of a re-batching loop: numbered 0,1,…; the records are `data`; size discipline -/
def Chunked (size : Nat) (out : List Batch) (data : List Rec) : Prop :=
  out.map (·.1) = List.range out.length ∧ flatten out = data ∧ Sized size out

/-- loop invariant: `out` pushed so far (all full), next number `order`, current slice `buffer` -/
structure ChunkInv (size : Nat) (out : List Batch) (order : Nat) (buffer data : List Rec) : Prop where
  keys : out.map (·.1) = List.range order
  full : ∀ b ∈ out, b.2.length = size
  room : buffer.length < size
  flat : flatten out ++ buffer = data

theorem chunkInv_init (size : Nat) (hs : 0 < size) : ChunkInv size [] 0 [] [] :=
  ⟨by simp, by simp, by simpa using hs, by simp [flatten]⟩

theorem chunkInv_push {size : Nat} {out : List Batch} {order : Nat} {buffer data : List Rec}
    (h : ChunkInv size out order buffer data) (xs : List Rec)
    (hx : buffer.length + xs.length = size) :
    ChunkInv size (out ++ [(order, buffer ++ xs)]) (order + 1) [] (data ++ xs) := by
  refine ⟨?_, ?_, ?_, ?_⟩
  · simp [h.keys, List.range_succ]
  · intro b hb
    simp only [List.mem_append, List.mem_singleton] at hb
    rcases hb with hb | hb
    · exact h.full b hb
    · subst hb; simp [hx]
  · have := h.room; simp only [List.length_nil]; omega
  · rw [flatten_append, flatten_single, ← h.flat]; simp

theorem chunkInv_keep {size : Nat} {out : List Batch} {order : Nat} {buffer data : List Rec}
    (h : ChunkInv size out order buffer data) (xs : List Rec)
    (hx : buffer.length + xs.length < size) :
    ChunkInv size out order (buffer ++ xs) (data ++ xs) := by
  refine ⟨h.keys, h.full, ?_, ?_⟩
  · simpa using hx
  · rw [← h.flat]; simp

theorem sized_of_full {size : Nat} (hs : 0 < size) {out : List Batch}
    (h : ∀ b ∈ out, b.2.length = size) : Sized size out := by
  constructor
  · intro b hb; rw [h b hb]; exact ⟨hs, Nat.le_refl _⟩
  · intro i hi; exact h _ (List.getElem_mem _)

theorem sized_snoc {size : Nat} (hs : 0 < size) {out : List Batch}
    (h : ∀ b ∈ out, b.2.length = size) (x : Batch) (hx : 0 < x.2.length ∧ x.2.length ≤ size) :
    Sized size (out ++ [x]) := by
  constructor
  · intro b hb
    simp only [List.mem_append, List.mem_singleton] at hb
    rcases hb with hb | hb
    · rw [h b hb]; exact ⟨hs, Nat.le_refl _⟩
    · subst hb; exact hx
  · intro i hi
    simp only [List.length_append, List.length_singleton] at hi
    have hi' : i < out.length := by omega
    rw [List.getElem_append_left hi']
    exact h _ (List.getElem_mem _)

theorem chunkInv_finish {size : Nat} {out : List Batch} {order : Nat} {buffer data : List Rec}
    (h : ChunkInv size out order buffer data) :
    Chunked size (if buffer.length > 0 then out ++ [(order, buffer)] else out) data := by
  have hs : 0 < size := by have := h.room; omega
  split
  · rename_i hb
    refine ⟨?_, ?_, ?_⟩
    · apply keys_range_length (c := order + 1)
      simp [h.keys, List.range_succ]
    · rw [flatten_append, flatten_single]; exact h.flat
    · exact sized_snoc hs h.full _ ⟨hb, Nat.le_of_lt h.room⟩
  · rename_i hb
    have hnil : buffer = [] := by
      cases buffer with
      | nil => rfl
      | cons a t => simp at hb
    refine ⟨keys_range_length h.keys, ?_, sized_of_full hs h.full⟩
    have := h.flat
    rw [hnil] at this
    simpa using this

theorem rebatchFill_inv (size : Nat) :
    ∀ (fuel : Nat) (seqs : List Rec) (order : Nat) (buffer : List Rec) (out : List Batch)
      (data : List Rec), ChunkInv size out order buffer data → seqs.length ≤ fuel →
      ChunkInv size (rebatchFill size fuel seqs order buffer out).1
        (rebatchFill size fuel seqs order buffer out).2.1
        (rebatchFill size fuel seqs order buffer out).2.2 (data ++ seqs) := by
  intro fuel
  induction fuel with
  | zero =>
    intro seqs order buffer out data h hl
    have : seqs = [] := List.length_eq_zero_iff.mp (by omega)
    subst this
    simpa [rebatchFill] using h
  | succ fuel ih =>
    intro seqs order buffer out data h hl
    cases seqs with
    | nil => simpa [rebatchFill] using h
    | cons a t =>
      have hroom := h.room
      rw [rebatchFill]
      simp only [List.isEmpty_cons, Bool.false_eq_true, ↓reduceIte]
      generalize hk : min (a :: t).length (size - buffer.length) = k
      have hk1 : 0 < k := by simp only [List.length_cons] at hk; omega
      have hk2 : k ≤ (a :: t).length := by omega
      have hk3 : buffer.length + k ≤ size := by omega
      have htake : ((a :: t).take k).length = k := by
        rw [List.length_take]; omega
      have hdrop : ((a :: t).drop k).length ≤ fuel := by
        rw [List.length_drop]; simp only [List.length_cons] at hl hk2 ⊢; omega
      have hdata : data ++ (a :: t) = (data ++ (a :: t).take k) ++ (a :: t).drop k := by
        rw [List.append_assoc, List.take_append_drop]
      rw [hdata]
      split
      · rename_i hfull
        apply ih _ _ _ _ _ _ hdrop
        apply chunkInv_push h
        rw [htake]
        simpa [htake] using hfull
      · rename_i hfull
        apply ih _ _ _ _ _ _ hdrop
        apply chunkInv_keep h
        rw [htake]
        have : buffer.length + k ≠ size := by simpa [htake] using hfull
        omega

/-- the fold of `Rebatch` over already sorted batches -/
theorem rebatch_fold_inv (size : Nat) (bs : List Batch) :
    ∀ (out : List Batch) (order : Nat) (buffer data : List Rec),
      ChunkInv size out order buffer data →
      ChunkInv size
        (bs.foldl (fun (st : List Batch × Nat × List Rec) (b : Batch) =>
          rebatchFill size (b.2.length + 1) b.2 st.2.1 st.2.2 st.1) (out, order, buffer)).1
        (bs.foldl (fun (st : List Batch × Nat × List Rec) (b : Batch) =>
          rebatchFill size (b.2.length + 1) b.2 st.2.1 st.2.2 st.1) (out, order, buffer)).2.1
        (bs.foldl (fun (st : List Batch × Nat × List Rec) (b : Batch) =>
          rebatchFill size (b.2.length + 1) b.2 st.2.1 st.2.2 st.1) (out, order, buffer)).2.2
        (data ++ flatten bs) := by
  induction bs with
  | nil => intro out order buffer data h; simpa [flatten] using h
  | cons b t ih =>
    intro out order buffer data h
    simp only [List.foldl_cons]
    have h1 := rebatchFill_inv size (b.2.length + 1) b.2 order buffer out data h (by omega)
    have h2 := ih _ _ _ _ h1
    have e : data ++ flatten (b :: t) = data ++ b.2 ++ flatten t := by
      simp [flatten]
    rw [e]
    exact h2

/-- `Rebatch` of a stream whose sorted form is `bs` -/
theorem rebatch_chunked (size : Nat) (hs : 0 < size) (arr : List Batch) :
    Chunked size (rebatch size arr) (flatten (sortBatches arr)) := by
  have h := rebatch_fold_inv size (sortBatches arr) [] 0 [] [] (chunkInv_init size hs)
  simp only [List.nil_append] at h
  unfold rebatch
  exact chunkInv_finish h

/-! ## FilterEmpty -/

theorem filterEmpty_fold (bs : List Batch) :
    ∀ (out : List Batch) (c : Nat), out.map (·.1) = List.range c → (∀ b ∈ out, b.2 ≠ []) →
      ((bs.foldl (fun (st : List Batch × Nat) (b : Batch) =>
          if b.2.length > 0 then (st.1 ++ [(st.2, b.2)], st.2 + 1) else st) (out, c)).1.map (·.1) =
        List.range (bs.foldl (fun (st : List Batch × Nat) (b : Batch) =>
          if b.2.length > 0 then (st.1 ++ [(st.2, b.2)], st.2 + 1) else st) (out, c)).2) ∧
      flatten (bs.foldl (fun (st : List Batch × Nat) (b : Batch) =>
          if b.2.length > 0 then (st.1 ++ [(st.2, b.2)], st.2 + 1) else st) (out, c)).1 =
        flatten out ++ flatten bs ∧
      ∀ b ∈ (bs.foldl (fun (st : List Batch × Nat) (b : Batch) =>
          if b.2.length > 0 then (st.1 ++ [(st.2, b.2)], st.2 + 1) else st) (out, c)).1, b.2 ≠ [] := by
  induction bs with
  | nil => intro out c h hne; exact ⟨by simpa using h, by simp [flatten], by simpa using hne⟩
  | cons b t ih =>
    intro out c h hne
    simp only [List.foldl_cons]
    by_cases hb : b.2.length > 0
    · simp only [hb, ↓reduceIte]
      have h' : (out ++ [(c, b.2)]).map (·.1) = List.range (c + 1) := by
        simp [h, List.range_succ]
      have hne' : ∀ x ∈ out ++ [(c, b.2)], x.2 ≠ [] := by
        intro x hx
        simp only [List.mem_append, List.mem_singleton] at hx
        rcases hx with hx | hx
        · exact hne x hx
        · subst hx; exact List.ne_nil_of_length_pos hb
      obtain ⟨i1, i2, i3⟩ := ih _ _ h' hne'
      refine ⟨i1, ?_, i3⟩
      rw [i2, flatten_append, flatten_single]
      simp [flatten]
    · simp only [hb, ↓reduceIte]
      obtain ⟨i1, i2, i3⟩ := ih _ _ h hne
      refine ⟨i1, ?_, i3⟩
      have : b.2 = [] := by
        cases hb2 : b.2 with
        | nil => rfl
        | cons a t => rw [hb2] at hb; simp at hb
      rw [i2]
      simp [flatten, this]

theorem filterEmpty_keys_flat (arr : List Batch) :
    (filterEmpty arr).map (·.1) = List.range (filterEmpty arr).length ∧
    flatten (filterEmpty arr) = flatten (sortBatches arr) ∧
    ∀ b ∈ filterEmpty arr, b.2 ≠ [] := by
  obtain ⟨h1, h2, h3⟩ := filterEmpty_fold (sortBatches arr) [] 0 (by simp) (by simp)
  refine ⟨keys_range_length h1, ?_, h3⟩
  simpa [flatten_nil, filterEmpty] using h2

/-! ## Distribute -/

theorem distribute_fold_inv (size : Nat) (recs : List Rec) :
    ∀ (out : List Batch) (order : Nat) (buffer data : List Rec),
      ChunkInv size out order buffer data →
      ChunkInv size
        (recs.foldl (fun (st : List Batch × Nat × List Rec) (r : Rec) =>
          let sl := st.2.2 ++ [r]
          if sl.length = size then (st.1 ++ [(st.2.1, sl)], st.2.1 + 1, []) else (st.1, st.2.1, sl))
          (out, order, buffer)).1
        (recs.foldl (fun (st : List Batch × Nat × List Rec) (r : Rec) =>
          let sl := st.2.2 ++ [r]
          if sl.length = size then (st.1 ++ [(st.2.1, sl)], st.2.1 + 1, []) else (st.1, st.2.1, sl))
          (out, order, buffer)).2.1
        (recs.foldl (fun (st : List Batch × Nat × List Rec) (r : Rec) =>
          let sl := st.2.2 ++ [r]
          if sl.length = size then (st.1 ++ [(st.2.1, sl)], st.2.1 + 1, []) else (st.1, st.2.1, sl))
          (out, order, buffer)).2.2
        (data ++ recs) := by
  induction recs with
  | nil => intro out order buffer data h; simpa using h
  | cons r t ih =>
    intro out order buffer data h
    simp only [List.foldl_cons]
    have e : data ++ r :: t = (data ++ [r]) ++ t := by simp
    rw [e]
    have hroom := h.room
    by_cases hf : (buffer ++ [r]).length = size
    · simp only [hf, ↓reduceIte]
      apply ih
      exact chunkInv_push h [r] (by simpa using hf)
    · simp only [hf, ↓reduceIte]
      apply ih
      apply chunkInv_keep h [r]
      simp only [List.length_append, List.length_singleton] at hf ⊢
      omega

theorem distributeKey_chunked (cls : Rec → Nat) (size : Nat) (hs : 0 < size) (key : Nat)
    (arr : List Batch) :
    Chunked size (distributeKey cls size key arr)
      ((flatten (sortBatches arr)).filter (fun r => cls r == key)) := by
  have h := distribute_fold_inv size ((flatten (sortBatches arr)).filter (fun r => cls r == key))
    [] 0 [] [] (chunkInv_init size hs)
  simp only [List.nil_append] at h
  unfold distributeKey
  exact chunkInv_finish h

/-! ## DivideOn -/

structure DivInv (p : Rec → Bool) (size : Nat) (st : DivSt) (data : List Rec) : Prop where
  t : ChunkInv size st.tOut st.tOrder st.tSlice (data.filter p)
  f : ChunkInv size st.fOut st.fOrder st.fSlice (data.filter (fun r => !p r))

theorem divideRec_inv (p : Rec → Bool) (size : Nat) (st : DivSt) (data : List Rec) (s : Rec)
    (h : DivInv p size st data) : DivInv p size (divideRec p size st s) (data ++ [s]) := by
  obtain ⟨tOut, fOut, tOrder, fOrder, tSlice, fSlice⟩ := st
  obtain ⟨ht, hf⟩ := h
  simp only at ht hf
  have htr := ht.room
  have hfr := hf.room
  unfold divideRec
  cases hp : p s
  · have e1 : (data ++ [s]).filter p = data.filter p := by simp [List.filter_append, hp]
    have e2 : (data ++ [s]).filter (fun r => !p r) = data.filter (fun r => !p r) ++ [s] := by
      simp [List.filter_append, hp]
    have hne : ¬ tSlice.length = size := by omega
    simp only [Bool.false_eq_true, ↓reduceIte, hne]
    by_cases hfull : (fSlice ++ [s]).length = size
    · simp only [hfull, ↓reduceIte]
      refine ⟨?_, ?_⟩
      · rw [e1]; exact ht
      · rw [e2]; exact chunkInv_push hf [s] (by simpa using hfull)
    · simp only [hfull, ↓reduceIte]
      refine ⟨?_, ?_⟩
      · rw [e1]; exact ht
      · rw [e2]; apply chunkInv_keep hf [s]
        simp only [List.length_append, List.length_singleton] at hfull ⊢
        omega
  · have e1 : (data ++ [s]).filter p = data.filter p ++ [s] := by simp [List.filter_append, hp]
    have e2 : (data ++ [s]).filter (fun r => !p r) = data.filter (fun r => !p r) := by
      simp [List.filter_append, hp]
    have hne : ¬ fSlice.length = size := by omega
    simp only [↓reduceIte]
    by_cases hfull : (tSlice ++ [s]).length = size
    · simp only [hfull, ↓reduceIte, hne]
      refine ⟨?_, ?_⟩
      · rw [e1]; exact chunkInv_push ht [s] (by simpa using hfull)
      · rw [e2]; exact hf
    · simp only [hfull, ↓reduceIte, hne]
      refine ⟨?_, ?_⟩
      · rw [e1]; apply chunkInv_keep ht [s]
        simp only [List.length_append, List.length_singleton] at hfull ⊢
        omega
      · rw [e2]; exact hf

theorem divide_fold_inv (p : Rec → Bool) (size : Nat) (recs : List Rec) :
    ∀ (st : DivSt) (data : List Rec), DivInv p size st data →
      DivInv p size (recs.foldl (divideRec p size) st) (data ++ recs) := by
  induction recs with
  | nil => intro st data h; simpa using h
  | cons r t ih =>
    intro st data h
    simp only [List.foldl_cons]
    have e : data ++ r :: t = (data ++ [r]) ++ t := by simp
    rw [e]
    exact ih _ _ (divideRec_inv p size st data r h)

theorem divideOn_chunked (p : Rec → Bool) (size : Nat) (hs : 0 < size) (arr : List Batch) :
    Chunked size (divideOn p size arr).1 ((flatten (sortBatches arr)).filter p) ∧
    Chunked size (divideOn p size arr).2 ((flatten (sortBatches arr)).filter (fun r => !p r)) := by
  have h := divide_fold_inv p size (flatten (sortBatches arr)) ⟨[], [], 0, 0, [], []⟩ []
    ⟨by simpa using chunkInv_init size hs, by simpa using chunkInv_init size hs⟩
  simp only [List.nil_append] at h
  unfold divideOn
  exact ⟨chunkInv_finish h.t, chunkInv_finish h.f⟩

/-! ## Streams given by their batch numbers and contents -/

theorem flatMap_congr' {α β : Type} {l : List α} {f g : α → List β} (h : ∀ a ∈ l, f a = g a) :
    l.flatMap f = l.flatMap g := by
  induction l with
  | nil => rfl
  | cons a t ih =>
    simp only [List.flatMap_cons]
    rw [h a (by simp), ih (fun b hb => h b (List.mem_cons_of_mem _ hb))]

theorem foldl_snoc_batch (l acc : List Batch) :
    l.foldl (fun (l : List Batch) (b : Batch) => l ++ [b]) acc = acc ++ l := by
  induction l generalizing acc with
  | nil => simp
  | cons a t ih => simp [ih]

/-- `SortBatches` delivers batch 0, 1, …, n-1 whatever the arrival order -/
theorem sortBatches_keyed (w : Nat → List Rec) (n : Nat) (ks : List Nat) (hp : ks.Perm (List.range n)) :
    sortBatches (ks.map fun k => (k, w k)) = (List.range n).map fun k => (k, w k) := by
  unfold sortBatches
  have h := (run_perm (fun (l : List Batch) (b : Batch) => l ++ [b]) []
    (fun k => ((k, w k) : Batch)) n ks hp).1
  simp only [List.map_map] at h ⊢
  have e : ((fun b : Batch => (b.1, b)) ∘ fun k => (k, w k)) = fun k => (k, ((k, w k) : Batch)) := rfl
  rw [e, h, foldl_snoc_batch]; simp

theorem flatten_keyed (w : Nat → List Rec) (ks : List Nat) :
    flatten (ks.map fun k => (k, w k)) = ks.flatMap w := by
  simp [flatten, List.flatMap_map]

theorem keys_keyed (w : Nat → List Rec) (ks : List Nat) :
    (ks.map fun k => ((k, w k) : Batch)).map (·.1) = ks := by
  simp only [List.map_map]
  exact List.map_id' _

/-- a stream whose numbers are a permutation of `0..N-1` and whose records, in number order, are `F` -/
def IsStream (out : List Batch) (N : Nat) (F : List Rec) : Prop :=
  ∃ (ks : List Nat) (w : Nat → List Rec),
    ks.Perm (List.range N) ∧ (out = ks.map fun k => (k, w k)) ∧ (List.range N).flatMap w = F

theorem isStream_keyed (w : Nat → List Rec) (n : Nat) (ks : List Nat) (hp : ks.Perm (List.range n)) :
    IsStream (ks.map fun k => (k, w k)) n ((List.range n).flatMap w) :=
  ⟨ks, w, hp, rfl, rfl⟩

theorem isStream_nil : IsStream [] 0 [] := ⟨[], fun _ => [], by simp, by simp, by simp⟩

theorem IsStream.keys_perm {out : List Batch} {N : Nat} {F : List Rec} (h : IsStream out N F) :
    (out.map (·.1)).Perm (List.range N) := by
  obtain ⟨ks, w, hp, rfl, _⟩ := h
  rw [keys_keyed]; exact hp

theorem IsStream.sort {out : List Batch} {N : Nat} {F : List Rec} (h : IsStream out N F) :
    (sortBatches out).map (·.1) = List.range (sortBatches out).length ∧
    (sortBatches out).length = N ∧ flatten (sortBatches out) = F := by
  obtain ⟨ks, w, hp, rfl, hF⟩ := h
  rw [sortBatches_keyed w N ks hp]
  refine ⟨?_, by simp, ?_⟩
  · rw [keys_keyed]; simp
  · rw [flatten_keyed]; exact hF

/-- a stream pushed with numbers 0,1,2,… : any permutation of its batches is an `IsStream` -/
theorem numbered_rep (out : List Batch) (h : out.map (·.1) = List.range out.length) :
    ∃ w : Nat → List Rec, out = (List.range out.length).map fun k => (k, w k) := by
  refine ⟨fun k => (out.getD k (0, [])).2, ?_⟩
  apply List.ext_getElem (by simp)
  intro i h1 h2
  have hk := List.getElem_of_eq h (by simpa using h1 : i < (out.map (·.1)).length)
  simp only [List.getElem_map, List.getElem_range] at hk
  simp only [List.getElem_map, List.getElem_range, List.getD_eq_getElem?_getD, List.getElem?_eq_getElem h1,
    Option.getD_some]
  exact Prod.ext hk rfl

theorem keyed_of_perm (w : Nat → List Rec) (ks : List Nat) (arr : List Batch)
    (h : arr.Perm (ks.map fun k => (k, w k))) :
    (arr.map (·.1)).Perm ks ∧ arr = (arr.map (·.1)).map fun k => (k, w k) := by
  constructor
  · have := h.map (·.1)
    rwa [keys_keyed] at this
  · rw [List.map_map]
    conv => lhs; rw [← List.map_id arr]
    apply List.map_congr_left
    intro b hb
    have hb' := h.mem_iff.mp hb
    obtain ⟨k, _, hk⟩ := List.mem_map.mp hb'
    subst hk; rfl

theorem isStream_of_perm_numbered (out arr : List Batch)
    (h : out.map (·.1) = List.range out.length) (hp : arr.Perm out) :
    IsStream arr out.length (flatten out) := by
  obtain ⟨w, hw⟩ := numbered_rep out h
  generalize out.length = n at hw
  subst hw
  obtain ⟨h1, h2⟩ := keyed_of_perm w (List.range n) arr hp
  exact ⟨arr.map (·.1), w, h1, h2, (flatten_keyed w _).symm⟩

theorem isStream_of_perm_keyed (w : Nat → List Rec) (n : Nat) (ks : List Nat)
    (hk : ks.Perm (List.range n)) (arr : List Batch) (hp : arr.Perm (ks.map fun k => (k, w k))) :
    IsStream arr n ((List.range n).flatMap w) := by
  obtain ⟨h1, h2⟩ := keyed_of_perm w ks arr hp
  exact ⟨arr.map (·.1), w, h1.trans hk, h2, rfl⟩

/-- appending a stream shifted by `N` (what `Concat` does) -/
theorem IsStream.append {out : List Batch} {N : Nat} {F : List Rec} (h : IsStream out N F)
    (v : Nat → List Rec) (n : Nat) (ks : List Nat) (hp : ks.Perm (List.range n)) :
    IsStream (out ++ ks.map fun k => (k + N, v k)) (N + n) (F ++ (List.range n).flatMap v) := by
  obtain ⟨ks0, w, hp0, rfl, hF⟩ := h
  have hshift : (fun x => N + x) = (fun x => x + N) := by funext x; omega
  refine ⟨ks0 ++ ks.map (fun k => k + N), fun k => if k < N then w k else v (k - N), ?_, ?_, ?_⟩
  · rw [List.range_add, hshift]
    exact hp0.append (hp.map _)
  · rw [List.map_append, List.map_map]
    congr 1
    · apply List.map_congr_left
      intro k hk
      have : k < N := List.mem_range.mp (hp0.mem_iff.mp hk)
      simp [this]
    · apply List.map_congr_left
      intro k _
      have : ¬ k + N < N := by omega
      simp [this]
  · rw [List.range_add, List.flatMap_append, List.flatMap_map, ← hF]
    congr 1
    · apply flatMap_congr'
      intro k hk
      have : k < N := List.mem_range.mp hk
      simp [this]
    · apply flatMap_congr'
      intro k _
      have : ¬ N + k < N := by omega
      simp [this]

/-! ## Concat -/

theorem concatOne_fold (N : Nat) (v : Nat → List Rec) (ks : List Nat) :
    ∀ st : List Batch × Int,
      ((ks.map fun k => (k, v k)).foldl (concatOne N) st).1 = st.1 ++ ks.map (fun k => (k + N, v k)) ∧
      st.2 ≤ ((ks.map fun k => (k, v k)).foldl (concatOne N) st).2 ∧
      (∀ k ∈ ks, ((k : Int) + N) ≤ ((ks.map fun k => (k, v k)).foldl (concatOne N) st).2) ∧
      (((ks.map fun k => (k, v k)).foldl (concatOne N) st).2 = st.2 ∨
        ∃ k ∈ ks, ((ks.map fun k => (k, v k)).foldl (concatOne N) st).2 = (k : Int) + N) := by
  induction ks with
  | nil => intro st; simp
  | cons k t ih =>
    intro st
    simp only [List.map_cons, List.foldl_cons]
    obtain ⟨i1, i2, i3, i4⟩ := ih (concatOne N st (k, v k))
    have hc1 : (concatOne N st (k, v k)).1 = st.1 ++ [(k + N, v k)] := rfl
    have hc2 : st.2 ≤ (concatOne N st (k, v k)).2 ∧ ((k : Int) + N) ≤ (concatOne N st (k, v k)).2 ∧
        ((concatOne N st (k, v k)).2 = st.2 ∨ (concatOne N st (k, v k)).2 = (k : Int) + N) := by
      simp only [concatOne]
      split <;> omega
    refine ⟨?_, ?_, ?_, ?_⟩
    · rw [i1, hc1]; simp
    · omega
    · intro j hj
      simp only [List.mem_cons] at hj
      rcases hj with hj | hj
      · subst hj; omega
      · exact i3 j hj
    · rcases i4 with i4 | ⟨j, hj, i4⟩
      · rcases hc2.2.2 with h | h
        · left; rw [i4, h]
        · right; exact ⟨k, by simp, by rw [i4, h]⟩
      · right; exact ⟨j, List.mem_cons_of_mem _ hj, i4⟩

theorem concatOne_fold_perm (N n : Nat) (v : Nat → List Rec) (ks : List Nat)
    (hp : ks.Perm (List.range n)) (st : List Batch × Int) (hst : st.2 = (N : Int) - 1) :
    (ks.map fun k => (k, v k)).foldl (concatOne N) st =
      (st.1 ++ ks.map (fun k => (k + N, v k)), (N : Int) + n - 1) := by
  obtain ⟨h1, h2, h3, h4⟩ := concatOne_fold N v ks st
  apply Prod.ext h1
  show _ = (N : Int) + n - 1
  have hub : ∀ k ∈ ks, k < n := fun k hk => List.mem_range.mp (hp.mem_iff.mp hk)
  cases n with
  | zero =>
    have : ks = [] := by simpa using hp
    subst this
    simp at h4 ⊢
    omega
  | succ m =>
    have hm : m ∈ ks := hp.mem_iff.mpr (List.mem_range.mpr (by omega))
    have := h3 m hm
    rcases h4 with h4 | ⟨j, hj, h4⟩
    · omega
    · have := hub j hj
      omega

theorem concat_fold (others : List (Nat × (Nat → List Rec) × List Nat))
    (hps : ∀ s ∈ others, s.2.2.Perm (List.range s.1)) :
    ∀ (out : List Batch) (m : Int) (N : Nat) (F : List Rec), m = (N : Int) - 1 → IsStream out N F →
      IsStream
        ((others.map fun s => s.2.2.map fun k => (k, s.2.1 k)).foldl
          (fun (acc : (List Batch × Int) × Nat) (s : List Batch) =>
            let st := s.foldl (concatOne acc.2) acc.1
            (st, (st.2 + 1).toNat)) ((out, m), N)).1.1
        (N + (others.map (·.1)).sum)
        (F ++ others.flatMap fun s => (List.range s.1).flatMap s.2.1) := by
  induction others with
  | nil => intro out m N F _ h; simpa using h
  | cons s t ih =>
    intro out m N F hm h
    obtain ⟨n, v, ks⟩ := s
    have hp : ks.Perm (List.range n) := hps (n, v, ks) (by simp)
    simp only [List.map_cons, List.foldl_cons, List.sum_cons, List.flatMap_cons]
    rw [concatOne_fold_perm N n v ks hp (out, m) hm]
    have e : ((N : Int) + n - 1 + 1).toNat = N + n := by omega
    simp only [e]
    have := ih (fun s hs => hps s (List.mem_cons_of_mem _ hs)) _ ((N : Int) + n - 1) (N + n) _
      (by omega) (h.append v n ks hp)
    rw [Nat.add_assoc, ← List.append_assoc] at *
    exact this

theorem concat_isStream (n0 : Nat) (v0 : Nat → List Rec) (ks0 : List Nat)
    (hp0 : ks0.Perm (List.range n0)) (others : List (Nat × (Nat → List Rec) × List Nat))
    (hps : ∀ s ∈ others, s.2.2.Perm (List.range s.1)) :
    IsStream (concat (ks0.map fun k => (k, v0 k)) (others.map fun s => s.2.2.map fun k => (k, s.2.1 k)))
      (n0 + (others.map (·.1)).sum)
      ((List.range n0).flatMap v0 ++ others.flatMap fun s => (List.range s.1).flatMap s.2.1) := by
  unfold concat
  have h0 := concatOne_fold_perm 0 n0 v0 ks0 hp0 ([], -1) (by simp)
  simp only [h0]
  have e : ((((0 : Nat) : Int) + n0 - 1) + 1).toNat = n0 := by omega
  simp only [e]
  have hs := (isStream_nil.append v0 n0 ks0 hp0)
  have := concat_fold others hps _ (((0 : Nat) : Int) + n0 - 1) n0 _ (by omega)
    (by simpa using hs)
  simpa using this

/-! ## PairTo -/

theorem flatten_cons (x : Batch) (xs : List Batch) : flatten (x :: xs) = x.2 ++ flatten xs := by
  simp [flatten]

theorem Sized.tail {size : Nat} {x : Batch} {xs : List Batch} (h : Sized size (x :: xs)) :
    Sized size xs := by
  constructor
  · intro b hb; exact h.1 b (List.mem_cons_of_mem _ hb)
  · intro i hi
    have := h.2 (i + 1) (by simp only [List.length_cons]; omega)
    simpa using this

theorem Sized.head {size : Nat} {x : Batch} {xs : List Batch} (h : Sized size (x :: xs)) :
    0 < x.2.length ∧ x.2.length ≤ size := h.1 x (by simp)

theorem Sized.head_full {size : Nat} {x y : Batch} {xs : List Batch} (h : Sized size (x :: y :: xs)) :
    x.2.length = size := by
  have := h.2 0 (by simp)
  simpa using this

theorem Sized.flatten_pos {size : Nat} {x : Batch} {xs : List Batch} (h : Sized size (x :: xs)) :
    0 < (flatten (x :: xs)).length := by
  rw [flatten_cons, List.length_append]
  have := h.head
  omega

theorem sized_head_eq {size : Nat} {x y : Batch} {xs ys : List Batch}
    (hx : Sized size (x :: xs)) (hy : Sized size (y :: ys))
    (hl : (flatten (x :: xs)).length = (flatten (y :: ys)).length) : x.2.length = y.2.length := by
  rw [flatten_cons, flatten_cons, List.length_append, List.length_append] at hl
  have h1 := hx.head
  have h2 := hy.head
  cases xs with
  | nil =>
    cases ys with
    | nil => simpa [flatten] using hl
    | cons y' ys' =>
      have := hy.head_full
      have := hy.tail.flatten_pos
      simp only [flatten_nil, List.length_nil] at hl
      omega
  | cons x' xs' =>
    have := hx.head_full
    cases ys with
    | nil =>
      have := hx.tail.flatten_pos
      simp only [flatten_nil, List.length_nil] at hl
      omega
    | cons y' ys' =>
      have := hy.head_full
      omega

theorem sized_zip (size : Nat) :
    ∀ (ra rb : List Batch), Sized size ra → Sized size rb →
      (flatten ra).length = (flatten rb).length →
      ra.length = rb.length ∧
      (ra.zip rb).flatMap (fun xy => xy.1.2.zip xy.2.2) = (flatten ra).zip (flatten rb) := by
  intro ra
  induction ra with
  | nil =>
    intro rb _ hb hl
    cases rb with
    | nil => simp [flatten]
    | cons y ys =>
      have := hb.flatten_pos
      simp only [flatten_nil, List.length_nil] at hl
      omega
  | cons x xs ih =>
    intro rb ha hb hl
    cases rb with
    | nil =>
      have := ha.flatten_pos
      simp only [flatten_nil, List.length_nil] at hl
      omega
    | cons y ys =>
      have hh := sized_head_eq ha hb hl
      have hl' : (flatten xs).length = (flatten ys).length := by
        rw [flatten_cons, flatten_cons, List.length_append, List.length_append] at hl
        omega
      obtain ⟨i1, i2⟩ := ih ys ha.tail hb.tail hl'
      refine ⟨by simp [i1], ?_⟩
      rw [flatten_cons, flatten_cons, List.zip_append hh, ← i2]
      simp

theorem pair_chunked (size : Nat) (ra rb : List Batch) (A B : List Rec)
    (ha : Chunked size ra A) (hb : Chunked size rb B) (hl : A.length = B.length) :
    (((ra.zip rb).map fun (x, y) => (x.1, x.2.zip y.2)).map (·.1) =
      List.range ((ra.zip rb).map fun (x, y) => (x.1, x.2.zip y.2)).length) ∧
    ((ra.zip rb).map fun (x, y) => (x.1, x.2.zip y.2)).flatMap (·.2) = A.zip B := by
  obtain ⟨a1, a2, a3⟩ := ha
  obtain ⟨b1, b2, b3⟩ := hb
  subst a2; subst b2
  obtain ⟨h1, h2⟩ := sized_zip size ra rb a3 b3 hl
  have ef : (fun (p : Batch × Batch) => match p with | (x, y) => (x.1, x.2.zip y.2)) =
      fun p => (p.1.1, p.1.2.zip p.2.2) := by
    funext p; obtain ⟨x, y⟩ := p; rfl
  rw [ef]
  constructor
  · simp only [List.map_map, List.length_map, List.length_zip, ← h1, Nat.min_self]
    rw [← a1]
    have : ((fun (x : Nat × List (Rec × Rec)) => x.1) ∘ fun (p : Batch × Batch) => (p.1.1, p.1.2.zip p.2.2)) =
        (fun (b : Batch) => b.1) ∘ Prod.fst := rfl
    rw [this, ← List.map_map, List.map_fst_zip (by omega)]
  · rw [List.flatMap_map]
    exact h2

/-! ## Stage composition: every stage maps an `IsStream` to an `IsStream` / `Chunked` -/

theorem IsStream.filter {out : List Batch} {N : Nat} {F : List Rec} (h : IsStream out N F)
    (p : Rec → Bool) : IsStream (out.map fun b => (b.1, b.2.filter p)) N (F.filter p) := by
  obtain ⟨ks, w, hp, rfl, hF⟩ := h
  refine ⟨ks, fun k => (w k).filter p, hp, by simp, ?_⟩
  rw [← hF, List.filter_flatMap]

theorem IsStream.worker {out : List Batch} {N : Nat} {F : List Rec} (h : IsStream out N F)
    (f : Rec → List Rec) : IsStream (workerStage f out) N (F.flatMap f) := by
  obtain ⟨ks, w, hp, rfl, hF⟩ := h
  refine ⟨ks, fun k => (w k).flatMap f, hp, by simp [workerStage], ?_⟩
  rw [← hF, List.flatMap_assoc]

theorem IsStream.rebatch {arr : List Batch} {N : Nat} {F : List Rec} (h : IsStream arr N F)
    (size : Nat) (hs : 0 < size) : Chunked size (rebatch size arr) F := by
  have := rebatch_chunked size hs arr
  rwa [h.sort.2.2] at this

theorem IsStream.filterOn {arr : List Batch} {N : Nat} {F : List Rec} (h : IsStream arr N F)
    (p : Rec → Bool) (size : Nat) (hs : 0 < size) : Chunked size (filterOn p size arr) (F.filter p) :=
  (h.filter p).rebatch size hs

theorem Chunked.isStream_of_perm {size : Nat} {out arr : List Batch} {F : List Rec}
    (h : Chunked size out F) (hp : arr.Perm out) : IsStream arr out.length F := by
  have := isStream_of_perm_numbered out arr h.1 hp
  rwa [h.2.1] at this

end ObiVerif.Iter
