import ObiVerif.Model.LoopSteps
/-! # Safety invariant, deadlock freedom and termination of the generic single-loop stage (C03) -/
namespace ObiVerif.LoopSteps

variable {σ : Type}

theorem upd_same {α : Type} (f : Nat → α) (i : Nat) (v : α) : upd f i v i = v := by simp [upd]

theorem upd_ne {α : Type} (f : Nat → α) {i x : Nat} (v : α) (h : x ≠ i) : upd f i v x = f x := by
  simp [upd, h]

theorem sumTo_upd_ge (n : Nat) (f : Nat → Nat) (i v : Nat) (h : n ≤ i) : sumTo n (upd f i v) = sumTo n f := by
  induction n with
  | zero => rfl
  | succ n ih =>
    simp only [sumTo]
    rw [ih (by omega), upd_ne f v (by omega)]

theorem sumTo_upd (n : Nat) (f : Nat → Nat) (i v : Nat) (h : i < n) :
    sumTo n (upd f i v) + f i = sumTo n f + v := by
  induction n with
  | zero => omega
  | succ n ih =>
    simp only [sumTo]
    by_cases e : i = n
    · subst e
      rw [sumTo_upd_ge i f i v (Nat.le_refl _), upd_same]; omega
    · have := ih (by omega)
      rw [upd_ne f v (fun h' => e h'.symm)]; omega

theorem b2n_true : b2n true = 0 := rfl
theorem b2n_false : b2n false = 1 := rfl

theorem wt_snoc (w : Item → Nat) (c : Nat) (l : List Item) (k : Item) :
    wt w c (l ++ [k]) = wt w c l + (3 * w k + c) := by
  induction l with
  | nil => simp [wt]
  | cons a t ih => simp only [List.cons_append, wt, ih]; omega

/-! ## Inversion of the big-step relation (the loop is deterministic) -/

theorem exec_halt_inv {act : σ → Act σ} {m : σ} {ins : Nat → List Item} {tr : List (Nat × Item)}
    (ha : act m = .halt) (h : Exec act m ins tr) : tr = [] := by
  cases h with
  | halt _ => rfl
  | send h1 _ => rw [ha] at h1; cases h1
  | ann h1 _ => rw [ha] at h1; cases h1
  | item h1 _ _ => rw [ha] at h1; cases h1
  | closed h1 _ _ => rw [ha] at h1; cases h1

theorem exec_send_inv {act : σ → Act σ} {m : σ} {ins : Nat → List Item} {tr : List (Nat × Item)}
    {j : Nat} {b : Item} {k : σ} (ha : act m = .send j b k) (h : Exec act m ins tr) :
    ∃ tr', tr = (j, b) :: tr' ∧ Exec act k ins tr' := by
  cases h with
  | halt h1 => rw [ha] at h1; cases h1
  | send h1 h2 => rw [ha] at h1; cases h1; exact ⟨_, rfl, h2⟩
  | ann h1 _ => rw [ha] at h1; cases h1
  | item h1 _ _ => rw [ha] at h1; cases h1
  | closed h1 _ _ => rw [ha] at h1; cases h1

theorem exec_ann_inv {act : σ → Act σ} {m : σ} {ins : Nat → List Item} {tr : List (Nat × Item)}
    {j : Nat} {k : σ} (ha : act m = .announce j k) (h : Exec act m ins tr) : Exec act k ins tr := by
  cases h with
  | halt h1 => rw [ha] at h1; cases h1
  | send h1 _ => rw [ha] at h1; cases h1
  | ann h1 h2 => rw [ha] at h1; cases h1; exact h2
  | item h1 _ _ => rw [ha] at h1; cases h1
  | closed h1 _ _ => rw [ha] at h1; cases h1

theorem exec_item_inv {act : σ → Act σ} {m : σ} {ins : Nat → List Item} {tr : List (Nat × Item)}
    {i : Nat} {f : Item → σ} {c : σ} {it : Item} {rest : List Item}
    (ha : act m = .recv i f c) (hi : ins i = it :: rest) (h : Exec act m ins tr) :
    Exec act (f it) (upd ins i rest) tr := by
  cases h with
  | halt h1 => rw [ha] at h1; cases h1
  | send h1 _ => rw [ha] at h1; cases h1
  | ann h1 _ => rw [ha] at h1; cases h1
  | item h1 h2 h3 =>
    rw [ha] at h1; cases h1
    rw [hi] at h2; cases h2
    exact h3
  | closed h1 h2 _ =>
    rw [ha] at h1; cases h1
    rw [hi] at h2; cases h2

theorem exec_closed_inv {act : σ → Act σ} {m : σ} {ins : Nat → List Item} {tr : List (Nat × Item)}
    {i : Nat} {f : Item → σ} {c : σ}
    (ha : act m = .recv i f c) (hi : ins i = []) (h : Exec act m ins tr) : Exec act c ins tr := by
  cases h with
  | halt h1 => rw [ha] at h1; cases h1
  | send h1 _ => rw [ha] at h1; cases h1
  | ann h1 _ => rw [ha] at h1; cases h1
  | item h1 h2 _ =>
    rw [ha] at h1; cases h1
    rw [hi] at h2; cases h2
  | closed h1 _ h3 => rw [ha] at h1; cases h1; exact h3

/-- the loop is deterministic: what it pushes is a function of what it is fed -/
theorem exec_det {act : σ → Act σ} {m : σ} {ins : Nat → List Item} {tr tr' : List (Nat × Item)}
    (h : Exec act m ins tr) (h' : Exec act m ins tr') : tr = tr' := by
  induction h generalizing tr' with
  | halt ha => exact (exec_halt_inv ha h').symm
  | send ha _ ih =>
    obtain ⟨t, e, h2⟩ := exec_send_inv ha h'
    rw [e, ih h2]
  | ann ha _ ih => exact ih (exec_ann_inv ha h')
  | item ha hi _ ih => exact ih (exec_item_inv ha hi h')
  | closed ha hi _ ih => exact ih (exec_closed_inv ha hi h')

theorem proj_snoc (j j0 : Nat) (b : Item) (tr : List (Nat × Item)) :
    proj j (tr ++ [(j0, b)]) = if j0 = j then proj j tr ++ [b] else proj j tr := by
  unfold proj
  by_cases e : j0 = j
  · simp [List.filter_append, e]
  · simp [List.filter_append, e]

/-! ## The invariant -/

structure Inv (S : Sys σ) (known : σ → Nat → Prop) (m0 : σ) (ins0 : Nat → List Item) (s : St σ) : Prop where
  fut : ∀ tr, Exec S.act m0 ins0 tr →
    ∃ tr', Exec S.act s.m (fun i => s.cin i ++ s.todo i) tr' ∧ tr = s.sent ++ tr'
  hist : ∀ j, proj j s.sent = s.delivered j ++ s.cout j
  fin : ∀ i, s.inClosed i = true → s.todo i = [] ∧ s.cin i = []
  hh : s.halted = true → S.act s.m = .halt
  fout : ∀ j, s.outClosed j = true → s.halted = true ∧ s.cout j = []
  kn : ∀ j, known s.m j → s.opened j = true
  oc : ∀ j, s.cout j ≠ [] → s.opened j = true
  ob : ∀ j, s.cout j ≠ [] → j < S.nout

theorem inv_init (S : Sys σ) (known : σ → Nat → Prop) (m0 : σ) (ins0 : Nat → List Item)
    (opened0 : Nat → Bool) (hk : ∀ j, known m0 j → opened0 j = true) :
    Inv S known m0 ins0 (init ins0 m0 opened0) := by
  refine ⟨?_, ?_, ?_, ?_, ?_, hk, ?_, ?_⟩
  · intro tr h
    exact ⟨tr, by simpa [init] using h, by simp [init]⟩
  · intro j; simp [init, proj]
  · intro i h; simp [init] at h
  · intro h; simp [init] at h
  · intro j h; simp [init] at h
  · intro j h; simp [init] at h
  · intro j h; simp [init] at h

theorem step_inv {S : Sys σ} {μ : σ → Nat} {w : Item → Nat} {known : σ → Nat → Prop}
    (L : Law S μ w known) {m0 : σ} {ins0 : Nat → List Item} {s s' : St σ}
    (h : Inv S known m0 ins0 s) (st : Step S s s') : Inv S known m0 ins0 s' := by
  cases st with
  | prodSend i k t _ h2 _ =>
    refine { h with fut := ?_, fin := ?_, oc := h.oc, ob := h.ob }
    · intro tr he
      obtain ⟨tr', h1, e⟩ := h.fut tr he
      refine ⟨tr', ?_, e⟩
      have : (fun x => upd s.cin i (s.cin i ++ [k]) x ++ upd s.todo i t x) = fun x => s.cin x ++ s.todo x := by
        funext x
        by_cases e : x = i
        · subst e; simp [upd, h2]
        · simp [upd, e]
      show Exec S.act s.m (fun x => upd s.cin i (s.cin i ++ [k]) x ++ upd s.todo i t x) tr'
      rw [this]; exact h1
    · intro x hx
      have hc := h.fin x hx
      by_cases e : x = i
      · subst e; rw [hc.1] at h2; cases h2
      · show upd s.todo i t x = [] ∧ upd s.cin i (s.cin i ++ [k]) x = []
        rw [upd_ne _ _ e, upd_ne _ _ e]; exact hc
  | prodHand i k t f c hh0 ha h3 h4 =>
    refine { h with fut := ?_, fin := ?_, hh := ?_, kn := ?_ }
    · intro tr he
      obtain ⟨tr', h1, e⟩ := h.fut tr he
      refine ⟨tr', ?_, e⟩
      have hi : (fun x => s.cin x ++ s.todo x) i = k :: t := by simp [h3, h4]
      have h2 := exec_item_inv ha hi h1
      have : (fun x => s.cin x ++ upd s.todo i t x) = upd (fun x => s.cin x ++ s.todo x) i t := by
        funext x
        by_cases e : x = i
        · subst e; simp [upd, h4]
        · simp [upd, e]
      show Exec S.act (f k) (fun x => s.cin x ++ upd s.todo i t x) tr'
      rw [this]; exact h2
    · intro x hx
      have hc := h.fin x hx
      by_cases e : x = i
      · subst e; rw [hc.1] at h3; cases h3
      · show upd s.todo i t x = [] ∧ s.cin x = []
        rw [upd_ne _ _ e]; exact hc
    · intro hx; rw [hh0] at hx; cases hx
    · intro j hj; exact h.kn j (L.k_item ha k j hj)
  | inClose i _ h2 h3 _ =>
    refine { h with fin := ?_ }
    intro x hx
    by_cases e : x = i
    · subst e; exact ⟨h2, h3⟩
    · have : s.inClosed x = true := by
        have hx' : upd s.inClosed i true x = true := hx
        rwa [upd_ne _ _ e] at hx'
      exact h.fin x this
  | mRecv i k t f c hh0 ha h3 =>
    refine { h with fut := ?_, fin := ?_, hh := ?_, kn := ?_, oc := h.oc, ob := h.ob }
    · intro tr he
      obtain ⟨tr', h1, e⟩ := h.fut tr he
      refine ⟨tr', ?_, e⟩
      have hi : (fun x => s.cin x ++ s.todo x) i = k :: (t ++ s.todo i) := by simp [h3]
      have h2 := exec_item_inv ha hi h1
      have : (fun x => upd s.cin i t x ++ s.todo x) = upd (fun x => s.cin x ++ s.todo x) i (t ++ s.todo i) := by
        funext x
        by_cases e : x = i
        · subst e; simp [upd]
        · simp [upd, e]
      show Exec S.act (f k) (fun x => upd s.cin i t x ++ s.todo x) tr'
      rw [this]; exact h2
    · intro x hx
      have hc := h.fin x hx
      by_cases e : x = i
      · subst e; rw [hc.2] at h3; cases h3
      · show s.todo x = [] ∧ upd s.cin i t x = []
        rw [upd_ne _ _ e]; exact hc
    · intro hx; rw [hh0] at hx; cases hx
    · intro j hj; exact h.kn j (L.k_item ha k j hj)
  | mRecvClosed i f c hh0 ha h3 h4 =>
    refine { h with fut := ?_, hh := ?_, kn := ?_ }
    · intro tr he
      obtain ⟨tr', h1, e⟩ := h.fut tr he
      refine ⟨tr', ?_, e⟩
      have hi : (fun x => s.cin x ++ s.todo x) i = [] := by simp [h3, (h.fin i h4).1]
      exact exec_closed_inv ha hi h1
    · intro hx; rw [hh0] at hx; cases hx
    · intro j hj; exact h.kn j (L.k_closed ha j hj)
  | mSend j b k hh0 ha _ =>
    have hop : s.opened j = true := h.kn j (L.k_send ha).1
    refine { h with fut := ?_, hist := ?_, hh := ?_, fout := ?_, kn := ?_, oc := ?_, ob := ?_ }
    · intro tr he
      obtain ⟨tr', h1, e⟩ := h.fut tr he
      obtain ⟨tr'', e2, h2⟩ := exec_send_inv ha h1
      exact ⟨tr'', h2, by rw [e, e2]; simp⟩
    · intro x
      show proj x (s.sent ++ [(j, b)]) = s.delivered x ++ upd s.cout j (s.cout j ++ [b]) x
      rw [proj_snoc]
      by_cases e : j = x
      · subst e; simp [upd, h.hist j]
      · have e' : x ≠ j := fun h' => e h'.symm
        simp [upd, e, e', h.hist x]
    · intro hx; rw [hh0] at hx; cases hx
    · intro x hx
      have := (h.fout x hx).1
      rw [hh0] at this; cases this
    · intro x hx; exact h.kn x ((L.k_send ha).2 x hx)
    · intro x hx
      by_cases e : x = j
      · subst e; exact hop
      · have hx' : upd s.cout j (s.cout j ++ [b]) x ≠ [] := hx
        rw [upd_ne _ _ e] at hx'
        exact h.oc x hx'
    · intro x hx
      by_cases e : x = j
      · subst e; exact L.send_lt ha
      · have hx' : upd s.cout j (s.cout j ++ [b]) x ≠ [] := hx
        rw [upd_ne _ _ e] at hx'
        exact h.ob x hx'
  | mHand j b k hh0 ha h3 _ _ =>
    refine { h with fut := ?_, hist := ?_, hh := ?_, kn := ?_ }
    · intro tr he
      obtain ⟨tr', h1, e⟩ := h.fut tr he
      obtain ⟨tr'', e2, h2⟩ := exec_send_inv ha h1
      exact ⟨tr'', h2, by rw [e, e2]; simp⟩
    · intro x
      show proj x (s.sent ++ [(j, b)]) = upd s.delivered j (s.delivered j ++ [b]) x ++ s.cout x
      rw [proj_snoc]
      by_cases e : j = x
      · subst e
        have := h.hist j
        rw [h3] at this
        simp [upd, this, h3]
      · have e' : x ≠ j := fun h' => e h'.symm
        simp [upd, e, e', h.hist x]
    · intro hx; rw [hh0] at hx; cases hx
    · intro x hx; exact h.kn x ((L.k_send ha).2 x hx)
  | mAnnounce j k hh0 ha =>
    refine { h with fut := ?_, hh := ?_, kn := ?_, oc := ?_ }
    · intro tr he
      obtain ⟨tr', h1, e⟩ := h.fut tr he
      exact ⟨tr', exec_ann_inv ha h1, e⟩
    · intro hx; rw [hh0] at hx; cases hx
    · intro x hx
      show upd s.opened j true x = true
      rcases L.k_ann ha x hx with hk | hk
      · by_cases e : x = j
        · subst e; exact upd_same _ _ _
        · rw [upd_ne _ _ e]; exact h.kn x hk
      · subst hk; exact upd_same _ _ _
    · intro x hx
      show upd s.opened j true x = true
      by_cases e : x = j
      · subst e; exact upd_same _ _ _
      · rw [upd_ne _ _ e]; exact h.oc x hx
  | mHalt _ ha =>
    refine { h with hh := ?_, fout := ?_ }
    · intro _; exact ha
    · intro j hj; exact ⟨rfl, (h.fout j hj).2⟩
  | outClose j _ h2 h3 _ _ =>
    refine { h with fout := ?_ }
    intro x hx
    by_cases e : x = j
    · subst e; exact ⟨h2, h3⟩
    · have hx' : upd s.outClosed j true x = true := hx
      rw [upd_ne _ _ e] at hx'
      exact h.fout x hx'
  | cRecv j k t hjn h1 _ _ =>
    refine { h with hist := ?_, fout := ?_, oc := ?_, ob := ?_ }
    · intro x
      show proj x s.sent = upd s.delivered j (s.delivered j ++ [k]) x ++ upd s.cout j t x
      by_cases e : x = j
      · subst e
        have := h.hist x
        rw [h1] at this
        simp [upd, this]
      · rw [upd_ne _ _ e, upd_ne _ _ e]; exact h.hist x
    · intro x hx
      have hc := h.fout x hx
      by_cases e : x = j
      · subst e; rw [hc.2] at h1; cases h1
      · exact ⟨hc.1, by show upd s.cout j t x = []; rw [upd_ne _ _ e]; exact hc.2⟩
    · intro x hx
      by_cases e : x = j
      · subst e; exact h.oc x (by rw [h1]; simp)
      · have hx' : upd s.cout j t x ≠ [] := hx
        rw [upd_ne _ _ e] at hx'
        exact h.oc x hx'
    · intro x hx
      by_cases e : x = j
      · subst e; exact hjn
      · have hx' : upd s.cout j t x ≠ [] := hx
        rw [upd_ne _ _ e] at hx'
        exact h.ob x hx'

theorem reach_inv {S : Sys σ} {μ : σ → Nat} {w : Item → Nat} {known : σ → Nat → Prop}
    (L : Law S μ w known) {m0 : σ} {ins0 : Nat → List Item} {opened0 : Nat → Bool}
    (hk : ∀ j, known m0 j → opened0 j = true) {s : St σ}
    (hr : Reach S (init ins0 m0 opened0) s) : Inv S known m0 ins0 s := by
  induction hr with
  | init => exact inv_init S known m0 ins0 opened0 hk
  | step _ st ih => exact step_inv L ih st

/-- a finished run has delivered on every output exactly what the big-step run pushes on it, in order -/
theorem final_result {S : Sys σ} {known : σ → Nat → Prop} {m0 : σ} {ins0 : Nat → List Item} {s : St σ}
    (h : Inv S known m0 ins0 s) (hf : Final S s) (tr : List (Nat × Item)) (he : Exec S.act m0 ins0 tr)
    (j : Nat) (hj : j < S.nout) : s.delivered j = proj j tr ∧ s.sent = tr := by
  obtain ⟨hc, he0⟩ := hf j hj
  obtain ⟨tr', h1, e⟩ := h.fut tr he
  have := exec_halt_inv (h.hh (h.fout j hc).1) h1
  subst this
  have hs : s.sent = tr := by simpa using e.symm
  have := h.hist j
  rw [he0, hs] at this
  exact ⟨by simpa using this.symm, hs⟩

/-! ## Progress -/

theorem exists_least (p : Nat → Bool) : ∀ n, (∃ j, j < n ∧ p j = false) →
    ∃ j, j < n ∧ p j = false ∧ ∀ j', j' < j → p j' = true := by
  intro n
  induction n with
  | zero => intro ⟨j, hj, _⟩; omega
  | succ n ih =>
    intro ⟨j, hj, hp⟩
    by_cases hex : ∃ j, j < n ∧ p j = false
    · obtain ⟨j0, h0, h1, h2⟩ := ih hex
      exact ⟨j0, by omega, h1, h2⟩
    · have hjn : j = n := by
        apply Classical.byContradiction
        intro hne
        exact hex ⟨j, by omega, hp⟩
      subst hjn
      refine ⟨j, hj, hp, ?_⟩
      intro j' hj'
      cases hq : p j' with
      | true => rfl
      | false => exact absurd ⟨j', hj', hq⟩ hex

/-- **no deadlock**: when every output has a consumer, a state in which some consumer has not yet seen
the end of its stream always has an enabled step (any `cap`, 0 included) -/
theorem progress {S : Sys σ} {μ : σ → Nat} {w : Item → Nat} {known : σ → Nat → Prop}
    (L : Law S μ w known) (hab : ∀ j, j < S.nout → S.absent j = false)
    {m0 : σ} {ins0 : Nat → List Item} (s : St σ) (h : Inv S known m0 ins0 s)
    (hnf : ¬ Final S s) :
    ∃ s', Step S s s' := by
  by_cases hne : ∃ j, s.cout j ≠ []
  · obtain ⟨j, hj⟩ := hne
    cases hc : s.cout j with
    | nil => exact absurd hc hj
    | cons k t => exact ⟨_, Step.cRecv s j k t (h.ob j hj) hc (h.oc j hj) (hab j (h.ob j hj))⟩
  · have hempty : ∀ j, s.cout j = [] := by
      intro j
      apply Classical.byContradiction
      intro hx; exact hne ⟨j, hx⟩
    cases hh0 : s.halted with
    | false =>
      cases ha : S.act s.m with
      | halt => exact ⟨_, Step.mHalt s hh0 ha⟩
      | announce j k => exact ⟨_, Step.mAnnounce s j k hh0 ha⟩
      | send j b k =>
        exact ⟨_, Step.mHand s j b k hh0 ha (hempty j) (h.kn j (L.k_send ha).1) (hab j (L.send_lt ha))⟩
      | recv i f c =>
        cases hci : s.cin i with
        | cons k t => exact ⟨_, Step.mRecv s i k t f c hh0 ha hci⟩
        | nil =>
          cases hic : s.inClosed i with
          | true => exact ⟨_, Step.mRecvClosed s i f c hh0 ha hci hic⟩
          | false =>
            cases htd : s.todo i with
            | cons k t => exact ⟨_, Step.prodHand s i k t f c hh0 ha htd hci⟩
            | nil => exact ⟨_, Step.inClose s i (L.recv_lt ha) htd hci hic⟩
    | true =>
      have : ∃ j, j < S.nout ∧ s.outClosed j = false := by
        apply Classical.byContradiction
        intro hx
        apply hnf
        intro j hj
        refine ⟨?_, hempty j⟩
        cases hq : s.outClosed j with
        | true => rfl
        | false => exact absurd ⟨j, hj, hq⟩ hx
      obtain ⟨j, hj, hq, hlt⟩ := exists_least s.outClosed S.nout this
      exact ⟨_, Step.outClose s j hj hh0 (hempty j) hq hlt⟩

/-! ## Termination -/

theorem step_rank {S : Sys σ} {μ : σ → Nat} {w : Item → Nat} {known : σ → Nat → Prop}
    (L : Law S μ w known) {s s' : St σ} (st : Step S s s') : rank S μ w s' < rank S μ w s := by
  cases st with
  | prodSend i k t hi h2 _ =>
    have e : (fun x => wt w 2 (upd s.todo i t x) + wt w 1 (upd s.cin i (s.cin i ++ [k]) x) + b2n (s.inClosed x)) =
        upd (fun x => wt w 2 (s.todo x) + wt w 1 (s.cin x) + b2n (s.inClosed x)) i
          (wt w 2 t + wt w 1 (s.cin i ++ [k]) + b2n (s.inClosed i)) := by
      funext x
      by_cases e : x = i
      · subst e; simp [upd]
      · simp [upd, e]
    have := sumTo_upd S.nin (fun x => wt w 2 (s.todo x) + wt w 1 (s.cin x) + b2n (s.inClosed x)) i
      (wt w 2 t + wt w 1 (s.cin i ++ [k]) + b2n (s.inClosed i)) hi
    simp only [rank, e]
    simp only [h2, wt, wt_snoc] at this ⊢
    omega
  | prodHand i k t f c _ ha h3 h4 =>
    have hi := L.recv_lt ha
    have hm := L.μ_item ha k
    have e : (fun x => wt w 2 (upd s.todo i t x) + wt w 1 (s.cin x) + b2n (s.inClosed x)) =
        upd (fun x => wt w 2 (s.todo x) + wt w 1 (s.cin x) + b2n (s.inClosed x)) i
          (wt w 2 t + wt w 1 (s.cin i) + b2n (s.inClosed i)) := by
      funext x
      by_cases e : x = i
      · subst e; simp [upd]
      · simp [upd, e]
    have := sumTo_upd S.nin (fun x => wt w 2 (s.todo x) + wt w 1 (s.cin x) + b2n (s.inClosed x)) i
      (wt w 2 t + wt w 1 (s.cin i) + b2n (s.inClosed i)) hi
    simp only [rank, e]
    simp only [h3, wt] at this ⊢
    omega
  | inClose i hi _ _ h4 =>
    have e : (fun x => wt w 2 (s.todo x) + wt w 1 (s.cin x) + b2n (upd s.inClosed i true x)) =
        upd (fun x => wt w 2 (s.todo x) + wt w 1 (s.cin x) + b2n (s.inClosed x)) i
          (wt w 2 (s.todo i) + wt w 1 (s.cin i) + b2n true) := by
      funext x
      by_cases e : x = i
      · subst e; simp [upd]
      · simp [upd, e]
    have := sumTo_upd S.nin (fun x => wt w 2 (s.todo x) + wt w 1 (s.cin x) + b2n (s.inClosed x)) i
      (wt w 2 (s.todo i) + wt w 1 (s.cin i) + b2n true) hi
    simp only [rank, e]
    simp only [h4, b2n_true, b2n_false] at this ⊢
    omega
  | mRecv i k t f c _ ha h3 =>
    have hi := L.recv_lt ha
    have hm := L.μ_item ha k
    have e : (fun x => wt w 2 (s.todo x) + wt w 1 (upd s.cin i t x) + b2n (s.inClosed x)) =
        upd (fun x => wt w 2 (s.todo x) + wt w 1 (s.cin x) + b2n (s.inClosed x)) i
          (wt w 2 (s.todo i) + wt w 1 t + b2n (s.inClosed i)) := by
      funext x
      by_cases e : x = i
      · subst e; simp [upd]
      · simp [upd, e]
    have := sumTo_upd S.nin (fun x => wt w 2 (s.todo x) + wt w 1 (s.cin x) + b2n (s.inClosed x)) i
      (wt w 2 (s.todo i) + wt w 1 t + b2n (s.inClosed i)) hi
    simp only [rank, e]
    simp only [h3, wt] at this ⊢
    omega
  | mRecvClosed i f c _ ha _ _ =>
    have hm := L.μ_closed ha
    simp only [rank]
    omega
  | mSend j b k _ ha _ =>
    have hj := L.send_lt ha
    have hm := L.μ_send ha
    have e : (fun x => 2 * (upd s.cout j (s.cout j ++ [b]) x).length + b2n (s.outClosed x)) =
        upd (fun x => 2 * (s.cout x).length + b2n (s.outClosed x)) j
          (2 * (s.cout j ++ [b]).length + b2n (s.outClosed j)) := by
      funext x
      by_cases e : x = j
      · subst e; simp [upd]
      · simp [upd, e]
    have := sumTo_upd S.nout (fun x => 2 * (s.cout x).length + b2n (s.outClosed x)) j
      (2 * (s.cout j ++ [b]).length + b2n (s.outClosed j)) hj
    simp only [rank, e]
    simp only [List.length_append, List.length_singleton] at this ⊢
    omega
  | mHand j b k _ ha _ _ _ =>
    have hm := L.μ_send ha
    simp only [rank]
    omega
  | mAnnounce j k _ ha =>
    have hm := L.μ_ann ha
    simp only [rank]
    omega
  | mHalt h1 _ =>
    simp only [rank, h1]
    simp
  | outClose j hj _ _ h4 _ =>
    have e : (fun x => 2 * (s.cout x).length + b2n (upd s.outClosed j true x)) =
        upd (fun x => 2 * (s.cout x).length + b2n (s.outClosed x)) j
          (2 * (s.cout j).length + b2n true) := by
      funext x
      by_cases e : x = j
      · subst e; simp [upd]
      · simp [upd, e]
    have := sumTo_upd S.nout (fun x => 2 * (s.cout x).length + b2n (s.outClosed x)) j
      (2 * (s.cout j).length + b2n true) hj
    simp only [rank, e]
    simp only [h4, b2n_true, b2n_false] at this ⊢
    omega
  | cRecv j k t hj h1 _ _ =>
    have e : (fun x => 2 * (upd s.cout j t x).length + b2n (s.outClosed x)) =
        upd (fun x => 2 * (s.cout x).length + b2n (s.outClosed x)) j
          (2 * t.length + b2n (s.outClosed j)) := by
      funext x
      by_cases e : x = j
      · subst e; simp [upd]
      · simp [upd, e]
    have := sumTo_upd S.nout (fun x => 2 * (s.cout x).length + b2n (s.outClosed x)) j
      (2 * t.length + b2n (s.outClosed j)) hj
    simp only [rank, e]
    simp only [h1, List.length_cons] at this ⊢
    omega

/-- an execution of `n` steps -/
inductive Run (S : Sys σ) : St σ → St σ → Nat → Prop where
  | refl (s : St σ) : Run S s s 0
  | step {s s' s'' : St σ} {n : Nat} : Step S s s' → Run S s' s'' n → Run S s s'' (n + 1)

theorem run_bounded {S : Sys σ} {μ : σ → Nat} {w : Item → Nat} {known : σ → Nat → Prop}
    (L : Law S μ w known) {s s' : St σ} {n : Nat} (r : Run S s s' n) :
    n + rank S μ w s' ≤ rank S μ w s := by
  induction r with
  | refl s => simp
  | step st _ ih => have := step_rank L st; omega

theorem run_reach {S : Sys σ} {s0 s s' : St σ} {n : Nat} (hr : Reach S s0 s) (r : Run S s s' n) :
    Reach S s0 s' := by
  induction r with
  | refl s => exact hr
  | step st _ ih => exact ih (Reach.step hr st)

/-- from every state satisfying the invariant a final state is reached by running the system -/
theorem exists_final_run {S : Sys σ} {μ : σ → Nat} {w : Item → Nat} {known : σ → Nat → Prop}
    (L : Law S μ w known) (hab : ∀ j, j < S.nout → S.absent j = false)
    {m0 : σ} {ins0 : Nat → List Item} :
    ∀ (r : Nat) (s : St σ), Inv S known m0 ins0 s → rank S μ w s ≤ r →
      ∃ s' n, Run S s s' n ∧ Final S s' := by
  intro r
  induction r with
  | zero =>
    intro s hi hr
    by_cases hf : Final S s
    · exact ⟨s, 0, Run.refl s, hf⟩
    · obtain ⟨s', st⟩ := progress L hab s hi hf
      have := step_rank L st; omega
  | succ r ih =>
    intro s hi hr
    by_cases hf : Final S s
    · exact ⟨s, 0, Run.refl s, hf⟩
    · obtain ⟨s', st⟩ := progress L hab s hi hf
      have := step_rank L st
      obtain ⟨s'', n, run, hf''⟩ := ih s' (step_inv L hi st) (by omega)
      exact ⟨s'', n + 1, Run.step st run, hf''⟩

/-- the three results together, for any loop satisfying `Law`: (safety) in every reachable state the
pushes done so far followed by the big-step run from the current state on what is still upstream is the
big-step run from the start, and what was pushed on `j` is `delivered j ++ cout j`; (progress) with all
outputs consumed a non-final reachable state has an enabled step and every step decreases `rank`;
(termination) every execution is bounded by the initial rank, some execution ends, and every ended
execution has delivered on each output exactly the big-step pushes, in order. -/
theorem loop_stage {S : Sys σ} {μ : σ → Nat} {w : Item → Nat} {known : σ → Nat → Prop}
    (L : Law S μ w known) (m0 : σ) (ins0 : Nat → List Item) (opened0 : Nat → Bool)
    (hk : ∀ j, known m0 j → opened0 j = true) :
    (∀ s, Reach S (init ins0 m0 opened0) s →
        (∀ tr, Exec S.act m0 ins0 tr →
          ∃ tr', Exec S.act s.m (fun i => s.cin i ++ s.todo i) tr' ∧ tr = s.sent ++ tr') ∧
        ∀ j, proj j s.sent = s.delivered j ++ s.cout j) ∧
    (∀ s s', Step S s s' → rank S μ w s' < rank S μ w s) ∧
    (∀ s n, Run S (init ins0 m0 opened0) s n → n ≤ rank S μ w (init ins0 m0 opened0)) ∧
    ((∀ j, j < S.nout → S.absent j = false) →
      (∀ s, Reach S (init ins0 m0 opened0) s → ¬ Final S s → ∃ s', Step S s s') ∧
      ∃ s n, Run S (init ins0 m0 opened0) s n ∧ Final S s) ∧
    ∀ s n, Run S (init ins0 m0 opened0) s n → Final S s → ∀ tr, Exec S.act m0 ins0 tr →
      ∀ j, j < S.nout → s.delivered j = proj j tr := by
  refine ⟨?_, ?_, ?_, ?_, ?_⟩
  · intro s hr
    have h := reach_inv L hk hr
    exact ⟨h.fut, h.hist⟩
  · intro s s' st; exact step_rank L st
  · intro s n r
    have := run_bounded L r; omega
  · intro hab
    refine ⟨fun s hr hnf => progress L hab s (reach_inv L hk hr) hnf, ?_⟩
    exact exists_final_run L hab _ _ (inv_init S known m0 ins0 opened0 hk) (Nat.le_refl _)
  · intro s n r hf tr he j hj
    exact (final_result (reach_inv L hk (run_reach Reach.init r)) hf tr he j hj).1

/-! ## An output nobody consumes blocks the whole stage (unbuffered channels) -/

/-- the loop is blocked in a `Push` on an output whose consumer is absent -/
def BlockedOn (S : Sys σ) (j : Nat) (s : St σ) : Prop :=
  (∃ b k, S.act s.m = .send j b k) ∧ s.halted = false ∧ ∀ x, s.outClosed x = false

theorem blocked_step {S : Sys σ} (hcap : S.cap = 0) {j : Nat} (hab : S.absent j = true) {s s' : St σ}
    (h : BlockedOn S j s) (st : Step S s s') : BlockedOn S j s' := by
  obtain ⟨⟨b, k, ha⟩, hh, hoc⟩ := h
  cases st with
  | prodSend i k' t _ _ _ => exact ⟨⟨b, k, ha⟩, hh, hoc⟩
  | prodHand i k' t f c _ ha' _ _ => rw [ha] at ha'; cases ha'
  | inClose i _ _ _ _ => exact ⟨⟨b, k, ha⟩, hh, hoc⟩
  | mRecv i k' t f c _ ha' _ => rw [ha] at ha'; cases ha'
  | mRecvClosed i f c _ ha' _ _ => rw [ha] at ha'; cases ha'
  | mSend j' b' k' _ _ hc => rw [hcap] at hc; omega
  | mHand j' b' k' _ ha' _ _ hab' => rw [ha] at ha'; cases ha'; rw [hab] at hab'; cases hab'
  | mAnnounce j' k' _ ha' => rw [ha] at ha'; cases ha'
  | mHalt _ ha' => rw [ha] at ha'; cases ha'
  | outClose j' _ h2 _ _ _ => rw [hh] at h2; cases h2
  | cRecv j' k' t _ _ _ _ => exact ⟨⟨b, k, ha⟩, hh, hoc⟩

/-- once the loop is blocked on an absent consumer (unbuffered channels) NO consumer ever sees the end
of its stream: every output of the stage hangs for ever -/
theorem absent_blocks {S : Sys σ} (hcap : S.cap = 0) {j : Nat} (hab : S.absent j = true) {s : St σ}
    (h : BlockedOn S j s) : ∀ s', Reach S s s' → BlockedOn S j s' ∧ ∀ x, x < S.nout → s'.outClosed x = false := by
  intro s' hr
  induction hr with
  | init => exact ⟨h, fun x _ => h.2.2 x⟩
  | step _ st ih =>
    have := blocked_step hcap hab ih.1 st
    exact ⟨this, fun x _ => this.2.2 x⟩

end ObiVerif.LoopSteps
