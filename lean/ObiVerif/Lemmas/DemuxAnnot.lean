import ObiVerif.Lemmas.DemuxRead
/-! helper lemmas for C12: what one adjacent pair of hits yields (`emit`), membership in the result
of the state machine, the annotation list as a concatenation of blocks, the error flag of a record,
the routing of obimultiplex. -/
namespace ObiVerif.Demux
open ObiVerif.SeqOps (Bytes rc subsequence)

/-! ## what `emit` returns -/

/-- everything written on an amplicon is read off the read at the two hits -/
structure EmitSpec (markers : List Marker) (seq : Bytes) (f m : PrimerMatch) (a : Amplicon) : Prop where
  marker : a.marker = f.marker.toNat
  forward : a.forward = f.forward
  subFrom : a.subFrom = f.end_
  subTo : a.subTo = m.begin
  barcode : ∃ w sh, subsequence seq f.end_ m.begin false = .ok (w, sh) ∧
    a.barcode = if !m.forward then rc w else w
  first : ∃ m1, slice seq f.begin f.end_ = .ok m1 ∧ (if f.forward then a.fmatch else a.rmatch) = m1
  second : ∃ x sh, subsequence seq m.begin m.end_ false = .ok (x, sh) ∧
    (if f.forward then a.rmatch else a.fmatch) = rc x
  errors : (if f.forward then (a.ferr, a.rerr) else (a.rerr, a.ferr)) = (f.mism, m.mism)
  tags : ∃ mk, markers[f.marker.toNat - 1]? = some mk ∧
    tagExtractor mk seq f.begin m.end_ f.forward = .ok (a.ftag, a.rtag) ∧
    a.ident = identify mk a.ftag a.rtag

theorem emit_spec (markers : List Marker) (seq : Bytes) (f m : PrimerMatch) (a : Amplicon)
    (h : emit markers seq f m = .ok (some a)) : EmitSpec markers seq f m a := by
  unfold emit at h
  cases hmk : markers[f.marker.toNat - 1]? with
  | none => simp [hmk] at h
  | some mk =>
    simp only [hmk] at h
    by_cases hb : f.begin < 0 ∨ f.end_ > (seq.length : Int)
    · -- first primer match out of range: nothing is emitted
      simp only [hb, if_true, bind, Except.bind, pure, Except.pure] at h
      cases h2 : subsequence seq m.begin m.end_ false with
      | error e => cases e <;> simp [h2] at h
      | ok p => simp [h2] at h
    · simp only [hb, if_false, bind, Except.bind, pure, Except.pure] at h
      cases h1 : slice seq f.begin f.end_ with
      | error e => simp [h1] at h
      | ok m1 =>
        simp only [h1] at h
        cases h2 : subsequence seq m.begin m.end_ false with
        | error e => cases e <;> simp [h2] at h
        | ok p =>
          obtain ⟨x, sh1⟩ := p
          simp only [h2] at h
          cases h3 : tagExtractor mk seq f.begin m.end_ f.forward with
          | error e => simp [h3] at h
          | ok t =>
            obtain ⟨ft, rt⟩ := t
            simp only [h3] at h
            cases h4 : subsequence seq f.end_ m.begin false with
            | error e => cases e <;> simp [h4] at h
            | ok q =>
              obtain ⟨w, sh2⟩ := q
              simp only [h4] at h
              cases hf : f.forward <;> simp [hf] at h <;> subst h
              · exact ⟨rfl, hf.symm, rfl, rfl, ⟨w, sh2, h4, by simp⟩, ⟨m1, h1, by simp [hf]⟩,
                  ⟨x, sh1, h2, by simp [hf]⟩, by simp [hf], ⟨mk, hmk, by simpa [hf] using h3, rfl⟩⟩
              · exact ⟨rfl, hf.symm, rfl, rfl, ⟨w, sh2, h4, by simp⟩, ⟨m1, h1, by simp [hf]⟩,
                  ⟨x, sh1, h2, by simp [hf]⟩, by simp [hf], ⟨mk, hmk, by simpa [hf] using h3, rfl⟩⟩

theorem runPairs_mem (markers : List Marker) (seq : Bytes) (ps : List (PrimerMatch × PrimerMatch))
    (as : List Amplicon) (h : runPairs markers seq ps = .ok as) (a : Amplicon) (ha : a ∈ as) :
    ∃ p ∈ ps, emit markers seq p.1 p.2 = .ok (some a) := by
  induction ps generalizing as with
  | nil => simp [runPairs] at h; subst h; simp at ha
  | cons p ps ih =>
    obtain ⟨f, m⟩ := p
    simp only [runPairs, bind, Except.bind, pure, Except.pure] at h
    cases he : emit markers seq f m with
    | error e => simp [he] at h
    | ok oa =>
      simp only [he] at h
      cases hr : runPairs markers seq ps with
      | error e => simp [hr] at h
      | ok rest =>
        simp only [hr] at h
        cases oa with
        | none =>
          simp at h; subst h
          obtain ⟨q, hq, hqe⟩ := ih rest hr ha
          exact ⟨q, List.mem_cons_of_mem _ hq, hqe⟩
        | some x =>
          simp at h; subst h
          rcases List.mem_cons.1 ha with hax | hax
          · subst hax; exact ⟨(f, m), List.mem_cons_self, he⟩
          · obtain ⟨q, hq, hqe⟩ := ih rest hr hax
            exact ⟨q, List.mem_cons_of_mem _ hq, hqe⟩

theorem adjPairs_isPair (l : List PrimerMatch) (p : PrimerMatch × PrimerMatch) (h : p ∈ adjPairs l) :
    isPair p.1 p.2 = true ∧ p.1 ∈ l ∧ p.2 ∈ l := by
  induction l with
  | nil => simp [adjPairs] at h
  | cons x t ih =>
    cases t with
    | nil => simp [adjPairs] at h
    | cons y t' =>
      simp only [adjPairs, List.mem_append] at h
      rcases h with h | h
      · by_cases hp : isPair x y
        · simp [hp] at h; subst h; exact ⟨hp, by simp, by simp⟩
        · simp [hp] at h
      · obtain ⟨h1, h2, h3⟩ := ih h
        exact ⟨h1, List.mem_cons_of_mem _ h2, List.mem_cons_of_mem _ h3⟩

/-! ## annotations -/

theorem Annots.any_set (an : Annots) (k v k' : String) :
    (an.set k v).any (·.1 == k') = (an.any (·.1 == k') || k == k') := by
  unfold Annots.set
  by_cases hk : k = k'
  · subst hk
    split
    · rename_i h
      simp only [beq_self_eq_true, Bool.or_true]
      obtain ⟨p, hp, hpk⟩ := List.any_eq_true.1 h
      apply List.any_eq_true.2
      exact ⟨(k, v), List.mem_map.2 ⟨p, hp, by simp [hpk]⟩, by simp⟩
    · simp
  · have hk' : (k == k') = false := by simp [hk]
    split
    · rw [hk', Bool.or_false, List.any_map]
      congr 1
      funext p
      by_cases hp : p.1 = k
      · simp [hp]
      · simp [hp]
    · simp [hk']

/-- a key that is not there yet is appended -/
theorem Annots.set_fresh (an : Annots) (k v : String) (h : an.any (·.1 == k) = false) :
    an.set k v = an ++ [(k, v)] := by
  unfold Annots.set
  simp [h]

/-! ## the annotation list of an amplicon, block by block -/

def tagBlock (k : String) (t : Bytes) : Annots := if t ≠ [] then [(k, str t)] else []

def fpropBlock (mode : Mode) : Option (Bytes × Option Nat) → Annots
  | some (t, d) => [("obimultiplex_forward_matching", modeName mode),
      ("obimultiplex_forward_tag_dist", distStr d), ("obimultiplex_forward_proposed_tag", str t)]
  | none => []

def rpropBlock (mode : Mode) : Option (Bytes × Option Nat) → Annots
  | some (t, d) => [("obimultiplex_reverse_matching", modeName mode),
      ("obimultiplex_reverse_tag_dist", distStr d), ("obimultiplex_reverse_proposed_tag", str t)]
  | none => []

/-- the annotations common to assigned and unassigned amplicons -/
def baseAnnots (mk : Marker) (a : Amplicon) : Annots :=
  [("obimultiplex_forward_primer", mk.fprimer), ("obimultiplex_reverse_primer", mk.rprimer),
   ("obimultiplex_forward_match", str a.fmatch), ("obimultiplex_reverse_match", str a.rmatch),
   ("obimultiplex_forward_error", toString a.ferr), ("obimultiplex_reverse_error", toString a.rerr)] ++
  tagBlock "obimultiplex_forward_tag" a.ftag ++ tagBlock "obimultiplex_reverse_tag" a.rtag ++
  [("obimultiplex_direction", if a.forward then "forward" else "reverse")] ++
  fpropBlock mk.fmode a.ident.fprop ++ rpropBlock mk.rmode a.ident.rprop

def proposedOf : Option (Bytes × Option Nat) → Bytes
  | some (t, _) => t
  | none => []

theorem annotsOf_blocks (mk : Marker) (a : Amplicon) :
    annotsOf mk a =
      match a.ident.pcr with
      | none => baseAnnots mk a ++ [("obimultiplex_error",
          "Cannot associate sample to the tag pair (" ++ str (proposedOf a.ident.fprop) ++ ":" ++
            str (proposedOf a.ident.rprop) ++ ")")]
      | some s => s.annots.foldl (fun acc kv => acc.set kv.1 kv.2)
          (baseAnnots mk a ++ [("sample", s.name), ("experiment", s.experiment)]) := by
  unfold annotsOf baseAnnots
  by_cases hft : a.ftag = [] <;> by_cases hrt : a.rtag = [] <;>
    rcases hfp : a.ident.fprop with _ | ⟨tf, df⟩ <;> rcases hrp : a.ident.rprop with _ | ⟨tr, dr⟩ <;>
    rcases hp : a.ident.pcr with _ | s <;>
    simp [hft, hrt, tagBlock, fpropBlock, rpropBlock, proposedOf, Annots.set]

/-! ## the error flag of a record -/

theorem baseAnnots_no_error (mk : Marker) (a : Amplicon) :
    (baseAnnots mk a).any (·.1 == "obimultiplex_error") = false := by
  unfold baseAnnots
  by_cases hft : a.ftag = [] <;> by_cases hrt : a.rtag = [] <;>
    rcases a.ident.fprop with _ | ⟨tf, df⟩ <;> rcases a.ident.rprop with _ | ⟨tr, dr⟩ <;>
    simp [hft, hrt, tagBlock, fpropBlock, rpropBlock]

theorem foldl_set_any (l : Annots) (an : Annots) (k' : String) (h : ∀ kv ∈ l, kv.1 ≠ k') :
    (l.foldl (fun acc kv => acc.set kv.1 kv.2) an).any (·.1 == k') = an.any (·.1 == k') := by
  induction l generalizing an with
  | nil => rfl
  | cons kv t ih =>
    simp only [List.foldl_cons]
    rw [ih _ (fun x hx => h x (List.mem_cons_of_mem _ hx)), Annots.any_set]
    have : (kv.1 == k') = false := by simp [h kv List.mem_cons_self]
    rw [this, Bool.or_false]

/-- the sample sheet does not define an annotation column named `obimultiplex_error` -/
def NoErrorKey (a : Amplicon) : Prop :=
  ∀ s, a.ident.pcr = some s → ∀ kv ∈ s.annots, kv.1 ≠ "obimultiplex_error"

theorem annotsOf_error (mk : Marker) (a : Amplicon) (hk : NoErrorKey a) :
    (annotsOf mk a).any (·.1 == "obimultiplex_error") = a.ident.pcr.isNone := by
  rw [annotsOf_blocks]
  cases hp : a.ident.pcr with
  | none => simp
  | some s =>
    simp only [Option.isNone_some]
    rw [foldl_set_any _ _ _ (hk s hp)]
    simp [baseAnnots_no_error]

theorem rankAll_mem (id : String) (markers : List Marker) (n i : Nat) (as : List Amplicon)
    (r : Record) (h : r ∈ rankAll id markers n i as) :
    ∃ a ∈ as, r.seq = a.barcode ∧
      ∀ mk, markers[a.marker - 1]? = some mk → NoErrorKey a → r.hasError = a.ident.pcr.isNone := by
  induction as generalizing i with
  | nil => simp [rankAll] at h
  | cons a t ih =>
    simp only [rankAll, List.mem_cons] at h
    rcases h with h | h
    · refine ⟨a, List.mem_cons_self, by rw [h], ?_⟩
      intro mk hmk hk
      subst h
      simp only [Record.hasError, hmk]
      rw [Annots.any_set, annotsOf_error mk a hk]
      simp
    · obtain ⟨b, hb, h1, h2⟩ := ih (i + 1) h
      exact ⟨b, List.mem_cons_of_mem _ hb, h1, h2⟩

/-! ## routing -/

theorem route_out_no_error (keep : Bool) (recs : List Record) (r : Record)
    (h : r ∈ (route keep true recs).out ∨ r ∈ (route false false recs).out) : r.hasError = false := by
  rcases h with h | h <;> simp [route, List.mem_filter] at h <;> exact h.2

theorem route_partition (keep : Bool) (recs : List Record) :
    ∃ us, (route keep true recs).unidentified = some us ∧ (∀ r ∈ us, r.hasError = true) ∧
      ((route keep true recs).out ++ us).Perm recs := by
  refine ⟨recs.filter (·.hasError), by simp [route], ?_, ?_⟩
  · intro r hr; exact (List.mem_filter.1 hr).2
  · simp only [route, if_true]
    exact List.perm_append_comm.trans (List.filter_append_perm _ _)

end ObiVerif.Demux
