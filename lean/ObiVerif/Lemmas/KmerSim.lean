import ObiVerif.Model.KmerSim
import ObiVerif.Lemmas.KmerCanon
import ObiVerif.Lemmas.KmerWin
import ObiVerif.Lemmas.KmerIndex
import ObiVerif.Lemmas.KmerIndexLim
set_option Elab.async false
/-!
# Lemmas for the glue of obikmersimcount / obikmermatch (C19, glue pass)

* the `KmerMatch` returned by `Query` is a map (distinct keys), so `Len` after `FilterMinCount` is the NUMBER of
  references satisfying the lookup characterisation of `kmQuery_any` / `kmQuery_lim`;
* the statistic at the level of the raw strings (`sharedSpec`, over `canonSpec`, no machine word);
* `newKmerMap`: the sparse flag seen by the command.
-/
namespace ObiVerif.KmerSim
open ObiVerif.Kmer

/-! ## association lists with distinct keys -/

theorem mem_keys_iff_lookup {β : Type} (l : List (Nat × β)) (j : Nat) :
    j ∈ l.map Prod.fst ↔ (l.lookup j).isSome = true := by
  induction l with
  | nil => simp
  | cons p t ih =>
    obtain ⟨z, u⟩ := p
    by_cases e : j = z
    · subst e; simp [List.lookup]
    · have e' : (j == z) = false := by simpa using e
      simp only [List.map_cons, List.mem_cons, List.lookup, e', e, false_or]
      exact ih

/-- the length of a map given as an association list = the number of keys below a bound that are present -/
theorem length_eq_count_keys {β : Type} (l : List (Nat × β)) (hn : (l.map Prod.fst).Nodup) (N : Nat)
    (hlt : ∀ j, (l.lookup j).isSome = true → j < N) :
    l.length = ((List.range N).filter fun j => (l.lookup j).isSome).length := by
  have hp : (l.map Prod.fst).Perm ((List.range N).filter fun j => (l.lookup j).isSome) := by
    rw [List.perm_ext_iff_of_nodup hn (List.nodup_range.filter _)]
    intro j
    rw [mem_keys_iff_lookup, List.mem_filter, List.mem_range]
    constructor
    · intro h; exact ⟨hlt j h, h⟩
    · intro h; exact h.2
  rw [← hp.length_eq, List.length_map]

theorem keys_matchSet (m : List (Nat × Nat)) (x v y : Nat) (h : y ∈ (matchSet m x v).map Prod.fst) :
    y = x ∨ y ∈ m.map Prod.fst := by
  induction m with
  | nil => simp [matchSet] at h; exact Or.inl h
  | cons p t ih =>
    obtain ⟨z, u⟩ := p
    unfold matchSet at h
    by_cases e : z = x
    · simp only [e, if_true, List.map_cons, List.mem_cons] at h
      rcases h with h | h
      · exact Or.inl h
      · right; simp [h]
    · simp only [e, if_false, List.map_cons, List.mem_cons] at h
      rcases h with h | h
      · right; simp [h]
      · rcases ih h with h | h
        · exact Or.inl h
        · right; simp [h]

theorem matchSet_nodup (m : List (Nat × Nat)) (x v : Nat) (h : (m.map Prod.fst).Nodup) :
    ((matchSet m x v).map Prod.fst).Nodup := by
  induction m with
  | nil => simp [matchSet]
  | cons p t ih =>
    obtain ⟨z, u⟩ := p
    simp only [List.map_cons, List.nodup_cons] at h
    unfold matchSet
    by_cases e : z = x
    · simp only [e, if_true, List.map_cons, List.nodup_cons]; rw [← e]; exact h
    · simp only [e, if_false, List.map_cons, List.nodup_cons]
      refine ⟨?_, ih h.2⟩
      intro hm
      rcases keys_matchSet t x v z hm with h1 | h1
      · exact e h1
      · exact h.1 h1

theorem scanStep_rep (qid : Nat) (st : Scan) (seq : Nat) :
    (scanStep qid st seq).rep =
      if st.prev ≠ some seq then
        (match st.prev with
          | some p => if p ≠ qid then matchSet st.rep p st.n else st.rep
          | none => st.rep)
      else st.rep := by
  unfold scanStep
  split <;> rfl

theorem scanStep_nodup (qid : Nat) (st : Scan) (seq : Nat) (h : (st.rep.map Prod.fst).Nodup) :
    ((scanStep qid st seq).rep.map Prod.fst).Nodup := by
  rw [scanStep_rep]
  split
  · split
    · split
      · exact matchSet_nodup _ _ _ h
      · exact h
    · exact h
  · exact h

theorem foldl_scanStep_nodup (qid : Nat) (L : List Nat) : ∀ st : Scan, (st.rep.map Prod.fst).Nodup →
    ((L.foldl (scanStep qid) st).rep.map Prod.fst).Nodup := by
  induction L with
  | nil => intro st h; exact h
  | cons a t ih => intro st h; exact ih _ (scanStep_nodup qid st a h)

/-- the `KmerMatch` of `Query` has distinct keys -/
theorem kmQuery_nodup (m : KmerMap) (idx : Index) (rank : Nat → Nat) (qid : Nat) (q : Bytes) :
    ((kmQuery m idx rank qid q).map Prod.fst).Nodup := by
  unfold kmQuery
  dsimp only
  generalize (sortRank rank _) = L
  have h := foldl_scanStep_nodup qid L ⟨none, 0, []⟩ (by simp)
  generalize L.foldl (scanStep qid) ⟨none, 0, []⟩ = st at h
  unfold scanResult
  split
  · split
    · exact matchSet_nodup _ _ _ h
    · exact h
  · exact h

/-- **`Len` after `FilterMinCount`** of a `KmerMatch` whose lookups are characterised by `P j` / `val j`: the number of
`j < N` with `P j` and `min ≤ val j` -/
theorem candidates_length (rep : List (Nat × Nat)) (hn : (rep.map Prod.fst).Nodup) (N : Nat) (P : Nat → Prop)
    [DecidablePred P] (val : Nat → Nat)
    (hl : ∀ j, rep.lookup j = if j < N ∧ P j then some (val j) else none) (min : Int) :
    (filterMinCount rep min).length =
      ((List.range N).filter fun j => decide (P j) && decide (min ≤ (val j : Int))).length ∧
    ∀ j, j ∈ (filterMinCount rep min).map Prod.fst ↔ j < N ∧ P j ∧ min ≤ (val j : Int) := by
  have hf : ∀ j, (filterMinCount rep min).lookup j =
      if j < N ∧ P j ∧ min ≤ (val j : Int) then some (val j) else none := by
    intro j
    unfold filterMinCount
    rw [lookup_filter_nodup' rep hn, hl j]
    by_cases h : j < N ∧ P j
    · simp only [h, and_self, if_true, true_and]
      by_cases hm : min ≤ (val j : Int)
      · have : ¬ ((val j : Int) < min) := by omega
        simp [hm, this]
      · have : (val j : Int) < min := by omega
        simp [hm, this]
    · have : ¬ (j < N ∧ P j ∧ min ≤ (val j : Int)) := fun hh => h ⟨hh.1, hh.2.1⟩
      simp [h, this]
  have hn' : ((filterMinCount rep min).map Prod.fst).Nodup := by
    unfold filterMinCount
    exact (hn.sublist ((List.filter_sublist).map Prod.fst))
  constructor
  · rw [length_eq_count_keys _ hn' N (fun j h => by
      rw [hf j] at h
      by_cases hh : j < N ∧ P j ∧ min ≤ (val j : Int)
      · exact hh.1
      · simp [hh] at h)]
    congr 1
    apply List.filter_congr
    intro j hj
    have hj' : j < N := List.mem_range.mp hj
    rw [hf j]
    by_cases hP : P j
    · by_cases hm : min ≤ (val j : Int)
      · simp [hj', hP, hm]
      · simp [hj', hP, hm]
    · simp [hP]
  · intro j
    rw [mem_keys_iff_lookup, hf j]
    by_cases hh : j < N ∧ P j ∧ min ≤ (val j : Int)
    · simp [hh]
    · simp [hh]

/-! ## the statistic on the raw strings -/

/-- canonical k-mers of a sequence, at the level of the specification (`canonSpec`: the windows of `k` plain bases, each
the smaller of the window and its reverse complement, central base erased in sparse mode) -/
def canonOf (k : Nat) (sparse : Bool) (s : Bytes) : List Nat := canonSpec k sparse (s.map plain)

/-- occurrences of the canonical k-mer `x` in all the references -/
def occSpec (k : Nat) (sparse : Bool) (refs : List Bytes) (x : Nat) : Nat :=
  (refs.map fun s => (canonOf k sparse s).count x).sum

/-- the occurrence limit as the command gives it to `NewKmerMap`: `-1` = none -/
def limOf (maxOcc : Int) : Option Nat := if maxOcc = -1 then none else some maxOcc.toNat

/-- is the k-mer kept by the index -/
def keptSpec (k : Nat) (sparse : Bool) (lim : Option Nat) (refs : List Bytes) (x : Nat) : Bool :=
  match lim with
  | none => true
  | some M => decide (occSpec k sparse refs x < M)

/-- number of canonical k-mer occurrences the query shares with reference `j` (every canonical k-mer of the query, with
its repetitions, times its multiplicity in the reference), the k-mers dropped by the occurrence limit being ignored -/
def sharedSpec (k : Nat) (sparse : Bool) (lim : Option Nat) (refs : List Bytes) (q : Bytes) (j : Nat) : Nat :=
  ((canonOf k sparse q).map fun x =>
    if keptSpec k sparse lim refs x then (canonOf k sparse (refs.getD j [])).count x else 0).sum

/-- is reference `j` a candidate for the query `qid`: not the query itself, at least one shared occurrence, and
`shared + 1 ≥ min` (the rule of `FilterMinCount` on the value `Query` reports) -/
def isCandidate (k : Nat) (sparse : Bool) (lim : Option Nat) (min : Int) (refs : List Bytes) (qid : Nat) (q : Bytes)
    (j : Nat) : Bool :=
  decide (j ≠ qid ∧ 0 < sharedSpec k sparse lim refs q j) && decide (min ≤ ((sharedSpec k sparse lim refs q j + 1 : Nat) : Int))

/-- `obikmer_match_count` as the user reads it -/
def matchNumber (k : Nat) (sparse : Bool) (lim : Option Nat) (min : Int) (refs : List Bytes) (qid : Nat) (q : Bytes) : Nat :=
  ((List.range refs.length).filter (isCandidate k sparse lim min refs qid q)).length

theorem shared_eq_spec (m : KmerMap) (sparse : Bool) (hv : Valid m sparse) (refs : List Bytes) (q : Bytes) (j : Nat) :
    shared m refs q j = sharedSpec m.kmersize sparse none refs q j := by
  unfold shared sharedSpec canonOf keptSpec
  simp only [normalizedKmerSlice_eq m sparse hv, if_true]

theorem sharedLim_eq_spec (m : KmerMap) (sparse : Bool) (hv : Valid m sparse) (M : Nat) (refs : List Bytes) (q : Bytes)
    (j : Nat) : sharedLim m M refs q j = sharedSpec m.kmersize sparse (some M) refs q j := by
  unfold sharedLim sharedSpec canonOf keptSpec occSpec canonOf
  simp only [normalizedKmerSlice_eq m sparse hv, occTotal_eq, decide_eq_true_eq]

/-- the lookups of the real `Query` on the index of the command, limit or not -/
theorem kmQuery_spec (m : KmerMap) (sparse : Bool) (hv : Valid m sparse) (maxOcc : Int)
    (hM : maxOcc = -1 ∨ 0 ≤ maxOcc) (refs : List Bytes) (q : Bytes) (rank : Nat → Nat) (qid : Nat)
    (hinj : ∀ a b, a < refs.length → b < refs.length → rank a = rank b → a = b) (j : Nat) :
    (kmQuery m (newIndex m maxOcc refs) rank qid q).lookup j =
      if j < refs.length ∧ (j ≠ qid ∧ 0 < sharedSpec m.kmersize sparse (limOf maxOcc) refs q j)
      then some (sharedSpec m.kmersize sparse (limOf maxOcc) refs q j + 1) else none := by
  rcases hM with hM | hM
  · subst hM
    rw [kmQuery_any m refs q rank qid hinj j, shared_eq_spec m sparse hv,
      show limOf (-1) = none from by simp [limOf]]
  · obtain ⟨M, rfl⟩ := Int.eq_ofNat_of_zero_le hM
    rw [kmQuery_lim m M refs q rank qid hinj j, sharedLim_eq_spec m sparse hv]
    have : limOf (M : Int) = some M := by
      unfold limOf
      have : ¬ ((M : Int) = -1) := by omega
      simp [this]
    rw [this]

/-- **one read through the worker**: the candidates after `FilterMinCount` are exactly the references satisfying
`isCandidate`, and `Len` is their number -/
theorem candidates_spec (m : KmerMap) (sparse : Bool) (hv : Valid m sparse) (maxOcc : Int)
    (hM : maxOcc = -1 ∨ 0 ≤ maxOcc) (refs : List Bytes) (q : Bytes) (rank : Nat → Nat) (qid : Nat)
    (hinj : ∀ a b, a < refs.length → b < refs.length → rank a = rank b → a = b) (min : Int) :
    (candidates m (newIndex m maxOcc refs) rank min qid q).length =
      matchNumber m.kmersize sparse (limOf maxOcc) min refs qid q ∧
    ∀ j, j ∈ (candidates m (newIndex m maxOcc refs) rank min qid q).map Prod.fst ↔
      j < refs.length ∧ isCandidate m.kmersize sparse (limOf maxOcc) min refs qid q j = true := by
  have h := candidates_length (kmQuery m (newIndex m maxOcc refs) rank qid q) (kmQuery_nodup _ _ _ _ _) refs.length
    (fun j => j ≠ qid ∧ 0 < sharedSpec m.kmersize sparse (limOf maxOcc) refs q j)
    (fun j => sharedSpec m.kmersize sparse (limOf maxOcc) refs q j + 1)
    (kmQuery_spec m sparse hv maxOcc hM refs q rank qid hinj) min
  constructor
  · exact h.1
  · intro j
    rw [show candidates m (newIndex m maxOcc refs) rank min qid q =
      filterMinCount (kmQuery m (newIndex m maxOcc refs) rank qid q) min from rfl, h.2 j]
    unfold isCandidate
    simp only [Bool.and_eq_true, decide_eq_true_eq]

/-! ## `newKmerMap`: what the command sees of the parameters -/

theorem valid_sparseAt (W k0 : Nat) (sparse : Bool) (m : KmerMap) (h : newKmerMap W k0 sparse = .ok m) :
    m.sparseAt = -1 ∨ 0 ≤ m.sparseAt := by
  cases sparse with
  | false =>
    left
    simp [newKmerMap, bind, Except.bind, pure, Except.pure] at h
    split at h <;> (rw [← h])
  | true =>
    simp only [newKmerMap, bind, Except.bind, pure, Except.pure] at h
    repeat' split at h
    all_goals first
      | (cases h; done)
      | (cases h; first | exact Or.inl rfl | exact Or.inr (Int.natCast_nonneg _))

end ObiVerif.KmerSim
