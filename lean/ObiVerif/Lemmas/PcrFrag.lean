import ObiVerif.Lemmas.Pcr
/-!
# Lemmas for C11: fragmented search (`obiiter.IFragments` + `_PCRSlice` over the pieces, `obipcr --fragmented`)

* the cutting loop `fragLoop`: it terminates (`fragLoop_some`), its pieces are non-empty intervals of the template
  (`fragLoop_pieces`) and **every window of at most `overlap + 1` symbols lies inside one piece** (`fragLoop_cover`; the
  bound is exact: `fragLoop_cover_sharp`);
* a priming site of a piece is a priming site of the template that lies inside the piece (`matchAt_seg`);
* the record reported for a pair of sites of a piece is, once its coordinates are moved by the offset of the piece
  (`shiftAmp`), the record of the same pair on the template (`mkAmp_seg`);
* the window asked by the options on the piece vs. on the template (`linBounds_to_whole`, `linBounds_to_piece`,
  `linBounds_clipped`).
-/
namespace ObiVerif.Pcr
open ObiVerif ObiVerif.Apat

/-! ## the cutting loop -/

/-- with `fuel > len - i` and a positive step the loop ends normally -/
theorem fragLoop_some (len length step : Nat) (hs : 1 ≤ step) :
    ∀ fuel i, len ≤ i + fuel → ∃ ps, fragLoop len length step (fuel + 1) i = some ps := by
  intro fuel
  induction fuel with
  | zero =>
    intro i h
    unfold fragLoop
    rw [if_neg (by omega)]
    exact ⟨[], rfl⟩
  | succ n ih =>
    intro i h
    unfold fragLoop
    by_cases hi : i < len
    · rw [if_pos hi]
      simp only []
      split
      · exact ⟨_, rfl⟩
      · obtain ⟨ps, hps⟩ := ih (i + step) (by omega)
        rw [hps]
        exact ⟨_, rfl⟩
    · rw [if_neg hi]
      exact ⟨[], rfl⟩

/-- every piece is a non-empty interval `[a, b)` of the template, starting at or after `i` -/
theorem fragLoop_pieces (len length step : Nat) (hl : 1 ≤ length) :
    ∀ fuel i ps, fragLoop len length step fuel i = some ps → ∀ p ∈ ps, i ≤ p.1 ∧ p.1 < p.2 ∧ p.2 ≤ len := by
  intro fuel
  induction fuel with
  | zero => intro i ps h; unfold fragLoop at h; cases h
  | succ n ih =>
    intro i ps h p hp
    unfold fragLoop at h
    by_cases hi : i < len
    · rw [if_pos hi] at h
      simp only [] at h
      split at h
      · cases h
        simp only [List.mem_singleton] at hp
        subst hp
        exact ⟨Nat.le_refl _, hi, Nat.le_refl _⟩
      · cases hr : fragLoop len length step n (i + step) with
        | none => rw [hr] at h; cases h
        | some r =>
          rw [hr] at h
          simp only [Option.map_some, Option.some.injEq] at h
          subst h
          rcases List.mem_cons.mp hp with rfl | hp
          · exact ⟨Nat.le_refl _, by simp only; omega, by simp only; omega⟩
          · have := ih (i + step) r hr p hp
            exact ⟨by omega, this.2⟩
    · rw [if_neg hi] at h
      cases h
      cases hp

/-- **coverage**: every window `[s, e)` of the template with at most `length - step + 1 = overlap + 1` symbols lies
inside one piece -/
theorem fragLoop_cover (len length step : Nat) (hsl : step ≤ length) :
    ∀ fuel i ps, fragLoop len length step fuel i = some ps →
      ∀ s e, i ≤ s → s < e → e ≤ len → e - s ≤ length - step + 1 → ∃ p ∈ ps, p.1 ≤ s ∧ e ≤ p.2 := by
  intro fuel
  induction fuel with
  | zero => intro i ps h; unfold fragLoop at h; cases h
  | succ n ih =>
    intro i ps h s e his hse hel hw
    unfold fragLoop at h
    rw [if_pos (by omega)] at h
    simp only [] at h
    split at h
    · cases h
      exact ⟨(i, len), by simp, his, hel⟩
    · cases hr : fragLoop len length step n (i + step) with
      | none => rw [hr] at h; cases h
      | some r =>
        rw [hr] at h
        simp only [Option.map_some, Option.some.injEq] at h
        subst h
        by_cases hin : s < i + step
        · exact ⟨(i, min (i + length) len), by simp, his, by simp only; omega⟩
        · obtain ⟨p, hp, h1, h2⟩ := ih (i + step) r hr s e (by omega) hse hel hw
          exact ⟨p, List.mem_cons_of_mem _ hp, h1, h2⟩

/-- the pieces `IFragments` makes of a template longer than `minsize` -/
theorem fragments_some (minsize length overlap : Int) (len : Nat) (hm : minsize < len) (hst : 0 < length - overlap) :
    ∃ ps, fragments minsize length overlap len = some (some ps) ∧
      fragLoop len length.toNat (length - overlap).toNat (len + 1) 0 = some ps := by
  obtain ⟨ps, hps⟩ := fragLoop_some len length.toNat (length - overlap).toNat (by omega) len 0 (by omega)
  refine ⟨ps, ?_, hps⟩
  unfold fragments
  rw [if_neg (by omega), if_neg (by omega), hps]
  rfl

theorem fragments_inv (minsize length overlap : Int) (len : Nat) (ps : List (Nat × Nat))
    (h : fragments minsize length overlap len = some (some ps)) :
    minsize < len ∧ 0 < length - overlap ∧ fragLoop len length.toNat (length - overlap).toNat (len + 1) 0 = some ps := by
  unfold fragments at h
  split at h
  · cases h
  · split at h
    · cases h
    · cases hr : fragLoop len length.toNat (length - overlap).toNat (len + 1) 0 with
      | none => rw [hr] at h; cases h
      | some r =>
        rw [hr] at h
        simp only [Option.map_some, Option.some.injEq] at h
        subst h
        exact ⟨by omega, by omega, rfl⟩

/-! ## segments of segments, sites of a piece -/

theorem seg_length (seq : Bytes) (a b : Nat) (hb : b ≤ seq.length) : (seg seq a b).length = b - a := by
  unfold seg
  simp only [List.length_take, List.length_drop]
  omega

theorem seg_seg (seq : Bytes) (fa fb a b : Nat) (h : fa + b ≤ fb) :
    seg (seg seq fa fb) a b = seg seq (fa + a) (fa + b) := by
  unfold seg
  rw [List.drop_take, List.take_take, List.drop_drop]
  congr 1
  omega

theorem enc_seg (seq : Bytes) (fa fb : Nat) : enc (seg seq fa fb) = ((enc seq).drop fa).take (fb - fa) := by
  simp [enc, seg, List.map_take, List.map_drop]

theorem hamCost_take_ge (q w : List Nat) (n : Nat) (h : q.length ≤ n) : hamCost q (w.take n) = hamCost q w := by
  rw [← hamCost_take q (w.take n), List.take_take, Nat.min_eq_left h, hamCost_take]

/-- **a priming site of the piece `[fa, fb)`** at offset `i` = a priming site of the template at offset `fa + i` that
lies inside the piece -/
theorem matchAt_seg (P : Pattern) (seq : Bytes) (fa fb i k : Nat) (hab : fa ≤ fb) (hfb : fb ≤ seq.length) :
    MatchAt P (enc (seg seq fa fb)) i k ↔ MatchAt P (enc seq) (fa + i) k ∧ fa + i + P.patlen ≤ fb := by
  unfold MatchAt
  rw [enc_length, enc_length, seg_length seq fa fb hfb, enc_seg]
  constructor
  · rintro ⟨h1, h2, h3⟩
    refine ⟨⟨by omega, ?_, h3⟩, by omega⟩
    rw [List.drop_take, List.drop_drop, hamCost_take_ge _ _ _ (by unfold Pattern.patlen at h1; omega)] at h2
    exact h2
  · rintro ⟨⟨h1, h2, h3⟩, h4⟩
    refine ⟨by omega, ?_, h3⟩
    rw [List.drop_take, List.drop_drop, hamCost_take_ge _ _ _ (by unfold Pattern.patlen at h4; omega)]
    exact h2

/-! ## records of a piece in the coordinates of the template -/

/-- a hit moved by `f` positions -/
def shiftHit (f : Int) (h : Hit) : Hit := (h.1 + f, h.2.1 + f, h.2.2)

/-- **a record of a piece seen in the coordinates of the template**: id coordinates and hits moved by the offset `f` of the
piece; direction, nucleotides, matched strings and error counts unchanged -/
def shiftAmp (f : Int) (x : Amplicon) : Amplicon :=
  { x with idFrom := x.idFrom + f, idTo := x.idTo + f, hitD := shiftHit f x.hitD, hitC := shiftHit f x.hitC }

theorem shiftAmp_injective (f : Int) : Function.Injective (shiftAmp f) := by
  intro a b h
  obtain ⟨d, f1, t1, s, fm, fe, rm, re, ⟨h1, h2, h3⟩, ⟨c1, c2, c3⟩⟩ := a
  obtain ⟨d', f1', t1', s', fm', fe', rm', re', ⟨h1', h2', h3'⟩, ⟨c1', c2', c3'⟩⟩ := b
  simp only [shiftAmp, shiftHit, Amplicon.mk.injEq, Prod.mk.injEq] at h ⊢
  obtain ⟨e1, e2, e3, e4, e5, e6, e7, e8, ⟨e9, e10, e11⟩, e12, e13, e14⟩ := h
  exact ⟨e1, by omega, by omega, e4, e5, e6, e7, e8, ⟨by omega, by omega, e11⟩, by omega, by omega, e14⟩

/-- first and last position (exclusive) of the template a record depends on: its two sites and its window -/
def ampLo (x : Amplicon) : Int := min x.hitD.1 (x.idFrom - 1)
def ampHi (x : Amplicon) : Int := max x.hitC.2.1 x.idTo

theorem mkAmp_seg (d : Bool) (seq : Bytes) (fa fb i ki j kj dl cl a b : Nat)
    (hi : fa + i + dl ≤ fb) (hj : fa + j + cl ≤ fb) (hb : fa + b ≤ fb) :
    shiftAmp fa (mkAmp d (seg seq fa fb) i ki j kj dl cl a b) =
      mkAmp d seq (fa + i) ki (fa + j) kj dl cl (fa + a) (fa + b) := by
  have s1 := seg_seg seq fa fb a b hb
  have s2 := seg_seg seq fa fb i (i + dl) (by omega)
  have s3 := seg_seg seq fa fb j (j + cl) (by omega)
  have e2 : fa + (i + dl) = fa + i + dl := by omega
  have e3 : fa + (j + cl) = fa + j + cl := by omega
  rw [e2] at s2
  rw [e3] at s3
  cases d with
  | true =>
    simp only [shiftAmp, shiftHit, mkAmp, if_true, s1, s2, s3, Amplicon.mk.injEq, Prod.mk.injEq, true_and]
    refine ⟨by omega, by omega, ⟨by omega, by omega, trivial⟩, by omega, by omega, trivial⟩
  | false =>
    simp only [shiftAmp, shiftHit, mkAmp, Bool.false_eq_true, if_false, s1, s2, s3, Amplicon.mk.injEq, Prod.mk.injEq, true_and]
    refine ⟨by omega, by omega, ⟨by omega, by omega, trivial⟩, by omega, by omega, trivial⟩

theorem mkAmp_lo_hi (d : Bool) (seq : Bytes) (i ki j kj dl cl a b : Nat) :
    ampLo (mkAmp d seq i ki j kj dl cl a b) = min (i : Int) a ∧
      ampHi (mkAmp d seq i ki j kj dl cl a b) = max ((j : Int) + cl) b := by
  cases d <;> simp [ampLo, ampHi, mkAmp]

/-! ## the window the options ask for, on a piece and on the template -/

/-- no flanks, or only complete flanks: the window of a pair of sites of a piece is the window of the pair on the template -/
theorem linBounds_to_whole (o : Opts) (hm : o.hasExtension = false ∨ o.fullExtension = true) (L fa fb i dl j cl a b : Nat)
    (hfb : fb ≤ L) (hfa : fa ≤ fb) (h : linBounds o (fb - fa) i dl j cl = some (a, b)) :
    linBounds o L (fa + i) dl (fa + j) cl = some (fa + a, fa + b) := by
  unfold linBounds at h ⊢
  by_cases hx : o.hasExtension = true
  · have hf : o.fullExtension = true := by
      rcases hm with hm | hm
      · rw [hm] at hx; cases hx
      · exact hm
    rw [if_pos hx, if_pos hf] at h ⊢
    split at h
    · rename_i hin
      simp only [Option.some.injEq, Prod.mk.injEq] at h
      rw [if_pos (by omega)]
      simp only [Option.some.injEq, Prod.mk.injEq]
      omega
    · cases h
  · rw [if_neg hx] at h ⊢
    simp only [Option.some.injEq, Prod.mk.injEq] at h ⊢
    omega

/-- any mode: a pair of sites of the template whose sites and window lie inside the piece has, on the piece, the same
window (flanks clipped at an end of the template are clipped at the same end of the piece, which is that end) -/
theorem linBounds_to_piece (o : Opts) (L fa fb i dl j cl A B : Nat) (hfb : fb ≤ L)
    (hj : fa + j + cl ≤ fb) (hA : fa ≤ A) (hB : B ≤ fb)
    (h : linBounds o L (fa + i) dl (fa + j) cl = some (A, B)) :
    linBounds o (fb - fa) i dl j cl = some (A - fa, B - fa) := by
  unfold linBounds at h ⊢
  by_cases hx : o.hasExtension = true
  · rw [if_pos hx] at h ⊢
    by_cases hf : o.fullExtension = true
    · rw [if_pos hf] at h ⊢
      split at h
      · rename_i hin
        simp only [Option.some.injEq, Prod.mk.injEq] at h
        rw [if_pos (by omega)]
        simp only [Option.some.injEq, Prod.mk.injEq]
        omega
      · cases h
    · rw [if_neg hf] at h ⊢
      simp only [Option.some.injEq, Prod.mk.injEq] at h ⊢
      omega
  · rw [if_neg hx] at h ⊢
    simp only [Option.some.injEq, Prod.mk.injEq] at h ⊢
    omega

/-- flanks that may be clipped: the window of a pair of sites of a piece is contained in the window of the pair on the
template — an end of the piece clips a flank like an end of the template -/
theorem linBounds_clipped (o : Opts) (hx : o.hasExtension = true) (hf : o.fullExtension = false)
    (L fa fb i dl j cl a b : Nat) (hfb : fb ≤ L) (hfa : fa ≤ fb)
    (h : linBounds o (fb - fa) i dl j cl = some (a, b)) :
    ∃ A B, linBounds o L (fa + i) dl (fa + j) cl = some (A, B) ∧ A ≤ fa + a ∧ fa + b ≤ B ∧
      ((o.extension.toNat ≤ i ∨ fa = 0) → A = fa + a) ∧ ((fa + j + cl + o.extension.toNat ≤ fb ∨ fb = L) → B = fa + b) := by
  unfold linBounds at h ⊢
  rw [if_pos hx, if_neg (by simp [hf])] at h ⊢
  simp only [Option.some.injEq, Prod.mk.injEq] at h
  refine ⟨_, _, rfl, by omega, by omega, by omega, by omega⟩

/-! ## one orientation block on a piece and on the template -/

/-- **complete, every linear mode**: a record of the template whose two sites and window lie inside the piece `[fa, fb)` is
reported for the piece, with its coordinates relative to the piece -/
theorem block_to_piece (isFwd : Bool) (D C : Pattern) (hD : POk D) (hC : POk C) (w wl : Int) (hwl : 0 ≤ wl)
    (o : Opts) (hc : o.circular = false) (seq : Bytes) (fa fb : Nat) (hfb : fb ≤ seq.length) (x : Amplicon)
    (hx : (.ok x : Except Bad Amplicon) ∈ block isFwd D C w wl o seq) (hlo : (fa : Int) ≤ ampLo x) (hhi : ampHi x ≤ fb) :
    ∃ y, (.ok y : Except Bad Amplicon) ∈ block isFwd D C w wl o (seg seq fa fb) ∧ shiftAmp fa y = x := by
  obtain ⟨i, ki, j, kj, a, b, h1, h2, h3, h4, h5⟩ := (mem_block_linear isFwd D C hD hC w wl hwl o hc seq _).mp hx
  cases h5
  have hpos := lengthOk_pos o _ h3
  have hj := h2.1
  simp only [enc_length] at hj
  have hw := linBounds_window o seq.length i _ j _ a b (by omega) hj hC.pos h4
  obtain ⟨e1, e2⟩ := mkAmp_lo_hi isFwd seq i ki j kj D.patlen C.patlen a b
  rw [e1] at hlo
  rw [e2] at hhi
  have hfa : fa ≤ fb := by omega
  have ei : fa + (i - fa) = i := by omega
  have ej : fa + (j - fa) = j := by omega
  have ea : fa + (a - fa) = a := by omega
  have eb : fa + (b - fa) = b := by omega
  refine ⟨mkAmp isFwd (seg seq fa fb) (i - fa) ki (j - fa) kj D.patlen C.patlen (a - fa) (b - fa), ?_, ?_⟩
  · refine (mem_block_linear isFwd D C hD hC w wl hwl o hc _ _).mpr
      ⟨i - fa, ki, j - fa, kj, a - fa, b - fa, ?_, ?_, ?_, ?_, rfl⟩
    · exact (matchAt_seg D seq fa fb _ ki hfa hfb).mpr ⟨by rw [ei]; exact h1, by omega⟩
    · exact (matchAt_seg C seq fa fb _ kj hfa hfb).mpr ⟨by rw [ej]; exact h2, by omega⟩
    · rw [← h3]; congr 1; omega
    · rw [seg_length seq fa fb hfb]
      exact linBounds_to_piece o seq.length fa fb (i - fa) _ (j - fa) _ a b hfb (by omega) (by omega) (by omega)
        (by rw [ei, ej]; exact h4)
  · rw [mkAmp_seg isFwd seq fa fb _ ki _ kj _ _ _ _ (by omega) (by omega) (by omega), ei, ej, ea, eb]

/-- **sound, no flanks or only complete flanks**: a record of the piece is, in the coordinates of the template, a record of
the template, and its sites and window lie inside the piece -/
theorem block_of_piece (isFwd : Bool) (D C : Pattern) (hD : POk D) (hC : POk C) (w wl : Int) (hwl : 0 ≤ wl)
    (o : Opts) (hc : o.circular = false) (hm : o.hasExtension = false ∨ o.fullExtension = true)
    (seq : Bytes) (fa fb : Nat) (hfa : fa ≤ fb) (hfb : fb ≤ seq.length) (y : Amplicon)
    (hy : (.ok y : Except Bad Amplicon) ∈ block isFwd D C w wl o (seg seq fa fb)) :
    (.ok (shiftAmp fa y) : Except Bad Amplicon) ∈ block isFwd D C w wl o seq ∧
      (fa : Int) ≤ ampLo (shiftAmp fa y) ∧ ampHi (shiftAmp fa y) ≤ fb := by
  obtain ⟨i, ki, j, kj, a, b, h1, h2, h3, h4, h5⟩ := (mem_block_linear isFwd D C hD hC w wl hwl o hc _ _).mp hy
  cases h5
  rw [seg_length seq fa fb hfb] at h4
  obtain ⟨g1, g1'⟩ := (matchAt_seg D seq fa fb i ki hfa hfb).mp h1
  obtain ⟨g2, g2'⟩ := (matchAt_seg C seq fa fb j kj hfa hfb).mp h2
  have hpos := lengthOk_pos o _ h3
  have hw := linBounds_window o (fb - fa) i _ j _ a b (by omega) (by omega) hC.pos h4
  rw [mkAmp_seg isFwd seq fa fb i ki j kj _ _ a b (by omega) (by omega) (by omega)]
  obtain ⟨e1, e2⟩ := mkAmp_lo_hi isFwd seq (fa + i) ki (fa + j) kj D.patlen C.patlen (fa + a) (fa + b)
  refine ⟨(mem_block_linear isFwd D C hD hC w wl hwl o hc seq _).mpr
    ⟨fa + i, ki, fa + j, kj, fa + a, fa + b, g1, g2, ?_, linBounds_to_whole o hm seq.length fa fb i _ j _ a b hfb hfa h4, rfl⟩,
    by rw [e1]; omega, by rw [e2]; omega⟩
  rw [← h3]; congr 1; omega

/-- **flanks that may be clipped** (`--delta` without `--only-complete-flanking`): a record of the piece comes from a pair
of sites of the template that the template reports too — same direction, matched strings and error counts — but its
window may be shorter: it is contained in the window reported for the template, and equal to it unless an end of the piece
clipped a flank (the open finding `C11-frag-clipped-flank`) -/
theorem block_of_piece_clipped (isFwd : Bool) (D C : Pattern) (hD : POk D) (hC : POk C) (w wl : Int) (hwl : 0 ≤ wl)
    (o : Opts) (hc : o.circular = false) (hx : o.hasExtension = true) (hf : o.fullExtension = false)
    (seq : Bytes) (fa fb : Nat) (hfa : fa ≤ fb) (hfb : fb ≤ seq.length) (y : Amplicon)
    (hy : (.ok y : Except Bad Amplicon) ∈ block isFwd D C w wl o (seg seq fa fb)) :
    ∃ x, (.ok x : Except Bad Amplicon) ∈ block isFwd D C w wl o seq ∧
      x.hitD = shiftHit fa y.hitD ∧ x.hitC = shiftHit fa y.hitC ∧ x.isForward = y.isForward ∧
      x.fmatch = y.fmatch ∧ x.ferr = y.ferr ∧ x.rmatch = y.rmatch ∧ x.rerr = y.rerr ∧
      x.idFrom ≤ y.idFrom + fa ∧ y.idTo + fa ≤ x.idTo ∧
      ((o.extension ≤ y.hitD.1 ∨ fa = 0) → (y.hitC.2.1 + o.extension + fa ≤ fb ∨ fb = seq.length) → x = shiftAmp fa y) := by
  obtain ⟨i, ki, j, kj, a, b, h1, h2, h3, h4, h5⟩ := (mem_block_linear isFwd D C hD hC w wl hwl o hc _ _).mp hy
  cases h5
  rw [seg_length seq fa fb hfb] at h4
  obtain ⟨g1, g1'⟩ := (matchAt_seg D seq fa fb i ki hfa hfb).mp h1
  obtain ⟨g2, g2'⟩ := (matchAt_seg C seq fa fb j kj hfa hfb).mp h2
  have hpos := lengthOk_pos o _ h3
  have hw := linBounds_window o (fb - fa) i _ j _ a b (by omega) (by omega) hC.pos h4
  obtain ⟨A, B, hAB, hA, hB, hA', hB'⟩ := linBounds_clipped o hx hf seq.length fa fb i D.patlen j C.patlen a b hfb hfa h4
  have he : 0 ≤ o.extension := by
    have : o.extension > -1 := by simpa [Opts.hasExtension] using hx
    omega
  have s2 := seg_seg seq fa fb i (i + D.patlen) (by omega)
  have s3 := seg_seg seq fa fb j (j + C.patlen) (by omega)
  have e2 : fa + (i + D.patlen) = fa + i + D.patlen := by omega
  have e3 : fa + (j + C.patlen) = fa + j + C.patlen := by omega
  rw [e2] at s2
  rw [e3] at s3
  refine ⟨mkAmp isFwd seq (fa + i) ki (fa + j) kj D.patlen C.patlen A B,
    (mem_block_linear isFwd D C hD hC w wl hwl o hc seq _).mpr ⟨fa + i, ki, fa + j, kj, A, B, g1, g2, ?_, hAB, rfl⟩, ?_⟩
  · rw [← h3]; congr 1; omega
  · cases isFwd with
    | true =>
      simp only [mkAmp, if_true, shiftHit, s2, s3, Prod.mk.injEq, true_and]
      refine ⟨⟨by omega, by omega, trivial⟩, ⟨by omega, by omega, trivial⟩, by omega, by omega, ?_⟩
      intro c1 c2
      have hAe := hA' (by omega)
      have hBe := hB' (by omega)
      subst hAe hBe
      have := mkAmp_seg true seq fa fb i ki j kj D.patlen C.patlen a b (by omega) (by omega) (by omega)
      simp only [mkAmp, if_true, s2, s3] at this
      exact this.symm
    | false =>
      simp only [mkAmp, Bool.false_eq_true, if_false, shiftHit, s2, s3, Prod.mk.injEq, true_and]
      refine ⟨⟨by omega, by omega, trivial⟩, ⟨by omega, by omega, trivial⟩, by omega, by omega, ?_⟩
      intro c1 c2
      have hAe := hA' (by omega)
      have hBe := hB' (by omega)
      subst hAe hBe
      have := mkAmp_seg false seq fa fb i ki j kj D.patlen C.patlen a b (by omega) (by omega) (by omega)
      simp only [mkAmp, Bool.false_eq_true, if_false, s2, s3] at this
      exact this.symm

/-! ## the result list of `_Pcr` on a linear template (it always returns: `pcr_total`) -/

/-- the amplicons `_Pcr` returns (`[]` if it ended the program, which it never does on a linear template: `pcrL_spec`) -/
def pcrL (P : Primers) (o : Opts) (seq : Bytes) : List Amplicon :=
  match pcr P o seq with
  | .ok l => l
  | .error _ => []

theorem pcrL_spec (P : Primers) (hP : PrimersOk P) (o : Opts) (hc : o.circular = false) (seq : Bytes) :
    pcr P o seq = .ok (pcrL P o seq) := by
  have : ∃ l, pcr P o seq = .ok l := by
    unfold pcr
    apply mapM_id_total
    intro x hx
    unfold pcrRaw at hx
    rcases List.mem_append.mp hx with hx | hx
    · obtain ⟨i, ki, j, kj, a, b, _, _, _, _, rfl⟩ :=
        (mem_block_linear true _ _ hP.forward hP.crev _ _ (Int.natCast_nonneg _) o hc seq x).mp hx
      exact ⟨_, rfl⟩
    · obtain ⟨i, ki, j, kj, a, b, _, _, _, _, rfl⟩ :=
        (mem_block_linear false _ _ hP.reverse hP.cfwd _ _ (Int.natCast_nonneg _) o hc seq x).mp hx
      exact ⟨_, rfl⟩
  obtain ⟨l, hl⟩ := this
  unfold pcrL
  rw [hl]

theorem mem_pcrL_iff (P : Primers) (hP : PrimersOk P) (o : Opts) (hc : o.circular = false) (seq : Bytes) (a : Amplicon) :
    a ∈ pcrL P o seq ↔ (.ok a : Except Bad Amplicon) ∈ block true P.forward P.crev P.forward.patlen P.reverse.patlen o seq ∨
      (.ok a : Except Bad Amplicon) ∈ block false P.reverse P.cfwd P.reverse.patlen P.reverse.patlen o seq :=
  mem_pcr_iff P o seq _ (pcrL_spec P hP o hc seq) a

/-- the span (sites + window) of a reported record: it lies inside the template and, when a maximal length is set, has
at most `maxLength` + the two sites + the two flanks symbols -/
theorem block_span (isFwd : Bool) (D C : Pattern) (hD : POk D) (hC : POk C) (w wl : Int) (hwl : 0 ≤ wl)
    (o : Opts) (hc : o.circular = false) (seq : Bytes) (x : Amplicon)
    (hx : (.ok x : Except Bad Amplicon) ∈ block isFwd D C w wl o seq) :
    0 ≤ ampLo x ∧ ampLo x < ampHi x ∧ ampHi x ≤ seq.length ∧
      (o.maxLength > 0 → ampHi x - ampLo x ≤ o.maxLength + D.patlen + C.patlen + 2 * (if o.hasExtension then o.extension else 0)) := by
  obtain ⟨i, ki, j, kj, a, b, h1, h2, h3, h4, h5⟩ := (mem_block_linear isFwd D C hD hC w wl hwl o hc seq _).mp hx
  cases h5
  have hpos := lengthOk_pos o _ h3
  have hj := h2.1
  simp only [enc_length] at hj
  have hw := linBounds_window o seq.length i _ j _ a b (by omega) hj hC.pos h4
  obtain ⟨e1, e2⟩ := mkAmp_lo_hi isFwd seq i ki j kj D.patlen C.patlen a b
  rw [e1, e2]
  refine ⟨by omega, by omega, by omega, ?_⟩
  intro hm
  have hmax := lengthOk_max o _ h3 hm
  unfold linBounds at h4
  by_cases hx : o.hasExtension = true
  · have he : o.extension > -1 := by simpa [Opts.hasExtension] using hx
    rw [if_pos hx] at h4 ⊢
    split at h4
    · split at h4
      · simp only [Option.some.injEq, Prod.mk.injEq] at h4; omega
      · cases h4
    · simp only [Option.some.injEq, Prod.mk.injEq] at h4; omega
  · rw [if_neg hx] at h4 ⊢
    simp only [Option.some.injEq, Prod.mk.injEq] at h4
    omega

/-! ## all the pieces of a template -/

/-- flank length the options ask for (0 without `--delta`) -/
def Opts.flank (o : Opts) : Int := if o.hasExtension then o.extension else 0

/-- **complete** (every linear mode): when two consecutive pieces share at least `maxLength` + the two sites + the two flanks
− 1 symbols, every record of the template is reported for one of the pieces -/
theorem block_frag_complete (isFwd : Bool) (D C : Pattern) (hD : POk D) (hC : POk C) (w wl : Int) (hwl : 0 ≤ wl)
    (o : Opts) (hc : o.circular = false) (hmax : o.maxLength > 0) (seq : Bytes) (minsize length overlap : Int)
    (ps : List (Nat × Nat)) (hfr : fragments minsize length overlap seq.length = some (some ps)) (hov : 0 ≤ overlap)
    (hw : o.maxLength + D.patlen + C.patlen + 2 * o.flank ≤ overlap + 1) (x : Amplicon)
    (hx : (.ok x : Except Bad Amplicon) ∈ block isFwd D C w wl o seq) :
    ∃ p ∈ ps, ∃ y, (.ok y : Except Bad Amplicon) ∈ block isFwd D C w wl o (seg seq p.1 p.2) ∧ shiftAmp p.1 y = x := by
  obtain ⟨_, hst, hloop⟩ := fragments_inv minsize length overlap seq.length ps hfr
  obtain ⟨s1, s2, s3, s4⟩ := block_span isFwd D C hD hC w wl hwl o hc seq x hx
  have s4 := s4 hmax
  unfold Opts.flank at hw
  obtain ⟨p, hp, h1, h2⟩ := fragLoop_cover seq.length length.toNat (length - overlap).toNat (by omega) _ 0 ps hloop
    (ampLo x).toNat (ampHi x).toNat (by omega) (by omega) (by omega) (by omega)
  have hpv := fragLoop_pieces seq.length length.toNat (length - overlap).toNat (by omega) _ 0 ps hloop p hp
  obtain ⟨y, hy, he⟩ := block_to_piece isFwd D C hD hC w wl hwl o hc seq p.1 p.2 hpv.2.2 x hx (by omega) (by omega)
  exact ⟨p, hp, y, hy, he⟩

/-- **sound** (no flanks, or only complete flanks; any overlap): a record of a piece is a record of the template -/
theorem block_frag_sound (isFwd : Bool) (D C : Pattern) (hD : POk D) (hC : POk C) (w wl : Int) (hwl : 0 ≤ wl)
    (o : Opts) (hc : o.circular = false) (hm : o.hasExtension = false ∨ o.fullExtension = true) (seq : Bytes)
    (minsize length overlap : Int) (ps : List (Nat × Nat))
    (hfr : fragments minsize length overlap seq.length = some (some ps)) (hov : 0 ≤ overlap)
    (p : Nat × Nat) (hp : p ∈ ps) (y : Amplicon)
    (hy : (.ok y : Except Bad Amplicon) ∈ block isFwd D C w wl o (seg seq p.1 p.2)) :
    (.ok (shiftAmp p.1 y) : Except Bad Amplicon) ∈ block isFwd D C w wl o seq := by
  obtain ⟨_, hst, hloop⟩ := fragments_inv minsize length overlap seq.length ps hfr
  have hpv := fragLoop_pieces seq.length length.toNat (length - overlap).toNat (by omega) _ 0 ps hloop p hp
  exact (block_of_piece isFwd D C hD hC w wl hwl o hc hm seq p.1 p.2 (by omega) hpv.2.2 y hy).1

end ObiVerif.Pcr
