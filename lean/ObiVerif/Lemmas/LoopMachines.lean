import ObiVerif.Model.LoopMachines
import ObiVerif.Lemmas.LoopSteps
import ObiVerif.Lemmas.Iter
/-! # The combinator loops satisfy `Law`; their big-step runs are the functional models (C03) -/
namespace ObiVerif.LoopSteps
open ObiVerif.Iter

variable {τ : Type}

/-- what a fold must satisfy: `ν` bounds the pushes after the loop, `w` what a batch adds -/
structure FLaw (F : Fold τ) (ν : τ → Nat) (w : Item → Nat) : Prop where
  bound : ∀ t it, (F.onItem t it).2.length + ν (F.onItem t it).1 ≤ ν t + w it
  flushb : ∀ t, (F.flush t).length ≤ ν t

def foldMu (ν : τ → Nat) : FoldSt τ → Nat
  | .out q t _ => q.length + ν t + 1
  | .fl q _ => q.length

def foldKnown (F : Fold τ) : FoldSt τ → Nat → Prop
  | .out _ _ ann, x => F.lazy = false ∨ x ∈ ann
  | .fl _ ann, x => F.lazy = false ∨ x ∈ ann

theorem ok_lt {F : Fold τ} {j : Nat} {ann : List Nat} (h : F.ok j ann = true) : j < F.nout := by
  simp [Fold.ok] at h; exact h.1

theorem ok_known {F : Fold τ} {j : Nat} {ann : List Nat} (h : F.ok j ann = true) : F.lazy = false ∨ j ∈ ann := by
  simp [Fold.ok] at h
  rcases h.2 with h2 | h2
  · exact Or.inl h2
  · exact Or.inr h2

theorem fold_law (F : Fold τ) (ν : τ → Nat) (w : Item → Nat) (h : FLaw F ν w) (cap : Nat)
    (absent : Nat → Bool) : Law (F.sys cap absent) (foldMu ν) w (foldKnown F) := by
  constructor
  · intro m i f c ha
    rcases m with ⟨_ | ⟨⟨j, b⟩ | j, q⟩, t, ann⟩ | ⟨_ | ⟨⟨j, b⟩ | j, q⟩, ann⟩ <;>
      simp only [Fold.sys, Fold.act] at ha
    · cases ha; show 0 < 1; omega
    · split at ha <;> cases ha
    · cases ha
    · cases ha
    · split at ha <;> cases ha
    · cases ha
  · intro m j' b' k ha
    rcases m with ⟨_ | ⟨⟨j, b⟩ | j, q⟩, t, ann⟩ | ⟨_ | ⟨⟨j, b⟩ | j, q⟩, ann⟩ <;>
      simp only [Fold.sys, Fold.act] at ha
    · cases ha
    · split at ha
      · rename_i hok; cases ha; exact ok_lt hok
      · cases ha
    · cases ha
    · cases ha
    · split at ha
      · rename_i hok; cases ha; exact ok_lt hok
      · cases ha
    · cases ha
  · intro m j' b' k ha
    rcases m with ⟨_ | ⟨⟨j, b⟩ | j, q⟩, t, ann⟩ | ⟨_ | ⟨⟨j, b⟩ | j, q⟩, ann⟩ <;>
      simp only [Fold.sys, Fold.act] at ha
    · cases ha
    · split at ha
      · cases ha; simp [foldMu]
      · cases ha
    · cases ha
    · cases ha
    · split at ha
      · cases ha; simp [foldMu]
      · cases ha
    · cases ha
  · intro m j' k ha
    rcases m with ⟨_ | ⟨⟨j, b⟩ | j, q⟩, t, ann⟩ | ⟨_ | ⟨⟨j, b⟩ | j, q⟩, ann⟩ <;>
      simp only [Fold.sys, Fold.act] at ha
    · cases ha
    · split at ha <;> cases ha
    · cases ha; simp [foldMu]
    · cases ha
    · split at ha <;> cases ha
    · cases ha; simp [foldMu]
  · intro m i f c ha it
    rcases m with ⟨_ | ⟨⟨j, b⟩ | j, q⟩, t, ann⟩ | ⟨_ | ⟨⟨j, b⟩ | j, q⟩, ann⟩ <;>
      simp only [Fold.sys, Fold.act] at ha
    · cases ha
      have := h.bound t it
      simp only [foldMu, List.length_nil]; omega
    · split at ha <;> cases ha
    · cases ha
    · cases ha
    · split at ha <;> cases ha
    · cases ha
  · intro m i f c ha
    rcases m with ⟨_ | ⟨⟨j, b⟩ | j, q⟩, t, ann⟩ | ⟨_ | ⟨⟨j, b⟩ | j, q⟩, ann⟩ <;>
      simp only [Fold.sys, Fold.act] at ha
    · cases ha
      have := h.flushb t
      simp only [foldMu, List.length_nil]; omega
    · split at ha <;> cases ha
    · cases ha
    · cases ha
    · split at ha <;> cases ha
    · cases ha
  · intro m j' b' k ha
    rcases m with ⟨_ | ⟨⟨j, b⟩ | j, q⟩, t, ann⟩ | ⟨_ | ⟨⟨j, b⟩ | j, q⟩, ann⟩ <;>
      simp only [Fold.sys, Fold.act] at ha
    · cases ha
    · split at ha
      · rename_i hok; cases ha; exact ⟨ok_known hok, fun x hx => hx⟩
      · cases ha
    · cases ha
    · cases ha
    · split at ha
      · rename_i hok; cases ha; exact ⟨ok_known hok, fun x hx => hx⟩
      · cases ha
    · cases ha
  · intro m j' k ha x hx
    rcases m with ⟨_ | ⟨⟨j, b⟩ | j, q⟩, t, ann⟩ | ⟨_ | ⟨⟨j, b⟩ | j, q⟩, ann⟩ <;>
      simp only [Fold.sys, Fold.act] at ha
    · cases ha
    · split at ha <;> cases ha
    · cases ha
      simp only [foldKnown, List.mem_cons] at hx ⊢
      rcases hx with hx | hx | hx
      · exact Or.inl (Or.inl hx)
      · exact Or.inr hx
      · exact Or.inl (Or.inr hx)
    · cases ha
    · split at ha <;> cases ha
    · cases ha
      simp only [foldKnown, List.mem_cons] at hx ⊢
      rcases hx with hx | hx | hx
      · exact Or.inl (Or.inl hx)
      · exact Or.inr hx
      · exact Or.inl (Or.inr hx)
  · intro m i f c ha it x hx
    rcases m with ⟨_ | ⟨⟨j, b⟩ | j, q⟩, t, ann⟩ | ⟨_ | ⟨⟨j, b⟩ | j, q⟩, ann⟩ <;>
      simp only [Fold.sys, Fold.act] at ha
    · cases ha; exact hx
    · split at ha <;> cases ha
    · cases ha
    · cases ha
    · split at ha <;> cases ha
    · cases ha
  · intro m i f c ha x hx
    rcases m with ⟨_ | ⟨⟨j, b⟩ | j, q⟩, t, ann⟩ | ⟨_ | ⟨⟨j, b⟩ | j, q⟩, ann⟩ <;>
      simp only [Fold.sys, Fold.act] at ha
    · cases ha; exact hx
    · split at ha <;> cases ha
    · cases ha
    · cases ha
    · split at ha <;> cases ha
    · cases ha

/-! ## Big-step run of a fold -/

/-- the pushes in `q` are legal: in range and (lazy outputs) announced before -/
def okOuts (F : Fold τ) : List Nat → List Out → Prop
  | _, [] => True
  | ann, .push j _ :: q => F.ok j ann = true ∧ okOuts F ann q
  | ann, .news j :: q => okOuts F (j :: ann) q

def annAfter : List Nat → List Out → List Nat
  | ann, [] => ann
  | ann, .push _ _ :: q => annAfter ann q
  | ann, .news j :: q => annAfter (j :: ann) q

theorem one_upd (it : Item) (rest : List Item) : upd (one (it :: rest)) 0 rest = one rest := by
  funext x; by_cases e : x = 0 <;> simp [upd, one, e]

theorem exec_fl (F : Fold τ) (ins : Nat → List Item) : ∀ (q : List Out) (ann : List Nat), okOuts F ann q →
    Exec F.act (.fl q ann) ins (pushes q) := by
  intro q
  induction q with
  | nil => intro ann _; exact Exec.halt rfl
  | cons o q ih =>
    intro ann hok
    cases o with
    | push j b =>
      have ha : F.act (.fl (.push j b :: q) ann) = .send j b (.fl q ann) := by
        simp [Fold.act, hok.1]
      exact Exec.send ha (ih ann hok.2)
    | news j => exact Exec.ann rfl (ih (j :: ann) hok)

/-- all the pushes a fold does on `items` are legal (per-machine obligation) -/
def FoldOk (F : Fold τ) : τ → List Nat → List Item → Prop
  | t, ann, [] => okOuts F ann (F.flush t)
  | t, ann, it :: rest => okOuts F ann (F.onItem t it).2 ∧
      FoldOk F (F.onItem t it).1 (annAfter ann (F.onItem t it).2) rest

theorem exec_fold (F : Fold τ) : ∀ (items : List Item) (q : List Out) (t : τ) (ann : List Nat),
    okOuts F ann q → FoldOk F t (annAfter ann q) items →
    Exec F.act (.out q t ann) (one items) (pushes q ++ foldTrace F t items) := by
  intro items
  induction items with
  | nil =>
    intro q
    induction q with
    | nil =>
      intro t ann _ hf
      exact Exec.closed rfl (by simp [one]) (exec_fl F _ _ _ hf)
    | cons o q ih =>
      intro t ann hok hf
      cases o with
      | push j b =>
        have ha : F.act (.out (.push j b :: q) t ann) = .send j b (.out q t ann) := by
          simp [Fold.act, hok.1]
        exact Exec.send ha (ih t ann hok.2 hf)
      | news j => exact Exec.ann rfl (ih t (j :: ann) hok hf)
  | cons it rest ihI =>
    intro q
    induction q with
    | nil =>
      intro t ann _ hf
      have h1 := ihI (F.onItem t it).2 (F.onItem t it).1 ann hf.1 hf.2
      have : Exec F.act (.out (F.onItem t it).2 (F.onItem t it).1 ann) (upd (one (it :: rest)) 0 rest)
          (pushes (F.onItem t it).2 ++ foldTrace F (F.onItem t it).1 rest) := by
        rw [one_upd]; exact h1
      exact Exec.item (i := 0) (it := it) (rest := rest) rfl (by simp [one]) this
    | cons o q ih =>
      intro t ann hok hf
      cases o with
      | push j b =>
        have ha : F.act (.out (.push j b :: q) t ann) = .send j b (.out q t ann) := by
          simp [Fold.act, hok.1]
        exact Exec.send ha (ih t ann hok.2 hf)
      | news j => exact Exec.ann rfl (ih t (j :: ann) hok hf)

/-- non-lazy folds pushing only on outputs `< nout`: every push is legal -/
def inRange (n : Nat) : List Out → Prop
  | [] => True
  | .push j _ :: q => j < n ∧ inRange n q
  | .news _ :: q => inRange n q

theorem okOuts_of_inRange (F : Fold τ) (hl : F.lazy = false) : ∀ (q : List Out) (ann : List Nat),
    inRange F.nout q → okOuts F ann q := by
  intro q
  induction q with
  | nil => intro _ _; trivial
  | cons o q ih =>
    intro ann h
    cases o with
    | push j b => exact ⟨by simp [Fold.ok, hl, h.1], ih ann h.2⟩
    | news j => exact ih (j :: ann) h

theorem foldOk_of_inRange (F : Fold τ) (hl : F.lazy = false)
    (h1 : ∀ t it, inRange F.nout (F.onItem t it).2) (h2 : ∀ t, inRange F.nout (F.flush t)) :
    ∀ (items : List Item) (t : τ) (ann : List Nat), FoldOk F t ann items := by
  intro items
  induction items with
  | nil => intro t ann; exact okOuts_of_inRange F hl _ _ (h2 t)
  | cons it rest ih => intro t ann; exact ⟨okOuts_of_inRange F hl _ _ (h1 t it), ih _ _⟩

theorem inRange_map_push (n j : Nat) (hj : j < n) (l : List Item) : inRange n (l.map (Out.push j)) := by
  induction l with
  | nil => trivial
  | cons a t ih => exact ⟨hj, ih⟩

theorem inRange_append (n : Nat) (a b : List Out) (ha : inRange n a) (hb : inRange n b) : inRange n (a ++ b) := by
  induction a with
  | nil => exact hb
  | cons o q ih =>
    cases o with
    | push j x => exact ⟨ha.1, ih ha.2⟩
    | news j => exact ih ha

theorem pushes_append (a b : List Out) : pushes (a ++ b) = pushes a ++ pushes b := by
  induction a with
  | nil => rfl
  | cons o q ih => cases o <;> simp [pushes, ih]

theorem pushes_map_push (j : Nat) (l : List Item) : pushes (l.map (Out.push j)) = l.map fun b => (j, b) := by
  induction l with
  | nil => rfl
  | cons a t ih => simp [pushes, ih]

theorem proj_append (j : Nat) (a b : List (Nat × Item)) : proj j (a ++ b) = proj j a ++ proj j b := by
  simp [proj, List.filter_append]

theorem proj_cons_same (j : Nat) (b : Item) (tr : List (Nat × Item)) : proj j ((j, b) :: tr) = b :: proj j tr := by
  simp [proj]

theorem proj_cons_ne (j j' : Nat) (h : j' ≠ j) (b : Item) (tr : List (Nat × Item)) :
    proj j ((j', b) :: tr) = proj j tr := by
  simp [proj, h]

theorem proj_map_same (j : Nat) (l : List Item) : proj j (l.map fun b => (j, b)) = l := by
  induction l with
  | nil => rfl
  | cons a t ih =>
    have : proj j ((j, a) :: t.map fun b => (j, b)) = a :: proj j (t.map fun b => (j, b)) := by
      simp [proj]
    simp only [List.map_cons, this, ih]

theorem proj_map_ne (j j' : Nat) (h : j' ≠ j) (l : List Item) : proj j (l.map fun b => (j', b)) = [] := by
  induction l with
  | nil => rfl
  | cons a t ih =>
    have : proj j ((j', a) :: t.map fun b => (j', b)) = proj j (t.map fun b => (j', b)) := by
      simp [proj, h]
    simp only [List.map_cons, this, ih]

/-! ## Rebatch -/

theorem rebatchFill_prefix (size : Nat) : ∀ (fuel : Nat) (seqs : List Rec) (order : Nat) (buffer : List Rec)
    (out : List Batch), ∃ new, (rebatchFill size fuel seqs order buffer out).1 = out ++ new ∧
      new.length ≤ fuel ∧ (rebatchFill size fuel seqs order buffer out).2.2.length ≤ buffer.length + seqs.length := by
  intro fuel
  induction fuel with
  | zero => intro seqs order buffer out; exact ⟨[], by simp [rebatchFill], by simp, by simp [rebatchFill]⟩
  | succ fuel ih =>
    intro seqs order buffer out
    rw [rebatchFill]
    split
    · exact ⟨[], by simp, by simp, by simp⟩
    · simp only []
      split
      · obtain ⟨new, h1, h2, h3⟩ := ih (seqs.drop (min seqs.length (size - buffer.length))) (order + 1) []
          (out ++ [(order, buffer ++ seqs.take (min seqs.length (size - buffer.length)))])
        refine ⟨(order, buffer ++ seqs.take (min seqs.length (size - buffer.length))) :: new, ?_, ?_, ?_⟩
        · rw [h1]; simp
        · simp; omega
        · simp only [List.length_nil, List.length_drop] at h3; omega
      · obtain ⟨new, h1, h2, h3⟩ := ih (seqs.drop (min seqs.length (size - buffer.length))) order
          (buffer ++ seqs.take (min seqs.length (size - buffer.length))) out
        refine ⟨new, h1, by omega, ?_⟩
        simp only [List.length_append, List.length_take, List.length_drop] at h3
        omega

theorem rebatch_flaw (size : Nat) : FLaw (rebatchF size) (fun t => t.2.2.length) (fun it => 2 * it.2.length + 1) := by
  constructor
  · intro t it
    obtain ⟨new, h1, h2, h3⟩ := rebatchFill_prefix size (it.2.length + 1) it.2 t.2.1 t.2.2 t.1
    simp only [rebatchF, h1, List.length_map, List.drop_left']
    omega
  · intro t
    simp only [rebatchF]
    split <;> simp <;> omega

theorem rebatch_foldOk (size : Nat) : ∀ items t ann, FoldOk (rebatchF size) t ann items := by
  apply foldOk_of_inRange _ rfl
  · intro t it; exact inRange_map_push 1 0 (by omega) _
  · intro t; simp only [rebatchF]; split
    · exact ⟨by omega, trivial⟩
    · trivial

/-- the loop of `Iter.rebatch` and its last push -/
def rebFold (size : Nat) (items : List Batch) (t : List Batch × Nat × List Rec) : List Batch × Nat × List Rec :=
  items.foldl (fun (st : List Batch × Nat × List Rec) (b : Batch) =>
    rebatchFill size (b.2.length + 1) b.2 st.2.1 st.2.2 st.1) t

def rebFinish (st : List Batch × Nat × List Rec) : List Batch :=
  if st.2.2.length > 0 then st.1 ++ [(st.2.1, st.2.2)] else st.1

theorem rebatch_eq (size : Nat) (arr : List Batch) :
    rebatch size arr = rebFinish (rebFold size (sortBatches arr) ([], 0, [])) := rfl

/-- the pushes of the `Rebatch` loop on the sorted stream `items` are the batches of `Iter.rebatch` -/
theorem rebatch_trace (size : Nat) : ∀ (items : List Item) (t : List Batch × Nat × List Rec),
    t.1 ++ proj 0 (foldTrace (rebatchF size) t items) = rebFinish (rebFold size items t) := by
  intro items
  induction items with
  | nil =>
    intro t
    by_cases h : t.2.2.length > 0
    · have h' : t.2.2 ≠ [] := by intro e; simp [e] at h
      simp [foldTrace, rebatchF, rebFold, rebFinish, h, h', pushes, proj_cons_same, proj]
    · have h' : t.2.2 = [] := by
        cases hb : t.2.2 with
        | nil => rfl
        | cons a l => simp [hb] at h
      simp [foldTrace, rebatchF, rebFold, rebFinish, h', pushes, proj]
  | cons it rest ih =>
    intro t
    obtain ⟨new, h1, _, _⟩ := rebatchFill_prefix size (it.2.length + 1) it.2 t.2.1 t.2.2 t.1
    have := ih (rebatchFill size (it.2.length + 1) it.2 t.2.1 t.2.2 t.1)
    show _ = rebFinish (rebFold size rest (rebatchFill size (it.2.length + 1) it.2 t.2.1 t.2.2 t.1))
    rw [← this]
    simp only [foldTrace, rebatchF, proj_append, pushes_map_push, proj_map_same, h1, List.drop_left']
    simp

/-! ## FilterEmpty, CopyTee, pass-through, CompleteFileIterator -/

theorem filterEmpty_flaw : FLaw filterEmptyF (fun _ => 0) (fun _ => 1) := by
  constructor
  · intro t it; simp only [filterEmptyF]; split <;> simp
  · intro t; simp [filterEmptyF]

theorem filterEmpty_foldOk : ∀ items t ann, FoldOk filterEmptyF t ann items := by
  apply foldOk_of_inRange _ rfl
  · intro t it; simp only [filterEmptyF]; split
    · exact ⟨by omega, trivial⟩
    · trivial
  · intro t; trivial

theorem tee_flaw : FLaw teeF (fun _ => 0) (fun _ => 2) :=
  ⟨fun _ _ => by simp [teeF], fun _ => by simp [teeF]⟩

theorem tee_foldOk : ∀ items t ann, FoldOk teeF t ann items := by
  apply foldOk_of_inRange _ rfl
  · intro t it; exact ⟨by simp [teeF], by simp [teeF], trivial⟩
  · intro t; trivial

theorem map_flaw (g : Item → Item) : FLaw (mapF g) (fun _ => 0) (fun _ => 1) :=
  ⟨fun _ _ => by simp [mapF], fun _ => by simp [mapF]⟩

theorem map_foldOk (g : Item → Item) : ∀ items t ann, FoldOk (mapF g) t ann items := by
  apply foldOk_of_inRange _ rfl
  · intro t it; exact ⟨by simp [mapF], trivial⟩
  · intro t; trivial

theorem complete_flaw : FLaw completeF (fun _ => 1) (fun _ => 0) := by
  constructor
  · intro t it; simp [completeF]
  · intro t; simp only [completeF]; split <;> simp

theorem complete_foldOk : ∀ items t ann, FoldOk completeF t ann items := by
  apply foldOk_of_inRange _ rfl
  · intro t it; trivial
  · intro t; simp only [completeF]; split
    · trivial
    · exact ⟨by omega, trivial⟩

/-- both outputs of `CopyTee` get every batch, in order -/
theorem tee_trace (items : List Item) :
    proj 0 (foldTrace teeF () items) = items ∧ proj 1 (foldTrace teeF () items) = items := by
  induction items with
  | nil => simp [foldTrace, teeF, pushes, proj]
  | cons it rest ih =>
    simp only [foldTrace, teeF, pushes, proj_append] at ih ⊢
    rw [ih.1, ih.2]
    simp [proj]

theorem filterEmpty_trace : ∀ (items : List Item) (o : Nat) (acc : List Batch),
    acc ++ proj 0 (foldTrace filterEmptyF o items) =
      (items.foldl (fun (st : List Batch × Nat) (b : Batch) =>
        if b.2.length > 0 then (st.1 ++ [(st.2, b.2)], st.2 + 1) else st) (acc, o)).1 := by
  intro items
  induction items with
  | nil => intro o acc; simp [foldTrace, filterEmptyF, pushes, proj]
  | cons it rest ih =>
    intro o acc
    have e : filterEmptyF.onItem o it =
        (if it.2.length > 0 then (o + 1, [Out.push 0 (o, it.2)]) else (o, [])) := rfl
    by_cases h : it.2.length > 0
    · simp only [List.foldl_cons, foldTrace, e, if_pos h]
      rw [← ih]
      simp only [pushes, List.cons_append, List.nil_append, proj_cons_same]
      simp
    · simp only [List.foldl_cons, foldTrace, e, if_neg h]
      rw [← ih]
      simp only [pushes, List.nil_append]

/-! ## DivideOn -/

theorem divideRec_prefix (p : Rec → Bool) (size : Nat) (st : DivSt) (s : Rec) :
    ∃ nt nf, (divideRec p size st s).tOut = st.tOut ++ nt ∧ (divideRec p size st s).fOut = st.fOut ++ nf ∧
      nt.length + nf.length + (divideRec p size st s).tSlice.length + (divideRec p size st s).fSlice.length ≤
        st.tSlice.length + st.fSlice.length + 3 := by
  unfold divideRec
  cases p s
  all_goals simp only [Bool.false_eq_true, if_false, if_true]
  all_goals split
  all_goals split
  all_goals first
    | exact ⟨[_], [_], rfl, rfl, by simp <;> omega⟩
    | exact ⟨[_], [], rfl, by simp, by simp <;> omega⟩
    | exact ⟨[], [_], by simp, rfl, by simp <;> omega⟩
    | exact ⟨[], [], by simp, by simp, by simp <;> omega⟩

theorem divOuts_len (p : Rec → Bool) (size : Nat) (st : DivSt) (s : Rec) :
    (divOuts st (divideRec p size st s)).length + (divideRec p size st s).tSlice.length +
      (divideRec p size st s).fSlice.length ≤ st.tSlice.length + st.fSlice.length + 3 := by
  obtain ⟨nt, nf, h1, h2, h3⟩ := divideRec_prefix p size st s
  simp only [divOuts, h1, h2, List.drop_left', List.length_append, List.length_map]
  omega

theorem divItem_len (p : Rec → Bool) (size : Nat) : ∀ (recs : List Rec) (st : DivSt) (q : List Out),
    (divItem p size (st, q) recs).2.length + (divItem p size (st, q) recs).1.tSlice.length +
      (divItem p size (st, q) recs).1.fSlice.length ≤
      q.length + st.tSlice.length + st.fSlice.length + 3 * recs.length := by
  intro recs
  induction recs with
  | nil => intro st q; simp [divItem]
  | cons s rest ih =>
    intro st q
    have h1 := ih (divideRec p size st s) (q ++ divOuts st (divideRec p size st s))
    have h2 := divOuts_len p size st s
    simp only [divItem, List.length_append, List.length_cons] at h1 ⊢
    omega

theorem divide_flaw (p : Rec → Bool) (size : Nat) :
    FLaw (divideF p size) (fun st => st.tSlice.length + st.fSlice.length) (fun it => 3 * it.2.length) := by
  constructor
  · intro t it
    have := divItem_len p size it.2 t []
    simp only [divideF, List.length_nil] at this ⊢
    omega
  · intro t
    simp only [divideF]
    split <;> split <;> simp <;> omega

theorem divOuts_inRange (st st' : DivSt) : inRange 2 (divOuts st st') :=
  inRange_append 2 _ _ (inRange_map_push 2 0 (by omega) _) (inRange_map_push 2 1 (by omega) _)

theorem divItem_inRange (p : Rec → Bool) (size : Nat) : ∀ (recs : List Rec) (st : DivSt) (q : List Out),
    inRange 2 q → inRange 2 (divItem p size (st, q) recs).2 := by
  intro recs
  induction recs with
  | nil => intro st q h; exact h
  | cons s rest ih =>
    intro st q h
    exact ih _ _ (inRange_append 2 _ _ h (divOuts_inRange _ _))

theorem divide_foldOk (p : Rec → Bool) (size : Nat) : ∀ items t ann, FoldOk (divideF p size) t ann items := by
  apply foldOk_of_inRange _ rfl
  · intro t it; exact divItem_inRange p size it.2 t [] trivial
  · intro t
    simp only [divideF]
    apply inRange_append
    · split
      · exact ⟨by omega, trivial⟩
      · trivial
    · split
      · exact ⟨by omega, trivial⟩
      · trivial

/-! ## Distribute -/

theorem distSet_length (key : Nat) (v : Nat × List Rec) (t : DistSt) : (distSet key v t).length = t.length := by
  induction t with
  | nil => rfl
  | cons e t ih =>
    obtain ⟨k, o, sl⟩ := e
    simp only [distSet]
    split <;> simp [ih]

theorem distSet_keys (key : Nat) (v : Nat × List Rec) (t : DistSt) :
    (distSet key v t).map (·.1) = t.map (·.1) := by
  induction t with
  | nil => rfl
  | cons e t ih =>
    obtain ⟨k, o, sl⟩ := e
    simp only [distSet]
    split <;> simp [ih]

theorem distGet_some_mem (key : Nat) (t : DistSt) (v : Nat × List Rec) (h : distGet key t = some v) :
    key ∈ t.map (·.1) := by
  induction t with
  | nil => simp [distGet] at h
  | cons e t ih =>
    obtain ⟨k, o, sl⟩ := e
    simp only [distGet] at h
    split at h
    · rename_i hk; simp [hk]
    · simp [ih h]

theorem distPut_len (size key : Nat) (r : Rec) (t1 : DistSt) (q1 : List Out) (o : Nat) (sl : List Rec) :
    (distPut size key r t1 q1 o sl).2.length + (distPut size key r t1 q1 o sl).1.length ≤
      q1.length + t1.length + 1 := by
  unfold distPut
  split <;> simp [distSet_length] <;> omega

theorem distRec_len (cls : Rec → Nat) (size : Nat) (acc : DistSt × List Out) (r : Rec) :
    (distRec cls size acc r).2.length + (distRec cls size acc r).1.length ≤ acc.2.length + acc.1.length + 3 := by
  unfold distRec
  cases hg : distGet (cls r) acc.1 with
  | none =>
    have := distPut_len size (cls r) r (acc.1 ++ [(cls r, 0, [])]) (acc.2 ++ [Out.news (cls r)]) 0 []
    simp only [List.length_append, List.length_singleton] at this ⊢
    omega
  | some v =>
    obtain ⟨o, sl⟩ := v
    have := distPut_len size (cls r) r acc.1 acc.2 o sl
    simp only [] at this ⊢
    omega

theorem distFold_len (cls : Rec → Nat) (size : Nat) : ∀ (recs : List Rec) (acc : DistSt × List Out),
    (recs.foldl (distRec cls size) acc).2.length + (recs.foldl (distRec cls size) acc).1.length ≤
      acc.2.length + acc.1.length + 3 * recs.length := by
  intro recs
  induction recs with
  | nil => intro acc; simp
  | cons r rest ih =>
    intro acc
    have h1 := ih (distRec cls size acc r)
    have h2 := distRec_len cls size acc r
    simp only [List.foldl_cons, List.length_cons]
    omega

theorem distribute_flaw (cls : Rec → Nat) (size nkeys : Nat) :
    FLaw (distributeF cls size nkeys) (fun t => t.length) (fun it => 3 * it.2.length) := by
  constructor
  · intro t it
    have := distFold_len cls size it.2 (t, [])
    simp only [distributeF, List.length_nil] at this ⊢
    omega
  · intro t
    show (distFlush t).length ≤ t.length
    induction t with
    | nil => simp [distFlush]
    | cons e t ih =>
      obtain ⟨k, o, sl⟩ := e
      simp only [distFlush]
      split <;> simp <;> omega

theorem okOuts_append (F : Fold τ) : ∀ (a b : List Out) (ann : List Nat),
    okOuts F ann a → okOuts F (annAfter ann a) b → okOuts F ann (a ++ b) := by
  intro a
  induction a with
  | nil => intro b ann _ hb; exact hb
  | cons o q ih =>
    intro b ann ha hb
    cases o with
    | push j x => exact ⟨ha.1, ih b ann ha.2 hb⟩
    | news j => exact ih b (j :: ann) ha hb

theorem annAfter_append : ∀ (a b : List Out) (ann : List Nat),
    annAfter ann (a ++ b) = annAfter (annAfter ann a) b := by
  intro a
  induction a with
  | nil => intro b ann; rfl
  | cons o q ih =>
    intro b ann
    cases o with
    | push j x => exact ih b ann
    | news j => exact ih b (j :: ann)

/-- loop invariant of `Distribute`: the pushes queued so far are legal, and every class of the table has
been announced (or is announced in the queue) and is `< nkeys` -/
def DInv (cls : Rec → Nat) (size nkeys : Nat) (ann : List Nat) (acc : DistSt × List Out) : Prop :=
  okOuts (distributeF cls size nkeys) ann acc.2 ∧
  ∀ k, k ∈ acc.1.map (·.1) → k ∈ annAfter ann acc.2 ∧ k < nkeys

theorem ok_of (cls : Rec → Nat) (size nkeys key : Nat) (l : List Nat) (h1 : key ∈ l) (h2 : key < nkeys) :
    (distributeF cls size nkeys).ok key l = true := by
  simp [Fold.ok, distributeF, h1, h2]

theorem distPut_inv (cls : Rec → Nat) (size nkeys key : Nat) (r : Rec) (ann : List Nat) (t1 : DistSt)
    (q1 : List Out) (o : Nat) (sl : List Rec) (h : DInv cls size nkeys ann (t1, q1))
    (hk : key ∈ annAfter ann q1 ∧ key < nkeys) :
    DInv cls size nkeys ann (distPut size key r t1 q1 o sl) := by
  obtain ⟨h1, h2⟩ := h
  unfold distPut
  split
  · refine ⟨okOuts_append _ _ _ _ h1 ⟨ok_of cls size nkeys _ _ hk.1 hk.2, trivial⟩, ?_⟩
    intro k hk'
    simp only [distSet_keys] at hk'
    simp only [annAfter_append]
    exact h2 k hk'
  · refine ⟨h1, ?_⟩
    intro k hk'
    simp only [distSet_keys] at hk'
    exact h2 k hk'

theorem distRec_inv (cls : Rec → Nat) (size nkeys : Nat) (hc : ∀ r, cls r < nkeys) (ann : List Nat)
    (acc : DistSt × List Out) (r : Rec) (h : DInv cls size nkeys ann acc) :
    DInv cls size nkeys ann (distRec cls size acc r) := by
  unfold distRec
  cases hg : distGet (cls r) acc.1 with
  | none =>
    obtain ⟨h1, h2⟩ := h
    have ha : annAfter ann (acc.2 ++ [Out.news (cls r)]) = cls r :: annAfter ann acc.2 := by
      rw [annAfter_append]; rfl
    apply distPut_inv
    · refine ⟨okOuts_append _ _ _ _ h1 trivial, ?_⟩
      intro k hk
      show k ∈ annAfter ann (acc.2 ++ [Out.news (cls r)]) ∧ k < nkeys
      rw [ha]
      simp only [List.map_append, List.map_cons, List.map_nil, List.mem_append, List.mem_singleton] at hk
      rcases hk with hk | hk
      · exact ⟨List.mem_cons_of_mem _ (h2 k hk).1, (h2 k hk).2⟩
      · subst hk; exact ⟨List.mem_cons_self, hc r⟩
    · rw [ha]; exact ⟨List.mem_cons_self, hc r⟩
  | some v =>
    obtain ⟨o, sl⟩ := v
    exact distPut_inv cls size nkeys _ r ann acc.1 acc.2 o sl h (h.2 _ (distGet_some_mem _ _ _ hg))

theorem distFold_inv (cls : Rec → Nat) (size nkeys : Nat) (hc : ∀ r, cls r < nkeys) (ann : List Nat) :
    ∀ (recs : List Rec) (acc : DistSt × List Out), DInv cls size nkeys ann acc →
      DInv cls size nkeys ann (recs.foldl (distRec cls size) acc) := by
  intro recs
  induction recs with
  | nil => intro acc h; exact h
  | cons r rest ih => intro acc h; exact ih _ (distRec_inv cls size nkeys hc ann acc r h)

theorem dist_flush_ok (cls : Rec → Nat) (size nkeys : Nat) (ann : List Nat) : ∀ (t : DistSt),
    (∀ k, k ∈ t.map (·.1) → k ∈ ann ∧ k < nkeys) →
    okOuts (distributeF cls size nkeys) ann (distFlush t) := by
  intro t
  induction t with
  | nil => intro _; trivial
  | cons e t ih =>
    intro h
    obtain ⟨k, o, sl⟩ := e
    have ht := ih (fun k hk => h k (List.mem_cons_of_mem _ hk))
    have he := h k (by simp)
    simp only [distFlush]
    split
    · exact ⟨ok_of cls size nkeys _ _ he.1 he.2, ht⟩
    · exact ht

/-- every push of the `Distribute` loop is on an output announced on `news` before, and in range -/
theorem distribute_foldOk (cls : Rec → Nat) (size nkeys : Nat) (hc : ∀ r, cls r < nkeys) :
    ∀ (items : List Item) (t : DistSt) (ann : List Nat),
      (∀ k, k ∈ t.map (·.1) → k ∈ ann ∧ k < nkeys) → FoldOk (distributeF cls size nkeys) t ann items := by
  intro items
  induction items with
  | nil => intro t ann h; exact dist_flush_ok cls size nkeys ann t h
  | cons it rest ih =>
    intro t ann h
    have hi : DInv cls size nkeys ann (t, []) := ⟨trivial, h⟩
    have := distFold_inv cls size nkeys hc ann it.2 (t, []) hi
    exact ⟨this.1, ih _ _ this.2⟩

/-! ## Concat and the zip loop of PairTo -/

theorem concat_law (nin cap : Nat) (absent : Nat → Bool) :
    Law (concatSys nin cap absent) (concatMu nin) (fun _ => 1) (fun _ _ => True) := by
  constructor
  · intro m i f c ha
    simp only [concatSys, concatAct] at ha
    split at ha
    · cases ha
    · rename_i hov
      simp only [Bool.or_eq_true, decide_eq_true_eq, not_or, Nat.not_le] at hov
      split at ha
      · cases ha
      · cases ha; exact hov.2
  · intro m j b k ha
    simp only [concatSys, concatAct] at ha
    split at ha
    · cases ha
    · split at ha
      · cases ha; show 0 < 1; omega
      · cases ha
  · intro m j b k ha
    simp only [concatSys, concatAct] at ha
    split at ha
    · cases ha
    · rename_i hov
      split at ha
      · rename_i hh
        cases ha
        simp only [concatMu, hov, hh]
        simp
      · cases ha
  · intro m j k ha
    simp only [concatSys, concatAct] at ha
    split at ha
    · cases ha
    · split at ha <;> cases ha
  · intro m i f c ha it
    simp only [concatSys, concatAct] at ha
    split at ha
    · cases ha
    · rename_i hov
      split at ha
      · cases ha
      · rename_i hh
        cases ha
        simp only [concatMu, hov, hh]
        simp
  · intro m i f c ha
    simp only [concatSys, concatAct] at ha
    split at ha
    · cases ha
    · rename_i hov
      split at ha
      · cases ha
      · rename_i hh
        cases ha
        have hov' := hov
        simp only [Bool.or_eq_true, decide_eq_true_eq, not_or, Nat.not_le] at hov'
        split
        · rename_i hlt
          have hno : ¬ (m.over || decide (nin ≤ m.i + 1)) = true := by
            simp only [Bool.or_eq_true, decide_eq_true_eq, not_or, Nat.not_le]
            exact ⟨hov'.1, hlt⟩
          simp only [concatMu, hov, hno, hh]
          simp; omega
        · simp only [concatMu, hov, hh]
          simp
  · intro m j b k _; exact ⟨trivial, fun _ _ => trivial⟩
  · intro m j k _ x _; exact Or.inl trivial
  · intro m i f c _ it x _; trivial
  · intro m i f c _ x _; trivial

theorem zip_law (cap : Nat) (absent : Nat → Bool) :
    Law (zipSys cap absent) zipMu (fun _ => 2) (fun _ _ => True) := by
  constructor
  · intro m i f c ha
    cases m <;> simp only [zipSys, zipAct] at ha <;> cases ha <;> (show _ < 2; omega)
  · intro m j b k ha
    cases m <;> simp only [zipSys, zipAct] at ha <;> cases ha; show 0 < 1; omega
  · intro m j b k ha
    cases m <;> simp only [zipSys, zipAct] at ha <;> cases ha; simp [zipMu]
  · intro m j k ha
    cases m <;> simp only [zipSys, zipAct] at ha <;> cases ha
  · intro m i f c ha it
    cases m <;> simp only [zipSys, zipAct] at ha <;> cases ha
    · simp [zipMu]
    · simp only [zipMu]; split <;> simp [zipMu]
  · intro m i f c ha
    cases m <;> simp only [zipSys, zipAct] at ha <;> cases ha <;> simp [zipMu]
  · intro m j b k _; exact ⟨trivial, fun _ _ => trivial⟩
  · intro m j k _ x _; exact Or.inl trivial
  · intro m i f c _ it x _; trivial
  · intro m i f c _ x _; trivial

end ObiVerif.LoopSteps
