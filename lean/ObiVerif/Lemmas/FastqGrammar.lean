import ObiVerif.Lemmas.FastqSplit
/-!
# A FASTQ grammar whose files the chunk parser reads as a whole number of records

`WellFormedFastq`: records of exactly four lines — `@` title, one sequence line over the sequence
alphabet, `+` followed by anything, a quality line of the same length as the sequence — separated by
one or more end-of-line bytes (`\n`, `\r\n`, blank lines), optionally followed by end-of-line bytes.
The title starts with a non-blank byte; title, `+` line and quality line may contain any byte but
`\n`/`\r`; in particular a quality line may START with `@` or `+`.
-/
namespace ObiVerif.Parse
open ObiVerif.Chunk

inductive FastqRecords : Seq → Prop
  | one {h e1 sq e2 p e3 q : Seq} : TitleOK h → EolRun e1 → SeqLineOK sq → EolRun e2 → NoEol p →
      EolRun e3 → NoEol q → q.length = sq.length →
      FastqRecords (64 :: h ++ e1 ++ sq ++ e2 ++ 43 :: p ++ e3 ++ q)
  | more {h e1 sq e2 p e3 q e4 rest : Seq} : TitleOK h → EolRun e1 → SeqLineOK sq → EolRun e2 → NoEol p →
      EolRun e3 → NoEol q → q.length = sq.length → EolRun e4 → FastqRecords rest →
      FastqRecords (64 :: h ++ e1 ++ sq ++ e2 ++ 43 :: p ++ e3 ++ q ++ e4 ++ rest)

def WellFormedFastq (file : Seq) : Prop := ∃ recs tail, FastqRecords recs ∧ AllEol tail ∧ file = recs ++ tail

section
variable (sh : UInt8) (wq : Bool)

def InTitleQ : FqSt → Prop
  | .s2 _ | .s3 _ | .s4 _ _ => True
  | _ => False

theorem fqRun_title : ∀ (t : Seq) (s : FqSt), NoEol t → InTitleQ s →
    ∃ s', InTitleQ s' ∧ fqRun sh wq s t = .ok (s', []) := by
  intro t
  induction t with
  | nil => intro s _ hs; exact ⟨s, hs, rfl⟩
  | cons c t ih =>
    intro s hne hs
    have hc : isEol c = false := hne c (by simp)
    have ht : NoEol t := fun x hx => hne x (by simp [hx])
    have : ∃ sa, InTitleQ sa ∧ fqStep sh wq s c = .ok (sa, none) := by
      cases s <;> simp only [InTitleQ] at hs
      · simp only [fqStep, hc]
        by_cases h : isSep c = true
        · simp only [h, if_true]; (refine ⟨_, ?_, rfl⟩; exact True.intro)
        · simp only [h]; (refine ⟨_, ?_, rfl⟩; exact True.intro)
      · simp only [fqStep, hc]
        by_cases h : isSpace c = true
        · simp only [h]; (refine ⟨_, ?_, rfl⟩; exact True.intro)
        · simp only [h]; (refine ⟨_, ?_, rfl⟩; exact True.intro)
      · simp only [fqStep, hc]; (refine ⟨_, ?_, rfl⟩; exact True.intro)
    obtain ⟨sa, hsa, hstep⟩ := this
    obtain ⟨s', hs', hrun⟩ := ih sa ht hsa
    exact ⟨s', hs', by simp only [fqRun, hstep, hrun]; rfl⟩

/-- title line and the end-of-line run after it -/
theorem fqRun_title_eol {h e : Seq} (hh : TitleOK h) (he : EolRun e) :
    ∃ id d, fqRun sh wq .s1 (h ++ e) = .ok (.s5 id d, []) := by
  obtain ⟨c, t, rfl, hc, ht⟩ := hh
  obtain ⟨hne, hall⟩ := he
  cases e with
  | nil => exact absurd rfl hne
  | cons x e' =>
    have hx : isEol x = true := hall x (by simp)
    have he' : AllEol e' := fun y hy => hall y (by simp [hy])
    have h1 : fqStep sh wq .s1 c = .ok (.s2 [c], none) := by simp [fqStep, hc]
    obtain ⟨s', hs', hrun⟩ := fqRun_title sh wq t (.s2 [c]) ht trivial
    have : ∃ id d, fqStep sh wq s' x = .ok (.s5 id d, none) := by
      cases s' <;> simp only [InTitleQ] at hs' <;> simp only [fqStep, hx, if_true] <;> exact ⟨_, _, rfl⟩
    obtain ⟨id, d, hstep⟩ := this
    refine ⟨id, d, ?_⟩
    simp only [List.cons_append, fqRun_cons, h1]
    rw [fqRun_append, hrun]
    simp only [fqRun_cons, hstep, fqRun_s5_eols sh wq e' id d he']
    rfl

theorem fqRun_seqBytes : ∀ (l : Seq) (id d acc : Seq), SeqBytes l →
    fqRun sh wq (.s6 id d acc) l = .ok (.s6 id d (acc ++ l.map lower), []) := by
  intro l
  induction l with
  | nil => intro id d acc _; simp [fqRun]
  | cons c t ih =>
    intro id d acc hl
    have hc := hl c (by simp)
    have ht : SeqBytes t := fun x hx => hl x (by simp [hx])
    obtain ⟨_, hsep⟩ := seqByte_facts hc
    have heol : isEol c = false := by
      cases h : isEol c with
      | false => rfl
      | true => simp [isSep, h] at hsep
    have hstep : fqStep sh wq (.s6 id d acc) c = .ok (.s6 id d (acc ++ [lower c]), none) := by
      simp [fqStep, heol, hc]
    rw [fqRun_cons, hstep]
    simp only [ih id d (acc ++ [lower c]) ht]
    simp

/-- the sequence line from state 5 -/
theorem fqRun_seqLine {l : Seq} (hl : SeqLineOK l) (id d : Seq) :
    fqRun sh wq (.s5 id d) l = .ok (.s6 id d (l.map lower), []) := by
  obtain ⟨hne, hb⟩ := hl
  cases l with
  | nil => exact absurd rfl hne
  | cons c t =>
    have hc := hb c (by simp)
    have ht : SeqBytes t := fun x hx => hb x (by simp [hx])
    obtain ⟨_, hsep⟩ := seqByte_facts hc
    have heol : isEol c = false := by
      cases h : isEol c with
      | false => rfl
      | true => simp [isSep, h] at hsep
    have hstep : fqStep sh wq (.s5 id d) c = .ok (.s6 id d [lower c], none) := by
      simp [fqStep, heol]
    rw [fqRun_cons, hstep]
    simp only [fqRun_seqBytes sh wq t id d [lower c] ht]
    simp

theorem fqRun_s8_noEol : ∀ (p : Seq) (r : Rec), NoEol p → fqRun sh wq (.s8 r) p = .ok (.s8 r, []) := by
  intro p
  induction p with
  | nil => intro r _; rfl
  | cons c t ih =>
    intro r hp
    have hc : isEol c = false := hp c (by simp)
    have ht : NoEol t := fun y hy => hp y (by simp [hy])
    have hstep : fqStep sh wq (.s8 r) c = .ok (.s8 r, none) := by simp [fqStep, hc]
    rw [fqRun_cons, hstep]
    simp only [ih r ht]
    rfl

/-- one record from state 1 (after its `@`): the machine ends inside the quality line, which has the
length of the sequence -/
theorem fqRun_record {h e1 sq e2 p e3 q : Seq} (hh : TitleOK h) (he1 : EolRun e1) (hsq : SeqLineOK sq)
    (he2 : EolRun e2) (hp : NoEol p) (he3 : EolRun e3) (hq : NoEol q) (hlen : q.length = sq.length) :
    ∃ r, fqRun sh wq .s1 (h ++ e1 ++ sq ++ e2 ++ 43 :: p ++ e3 ++ q) = .ok (.s10 r q, []) ∧
      q ≠ [] ∧ q.length = r.seq.length := by
  obtain ⟨id, d, h1⟩ := fqRun_title_eol sh wq hh he1
  have h2 := fqRun_seqLine sh wq hsq id d
  have hsqne : sq ≠ [] := hsq.1
  have hqne : q ≠ [] := by
    intro hq0
    rw [hq0] at hlen
    cases sq with
    | nil => exact hsqne rfl
    | cons a t => simp at hlen
  refine ⟨mkRec id d (sq.map lower), ?_, hqne, by simp [mkRec, hlen]⟩
  have hshape : h ++ e1 ++ sq ++ e2 ++ 43 :: p ++ e3 ++ q = (h ++ e1) ++ (sq ++ (e2 ++ 43 :: (p ++ (e3 ++ q)))) := by
    simp
  rw [hshape, fqRun_append, h1]
  simp only
  rw [fqRun_append, h2]
  simp only
  -- end of the sequence line
  obtain ⟨hne2, hall2⟩ := he2
  cases e2 with
  | nil => exact absurd rfl hne2
  | cons x2 e2' =>
    have hx2 : isEol x2 = true := hall2 x2 (by simp)
    have he2' : AllEol e2' := fun y hy => hall2 y (by simp [hy])
    have hemp : (sq.map lower).isEmpty = false := by
      cases sq with
      | nil => exact absurd rfl hsqne
      | cons a t => rfl
    have hstep7 : fqStep sh wq (.s6 id d (sq.map lower)) x2 = .ok (.s7 (mkRec id d (sq.map lower)), none) := by
      simp [fqStep, hx2, hemp]
    rw [List.cons_append, fqRun_cons, hstep7]
    simp only
    rw [fqRun_append, fqRun_s7_eols sh wq e2' _ he2']
    simp only
    have hplus : fqStep sh wq (.s7 (mkRec id d (sq.map lower))) 43 = .ok (.s8 (mkRec id d (sq.map lower)), none) := by
      simp [fqStep, isEol]
    rw [fqRun_cons, hplus]
    simp only
    rw [fqRun_append, fqRun_s8_noEol sh wq p _ hp]
    simp only
    obtain ⟨hne3, hall3⟩ := he3
    cases e3 with
    | nil => exact absurd rfl hne3
    | cons x3 e3' =>
      have hx3 : isEol x3 = true := hall3 x3 (by simp)
      have he3' : AllEol e3' := fun y hy => hall3 y (by simp [hy])
      have hstep9 : fqStep sh wq (.s8 (mkRec id d (sq.map lower))) x3 = .ok (.s9 (mkRec id d (sq.map lower)), none) := by
        simp [fqStep, hx3]
      rw [List.cons_append, fqRun_cons, hstep9]
      simp only
      rw [fqRun_append, fqRun_s9_eols sh wq e3' _ he3']
      simp only
      cases q with
      | nil => exact absurd rfl hqne
      | cons c q' =>
        have hc : isEol c = false := hq c (by simp)
        have hq' : NoEol q' := fun y hy => hq y (by simp [hy])
        have hstep10 : fqStep sh wq (.s9 (mkRec id d (sq.map lower))) c = .ok (.s10 (mkRec id d (sq.map lower)) [c], none) := by
          simp [fqStep, hc]
        rw [fqRun_cons, hstep10]
        simp only
        rw [fqRun_s10_noEol sh wq q' _ [c] hq']
        simp

/-- a pending quality line of the right length is stored without error -/
theorem fqFinish_pending {r : Rec} {q : Seq} (hne : q ≠ []) (hlen : q.length = r.seq.length) :
    ∃ l, fqFinish sh wq (.s10 r q) = .ok l := by
  cases wq with
  | false => exact ⟨[r], rfl⟩
  | true =>
    have h0 : ¬ q.length = 0 := by
      intro h; exact hne (List.eq_nil_of_length_eq_zero h)
    refine ⟨[{ r with qual := some (q.map (· - sh)) }], ?_⟩
    have hsq : storeQual sh r q = .ok { r with qual := some (q.map (· - sh)) } := by
      unfold storeQual
      rw [if_neg h0, if_neg (fun hh => hh hlen)]
    simp [fqFinish, hsq]

theorem fastqRecords_run {r : Seq} (h : FastqRecords r) :
    ∃ t, r = 64 :: t ∧ ∃ rs r' q, fqRun sh wq .s1 t = .ok (.s10 r' q, rs) ∧ q ≠ [] ∧ q.length = r'.seq.length := by
  induction h with
  | @one h e1 sq e2 p e3 q hh he1 hsq he2 hp he3 hq hlen =>
    obtain ⟨r', hrun, hne, hl⟩ := fqRun_record sh wq hh he1 hsq he2 hp he3 hq hlen
    exact ⟨h ++ e1 ++ sq ++ e2 ++ 43 :: p ++ e3 ++ q, by simp, [], r', q, hrun, hne, hl⟩
  | @more h e1 sq e2 p e3 q e4 rest hh he1 hsq he2 hp he3 hq hlen he4 _ ih =>
    obtain ⟨r', hrun, hne, hl⟩ := fqRun_record sh wq hh he1 hsq he2 hp he3 hq hlen
    obtain ⟨t, rfl, rs, r2, q2, hrest, hne2, hl2⟩ := ih
    obtain ⟨l, hfin⟩ := fqFinish_pending sh wq hne hl
    have h4 := fqRun_end_eols sh wq (s := .s10 r' q) trivial hfin he4.2 he4.1
    refine ⟨h ++ e1 ++ sq ++ e2 ++ 43 :: p ++ e3 ++ q ++ e4 ++ 64 :: t, by simp, l ++ rs, r2, q2, ?_, hne2, hl2⟩
    have h0 : fqStep sh wq .s0 64 = .ok (.s1, none) := by simp [fqStep]
    rw [List.append_assoc, fqRun_append, hrun]
    simp only
    rw [fqRun_append, h4]
    simp only
    rw [fqRun_s11_at, fqRun_cons, h0]
    simp only [hrest]
    simp

/-- every file of the grammar is read by the chunk parser as a whole number of records, with or
without qualities, whatever the quality shift -/
theorem wellFormedFastq_complete {file : Seq} (h : WellFormedFastq file) :
    ∃ rs, FqComplete sh wq file rs := by
  obtain ⟨recs, tail, hr, htail, rfl⟩ := h
  obtain ⟨t, rfl, rs, r', q, hrun, hne, hl⟩ := fastqRecords_run sh wq hr
  obtain ⟨l, hfin⟩ := fqFinish_pending sh wq hne hl
  have h0 : fqStep sh wq .s0 64 = .ok (.s1, none) := by simp [fqStep]
  have hrecs : fqRun sh wq .s0 (64 :: t) = .ok (.s10 r' q, rs) := by
    rw [fqRun_cons, h0]
    simp only [hrun]
    simp
  cases tail with
  | nil =>
    refine ⟨rs ++ l, .s10 r' q, rs, l, ?_, trivial, hfin, rfl⟩
    rw [List.append_nil]; exact hrecs
  | cons c tl =>
    have h4 := fqRun_end_eols sh wq (s := .s10 r' q) trivial hfin htail (by simp)
    refine ⟨rs ++ l, .s11, rs ++ l, [], ?_, trivial, rfl, by simp⟩
    rw [fqRun_append, hrecs]
    simp only [h4]

/-- one record up to the end-of-line run before its quality line: the machine expects the quality line -/
theorem fqRun_record_head {h e1 sq e2 p e3 : Seq} (hh : TitleOK h) (he1 : EolRun e1) (hsq : SeqLineOK sq)
    (he2 : EolRun e2) (hp : NoEol p) (he3 : EolRun e3) :
    ∃ r, fqRun sh wq .s1 (h ++ e1 ++ sq ++ e2 ++ 43 :: p ++ e3) = .ok (.s9 r, []) := by
  obtain ⟨id, d, h1⟩ := fqRun_title_eol sh wq hh he1
  have h2 := fqRun_seqLine sh wq hsq id d
  have hsqne : sq ≠ [] := hsq.1
  refine ⟨mkRec id d (sq.map lower), ?_⟩
  have hshape : h ++ e1 ++ sq ++ e2 ++ 43 :: p ++ e3 = (h ++ e1) ++ (sq ++ (e2 ++ 43 :: (p ++ e3))) := by
    simp
  rw [hshape, fqRun_append, h1]
  simp only
  rw [fqRun_append, h2]
  simp only
  obtain ⟨hne2, hall2⟩ := he2
  cases e2 with
  | nil => exact absurd rfl hne2
  | cons x2 e2' =>
    have hx2 : isEol x2 = true := hall2 x2 (by simp)
    have he2' : AllEol e2' := fun y hy => hall2 y (by simp [hy])
    have hemp : (sq.map lower).isEmpty = false := by
      cases sq with
      | nil => exact absurd rfl hsqne
      | cons a t => rfl
    have hstep7 : fqStep sh wq (.s6 id d (sq.map lower)) x2 = .ok (.s7 (mkRec id d (sq.map lower)), none) := by
      simp [fqStep, hx2, hemp]
    rw [List.cons_append, fqRun_cons, hstep7]
    simp only
    rw [fqRun_append, fqRun_s7_eols sh wq e2' _ he2']
    simp only
    have hplus : fqStep sh wq (.s7 (mkRec id d (sq.map lower))) 43 = .ok (.s8 (mkRec id d (sq.map lower)), none) := by
      simp [fqStep, isEol]
    rw [fqRun_cons, hplus]
    simp only
    rw [fqRun_append, fqRun_s8_noEol sh wq p _ hp]
    simp only
    obtain ⟨hne3, hall3⟩ := he3
    cases e3 with
    | nil => exact absurd rfl hne3
    | cons x3 e3' =>
      have hx3 : isEol x3 = true := hall3 x3 (by simp)
      have he3' : AllEol e3' := fun y hy => hall3 y (by simp [hy])
      have hstep9 : fqStep sh wq (.s8 (mkRec id d (sq.map lower))) x3 = .ok (.s9 (mkRec id d (sq.map lower)), none) := by
        simp [fqStep, hx3]
      rw [fqRun_cons, hstep9]
      simp only
      rw [fqRun_s9_eols sh wq e3' _ he3']
      rfl

end

/-- the text up to (excluding) the quality line of the last record begun: whole records, then
`@`title, sequence line, `+` line and the end-of-line run before the quality line -/
inductive BeforeQual : Seq → Prop
  | first {h e1 sq e2 p e3 : Seq} : TitleOK h → EolRun e1 → SeqLineOK sq → EolRun e2 → NoEol p → EolRun e3 →
      BeforeQual (64 :: h ++ e1 ++ sq ++ e2 ++ 43 :: p ++ e3)
  | later {recs e4 h e1 sq e2 p e3 : Seq} : FastqRecords recs → EolRun e4 →
      TitleOK h → EolRun e1 → SeqLineOK sq → EolRun e2 → NoEol p → EolRun e3 →
      BeforeQual (recs ++ e4 ++ 64 :: h ++ e1 ++ sq ++ e2 ++ 43 :: p ++ e3)

section
variable (sh : UInt8) (wq : Bool)

/-- there the machine is in state 9 ("quality line expected"), not 11 -/
theorem beforeQual_state {pre : Seq} (h : BeforeQual pre) : ∃ r rs, fqRun sh wq .s0 pre = .ok (.s9 r, rs) := by
  have h0 : fqStep sh wq .s0 64 = .ok (.s1, none) := by simp [fqStep]
  cases h with
  | @first h e1 sq e2 p e3 hh he1 hsq he2 hp he3 =>
    obtain ⟨r, hr⟩ := fqRun_record_head sh wq hh he1 hsq he2 hp he3
    refine ⟨r, [], ?_⟩
    have : 64 :: h ++ e1 ++ sq ++ e2 ++ 43 :: p ++ e3 = 64 :: (h ++ e1 ++ sq ++ e2 ++ 43 :: p ++ e3) := by simp
    rw [this, fqRun_cons, h0]
    simp only [hr]
    rfl
  | @later recs e4 h e1 sq e2 p e3 hrecs he4 hh he1 hsq he2 hp he3 =>
    obtain ⟨r, hr⟩ := fqRun_record_head sh wq hh he1 hsq he2 hp he3
    obtain ⟨t, rfl, rs, r', q, hrun, hne, hl⟩ := fastqRecords_run sh wq hrecs
    obtain ⟨l, hfin⟩ := fqFinish_pending sh wq hne hl
    have h4 := fqRun_end_eols sh wq (s := .s10 r' q) trivial hfin he4.2 he4.1
    refine ⟨r, rs ++ l, ?_⟩
    have : 64 :: t ++ e4 ++ 64 :: h ++ e1 ++ sq ++ e2 ++ 43 :: p ++ e3 =
        64 :: (t ++ (e4 ++ 64 :: (h ++ e1 ++ sq ++ e2 ++ 43 :: p ++ e3))) := by simp
    rw [this, fqRun_cons, h0]
    simp only
    rw [fqRun_append, hrun]
    simp only
    rw [fqRun_append, h4]
    simp only
    rw [fqRun_s11_at, fqRun_cons, h0]
    simp only [hr]
    simp

end

end ObiVerif.Parse
