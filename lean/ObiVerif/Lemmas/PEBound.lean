import ObiVerif.Lemmas.PEAlign
/-!
# Magnitude bounds for the paired-end alignment DP (C08)

`Model/PEAlign` models Go's 64-bit `int` by `Int`.  This file justifies it: when every column score and
every gap cost is within `±B`, the cell `(i, j)` of a fill is within `±(i + j) * B`, the three candidates
the Go code holds in an `int` before taking the maximum are within `±(i + j + 2) * B`, a diagonal sum of
`n` columns is within `±n * B`, and a path score is within `±(la + lb) * B`.  With reads shorter than
`2^31` and scores / penalties within `±2^20` nothing ever leaves `(-2^62, 2^62)`.
-/
set_option Elab.async false

namespace ObiVerif.PEAlign
open ObiVerif.Align

/-! ## arithmetic helpers -/

theorem bd_cast_add_mul (a b : Nat) (B : Int) : ((a + b : Nat) : Int) * B = (a : Int) * B + (b : Int) * B := by
  rw [Int.natCast_add, Int.add_mul]

theorem bd_nat_mul_nonneg (n : Nat) (B : Int) (hB : 0 ≤ B) : 0 ≤ (n : Int) * B :=
  Int.mul_nonneg (Int.natCast_nonneg n) hB

theorem bd_nat_mul_mono (n N : Nat) (B : Int) (hB : 0 ≤ B) (h : n ≤ N) : (n : Int) * B ≤ (N : Int) * B :=
  Int.mul_le_mul_of_nonneg_right (Int.ofNat_le.mpr h) hB

/-- `n` copies of a value within `±B` -/
theorem bd_nat_mul_bound (B : Int) (c : Int) (hc : -B ≤ c ∧ c ≤ B) :
    ∀ n : Nat, -((n : Int) * B) ≤ (n : Int) * c ∧ (n : Int) * c ≤ (n : Int) * B
  | 0 => by simp
  | n + 1 => by
    have ih := bd_nat_mul_bound B c hc n
    rw [succ_cast_mul, succ_cast_mul]
    omega

/-! ## (B1) every cell -/

section Fill
variable {s : Nat → Nat → Int} {cA cB : Nat → Int} {la lb : Nat} {M P : Nat → Nat → Int}

/-- one inner cell from its three neighbours -/
theorem bd_step (B : Int) (_ : 0 ≤ B) (hf : IsFill s cA cB la lb M P) (i j : Nat) (hi : i < la) (hj : j < lb)
    (hs : -B ≤ s i j ∧ s i j ≤ B) (hcA : -B ≤ cA (j + 1) ∧ cA (j + 1) ≤ B)
    (hcB : -B ≤ cB (i + 1) ∧ cB (i + 1) ≤ B)
    (hD : -(((i + j : Nat) : Int) * B) ≤ M i j ∧ M i j ≤ ((i + j : Nat) : Int) * B)
    (hL : -(((i + 1 + j : Nat) : Int) * B) ≤ M (i + 1) j ∧ M (i + 1) j ≤ ((i + 1 + j : Nat) : Int) * B)
    (hT : -(((i + (j + 1) : Nat) : Int) * B) ≤ M i (j + 1) ∧ M i (j + 1) ≤ ((i + (j + 1) : Nat) : Int) * B) :
    -(((i + 1 + (j + 1) : Nat) : Int) * B) ≤ M (i + 1) (j + 1) ∧
      M (i + 1) (j + 1) ≤ ((i + 1 + (j + 1) : Nat) : Int) * B := by
  simp only [bd_cast_add_mul, Int.natCast_one, Int.one_mul] at hD hL hT ⊢
  generalize (i : Int) * B = X at *
  generalize (j : Int) * B = Y at *
  have h := congrArg Prod.fst (hf.inner i j hi hj)
  rcases best_cases (M i j + s i j) (M (i + 1) j + cB (i + 1)) (M i (j + 1) + cA (j + 1)) with hb | hb | hb <;>
    (rw [hb.1] at h; simp only at h; omega)

/-- **(B1)** the cell `(i, j)` of a fill is within `±(i + j) * B` -/
theorem fill_abs_bound (B : Int) (hB : 0 ≤ B)
    (hf : IsFill s cA cB la lb M P)
    (hs : ∀ i j, i < la → j < lb → -B ≤ s i j ∧ s i j ≤ B)
    (hcA : ∀ j, -B ≤ cA j ∧ cA j ≤ B) (hcB : ∀ i, -B ≤ cB i ∧ cB i ≤ B) :
    ∀ (j i : Nat), i ≤ la → j ≤ lb →
      -(((i + j : Nat) : Int) * B) ≤ M i j ∧ M i j ≤ ((i + j : Nat) : Int) * B
  | 0, 0, _, _ => by
    rw [hf.m00]; simp
  | 0, i + 1, hi, hj => by
    have h1 := (hf.col0 i (by omega)).1
    have h2 := fill_abs_bound B hB hf hs hcA hcB 0 i (by omega) hj
    have h3 := hcA 0
    simp only [Nat.add_zero] at h2 ⊢
    rw [succ_cast_mul]
    omega
  | j + 1, 0, hi, hj => by
    have h1 := (hf.row0 j (by omega)).1
    have h2 := fill_abs_bound B hB hf hs hcA hcB j 0 hi (by omega)
    have h3 := hcB 0
    simp only [Nat.zero_add] at h2 ⊢
    rw [succ_cast_mul]
    omega
  | j + 1, i + 1, hi, hj =>
    bd_step B hB hf i j (by omega) (by omega) (hs i j (by omega) (by omega)) (hcA (j + 1)) (hcB (i + 1))
      (fill_abs_bound B hB hf hs hcA hcB j i (by omega) (by omega))
      (fill_abs_bound B hB hf hs hcA hcB j (i + 1) hi (by omega))
      (fill_abs_bound B hB hf hs hcA hcB (j + 1) i (by omega) hj)

/-! ## (B2) the three candidates of an inner cell -/

/-- **(B2)** `diag + score`, `left + gap`, `top + gap` are within `±(i + j + 2) * B` -/
theorem fill_candidates_bound (B : Int) (hB : 0 ≤ B)
    (hf : IsFill s cA cB la lb M P)
    (hs : ∀ i j, i < la → j < lb → -B ≤ s i j ∧ s i j ≤ B)
    (hcA : ∀ j, -B ≤ cA j ∧ cA j ≤ B) (hcB : ∀ i, -B ≤ cB i ∧ cB i ≤ B)
    (i j : Nat) (hi : i < la) (hj : j < lb) :
    (-(((i + j + 2 : Nat) : Int) * B) ≤ M i j + s i j ∧ M i j + s i j ≤ ((i + j + 2 : Nat) : Int) * B) ∧
    (-(((i + j + 2 : Nat) : Int) * B) ≤ M (i + 1) j + cB (i + 1) ∧
      M (i + 1) j + cB (i + 1) ≤ ((i + j + 2 : Nat) : Int) * B) ∧
    (-(((i + j + 2 : Nat) : Int) * B) ≤ M i (j + 1) + cA (j + 1) ∧
      M i (j + 1) + cA (j + 1) ≤ ((i + j + 2 : Nat) : Int) * B) := by
  have hD := fill_abs_bound B hB hf hs hcA hcB j i (by omega) (by omega)
  have hL := fill_abs_bound B hB hf hs hcA hcB j (i + 1) (by omega) (by omega)
  have hT := fill_abs_bound B hB hf hs hcA hcB (j + 1) i (by omega) (by omega)
  have h1 := hs i j hi hj
  have h2 := hcB (i + 1)
  have h3 := hcA (j + 1)
  have e2 : ((2 : Nat) : Int) * B = B + B := by
    rw [show ((2 : Nat) : Int) = 1 + 1 from rfl, Int.add_mul, Int.one_mul]
  simp only [bd_cast_add_mul, Int.natCast_one, Int.one_mul, e2] at hD hL hT ⊢
  generalize (i : Int) * B = X at *
  generalize (j : Int) * B = Y at *
  omega

end Fill

/-! ## (B3) diagonal sums and path scores -/

theorem bd_diagScore_eq_runD (s : Nat → Nat → Int) : ∀ n i j, diagScore s n i j = runD s n i j
  | 0, _, _ => rfl
  | n + 1, i, j => by simp only [diagScore, runD, bd_diagScore_eq_runD s n]

/-- **(B3)** a run of `n` diagonal columns is within `±n * B` -/
theorem runD_abs_bound (s : Nat → Nat → Int) (B : Int) :
    ∀ (n i j : Nat), (∀ k, k < n → -B ≤ s (i + k) (j + k) ∧ s (i + k) (j + k) ≤ B) →
      -((n : Int) * B) ≤ runD s n i j ∧ runD s n i j ≤ (n : Int) * B
  | 0, _, _, _ => by simp [runD]
  | n + 1, i, j, h => by
    have h0 := h 0 (by omega)
    have ih := runD_abs_bound s B n (i + 1) (j + 1) (by
      intro k hk
      have := h (k + 1) (by omega)
      have e1 : i + 1 + k = i + (k + 1) := by omega
      have e2 : j + 1 + k = j + (k + 1) := by omega
      rw [e1, e2]; exact this)
    simp only [Nat.add_zero] at h0
    simp only [runD]
    rw [succ_cast_mul]
    omega

/-- **(B3)** the running sum of fast mode is within `±n * B` -/
theorem diagScore_abs_bound (s : Nat → Nat → Int) (B : Int) (n i j : Nat)
    (h : ∀ k, k < n → -B ≤ s (i + k) (j + k) ∧ s (i + k) (j + k) ≤ B) :
    -((n : Int) * B) ≤ diagScore s n i j ∧ diagScore s n i j ≤ (n : Int) * B := by
  rw [bd_diagScore_eq_runD]
  exact runD_abs_bound s B n i j h

/-- a path segment is within `±(bases of A used + bases of B used) * B` -/
theorem bd_scoreFrom_bound (s : Nat → Nat → Int) (cA cB : Nat → Int) (la lb : Nat) (B : Int) (hB : 0 ≤ B)
    (hs : ∀ i j, i < la → j < lb → -B ≤ s i j ∧ s i j ≤ B)
    (hcA : ∀ j, -B ≤ cA j ∧ cA j ≤ B) (hcB : ∀ i, -B ≤ cB i ∧ cB i ≤ B) :
    ∀ (p : Path) (i j : Nat), wf p = true → i + usedA p = la → j + usedB p = lb →
      -(((usedA p + usedB p : Nat) : Int) * B) ≤ scoreFrom s cA cB i j p ∧
        scoreFrom s cA cB i j p ≤ ((usedA p + usedB p : Nat) : Int) * B
  | [], i, j, _, _, _ => by simp [scoreFrom, usedA, usedB]
  | [_], _, _, hw, _, _ => by simp [wf] at hw
  | ind :: d :: rest, i, j, hw, hA, hB' => by
    simp only [wf_cons, Bool.and_eq_true, decide_eq_true_eq] at hw
    rw [usedA_cons] at hA
    rw [usedB_cons] at hB'
    have ih := bd_scoreFrom_bound s cA cB la lb B hB hs hcA hcB rest
      (i + (-ind).toNat + d.toNat) (j + ind.toNat + d.toNat) hw.2 (by omega) (by omega)
    have hd := runD_abs_bound s B d.toNat (i + (-ind).toNat) (j + ind.toNat) (by
      intro k hk
      exact hs _ _ (by omega) (by omega))
    have hu := bd_nat_mul_bound B (cA j) (hcA j) (-ind).toNat
    have hl := bd_nat_mul_bound B (cB i) (hcB i) ind.toNat
    have hdn := bd_nat_mul_nonneg d.toNat B hB
    simp only [scoreFrom, usedA_cons, usedB_cons]
    simp only [bd_cast_add_mul] at ih ⊢
    generalize ((-ind).toNat : Int) * B = U at *
    generalize (ind.toNat : Int) * B = L at *
    generalize (d.toNat : Int) * B = D at *
    generalize ((usedA rest : Nat) : Int) * B = RA at *
    generalize ((usedB rest : Nat) : Int) * B = RB at *
    generalize ((-ind).toNat : Int) * cA j = u at *
    generalize (ind.toNat : Int) * cB i = l at *
    omega

/-- **(B3)** the score of a path that consumes both reads is within `±(la + lb) * B` -/
theorem scoreOf_abs_bound (s : Nat → Nat → Int) (cA cB : Nat → Int) (la lb : Nat) (B : Int) (hB : 0 ≤ B)
    (hs : ∀ i j, i < la → j < lb → -B ≤ s i j ∧ s i j ≤ B)
    (hcA : ∀ j, -B ≤ cA j ∧ cA j ≤ B) (hcB : ∀ i, -B ≤ cB i ∧ cB i ≤ B)
    (p : Path) (hp : consumes p la lb) :
    -(((la + lb : Nat) : Int) * B) ≤ scoreOf s cA cB p ∧ scoreOf s cA cB p ≤ ((la + lb : Nat) : Int) * B := by
  have h := bd_scoreFrom_bound s cA cB la lb B hB hs hcA hcB p 0 0 hp.1 (by simpa using hp.2.1)
    (by simpa using hp.2.2)
  rw [hp.2.1, hp.2.2] at h
  exact h

/-! ## (B4) the numbers of the real code -/

theorem bd_pow20 : (2 ^ 20 : Int) = 1048576 := by decide
theorem bd_pow62 : (2 ^ 62 : Int) = 4611686018427387904 := by decide
theorem bd_pow31 : (2 ^ 31 : Nat) = 2147483648 := by decide

/-- the numeral form of (B4) -/
theorem bd_no_overflow_num {s : Nat → Nat → Int} {cA cB : Nat → Int} {la lb : Nat} {M P : Nat → Nat → Int}
    (hf : IsFill s cA cB la lb M P) (hla : la < 2147483648) (hlb : lb < 2147483648)
    (hs : ∀ i j, i < la → j < lb → -(1048576 : Int) ≤ s i j ∧ s i j ≤ 1048576)
    (hcA : ∀ j, -(1048576 : Int) ≤ cA j ∧ cA j ≤ 1048576)
    (hcB : ∀ i, -(1048576 : Int) ≤ cB i ∧ cB i ≤ 1048576) :
    (∀ i j, i ≤ la → j ≤ lb → -(4611686018427387904 : Int) < M i j ∧ M i j < 4611686018427387904) ∧
    (∀ i j, i < la → j < lb →
       (-(4611686018427387904 : Int) < M i j + s i j ∧ M i j + s i j < 4611686018427387904) ∧
       (-(4611686018427387904 : Int) < M (i + 1) j + cB (i + 1) ∧
          M (i + 1) j + cB (i + 1) < 4611686018427387904) ∧
       (-(4611686018427387904 : Int) < M i (j + 1) + cA (j + 1) ∧
          M i (j + 1) + cA (j + 1) < 4611686018427387904)) := by
  have hall := fill_abs_bound (1048576 : Int) (by omega) hf hs hcA hcB
  refine ⟨?_, ?_⟩
  · intro i j hi hj
    have h := hall j i hi hj
    omega
  · intro i j hi hj
    have hD := hall j i (by omega) (by omega)
    have hL := hall j (i + 1) (by omega) (by omega)
    have hT := hall (j + 1) i (by omega) (by omega)
    have h1 := hs i j hi hj
    have h2 := hcB (i + 1)
    have h3 := hcA (j + 1)
    omega

/-- **(B4)** reads shorter than `2^31`, scores and gap costs within `±2^20`: every cell and every
intermediate candidate stays strictly inside `(-2^62, 2^62)`, hence inside a Go `int` -/
theorem fill_no_overflow {s : Nat → Nat → Int} {cA cB : Nat → Int} {la lb : Nat} {M P : Nat → Nat → Int}
    (hf : IsFill s cA cB la lb M P) (hla : la < 2^31) (hlb : lb < 2^31)
    (hs : ∀ i j, i < la → j < lb → -(2^20 : Int) ≤ s i j ∧ s i j ≤ 2^20)
    (hcA : ∀ j, -(2^20 : Int) ≤ cA j ∧ cA j ≤ 2^20) (hcB : ∀ i, -(2^20 : Int) ≤ cB i ∧ cB i ≤ 2^20) :
    (∀ i j, i ≤ la → j ≤ lb → -(2^62 : Int) < M i j ∧ M i j < 2^62) ∧
    (∀ i j, i < la → j < lb →
       (-(2^62 : Int) < M i j + s i j ∧ M i j + s i j < 2^62) ∧
       (-(2^62 : Int) < M (i + 1) j + cB (i + 1) ∧ M (i + 1) j + cB (i + 1) < 2^62) ∧
       (-(2^62 : Int) < M i (j + 1) + cA (j + 1) ∧ M i (j + 1) + cA (j + 1) < 2^62)) := by
  rw [bd_pow31] at hla hlb
  simp only [bd_pow20] at hs hcA hcB
  simp only [bd_pow62]
  exact bd_no_overflow_num hf hla hlb hs hcA hcB

/-- diagonal sums of the real code: at most `2^31` columns within `±2^20` -/
theorem diagScore_no_overflow (s : Nat → Nat → Int) (n i j : Nat) (hn : n < 2^31)
    (h : ∀ k, k < n → -(2^20 : Int) ≤ s (i + k) (j + k) ∧ s (i + k) (j + k) ≤ 2^20) :
    -(2^62 : Int) < diagScore s n i j ∧ diagScore s n i j < 2^62 := by
  rw [bd_pow31] at hn
  simp only [bd_pow20] at h
  simp only [bd_pow62]
  have := diagScore_abs_bound s (1048576 : Int) n i j h
  omega

/-! ## (B5) the two end-gap-free schemes -/

theorem bd_cALeft (g B : Int) (hB : 0 ≤ B) (hg : -B ≤ g ∧ g ≤ B) (j : Nat) :
    -B ≤ cALeft g j ∧ cALeft g j ≤ B := by
  unfold cALeft; split <;> omega

theorem bd_cBLeft (g B : Int) (hB : 0 ≤ B) (hg : -B ≤ g ∧ g ≤ B) (la i : Nat) :
    -B ≤ cBLeft g la i ∧ cBLeft g la i ≤ B := by
  unfold cBLeft; split <;> omega

theorem bd_cARight (g B : Int) (hB : 0 ≤ B) (hg : -B ≤ g ∧ g ≤ B) (lb j : Nat) :
    -B ≤ cARight g lb j ∧ cARight g lb j ≤ B := by
  unfold cARight; split <;> omega

theorem bd_cBRight (g B : Int) (hB : 0 ≤ B) (hg : -B ≤ g ∧ g ≤ B) (i : Nat) :
    -B ≤ cBRight g i ∧ cBRight g i ≤ B := by
  unfold cBRight; split <;> omega

/-- (B1) for the matrices the two fills compute -/
theorem fillLeft_fillRight_abs_bound (s : Nat → Nat → Int) (g B : Int) (la lb : Nat) (hB : 0 ≤ B)
    (hs : ∀ i j, i < la → j < lb → -B ≤ s i j ∧ s i j ≤ B) (hg : -B ≤ g ∧ g ≤ B)
    (i j : Nat) (hi : i ≤ la) (hj : j ≤ lb) :
    (-(((i + j : Nat) : Int) * B) ≤ Mf s (cALeft g) (cBLeft g la) la i j ∧
      Mf s (cALeft g) (cBLeft g la) la i j ≤ ((i + j : Nat) : Int) * B) ∧
    (-(((i + j : Nat) : Int) * B) ≤ Mf s (cARight g lb) (cBRight g) la i j ∧
      Mf s (cARight g lb) (cBRight g) la i j ≤ ((i + j : Nat) : Int) * B) :=
  ⟨fill_abs_bound B hB (isFill_cells s (cALeft g) (cBLeft g la) la lb) hs (bd_cALeft g B hB hg)
      (bd_cBLeft g B hB hg la) j i hi hj,
   fill_abs_bound B hB (isFill_cells s (cARight g lb) (cBRight g) la lb) hs (bd_cARight g B hB hg lb)
      (bd_cBRight g B hB hg) j i hi hj⟩

/-- the conclusion of (B4) for one score matrix -/
def bd_NoOverflow (s : Nat → Nat → Int) (cA cB : Nat → Int) (la lb : Nat) (M : Nat → Nat → Int) : Prop :=
  (∀ i j, i ≤ la → j ≤ lb → -(2^62 : Int) < M i j ∧ M i j < 2^62) ∧
  (∀ i j, i < la → j < lb →
     (-(2^62 : Int) < M i j + s i j ∧ M i j + s i j < 2^62) ∧
     (-(2^62 : Int) < M (i + 1) j + cB (i + 1) ∧ M (i + 1) j + cB (i + 1) < 2^62) ∧
     (-(2^62 : Int) < M i (j + 1) + cA (j + 1) ∧ M i (j + 1) + cA (j + 1) < 2^62))

/-- **(B5)** both fills of `PEAlign`, on reads shorter than `2^31` with column scores and gap penalty
within `±2^20`: every cell and every candidate of both matrices is strictly inside `(-2^62, 2^62)` -/
theorem fillLeft_fillRight_no_overflow (s : Nat → Nat → Int) (g : Int) (la lb : Nat)
    (hla : la < 2^31) (hlb : lb < 2^31)
    (hs : ∀ i j, i < la → j < lb → -(2^20 : Int) ≤ s i j ∧ s i j ≤ 2^20)
    (hg : -(2^20 : Int) ≤ g ∧ g ≤ 2^20) :
    bd_NoOverflow s (cALeft g) (cBLeft g la) la lb (Mf s (cALeft g) (cBLeft g la) la) ∧
    bd_NoOverflow s (cARight g lb) (cBRight g) la lb (Mf s (cARight g lb) (cBRight g) la) := by
  have hB : (0 : Int) ≤ 2^20 := by rw [bd_pow20]; omega
  exact ⟨fill_no_overflow (isFill_cells s (cALeft g) (cBLeft g la) la lb) hla hlb hs
      (bd_cALeft g _ hB hg) (bd_cBLeft g _ hB hg la),
    fill_no_overflow (isFill_cells s (cARight g lb) (cBRight g) la lb) hla hlb hs
      (bd_cARight g _ hB hg lb) (bd_cBRight g _ hB hg)⟩

/-- the scores `fillLeft` / `fillRight` report (and hence the one `peAlignExact` returns) fit -/
theorem fill_scores_no_overflow (s : Nat → Nat → Int) (g : Int) (la lb : Nat)
    (hla : la < 2^31) (hlb : lb < 2^31)
    (hs : ∀ i j, i < la → j < lb → -(2^20 : Int) ≤ s i j ∧ s i j ≤ 2^20)
    (hg : -(2^20 : Int) ≤ g ∧ g ≤ 2^20) :
    (∀ r, fillLeft s g la lb = some r → -(2^62 : Int) < r.score ∧ r.score < 2^62) ∧
    (∀ r, fillRight s g la lb = some r → -(2^62 : Int) < r.score ∧ r.score < 2^62) ∧
    (∀ r, peAlignExact s g la lb = some r → -(2^62 : Int) < r.score ∧ r.score < 2^62) := by
  have hno := fillLeft_fillRight_no_overflow s g la lb hla hlb hs hg
  have hL : ∀ r, fillLeft s g la lb = some r → -(2^62 : Int) < r.score ∧ r.score < 2^62 := by
    intro r hr
    by_cases h0 : la = 0 ∨ lb = 0
    · simp [fillLeft, fill, h0] at hr
    · obtain ⟨p, hp, _, _⟩ := fill_ok s (cALeft g) (cBLeft g la) la lb (by omega) (by omega)
      unfold fillLeft at hr
      rw [hp] at hr
      cases hr
      exact hno.1.1 la lb (Nat.le_refl _) (Nat.le_refl _)
  have hR : ∀ r, fillRight s g la lb = some r → -(2^62 : Int) < r.score ∧ r.score < 2^62 := by
    intro r hr
    by_cases h0 : la = 0 ∨ lb = 0
    · simp [fillRight, fill, h0] at hr
    · obtain ⟨p, hp, _, _⟩ := fill_ok s (cARight g lb) (cBRight g) la lb (by omega) (by omega)
      unfold fillRight at hr
      rw [hp] at hr
      cases hr
      exact hno.2.1 la lb (Nat.le_refl _) (Nat.le_refl _)
  refine ⟨hL, hR, ?_⟩
  intro r hr
  unfold peAlignExact at hr
  cases hfr : fillRight s g la lb with
  | none => simp [hfr] at hr
  | some fr =>
    cases hfl : fillLeft s g la lb with
    | none => simp [hfr, hfl] at hr
    | some fl =>
      simp only [hfr, hfl] at hr
      split at hr
      · cases hr; exact hL fl hfl
      · cases hr; exact hR fr hfr

/-! ## non-vacuity -/

/-- a 3 × 3 instance: match 2, mismatch −1, gap −3.  The hypotheses of (B5) hold, so the bounds apply
to the executed tables, whose corner cells are 6 for both schemes. -/
example :
    bd_NoOverflow (fun i j => if i = j then 2 else -1) (cALeft (-3)) (cBLeft (-3) 3) 3 3
      (Mf (fun i j => if i = j then 2 else -1) (cALeft (-3)) (cBLeft (-3) 3) 3) ∧
    bd_NoOverflow (fun i j => if i = j then 2 else -1) (cARight (-3) 3) (cBRight (-3)) 3 3
      (Mf (fun i j => if i = j then 2 else -1) (cARight (-3) 3) (cBRight (-3)) 3) ∧
    Mf (fun i j => if i = j then 2 else -1) (cALeft (-3)) (cBLeft (-3) 3) 3 3 3 = 6 ∧
    Mf (fun i j => if i = j then 2 else -1) (cARight (-3) 3) (cBRight (-3)) 3 3 3 = 6 := by
  have h := fillLeft_fillRight_no_overflow (fun i j => if i = j then 2 else -1) (-3) 3 3
    (by decide) (by decide)
    (by
      intro i j _ _
      rw [bd_pow20]
      by_cases h : i = j
      · simp [h]
      · simp [h])
    (by rw [bd_pow20]; omega)
  exact ⟨h.1, h.2, by decide, by decide⟩

end ObiVerif.PEAlign
