import ObiVerif.Model.WriteDev
import ObiVerif.Lemmas.WriteErr
/-!
# Variant of the generic `bufio.Writer` lemmas for a device that never makes a short write without an error

`HLaw w got Q P`: `P` is the invariant of a live device; a write without error takes everything and keeps `P`; a
write with an error leaves a dead device described by `Q s x` where `x` is a prefix of everything it was shown.
`HInv got Q P b e` is the corresponding invariant of the `bufio.Writer`.
-/
namespace ObiVerif.WriteErr

section hinv
variable {σ : Type} (w : WFn σ) (got : σ → Bytes) (Q : σ → Bytes → Prop) (P : σ → Prop)

/-- law of a device that never makes a short write without an error.  `P` = invariant of a LIVE device, `Q s x` = the
device is dead and `x` (a prefix of everything it was shown) describes what it holds -/
structure HLaw : Prop where
  acc : ∀ s p, got (w s p).1 = got s ++ p.take (w s p).2.1
  okc : ∀ s p, P s → (w s p).2.2 = false → (w s p).2.1 = p.length ∧ P (w s p).1
  dead : ∀ s p, P s → (w s p).2.2 = true → ∃ x, x <+: got s ++ p ∧ Q (w s p).1 x

structure HInv (b : GW σ) (e : Bytes) : Prop where
  pre : got b.dev <+: e
  ok : b.err = false → got b.dev ++ b.buf = e ∧ P b.dev
  bad : b.err = true → ∃ x, x <+: e ∧ Q b.dev x

variable {w got Q P}

theorem gwriteLoop_err_id (fuel : Nat) (b : GW σ) (p : Bytes) (he : b.err = true) :
    GW.writeLoop w fuel b p = (b, p) := by
  cases fuel with
  | zero => rfl
  | succ f =>
    rw [GW.writeLoop]
    simp [he]

theorem hflush_inv (L : HLaw w got Q P) {b : GW σ} {e : Bytes} (h : HInv got Q P b e) :
    HInv got Q P (b.flush w) e ∧ ((b.flush w).err = false → (b.flush w).buf = []) := by
  unfold GW.flush
  by_cases he : b.err = true
  · simp only [he, if_true]
    exact ⟨h, fun hf => by simp at hf⟩
  · have he' : b.err = false := by simpa using he
    simp only [he']
    by_cases hl : b.buf.length = 0
    · simp only [hl, if_true]
      exact ⟨h, fun _ => List.eq_nil_of_length_eq_zero hl⟩
    · simp only [hl, if_false]
      obtain ⟨hok, hP⟩ := h.ok he'
      have hacc := L.acc b.dev b.buf
      rcases Bool.eq_false_or_eq_true (w b.dev b.buf).2.2 with hr | hr
      ·
        have hc : ((w b.dev b.buf).2.2 || decide ((w b.dev b.buf).2.1 < b.buf.length)) = true := by
          simp [hr]
        rw [if_pos hc]
        refine ⟨⟨?_, ?_, ?_⟩, ?_⟩
        · show got (w b.dev b.buf).1 <+: e
          rw [hacc, ← hok]
          exact (List.prefix_append_right_inj _).mpr (List.take_prefix _ _)
        · intro hf; simp at hf
        · intro _
          obtain ⟨x, hx, hq⟩ := L.dead _ _ hP hr
          exact ⟨x, by rw [← hok]; exact hx, hq⟩
        · intro hf; simp at hf
      ·
        obtain ⟨hn, hP'⟩ := L.okc _ _ hP hr
        have hc : ¬ (((w b.dev b.buf).2.2 || decide ((w b.dev b.buf).2.1 < b.buf.length)) = true) := by
          simp [hr, hn]
        rw [if_neg hc]
        have hg : got (w b.dev b.buf).1 = e := by
          rw [hacc, List.take_of_length_le (by omega), hok]
        refine ⟨⟨?_, ?_, ?_⟩, ?_⟩
        · show got (w b.dev b.buf).1 <+: e
          rw [hg]; exact List.prefix_refl _
        · intro _
          refine ⟨?_, hP'⟩
          show got (w b.dev b.buf).1 ++ [] = e
          rw [hg, List.append_nil]
        · intro hf; simp at hf
        · intro _; rfl

theorem hfin_inv {b : GW σ} {e : Bytes} (h : HInv got Q P b e) (p : Bytes) :
    HInv got Q P (GW.fin (b, p)) (e ++ p) := by
  unfold GW.fin
  cases he : b.err with
  | true =>
    simp only [he, if_true]
    refine ⟨List.IsPrefix.trans h.pre (List.prefix_append _ _), ?_, ?_⟩
    · intro hf; simp [he] at hf
    · intro _
      obtain ⟨x, hx, hq⟩ := h.bad he
      exact ⟨x, List.IsPrefix.trans hx (List.prefix_append _ _), hq⟩
  | false =>
    simp only [he, Bool.false_eq_true, if_false]
    refine ⟨List.IsPrefix.trans h.pre (List.prefix_append _ _), ?_, ?_⟩
    · intro _
      refine ⟨?_, (h.ok he).2⟩
      show got b.dev ++ (b.buf ++ p) = e ++ p
      rw [← List.append_assoc, (h.ok he).1]
    · intro hf; simp at hf

theorem hwriteLoop_inv (L : HLaw w got Q P) (fuel : Nat) (b : GW σ) (p e : Bytes)
    (h : HInv got Q P b e) : HInv got Q P (GW.fin (GW.writeLoop w fuel b p)) (e ++ p) := by
  induction fuel generalizing b p e with
  | zero => exact hfin_inv h p
  | succ f ih =>
    rw [GW.writeLoop]
    by_cases hcond : (decide (p.length > b.size - b.buf.length) && !b.err) = true
    · rw [if_pos hcond]
      have he : b.err = false := by
        cases hb : b.err with
        | false => rfl
        | true => simp [hb] at hcond
      obtain ⟨hok, hP⟩ := h.ok he
      by_cases hl : b.buf.length = 0
      · rw [if_pos hl]
        have hbuf : b.buf = [] := List.eq_nil_of_length_eq_zero hl
        have hge : got b.dev = e := by rw [← hok, hbuf, List.append_nil]
        have hacc := L.acc b.dev p
        cases hr : (w b.dev p).2.2 with
        | true =>
          have hid := gwriteLoop_err_id (w := w) f
            { b with err := (w b.dev p).2.2, dev := (w b.dev p).1 } (p.drop (w b.dev p).2.1) hr
          show HInv got Q P (GW.fin (GW.writeLoop w f
            { b with err := (w b.dev p).2.2, dev := (w b.dev p).1 } (p.drop (w b.dev p).2.1))) (e ++ p)
          rw [hid]
          unfold GW.fin
          simp only [hr, if_true]
          refine ⟨?_, ?_, ?_⟩
          · show got (w b.dev p).1 <+: e ++ p
            rw [hacc, hge]
            exact (List.prefix_append_right_inj _).mpr (List.take_prefix _ _)
          · intro hf; simp at hf
          · intro _
            obtain ⟨x, hx, hq⟩ := L.dead _ _ hP hr
            exact ⟨x, by rw [← hge]; exact hx, hq⟩
        | false =>
          obtain ⟨hn, hP'⟩ := L.okc _ _ hP hr
          have hinv : HInv got Q P { b with err := (w b.dev p).2.2, dev := (w b.dev p).1 }
              (e ++ p.take (w b.dev p).2.1) := by
            refine ⟨?_, ?_, ?_⟩
            · show got (w b.dev p).1 <+: _
              rw [hacc, hge]; exact List.prefix_refl _
            · intro _
              refine ⟨?_, hP'⟩
              show got (w b.dev p).1 ++ b.buf = _
              rw [hacc, hge, hbuf, List.append_nil]
            · intro hf
              have hf' : (w b.dev p).2.2 = true := hf
              rw [hr] at hf'; exact absurd hf' (by simp)
          have := ih _ (p.drop (w b.dev p).2.1) _ hinv
          rwa [List.append_assoc, List.take_append_drop] at this
      · rw [if_neg hl]
        have hinv : HInv got Q P
            { b with buf := b.buf ++ p.take (min p.length (b.size - b.buf.length)) }
            (e ++ p.take (min p.length (b.size - b.buf.length))) := by
          refine ⟨List.IsPrefix.trans h.pre (List.prefix_append _ _), ?_, ?_⟩
          · intro _
            refine ⟨?_, hP⟩
            show got b.dev ++ (b.buf ++ _) = e ++ _
            rw [← List.append_assoc, hok]
          · intro hf; exact absurd hf (by simp [he])
        have := ih _ (p.drop (min p.length (b.size - b.buf.length))) _ (hflush_inv L hinv).1
        rwa [List.append_assoc, List.take_append_drop] at this
    · rw [if_neg hcond]
      exact hfin_inv h p

theorem hwrite_inv (L : HLaw w got Q P) {b : GW σ} {e : Bytes} (h : HInv got Q P b e) (p : Bytes) :
    HInv got Q P (b.write w p) (e ++ p) := hwriteLoop_inv L _ b p e h

theorem hfoldl_raw_inv (L : HLaw w got Q P) (l : List Bytes) (b : GW σ) (e : Bytes)
    (h : HInv got Q P b e) : HInv got Q P (l.foldl (emitRawG w) b) (e ++ l.flatten) := by
  induction l generalizing b e with
  | nil => simpa using h
  | cons t ts ih =>
    simp only [List.foldl_cons, List.flatten_cons, ← List.append_assoc]
    exact ih _ _ (hwrite_inv L h t)

/-- the JSON writer over any such device simulates the plain JSON writer of C04 -/
theorem hemitJson_sim (L : HLaw w got Q P) (s : JG σ) (m : Writer.JS) (t : Bytes)
    (hs : s.started = m.some) (h : HInv got Q P s.bw m.out) :
    (emitJsonG w s t).started = (Writer.emitJson m t).some ∧
    HInv got Q P (emitJsonG w s t).bw (Writer.emitJson m t).out := by
  unfold emitJsonG Writer.emitJson
  rw [← hs]
  by_cases ht : t.isEmpty = true
  · simp only [ht, if_true]; exact ⟨hs, h⟩
  · simp only [ht]
    cases hst : s.started with
    | true =>
      simp only [if_true]
      exact ⟨by simp, hwrite_inv L (hwrite_inv L h sepJson) t⟩
    | false =>
      simp only [Bool.false_eq_true, if_false]
      exact ⟨by simp, hwrite_inv L h t⟩

theorem hfoldl_emitJson_sim (L : HLaw w got Q P) (l : List Bytes) (s : JG σ) (m : Writer.JS)
    (hs : s.started = m.some) (h : HInv got Q P s.bw m.out) :
    (l.foldl (emitJsonG w) s).started = (l.foldl Writer.emitJson m).some ∧
    HInv got Q P (l.foldl (emitJsonG w) s).bw (l.foldl Writer.emitJson m).out := by
  induction l generalizing s m with
  | nil => exact ⟨hs, h⟩
  | cons t ts ih =>
    simp only [List.foldl_cons]
    obtain ⟨h1, h2⟩ := hemitJson_sim L s m t hs h
    exact ih _ _ h1 h2

end hinv

end ObiVerif.WriteErr
