import ObiVerif.Model.TagSel
import ObiVerif.Lemmas.TagLookup
/-!
# The selection loop of `Identify` / `BestConsensus` (C15): verbatim loop = closed form, when it spins,
and the text of the entries
-/
namespace ObiVerif.Tag
open ObiVerif.Tax

/-! ## the text of an entry -/

theorem digit_ne_at (c : Char) (h : c.isDigit = true) : (c != '@') = true := by
  cases hc : (c != '@') with
  | true => rfl
  | false =>
    have : c = '@' := by simpa using hc
    subst this
    revert h; decide

theorem digit_ne_plus (c : Char) (h : c.isDigit = true) : c ≠ '+' := by
  intro e; subst e; revert h; decide

/-- `strings.Split(fmt.Sprintf("%d@%s@%s", taxid, name, rank), "@")[0]` is the decimal text of the taxid, whatever
the scientific name and the rank (even if they contain `@`) -/
theorem part0_fmtEntry (a : Nat) (nm rk : Text) : part0 (fmtEntry a nm rk) = Nat.toDigits 10 a := by
  unfold part0 fmtEntry
  rw [List.takeWhile_append_of_pos]
  · simp
  · intro c hc
    exact digit_ne_at c (Nat.isDigit_of_mem_toDigits (by decide) (by decide) hc)

/-- `strconv.Atoi` gives the taxid back -/
theorem parseTaxid_toDigits (a : Nat) : parseTaxid (Nat.toDigits 10 a) = .taxid a := by
  have hne : Nat.toDigits 10 a ≠ [] := Nat.toDigits_ne_nil
  have hdig : ∀ c ∈ Nat.toDigits 10 a, c.isDigit = true :=
    fun c hc => Nat.isDigit_of_mem_toDigits (by decide) (by decide) hc
  have hval : Nat.ofDigitChars 10 (Nat.toDigits 10 a) 0 = a := Nat.ofDigitChars_toDigits (by decide) (by decide)
  generalize Nat.toDigits 10 a = p at hne hdig hval
  cases p with
  | nil => exact absurd rfl hne
  | cons c cs =>
    have hc : c ≠ '+' := digit_ne_plus c (hdig c List.mem_cons_self)
    unfold parseTaxid
    rw [if_neg (by simp)]
    have hh : ((c :: cs).head? = some '+') = False := by simp [hc]
    simp only [hh, if_false]
    rw [if_pos ⟨by simp, by simpa [List.all_eq_true] using hdig⟩, hval]

theorem parse_fmtEntry (a : Nat) (nm rk : Text) : parseTaxid (part0 (fmtEntry a nm rk)) = .taxid a := by
  rw [part0_fmtEntry, parseTaxid_toDigits]

theorem part0_fmtEntry_ne (a : Nat) (nm rk : Text) : part0 (fmtEntry a nm rk) ≠ [] := by
  rw [part0_fmtEntry]; exact Nat.toDigits_ne_nil

/-! ## lookups in a text index -/

/-- `idx[k]` for `k ≥ 0` -/
def getT (idx : List (Nat × Text)) (k : Nat) : Option Text := (idx.find? (fun e => e.1 = k)).map (·.2)

theorem txtGet_nat (idx : List (Nat × Text)) (k : Nat) :
    txtGet idx (k : Int) = match getT idx k with
      | some x => (x, true)
      | none => ([], false) := by
  unfold txtGet getT
  rw [if_neg (by omega)]
  simp only [Int.toNat_natCast]
  cases idx.find? (fun e => e.1 = k) <;> rfl

theorem txtGet_neg (idx : List (Nat × Text)) (d : Int) (h : d < 0) : txtGet idx d = ([], false) := by
  unfold txtGet; rw [if_pos h]

/-- the entry of the largest key `≤ n` -/
def lookDownT (idx : List (Nat × Text)) : Nat → Option (Nat × Text)
  | 0 => (getT idx 0).map fun x => (0, x)
  | d + 1 => match getT idx (d + 1) with
    | some x => some (d + 1, x)
    | none => lookDownT idx d

/-- the entry of the smallest key in `d … d + f - 1` -/
def lookUpT (idx : List (Nat × Text)) : Nat → Nat → Option (Nat × Text)
  | 0, _ => none
  | f + 1, d => match getT idx d with
    | some x => some (d, x)
    | none => lookUpT idx f (d + 1)

theorem selDown_ok (idx : List (Nat × Text)) : ∀ (f : Nat) (s : SelState), s.ok = true → selDown idx f s = s := by
  intro f s h
  cases f with
  | zero => rfl
  | succ f => unfold selDown; rw [if_neg (by simp [h])]

theorem selUp_ok (idx : List (Nat × Text)) : ∀ (f : Nat) (s : SelState), s.ok = true → selUp idx f s = s := by
  intro f s h
  cases f with
  | zero => rfl
  | succ f => unfold selUp; rw [if_neg (by simp [h])]

/-- the downward scan, in closed form -/
theorem selDown_eq (idx : List (Nat × Text)) : ∀ (n : Nat) (i0 : Text),
    selDown idx (n + 1) { d := (n : Int), ok := false, ident := i0 } =
      match lookDownT idx n with
      | some (k, x) => { d := (k : Int) - 1, ok := true, ident := x }
      | none => { d := -1, ok := false, ident := [] } := by
  intro n
  induction n with
  | zero =>
    intro i0
    unfold selDown
    rw [if_pos (by simp)]
    simp only [selDown]
    have := txtGet_nat idx 0
    simp only [Int.natCast_zero] at this ⊢
    rw [this]
    unfold lookDownT
    cases getT idx 0 <;> simp
  | succ n ih =>
    intro i0
    unfold selDown
    rw [if_pos (by constructor <;> simp <;> omega)]
    simp only
    rw [txtGet_nat idx (n + 1)]
    unfold lookDownT
    cases hg : getT idx (n + 1) with
    | some x =>
      simp only
      rw [selDown_ok idx _ _ rfl]
    | none =>
      simp only
      have : ((n + 1 : Nat) : Int) - 1 = (n : Int) := by omega
      rw [this]
      exact ih []

/-- the upward scan from a key `k ≤ 1001`, in closed form -/
theorem selUp_eq (idx : List (Nat × Text)) : ∀ (f k : Nat), k + f = 1001 →
    selUp idx f { d := (k : Int), ok := false, ident := [] } =
      match lookUpT idx f k with
      | some (j, x) => { d := (j : Int) + 1, ok := true, ident := x }
      | none => { d := 1001, ok := false, ident := [] } := by
  intro f
  induction f with
  | zero =>
    intro k hk
    simp only [selUp, lookUpT]
    congr 1
    omega
  | succ f ih =>
    intro k hk
    unfold selUp
    rw [if_pos (by constructor <;> simp <;> omega)]
    simp only
    rw [txtGet_nat idx k]
    unfold lookUpT
    cases hg : getT idx k with
    | some x =>
      simp only
      rw [selUp_ok idx _ _ rfl]
    | none =>
      simp only
      have := ih (k + 1) (by omega)
      simpa using this

/-- the upward scan as the loop starts it: from `d = -1` -/
theorem selUp_from_neg (idx : List (Nat × Text)) :
    selUp idx 1002 { d := -1, ok := false, ident := [] } =
      match lookUpT idx 1001 0 with
      | some (j, x) => { d := (j : Int) + 1, ok := true, ident := x }
      | none => { d := 1001, ok := false, ident := [] } := by
  have h : selUp idx 1002 { d := -1, ok := false, ident := [] } =
      selUp idx 1001 { d := ((0 : Nat) : Int), ok := false, ident := [] } := by
    rw [show (1002 : Nat) = 1001 + 1 from rfl]
    unfold selUp
    rw [if_pos (by constructor <;> simp)]
    simp only [txtGet_neg idx (-1) (by omega)]
    rfl
  rw [h]
  exact selUp_eq idx 1001 0 (by omega)

/-! ## the outer loop -/

theorem selLoop_succ (idx : List (Nat × Text)) (f : Nat) (s : SelState) :
    selLoop idx (f + 1) s =
      if s.d < 0 then .exit else
      if part0 (selDown idx (s.d.toNat + 1) s).ident ≠ [] then .found (selDown idx (s.d.toNat + 1) s).ident else
      if selUp idx (1001 - (selDown idx (s.d.toNat + 1) s).d).toNat (selDown idx (s.d.toNat + 1) s) = s then .spin
      else selLoop idx f (selUp idx (1001 - (selDown idx (s.d.toNat + 1) s).d).toNat (selDown idx (s.d.toNat + 1) s)) := rfl

/-- a state whose entry was found (`ok`) but has an empty taxid part: nothing changes any more -/
theorem selLoop_ok_blank (idx : List (Nat × Text)) (f : Nat) (s : SelState) (hok : s.ok = true)
    (hb : part0 s.ident = []) : selLoop idx (f + 1) s = if s.d < 0 then .exit else .spin := by
  rw [selLoop_succ]
  by_cases hd : s.d < 0
  · simp [hd]
  · simp only [hd, if_false]
    rw [selDown_ok idx _ _ hok]
    simp only [hb, ne_eq, not_true_eq_false, if_false]
    rw [selUp_ok idx _ _ hok]
    simp

theorem selLoop_ok_found (idx : List (Nat × Text)) (f : Nat) (s : SelState) (hok : s.ok = true)
    (hb : part0 s.ident ≠ []) (hd : 0 ≤ s.d) : selLoop idx (f + 1) s = .found s.ident := by
  rw [selLoop_succ]
  rw [if_neg (by omega)]
  rw [selDown_ok idx _ _ hok, if_pos hb]

/-- **closed form of the selection loop** (any index, any text in the entries) -/
def selSpec (idx : List (Nat × Text)) (D : Nat) : SelOut :=
  match getT idx D with
  | some x => if part0 x ≠ [] then .found x else .spin
  | none =>
    match lookDownT idx D with
    | some (k, x) => if part0 x ≠ [] then .found x else if k = 0 then .exit else .spin
    | none =>
      match lookUpT idx 1001 0 with
      | some (_, x) => if part0 x ≠ [] then .found x else .spin
      | none =>
        match lookDownT idx 1001 with
        | some (k, x) => if part0 x ≠ [] then .found x else if k = 0 then .exit else .spin
        | none => .spin

theorem part0_nil : part0 [] = [] := rfl

/-- what an iteration does from a state `(n, false, [])` whose downward scan finds `(k, x)` -/
theorem selLoop_down_some (idx : List (Nat × Text)) (f n k : Nat) (x : Text)
    (h : lookDownT idx n = some (k, x)) :
    selLoop idx (f + 2) { d := (n : Int), ok := false, ident := [] } =
      if part0 x ≠ [] then .found x else if k = 0 then .exit else .spin := by
  rw [show f + 2 = (f + 1) + 1 from rfl, selLoop_succ]
  rw [if_neg (by simp)]
  simp only [Int.toNat_natCast]
  rw [selDown_eq idx n [], h]
  simp only
  by_cases hb : part0 x ≠ []
  · rw [if_pos hb, if_pos hb]
  · rw [if_neg hb, if_neg hb]
    have hb' : part0 x = [] := by simpa using hb
    rw [selUp_ok idx _ _ rfl]
    rw [if_neg (by simp)]
    rw [selLoop_ok_blank idx f _ rfl hb']
    simp only
    by_cases hk : k = 0
    · subst hk; simp
    · rw [if_neg hk, if_neg (by omega)]

theorem selLoop_eq_spec (idx : List (Nat × Text)) (D f : Nat) :
    selLoop idx (f + 3) (selInit idx D) = selSpec idx D := by
  unfold selInit selSpec
  rw [txtGet_nat idx D]
  cases hg : getT idx D with
  | some x =>
    simp only
    by_cases hb : part0 x ≠ []
    · rw [if_pos hb]; exact selLoop_ok_found idx _ _ rfl hb (by simp)
    · rw [if_neg hb]
      have hb' : part0 x = [] := by simpa using hb
      rw [selLoop_ok_blank idx _ _ rfl hb']
      simp
  | none =>
    simp only
    cases hd : lookDownT idx D with
    | some kx =>
      obtain ⟨k, x⟩ := kx
      exact selLoop_down_some idx (f + 1) D k x hd
    | none =>
      simp only
      -- first iteration: nothing at or below D, upward scan
      have step1 : selLoop idx (f + 3) { d := (D : Int), ok := false, ident := [] } =
          (let s2 : SelState := match lookUpT idx 1001 0 with
              | some (j, x) => { d := (j : Int) + 1, ok := true, ident := x }
              | none => { d := 1001, ok := false, ident := [] }
           if s2 = { d := (D : Int), ok := false, ident := [] } then SelOut.spin else selLoop idx (f + 2) s2) := by
        rw [show f + 3 = (f + 2) + 1 from rfl, selLoop_succ]
        rw [if_neg (by simp)]
        simp only [Int.toNat_natCast]
        rw [selDown_eq idx D [], hd]
        simp only [part0_nil, ne_eq, not_true_eq_false, if_false]
        have : (1001 - (-1 : Int)).toNat = 1002 := by decide
        rw [this, selUp_from_neg]
      rw [step1]
      cases hu : lookUpT idx 1001 0 with
      | some jx =>
        obtain ⟨j, x⟩ := jx
        simp only
        rw [if_neg (by simp)]
        by_cases hb : part0 x ≠ []
        · rw [if_pos hb]; exact selLoop_ok_found idx _ _ rfl hb (by simp; omega)
        · rw [if_neg hb]
          have hb' : part0 x = [] := by simpa using hb
          rw [selLoop_ok_blank idx _ _ rfl hb']
          simp only
          rw [if_neg (by omega)]
      | none =>
        simp only
        by_cases hD : D = 1001
        · subst hD
          rw [if_pos (by simp), hd]
        · rw [if_neg (by simp; omega)]
          cases hd2 : lookDownT idx 1001 with
          | some kx =>
            obtain ⟨k, x⟩ := kx
            have := selLoop_down_some idx f 1001 k x hd2
            simpa using this
          | none =>
            simp only
            rw [show f + 2 = (f + 1) + 1 from rfl, selLoop_succ]
            rw [if_neg (by simp)]
            have e1 : (1001 : Int).toNat + 1 = 1001 + 1 := by decide
            rw [e1]
            have := selDown_eq idx 1001 []
            have e0 : ((1001 : Nat) : Int) = (1001 : Int) := rfl
            rw [e0] at this
            rw [this, hd2]
            simp only [part0_nil, ne_eq, not_true_eq_false, if_false]
            have e2 : (1001 - (-1 : Int)).toNat = 1002 := by decide
            rw [e2, selUp_from_neg, hu]
            simp

/-- the outcome of the loop is decided within 4 iterations of the outer loop -/
theorem selSpec_ne_fuel (idx : List (Nat × Text)) (D : Nat) : selSpec idx D ≠ .fuel := by
  unfold selSpec
  repeat' split
  all_goals simp

end ObiVerif.Tag
