import ObiVerif.Model.WriterFmt
import ObiVerif.Model.CsvRead
/-!
# Reading back what `csv.Writer` wrote (C04 lemmas)

For arbitrary field bytes — quotes, commas, CR, LF, leading blanks — the reader model `CsvRead.parse`
(= `encoding/csv` `Reader`) returns the rows the writer model `WriterFmt.csvRow` (= `csv.Writer.Write`) was
given, field by field, up to the reader's normalisation `\r\n` → `\n`.
-/
namespace ObiVerif.CsvRT
open ObiVerif.WriterFmt ObiVerif.CsvRead

abbrev Bs := List UInt8

/-- what `encoding/csv`'s Reader does to the content of a field: the pair `\r\n` is read as `\n` -/
def collapse : Bs → Bs
  | [] => []
  | [c] => [c]
  | c :: d :: t => if c = 13 ∧ d = 10 then 10 :: collapse t else c :: collapse (d :: t)

/-- the field holds a CR immediately followed by a LF -/
def hasCRLF : Bs → Bool
  | [] => false
  | [_] => false
  | c :: d :: t => (c == 13 && d == 10) || hasCRLF (d :: t)

/-- a row a CSV reader can see: at least one field, and not the single empty field (an empty line) -/
def RowOK (r : List Bs) : Prop := r ≠ [] ∧ r ≠ [[]]

theorem collapse_id (f : Bs) (h : hasCRLF f = false) : collapse f = f := by
  induction f using collapse.induct with
  | case1 => rfl
  | case2 c => rfl
  | case3 c d t hc ih =>
    obtain ⟨rfl, rfl⟩ := hc
    simp [hasCRLF] at h
  | case4 c d t hc ih =>
    simp only [hasCRLF, Bool.or_eq_false_iff] at h
    simp only [collapse, hc, if_false]
    rw [ih h.2]

theorem noCR_noCRLF (f : Bs) (h : ∀ x ∈ f, x ≠ 13) : hasCRLF f = false := by
  induction f using hasCRLF.induct with
  | case1 => rfl
  | case2 c => rfl
  | case3 c d t ih =>
    have hc : c ≠ 13 := h c (by simp)
    simp only [hasCRLF, Bool.or_eq_false_iff]
    refine ⟨by simp [hc], ih (fun x hx => h x (List.mem_cons_of_mem _ hx))⟩

/-! ## one field -/

theorem quoteBody_cons (y : UInt8) (t : Bs) :
    quoteBody (y :: t) = if y = 34 then 34 :: 34 :: quoteBody t else y :: quoteBody t := by
  simp [quoteBody]

/-- the body of a quoted field followed by the closing quote and a separator is read back -/
theorem quoted_body (f : Bs) : ∀ (acc : Bs) (c : UInt8) (rest : Bs), c ≠ 34 →
    quoted (quoteBody f ++ 34 :: c :: rest) acc = some (acc.reverse ++ collapse f, c :: rest) := by
  induction f using collapse.induct with
  | case1 =>
    intro acc c rest hc
    simp [quoteBody, quoted, hc, collapse]
  | case2 x =>
    intro acc c rest hc
    by_cases hx : x = 34
    · subst hx
      simp [quoteBody, quoted, hc, collapse]
    · simp [quoteBody, quoted, hc, hx, collapse]
  | case3 x y t hxy ih =>
    intro acc c rest hc
    obtain ⟨rfl, rfl⟩ := hxy
    have := ih (10 :: acc) c rest hc
    simp [quoteBody, quoted, collapse, this]
  | case4 x y t hxy ih =>
    intro acc c rest hc
    by_cases hx : x = 34
    · subst hx
      have := ih (34 :: acc) c rest hc
      have e : quoteBody (34 :: y :: t) = 34 :: 34 :: quoteBody (y :: t) := by simp [quoteBody]
      rw [e]
      simp only [List.cons_append, quoted, if_true]
      rw [this]
      simp [collapse]
    · have := ih (x :: acc) c rest hc
      have e : quoteBody (x :: y :: t) = x :: quoteBody (y :: t) := by
        rw [quoteBody_cons, if_neg hx]
      rw [e]
      simp only [collapse, hxy, if_false]
      by_cases hy : y = 34
      · subst hy
        have e2 : quoteBody (34 :: t) = 34 :: 34 :: quoteBody t := by simp [quoteBody]
        rw [e2] at this ⊢
        simp only [List.cons_append] at this ⊢
        rw [quoted]
        simp only [hx, if_false]
        have h1 : ¬(x = 13 ∧ (34 : UInt8) = 10) := by intro h; exact absurd h.2 (by decide)
        simp only [h1, if_false]
        rw [this]; simp
      · have e2 : quoteBody (y :: t) = y :: quoteBody t := by rw [quoteBody_cons, if_neg hy]
        rw [e2] at this ⊢
        simp only [List.cons_append] at this ⊢
        rw [quoted]
        simp only [hx, if_false, hxy]
        rw [this]; simp

theorem unq_field (f : Bs) (c : UInt8) (rest : Bs) (hf : ∀ x ∈ f, x ≠ 44 ∧ x ≠ 10 ∧ x ≠ 13)
    (hc : c = 44 ∨ c = 10) : unq (f ++ c :: rest) = (f, c :: rest) := by
  induction f with
  | nil => simp [unq, hc]
  | cons x t ih =>
    obtain ⟨h1, h2, h3⟩ := hf x (by simp)
    have := ih (fun y hy => hf y (List.mem_cons_of_mem _ hy))
    simp [unq, h1, h2, h3, this]

theorem noq_bytes (f : Bs) (h : fieldNeedsQuotes f = false) :
    ∀ x ∈ f, x ≠ 10 ∧ x ≠ 13 ∧ x ≠ 34 ∧ x ≠ 44 := by
  intro x hx
  unfold fieldNeedsQuotes at h
  split at h
  · simp_all
  · split at h
    · simp at h
    · split at h
      · simp at h
      · rename_i hany
        simp only [List.any_eq_true, not_exists, not_and, Bool.or_eq_true, beq_iff_eq] at hany
        have := hany x hx
        refine ⟨?_, ?_, ?_, ?_⟩ <;> intro e <;> apply this <;> simp [e]

/-- one written field followed by a separator is read back -/
theorem field_csvField (f : Bs) (c : UInt8) (rest : Bs) (hc : c = 44 ∨ c = 10) :
    field (csvField f ++ c :: rest) = some (collapse f, c :: rest) := by
  have hc34 : c ≠ 34 := by rcases hc with rfl | rfl <;> decide
  unfold csvField
  by_cases hq : fieldNeedsQuotes f = true
  · rw [if_pos hq]
    have := quoted_body f [] c rest hc34
    simp only [List.cons_append, List.append_assoc, field, if_true]
    simpa using this
  · have hq' : fieldNeedsQuotes f = false := by simpa using hq
    rw [if_neg hq]
    have hb := noq_bytes f hq'
    have hu := unq_field f c rest (fun x hx => ⟨(hb x hx).2.2.2, (hb x hx).1, (hb x hx).2.1⟩) hc
    have hcol : collapse f = f := collapse_id f (noCR_noCRLF f (fun x hx => (hb x hx).2.1))
    have hno : f.contains 34 = false := by
      simp only [List.contains_eq_mem, decide_eq_false_iff_not]
      intro hm; exact (hb 34 hm).2.2.1 rfl
    cases f with
    | nil =>
      simp only [List.nil_append] at hu ⊢
      simp [field, hc34, hu, collapse]
    | cons x t =>
      have hx : x ≠ 34 := (hb x (by simp)).2.2.1
      simp only [List.cons_append] at hu ⊢
      simp only [field, hx, if_false, hu, hno, hcol]
      simp

/-! ## one row -/

theorem record_row (fs : List Bs) : ∀ (f : Bs) (acc : List Bs) (fuel : Nat) (rest : Bs),
    2 * (fs.length + 1) ≤ fuel →
    record fuel (csvField f ++ csvTail fs ++ 10 :: rest) acc = some (acc ++ (f :: fs).map collapse, rest) := by
  induction fs with
  | nil =>
    intro f acc fuel rest hfuel
    obtain ⟨k, rfl⟩ : ∃ k, fuel = k + 2 := ⟨fuel - 2, by simp at hfuel; omega⟩
    simp only [csvTail, List.append_nil]
    rw [record, field_csvField f 10 rest (Or.inr rfl)]
    simp [after]
  | cons g gs ih =>
    intro f acc fuel rest hfuel
    obtain ⟨k, rfl⟩ : ∃ k, fuel = k + 2 := ⟨fuel - 2, by simp at hfuel; omega⟩
    have e : csvField f ++ csvTail (g :: gs) ++ 10 :: rest
        = csvField f ++ 44 :: (csvField g ++ csvTail gs ++ 10 :: rest) := by simp [csvTail]
    rw [e, record, field_csvField f 44 _ (Or.inl rfl)]
    simp only [after, if_true]
    rw [ih g (acc ++ [collapse f]) k rest (by simp at hfuel ⊢; omega)]
    simp

theorem csvTail_length (fs : List Bs) : fs.length ≤ (csvTail fs).length := by
  induction fs with
  | nil => simp
  | cons f fs ih => simp [csvTail]; omega

/-- the text of a visible row never starts with an end-of-line byte: no line is skipped -/
theorem csvRow_head (f : Bs) (fs : List Bs) (hok : RowOK (f :: fs)) (rest : Bs) :
    ∃ c t, csvRow (f :: fs) ++ rest = c :: t ∧ c ≠ 10 ∧ c ≠ 13 := by
  by_cases hq : fieldNeedsQuotes f = true
  · refine ⟨34, quoteBody f ++ 34 :: (csvTail fs ++ 10 :: rest), ?_, by decide, by decide⟩
    simp [csvRow, csvField, hq]
  · have hq' : fieldNeedsQuotes f = false := by simpa using hq
    have hb := noq_bytes f hq'
    cases f with
    | nil =>
      cases fs with
      | nil => exact absurd rfl hok.2
      | cons g gs =>
        have e0 : csvField ([] : Bs) = [] := by simp [csvField, fieldNeedsQuotes]
        refine ⟨44, csvField g ++ csvTail gs ++ 10 :: rest, ?_, by decide, by decide⟩
        simp only [csvRow, e0, csvTail]
        simp
    | cons x t =>
      have := hb x (by simp)
      refine ⟨x, t ++ (csvTail fs ++ 10 :: rest), ?_, this.1, this.2.1⟩
      simp [csvRow, csvField, hq]

theorem csvRow_length_pos (r : List Bs) : 1 ≤ (csvRow r).length := by
  cases r <;> simp [csvRow] <;> omega

/-! ## all rows -/

theorem rows_csvRows (rs : List (List Bs)) : ∀ (fuel : Nat), (∀ r ∈ rs, RowOK r) → rs.length + 1 ≤ fuel →
    rows fuel (rs.map csvRow).flatten = some (rs.map (fun r => r.map collapse)) := by
  induction rs with
  | nil =>
    intro fuel _ hfuel
    obtain ⟨k, rfl⟩ : ∃ k, fuel = k + 1 := ⟨fuel - 1, by simp at hfuel; omega⟩
    simp [rows]
  | cons r rs ih =>
    intro fuel hok hfuel
    obtain ⟨k, rfl⟩ : ∃ k, fuel = k + 1 := ⟨fuel - 1, by simp at hfuel; omega⟩
    have hr := hok r (by simp)
    cases r with
    | nil => exact absurd rfl hr.1
    | cons f fs =>
      obtain ⟨c, t, hct, h10, h13⟩ := csvRow_head f fs hr (rs.map csvRow).flatten
      have htxt : (((f :: fs) :: rs).map csvRow).flatten = csvRow (f :: fs) ++ (rs.map csvRow).flatten := by simp
      rw [htxt]
      have hrec : record (2 * (c :: t).length + 2) (c :: t) [] = some ((f :: fs).map collapse, (rs.map csvRow).flatten) := by
        rw [← hct]
        have e : csvRow (f :: fs) ++ (rs.map csvRow).flatten
            = csvField f ++ csvTail fs ++ 10 :: (rs.map csvRow).flatten := by simp [csvRow]
        rw [e]
        have := record_row fs f [] (2 * (csvField f ++ csvTail fs ++ 10 :: (rs.map csvRow).flatten).length + 2)
          (rs.map csvRow).flatten (by
            have := csvTail_length fs
            simp only [List.length_append, List.length_cons]
            omega)
        simpa using this
      rw [hct, rows]
      simp only [h10, if_false, h13, false_and]
      rw [hrec]
      simp only
      rw [ih k (fun r' hr' => hok r' (List.mem_cons_of_mem _ hr')) (by simp at hfuel ⊢; omega)]
      simp

theorem flatten_length_ge (rs : List (List Bs)) : rs.length ≤ (rs.map csvRow).flatten.length := by
  induction rs with
  | nil => simp
  | cons r rs ih =>
    have := csvRow_length_pos r
    simp only [List.map_cons, List.flatten_cons, List.length_append, List.length_cons]
    omega

/-- **CSV round trip**: for arbitrary field bytes, `encoding/csv`'s reader (model) applied to what `csv.Writer`
(model) wrote for rows of equal length returns the rows, every field unchanged up to `\r\n` → `\n`. -/
theorem parse_csvRows (rs : List (List Bs)) (hok : ∀ r ∈ rs, RowOK r)
    (hlen : ∀ r ∈ rs, ∀ r' ∈ rs, r.length = r'.length) :
    CsvRead.parse (rs.map csvRow).flatten = some (rs.map (fun r => r.map collapse)) := by
  unfold CsvRead.parse
  rw [rows_csvRows rs _ hok (by have := flatten_length_ge rs; omega)]
  cases rs with
  | nil => rfl
  | cons r rs =>
    simp only [List.map_cons]
    have : (rs.map (fun r => r.map collapse)).all (fun x => x.length == (r.map collapse).length) = true := by
      simp only [List.all_eq_true, List.mem_map, beq_iff_eq, List.length_map]
      rintro x ⟨y, hy, rfl⟩
      simp only [List.length_map]
      exact hlen y (List.mem_cons_of_mem _ hy) r (by simp)
    rw [if_pos this]

/-- fields without a CR-LF pair come back unchanged -/
theorem parse_csvRows_unchanged (rs : List (List Bs)) (hok : ∀ r ∈ rs, RowOK r)
    (hlen : ∀ r ∈ rs, ∀ r' ∈ rs, r.length = r'.length) (hcr : ∀ r ∈ rs, ∀ f ∈ r, hasCRLF f = false) :
    CsvRead.parse (rs.map csvRow).flatten = some rs := by
  rw [parse_csvRows rs hok hlen]
  congr 1
  have : ∀ r ∈ rs, r.map collapse = r := by
    intro r hr
    have : ∀ f ∈ r, collapse f = f := fun f hf => collapse_id f (hcr r hr f hf)
    exact (List.map_congr_left this).trans (List.map_id' r)
  exact (List.map_congr_left this).trans (List.map_id' rs)

end ObiVerif.CsvRT
