import ObiVerif.Lemmas.UniqLoopChain
/-!
# The executable sorters of `Model/UniqLoop.lean` are sorts (`ValidSorter`), and `mem_uniqL`
-/
namespace ObiVerif.Uniq

theorem insertByCode_perm (x : Nat × Rec) : ∀ l, (insertByCode x l).Perm (x :: l)
  | [] => by simp [insertByCode]
  | y :: t => by
    simp only [insertByCode]
    split
    · exact List.Perm.refl _
    · exact ((insertByCode_perm x t).cons y).trans (List.Perm.swap x y t)

theorem insertByCode_sorted (x : Nat × Rec) : ∀ l, l.Pairwise (fun p q => p.1 ≤ q.1) →
    (insertByCode x l).Pairwise (fun p q => p.1 ≤ q.1)
  | [], _ => by simp [insertByCode]
  | y :: t, h => by
    simp only [insertByCode]
    split
    · next hxy =>
      refine List.pairwise_cons.mpr ⟨?_, h⟩
      intro z hz
      rcases List.mem_cons.mp hz with e | hz
      · subst e; exact hxy
      · exact Nat.le_trans hxy ((List.pairwise_cons.mp h).1 z hz)
    · next hxy =>
      refine List.pairwise_cons.mpr ⟨?_, insertByCode_sorted x t (List.pairwise_cons.mp h).2⟩
      intro z hz
      have := (insertByCode_perm x t).mem_iff.mp hz
      rcases List.mem_cons.mp this with e | hz'
      · subst e; omega
      · exact (List.pairwise_cons.mp h).1 z hz'

theorem sortStable_valid : ValidSorter sortStable := by
  intro l
  induction l with
  | nil => simp [sortStable]
  | cons x t ih =>
    have e : sortStable (x :: t) = insertByCode x (sortStable t) := rfl
    rw [e]
    exact ⟨(insertByCode_perm x _).trans (ih.1.cons x), insertByCode_sorted x _ ih.2⟩

theorem sortAnti_valid : ValidSorter sortAnti := by
  intro l
  have := sortStable_valid l.reverse
  exact ⟨this.1.trans (List.reverse_perm l), this.2⟩

theorem sortMerge_valid : ValidSorter sortMerge := by
  intro l
  refine ⟨List.mergeSort_perm l _, ?_⟩
  have := List.pairwise_mergeSort (le := fun p q : Nat × Rec => decide (p.1 ≤ q.1))
    (by intro a b c h1 h2; simp only [decide_eq_true_eq] at *; omega)
    (by intro a b; simp only [Bool.or_eq_true, decide_eq_true_eq]; omega) l
  exact this.imp (by intro a b h; simpa using h)

theorem sortMergeAnti_valid : ValidSorter sortMergeAnti := by
  intro l
  have := sortMerge_valid l.reverse
  exact ⟨this.1.trans (List.reverse_perm l), this.2⟩

theorem mem_uniqL {srt : Sorter} {o : Opts} {ws : List (List (List Rec))} {out : Rec} :
    out ∈ uniqL srt o ws ↔
      ∃ t ∈ terminalsL srt o ws, dropped o t = false ∧ mergeClass o.na o.stats t = some out := by
  simp only [uniqL, List.mem_filterMap, List.mem_filter, Bool.not_eq_eq_eq_not, Bool.not_true]
  constructor
  · rintro ⟨t, ⟨h1, h2⟩, h3⟩; exact ⟨t, h1, h2, h3⟩
  · rintro ⟨t, h1, h2, h3⟩; exact ⟨t, ⟨h1, h2⟩, h3⟩

/-- the sub-batches pushed by the loop-level `ISequenceSubChunk` and the classes of the abstraction
`subChunk` (classes in order of first appearance, members in batch order) are the same up to the order of
the members (and of the classes) -/
theorem subChunkL_subChunk (kind : Kind) (f : Rec → Code) (srt : Sorter) (hs : ValidSorter srt) (st : ClsSt)
    (b : List Rec) (hb : b ≠ []) :
    (∀ t ∈ (subChunkL kind f srt st b).2, ∃ t' ∈ subChunk f b, t.Perm t') ∧
    (∀ t' ∈ subChunk f b, ∃ t ∈ (subChunkL kind f srt st b).2, t.Perm t') := by
  have hL := subChunkL_specP kind f srt hs st b hb
  have hA := subChunk_spec f b hb
  constructor
  · intro t ht
    obtain ⟨x, hx, hp⟩ := hL.cls t ht
    exact ⟨_, hA.cover x (hL.sub t ht x hx), hp⟩
  · intro t' ht'
    obtain ⟨x, hx, e⟩ := hA.cls t' ht'
    have hxb := hA.sub t' ht' x hx
    obtain ⟨t, ht, hxt⟩ := List.mem_flatten.mp (hL.perm.mem_iff.mpr hxb)
    obtain ⟨y, hy, hp⟩ := hL.cls t ht
    refine ⟨t, ht, ?_⟩
    have hyx : same [f] y x = true := (List.mem_filter.mp (hp.mem_iff.mp hxt)).2
    have : b.filter (same [f] y) = b.filter (same [f] x) := by
      apply List.filter_congr; intro r _; exact same_trans_left hyx r
    rw [e, ← this]; exact hp

end ObiVerif.Uniq
