import ObiVerif.Lemmas.KseqStream
import ObiVerif.Lemmas.FastqContent
/-!
# kseq and the Go chunk parsers return the same records on well-formed files (`kseq_agrees_with_go`)

`obiconvert < file` reads FASTA / FASTQ through the C reader (kseq.h over `gzread`, `_FastseqReader`),
`obiconvert file` through `FastaChunkParser` / `FastqChunkParser`.  On every file of the grammars
`WellFormedFasta` / `WellFormedFastq` (rendered by `faFileText` / `fqFileText`: any number of records,
any lay-out of the end-of-line runs, any folding) whose records satisfy the side conditions `KOK`
below, the C reader — for every buffer size ≥ 1, every initial content of the buffer, every timing of
`gzerror` — ends normally and delivers exactly the records the Go parser returns.

The side conditions are the documented divergences: VT / FF in the identifier (C `isspace`), NUL in
the title (C strings), a title line not ended by LF (kseq reads the comment up to LF), a `+` line not
ended by LF, quality bytes outside 33..127 (dropped by kseq).
-/
namespace ObiVerif.Parse
open ObiVerif.Chunk

/-- no NUL in the title (C strings), no VT / FF in the identifier (C `isspace` cuts there) -/
def KseqTitleOK (t : Seq) : Prop := (∀ c ∈ t, c ≠ 0) ∧ (∀ c ∈ titleId t, c ≠ 11 ∧ c ≠ 12)
/-- the end-of-line run after the title contains a LF (CR* LF …, not lone CRs) -/
def FaSrc.KOK (r : FaSrc) : Prop := KseqTitleOK r.title ∧ 10 ∈ r.eol
def FqSrc.KOK (r : FqSrc) : Prop :=
  KseqTitleOK r.title ∧ 10 ∈ r.e1 ∧ 10 ∈ r.e3 ∧ ∀ c ∈ r.qual, 33 ≤ c ∧ c ≤ 127

end ObiVerif.Parse

namespace ObiVerif.Kseq
open ObiVerif.Chunk (Seq AllEol isEol isSep)
open ObiVerif.Parse (FaSrc FqSrc titleId titleDef NoEol TitleOK SeqBytes SeqLineOK EolRun KseqTitleOK
  moreText moreSeq restText faFileText fqRestText fqFileText lower seqOK parseFasta parseFastq)

/-- the BioSequence `_FastseqReader` builds from a kseq record, as the harness observes it -/
def toRec (sh : UInt8) (r : Rec) : Parse.Rec :=
  let g := goRec r
  { id := g.1, defn := g.2.1, seq := g.2.2.1,
    qual := if r.qual.length > 0 then some (r.qual.map (· - sh)) else none }

/-! ## bytes -/

theorem eol_cases {c : UInt8} (h : isEol c = true) : c = 10 ∨ c = 13 := by
  simpa [isEol] using h

theorem eol_plain {c : UInt8} (h : isEol c = true) : (c == 62 || c == 43 || c == 64) = false := by
  rcases eol_cases h with rfl | rfl <;> decide

theorem eol_notHdr {c : UInt8} (h : isEol c = true) : (c == 62 || c == 64) = false := by
  rcases eol_cases h with rfl | rfl <;> decide

theorem eol_notGraph {c : UInt8} (h : isEol c = true) : isGraph c = false := by
  rcases eol_cases h with rfl | rfl <;> decide

theorem eol_notQ {c : UInt8} (h : isEol c = true) : inQ c = false := by
  rcases eol_cases h with rfl | rfl <;> decide

theorem seqByte_graph {c : UInt8} (h : seqOK (lower c) = true) :
    isGraph c = true ∧ (c == 62 || c == 43 || c == 64) = false := by
  have hlt := c.toNat_lt
  simp only [seqOK, lower, isGraph, Bool.or_eq_true, Bool.and_eq_true, decide_eq_true_eq,
    beq_iff_eq, Bool.or_eq_false_iff, beq_eq_false_iff_ne, ne_eq] at h ⊢
  by_cases hu : 65 ≤ c ∧ c ≤ 90
  · rw [if_pos hu] at h
    simp only [UInt8.le_iff_toNat_le, ← UInt8.toNat_inj, UInt8.toNat_add] at h hu ⊢
    simp at h hu ⊢
    omega
  · rw [if_neg hu] at h
    simp only [UInt8.le_iff_toNat_le, ← UInt8.toNat_inj] at h hu ⊢
    simp at h hu ⊢
    omega

/-- C `isspace` -/
theorem isSpace_iff (c : UInt8) :
    isSpace c = true ↔ c = 32 ∨ c = 9 ∨ c = 10 ∨ c = 11 ∨ c = 12 ∨ c = 13 := by
  have hlt := c.toNat_lt
  simp only [isSpace, Bool.or_eq_true, Bool.and_eq_true, decide_eq_true_eq, beq_iff_eq]
  simp only [UInt8.le_iff_toNat_le, ← UInt8.toNat_inj]
  simp
  omega

theorem isSep_iff (c : UInt8) : isSep c = true ↔ c = 32 ∨ c = 9 ∨ c = 10 ∨ c = 13 := by
  simp [isSep, Chunk.isSpace, isEol, or_assoc]

theorem toLower_eq : toLower = lower := rfl

/-! ## lists of bytes -/

theorem plain_allEol {e : Seq} (h : AllEol e) : Plain e := fun c hc => eol_plain (h c hc)
theorem plain_seqBytes {l : Seq} (h : SeqBytes l) : Plain l := fun c hc => (seqByte_graph (h c hc)).2

theorem filter_allEol {e : Seq} (h : AllEol e) : e.filter isGraph = [] := by
  rw [List.filter_eq_nil_iff]
  intro c hc
  simp [eol_notGraph (h c hc)]

theorem filter_seqBytes {l : Seq} (h : SeqBytes l) : l.filter isGraph = l := by
  rw [List.filter_eq_self]
  intro c hc
  exact (seqByte_graph (h c hc)).1

theorem more_plain : ∀ (more : List (Seq × Seq)), (∀ p ∈ more, EolRun p.1 ∧ SeqLineOK p.2) →
    Plain (moreText more) ∧ (moreText more).filter isGraph = moreSeq more := by
  intro more
  induction more with
  | nil => intro _; exact ⟨fun c hc => by simp [moreText] at hc, by simp [moreText, moreSeq]⟩
  | cons p t ih =>
    intro h
    obtain ⟨he, hl⟩ := h p (by simp)
    obtain ⟨h1, h2⟩ := ih (fun q hq => h q (by simp [hq]))
    have e1 : moreText (p :: t) = p.1 ++ (p.2 ++ moreText t) := by simp [moreText]
    have e2 : moreSeq (p :: t) = p.2 ++ moreSeq t := by simp [moreSeq]
    rw [e1, e2]
    refine ⟨(plain_allEol he.2).append ((plain_seqBytes hl.2).append h1), ?_⟩
    rw [List.filter_append, List.filter_append, filter_allEol he.2, filter_seqBytes hl.2, h2]
    simp

/-- the CRs of an end-of-line run before its first LF -/
def crsOf (eol : Seq) : Seq := eol.takeWhile (fun c => !(c == 10))

theorem eol_split : ∀ (eol : Seq), 10 ∈ eol → AllEol eol →
    ∃ e', eol = crsOf eol ++ 10 :: e' ∧ AllEol e' ∧ ∀ c ∈ crsOf eol, c = 13 := by
  intro eol
  induction eol with
  | nil => intro h _; cases h
  | cons a l ih =>
    intro h10 he
    have hl : AllEol l := fun c hc => he c (by simp [hc])
    by_cases ha : a = 10
    · subst ha
      exact ⟨l, by simp [crsOf], hl, by simp [crsOf]⟩
    · have ha13 : a = 13 := by
        rcases eol_cases (he a (by simp)) with h | h
        · exact absurd h ha
        · exact h
      have h10' : (10 : UInt8) ∈ l := by
        rcases List.mem_cons.mp h10 with h | h
        · exact absurd h.symm ha
        · exact h
      obtain ⟨e', h1, h2, h3⟩ := ih h10' hl
      have hc : crsOf (a :: l) = a :: crsOf l := by
        subst ha13
        simp [crsOf]
      refine ⟨e', ?_, h2, ?_⟩
      · rw [hc, List.cons_append, ← h1]
      · intro c hcm
        rw [hc] at hcm
        rcases List.mem_cons.mp hcm with h | h
        · rw [h]; exact ha13
        · exact h3 c h

/-! ## the title line: kseq's name and comment against the Go identifier and definition -/

theorem title_split : ∀ (t crs : Seq), NoEol t →
    (∀ c ∈ t.takeWhile (fun c => !isSep c), c ≠ 11 ∧ c ≠ 12) → (∀ c ∈ crs, c = 13) →
    (t ++ crs).takeWhile (fun c => !isSpace c) = t.takeWhile (fun c => !isSep c) ∧
    (t ++ crs).dropWhile (fun c => !isSpace c) = t.dropWhile (fun c => !isSep c) ++ crs := by
  intro t
  induction t with
  | nil =>
    intro crs _ _ hcr
    cases crs with
    | nil => simp
    | cons x xs =>
      have hx : x = 13 := hcr x (by simp)
      subst hx
      have : isSpace 13 = true := by decide
      simp [this]
  | cons c t ih =>
    intro crs hne hid hcr
    have ht : NoEol t := fun y hy => hne y (by simp [hy])
    by_cases hs : isSep c = true
    · have hk : isSpace c = true := by
        rw [isSpace_iff]
        rcases (isSep_iff c).mp hs with h | h | h | h <;> simp [h]
      simp [hs, hk]
    · have hs' : isSep c = false := by simpa using hs
      have hcid : c ∈ (c :: t).takeWhile (fun c => !isSep c) := by simp [hs']
      obtain ⟨h11, h12⟩ := hid c hcid
      have hk : isSpace c = false := by
        cases hk : isSpace c with
        | false => rfl
        | true =>
          exfalso
          rcases (isSpace_iff c).mp hk with h | h | h | h | h | h
          · exact hs ((isSep_iff c).mpr (Or.inl h))
          · exact hs ((isSep_iff c).mpr (Or.inr (Or.inl h)))
          · exact hs ((isSep_iff c).mpr (Or.inr (Or.inr (Or.inl h))))
          · exact h11 h
          · exact h12 h
          · exact hs ((isSep_iff c).mpr (Or.inr (Or.inr (Or.inr h))))
      have hid' : ∀ x ∈ t.takeWhile (fun c => !isSep c), x ≠ 11 ∧ x ≠ 12 := by
        intro x hx
        exact hid x (by simp [hs', hx])
      obtain ⟨h1, h2⟩ := ih crs ht hid' hcr
      simp [hs', hk, h1, h2]

theorem goString_id : ∀ (l : Bytes), (∀ c ∈ l, c ≠ 0) → goString l = l := by
  intro l
  induction l with
  | nil => intro _; rfl
  | cons a l ih =>
    intro h
    have ha : (a != 0) = true := by simpa using h a (by simp)
    have := ih (fun c hc => h c (by simp [hc]))
    unfold goString at this ⊢
    simp [ha, this]

theorem dropWhile_all {α} (p : α → Bool) : ∀ (a b : List α), (∀ c ∈ a, p c = true) →
    (a ++ b).dropWhile p = b.dropWhile p := by
  intro a
  induction a with
  | nil => intro b _; rfl
  | cons x a ih =>
    intro b h
    have hx : p x = true := h x (by simp)
    simp [hx, ih b (fun c hc => h c (by simp [hc]))]

theorem dropWhile_none {α} (p : α → Bool) (l : List α) (h : ∀ c ∈ l, p c = false) : l.dropWhile p = l := by
  cases l with
  | nil => rfl
  | cons x l => simp [h x (by simp)]

theorem trimRightCR_app (d crs : Bytes) (hd : ∀ c ∈ d, c ≠ 13) (hcr : ∀ c ∈ crs, c = 13) :
    trimRightCR (d ++ crs) = d := by
  unfold trimRightCR
  rw [List.reverse_append, dropWhile_all _ _ _ (fun c hc => by simp [hcr c (List.mem_reverse.mp hc)]),
    dropWhile_none _ _ (fun c hc => by simpa using hd c (List.mem_reverse.mp hc)), List.reverse_reverse]

theorem trimLeftBlank_eq (d : Bytes) : trimLeftBlank d = d.dropWhile Chunk.isSpace := rfl

/-- identifier and definition `_FastseqReader` derives from the name and the comment kseq cuts out of
`title CR* LF` are the ones the Go parser derives from `title` -/
theorem go_title (title crs : Seq) (hT : TitleOK title) (hK : KseqTitleOK title) (hcr : ∀ c ∈ crs, c = 13) :
    goString ((title ++ crs).takeWhile (fun c => !isSpace c)) = titleId title ∧
    (if (((title ++ crs).dropWhile (fun c => !isSpace c)).tail).length > 0 then
        trimLeftBlank (trimRightCR (goString (((title ++ crs).dropWhile (fun c => !isSpace c)).tail)))
      else []) = titleDef title := by
  have hne : NoEol title := by
    obtain ⟨c, t, rfl, hc, ht⟩ := hT
    intro x hx
    rcases List.mem_cons.mp hx with h | h
    · subst h
      cases hx' : isEol x with
      | false => rfl
      | true => simp [isSep, hx'] at hc
    · exact ht x h
  obtain ⟨h0, hid⟩ := hK
  obtain ⟨h1, h2⟩ := title_split title crs hne hid hcr
  have hcr0 : ∀ c ∈ crs, c ≠ 0 := fun c hc => by rw [hcr c hc]; decide
  refine ⟨?_, ?_⟩
  · rw [h1]
    exact goString_id _ (fun c hc => h0 c ((List.takeWhile_sublist _).subset hc))
  · rw [h2]
    unfold titleDef
    cases hD : title.dropWhile (fun c => !isSep c) with
    | nil =>
      have htl : ∀ c ∈ crs.tail, c = 13 := fun c hc => hcr c (List.mem_of_mem_tail hc)
      have hg : goString crs.tail = crs.tail := goString_id _ (fun c hc => by rw [htl c hc]; decide)
      have ht : trimRightCR crs.tail = [] := by
        have := trimRightCR_app [] crs.tail (by simp) htl
        simpa using this
      simp only [List.nil_append, hg, ht, List.dropWhile_nil]
      split <;> rfl
    | cons s d' =>
      have hsub : ∀ c ∈ s :: d', c ∈ title := fun c hc => mem_of_dropWhile _ (by rw [hD]; exact hc)
      have hs : isSep s = true := by
        have := List.head_dropWhile_not (fun c => !isSep c) (l := title) (by rw [hD]; simp)
        simp only [hD, List.head_cons] at this
        simpa using this
      have hsp : Chunk.isSpace s = true := by
        have := hne s (hsub s (by simp))
        simpa [isSep, this] using hs
      have hd0 : ∀ c ∈ d', c ≠ 0 := fun c hc => h0 c (hsub c (by simp [hc]))
      have hd13 : ∀ c ∈ d', c ≠ 13 := by
        intro c hc h13
        have := hne c (hsub c (by simp [hc]))
        rw [h13] at this
        revert this; decide
      have hg : goString (d' ++ crs) = d' ++ crs := goString_id _ (by
        intro c hc
        rcases List.mem_append.mp hc with h | h
        · exact hd0 c h
        · exact hcr0 c h)
      simp only [List.cons_append, List.tail_cons, hg, trimRightCR_app d' crs hd13 hcr, trimLeftBlank_eq,
        List.dropWhile_cons, hsp, if_true]
      split
      · rfl
      · rename_i hlen
        have : d' = [] := by
          cases d' with
          | nil => rfl
          | cons x xs => simp at hlen
        subst this
        rfl

/-! ## the kseq records of the source records -/

def kName (title eol : Seq) : Bytes := (title ++ crsOf eol).takeWhile (fun c => !isSpace c)
def kComment (title eol : Seq) : Bytes := ((title ++ crsOf eol).dropWhile (fun c => !isSpace c)).tail

/-- what `kseq_read` returns for a FASTA record: the comment keeps the CRs before the LF -/
def kRecFa (r : FaSrc) : Rec := ⟨kName r.title r.eol, kComment r.title r.eol, r.nuc, []⟩
def kRecFq (r : FqSrc) : Rec := ⟨kName r.title r.e1, kComment r.title r.e1, r.sq, r.qual⟩

theorem toRec_fa (sh : UInt8) (r : FaSrc) (h : r.OK) (k : r.KOK) : toRec sh (kRecFa r) = r.record := by
  obtain ⟨_, _, _, hcr⟩ := eol_split r.eol k.2 h.2.1.2
  obtain ⟨h1, h2⟩ := go_title r.title (crsOf r.eol) h.1 k.1 hcr
  have e1 : (goRec (kRecFa r)).1 = titleId r.title := h1
  have e2 : (goRec (kRecFa r)).2.1 = titleDef r.title := h2
  have e3 : (goRec (kRecFa r)).2.2.1 = r.nuc.map lower := rfl
  simp only [toRec, e1, e2, e3]
  simp [kRecFa, FaSrc.record]

theorem toRec_fq (sh : UInt8) (r : FqSrc) (h : r.OK) (k : r.KOK) : toRec sh (kRecFq r) = r.record sh true := by
  obtain ⟨_, _, _, hcr⟩ := eol_split r.e1 k.2.1 h.2.1.2
  obtain ⟨h1, h2⟩ := go_title r.title (crsOf r.e1) h.1 k.1 hcr
  have hq : r.qual.length > 0 := by
    rw [h.2.2.2.2.2.2.2]
    cases hs : r.sq with
    | nil => exact absurd hs h.2.2.1.1
    | cons a t => simp
  have e1 : (goRec (kRecFq r)).1 = titleId r.title := h1
  have e2 : (goRec (kRecFq r)).2.1 = titleDef r.title := h2
  have e3 : (goRec (kRecFq r)).2.2.1 = r.sq.map lower := rfl
  have hq' : (kRecFq r).qual.length > 0 := hq
  simp only [toRec, e1, e2, e3, hq', if_true]
  simp [kRecFq, FqSrc.record]

theorem noEol_title {title : Seq} (hT : TitleOK title) : ∀ c ∈ title, c ≠ 10 ∧ c ≠ 13 := by
  obtain ⟨c, t, rfl, hc, ht⟩ := hT
  intro x hx
  have hxe : isEol x = false := by
    rcases List.mem_cons.mp hx with h | h
    · subst h
      cases hx' : isEol x with
      | false => rfl
      | true => simp [isSep, hx'] at hc
    · exact ht x h
  constructor <;> (intro h; rw [h] at hxe; revert hxe; decide)

theorem headW_no10 {title eol : Seq} (hT : TitleOK title) (hcr : ∀ c ∈ crsOf eol, c = 13) :
    ∀ c ∈ title ++ crsOf eol, c ≠ 10 := by
  intro c hc
  rcases List.mem_append.mp hc with h | h
  · exact (noEol_title hT c h).1
  · rw [hcr c h]; decide

/-! ## one FASTA record -/

theorem nuc_pos {r : FaSrc} (h : r.OK) : 0 < r.nuc.length := by
  unfold FaSrc.nuc
  cases hf : r.first with
  | nil => exact absurd hf h.2.2.1.1
  | cons a t => simp

theorem fa_seq_part {r : FaSrc} (h : r.OK) {e' sep : Seq} (he : AllEol e') (hs : AllEol sep) :
    Plain (e' ++ (r.first ++ (moreText r.more ++ sep))) ∧
    (e' ++ (r.first ++ (moreText r.more ++ sep))).filter isGraph = r.nuc := by
  obtain ⟨_, _, hf, hm⟩ := h
  obtain ⟨m1, m2⟩ := more_plain r.more hm
  refine ⟨(plain_allEol he).append ((plain_seqBytes hf.2).append (m1.append (plain_allEol hs))), ?_⟩
  rw [List.filter_append, List.filter_append, List.filter_append, filter_allEol he, filter_seqBytes hf.2, m2,
    filter_allEol hs]
  simp [FaSrc.nuc]

theorem fa_body_shape {r : FaSrc} {e' : Seq} (he : r.eol = crsOf r.eol ++ 10 :: e') (Y : Seq) :
    r.body ++ Y = (r.title ++ crsOf r.eol) ++ 10 :: (e' ++ (r.first ++ (moreText r.more ++ Y))) := by
  unfold FaSrc.body
  generalize crsOf r.eol = crs at he
  rw [he]
  simp

/-- a FASTA record followed by another one -/
theorem fa_body_more (lc : UInt8) (r : FaSrc) (h : r.OK) (k : 10 ∈ r.eol) (ks : KS) (hg : Good ks) (sep Z : Seq)
    (hsep : AllEol sep) (hr : restOf ks = r.body ++ (sep ++ 62 :: Z)) :
    ∃ ks', kseqBody lc ks = ((r.nuc.length : Int), kRecFa r, ⟨62, ks'⟩) ∧ Good ks' ∧ restOf ks' = Z := by
  obtain ⟨e', he, hae, hcr⟩ := eol_split r.eol k h.2.1.2
  rw [fa_body_shape he] at hr
  obtain ⟨ks1, g1, r1, hb⟩ := kseqBody_head ks _ _ hg hr (headW_no10 h.1 hcr)
  obtain ⟨p1, p2⟩ := fa_seq_part h hae hsep
  have r1' : restOf ks1 = (e' ++ (r.first ++ (moreText r.more ++ sep))) ++ 62 :: Z := by
    rw [r1]; simp
  obtain ⟨ks', h3, g3, r3⟩ := kseqTail_gt lc (kName r.title r.eol) (kComment r.title r.eol) ks1 _ Z g1 r1' p1
  refine ⟨ks', ?_, g3, r3⟩
  rw [hb lc]
  rw [p2] at h3
  exact h3

/-- the last FASTA record -/
theorem fa_body_last (lc : UInt8) (r : FaSrc) (h : r.OK) (k : 10 ∈ r.eol) (ks : KS) (hg : Good ks) (tail : Seq)
    (ht : AllEol tail) (hr : restOf ks = r.body ++ tail) :
    ∃ ks', kseqBody lc ks = ((r.nuc.length : Int), kRecFa r, ⟨lc, ks'⟩) ∧ ks'.isEof = true ∧ ks'.cur = [] := by
  obtain ⟨e', he, hae, hcr⟩ := eol_split r.eol k h.2.1.2
  rw [fa_body_shape he] at hr
  obtain ⟨ks1, g1, r1, hb⟩ := kseqBody_head ks _ _ hg hr (headW_no10 h.1 hcr)
  obtain ⟨p1, p2⟩ := fa_seq_part h hae ht
  obtain ⟨ks', h3, _, _, h4, h5⟩ := kseqTail_eof lc (kName r.title r.eol) (kComment r.title r.eol) ks1 _ g1 r1 p1
  refine ⟨ks', ?_, h4, h5⟩
  rw [hb lc]
  rw [p2] at h3
  exact h3

/-! ## the whole FASTA file -/

theorem fa_loop (early : Bool) (tail : Seq) (ht : AllEol tail) : ∀ (rest : List (Seq × FaSrc)) (r : FaSrc)
    (st : St) (acc : List Rec), r.OK → 10 ∈ r.eol → (∀ p ∈ rest, EolRun p.1 ∧ p.2.OK ∧ 10 ∈ p.2.eol) →
    (∃ ks1, Good ks1 ∧ restOf ks1 = r.body ++ (restText rest ++ tail) ∧ kseqRead st = kseqBody 62 ks1) →
    readLoop .clean early st acc = (acc ++ kRecFa r :: rest.map (fun p => kRecFa p.2), .ok) := by
  intro rest
  induction rest with
  | nil =>
    intro r st acc h k _ ⟨ks1, g1, r1, hk⟩
    have r1' : restOf ks1 = r.body ++ tail := by simpa [restText] using r1
    obtain ⟨ks', hb, he, hc⟩ := fa_body_last 62 r h k ks1 g1 tail ht r1'
    rw [hb] at hk
    have hpos : 0 < (kseqRead st).1 := by
      rw [hk]; simp only; have := nuc_pos h; omega
    rw [readLoop_step early st acc hpos, hk]
    simp only
    have hend : (kseqRead ⟨62, ks'⟩).1 = -1 := by
      rw [kseqRead_nz 62 ks' (by decide)]
      exact kseqBody_end 62 ks' hc he
    rw [readLoop_stop early _ _ hend]
    simp
  | cons p rest ih =>
    intro r st acc h k hrest ⟨ks1, g1, r1, hk⟩
    obtain ⟨hsep, hok, hkok⟩ := hrest p (by simp)
    have r1' : restOf ks1 = r.body ++ (p.1 ++ 62 :: (p.2.body ++ (restText rest ++ tail))) := by
      rw [r1]; simp [restText, FaSrc.text]
    obtain ⟨ks', hb, g', r'⟩ := fa_body_more 62 r h k ks1 g1 p.1 _ hsep.2 r1'
    rw [hb] at hk
    have hpos : 0 < (kseqRead st).1 := by
      rw [hk]; simp only; have := nuc_pos h; omega
    rw [readLoop_step early st acc hpos, hk]
    simp only
    rw [ih p.2 ⟨62, ks'⟩ (acc ++ [kRecFa r]) hok hkok (fun q hq => hrest q (by simp [hq]))
      ⟨ks', g', r', kseqRead_nz 62 ks' (by decide)⟩]
    simp

/-- the records kseq reads from a rendered FASTA file whose title lines end with a LF (no condition on the
title bytes: name = up to the first C `isspace` byte, comment = the rest with its CRs) -/
theorem readAll_fasta (bufsz : Nat) (hb : 1 ≤ bufsz) (early : Bool) (junk : UInt8)
    (r0 : FaSrc) (rest : List (Seq × FaSrc)) (tail : Seq) (h0 : r0.OK) (hrest : ∀ p ∈ rest, EolRun p.1 ∧ p.2.OK)
    (ht : AllEol tail) (k0 : 10 ∈ r0.eol) (krest : ∀ p ∈ rest, 10 ∈ p.2.eol) :
    readAll bufsz .clean early junk (faFileText r0 rest tail) =
      (kRecFa r0 :: rest.map (fun p => kRecFa p.2), .ok) := by
  obtain ⟨g0, hr0⟩ := initSt_good bufsz hb junk (faFileText r0 rest tail)
  have hshape : faFileText r0 rest tail = [] ++ 62 :: (r0.body ++ (restText rest ++ tail)) := by
    simp [faFileText, FaSrc.text]
  rw [hshape] at hr0
  rw [hshape] at g0
  obtain ⟨ks1, g1, r1, hk⟩ := kseqRead_hdr _ [] 62 _ g0 hr0 (by simp) (by decide)
  rw [← hshape] at hk
  have := fa_loop early tail ht rest r0 (initSt bufsz .clean junk (faFileText r0 rest tail)) [] h0 k0
    (fun p hp => ⟨(hrest p hp).1, (hrest p hp).2, krest p hp⟩) ⟨ks1, g1, r1, hk⟩
  simpa [readAll] using this

/-- **kseq_agrees_with_go (FASTA)**: on every well-formed FASTA file (any number of records, any lay-out of
the end-of-line runs, any folding) whose title lines are free of NUL and of VT/FF in the identifier and
end with a LF, the C reader — whatever the buffer size, the initial content of the buffer and the timing of
`gzerror` — ends normally and `_FastseqReader` builds exactly the sequences `FastaChunkParser` returns -/
theorem kseq_agrees_with_go_fasta (sh : UInt8) (bufsz : Nat) (hb : 1 ≤ bufsz) (early : Bool) (junk : UInt8)
    (r0 : FaSrc) (rest : List (Seq × FaSrc)) (tail : Seq) (h0 : r0.OK) (hrest : ∀ p ∈ rest, EolRun p.1 ∧ p.2.OK)
    (ht : AllEol tail) (k0 : r0.KOK) (krest : ∀ p ∈ rest, p.2.KOK) :
    ∃ recs, readAll bufsz .clean early junk (faFileText r0 rest tail) = (recs, .ok) ∧
      recs.map (toRec sh) = r0.record :: rest.map (fun p => p.2.record) ∧
      parseFasta (faFileText r0 rest tail) = .ok (recs.map (toRec sh)) := by
  have hmap : (kRecFa r0 :: rest.map (fun p => kRecFa p.2)).map (toRec sh) =
      r0.record :: rest.map (fun p => p.2.record) := by
    simp only [List.map_cons, List.map_map, toRec_fa sh r0 h0 k0, List.cons.injEq, true_and]
    apply List.map_congr_left
    intro p hp
    exact toRec_fa sh p.2 (hrest p hp).2 (krest p hp)
  refine ⟨_, readAll_fasta bufsz hb early junk r0 rest tail h0 hrest ht k0.2 (fun p hp => (krest p hp).2), hmap, ?_⟩
  rw [hmap]
  exact Parse.parseFasta_content r0 rest tail h0 hrest ht

/-! ## one FASTQ record -/

theorem sq_pos {r : FqSrc} (h : r.OK) : 0 < r.sq.length := by
  cases hs : r.sq with
  | nil => exact absurd hs h.2.2.1.1
  | cons a t => simp

theorem fq_body_shape {r : FqSrc} {e1' e3' : Seq} (he1 : r.e1 = crsOf r.e1 ++ 10 :: e1')
    (he3 : r.e3 = crsOf r.e3 ++ 10 :: e3') (Y : Seq) :
    r.body ++ Y = (r.title ++ crsOf r.e1) ++ 10 :: ((e1' ++ (r.sq ++ r.e2)) ++
      43 :: ((r.plus ++ crsOf r.e3) ++ 10 :: (e3' ++ (r.qual ++ Y)))) := by
  unfold FqSrc.body
  generalize crsOf r.e1 = crs1 at he1
  generalize crsOf r.e3 = crs3 at he3
  rw [he1, he3]
  simp

/-- a FASTQ record: the state is left one byte after the quality line -/
theorem fq_body (lc : UInt8) (r : FqSrc) (h : r.OK)
    (k : 10 ∈ r.e1 ∧ 10 ∈ r.e3 ∧ ∀ c ∈ r.qual, 33 ≤ c ∧ c ≤ 127) (ks : KS) (hg : Good ks) (Y : Seq)
    (hr : restOf ks = r.body ++ Y) :
    ∃ ks', kseqBody lc ks = ((r.sq.length : Int), kRecFq r, ⟨0, ks'⟩) ∧ Good ks' ∧ restOf ks' = Y.drop 1 := by
  obtain ⟨hT, hE1, hSq, hE2, hPl, hE3, hQ, hlen⟩ := h
  obtain ⟨k1, k3, kq⟩ := k
  obtain ⟨e1', he1, hae1, hcr1⟩ := eol_split r.e1 k1 hE1.2
  obtain ⟨e3', he3, hae3, hcr3⟩ := eol_split r.e3 k3 hE3.2
  rw [fq_body_shape he1 he3] at hr
  obtain ⟨ks1, g1, r1, hb⟩ := kseqBody_head ks _ _ hg hr (headW_no10 hT hcr1)
  have p1 : Plain (e1' ++ (r.sq ++ r.e2)) :=
    (plain_allEol hae1).append ((plain_seqBytes hSq.2).append (plain_allEol hE2.2))
  have p2 : (e1' ++ (r.sq ++ r.e2)).filter isGraph = r.sq := by
    rw [List.filter_append, List.filter_append, filter_allEol hae1, filter_seqBytes hSq.2, filter_allEol hE2.2]
    simp
  have hpl : ∀ c ∈ r.plus ++ crsOf r.e3, c ≠ 10 := by
    intro c hc
    rcases List.mem_append.mp hc with h | h
    · intro h10
      have := hPl c h
      rw [h10] at this
      revert this; decide
    · rw [hcr3 c h]; decide
  have hq : ∀ c ∈ r.qual, inQ c = true := by
    intro c hc
    obtain ⟨a, b⟩ := kq c hc
    simp [inQ, a, b]
  have hpos : 0 < r.qual.length := by
    rw [hlen]
    cases hs : r.sq with
    | nil => exact absurd hs hSq.1
    | cons a t => simp
  obtain ⟨ks', h3, g3, r3⟩ := kseqTail_plus lc (kName r.title r.e1) (kComment r.title r.e1) ks1 _ _ e3' r.qual Y
    g1 r1 p1 hpl (fun c hc => eol_notQ (hae3 c hc)) hq (by rw [p2]; exact hlen) hpos
  refine ⟨ks', ?_, g3, r3⟩
  rw [hb lc]
  rw [p2] at h3
  exact h3

/-! ## the whole FASTQ file -/

theorem fq_loop (early : Bool) (tail : Seq) (ht : AllEol tail) : ∀ (rest : List (Seq × FqSrc)) (r : FqSrc)
    (st : St) (acc : List Rec), r.OK → (10 ∈ r.e1 ∧ 10 ∈ r.e3 ∧ ∀ c ∈ r.qual, 33 ≤ c ∧ c ≤ 127) →
    (∀ p ∈ rest, EolRun p.1 ∧ p.2.OK ∧ (10 ∈ p.2.e1 ∧ 10 ∈ p.2.e3 ∧ ∀ c ∈ p.2.qual, 33 ≤ c ∧ c ≤ 127)) →
    (∃ ks1, Good ks1 ∧ restOf ks1 = r.body ++ (fqRestText rest ++ tail) ∧ kseqRead st = kseqBody 64 ks1) →
    readLoop .clean early st acc = (acc ++ kRecFq r :: rest.map (fun p => kRecFq p.2), .ok) := by
  intro rest
  induction rest with
  | nil =>
    intro r st acc h k _ ⟨ks1, g1, r1, hk⟩
    have r1' : restOf ks1 = r.body ++ tail := by simpa [fqRestText] using r1
    obtain ⟨ks', hb, g', r'⟩ := fq_body 64 r h k ks1 g1 tail r1'
    rw [hb] at hk
    have hpos : 0 < (kseqRead st).1 := by
      rw [hk]; simp only; have := sq_pos h; omega
    rw [readLoop_step early st acc hpos, hk]
    simp only
    have hend : (kseqRead ⟨0, ks'⟩).1 = -1 :=
      kseqRead_end0 ks' _ g' r' (fun c hc => eol_notHdr (ht c (List.mem_of_mem_drop hc)))
    rw [readLoop_stop early _ _ hend]
    simp
  | cons p rest ih =>
    intro r st acc h k hrest ⟨ks1, g1, r1, hk⟩
    obtain ⟨hsep, hok, hkok⟩ := hrest p (by simp)
    obtain ⟨x, e, hxe⟩ : ∃ x e, p.1 = x :: e := by
      cases hp : p.1 with
      | nil => exact absurd hp hsep.1
      | cons x e => exact ⟨x, e, rfl⟩
    have hae : AllEol e := fun c hc => hsep.2 c (by rw [hxe]; simp [hc])
    have r1' : restOf ks1 = r.body ++ (x :: (e ++ 64 :: (p.2.body ++ (fqRestText rest ++ tail)))) := by
      rw [r1]; simp [fqRestText, FqSrc.text, hxe]
    obtain ⟨ks', hb, g', r'⟩ := fq_body 64 r h k ks1 g1 _ r1'
    rw [hb] at hk
    have hpos : 0 < (kseqRead st).1 := by
      rw [hk]; simp only; have := sq_pos h; omega
    rw [readLoop_step early st acc hpos, hk]
    simp only
    simp only [List.drop_succ_cons, List.drop_zero] at r'
    obtain ⟨ks2, g2, r2, hk2⟩ := kseqRead_hdr ks' e 64 _ g' r' (fun c hc => eol_notHdr (hae c hc)) (by decide)
    rw [ih p.2 ⟨0, ks'⟩ (acc ++ [kRecFq r]) hok hkok (fun q hq => hrest q (by simp [hq])) ⟨ks2, g2, r2, hk2⟩]
    simp

/-- the records kseq reads from a rendered FASTQ file whose title and `+` lines end with a LF and whose
quality bytes are in 33..127 (no condition on the title bytes) -/
theorem readAll_fastq (bufsz : Nat) (hb : 1 ≤ bufsz) (early : Bool) (junk : UInt8)
    (r0 : FqSrc) (rest : List (Seq × FqSrc)) (tail : Seq) (h0 : r0.OK) (hrest : ∀ p ∈ rest, EolRun p.1 ∧ p.2.OK)
    (ht : AllEol tail) (k0 : 10 ∈ r0.e1 ∧ 10 ∈ r0.e3 ∧ ∀ c ∈ r0.qual, 33 ≤ c ∧ c ≤ 127)
    (krest : ∀ p ∈ rest, 10 ∈ p.2.e1 ∧ 10 ∈ p.2.e3 ∧ ∀ c ∈ p.2.qual, 33 ≤ c ∧ c ≤ 127) :
    readAll bufsz .clean early junk (fqFileText r0 rest tail) =
      (kRecFq r0 :: rest.map (fun p => kRecFq p.2), .ok) := by
  obtain ⟨g0, hr0⟩ := initSt_good bufsz hb junk (fqFileText r0 rest tail)
  have hshape : fqFileText r0 rest tail = [] ++ 64 :: (r0.body ++ (fqRestText rest ++ tail)) := by
    simp [fqFileText, FqSrc.text]
  rw [hshape] at hr0
  rw [hshape] at g0
  obtain ⟨ks1, g1, r1, hk⟩ := kseqRead_hdr _ [] 64 _ g0 hr0 (by simp) (by decide)
  rw [← hshape] at hk
  have := fq_loop early tail ht rest r0 (initSt bufsz .clean junk (fqFileText r0 rest tail)) [] h0 k0
    (fun p hp => ⟨(hrest p hp).1, (hrest p hp).2, krest p hp⟩) ⟨ks1, g1, r1, hk⟩
  simpa [readAll] using this

/-- **kseq_agrees_with_go (FASTQ)**: on every well-formed FASTQ file (four-line records, any lay-out of the
end-of-line runs) whose title and `+` lines end with a LF, whose titles are free of NUL and of VT/FF in the
identifier and whose quality bytes are in 33..127, the C reader — whatever the buffer size, the initial content
of the buffer and the timing of `gzerror` — ends normally and `_FastseqReader` builds exactly the sequences,
qualities included, `FastqChunkParser` returns (for every quality shift) -/
theorem kseq_agrees_with_go_fastq (sh : UInt8) (bufsz : Nat) (hb : 1 ≤ bufsz) (early : Bool) (junk : UInt8)
    (r0 : FqSrc) (rest : List (Seq × FqSrc)) (tail : Seq) (h0 : r0.OK) (hrest : ∀ p ∈ rest, EolRun p.1 ∧ p.2.OK)
    (ht : AllEol tail) (k0 : r0.KOK) (krest : ∀ p ∈ rest, p.2.KOK) :
    ∃ recs, readAll bufsz .clean early junk (fqFileText r0 rest tail) = (recs, .ok) ∧
      recs.map (toRec sh) = r0.record sh true :: rest.map (fun p => p.2.record sh true) ∧
      parseFastq sh true (fqFileText r0 rest tail) = .ok (recs.map (toRec sh)) := by
  have hmap : (kRecFq r0 :: rest.map (fun p => kRecFq p.2)).map (toRec sh) =
      r0.record sh true :: rest.map (fun p => p.2.record sh true) := by
    simp only [List.map_cons, List.map_map, toRec_fq sh r0 h0 k0, List.cons.injEq, true_and]
    apply List.map_congr_left
    intro p hp
    exact toRec_fq sh p.2 (hrest p hp).2 (krest p hp)
  refine ⟨_, readAll_fastq bufsz hb early junk r0 rest tail h0 hrest ht k0.2 (fun p hp => (krest p hp).2), hmap, ?_⟩
  rw [hmap]
  exact Parse.parseFastq_content sh true rest r0 tail h0 hrest ht

/-! ## the side conditions are needed; the theorems are not vacuous -/

/-- `>a\vb\nac\n` -/
def exVT : FaSrc := ⟨[97, 11, 98], [10], [97, 99], []⟩

theorem exVT_ok : exVT.OK :=
  ⟨⟨97, [11, 98], rfl, by decide, by unfold NoEol; decide⟩, ⟨by decide, by unfold AllEol; decide⟩,
   ⟨by decide, by unfold SeqBytes; decide⟩, by simp [exVT]⟩

example (bufsz : Nat) (hb : 1 ≤ bufsz) (early : Bool) (junk : UInt8) :
    readAll bufsz .clean early junk [62, 97, 11, 98, 10, 97, 99, 10] = ([⟨[97], [98], [97, 99], []⟩], .ok) ∧
    parseFasta [62, 97, 11, 98, 10, 97, 99, 10] = .ok [{ id := [97, 11, 98], defn := [], seq := [97, 99] }] := by
  refine ⟨?_, by rfl⟩
  have := readAll_fasta bufsz hb early junk exVT [] [10] exVT_ok (by simp) (by unfold AllEol; decide) (by decide) (by simp)
  exact this

/-- `>a\rac\n`: a title line ended by a lone CR.  Go: one record `a` / `ac`.  kseq does not see the end of
the line: the comment runs up to the LF, the record has no sequence, `_FastseqReader` aborts (-4) -/
example (bufsz : Nat) (hb : 1 ≤ bufsz) (early : Bool) (junk : UInt8) :
    readAll bufsz .clean early junk [62, 97, 13, 97, 99, 10] = ([], .fatal (-4)) ∧
    parseFasta [62, 97, 13, 97, 99, 10] = .ok [{ id := [97], defn := [], seq := [97, 99] }] := by
  refine ⟨?_, by rfl⟩
  obtain ⟨g0, hr0⟩ := initSt_good bufsz hb junk [62, 97, 13, 97, 99, 10]
  obtain ⟨ks1, g1, r1, hk⟩ := kseqRead_hdr _ [] 62 [97, 13, 97, 99, 10] g0 hr0 (by simp) (by decide)
  obtain ⟨ks2, g2, r2, hb2⟩ := kseqBody_head ks1 [97, 13, 97, 99] [] g1 r1 (by decide)
  obtain ⟨ks3, h3, _⟩ := kseqTail_eof 62 ([97, 13, 97, 99].takeWhile (fun c => !isSpace c))
    (([97, 13, 97, 99].dropWhile (fun c => !isSpace c)).tail) ks2 [] g2 r2 (by intro c hc; cases hc)
  have h0 : (kseqRead (initSt bufsz .clean junk [62, 97, 13, 97, 99, 10])).1 = 0 := by
    rw [show initSt bufsz .clean junk [62, 97, 13, 97, 99, 10] = ⟨0, (initSt bufsz .clean junk [62, 97, 13, 97, 99, 10]).ks⟩ from rfl,
      hk, hb2 62, h3]
    rfl
  exact readLoop_empty_seq early _ [] h0

/-! non-vacuity: a two-record CR LF file, folded sequence, trailing CR LF -/

/-- `>s1 d\r\nAC\r\ngt\r\n` -/
def exR0 : FaSrc := ⟨[115, 49, 32, 100], [13, 10], [65, 67], [([13, 10], [103, 116])]⟩
/-- `>s2\r\ntt` -/
def exR1 : FaSrc := ⟨[115, 50], [13, 10], [116, 116], []⟩

theorem exR0_ok : exR0.OK ∧ exR0.KOK :=
  ⟨⟨⟨115, [49, 32, 100], rfl, by decide, by unfold NoEol; decide⟩, ⟨by decide, by unfold AllEol; decide⟩,
    ⟨by decide, by unfold SeqBytes; decide⟩, by
      intro p hp
      simp only [exR0, List.mem_singleton] at hp
      subst hp
      exact ⟨⟨by decide, by unfold AllEol; decide⟩, ⟨by decide, by unfold SeqBytes; decide⟩⟩⟩,
   ⟨⟨by decide, by decide⟩, by decide⟩⟩

theorem exR1_ok : exR1.OK ∧ exR1.KOK :=
  ⟨⟨⟨115, [50], rfl, by decide, by unfold NoEol; decide⟩, ⟨by decide, by unfold AllEol; decide⟩,
    ⟨by decide, by unfold SeqBytes; decide⟩, by simp [exR1]⟩,
   ⟨⟨by decide, by decide⟩, by decide⟩⟩

example :
    readAll 3 .clean false 0 [62, 115, 49, 32, 100, 13, 10, 65, 67, 13, 10, 103, 116, 13, 10,
        62, 115, 50, 13, 10, 116, 116, 13, 10] =
      ([⟨[115, 49], [100, 13], [65, 67, 103, 116], []⟩, ⟨[115, 50], [], [116, 116], []⟩], .ok) ∧
    parseFasta [62, 115, 49, 32, 100, 13, 10, 65, 67, 13, 10, 103, 116, 13, 10,
        62, 115, 50, 13, 10, 116, 116, 13, 10] =
      .ok ([⟨[115, 49], [100, 13], [65, 67, 103, 116], []⟩, ⟨[115, 50], [], [116, 116], []⟩].map (toRec 0)) := by
  have hrest : ∀ p ∈ [(([13, 10] : Seq), exR1)], EolRun p.1 ∧ p.2.OK := by
    intro p hp
    simp only [List.mem_singleton] at hp
    subst hp
    exact ⟨⟨by decide, by unfold AllEol; decide⟩, exR1_ok.1⟩
  have hk : ∀ p ∈ [(([13, 10] : Seq), exR1)], p.2.KOK := by
    intro p hp
    simp only [List.mem_singleton] at hp
    subst hp
    exact exR1_ok.2
  -- the hypotheses of the agreement theorem are satisfied by this file
  have _ := kseq_agrees_with_go_fasta 0 3 (by decide) false 0 exR0 [([13, 10], exR1)] [13, 10]
    exR0_ok.1 hrest (by unfold AllEol; decide) exR0_ok.2 hk
  have h1' := readAll_fasta 3 (by decide) false 0 exR0 [([13, 10], exR1)] [13, 10]
    exR0_ok.1 hrest (by unfold AllEol; decide) exR0_ok.2.2 (fun p hp => (hk p hp).2)
  refine ⟨h1', ?_⟩
  rfl

/-- `@r1\r\nAC\r\n+\r\nI@` -/
def exQ0 : FqSrc := ⟨[114, 49], [13, 10], [65, 67], [13, 10], [], [13, 10], [73, 64]⟩
/-- `@r2 x\ng\n+r2\n+` -/
def exQ1 : FqSrc := ⟨[114, 50, 32, 120], [10], [103], [10], [114, 50], [10], [43]⟩

theorem exQ0_ok : exQ0.OK ∧ exQ0.KOK :=
  ⟨⟨⟨114, [49], rfl, by decide, by unfold NoEol; decide⟩, ⟨by decide, by unfold AllEol; decide⟩,
    ⟨by decide, by unfold SeqBytes; decide⟩, ⟨by decide, by unfold AllEol; decide⟩, by unfold NoEol; decide,
    ⟨by decide, by unfold AllEol; decide⟩, by unfold NoEol; decide, rfl⟩,
   ⟨⟨by decide, by decide⟩, by decide, by decide, by decide⟩⟩

theorem exQ1_ok : exQ1.OK ∧ exQ1.KOK :=
  ⟨⟨⟨114, [50, 32, 120], rfl, by decide, by unfold NoEol; decide⟩, ⟨by decide, by unfold AllEol; decide⟩,
    ⟨by decide, by unfold SeqBytes; decide⟩, ⟨by decide, by unfold AllEol; decide⟩, by unfold NoEol; decide,
    ⟨by decide, by unfold AllEol; decide⟩, by unfold NoEol; decide, rfl⟩,
   ⟨⟨by decide, by decide⟩, by decide, by decide, by decide⟩⟩

/-- FASTQ, two records (CR LF and LF lay-outs, `@` and `+` among the quality characters), buffer of 3 bytes,
quality shift 33 -/
example :
    readAll 3 .clean false 0 [64, 114, 49, 13, 10, 65, 67, 13, 10, 43, 13, 10, 73, 64, 13, 10,
        64, 114, 50, 32, 120, 10, 103, 10, 43, 114, 50, 10, 43, 10] =
      ([⟨[114, 49], [], [65, 67], [73, 64]⟩, ⟨[114, 50], [120], [103], [43]⟩], .ok) ∧
    parseFastq 33 true [64, 114, 49, 13, 10, 65, 67, 13, 10, 43, 13, 10, 73, 64, 13, 10,
        64, 114, 50, 32, 120, 10, 103, 10, 43, 114, 50, 10, 43, 10] =
      .ok ([⟨[114, 49], [], [65, 67], [73, 64]⟩, ⟨[114, 50], [120], [103], [43]⟩].map (toRec 33)) := by
  have hrest : ∀ p ∈ [(([13, 10] : Seq), exQ1)], EolRun p.1 ∧ p.2.OK := by
    intro p hp
    simp only [List.mem_singleton] at hp
    subst hp
    exact ⟨⟨by decide, by unfold AllEol; decide⟩, exQ1_ok.1⟩
  have hk : ∀ p ∈ [(([13, 10] : Seq), exQ1)], p.2.KOK := by
    intro p hp
    simp only [List.mem_singleton] at hp
    subst hp
    exact exQ1_ok.2
  -- the hypotheses of the agreement theorem are satisfied by this file
  have _ := kseq_agrees_with_go_fastq 33 3 (by decide) false 0 exQ0 [([13, 10], exQ1)] [10]
    exQ0_ok.1 hrest (by unfold AllEol; decide) exQ0_ok.2 hk
  have h1 := readAll_fastq 3 (by decide) false 0 exQ0 [([13, 10], exQ1)] [10]
    exQ0_ok.1 hrest (by unfold AllEol; decide) exQ0_ok.2.2 (fun p hp => (hk p hp).2)
  refine ⟨h1, ?_⟩
  rfl

/-- `@r\nA\n+\n \n`: a quality byte outside 33..127 (a blank).  Go: one record with the quality 32 - 33.
kseq drops the blank, the quality string is shorter than the sequence, `_FastseqReader` aborts (-2) -/
example (bufsz : Nat) (hb : 1 ≤ bufsz) (early : Bool) (junk : UInt8) :
    readAll bufsz .clean early junk [64, 114, 10, 65, 10, 43, 10, 32, 10] = ([], .fatal (-2)) ∧
    parseFastq 33 true [64, 114, 10, 65, 10, 43, 10, 32, 10] =
      .ok [{ id := [114], defn := [], seq := [97], qual := some [255] }] := by
  refine ⟨?_, by rfl⟩
  obtain ⟨g0, hr0⟩ := initSt_good bufsz hb junk [64, 114, 10, 65, 10, 43, 10, 32, 10]
  obtain ⟨ks1, g1, r1, hk⟩ := kseqRead_hdr _ [] 64 [114, 10, 65, 10, 43, 10, 32, 10] g0 hr0 (by simp) (by decide)
  obtain ⟨ks2, g2, r2, hb2⟩ := kseqBody_head ks1 [114] [65, 10, 43, 10, 32, 10] g1 r1 (by decide)
  obtain ⟨ks3, h3, g3, r3⟩ := seqLoop_stop [65, 10] ks2 [] 43 [10, 32, 10] g2 r2 (by unfold Plain; decide) (by decide)
  obtain ⟨ks4, h4, g4, r4⟩ := skipLine_stop [] ks3 [32, 10] g3 r3 (by simp)
  obtain ⟨ks5, h5, g5, r5⟩ := qualLoop_skip [32, 10] 1 ks4 [] [] g4 r4 (by decide) (by decide)
  obtain ⟨ks6, h6, _⟩ := getc_nil g5 r5
  have h7 : qualLoop 1 ks4 [] = ([], ks6) := by rw [h5, qualLoop_none 1 [] h6]
  have h0 : (kseqRead (initSt bufsz .clean junk [64, 114, 10, 65, 10, 43, 10, 32, 10])).1 = -2 := by
    rw [show initSt bufsz .clean junk [64, 114, 10, 65, 10, 43, 10, 32, 10] =
      ⟨0, (initSt bufsz .clean junk [64, 114, 10, 65, 10, 43, 10, 32, 10]).ks⟩ from rfl, hk, hb2 64]
    have e1 : (([] : Bytes) ++ List.filter isGraph [65, 10]) = [65] := by decide
    rw [e1] at h3
    simp [kseqTail, h3, h4, h7]
  exact readLoop_short_qual early _ [] h0

end ObiVerif.Kseq
