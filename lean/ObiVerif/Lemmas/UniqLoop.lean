import ObiVerif.Model.UniqLoop
import ObiVerif.Lemmas.UniqClass
/-!
# Lemmas on the loop-level model of the classification stages (`Model/UniqLoop.lean`)

* the table-based classifiers are exact: inside one batch (after `Reset`, from any earlier state) two records
  get the same code iff they carry the same value (`codeAll_exact`);
* the cut loop on any permutation of the coded batch that is ordered by code yields exactly the classes
  (`cutLoop_spec`, `subChunkL_specP`);
* `SpecP`: `Spec` of `Lemmas/UniqClass.lean` up to the order of the members inside a class.
-/
namespace ObiVerif.Uniq

/-! ## the classifiers -/

theorem lookup_cons_code (v' v : Code) (m : Nat) (e : List (Code × Nat)) :
    List.lookup v' ((v, m) :: e) = if v' = v then some m else e.lookup v' := by
  rw [List.lookup_cons]
  by_cases h : v' = v
  · simp [h]
  · have : (v' == v) = false := by simpa using h
    simp [this, h]

/-- `encode` is injective and all its codes are below `maxcode` -/
structure ClsSt.Inv (st : ClsSt) : Prop where
  lt : ∀ v k, st.enc.lookup v = some k → k < st.max
  inj : ∀ v v' k, st.enc.lookup v = some k → st.enc.lookup v' = some k → v = v'

theorem ClsSt.init_inv : ClsSt.init.Inv := ⟨by simp [ClsSt.init], by simp [ClsSt.init]⟩

/-- after `Reset` the invariant holds whatever the classifier went through before (the codes of an
`AnnotationClassifier` go on from the old `maxcode`) -/
theorem ClsSt.reset_inv (kind : Kind) (st : ClsSt) : (st.reset kind).Inv := by
  cases kind <;> exact ⟨by simp [ClsSt.reset], by simp [ClsSt.reset]⟩

/-- one call of `Code`: the value is registered with the code returned, earlier registrations stay -/
theorem ClsSt.code_spec (st : ClsSt) (hi : st.Inv) (v : Code) :
    (st.code v).1.Inv ∧ (st.code v).1.enc.lookup v = some (st.code v).2 ∧
    (∀ v' k, st.enc.lookup v' = some k → (st.code v).1.enc.lookup v' = some k) := by
  unfold ClsSt.code
  cases h : st.enc.lookup v with
  | some k => exact ⟨hi, h, fun _ _ h' => h'⟩
  | none =>
    refine ⟨⟨?_, ?_⟩, ?_, ?_⟩
    · intro v' k hk
      simp only [lookup_cons_code] at hk
      split at hk
      · cases hk; exact Nat.lt_succ_self _
      · exact Nat.lt_succ_of_lt (hi.lt v' k hk)
    · intro v1 v2 k h1 h2
      simp only [lookup_cons_code] at h1 h2
      split at h1 <;> split at h2
      · subst_vars; rfl
      · cases h1; exact absurd (hi.lt v2 _ h2) (Nat.lt_irrefl _)
      · cases h2; exact absurd (hi.lt v1 _ h1) (Nat.lt_irrefl _)
      · exact hi.inj v1 v2 k h1 h2
    · simp
    · intro v' k hk
      simp only [lookup_cons_code]
      split
      · subst_vars; rw [h] at hk; cases hk
      · exact hk

/-- the coding loop: the records keep their order, every code is the one registered for the value of
its record in the final table -/
theorem codeAll_spec (f : Rec → Code) : ∀ (b : List Rec) (st : ClsSt), st.Inv →
    (codeAll f st b).1.Inv ∧ (codeAll f st b).2.map (·.2) = b ∧
    (∀ p ∈ (codeAll f st b).2, (codeAll f st b).1.enc.lookup (f p.2) = some p.1) ∧
    (∀ v' k, st.enc.lookup v' = some k → (codeAll f st b).1.enc.lookup v' = some k) := by
  intro b
  induction b with
  | nil => intro st hi; exact ⟨hi, rfl, by simp [codeAll], fun _ _ h => h⟩
  | cons r t ih =>
    intro st hi
    obtain ⟨c1, c2, c3⟩ := st.code_spec hi (f r)
    obtain ⟨i1, i2, i3, i4⟩ := ih (st.code (f r)).1 c1
    simp only [codeAll]
    refine ⟨i1, by simp [i2], ?_, fun v' k h => i4 v' k (c3 v' k h)⟩
    intro p hp
    rcases List.mem_cons.mp hp with e | hp
    · subst e; exact i4 _ _ c2
    · exact i3 p hp

/-- **exactness of `SequenceClassifier` / `AnnotationClassifier`** inside one batch: equal values ⇒ equal
codes, distinct values ⇒ distinct codes -/
theorem codeAll_exact (f : Rec → Code) (st : ClsSt) (hi : st.Inv) (b : List Rec) :
    ∀ p ∈ (codeAll f st b).2, ∀ q ∈ (codeAll f st b).2, (p.1 = q.1 ↔ f p.2 = f q.2) := by
  obtain ⟨i1, _, i3, _⟩ := codeAll_spec f b st hi
  intro p hp q hq
  have h1 := i3 p hp
  have h2 := i3 q hq
  constructor
  · intro e; rw [e] at h1; exact i1.inj _ _ _ h1 h2
  · intro e; rw [e, h2] at h1; exact (Option.some.inj h1).symm

/-- the code the final table gives to the value of `r` -/
def cdOf (f : Rec → Code) (st : ClsSt) (b : List Rec) (r : Rec) : Nat :=
  ((codeAll f st b).1.enc.lookup (f r)).getD 0

theorem codeAll_eq_map (f : Rec → Code) (st : ClsSt) (hi : st.Inv) (b : List Rec) :
    (codeAll f st b).2 = b.map (fun r => (cdOf f st b r, r)) ∧
    ∀ r ∈ b, ∀ x ∈ b, (cdOf f st b r = cdOf f st b x ↔ f r = f x) := by
  obtain ⟨_, i2, i3, _⟩ := codeAll_spec f b st hi
  have e : (codeAll f st b).2 = (codeAll f st b).2.map (fun p => (cdOf f st b p.2, p.2)) := by
    conv => lhs; rw [← List.map_id (codeAll f st b).2]
    apply List.map_congr_left
    intro p hp
    simp [cdOf, i3 p hp]
  have e2g : ∀ g : Rec → Nat, (codeAll f st b).2 = (codeAll f st b).2.map (fun p => (g p.2, p.2)) →
      (codeAll f st b).2 = b.map (fun r => (g r, r)) := by
    intro g eg
    have : b.map (fun r => (g r, r)) = (codeAll f st b).2.map (fun p => (g p.2, p.2)) := by
      conv => lhs; rw [← i2]
      rw [List.map_map]; rfl
    rw [this]; exact eg
  have e2 := e2g _ e
  refine ⟨e2, ?_⟩
  intro r hr x hx
  have hp : (cdOf f st b r, r) ∈ (codeAll f st b).2 := by rw [e2]; exact List.mem_map.mpr ⟨r, hr, rfl⟩
  have hq : (cdOf f st b x, x) ∈ (codeAll f st b).2 := by rw [e2]; exact List.mem_map.mpr ⟨x, hx, rfl⟩
  exact codeAll_exact f st hi b _ hp _ hq

/-! ## the cut loop -/

theorem cutLoop_spec (cd : Rec → Nat) : ∀ (l : List Rec) (last : Nat) (ss : List Rec), ss ≠ [] →
    (∀ s ∈ ss, cd s = last) → (∀ a ∈ l, last ≤ cd a) → l.Pairwise (fun a b => cd a ≤ cd b) →
    (cutLoop last ss (l.map fun r => (cd r, r))).flatten = ss ++ l ∧
    (∀ t ∈ cutLoop last ss (l.map fun r => (cd r, r)),
        ∃ x ∈ t, t = (ss ++ l).filter (fun r => decide (cd r = cd x))) ∧
    (cutLoop last ss (l.map fun r => (cd r, r))).Pairwise
        (fun t t' => ∀ a ∈ t, ∀ a' ∈ t', cd a ≠ cd a') := by
  intro l
  induction l with
  | nil =>
    intro last ss hne hss _ _
    have hl : ss.length > 0 := List.length_pos_iff.mpr hne
    simp only [List.map_nil, cutLoop, hl, if_true, List.append_nil]
    refine ⟨by simp, ?_, by simp⟩
    intro t ht
    simp only [List.mem_singleton] at ht
    subst ht
    obtain ⟨x, hx⟩ := List.exists_mem_of_ne_nil _ hne
    refine ⟨x, hx, ?_⟩
    symm
    rw [List.filter_eq_self]
    intro a ha
    simp [hss a ha, hss x hx]
  | cons a l' ih =>
    intro last ss hne hss hge hsorted
    have hsorted' := (List.pairwise_cons.mp hsorted).2
    have hhead := (List.pairwise_cons.mp hsorted).1
    simp only [List.map_cons, cutLoop]
    by_cases hc : cd a = last
    · simp only [hc, ne_eq, not_true_eq_false, if_false]
      have := ih last (ss ++ [a]) (by simp)
        (by intro s hs; rcases List.mem_append.mp hs with h | h
            · exact hss s h
            · simp only [List.mem_singleton] at h; subst h; exact hc)
        (fun x hx => hge x (List.mem_cons_of_mem _ hx)) hsorted'
      simpa [List.append_assoc] using this
    · have hlt : last < cd a := Nat.lt_of_le_of_ne (hge a (by simp)) (fun e => hc e.symm)
      simp only [ne_eq, hc, not_false_eq_true, if_true]
      obtain ⟨i1, i2, i3⟩ := ih (cd a) [a] (by simp)
        (by intro s hs; simp only [List.mem_singleton] at hs; subst hs; rfl)
        (fun x hx => hhead x hx) hsorted'
      have hmem : ∀ t ∈ cutLoop (cd a) [a] (l'.map fun r => (cd r, r)), ∀ y ∈ t, y ∈ a :: l' := by
        intro t ht y hy
        have : y ∈ (cutLoop (cd a) [a] (l'.map fun r => (cd r, r))).flatten :=
          List.mem_flatten.mpr ⟨t, ht, hy⟩
        rw [i1] at this
        simpa using this
      have hgt : ∀ y ∈ a :: l', last < cd y := by
        intro y hy
        rcases List.mem_cons.mp hy with e | h
        · subst e; exact hlt
        · exact Nat.lt_of_lt_of_le hlt (hhead y h)
      refine ⟨?_, ?_, ?_⟩
      · simp only [List.flatten_cons, i1]; simp
      · intro t ht
        rcases List.mem_cons.mp ht with e | ht
        · subst e
          obtain ⟨x, hx⟩ := List.exists_mem_of_ne_nil _ hne
          refine ⟨x, hx, ?_⟩
          rw [List.filter_append]
          have e1 : t.filter (fun r => decide (cd r = cd x)) = t := by
            rw [List.filter_eq_self]; intro y hy; simp [hss y hy, hss x hx]
          have e2 : (a :: l').filter (fun r => decide (cd r = cd x)) = [] := by
            rw [List.filter_eq_nil_iff]
            intro y hy
            have := hgt y hy
            rw [hss x hx]
            simp; omega
          rw [e1, e2]; simp
        · obtain ⟨x, hx, e⟩ := i2 t ht
          refine ⟨x, hx, ?_⟩
          rw [List.filter_append]
          have e1 : ss.filter (fun r => decide (cd r = cd x)) = [] := by
            rw [List.filter_eq_nil_iff]
            intro y hy
            have := hgt x (hmem t ht x hx)
            rw [hss y hy]
            simp; omega
          rw [e1, e]; simp
      · refine List.pairwise_cons.mpr ⟨?_, i3⟩
        intro t' ht' y hy y' hy'
        have := hgt y' (hmem t' ht' y' hy')
        rw [hss y hy]
        omega

/-! ## `SpecP` -/

/-- `Spec` up to the order of the members inside the classes: `T` is the partition of `b` into the classes
of "same code under every classifier of `fs`" -/
structure SpecP (fs : List (Rec → Code)) (b : List Rec) (T : List (List Rec)) : Prop where
  cls : ∀ t ∈ T, ∃ x ∈ t, t.Perm (b.filter (same fs x))
  sep : T.Pairwise (fun t t' => ∀ a ∈ t, ∀ a' ∈ t', same fs a a' = false)
  perm : T.flatten.Perm b

theorem Spec.toP {fs b T} (h : Spec fs b T) : SpecP fs b T :=
  ⟨fun t ht => by obtain ⟨x, hx, e⟩ := h.cls t ht; exact ⟨x, hx, by rw [← e]⟩, h.sep, h.perm⟩

theorem SpecP.sub {fs b T} (h : SpecP fs b T) : ∀ t ∈ T, ∀ a ∈ t, a ∈ b :=
  fun t ht a ha => h.perm.mem_iff.mp (List.mem_flatten.mpr ⟨t, ht, ha⟩)

/-- a sort: a permutation of its argument, ordered by code (nothing is said about records of equal code:
`sort.Sort` is not stable) -/
def ValidSorter (srt : Sorter) : Prop :=
  ∀ l, (srt l).Perm l ∧ (srt l).Pairwise (fun p q => p.1 ≤ q.1)

/-- **`ISequenceSubChunk` on one batch, loop by loop**: whatever the state of the classifier before the
batch and whatever the (unstable) sort does with equal codes, the sub-batches pushed are exactly the classes
of the batch under the classifier, each a permutation of the class in batch order -/
theorem subChunkL_specP (kind : Kind) (f : Rec → Code) (srt : Sorter) (hs : ValidSorter srt) (st : ClsSt)
    (b : List Rec) (hb : b ≠ []) : SpecP [f] b (subChunkL kind f srt st b).2 := by
  unfold subChunkL
  split
  · next hlen =>
    dsimp only
    have hi := ClsSt.reset_inv kind st
    obtain ⟨e2, hex⟩ := codeAll_eq_map f (st.reset kind) hi b
    generalize hcd : cdOf f (st.reset kind) b = cd at e2 hex
    obtain ⟨hp, hsorted⟩ := hs (codeAll f (st.reset kind) b).2
    generalize hord : srt (codeAll f (st.reset kind) b).2 = ord at hp hsorted ⊢
    rw [e2] at hp
    -- the sorted pairs are the records `l` with their codes
    have hordl : ord = (ord.map (·.2)).map (fun r => (cd r, r)) := by
      rw [List.map_map]
      conv => lhs; rw [← List.map_id ord]
      apply List.map_congr_left
      intro p hp'
      obtain ⟨r, _, e⟩ := List.mem_map.mp (hp.mem_iff.mp hp')
      subst e; rfl
    have hlp : (ord.map (·.2)).Perm b := by
      have := hp.map (·.2)
      simpa [List.map_map, Function.comp_def] using this
    generalize hl : ord.map (·.2) = l at hordl hlp
    have hlsorted : l.Pairwise (fun a b => cd a ≤ cd b) := by
      rw [hordl] at hsorted
      exact (List.pairwise_map (f := fun r => (cd r, r)) (R := fun p q => p.1 ≤ q.1)).mp hsorted
    have hmemb : ∀ a ∈ l, a ∈ b := fun a ha => hlp.mem_iff.mp ha
    subst hordl
    cases l with
    | nil =>
      have := hlp.length_eq
      simp at this; omega
    | cons r0 t' =>
      simp only [List.map_cons, cutLoop, ne_eq, not_true_eq_false, if_false, List.nil_append]
      obtain ⟨c1, c2, c3⟩ := cutLoop_spec cd t' (cd r0) [r0] (by simp)
        (by intro s hs'; simp only [List.mem_singleton] at hs'; subst hs'; rfl)
        (fun a ha => (List.pairwise_cons.mp hlsorted).1 a ha) (List.pairwise_cons.mp hlsorted).2
      have hfl : ∀ t ∈ cutLoop (cd r0) [r0] (t'.map fun r => (cd r, r)), ∀ a ∈ t, a ∈ r0 :: t' := by
        intro t ht a ha
        have : a ∈ (cutLoop (cd r0) [r0] (t'.map fun r => (cd r, r))).flatten :=
          List.mem_flatten.mpr ⟨t, ht, ha⟩
        rw [c1] at this; simpa using this
      refine ⟨?_, ?_, ?_⟩
      · intro t ht
        obtain ⟨x, hx, e⟩ := c2 t ht
        refine ⟨x, hx, ?_⟩
        have hxb := hmemb x (hfl t ht x hx)
        have e' : t = (r0 :: t').filter (same [f] x) := by
          rw [e]
          show ([r0] ++ t').filter _ = _
          apply List.filter_congr
          intro y hy
          have hyb := hmemb y (by simpa using hy)
          have := hex y hyb x hxb
          simp only [same, List.mem_singleton, forall_eq]
          exact decide_eq_decide.mpr this
        rw [e']
        exact hlp.filter _
      · refine List.Pairwise.imp_of_mem ?_ c3
        intro t t' ht ht' h a ha a' ha'
        have hab := hmemb a (hfl t ht a ha)
        have hab' := hmemb a' (hfl t' ht' a' ha')
        have := h a ha a' ha'
        simp only [same_false_iff, List.mem_singleton, forall_eq]
        intro e
        exact this ((hex a' hab' a hab).mpr e).symm
      · rw [c1]; exact hlp
  · next hlen =>
    cases b with
    | nil => exact absurd rfl hb
    | cons x t =>
      have : t = [] := List.eq_nil_of_length_eq_zero (by simp only [List.length_cons] at hlen; omega)
      subst this
      exact (Spec.single [f] x).toP

end ObiVerif.Uniq
