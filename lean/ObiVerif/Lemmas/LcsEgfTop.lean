import ObiVerif.Lemmas.LcsEgfVerbatim
/-!
# C09, endgapfree = true: initial writes, final read, top-level refinement statements

`init_okE`, `runFrom_okE`, `setup_orderedE` (the geometry of the code with `maxError += delta` is the band `bandGeoE`),
`fastLCSBuf_egf_refines`, `fastLCS_egf_refines`.
-/
namespace ObiVerif.Lcs

theorem bandCellE_init00 (lo hi : Int) (lB : Nat) (h0 : lo < 0) (h1 : 0 < hi) :
    bandCellE lo hi lB 0 0 false 0 0 0 = emptyV := by
  have hb : ¬ (((0 : Nat) : Int) - ((0 : Nat) : Int) = lo ∨ ((0 : Nat) : Int) - ((0 : Nat) : Int) = hi) := by omega
  simp only [bandCellE, if_true, if_neg hb, pick_row0 0 (by omega)]; rfl

theorem bandCellE_init01 (lo hi : Int) (lB : Nat) (h0 : lo < 0) (h1 : 1 < hi) :
    bandCellE lo hi lB 0 1 false 0 0 0 = encodeValues 0 0 false := by
  have hb : ¬ (((1 : Nat) : Int) - ((0 : Nat) : Int) = lo ∨ ((1 : Nat) : Int) - ((0 : Nat) : Int) = hi) := by omega
  simp only [bandCellE, if_true, if_neg hb, pick_row0 0 (by omega)]

theorem bandCellE_init10 (lo hi : Int) (lB : Nat) (h0 : lo < -1) (h1 : 0 < hi) :
    bandCellE lo hi lB 1 0 false 0 0 0 = encodeValues 0 1 false := by
  have hb : ¬ (((0 : Nat) : Int) - ((1 : Nat) : Int) = lo ∨ ((0 : Nat) : Int) - ((1 : Nat) : Int) = hi) := by omega
  simp only [bandCellE, if_neg hb, pick_col0 1 (by omega)]; simp

theorem init_okE {g : Geo} {A B : Seq} (hg : GeoW g A B) (buf : Array UInt64) (hsz : g.width ≤ buf.size) :
    let buf3 := ((buf.setIfInBounds (0 + g.extra.toNat) emptyV).setIfInBounds (0 + (g.extra + g.even).toNat)
      (encodeValues 0 0 false)).setIfInBounds (0 + (g.extra + g.even - 1).toNat) (encodeValues 0 1 false)
    EvenOKE g A B buf3 0 0 ∧ OddOKE g A B buf3 0 0 := by
  obtain ⟨hA, hB, hlA, hlB, hle, hextra, heven, hwidth⟩ := hg
  have hlo : gLo g < -1 := by unfold gLo; omega
  have hhi : 1 < gHi g := by unfold gHi; omega
  refine ⟨?_, ?_⟩
  · intro x i j h1 h2 h3 h4 h5 h6
    have ex : x = g.extra := by omega
    have ei : i = 0 := by omega
    have ej : j = 0 := by omega
    subst ex ei ej
    rw [getD_set_ne _ _ _ _ (by omega), getD_set_ne _ _ _ _ (by omega), getD_set_eq _ _ _ (by omega),
      cellME_row0 _ _ _ _ _ (by omega), bandCellE_init00 _ _ _ (by omega) (by omega)]
  · intro x i j h1 h2 h3 h4 h5 h6
    have ex : x = g.extra + g.even ∨ x = g.extra + g.even - 1 := by omega
    rcases ex with ex | ex
    · have ei : i = 0 := by omega
      have ej : j = 1 := by omega
      subst ex ei ej
      rw [getD_set_ne _ _ _ _ (by omega), getD_set_eq _ _ _ (by simp; omega),
        cellME_row0 _ _ _ _ _ (by omega), bandCellE_init01 _ _ _ (by omega) (by omega)]
    · have ei : i = 1 := by omega
      have ej : j = 0 := by omega
      subst ex ei ej
      rw [getD_set_eq _ _ _ (by simp; omega), cellME_col0, bandCellE_init10 _ _ _ (by omega) (by omega)]

/-- the answer of the verbatim kernel (endgapfree = true) for an answer of the structural layer and an `end` -/
def resOfE : Option (Nat × Nat) → Int → Int × Int × Int
  | none, _ => (-1, -1, -1)
  | some (s, l), en => (s, l, en)

theorem runFrom_okE (su : Setup) (A B : Seq) (hg : GeoW su.g A B) (hegf : su.g.egf = true)
    (hd : su.delta = su.g.lA - su.g.lB)
    (hN : (su.N : Int) = su.g.lB + su.delta / 2) (buf : Array UInt64) (hsz : 2 * su.g.width ≤ buf.size) :
    ∃ buf' en, runFrom su buf =
      .ok (resOfE (bandResult (cellME (gLo su.g) (gHi su.g) A B B.length A.length)) en, buf') ∧
      0 ≤ en ∧ en ≤ A.length := by
  have hg' := hg
  obtain ⟨hA, hB, hlA, hlB, hle, hextra, heven, hwidth⟩ := hg
  obtain ⟨hE0, hO0⟩ := init_okE hg' buf (by omega)
  unfold runFrom
  simp only [hegf, if_true]
  rw [wr_ok _ _ _ _ _ (by omega) (by omega)]
  simp only [bind, Except.bind]
  rw [wr_ok _ _ _ _ _ (by omega) (by omega)]
  simp only []
  rw [wr_ok _ _ _ _ _ (by omega) (by omega)]
  simp only []
  obtain ⟨st', p', e1, q0, q2, q3, q4, q5⟩ := outer_okE hg' hegf su.N 1 0 su.g.width
    ⟨((buf.setIfInBounds (0 + su.g.extra.toNat) emptyV).setIfInBounds (0 + (su.g.extra + su.g.even).toNat)
      (encodeValues 0 0 false)).setIfInBounds (0 + (su.g.extra + su.g.even - 1).toNat) (encodeValues 0 1 false), 0, 0⟩
    (by omega) (by simp; omega) (by simp; omega) (by simp) (by simpa using hE0) (by simpa using hO0)
  rw [e1]
  simp only []
  simp only [Array.size_setIfInBounds] at q2
  have hx0 : 0 ≤ su.delta % 2 * su.g.even + su.g.extra + su.delta / 2 := by
    have : 0 ≤ su.delta % 2 * su.g.even := Int.mul_nonneg (by omega) (by omega)
    omega
  have hpar : su.delta % 2 = 0 ∨ su.delta % 2 = 1 := by omega
  have hx1 : su.delta % 2 * su.g.even + su.g.extra + su.delta / 2 < (su.g.width : Int) := by
    rcases hpar with h | h <;> rw [h] <;> omega
  rw [rd_ok _ _ _ _ hx0 hx1]
  simp only []
  have hv : st'.buf.getD (p' + (su.delta % 2 * su.g.even + su.g.extra + su.delta / 2).toNat) 0 =
      cellME (gLo su.g) (gHi su.g) A B B.length A.length := by
    rcases hpar with h | h
    · rw [h]
      exact q4 _ _ _ (by omega) (by omega) (by omega) (by omega) (by omega) (by omega)
    · rw [h]
      exact q5 _ _ _ (by omega) (by omega) (by omega) (by omega) (by omega) (by omega)
  rw [hv]
  refine ⟨st'.buf, st'.endp, ?_, q0.1, q0.2⟩
  simp only [bandResult]
  split <;> rfl

theorem setup_orderedE (A B : Seq) (h : B.length ≤ A.length) (e : Int) :
    (setup A B e true = none ∧ bandGeoE A.length B.length e = none) ∨
    ∃ su, setup A B e true = some su ∧ GeoW su.g A B ∧ su.g.egf = true ∧ su.delta = su.g.lA - su.g.lB ∧
      (su.N : Int) = su.g.lB + su.delta / 2 ∧ bandGeoE A.length B.length e = some (gLo su.g, gHi su.g) := by
  have h' : ¬ A.length < B.length := by omega
  simp only [setup, bandGeoE, h', if_false, if_true]
  have hm : (if (e == -1) = true then (A.length : Int) * 2 else e) = (if (e == -1) = true then 2 * (A.length : Int) else e) := by
    split <;> omega
  rw [hm]
  generalize (if (e == -1) = true then 2 * (A.length : Int) else e) = me
  by_cases hd : (A.length : Int) - (B.length : Int) > me + ((A.length : Int) - (B.length : Int))
  · left; simp [hd]
  · right
    simp only [hd, if_false]
    refine ⟨_, rfl, ⟨rfl, rfl, rfl, rfl, h, by simp only []; omega, rfl, by simp only []; omega⟩, rfl, rfl, ?_, ?_⟩
    · simp only []; omega
    · simp only [gLo, gHi]

theorem bandEGF_swap_def (a b : Seq) (e : Int) :
    bandEGF a b e = if a.length < b.length then bandEGFAB b a e else bandEGFAB a b e := rfl

theorem runFrom_refinesE_AB (A B : Seq) (h : B.length ≤ A.length) (e : Int) :
    match setup A B e true with
    | none => bandEGFAB A B e = none
    | some su => ∀ buf : Array UInt64, 2 * su.g.width ≤ buf.size →
        ∃ buf' en, runFrom su buf = .ok (resOfE (bandEGFAB A B e) en, buf') ∧ 0 ≤ en ∧ en ≤ A.length := by
  rcases setup_orderedE A B h e with ⟨h1, h2⟩ | ⟨su, h1, hg, hegf, hd, hN, h2⟩
  · rw [h1]; simp only [bandEGFAB, h2]
  · rw [h1]
    intro buf hsz
    obtain ⟨buf', en, hb, hen⟩ := runFrom_okE su A B hg hegf hd hN buf hsz
    refine ⟨buf', en, ?_, hen⟩
    rw [hb]
    simp only [bandEGFAB, h2, bandLastE_getLastD]

theorem runFrom_refinesE (a b : Seq) (e : Int) :
    match setup a b e true with
    | none => bandEGF a b e = none
    | some su => ∀ buf : Array UInt64, 2 * su.g.width ≤ buf.size →
        ∃ buf' en, runFrom su buf = .ok (resOfE (bandEGF a b e) en, buf') ∧ 0 ≤ en ∧
          en ≤ (max a.length b.length : Nat) := by
  by_cases h : a.length < b.length
  · rw [setup_swap a b e true h, bandEGF_swap_def, if_pos h]
    have := runFrom_refinesE_AB b a (by omega) e
    split
    · rename_i h1; rw [h1] at this; exact this
    · rename_i su h1; rw [h1] at this
      intro buf hsz
      obtain ⟨buf', en, hb, h0, h1⟩ := this buf hsz
      exact ⟨buf', en, hb, h0, by omega⟩
  · rw [bandEGF_swap_def, if_neg h]
    have := runFrom_refinesE_AB a b (by omega) e
    split
    · rename_i h1; rw [h1] at this; exact this
    · rename_i su h1; rw [h1] at this
      intro buf hsz
      obtain ⟨buf', en, hb, h0, h1⟩ := this buf hsz
      exact ⟨buf', en, hb, h0, by omega⟩

/-- **`fastLCSBuf_egf_refines`** — one call of the verbatim kernel with endgapfree = true on the caller's buffer,
whatever it contains: no panic, (score, length) are the structural layer's, `0 ≤ end ≤ max(|a|, |b|)` -/
theorem fastLCSBuf_egf_refines (a b : Seq) (e : Int) (buf0 : Array UInt64) :
    ∃ buf' en, fastLCSBuf a b e true buf0 = .ok (resOfE (bandEGF a b e) en, buf') ∧ 0 ≤ en ∧
      en ≤ (max a.length b.length : Nat) := by
  have := runFrom_refinesE a b e
  unfold fastLCSBuf
  split
  · rename_i h; rw [h] at this; simp only [] at this
    exact ⟨buf0, 0, by rw [this]; rfl, by omega, by omega⟩
  · rename_i su h; rw [h] at this
    exact this _ (callerBuf_size _ _)

/-- **`fastLCS_egf_refines`** — the verbatim transcription `fastLCSEGFScoreByte` with endgapfree = true, for all
sequences, every bound and every `fill`: no panic; (score, length) are what the structural layer `bandEGF` returns -/
theorem fastLCS_egf_refines (a b : Seq) (e : Int) (fill : Option UInt64) :
    ∃ en : Int, fastLCSEGFScoreByte a b e true fill = .ok (resOfE (bandEGF a b e) en) ∧ 0 ≤ en ∧
      en ≤ (max a.length b.length : Nat) := by
  have := runFrom_refinesE a b e
  rw [fastLCSEGFScoreByte_eq_runFrom]
  split
  · rename_i h; rw [h] at this; simp only [] at this
    exact ⟨0, by rw [this]; rfl, by omega, by omega⟩
  · rename_i su h; rw [h] at this
    obtain ⟨buf', en, hb, hen⟩ := this _ (fillBuf_size su.g.width fill)
    exact ⟨en, by rw [hb]; rfl, hen⟩

end ObiVerif.Lcs
