import ObiVerif.Lemmas.ApatBest
/-!
# `AllMatches` / `BestMatch` on a circular sequence: exact characterisation of finding D35 (C10)

`FindAllIndex` searches a circular sequence of `n` symbols in a buffer extended by its first `min(n, 64)` symbols, so a
hit may end beyond `n`; `AllMatches` and `BestMatch` then work on the LINEAR sequence (`seq[start:end]`, `end` clipped to
`n`).  D35: "a hit lying in the circular extension panics (slice bounds) or is dropped".  This file says exactly which
hits are affected:

* `allMatchStep_none_iff`: one iteration of `AllMatches` panics exactly for a hit that is re-aligned (indel mode, at
  least one error) and whose fragment start `max(start - 2k, 0)` lies beyond the end of the linear sequence;
* `allMatches_panic_iff`: `AllMatches` panics iff `FilterBestMatch` keeps such a hit;
* `allMatches_passthrough`: in exact and mismatch-only mode `AllMatches` IS `FilterBestMatch`, circular or not
  (so circular `AllMatches` is affected in indel mode only);
* `allMatches_circular_step`: a kept hit that ends inside the linear part never panics; a kept hit with at least one
  error, indel mode, that reaches into the extension (the AFFECTED class) either panics or is replaced by a span of the
  linear sequence, which is never the junction occurrence itself;
* `bestMatch_no_panic`, `bestMatch_nomatch_iff`, `bestMatch_circular_char`: `BestMatch` never panics and answers
  `matched = false` exactly when there is no hit or when the leftmost hit of minimal error count reaches into the
  extension (whatever the other hits are; in every mode), or that hit has a negative start and is not re-aligned;
* sample evaluations of the model (tests, by `decide`): dropped hit, panic, `BestMatch` missing an inside hit.
-/
namespace ObiVerif.Apat

/-! ## generic facts -/

theorem mapM_option_some_all {α β : Type} (f : α → Option β) (l : List α) (out : List β) (h : l.mapM f = some out) :
    ∀ x ∈ l, f x ≠ none := by
  induction l generalizing out with
  | nil => intro x hx; cases hx
  | cons a l ih =>
    cases hfa : f a with
    | none => simp [List.mapM_cons, hfa] at h
    | some b =>
      cases hml : l.mapM f with
      | none => simp [List.mapM_cons, hfa, hml] at h
      | some bs =>
        intro x hx
        rcases List.mem_cons.1 hx with hxa | hx
        · rw [hxa, hfa]; intro h0; cases h0
        · exact ih bs hml x hx

/-- `mapM` in the `Option` monad fails iff one of the steps fails -/
theorem mapM_option_eq_none_iff {α β : Type} (f : α → Option β) (l : List α) :
    l.mapM f = none ↔ ∃ x ∈ l, f x = none := by
  constructor
  · intro h
    by_cases hex : ∃ x ∈ l, f x = none
    · exact hex
    · exfalso
      apply mapM_option_ne_none f l _ h
      intro x hx hfx
      exact hex ⟨x, hx, hfx⟩
  · rintro ⟨x, hx, hfx⟩
    cases hm : l.mapM f with
    | none => rfl
    | some out => exact absurd hfx (mapM_option_some_all f l out hm x hx)

theorem mapM_option_id {α : Type} (f : α → Option α) (l : List α) (h : ∀ x ∈ l, f x = some x) : l.mapM f = some l := by
  induction l with
  | nil => simp
  | cons a l ih =>
    have ha := h a (by simp)
    have hl := ih (fun x hx => h x (List.mem_cons_of_mem _ hx))
    simp [List.mapM_cons, ha, hl]

/-- the Go slice expression `s[a:b]` panics exactly when `0 ≤ a ≤ b ≤ len(s)` fails -/
theorem goSlice_eq_none_iff (s : Bytes) (a b : Int) :
    goSlice s a b = none ↔ ¬ (0 ≤ a ∧ a ≤ b ∧ b ≤ (s.length : Int)) := by
  unfold goSlice
  split
  · rename_i h
    simp only [Bool.and_eq_true, decide_eq_true_eq] at h
    constructor
    · intro h0; cases h0
    · intro hn; exact absurd ⟨h.1.1, h.1.2, h.2⟩ hn
  · rename_i h
    simp only [Bool.and_eq_true, decide_eq_true_eq] at h
    constructor
    · intro _ hc; exact h ⟨⟨hc.1, hc.2.1⟩, hc.2.2⟩
    · intro _; rfl

theorem locPat_ne_nil_c (P : Pattern) (hm1 : 1 ≤ P.patlen) (hc : P.patlen ≤ P.cpat.length) : P.cpat.take P.patlen ≠ [] := by
  intro h0
  have := congrArg List.length h0
  rw [List.length_take, List.length_nil] at this
  omega

/-! ## the raw hits end at a positive position -/

theorem errScan_lower (m : Nat) (levels : W → List W → List W) (sm : List W) (pos : Nat) (rs : List W) (cs : List Nat)
    (i : Int) (k : Nat) (h : (i, k) ∈ errScan m levels sm pos rs cs) : 1 ≤ i + m := by
  obtain ⟨t, _, hi, _⟩ := (errScan_mem _ _ _ _ _ _ _ _).1 h
  rw [hi]; omega

theorem manberAll_lower (P : Pattern) (data : List Nat) (begin length : Nat) (i : Int) (k : Nat)
    (h : (i, k) ∈ manberAll P data begin length) : 1 ≤ i + P.patlen := by
  unfold manberAll at h
  split at h
  · rw [manberNoErr_eq_sub] at h
    have := errScan_lower _ _ _ _ _ _ _ _ h
    simp only [Pattern.patlen] at this ⊢
    omega
  · split at h
    · have := errScan_lower _ _ _ _ _ _ _ _ h
      simp only [Pattern.patlen] at this ⊢
      omega
    · have := errScan_lower _ _ _ _ _ _ _ _ h
      simp only [Pattern.patlen] at this ⊢
      omega

/-- the start of a raw hit may be negative ("shifted"), its end is at least 1 (the automaton has read a symbol) -/
theorem findAllIndex_end_pos (P : Pattern) (seq : Bytes) (circular : Bool) (begin length : Int) (h : Hit)
    (hh : h ∈ findAllIndex P seq circular begin length) : 1 ≤ h.2.1 := by
  unfold findAllIndex at hh
  simp only [List.mem_map, Prod.exists] at hh
  obtain ⟨a, b, hmem, rfl⟩ := hh
  exact manberAll_lower P _ _ _ a b hmem

/-! ## 1. one iteration of `AllMatches` -/

/-- **which hit makes `AllMatches` panic**: exactly a hit that is re-aligned (indel mode, at least one error) and whose
fragment start `max(start - 2k, 0)` lies beyond the end of the linear sequence — the Go slice expression
`seq[start:min(start + m + 4k, len)]` is then `seq[start:len]` with `start > len`. -/
theorem allMatchStep_none_iff (P : Pattern) (seq : Bytes) (m : Hit) (hm1 : 1 ≤ P.patlen) (hc : P.patlen ≤ P.cpat.length) :
    allMatchStep P seq m = none ↔
      (m.2.2 > 0 ∧ P.hasIndel = true ∧ (seq.length : Int) < max (m.1 - m.2.2 * 2) 0) := by
  have hp := locPat_ne_nil_c P hm1 hc
  unfold allMatchStep
  split
  · rename_i hcond
    simp only [Bool.and_eq_true, decide_eq_true_eq] at hcond
    dsimp only
    generalize hS : max (m.1 - m.2.2 * 2) 0 = S
    generalize hE : min (S + (P.patlen : Int) + 4 * m.2.2) (seq.length : Int) = E
    cases hg : goSlice seq S E with
    | none =>
      have hn := (goSlice_eq_none_iff seq S E).1 hg
      have hlt : (seq.length : Int) < S := by
        apply Classical.byContradiction
        intro hge
        apply hn
        have := hcond.1
        omega
      simp only [true_iff]
      exact ⟨hcond.1, hcond.2, hlt⟩
    | some frg =>
      have hs : ¬ ¬ (0 ≤ S ∧ S ≤ E ∧ E ≤ (seq.length : Int)) := by
        intro hn
        rw [(goSlice_eq_none_iff seq S E).2 hn] at hg
        cases hg
      have hs' : 0 ≤ S ∧ S ≤ E ∧ E ≤ (seq.length : Int) := Classical.byContradiction hs
      simp only
      cases hloc : locatePattern (P.cpat.take P.patlen) frg with
      | none => exact absurd hloc (locatePattern_ne_none _ _ hp)
      | some r =>
        obtain ⟨pb, pe, score⟩ := r
        simp only
        constructor
        · intro h0; cases h0
        · rintro ⟨_, _, hlt⟩; omega
  · rename_i hcond
    simp only [Bool.and_eq_true, decide_eq_true_eq] at hcond
    constructor
    · intro h0; cases h0
    · rintro ⟨h1, h2, _⟩; exact absurd ⟨h1, h2⟩ hcond

/-- the same with the clamp `max(·, 0)` removed (the length is not negative) -/
theorem allMatchStep_none_iff' (P : Pattern) (seq : Bytes) (m : Hit) (hm1 : 1 ≤ P.patlen) (hc : P.patlen ≤ P.cpat.length) :
    allMatchStep P seq m = none ↔
      (m.2.2 > 0 ∧ P.hasIndel = true ∧ (seq.length : Int) < m.1 - m.2.2 * 2) := by
  rw [allMatchStep_none_iff P seq m hm1 hc]
  constructor
  · rintro ⟨h1, h2, h3⟩; exact ⟨h1, h2, by omega⟩
  · rintro ⟨h1, h2, h3⟩; exact ⟨h1, h2, by omega⟩

/-! ## 2. `AllMatches` panics iff a kept hit starts (margin `2k` removed) beyond the linear sequence -/

theorem allMatches_panic_iff_mapM (P : Pattern) (seq : Bytes) (circular : Bool) (begin length : Int) :
    allMatches P seq circular begin length = .panic ↔
      (filterBestMatch P seq circular begin length).mapM (allMatchStep P seq) = none := by
  unfold allMatches
  cases hm : (filterBestMatch P seq circular begin length).mapM (allMatchStep P seq) with
  | none => simp
  | some l => simp

/-- **`AllMatches` panics exactly when `FilterBestMatch` keeps a hit with `k > 0` errors, in indel mode, such that
`start - 2k > len(seq)`** — on a linear sequence there is none (`allMatches_no_panic`); on a circular one these are hits
lying entirely in the extension, at least `2k + 1` symbols after the origin: the second reports of hits of the first
`min(len, 64)` symbols (sample: `circular_allMatches_panics`). -/
theorem allMatches_panic_iff (P : Pattern) (seq : Bytes) (circular : Bool) (begin length : Int)
    (hm1 : 1 ≤ P.patlen) (hc : P.patlen ≤ P.cpat.length) :
    allMatches P seq circular begin length = .panic ↔
      ∃ h ∈ filterBestMatch P seq circular begin length,
        h.2.2 > 0 ∧ P.hasIndel = true ∧ (seq.length : Int) < h.1 - h.2.2 * 2 := by
  rw [allMatches_panic_iff_mapM, mapM_option_eq_none_iff]
  constructor
  · rintro ⟨h, hh, hn⟩
    exact ⟨h, hh, (allMatchStep_none_iff' P seq h hm1 hc).1 hn⟩
  · rintro ⟨h, hh, hn⟩
    exact ⟨h, hh, (allMatchStep_none_iff' P seq h hm1 hc).2 hn⟩

/-! ## 3. exact and mismatch-only mode: `AllMatches` is `FilterBestMatch` -/

/-- **in exact and mismatch-only mode `AllMatches` returns the list of `FilterBestMatch` unchanged**, on linear and on
circular sequences: no hit is re-aligned, and the final budget filter keeps everything (raw hits are within the budget).
The hits of the extension are reported as they are (end beyond `len(seq)`). -/
theorem allMatches_passthrough (P : Pattern) (seq : Bytes) (circular : Bool) (begin length : Int)
    (hmode : P.hasIndel = false ∨ P.maxerr = 0) :
    allMatches P seq circular begin length = .ok (filterBestMatch P seq circular begin length) := by
  have herr : ∀ h ∈ filterBestMatch P seq circular begin length, 0 ≤ h.2.2 ∧ h.2.2 ≤ (P.maxerr : Int) := by
    intro h hh
    have := findAllIndex_err_le P seq circular begin length h (filterBest_subset _ h hh)
    exact ⟨this.1, this.2.1⟩
  have hstep : ∀ h ∈ filterBestMatch P seq circular begin length, allMatchStep P seq h = some h := by
    intro h hh
    have hk := herr h hh
    unfold allMatchStep
    split
    · rename_i hcond
      simp only [Bool.and_eq_true, decide_eq_true_eq] at hcond
      rcases hmode with hi | h0
      · rw [hi] at hcond; exact absurd hcond.2 (by simp)
      · rw [h0] at hk; have := hcond.1; simp only [Int.natCast_zero] at hk; omega
    · rfl
  unfold allMatches
  rw [mapM_option_id _ _ hstep]
  simp only [Outcome.ok.injEq]
  apply List.filter_eq_self.2
  intro h hh
  have := (herr h hh).2
  simp only [ge_iff_le, decide_eq_true_eq]
  exact this

/-! ## 4. the affected class on a circular sequence -/

/-- **circular `AllMatches`, hit by hit.**  For a hit `h` kept by `FilterBestMatch` on a circular sequence:
* if it ends inside the linear part (`h.end ≤ len`) the iteration does not panic (and, re-aligned or not, behaves as on a
  linear sequence);
* if it has at least one error, in indel mode, and reaches into the circular extension (`len < h.end`: the AFFECTED
  class of D35), then either the iteration panics — exactly when `len < h.start - 2 h.err` — or the hit is replaced by a
  span `0 ≤ s ≤ e ≤ len` of the LINEAR sequence carrying its edit distance to the pattern string (`SpanDist`): the
  occurrence across the junction, whose end is beyond `len`, is never what is reported (`x.end < h.end`). -/
theorem allMatches_circular_step (P : Pattern) (seq : Bytes) (begin length : Int)
    (hm1 : 1 ≤ P.patlen) (hc : P.patlen ≤ P.cpat.length)
    (h : Hit) (hh : h ∈ filterBestMatch P seq true begin length) :
    ((h.2.1 ≤ (seq.length : Int)) → allMatchStep P seq h ≠ none) ∧
    (0 < h.2.2 → P.hasIndel = true → (seq.length : Int) < h.2.1 →
      (allMatchStep P seq h = none ∧ (seq.length : Int) < h.1 - h.2.2 * 2) ∨
      (h.1 - h.2.2 * 2 ≤ (seq.length : Int) ∧
        ∃ x, allMatchStep P seq h = some x ∧ 0 ≤ x.1 ∧ x.1 ≤ x.2.1 ∧ x.2.1 ≤ (seq.length : Int) ∧ x.2.1 < h.2.1 ∧
          SpanDist P seq x)) := by
  obtain ⟨hk0, _, hend⟩ := findAllIndex_err_le P seq true begin length h (filterBest_subset _ h hh)
  constructor
  · intro hin
    exact allMatchStep_ne_none P seq h hm1 hc (by omega) hk0
  · intro hk hi hout
    cases hs : allMatchStep P seq h with
    | none =>
      left
      exact ⟨rfl, ((allMatchStep_none_iff' P seq h hm1 hc).1 hs).2.2⟩
    | some x =>
      right
      constructor
      · apply Classical.byContradiction
        intro hn
        have := (allMatchStep_none_iff' P seq h hm1 hc).2 ⟨hk, hi, by omega⟩
        rw [this] at hs
        cases hs
      · rcases allMatchStep_spec P seq h x hs with ⟨_, hn⟩ | ⟨_, _, hsd⟩
        · exact absurd ⟨hk, hi⟩ hn
        · exact ⟨x, rfl, hsd.1, hsd.2.1, hsd.2.2.1, by have := hsd.2.2.1; omega, hsd⟩

/-! ## 5. `BestMatch` -/

theorem isEmpty_false_ne_nil {α : Type} (l : List α) (h : ¬ l.isEmpty = true) : l ≠ [] := by
  intro h0; apply h; rw [h0]; rfl

/-- facts about the selected hit -/
theorem bestOf_facts (P : Pattern) (seq : Bytes) (circular : Bool) (begin length : Int) (hmax : P.maxerr < 10000)
    (hne : findAllIndex P seq circular begin length ≠ []) :
    0 ≤ (bestOf (findAllIndex P seq circular begin length)).2.2 ∧
    1 ≤ (bestOf (findAllIndex P seq circular begin length)).2.1 ∧
    (bestOf (findAllIndex P seq circular begin length)).2.1 =
      (bestOf (findAllIndex P seq circular begin length)).1 + P.patlen := by
  have hlt : ∀ m ∈ findAllIndex P seq circular begin length, m.2.2 < 10000 := by
    intro m hm
    have := (findAllIndex_err_le P seq circular begin length m hm).2.1
    omega
  obtain ⟨hmem, _⟩ := bestOf_mem _ hlt hne
  have h1 := findAllIndex_err_le P seq circular begin length _ hmem
  have h2 := findAllIndex_end_pos P seq circular begin length _ hmem
  exact ⟨h1.1, h2, h1.2.2⟩

/-- the re-alignment slice of `BestMatch` is always legal once the guard has been passed -/
theorem bestMatch_slice_ok (seq : Bytes) (b1 b2 k : Int) (m : Nat) (hk : 0 < k) (he : b2 = b1 + m) (hpos : 1 ≤ b2)
    (hin : b2 ≤ (seq.length : Int)) :
    goSlice seq (max (b1 - k) 0) (min (b1 + m + k) seq.length) ≠ none := by
  intro h0
  apply (goSlice_eq_none_iff _ _ _).1 h0
  omega

/-- the body of `BestMatch` after the selection, as a function of the selected hit -/
def bestTail (P : Pattern) (seq : Bytes) (best : Hit) : Outcome (Int × Int × Int × Bool) :=
  if (best.1 < 0 && (best.2.2 == 0 || !P.hasIndel)) || best.2.1 > seq.length then .ok (0, best.2.1, best.2.2, false)
  else if best.2.2 == 0 || !P.hasIndel then .ok (best.1, best.2.1, best.2.2, true)
  else
    match goSlice seq (max (best.1 - best.2.2) 0) (min (best.1 + P.patlen + best.2.2) seq.length) with
    | none => .panic
    | some frg =>
      match locatePattern (P.cpat.take P.patlen) frg with
      | none => .panic
      | some (from_, to, score) =>
        .ok (max (best.1 - best.2.2) 0 + from_, max (best.1 - best.2.2) 0 + to, score, true)

theorem bestMatch_eq (P : Pattern) (seq : Bytes) (circular : Bool) (begin length : Int) :
    bestMatch P seq circular begin length =
      if (findAllIndex P seq circular begin length).isEmpty then .ok (0, 0, 0, false)
      else bestTail P seq (bestOf (findAllIndex P seq circular begin length)) := rfl

/-- `bestTail` on a hit that passes the guard: no panic, `matched = true` -/
theorem bestTail_matched (P : Pattern) (seq : Bytes) (best : Hit) (hm1 : 1 ≤ P.patlen) (hc : P.patlen ≤ P.cpat.length)
    (hk : 0 ≤ best.2.2) (hpos : 1 ≤ best.2.1) (he : best.2.1 = best.1 + P.patlen)
    (hg : ¬ ((best.1 < 0 ∧ (best.2.2 = 0 ∨ P.hasIndel = false)) ∨ (seq.length : Int) < best.2.1)) :
    ∃ s e k, bestTail P seq best = .ok (s, e, k, true) := by
  have hp := locPat_ne_nil_c P hm1 hc
  unfold bestTail
  split
  · rename_i hcond
    simp only [Bool.or_eq_true, Bool.and_eq_true, decide_eq_true_eq, beq_iff_eq, Bool.not_eq_true', gt_iff_lt] at hcond
    exact absurd hcond hg
  · split
    · exact ⟨_, _, _, rfl⟩
    · rename_i hmode
      simp only [Bool.or_eq_true, beq_iff_eq, Bool.not_eq_true', not_or] at hmode
      have hin : best.2.1 ≤ (seq.length : Int) := by
        apply Classical.byContradiction
        intro hn
        exact hg (Or.inr (by omega))
      have hsl := bestMatch_slice_ok seq best.1 best.2.1 best.2.2 P.patlen (by have := hmode.1; omega) he hpos hin
      cases hgs : goSlice seq (max (best.1 - best.2.2) 0) (min (best.1 + P.patlen + best.2.2) seq.length) with
      | none => exact absurd hgs hsl
      | some frg =>
        simp only
        cases hloc : locatePattern (P.cpat.take P.patlen) frg with
        | none => exact absurd hloc (locatePattern_ne_none _ _ hp)
        | some r =>
          obtain ⟨pb, pe, score⟩ := r
          exact ⟨_, _, _, rfl⟩

/-- `bestTail` on a hit that fails the guard -/
theorem bestTail_unmatched (P : Pattern) (seq : Bytes) (best : Hit)
    (hg : (best.1 < 0 ∧ (best.2.2 = 0 ∨ P.hasIndel = false)) ∨ (seq.length : Int) < best.2.1) :
    bestTail P seq best = .ok (0, best.2.1, best.2.2, false) := by
  unfold bestTail
  rw [if_pos]
  simp only [Bool.or_eq_true, Bool.and_eq_true, decide_eq_true_eq, beq_iff_eq, Bool.not_eq_true', gt_iff_lt]
  exact hg

/-- **`BestMatch` answers in every case** (linear or circular, every mode): either `matched = false` — exactly when
there is no raw hit, or the selected hit (the leftmost one of minimal error count, `bestOf_spec`) ends beyond the linear
sequence, or it has a negative start and is not going to be re-aligned — or `matched = true`; it never panics. -/
theorem bestMatch_cases (P : Pattern) (seq : Bytes) (circular : Bool) (begin length : Int)
    (hm1 : 1 ≤ P.patlen) (hc : P.patlen ≤ P.cpat.length) (hmax : P.maxerr < 10000) :
    let res := findAllIndex P seq circular begin length
    let bad := res = [] ∨ (seq.length : Int) < (bestOf res).2.1 ∨
      ((bestOf res).1 < 0 ∧ ((bestOf res).2.2 = 0 ∨ P.hasIndel = false))
    (bad ∧ ∃ s e k, bestMatch P seq circular begin length = .ok (s, e, k, false)) ∨
    (¬ bad ∧ ∃ s e k, bestMatch P seq circular begin length = .ok (s, e, k, true)) := by
  intro res bad
  rw [bestMatch_eq]
  by_cases hemp : (findAllIndex P seq circular begin length).isEmpty = true
  · rw [if_pos hemp]
    left
    exact ⟨Or.inl (List.isEmpty_iff.1 hemp), _, _, _, rfl⟩
  · rw [if_neg hemp]
    have hne : res ≠ [] := isEmpty_false_ne_nil _ hemp
    obtain ⟨hk, hpos, he⟩ := bestOf_facts P seq circular begin length hmax hne
    by_cases hg : ((bestOf res).1 < 0 ∧ ((bestOf res).2.2 = 0 ∨ P.hasIndel = false)) ∨ (seq.length : Int) < (bestOf res).2.1
    · left
      refine ⟨?_, _, _, _, bestTail_unmatched P seq _ hg⟩
      rcases hg with hg | hg
      · exact Or.inr (Or.inr hg)
      · exact Or.inr (Or.inl hg)
    · right
      refine ⟨?_, bestTail_matched P seq _ hm1 hc hk hpos he hg⟩
      rintro (h0 | h1 | h2)
      · exact hne h0
      · exact hg (Or.inr h1)
      · exact hg (Or.inl h2)

/-- `BestMatch` never panics, on linear and on circular sequences -/
theorem bestMatch_no_panic (P : Pattern) (seq : Bytes) (circular : Bool) (begin length : Int)
    (hm1 : 1 ≤ P.patlen) (hc : P.patlen ≤ P.cpat.length) (hmax : P.maxerr < 10000) :
    bestMatch P seq circular begin length ≠ .panic := by
  intro hp
  rcases bestMatch_cases P seq circular begin length hm1 hc hmax with ⟨_, s, e, k, h⟩ | ⟨_, s, e, k, h⟩
  · rw [h] at hp; cases hp
  · rw [h] at hp; cases hp

/-- **when `BestMatch` answers "no match"** (generic in `circular`): exactly when there is no raw hit, or the LEFTMOST
raw hit of minimal error count ends beyond the linear sequence (impossible on a linear sequence: `findAllIndex_bound`),
or that hit has a negative start and is not re-aligned. -/
theorem bestMatch_nomatch_iff (P : Pattern) (seq : Bytes) (circular : Bool) (begin length : Int)
    (hm1 : 1 ≤ P.patlen) (hc : P.patlen ≤ P.cpat.length) (hmax : P.maxerr < 10000) :
    (∃ s e k, bestMatch P seq circular begin length = .ok (s, e, k, false)) ↔
      (findAllIndex P seq circular begin length = [] ∨
        (seq.length : Int) < (bestOf (findAllIndex P seq circular begin length)).2.1 ∨
        ((bestOf (findAllIndex P seq circular begin length)).1 < 0 ∧
          ((bestOf (findAllIndex P seq circular begin length)).2.2 = 0 ∨ P.hasIndel = false))) := by
  rcases bestMatch_cases P seq circular begin length hm1 hc hmax with ⟨hb, hx⟩ | ⟨hb, s, e, k, h⟩
  · exact ⟨fun _ => hb, fun _ => hx⟩
  · constructor
    · rintro ⟨s', e', k', h'⟩
      rw [h] at h'
      simp only [Outcome.ok.injEq, Prod.mk.injEq] at h'
      exact absurd h'.2.2.2 (by simp)
    · intro hb'; exact absurd hb' hb

/-- **circular `BestMatch` (D35, exact form)**: it never panics, and it answers `matched = false` exactly when there is
no hit in the extended buffer, or the leftmost hit of minimal error count reaches into the circular extension — even if
other hits (with as many errors further right, or with more errors anywhere) lie inside the linear part, in EVERY mode —
or (third case) that hit has a negative start and is not re-aligned. -/
theorem bestMatch_circular_char (P : Pattern) (seq : Bytes) (begin length : Int)
    (hm1 : 1 ≤ P.patlen) (hc : P.patlen ≤ P.cpat.length) (hmax : P.maxerr < 10000) :
    let res := findAllIndex P seq true begin length
    bestMatch P seq true begin length ≠ .panic ∧
    ((∃ s e k, bestMatch P seq true begin length = .ok (s, e, k, false)) ↔
      (res = [] ∨ (seq.length : Int) < (bestOf res).2.1 ∨
        ((bestOf res).1 < 0 ∧ ((bestOf res).2.2 = 0 ∨ P.hasIndel = false)))) :=
  ⟨bestMatch_no_panic P seq true begin length hm1 hc hmax, bestMatch_nomatch_iff P seq true begin length hm1 hc hmax⟩

/-- on a linear sequence the second case does not occur -/
theorem bestMatch_linear_char (P : Pattern) (seq : Bytes) (begin length : Int)
    (hm1 : 1 ≤ P.patlen) (hc : P.patlen ≤ P.cpat.length) (hmax : P.maxerr < 10000) :
    let res := findAllIndex P seq false begin length
    bestMatch P seq false begin length ≠ .panic ∧
    ((∃ s e k, bestMatch P seq false begin length = .ok (s, e, k, false)) ↔
      (res = [] ∨ ((bestOf res).1 < 0 ∧ ((bestOf res).2.2 = 0 ∨ P.hasIndel = false)))) := by
  intro res
  refine ⟨bestMatch_no_panic P seq false begin length hm1 hc hmax, ?_⟩
  rw [bestMatch_nomatch_iff P seq false begin length hm1 hc hmax]
  constructor
  · rintro (h0 | h1 | h2)
    · exact Or.inl h0
    · by_cases hne : res = []
      · exact Or.inl hne
      · exfalso
        have hlt : ∀ m ∈ res, m.2.2 < 10000 := by
          intro m hm
          have := (findAllIndex_err_le P seq false begin length m hm).2.1
          omega
        obtain ⟨hmem, _⟩ := bestOf_mem res hlt hne
        have hb := findAllIndex_bound P seq begin length _ hmem
        have he := (findAllIndex_err_le P seq false begin length _ hmem).2.2
        have h1' : (seq.length : Int) < (bestOf res).2.1 := h1
        omega
    · exact Or.inr h2
  · rintro (h0 | h2)
    · exact Or.inl h0
    · exact Or.inr (Or.inr h2)

/-! ## 6. sample evaluations of the model (tests by `decide`, not proofs of general statements)

Pattern `ACGT`, budget 1.  The sequences have 70 symbols (so the extension is the first 64 symbols, the domain where the
model of `new_apatseq` is exact), plus two short ones (11 symbols, extended by the whole sequence).  Each result starts
with the check that the hypotheses `hm1`, `hc` of the theorems above hold for the compiled pattern. -/

/-- `at c⁶⁶ ac`: the only occurrence (`acat`, one mismatch) straddles the origin -/
def seqJunction : Bytes := [97, 116] ++ List.replicate 66 99 ++ [97, 99]
/-- `t¹⁰ ac t⁵⁸`: one occurrence with one error at positions 9/10, well inside the linear part -/
def seqInside : Bytes := List.replicate 10 116 ++ [97, 99] ++ List.replicate 58 116
/-- `gtttac t⁶² ac`: an exact occurrence across the origin, a one-error occurrence at positions 3/4 -/
def seqBoth : Bytes := [103, 116, 116, 116, 97, 99] ++ List.replicate 62 116 ++ [97, 99]

/-- the compiled pattern `ACGT` with budget `k`, handed to `f` -/
def withACGT {α : Type} (k : Nat) (indel : Bool) (f : Pattern → α) : Option α :=
  (compile ([65, 67, 71, 84] : Bytes) k indel).toOption.map f

/-- the hypotheses `hm1`, `hc`, `hmax` of the theorems of this file hold for the compiled pattern (both modes) -/
theorem withACGT_hyps :
    withACGT 1 true (fun P => decide (1 ≤ P.patlen ∧ P.patlen ≤ P.cpat.length ∧ P.maxerr < 10000 ∧ P.hasIndel = true))
      = some true ∧
    withACGT 1 false (fun P => decide (1 ≤ P.patlen ∧ P.patlen ≤ P.cpat.length ∧ P.maxerr < 10000 ∧ P.hasIndel = false))
      = some true ∧
    seqJunction.length = 70 ∧ seqInside.length = 70 ∧ seqBoth.length = 70 := by
  refine ⟨?_, ?_, ?_, ?_, ?_⟩ <;> decide

set_option maxRecDepth 100000 in
/-- **(i) dropped**: indel mode, circular; `FindAllIndex` reports the junction occurrence `(68, 72, 1)`, `FilterBestMatch`
keeps it, `AllMatches` re-aligns it on `seq[66:70]` (error count 2 > budget) and returns nothing; `BestMatch` answers
`matched = false` -/
theorem circular_junction_hit_dropped :
    withACGT 1 true (fun P => findAllIndex P seqJunction true 0 (-1)) = some [(68, 72, 1)] ∧
    withACGT 1 true (fun P => filterBestMatch P seqJunction true 0 (-1)) = some [(68, 72, 1)] ∧
    withACGT 1 true (fun P => allMatches P seqJunction true 0 (-1)) = some (.ok []) ∧
    withACGT 1 true (fun P => bestMatch P seqJunction true 0 (-1)) = some (.ok (0, 72, 1, false)) := by
  refine ⟨?_, ?_, ?_, ?_⟩ <;> decide

set_option maxRecDepth 100000 in
/-- the same on 11 symbols (`at c⁷ ac`, extended by the whole sequence) -/
theorem circular_junction_hit_dropped_short :
    withACGT 1 true (fun P => findAllIndex P ([97, 116, 99, 99, 99, 99, 99, 99, 99, 97, 99] : Bytes) true 0 (-1))
      = some [(9, 13, 1)] ∧
    withACGT 1 true (fun P => allMatches P ([97, 116, 99, 99, 99, 99, 99, 99, 99, 97, 99] : Bytes) true 0 (-1))
      = some (.ok []) := by
  refine ⟨?_, ?_⟩ <;> decide

set_option maxRecDepth 100000 in
/-- **(ii) panic**: indel mode.  The occurrence lies INSIDE the linear part (positions 9/10); on the linear sequence
`AllMatches` returns it; on the circular sequence the extension reports it a second time at `79 = 70 + 9`,
`FilterBestMatch` keeps `(79, 83, 1)`, and `79 - 2 = 77 > 70`: the slice expression `seq[77:70]` panics
(`allMatches_panic_iff`).  So a circular sequence of at least 64 symbols with an errorful kept hit starting in
`(2k, 64 - patlen]` makes indel-mode `AllMatches` panic — not only occurrences across the junction are concerned. -/
theorem circular_allMatches_panics :
    withACGT 1 true (fun P => allMatches P seqInside false 0 (-1)) = some (.ok [(10, 14, 1)]) ∧
    withACGT 1 true (fun P => filterBestMatch P seqInside true 0 (-1)) = some [(9, 13, 1), (79, 83, 1)] ∧
    withACGT 1 true (fun P => allMatches P seqInside true 0 (-1)) = some .panic ∧
    withACGT 1 true (fun P => bestMatch P seqInside true 0 (-1)) = some (.ok (10, 14, 1, true)) := by
  refine ⟨?_, ?_, ?_, ?_⟩ <;> decide

set_option maxRecDepth 100000 in
/-- the three outcomes of `allMatches_circular_step` on samples: the junction hit `(68, 72, 1)` is replaced by the span
`(68, 70, 2)` of the linear sequence (then dropped: 2 > budget); the second report `(79, 83, 1)` panics; the first report
`(9, 13, 1)`, inside, is re-aligned as on a linear sequence -/
theorem circular_step_samples :
    withACGT 1 true (fun P => allMatchStep P seqJunction (68, 72, 1)) = some (some (68, 70, 2)) ∧
    withACGT 1 true (fun P => allMatchStep P seqInside (79, 83, 1)) = some none ∧
    withACGT 1 true (fun P => allMatchStep P seqInside (9, 13, 1)) = some (some (10, 14, 1)) := by
  refine ⟨?_, ?_, ?_⟩ <;> decide

set_option maxRecDepth 100000 in
/-- the same on 11 symbols (`t⁴ ac t⁵`, extended by the whole sequence): kept hit `(14, 18, 1)`, `14 - 2 = 12 > 11` -/
theorem circular_allMatches_panics_short :
    withACGT 1 true (fun P => filterBestMatch P ([116, 116, 116, 116, 97, 99, 116, 116, 116, 116, 116] : Bytes) true 0 (-1))
      = some [(3, 7, 1), (14, 18, 1)] ∧
    withACGT 1 true (fun P => allMatches P ([116, 116, 116, 116, 97, 99, 116, 116, 116, 116, 116] : Bytes) true 0 (-1))
      = some .panic := by
  refine ⟨?_, ?_⟩ <;> decide

set_option maxRecDepth 100000 in
/-- **(iii) `BestMatch` misses the inside hit**, in indel AND in mismatch-only mode: the exact occurrence across the
origin `(68, 72, 0)` is the best hit, it ends beyond 70, the answer is `matched = false` although `(3, 7, 1)` /
`(4, 8, 1)` lie inside (on the linear sequence `BestMatch` reports `(4, 8, 1)`).  In mismatch-only mode `AllMatches`
returns the raw kept hits, those of the extension included (`allMatches_passthrough`); in indel mode it panics
(`(73, 77, 1)` is the second report of `(3, 7, 1)`). -/
theorem circular_bestMatch_misses_inside_hit :
    withACGT 1 true (fun P => findAllIndex P seqBoth true 0 (-1))
      = some [(3, 7, 1), (4, 8, 1), (67, 71, 1), (68, 72, 0), (69, 73, 1), (73, 77, 1), (74, 78, 1)] ∧
    withACGT 1 true (fun P => bestMatch P seqBoth true 0 (-1)) = some (.ok (0, 72, 0, false)) ∧
    withACGT 1 true (fun P => bestMatch P seqBoth false 0 (-1)) = some (.ok (4, 8, 1, true)) ∧
    withACGT 1 true (fun P => allMatches P seqBoth true 0 (-1)) = some .panic ∧
    withACGT 1 false (fun P => findAllIndex P seqBoth true 0 (-1)) = some [(4, 8, 1), (68, 72, 0), (74, 78, 1)] ∧
    withACGT 1 false (fun P => bestMatch P seqBoth true 0 (-1)) = some (.ok (0, 72, 0, false)) ∧
    withACGT 1 false (fun P => bestMatch P seqBoth false 0 (-1)) = some (.ok (4, 8, 1, true)) ∧
    withACGT 1 false (fun P => allMatches P seqBoth true 0 (-1)) = some (.ok [(4, 8, 1), (68, 72, 0), (74, 78, 1)]) := by
  refine ⟨?_, ?_, ?_, ?_, ?_, ?_, ?_, ?_⟩ <;> decide

end ObiVerif.Apat
