import ObiVerif.Lemmas.LcsBand
import ObiVerif.Lemmas.LcsSentinel
/-!
# C09: the TRUE length frontier of the banded LCS kernel (endgapfree = false)

The theorems of Lemmas/Lcs.lean / LcsBand.lean assume `|a| + |b| < 30000` because their soundness invariant `Good`
lets an out-of-band cell hold any length up to `30000 + i + j`. Here the invariant is sharpened by the SHAPE of the
band: every cell strictly inside the band holds an in-band word, every cell of the two border diagonals the `_setout`
of one, and both are REALISED by an alignment of the prefixes (`RealC`); `_out` itself is never stored and never
incremented. Then the only constraints left are the ones the representation really has:
* a first-row cell `(0, j)` that the band contains must win against `_notavail`: `j ≤ 30000` — holds when
  `|A| ≤ 30000`, or when the band is narrow (`hi = 2(e+1) ≤ 30000`); same for the first column;
* the 16-bit inverted length field: `|a| + |b| ≤ 65534`.
`LenOK` is that condition; `bandLCS_sound_long`, `bandLCS_exact_long`, `bandLCS_beyond_long`,
`bandLCS_within_is_opt_long` restate soundness / exactness / beyond under it. Beyond it the kernel is really wrong
(`bandLCS_long_row0` of Lemmas/LcsSentinel.lean: every `A` with `30000 < |A| ≤ 65534` against the empty sequence).
-/
namespace ObiVerif.Lcs

variable (m : UInt8 → UInt8 → Bool)

/-- a cell of the band (`lo ≤ j - i ≤ hi`) holds a realised word, in-band when strictly inside -/
def RealC (lo hi : Int) (pa pb : Seq) (v : UInt64) : Prop :=
  lo ≤ (pa.length : Int) - (pb.length : Int) → (pa.length : Int) - (pb.length : Int) ≤ hi →
    ∃ s l o, v = encodeValues s l o ∧ Ali m pa pb s l ∧
      (lo < (pa.length : Int) - (pb.length : Int) → (pa.length : Int) - (pb.length : Int) < hi → o = false)

theorem enc_ge_in {s l s0 l0 : Nat} {o0 : Bool} (hs : s < 65536) (hs0 : s0 < 65536) (hl : l ≤ 65534) (hl0 : l0 ≤ 65534)
    (h : encodeValues s l false ≤ encodeValues s0 l0 o0) : o0 = false ∧ (s < s0 ∨ (s = s0 ∧ l0 ≤ l)) := by
  cases o0 with
  | true =>
    exfalso
    have hlt := encode_out_lt_in s0 l0 s l hs0 hs hl0 hl
    rw [UInt64.le_iff_toNat_le] at h
    rw [UInt64.lt_iff_toNat_lt] at hlt
    omega
  | false =>
    rw [encode_le_iff s l s0 l0 false hs hs0 hl hl0] at h
    exact ⟨rfl, h⟩

theorem outV_not_ge_in {s l : Nat} (hs : s < 65536) (hl : l ≤ 65534) : ¬ (encodeValues s l false ≤ outV) := by
  intro h
  have hlt : outV < encodeValues s l false := encode_out_lt_in 0 30000 s l (by omega) hs (by omega) hl
  rw [UInt64.le_iff_toNat_le] at h
  rw [UInt64.lt_iff_toNat_lt] at hlt
  omega

theorem diag_enc (c : Bool) (s l : Nat) (o : Bool) (hs : s + 1 < 65536) (hl : l + 1 ≤ 65534) :
    (if c then incscore (incpath (encodeValues s l o)) else incpath (encodeValues s l o)) =
      encodeValues (s + (if c then 1 else 0)) (l + 1) o := by
  rw [incpath_encode s l o (by omega) hl]
  cases c with
  | true => simp only [if_true]; rw [incscore_encode s (l + 1) o hs (by omega)]
  | false => simp

theorem pick_row0_le (j : Nat) (hj : j ≤ 30000) :
    (pick notavailV notavailV (encodeValues 0 j false)).1 = encodeValues 0 j false := by
  by_cases h : j < 30000
  · exact pick_row0 j h
  · have : j = 30000 := by omega
    subst this; decide

theorem pick_col0_le (i : Nat) (hi : i ≤ 30000) :
    (pick notavailV (encodeValues 0 i false) notavailV).1 = encodeValues 0 i false := by
  by_cases h : i < 30000
  · exact pick_col0 i h
  · have : i = 30000 := by omega
    subst this; decide

/-- the result of the selection of an interior band cell: an in-band realised word, above the three candidates -/
theorem bandCell_pick_real (lo hi : Int) (h0 : lo < 0) (h1 : 0 < hi) {pa pb : Seq} (x y : UInt8)
    {diag up left : UInt64} (hN : pa.length + pb.length + 2 ≤ 65534)
    (hlo : lo ≤ (pa.length : Int) - (pb.length : Int)) (hhi : (pa.length : Int) - (pb.length : Int) ≤ hi)
    (hd : RealC m lo hi pa pb diag) (hu : RealC m lo hi (x :: pa) pb up) (hl : RealC m lo hi pa (y :: pb) left) :
    ∃ s l, (pick (if m x y then incscore (incpath diag) else incpath diag)
              (if (pa.length : Int) - (pb.length : Int) < hi then incpath up else outV)
              (if (pa.length : Int) - (pb.length : Int) > lo then incpath left else outV)).1 = encodeValues s l false ∧
      Ali m (x :: pa) (y :: pb) s l := by
  -- candidates: realised words or `_out`
  let P : UInt64 → Prop := fun w => (∃ s l o, w = encodeValues s l o ∧ Ali m (x :: pa) (y :: pb) s l) ∨ w = outV
  obtain ⟨sd, ld, od, hdv, had, hod⟩ := hd hlo hhi
  have hbd := had.bounds m
  have c1 : (if m x y then incscore (incpath diag) else incpath diag) =
      encodeValues (sd + (if m x y then 1 else 0)) (ld + 1) od := by
    rw [hdv]; exact diag_enc _ sd ld od (by omega) (by omega)
  have p1 : P (if m x y then incscore (incpath diag) else incpath diag) :=
    .inl ⟨_, _, od, c1, Ali.pair x y had⟩
  have p2 : P (if (pa.length : Int) - (pb.length : Int) < hi then incpath up else outV) := by
    split
    · obtain ⟨su, lu, ou, huv, hau, _⟩ := hu (by simp only [List.length_cons]; omega) (by simp only [List.length_cons]; omega)
      have hb := hau.bounds m
      simp only [List.length_cons] at hb
      rw [huv, incpath_encode su lu ou (by omega) (by omega)]
      exact .inl ⟨su, lu + 1, ou, rfl, Ali.gapA y hau⟩
    · exact .inr rfl
  have p3 : P (if (pa.length : Int) - (pb.length : Int) > lo then incpath left else outV) := by
    split
    · obtain ⟨sl, ll, ol, hlv, hal, _⟩ := hl (by simp only [List.length_cons]; omega) (by simp only [List.length_cons]; omega)
      have hb := hal.bounds m
      simp only [List.length_cons] at hb
      rw [hlv, incpath_encode sl ll ol (by omega) (by omega)]
      exact .inl ⟨sl, ll + 1, ol, rfl, Ali.gapB x hal⟩
    · exact .inr rfl
  have pr := pick_mem P p1 p2 p3
  have pg := pick_ge (if m x y then incscore (incpath diag) else incpath diag)
    (if (pa.length : Int) - (pb.length : Int) < hi then incpath up else outV)
    (if (pa.length : Int) - (pb.length : Int) > lo then incpath left else outV)
  -- one candidate is in-band
  have hin : ∃ s' l', s' < 65536 ∧ l' ≤ 65534 ∧ encodeValues s' l' false ≤
      (pick (if m x y then incscore (incpath diag) else incpath diag)
        (if (pa.length : Int) - (pb.length : Int) < hi then incpath up else outV)
        (if (pa.length : Int) - (pb.length : Int) > lo then incpath left else outV)).1 := by
    by_cases e1 : (pa.length : Int) - (pb.length : Int) = hi
    · -- right border: the left neighbour is strictly inside
      have hgt : (pa.length : Int) - (pb.length : Int) > lo := by omega
      obtain ⟨sl, ll, ol, hlv, hal, hol⟩ := hl (by simp only [List.length_cons]; omega) (by simp only [List.length_cons]; omega)
      have hb := hal.bounds m
      simp only [List.length_cons] at hb hol
      have : ol = false := hol (by omega) (by omega)
      subst this
      refine ⟨sl, ll + 1, by omega, by omega, ?_⟩
      have e : (if (pa.length : Int) - (pb.length : Int) > lo then incpath left else outV) =
          encodeValues sl (ll + 1) false := by
        rw [if_pos hgt, hlv, incpath_encode sl ll false (by omega) (by omega)]
      rw [← e]; exact pg.2.2
    · by_cases e2 : (pa.length : Int) - (pb.length : Int) = lo
      · have hlt : (pa.length : Int) - (pb.length : Int) < hi := by omega
        obtain ⟨su, lu, ou, huv, hau, hou⟩ := hu (by simp only [List.length_cons]; omega) (by simp only [List.length_cons]; omega)
        have hb := hau.bounds m
        simp only [List.length_cons] at hb hou
        have : ou = false := hou (by omega) (by omega)
        subst this
        refine ⟨su, lu + 1, by omega, by omega, ?_⟩
        have e : (if (pa.length : Int) - (pb.length : Int) < hi then incpath up else outV) =
            encodeValues su (lu + 1) false := by
          rw [if_pos hlt, huv, incpath_encode su lu false (by omega) (by omega)]
        rw [← e]; exact pg.2.1
      · have : od = false := hod (by omega) (by omega)
        subst this
        refine ⟨sd + (if m x y then 1 else 0), ld + 1, by split <;> omega, by omega, ?_⟩
        rw [← c1]; exact pg.1
  obtain ⟨s', l', hs', hl', hge⟩ := hin
  rcases pr with ⟨s, l, o, hv, ha⟩ | hv
  · have hb := ha.bounds m
    simp only [List.length_cons] at hb
    rw [hv] at hge
    have := (enc_ge_in hs' (by omega) hl' (by omega) hge).1
    subst this
    exact ⟨s, l, hv, ha⟩
  · rw [hv] at hge
    exact absurd hge (outV_not_ge_in hs' hl')

theorem bandCell_real (lo hi : Int) (h0 : lo < 0) (h1 : 0 < hi) {pa pb : Seq} (x y : UInt8)
    {diag up left : UInt64} (hN : pa.length + pb.length + 2 ≤ 65534)
    (hd : RealC m lo hi pa pb diag) (hu : RealC m lo hi (x :: pa) pb up) (hl : RealC m lo hi pa (y :: pb) left) :
    RealC m lo hi (x :: pa) (y :: pb) (bandCell lo hi (pb.length + 1) (pa.length + 1) (m x y) diag up left) := by
  intro hlo hhi
  simp only [List.length_cons] at hlo hhi ⊢
  have hi0 : ¬ pb.length + 1 = 0 := by omega
  have hj0 : ¬ pa.length + 1 = 0 := by omega
  have ed : ((pa.length + 1 : Nat) : Int) - ((pb.length + 1 : Nat) : Int) = (pa.length : Int) - (pb.length : Int) := by
    omega
  obtain ⟨s, l, hv, ha⟩ := bandCell_pick_real m lo hi h0 h1 x y hN (by omega) (by omega) hd hu hl
  have hb := ha.bounds m
  simp only [List.length_cons] at hb
  unfold bandCell
  simp only [if_neg hi0, if_neg hj0, ed]
  rw [hv]
  split
  · rename_i hedge
    rw [setout_encode s l false (by omega) (by omega)]
    exact ⟨s, l, true, rfl, ha, fun p q => by omega⟩
  · exact ⟨s, l, false, rfl, ha, fun _ _ => rfl⟩

theorem bandCell_row0_real (lo hi : Int) (pa : Seq) (hj : (pa.length : Int) ≤ hi → pa.length ≤ 30000) :
    RealC m lo hi pa [] (bandCell lo hi 0 pa.length false 0 0 0) := by
  intro hlo hhi
  simp only [List.length_nil] at hlo hhi ⊢
  have hj' := hj (by omega)
  unfold bandCell
  simp only [if_true]
  rw [pick_row0_le _ hj']
  split
  · rw [setout_encode 0 pa.length false (by omega) (by omega)]
    exact ⟨0, pa.length, true, rfl, Ali.nil_right m pa, fun p q => by omega⟩
  · exact ⟨0, pa.length, false, rfl, Ali.nil_right m pa, fun _ _ => rfl⟩

theorem bandCell_col0_real (lo hi : Int) (pb : Seq) (hne : pb ≠ []) (hi' : lo ≤ -(pb.length : Int) → pb.length ≤ 30000) :
    RealC m lo hi [] pb (bandCell lo hi pb.length 0 false 0 0 0) := by
  intro hlo hhi
  simp only [List.length_nil] at hlo hhi ⊢
  have hi'' := hi' (by omega)
  have hz : ¬ pb.length = 0 := fun e => hne (List.eq_nil_of_length_eq_zero e)
  unfold bandCell
  simp only [if_neg hz, if_true]
  rw [pick_col0_le _ hi'']
  split
  · rw [setout_encode 0 pb.length false (by omega) (by omega)]
    exact ⟨0, pb.length, true, rfl, Ali.nil_left m pb, fun p q => by omega⟩
  · exact ⟨0, pb.length, false, rfl, Ali.nil_left m pb, fun _ _ => rfl⟩

/-! ## the lower bound, from `RealC` neighbours -/

theorem real_ge_in {lo hi : Int} {pa pb : Seq} {v : UInt64} {s l : Nat} (hN : pa.length + pb.length ≤ 65534)
    (hlo : lo ≤ (pa.length : Int) - (pb.length : Int)) (hhi : (pa.length : Int) - (pb.length : Int) ≤ hi)
    (hg : RealC m lo hi pa pb v) (ha : Ali m pa pb s l) (h : encodeValues s l false ≤ v) :
    ∃ s0 l0, v = encodeValues s0 l0 false ∧ Ali m pa pb s0 l0 ∧ (s < s0 ∨ (s = s0 ∧ l0 ≤ l)) := by
  obtain ⟨s0, l0, o0, rfl, ha0, _⟩ := hg hlo hhi
  have hb := ha.bounds m
  have hb0 := ha0.bounds m
  obtain ⟨ho, hc⟩ := enc_ge_in (by omega) (by omega) (by omega) (by omega) h
  subst ho
  exact ⟨s0, l0, rfl, ha0, hc⟩

theorem bandCell_lb_long (lo hi : Int) (pa pb : Seq) (x y : UInt8) (diag up left : UInt64)
    (hN : pa.length + pb.length + 2 ≤ 65534)
    (gd : RealC samenuc lo hi pa pb diag) (gu : RealC samenuc lo hi (x :: pa) pb up)
    (gl : RealC samenuc lo hi pa (y :: pb) left)
    (ld : LB samenuc lo hi pa pb diag) (lu : LB samenuc lo hi (x :: pa) pb up)
    (ll : LB samenuc lo hi pa (y :: pb) left) :
    LB samenuc lo hi (x :: pa) (y :: pb)
      (bandCell lo hi (pb.length + 1) (pa.length + 1) (samenuc x y) diag up left) := by
  intro s l h
  have hi0 : ¬ pb.length + 1 = 0 := by omega
  have hj0 : ¬ pa.length + 1 = 0 := by omega
  have hin : lo < ((pa.length + 1 : Nat) : Int) - ((pb.length + 1 : Nat) : Int) ∧
      ((pa.length + 1 : Nat) : Int) - ((pb.length + 1 : Nat) : Int) < hi := by
    cases h with
    | gapB _ _ p q => simp only [List.length_cons] at p q; exact ⟨p, q⟩
    | gapA _ _ p q => simp only [List.length_cons] at p q; exact ⟨p, q⟩
    | pair _ _ _ p q => exact ⟨p, q⟩
  have hedge : ¬ (((pa.length + 1 : Nat) : Int) - ((pb.length + 1 : Nat) : Int) = lo ∨
      ((pa.length + 1 : Nat) : Int) - ((pb.length + 1 : Nat) : Int) = hi) := by omega
  unfold bandCell
  simp only [if_neg hi0, if_neg hj0, if_neg hedge, if_pos hin.1, if_pos hin.2]
  have pg := pick_ge (if samenuc x y then incscore (incpath diag) else incpath diag) (incpath up) (incpath left)
  cases h with
  | gapB _ h' p q =>
    have ha := h'.toAli samenuc
    have hb := ha.bounds samenuc
    simp only [List.length_cons] at hb
    obtain ⟨s0, l0, rfl, ha0, hc⟩ := real_ge_in samenuc (by simp only [List.length_cons]; omega)
      (by simp only [List.length_cons]; omega) (by simp only [List.length_cons]; omega) gl ha (ll _ _ h')
    have hb0 := ha0.bounds samenuc
    simp only [List.length_cons] at hb0
    refine UInt64.le_trans ?_ pg.2.2
    rw [incpath_encode s0 l0 false (by omega) (by omega),
      encode_le_iff _ _ _ _ false (by omega) (by omega) (by omega) (by omega)]
    omega
  | gapA _ h' p q =>
    have ha := h'.toAli samenuc
    have hb := ha.bounds samenuc
    simp only [List.length_cons] at hb
    obtain ⟨s0, l0, rfl, ha0, hc⟩ := real_ge_in samenuc (by simp only [List.length_cons]; omega)
      (by simp only [List.length_cons]; omega) (by simp only [List.length_cons]; omega) gu ha (lu _ _ h')
    have hb0 := ha0.bounds samenuc
    simp only [List.length_cons] at hb0
    refine UInt64.le_trans ?_ pg.2.1
    rw [incpath_encode s0 l0 false (by omega) (by omega),
      encode_le_iff _ _ _ _ false (by omega) (by omega) (by omega) (by omega)]
    omega
  | pair _ _ h' p q =>
    have ha := h'.toAli samenuc
    have hb := ha.bounds samenuc
    obtain ⟨s0, l0, rfl, ha0, hc⟩ := real_ge_in samenuc (by omega) (by omega) (by omega) gd ha (ld _ _ h')
    have hb0 := ha0.bounds samenuc
    refine UInt64.le_trans ?_ pg.1
    rw [diag_enc _ s0 l0 false (by omega) (by omega)]
    rw [encode_le_iff _ _ _ _ false (by split <;> omega) (by split <;> omega) (by omega) (by omega)]
    split <;> omega

theorem bandCell_row0_lb_long (lo hi : Int) (h0 : lo < 0) (h1 : 0 < hi) (pa : Seq)
    (hj : (pa.length : Int) ≤ hi → pa.length ≤ 30000) :
    LB samenuc lo hi pa [] (bandCell lo hi 0 pa.length false 0 0 0) := by
  intro s l h
  have hin := h.inside samenuc h0 h1
  have hsl := Ali.of_nil_right samenuc (h.toAli samenuc)
  simp only [List.length_nil] at hin
  have hedge : ¬ (((pa.length : Nat) : Int) - ((0 : Nat) : Int) = lo ∨
      ((pa.length : Nat) : Int) - ((0 : Nat) : Int) = hi) := by omega
  unfold bandCell
  simp only [if_true, if_neg hedge]
  rw [pick_row0_le _ (hj (by omega)), hsl.1, hsl.2]
  exact UInt64.le_refl _

theorem bandCell_col0_lb_long (lo hi : Int) (h0 : lo < 0) (h1 : 0 < hi) (pb : Seq) (hne : pb ≠ [])
    (hi' : lo ≤ -(pb.length : Int) → pb.length ≤ 30000) :
    LB samenuc lo hi [] pb (bandCell lo hi pb.length 0 false 0 0 0) := by
  intro s l h
  have hin := h.inside samenuc h0 h1
  have hsl := Ali.of_nil_left samenuc (h.toAli samenuc)
  simp only [List.length_nil] at hin
  have hz : ¬ pb.length = 0 := fun e => hne (List.eq_nil_of_length_eq_zero e)
  have hedge : ¬ (((0 : Nat) : Int) - ((pb.length : Nat) : Int) = lo ∨
      ((0 : Nat) : Int) - ((pb.length : Nat) : Int) = hi) := by omega
  unfold bandCell
  simp only [if_neg hz, if_true, if_neg hedge]
  rw [pick_col0_le _ (hi' (by omega)), hsl.1, hsl.2]
  exact UInt64.le_refl _

/-- the band `(lo, hi)` and the lengths are within what the sentinel and the 16-bit length field allow -/
def BandLenOK (lo hi : Int) (lA lB : Nat) : Prop :=
  lo < 0 ∧ 0 < hi ∧ lA + lB ≤ 65534 ∧ (∀ j : Nat, j ≤ lA → (j : Int) ≤ hi → j ≤ 30000) ∧
    (∀ i : Nat, i ≤ lB → lo ≤ -(i : Int) → i ≤ 30000)

/-- the last cell is realised and above every in-band alignment of the two sequences -/
theorem bandLast_real_lb (lo hi : Int) (A B : Seq) (hg : BandLenOK lo hi A.length B.length) :
    RealC samenuc lo hi A.reverse B.reverse ((bandLast lo hi A B).getLastD 0) ∧
      LB samenuc lo hi A.reverse B.reverse ((bandLast lo hi A B).getLastD 0) := by
  obtain ⟨h0, h1, hN, hr, hc⟩ := hg
  refine bandLast_gen (fun pa pb v => RealC samenuc lo hi pa pb v ∧ LB samenuc lo hi pa pb v) A.length B.length lo hi
    ?_ ?_ ?_ A B (Nat.le_refl _) (Nat.le_refl _)
  · intro pa pb x y diag up left hpa hpb hd hu hl
    exact ⟨bandCell_real samenuc lo hi h0 h1 x y (by omega) hd.1 hu.1 hl.1,
      bandCell_lb_long lo hi pa pb x y diag up left (by omega) hd.1 hu.1 hl.1 hd.2 hu.2 hl.2⟩
  · intro pa hpa
    exact ⟨bandCell_row0_real samenuc lo hi pa (hr _ hpa), bandCell_row0_lb_long lo hi h0 h1 pa (hr _ hpa)⟩
  · intro pb hpb hne
    exact ⟨bandCell_col0_real samenuc lo hi pb hne (hc _ hpb), bandCell_col0_lb_long lo hi h0 h1 pb hne (hc _ hpb)⟩

/-- the last cell, when the end diagonal is strictly inside the band: an in-band realised word -/
theorem bandLast_value (lo hi : Int) (A B : Seq) (hg : BandLenOK lo hi A.length B.length)
    (hd : lo < (A.length : Int) - (B.length : Int) ∧ (A.length : Int) - (B.length : Int) < hi) :
    ∃ s l, (bandLast lo hi A B).getLastD 0 = encodeValues s l false ∧ Ali samenuc A B s l ∧
      ∀ s' l', AliIn samenuc lo hi A.reverse B.reverse s' l' → (s' < s ∨ (s' = s ∧ l ≤ l')) := by
  obtain ⟨hr, hl⟩ := bandLast_real_lb lo hi A B hg
  obtain ⟨s, l, o, hv, ha, ho⟩ := hr (by simp; omega) (by simp; omega)
  have : o = false := ho (by simp; omega) (by simp; omega)
  subst this
  refine ⟨s, l, hv, ha.of_reverse samenuc, fun s' l' h' => ?_⟩
  have hb := ha.bounds samenuc
  have hb' := (h'.toAli samenuc).bounds samenuc
  simp only [List.length_reverse] at hb hb'
  have hN := hg.2.2.1
  have := hl s' l' h'
  rw [hv] at this
  exact (enc_ge_in (by omega) (by omega) (by omega) (by omega) this).2

/-! ## the band of `FastLCSEGFScoreByte` -/

/-- **the length condition**: the 16-bit length field holds `|a| + |b|`, and either both sequences are at most as
long as the sentinel length 30000, or the bound is explicit and at most 14999 (then the band reaches neither column
30000 of the first row nor row 30000 of the first column) -/
def LenOK (lA lB : Nat) (e : Int) : Prop :=
  lA + lB ≤ 65534 ∧ ((lA ≤ 30000 ∧ lB ≤ 30000) ∨ (e ≠ -1 ∧ e ≤ 14999))

instance (lA lB : Nat) (e : Int) : Decidable (LenOK lA lB e) := by unfold LenOK; exact inferInstance

/-- the old hypothesis implies the new one -/
theorem LenOK.of_sum {lA lB : Nat} (h : lA + lB + 1 ≤ 30000) (e : Int) : LenOK lA lB e :=
  ⟨by omega, .inl ⟨by omega, by omega⟩⟩

theorem bandGeo_eq (lA lB : Nat) (e : Int) :
    bandGeo lA lB e =
      (if (lA : Int) - (lB : Int) > (if e = -1 then 2 * (lA : Int) else e) then none else
        some (-(2 * ((if e = -1 then 2 * (lA : Int) else e) - ((lA : Int) - (lB : Int)) + 1)),
              2 * ((if e = -1 then 2 * (lA : Int) else e) + 1))) := by
  unfold bandGeo
  have hbeq : (if (e == -1) = true then 2 * (lA : Int) else e) = (if e = -1 then 2 * (lA : Int) else e) := by
    by_cases c : e = -1 <;> simp [c]
  simp only [hbeq]
  generalize (if e = -1 then 2 * (lA : Int) else e) = e1
  split
  · rfl
  · congr 2; omega

theorem bandGeo_ok {lA lB : Nat} {e : Int} (hAB : lB ≤ lA) (hok : LenOK lA lB e) {g : Int × Int}
    (hg : bandGeo lA lB e = some g) :
    BandLenOK g.1 g.2 lA lB ∧ g.1 < (lA : Int) - (lB : Int) ∧ (lA : Int) - (lB : Int) < g.2 ∧
      g.1 = -(2 * ((if e = -1 then 2 * (lA : Int) else e) - ((lA : Int) - (lB : Int)) + 1)) ∧
      g.2 = 2 * ((if e = -1 then 2 * (lA : Int) else e) + 1) := by
  rw [bandGeo_eq] at hg
  have he1 : e ≠ -1 → (if e = -1 then 2 * (lA : Int) else e) = e := fun c => if_neg c
  generalize (if e = -1 then 2 * (lA : Int) else e) = e1 at hg he1 ⊢
  split at hg
  · cases hg
  · rename_i hd
    injection hg with hg
    subst hg
    simp only []
    obtain ⟨hN, hcase⟩ := hok
    refine ⟨⟨by omega, by omega, hN, fun j hj hjh => ?_, fun i hi hil => ?_⟩, by omega, by omega, by first | rfl | trivial, by first | rfl | trivial⟩
    · rcases hcase with h | h
      · omega
      · have := he1 h.1; omega
    · rcases hcase with h | h
      · omega
      · have := he1 h.1; omega

theorem bandLCSAB_sound_long (A B : Seq) (e : Int) (s l : Nat) (hAB : B.length ≤ A.length)
    (hok : LenOK A.length B.length e) (h : bandLCSAB A B e = some (s, l)) : Ali samenuc A B s l := by
  unfold bandLCSAB at h
  split at h
  · cases h
  · rename_i g hg
    obtain ⟨hgeo, hd1, hd2, _, _⟩ := bandGeo_ok hAB hok hg
    obtain ⟨s0, l0, hv, ha, _⟩ := bandLast_value g.1 g.2 A B hgeo ⟨hd1, hd2⟩
    have hb := ha.bounds samenuc
    have hN := hok.1
    rw [hv] at h
    unfold bandResult at h
    rw [decode_encode s0 l0 false (by omega) (by omega)] at h
    simp at h
    rw [← h.1, ← h.2]; exact ha

/-- an alignment `(s', l')` of `A`, `B` whose gap columns fit the band of the bound is dominated by the answer -/
theorem bandLCSAB_dominates (A B : Seq) (e : Int) (hAB : B.length ≤ A.length) (hok : LenOK A.length B.length e)
    (hneg : e = -1 ∨ (A.length : Int) - (B.length : Int) ≤ e) :
    ∃ s l, bandLCSAB A B e = some (s, l) ∧ Ali samenuc A B s l ∧
      ∀ s' l', Ali samenuc A B s' l' →
        (A.length : Int) ≤ (s' : Int) + (if e = -1 then 2 * (A.length : Int) else e) →
        (s' < s ∨ (s' = s ∧ l ≤ l')) := by
  unfold bandLCSAB
  cases hg : bandGeo A.length B.length e with
  | none =>
    exfalso
    rw [bandGeo_eq] at hg
    have hd : ¬ ((A.length : Int) - (B.length : Int) > (if e = -1 then 2 * (A.length : Int) else e)) := by
      by_cases c : e = -1
      · rw [if_pos c]; omega
      · rw [if_neg c]
        rcases hneg with h | h
        · exact absurd h c
        · omega
    rw [if_neg hd] at hg
    cases hg
  | some g =>
    obtain ⟨hgeo, hd1, hd2, hlo, hhi⟩ := bandGeo_ok hAB hok hg
    obtain ⟨s0, l0, hv, ha, hdom⟩ := bandLast_value g.1 g.2 A B hgeo ⟨hd1, hd2⟩
    have hb := ha.bounds samenuc
    have hN := hok.1
    refine ⟨s0, l0, ?_, ha, fun s' l' h' hc => ?_⟩
    · simp only []
      rw [hv]
      unfold bandResult
      rw [decode_encode s0 l0 false (by omega) (by omega)]
      simp
    · have hb' := h'.bounds samenuc
      have hsl := h'.score_len samenuc
      have hrev := h'.reverse samenuc
      have hinb := hrev.toIn samenuc g.1 g.2 (by simp only [List.length_reverse]; omega)
        (by simp only [List.length_reverse]; omega)
      exact hdom s' l' hinb

/-- `LenOK` is symmetric in the two lengths -/
theorem LenOK.swap {lA lB : Nat} {e : Int} (h : LenOK lA lB e) : LenOK lB lA e :=
  ⟨by have := h.1; omega, h.2.imp (fun p => ⟨p.2, p.1⟩) id⟩

/-- **soundness under the true length condition** -/
theorem bandLCS_sound_long (a b : Seq) (e : Int) (s l : Nat) (hok : LenOK a.length b.length e)
    (h : bandLCS a b e = some (s, l)) : Ali samenuc a b s l := by
  unfold bandLCS at h
  split at h
  · exact (bandLCSAB_sound_long b a e s l (by omega) hok.swap h).samenuc_swap
  · exact bandLCSAB_sound_long a b e s l (by omega) hok h

theorem bandLCSAB_exact_long (A B : Seq) (e : Int) (hAB : B.length ≤ A.length) (hok : LenOK A.length B.length e)
    (h : e = -1 ∨ ((A.length : Nat) : Int) ≤ ((lcsDP samenuc A B).1 : Int) + e) :
    bandLCSAB A B e = some (lcsDP samenuc A B) := by
  have hopt := lcsDP_opt samenuc A B
  have hbo := hopt.1.bounds samenuc
  obtain ⟨s, l, hr, ha, hdom⟩ := bandLCSAB_dominates A B e hAB hok (by
    rcases h with h | h
    · exact .inl h
    · exact .inr (by omega))
  have h1 := hdom _ _ hopt.1 (by
    rcases h with h | h
    · rw [if_pos h]; omega
    · by_cases c : e = -1
      · rw [if_pos c]; omega
      · rw [if_neg c]; exact h)
  have h2 := hopt.2 s l ha
  rw [better_iff] at h2
  simp only at h2
  rw [hr]
  have e1 : s = (lcsDP samenuc A B).1 := by omega
  have e2 : l = (lcsDP samenuc A B).2 := by omega
  rw [e1, e2]

/-- **exactness under the true length condition** (cover form: no bound, or `max(|a|,|b|) ≤ LCS + e`) -/
theorem bandLCS_exact_cover_long (a b : Seq) (e : Int) (hok : LenOK a.length b.length e)
    (h : e = -1 ∨ ((max a.length b.length : Nat) : Int) ≤ ((lcsDP samenuc a b).1 : Int) + e) :
    bandLCS a b e = some (lcsDP samenuc a b) := by
  unfold bandLCS
  split
  · rename_i hlt
    have e1 : max a.length b.length = b.length := by omega
    rw [e1, ← lcsDP_samenuc_swap a b] at h
    rw [bandLCSAB_exact_long b a e (by omega) hok.swap h, lcsDP_samenuc_swap]
  · rename_i hlt
    have e1 : max a.length b.length = a.length := by omega
    rw [e1] at h
    exact bandLCSAB_exact_long a b e (by omega) hok h

/-- **exactness under the true length condition** (full statement of the property) -/
theorem bandLCS_exact_long (a b : Seq) (e : Int) (hok : LenOK a.length b.length e)
    (h : e = -1 ∨ ((lcsDP samenuc a b).2 : Int) - ((lcsDP samenuc a b).1 : Int) ≤ e) :
    bandLCS a b e = some (lcsDP samenuc a b) :=
  bandLCS_exact_cover_long a b e hok (h.imp id (diff_le_imp_cover a b e))

theorem bandLCS_within_is_opt_long (a b : Seq) (e : Int) (s l : Nat) (hok : LenOK a.length b.length e)
    (h : bandLCS a b e = some (s, l)) (hb : (l : Int) - (s : Int) ≤ e) :
    (s, l) = lcsDP samenuc a b := by
  have ha := bandLCS_sound_long a b e s l hok h
  have hbd := ha.bounds samenuc
  have hopt := (lcsDP_opt samenuc a b).2 s l ha
  rw [better_iff] at hopt
  simp only at hopt
  have hS : ((max a.length b.length : Nat) : Int) ≤ ((lcsDP samenuc a b).1 : Int) + e := by omega
  have := bandLCS_exact_cover_long a b e hok (.inr hS)
  rw [this] at h
  injection h with h
  exact h.symm

theorem bandLCS_beyond_long (a b : Seq) (e : Int) (hok : LenOK a.length b.length e)
    (h : e < ((lcsDP samenuc a b).2 : Int) - ((lcsDP samenuc a b).1 : Int)) :
    bandLCS a b e = none ∨ ∃ s l, bandLCS a b e = some (s, l) ∧ e < (l : Int) - (s : Int) := by
  cases hr : bandLCS a b e with
  | none => exact .inl rfl
  | some p =>
    obtain ⟨s, l⟩ := p
    refine .inr ⟨s, l, rfl, ?_⟩
    apply Int.lt_of_not_ge
    intro hle
    have := bandLCS_within_is_opt_long a b e s l hok hr hle
    rw [← this] at h
    simp only at h
    omega

/-- beyond `LenOK`, explicit bound: for every `A` with `30000 < |A| ≤ 65534` and every bound `e ≥ |A|` the kernel
answers (0, 30000) for `A` against the empty sequence (the optimum `(0, |A|)` is within the bound) -/
theorem bandLCS_long_row0_bound (A : Seq) (e : Int) (h1 : 30000 < A.length) (h2 : A.length ≤ 65534)
    (he : (A.length : Int) ≤ e) : bandLCS A [] e = some (0, 30000) := by
  have hl : ¬ A.length < ([] : Seq).length := by simp
  unfold bandLCS
  rw [if_neg hl]
  unfold bandLCSAB
  rw [bandGeo_eq]
  have hne : ¬ e = -1 := by omega
  simp only [List.length_nil, if_neg hne]
  have hd : ¬ ((A.length : Int) - ((0 : Nat) : Int) > e) := by omega
  rw [if_neg hd]
  simp only []
  rw [bandLast_getLastD]
  simp only [List.length_nil]
  rw [cellM_row0 _ _ _ _ _ (Nat.le_refl _),
    bandCell_row0_beyond _ _ _ h1 h2 (by omega) (by omega)]
  exact bandResult_notavail

end ObiVerif.Lcs
