import ObiVerif.Lemmas.UniqMerge
import ObiVerif.Lemmas.UniqClass
/-!
# Lemmas connecting classification and merge: what every output record of `uniq` is

`IsOutput o input out` says what the property states about one output record, in terms of the class
`classOf o input (key o out)` of the input records with its key only (hence independent of input
order, chunk function, …).
-/
namespace ObiVerif.Uniq

/-- the annotations of a record form a map (a Go `map[string]interface{}` has distinct keys) -/
def Rec.WF (r : Rec) : Prop := (r.attrs.map (·.1)).Nodup

/-- the input records with key `κ`, in input order -/
def classOf (o : Opts) (input : List Rec) (κ : Seq × List String) : List Rec :=
  input.filter (fun r => decide (key o r = κ))

/-! ## association lists with distinct keys -/

theorem lookup_filter_none (l : List (String × String)) (k : String) (h : k ∉ l.map (·.1))
    (p : String × String → Bool) : (l.filter p).lookup k = none := by
  induction l with
  | nil => rfl
  | cons e t ih =>
    obtain ⟨a, b⟩ := e
    have h' : k ≠ a ∧ k ∉ t.map (·.1) := by simpa [not_or] using h
    have hb : (k == a) = false := by simpa using h'.1
    rw [List.filter_cons]
    split
    · simp [List.lookup, hb, ih h'.2]
    · exact ih h'.2

theorem lookup_filter_of_nodup (l : List (String × String)) (h : (l.map (·.1)).Nodup)
    (p : String × String → Bool) (k : String) :
    (l.filter p).lookup k = (l.lookup k).filter (fun v => p (k, v)) := by
  induction l with
  | nil => rfl
  | cons e t ih =>
    obtain ⟨a, b⟩ := e
    have hn : a ∉ t.map (·.1) ∧ (t.map (·.1)).Nodup := by simpa using h
    by_cases hk : k = a
    · subst hk
      rw [List.filter_cons]
      split
      · next hp => simp [List.lookup, Option.filter, hp]
      · next hp => simp [List.lookup, Option.filter, hp, lookup_filter_none t k hn.1 p]
    · have hb : (k == a) = false := by simpa using hk
      rw [List.filter_cons]
      split
      · simp [List.lookup, hb, ih hn.2]
      · simp [List.lookup, hb, ih hn.2]

theorem lookup_iff_mem_of_nodup (l : List (String × String)) (h : (l.map (·.1)).Nodup) (k v : String) :
    l.lookup k = some v ↔ (k, v) ∈ l := by
  induction l with
  | nil => simp [List.lookup]
  | cons e t ih =>
    obtain ⟨a, b⟩ := e
    have hn : a ∉ t.map (·.1) ∧ (t.map (·.1)).Nodup := by simpa using h
    by_cases hk : k = a
    · subst hk
      have : ∀ v, (k, v) ∉ t := fun v hm => hn.1 (List.mem_map.mpr ⟨(k, v), hm, rfl⟩)
      simp [List.lookup, this, eq_comm]
    · have hb : (k == a) = false := by simpa using hk
      simp [List.lookup, hb, ih hn.2, hk]

theorem lookup_filter_ne {β : Type} (l : List (String × β)) (k k' : String) :
    (l.filter (fun e => decide (e.1 ≠ k))).lookup k' = if k' = k then none else l.lookup k' := by
  induction l with
  | nil => simp [List.lookup]
  | cons e t ih =>
    obtain ⟨a, b⟩ := e
    rw [List.filter_cons]
    by_cases ha : a = k
    · subst ha
      rw [if_neg (by simp)]
      rw [ih]
      by_cases hk : k' = a
      · simp [hk]
      · have : (k' == a) = false := by simpa using hk
        simp [hk, List.lookup, this]
    · have hd : decide ((a, b).1 ≠ k) = true := by simpa using ha
      rw [if_pos hd]
      by_cases hk : k' = a
      · subst hk; simp [List.lookup, ha]
      · have : (k' == a) = false := by simpa using hk
        simp only [List.lookup, this]; exact ih

theorem lookup_filter_ne' {β : Type} (l : List (String × β)) (k k' : String) :
    (l.filter (fun e => !decide (e.1 = k))).lookup k' = if k' = k then none else l.lookup k' := by
  have : (fun e : String × β => !decide (e.1 = k)) = (fun e => decide (e.1 ≠ k)) := by funext e; simp
  rw [this]; exact lookup_filter_ne l k k'

/-- the value of a category attribute survives the merge of records that agree on it -/
theorem value_filter (l : List (String × String)) (h : (l.map (·.1)).Nodup) (rs : List Rec) (c na : String)
    (hv : ∀ t ∈ rs, t.value c na = (l.lookup c).getD na) :
    ((l.filter (fun kv => rs.all fun t => t.attrs.lookup kv.1 == some kv.2)).lookup c).getD na =
      (l.lookup c).getD na := by
  rw [lookup_filter_of_nodup l h]
  cases hl : l.lookup c with
  | none => simp [Option.filter]
  | some v =>
    simp only [Option.filter]
    split
    · rfl
    · next hp =>
      simp only [Option.getD_none, Option.getD_some]
      simp only [Bool.not_eq_true, List.all_eq_false, beq_iff_eq] at hp
      obtain ⟨t, ht, hne⟩ := hp
      have := hv t ht
      rw [hl] at this
      simp only [Rec.value, Option.getD_some] at this
      cases ht' : t.attrs.lookup c with
      | none => simpa [ht'] using this
      | some v' =>
        rw [ht'] at this hne
        simp only [Option.getD_some] at this
        exact absurd (by rw [this]) hne

/-! ## what an output record is -/

structure IsOutput (o : Opts) (input : List Rec) (out : Rec) : Prop where
  /-- the class is not empty; id and sequence are those of one of its members (the representative) -/
  rep : ∃ x ∈ classOf o input (key o out), out.id = x.id ∧ out.seq = x.seq
  count : out.count = total (classOf o input (key o out))
  merged : ∀ k ∈ o.stats, ∃ m, out.merged.lookup k = some m ∧
    ∀ v, weight m v = contribSum o.na k (classOf o input (key o out)) v
  attrs : ∀ kv, kv ∈ out.attrs ↔ ∀ r ∈ classOf o input (key o out), r.attrs.lookup kv.1 = some kv.2
  /-- the kept annotations still form a map -/
  wf : out.WF

theorem terminal_output (h : Seq → Nat) (o : Opts) (input : List Rec) (hnd : o.stats.Nodup)
    (hc : ∀ r ∈ input, 1 ≤ r.count) (hwf : ∀ r ∈ input, r.WF) (t : List Rec)
    (ht : t ∈ terminals h o input) :
    ∃ out, mergeClass o.na o.stats t = some out ∧ IsOutput o input out ∧
      t = classOf o input (key o out) ∧ out.count = total t := by
  obtain ⟨hcls, _, _, _⟩ := terminals_classes h o input
  obtain ⟨x, hx, et⟩ := hcls t ht
  have hmem : ∀ a ∈ t, a ∈ input ∧ key o a = key o x := by
    intro a ha
    rw [et] at ha
    simpa using List.mem_filter.mp ha
  cases t with
  | nil => simp at hx
  | cons r rs =>
    have hr := hmem r (by simp)
    obtain ⟨out, hout, s1, s2, s3, s4, s5, _⟩ :=
      mergeClass_spec o.na o.stats hnd r rs (hc r hr.1)
    have hkey : key o out = key o r := by
      rw [key_eq_iff]
      refine ⟨s1, fun c _ => ?_⟩
      show (out.attrs.lookup c).getD o.na = (r.attrs.lookup c).getD o.na
      rw [s4]
      apply value_filter r.attrs (hwf r hr.1) rs c o.na
      intro t' ht'
      have h1 := (hmem t' (List.mem_cons_of_mem _ ht')).2
      rw [← hr.2, key_eq_iff] at h1
      exact h1.2 c ‹_›
    have ecls : r :: rs = classOf o input (key o out) := by
      rw [hkey, hr.2]; exact et
    refine ⟨out, hout, ⟨?_, ?_, ?_, ?_, ?_⟩, ecls, s3⟩
    · exact ⟨r, by rw [← ecls]; simp, s2, s1⟩
    · rw [← ecls]; exact s3
    · rw [← ecls]; exact s5
    · intro kv
      rw [← ecls, s4]
      simp only [List.mem_filter, List.all_eq_true, beq_iff_eq, List.mem_cons, forall_eq_or_imp]
      rw [lookup_iff_mem_of_nodup r.attrs (hwf r hr.1)]
    · show (out.attrs.map (·.1)).Nodup
      rw [s4]
      exact List.Nodup.sublist (List.Sublist.map _ List.filter_sublist) (hwf r hr.1)

theorem mem_uniq {h : Seq → Nat} {o : Opts} {input : List Rec} {out : Rec} :
    out ∈ uniq h o input ↔
      ∃ t ∈ terminals h o input, dropped o t = false ∧ mergeClass o.na o.stats t = some out := by
  simp only [uniq, List.mem_filterMap, List.mem_filter, Bool.not_eq_eq_eq_not, Bool.not_true]
  constructor
  · rintro ⟨t, ⟨h1, h2⟩, h3⟩; exact ⟨t, h1, h2, h3⟩
  · rintro ⟨t, h1, h2, h3⟩; exact ⟨t, ⟨h1, h2⟩, h3⟩

/-! ## sums -/

theorem total_append (a b : List Rec) : total (a ++ b) = total a + total b := by
  simp [total]

theorem total_flatten (T : List (List Rec)) : total T.flatten = (T.map total).sum := by
  induction T with
  | nil => rfl
  | cons t T ih => simp [total_append, ih]

theorem total_perm {a b : List Rec} (h : a.Perm b) : total a = total b :=
  (h.map Rec.count).sum_nat

theorem contribSum_perm (na k : String) {a b : List Rec} (h : a.Perm b) (v : String) :
    contribSum na k a v = contribSum na k b v :=
  (h.map fun r => contrib na k r v).sum_nat

theorem filterMap_map_eq {α β γ : Type} (T : List α) (f : α → Option β) (g : β → γ) (k : α → γ)
    (h : ∀ t ∈ T, ∃ out, f t = some out ∧ g out = k t) : (T.filterMap f).map g = T.map k := by
  induction T with
  | nil => rfl
  | cons t T ih =>
    obtain ⟨out, h1, h2⟩ := h t (by simp)
    simp [h1, h2, ih fun t' ht' => h t' (List.mem_cons_of_mem _ ht')]

theorem filterMap_filter_comm {α β : Type} (T : List α) (f : α → Option β) (p : β → Bool) (q : α → Bool)
    (h : ∀ t ∈ T, ∀ out, f t = some out → p out = q t) :
    (T.filterMap f).filter p = (T.filter q).filterMap f := by
  induction T with
  | nil => rfl
  | cons t T ih =>
    have ih' := ih fun t' ht' => h t' (List.mem_cons_of_mem _ ht')
    cases hf : f t with
    | none =>
      rw [List.filterMap_cons_none hf, ih', List.filter_cons]
      split
      · rw [List.filterMap_cons_none hf]
      · rfl
    | some out =>
      have := h t (by simp) out hf
      rw [List.filterMap_cons_some hf, List.filter_cons, List.filter_cons, this]
      split
      · rw [List.filterMap_cons_some hf, ih']
      · exact ih'

/-- with counts ≥ 1 the `--no-singleton` test (one record of count 1) is "the class has total count 1" -/
theorem dropped_iff (o : Opts) (t : List Rec) (hne : t ≠ []) (hc : ∀ r ∈ t, 1 ≤ r.count) :
    dropped o t = (o.noSingleton && decide (total t = 1)) := by
  unfold dropped
  cases t with
  | nil => exact absurd rfl hne
  | cons x rs =>
    cases rs with
    | nil => by_cases h : x.count = 1 <;> simp [total, h]
    | cons y rs' =>
      have h1 := hc x (by simp)
      have h2 := hc y (by simp)
      have : total (x :: y :: rs') ≠ 1 := by simp [total]; omega
      simp [this]

/-! ## hypotheses and small facts used by `Props/C06.lean` -/

structure InputOK (o : Opts) (input : List Rec) : Prop where
  stats_nodup : o.stats.Nodup
  counts : ∀ r ∈ input, 1 ≤ r.count
  wf : ∀ r ∈ input, r.WF

theorem InputOK.perm {o : Opts} {input input' : List Rec} (ok : InputOK o input) (hp : input'.Perm input) :
    InputOK o input' :=
  ⟨ok.stats_nodup, fun r hr => ok.counts r (hp.mem_iff.mp hr), fun r hr => ok.wf r (hp.mem_iff.mp hr)⟩

/-- the weight the `merged_<k>` map of `r` gives to `v` (0 if `r` has no such map) -/
def mweight (r : Rec) (k v : String) : Nat := weight ((r.merged.lookup k).getD []) v

theorem not_dropped_of_all {o : Opts} (hns : o.noSingleton = false) (t : List Rec) : dropped o t = false := by
  simp [dropped, hns]

theorem total_filter_split (l : List Rec) :
    total (l.filter (fun out => decide (out.count ≠ 1))) +
      (l.filter (fun out => decide (out.count = 1))).length = total l := by
  induction l with
  | nil => rfl
  | cons x t ih =>
    by_cases hx : x.count = 1
    · simp [hx, total] at ih ⊢; omega
    · simp [hx, total] at ih ⊢; omega

theorem classOf_perm (o : Opts) {input input' : List Rec} (hp : input'.Perm input) (κ : Seq × List String) :
    (classOf o input' κ).Perm (classOf o input κ) := hp.filter _

end ObiVerif.Uniq
