import ObiVerif.Lemmas.TagKernel
/-!
# `bestId` / `bestmatch` of `FindClosests` (C15, round 2)

Which reference is reported as `obitag_bestmatch` when several references are tied at the best distance `m`, and
what `obitag_bestid` is.  All the best references have the same `alilength - lcs = m`, so their identities
`lcs/alilength = 1 - m/alilength` are ordered by the alignment length: the loop (`if id > bestId`, strict) keeps
the FIRST reference in scan order among the best references of LONGEST alignment (`m > 0`), the first best
reference at all when `m = 0` (all identities are 1).  The answer is a function of the candidate order: with an
unstable sort of the shared 4-mer counts two runs may scan tied candidates in a different order and report
different `bestmatch` — never a different distance, best set or (by the theorem) `bestId`.
-/
namespace ObiVerif.Tag
open ObiVerif.Kmer ObiVerif.Lcs ObiVerif.QGram

/-- `bm` is the first element of `l` with the largest key -/
def FirstMax (key : Nat → Nat) (l : List Nat) (bm : Nat) : Prop :=
  ∃ pre post, l = pre ++ bm :: post ∧ (∀ j ∈ pre, key j < key bm) ∧ (∀ j ∈ post, key j ≤ key bm)

theorem firstMax_single (key : Nat → Nat) (i : Nat) : FirstMax key [i] i :=
  ⟨[], [], rfl, by simp, by simp⟩

theorem firstMax_mem {key : Nat → Nat} {l : List Nat} {bm : Nat} (h : FirstMax key l bm) : bm ∈ l := by
  obtain ⟨pre, post, e, _, _⟩ := h
  rw [e]; simp

theorem firstMax_snoc {key : Nat → Nat} {l : List Nat} {bm : Nat} (h : FirstMax key l bm) (i : Nat) :
    FirstMax key (l ++ [i]) (if key bm < key i then i else bm) := by
  obtain ⟨pre, post, e, h1, h2⟩ := h
  by_cases hlt : key bm < key i
  · simp only [hlt, if_true]
    refine ⟨l, [], rfl, ?_, by simp⟩
    intro j hj
    rw [e] at hj
    rcases List.mem_append.1 hj with hj | hj
    · have := h1 j hj; omega
    · rcases List.mem_cons.1 hj with e' | hj
      · subst e'; exact hlt
      · have := h2 j hj; omega
  · simp only [hlt, if_false]
    refine ⟨pre, post ++ [i], by rw [e]; simp, h1, ?_⟩
    intro j hj
    rcases List.mem_append.1 hj with hj | hj
    · exact h2 j hj
    · simp at hj; subst hj; omega

/-- the first maximum is unique -/
theorem firstMax_unique {key : Nat → Nat} {l : List Nat} {a b : Nat} (ha : FirstMax key l a) (hb : FirstMax key l b)
    (hnd : l.Nodup) : a = b := by
  obtain ⟨p1, q1, e1, a1, a2⟩ := ha
  obtain ⟨p2, q2, e2, b1, b2⟩ := hb
  by_cases hab : a = b
  · exact hab
  · exfalso
    have hb_in : b ∈ p1 ++ a :: q1 := by rw [← e1, e2]; simp
    have ha_in : a ∈ p2 ++ b :: q2 := by rw [← e2, e1]; simp
    rcases List.mem_append.1 hb_in with hb1 | hb1
    · -- b before a : key b < key a ; then a after b
      have k1 := a1 b hb1
      rcases List.mem_append.1 ha_in with ha1 | ha1
      · have := b1 a ha1; omega
      · rcases List.mem_cons.1 ha1 with e' | ha1
        · exact hab e'
        · have := b2 a ha1; omega
    · rcases List.mem_cons.1 hb1 with e' | hb1
      · exact hab e'.symm
      · -- b after a : key b ≤ key a ; a must be before b
        have k1 := a2 b hb1
        rcases List.mem_append.1 ha_in with ha1 | ha1
        · have := b1 a ha1; omega
        · rcases List.mem_cons.1 ha1 with e' | ha1
          · exact hab e'
          · -- a after b and b after a: l has a duplicate
            rw [e1] at hnd
            have hnd' := (List.nodup_append.1 hnd).2.1
            have hnq : a ∉ q1 := (List.nodup_cons.1 hnd').1
            have hbq2 : b ∉ q2 := by
              rw [e2] at e1
              have : (p2 ++ b :: q2).Nodup := by rw [e1]; exact hnd
              exact (List.nodup_cons.1 (List.nodup_append.1 this).2.1).1
            -- position argument: a ∈ q2 and b ∈ q1 with l = p1 ++ a :: q1 = p2 ++ b :: q2
            have hlen : p1.length < p2.length ∨ p1.length = p2.length ∨ p2.length < p1.length := by omega
            have hg1 : (p1 ++ a :: q1)[p1.length]? = some a := by simp
            have hg2 : (p2 ++ b :: q2)[p2.length]? = some b := by simp
            rcases hlen with hl | hl | hl
            · -- a sits inside p2
              have : (p2 ++ b :: q2)[p1.length]? = some a := by rw [← e2, e1]; exact hg1
              rw [List.getElem?_append_left hl] at this
              have ha_p2 : a ∈ p2 := List.mem_of_getElem? this
              have hnd2 : (p2 ++ b :: q2).Nodup := by rw [← e2, e1]; exact hnd
              have := (List.nodup_append.1 hnd2).2.2 a ha_p2 a (List.mem_cons_of_mem _ ha1)
              exact this rfl
            · have : (p2 ++ b :: q2)[p1.length]? = some a := by rw [← e2, e1]; exact hg1
              rw [hl] at this
              rw [hg2] at this
              exact hab (Option.some.inj this).symm
            · have : (p1 ++ a :: q1)[p2.length]? = some b := by rw [← e1, e2]; exact hg2
              rw [List.getElem?_append_left hl] at this
              have hb_p1 : b ∈ p1 := List.mem_of_getElem? this
              have := (List.nodup_append.1 hnd).2.2 b hb_p1 b (List.mem_cons_of_mem _ hb1)
              exact this rfl

/-- identities of two references at the same distance `m` compare as their alignment lengths -/
theorem idGt_same_dist (m a b : Nat) (hma : m ≤ a) (hmb : m ≤ b) (ha : 0 < a) (hb : 0 < b) :
    idGt (a - m, a) (b - m, b) = true ↔ (0 < m ∧ b < a) := by
  obtain ⟨x, rfl⟩ : ∃ x, a = m + x := ⟨a - m, by omega⟩
  obtain ⟨y, rfl⟩ : ∃ y, b = m + y := ⟨b - m, by omega⟩
  have e1 : m + x - m = x := by omega
  have e2 : m + y - m = y := by omega
  simp only [idGt, e1, e2]
  have ha' : m + x ≠ 0 := by omega
  have hb' : m + y ≠ 0 := by omega
  simp only [ne_eq, ha', not_false_eq_true, decide_true, hb', Bool.true_and, decide_eq_true_eq, gt_iff_lt]
  rw [Nat.mul_add, Nat.mul_add, Nat.mul_comm y x]
  constructor
  · intro h
    have h' : y * m < x * m := by omega
    have hm : 0 < m := by
      rcases Nat.eq_zero_or_pos m with e | e
      · subst e; simp at h'
      · exact e
    exact ⟨hm, by have := Nat.lt_of_mul_lt_mul_right h'; omega⟩
  · rintro ⟨hm, hlt⟩
    have : y * m < x * m := Nat.mul_lt_mul_of_pos_right (by omega) hm
    omega

/-- what the loops see of a candidate is coherent: `lcs ≤ alilength`, a non-empty alignment, and within one
difference the shortest alignment is as long as the longer sequence (what `FindClosests` ASSUMES when it rebuilds
`lcs`, `alilength` from the verdict of `D1Or0`); at distance 0 the reference has the length of the query -/
def Coherent (lq : Nat) (c : Cand) : Prop :=
  c.lcs ≤ c.ali ∧ 0 < c.ali ∧ (c.dist ≤ 1 → c.ali = max lq c.len) ∧ (c.dist = 0 → c.len = lq)

/-- on a coherent candidate every comparison that answers, answers the candidate's own `(dist, lcs, alilength)` -/
theorem fcCompare_coherent (v : Variant) (lq : Nat) (c : Cand) (hc : Coherent lq c) (maxe : Option Nat) :
    fcCompare v lq c maxe = none ∨ fcCompare v lq c maxe = some (c.dist, c.lcs, c.ali) := by
  obtain ⟨h1, _, h3, h4⟩ := hc
  cases maxe with
  | none => right; rfl
  | some e =>
    unfold fcCompare
    by_cases h0 : e = 0 ∧ v = .tag2
    · simp only [h0, and_self, if_true]
      by_cases hd : c.dist = 0
      · right
        have hl := h4 hd
        have ha := h3 (by omega)
        simp only [hd, if_true]
        have : c.lcs = c.ali := by unfold Cand.dist at hd; omega
        rw [this, ha, hl]; simp
      · left; simp [hd]
    · simp only [h0, if_false]
      by_cases he : e ≤ 1
      · simp only [he, if_true, Tag.d1or0]
        by_cases hd : c.dist ≤ 1
        · right
          have ha := h3 hd
          simp only [hd, if_true]
          rw [← ha]
          have : c.ali - c.dist = c.lcs := by unfold Cand.dist; omega
          rw [this]
        · left; simp [hd]
      · simp only [he, if_false, boundedLCS]
        by_cases hd : c.dist ≤ e
        · right; rw [if_pos hd]; rfl
        · left; simp [hd]

/-- the key the loop maximises among the references at the best distance `m` -/
def bestKey (c : Nat → Cand) (m : Nat) (j : Nat) : Nat := if m = 0 then 0 else (c j).ali

/-- invariant on `bestId` / `bestmatch` -/
def BestInv (lq : Nat) (c : Nat → Cand) (st : FCState) : Prop :=
  match st.maxe with
  | none => st.bestidxs = []
  | some m => (∀ j ∈ st.bestidxs, (c j).dist = m ∧ Coherent lq (c j)) ∧
      FirstMax (bestKey c m) st.bestidxs st.bestmatch ∧
      st.bestId = ((c st.bestmatch).lcs, (c st.bestmatch).ali)

theorem idGt_irrefl (x : Nat × Nat) : idGt x x = false := by
  simp [idGt]

theorem fcUpdate_best (wm : Nat → Nat → Nat → Nat) (lq : Nat) (c : Nat → Cand) (i : Nat) (st : FCState)
    (hc : Coherent lq (c i)) (hinv : BestInv lq c st) :
    BestInv lq c (fcUpdate wm lq (c i) i st (c i).dist (c i).lcs (c i).ali) := by
  have hnew : BestInv lq c (FCState.mk (some (c i).dist) (wm lq (c i).len (c i).dist) [i]
      ((c i).lcs, (c i).ali) i) := by
    unfold BestInv
    simp only
    refine ⟨?_, firstMax_single _ i, by first | rfl | trivial⟩
    intro j hj
    simp at hj; subst hj; exact ⟨rfl, hc⟩
  unfold fcUpdate
  cases hm : st.maxe with
  | none =>
    simp only [if_true, List.nil_append, idGt_irrefl, Bool.false_eq_true, if_false]
    exact hnew
  | some e =>
    simp only
    by_cases hlt : (c i).dist < e
    · simp only [hlt, decide_true, if_true, List.nil_append, idGt_irrefl, Bool.false_eq_true, if_false]
      exact hnew
    · simp only [hlt, decide_false, Bool.false_eq_true, if_false, hm]
      by_cases heq : e = (c i).dist
      · subst heq
        simp only [if_true]
        unfold BestInv at hinv
        rw [hm] at hinv
        simp only at hinv
        obtain ⟨h1, h2, h3⟩ := hinv
        have hbm := h1 _ (firstMax_mem h2)
        obtain ⟨hd_bm, hc_bm⟩ := hbm
        have hall : ∀ j ∈ st.bestidxs ++ [i], (c j).dist = (c i).dist ∧ Coherent lq (c j) := by
          intro j hj
          rcases List.mem_append.1 hj with hj | hj
          · exact h1 j hj
          · simp at hj; subst hj; exact ⟨rfl, hc⟩
        -- the comparison of identities is the comparison of keys
        have hkey : idGt ((c i).lcs, (c i).ali) st.bestId = true ↔
            bestKey c (c i).dist st.bestmatch < bestKey c (c i).dist i := by
          rw [h3]
          have e1 : (c i).lcs = (c i).ali - (c i).dist := by
            have := hc.1; unfold Cand.dist; omega
          have e2 : (c st.bestmatch).lcs = (c st.bestmatch).ali - (c i).dist := by
            have := hc_bm.1; rw [← hd_bm]; unfold Cand.dist; omega
          rw [e1, e2, idGt_same_dist (c i).dist _ _ (by have := hc.1; unfold Cand.dist; omega)
            (by have := hc_bm.1; rw [← hd_bm]; unfold Cand.dist; omega) hc.2.1 hc_bm.2.1]
          unfold bestKey
          by_cases h0 : (c i).dist = 0
          · simp [h0]
          · simp [h0]; omega
        have hsn := firstMax_snoc h2 i
        by_cases hgt : idGt ((c i).lcs, (c i).ali) st.bestId = true
        · simp only [hgt, if_true]
          unfold BestInv
          simp only
          rw [if_pos (hkey.1 hgt)] at hsn
          exact ⟨hall, hsn, trivial⟩
        · simp only [hgt, Bool.false_eq_true, if_false]
          unfold BestInv
          simp only
          rw [if_neg (fun h => hgt (hkey.2 h))] at hsn
          exact ⟨hall, hsn, h3⟩
      · have heq' : ¬ (some e = some (c i).dist) := by intro h; cases h; exact heq rfl
        simp only [heq', if_false]
        exact hinv

theorem fcLoop_best (wm : Nat → Nat → Nat → Nat) (v : Variant) (lq : Nat) (c : Nat → Cand) :
    ∀ (rest : List Nat) (st : FCState), (∀ i ∈ rest, Coherent lq (c i)) → BestInv lq c st →
      BestInv lq c (fcLoop wm v lq c rest st) := by
  intro rest
  induction rest with
  | nil => intro st _ h; exact h
  | cons i rest ih =>
    intro st hc hinv
    have hc' : ∀ j ∈ rest, Coherent lq (c j) := fun j hj => hc j (List.mem_cons_of_mem _ hj)
    unfold fcLoop
    split
    · exact hinv
    · rcases fcCompare_coherent v lq (c i) (hc i List.mem_cons_self) st.maxe with h | h
      · rw [h]; exact ih st hc' hinv
      · rw [h]
        exact ih _ hc' (fcUpdate_best wm lq c i st (hc i List.mem_cons_self) hinv)

/-- **`bestmatch` and `bestId`**: whatever the candidate order, on coherent candidate data, the answer
`(m, bestId, bestmatch, idxs)` of `FindClosests` is such that `bestmatch` is the first reference of `idxs` (scan
order) whose alignment is the longest among `idxs` (the first of `idxs` when `m = 0`), and `bestId` is its
`lcs / alilength` -/
theorem findClosests_best (v : Variant) (lq : Nat) (c : Nat → Cand) (o : List Nat)
    (hc : ∀ i ∈ o, Coherent lq (c i)) (m : Nat) (bestId : Nat × Nat) (bm : Nat) (idxs : List Nat)
    (h : findClosests v lq c o = .ok m bestId bm idxs) :
    FirstMax (bestKey c m) idxs bm ∧ bestId = ((c bm).lcs, (c bm).ali) ∧ (c bm).dist = m := by
  cases o with
  | nil => cases h
  | cons o0 rest =>
    have hb := fcLoop_best wmNew v lq c (o0 :: rest)
      { maxe := none, wordmin := 0, bestidxs := [], bestId := (0, 1), bestmatch := o0 } hc rfl
    unfold findClosests findClosestsWith at h
    simp only at h
    generalize fcLoop wmNew v lq c (o0 :: rest)
      { maxe := none, wordmin := 0, bestidxs := [], bestId := (0, 1), bestmatch := o0 } = st at h hb
    unfold BestInv at hb
    cases hm : st.maxe with
    | none => rw [hm] at h; simp at h
    | some m' =>
      rw [hm] at h hb
      simp only at hb
      cases hbi : st.bestidxs with
      | nil => rw [hbi] at h; simp at h
      | cons b bs =>
        rw [hbi] at h
        simp only [FCOut.ok.injEq] at h
        obtain ⟨e1, e2, e3, e4⟩ := h
        subst e1 e2 e3
        rw [← hbi] at e4
        subst e4
        exact ⟨hb.2.1, hb.2.2, (hb.1 _ (firstMax_mem hb.2.1)).1⟩

/-- the candidates made of actual sequences over `a c g t` are coherent (non-empty query) -/
theorem candOf_coherent (q r : Bytes) (hq : IsACGT q) (hr : IsACGT r) (hne : q ≠ []) :
    Coherent q.length (candOf q r) := by
  have hb := Ali.bounds samenuc (lcsDP_opt samenuc q r).1
  refine ⟨lcsDP_le q r, ?_, ?_, ?_⟩
  · have : 0 < q.length := List.length_pos_iff.2 hne
    simp only [candOf]; omega
  · intro hd
    have : (candOf q r).dist = 0 ∨ (candOf q r).dist = 1 := by omega
    rcases this with e | e
    · have := (candOf_dist_zero_iff q r hq hr).1 e
      subst this
      have := lcsDP_self samenuc q (fun x hx => samenuc_self_acgt x (hq x hx))
      simp only [candOf, this]; omega
    · exact ((candOf_dist_one_iff q r hq hr).2 e).1
  · intro hd
    have := (candOf_dist_zero_iff q r hq hr).1 hd
    subst this
    rfl

end ObiVerif.Tag
