import ObiVerif.Model.SeqOps
/-! # Lemmas on the sequence operations of `Model/SeqOps.lean` (C07) -/
namespace ObiVerif.SeqOps

/-! ## Object store: frame lemmas -/

theorem Store.get_map_ne (st : Store) (n m : String) (o : Obj) (h : m ≠ n) :
    Store.get (st.map (fun p => if p.1 == n then (n, o) else p)) m = Store.get st m := by
  unfold Store.get
  induction st with
  | nil => rfl
  | cons p t ih =>
    simp only [List.map_cons, List.find?_cons]
    by_cases hp : p.1 = n
    · have h1 : (n == m) = false := by simp; exact fun e => h e.symm
      simp only [hp, beq_self_eq_true, if_true, h1]
      exact ih
    · have h1 : (p.1 == n) = false := by simp [hp]
      simp only [h1]
      cases hm : (p.1 == m)
      · simpa [hm] using ih
      · simp [hm]

theorem Store.get_put_ne (st : Store) (n m : String) (o : Obj) (h : m ≠ n) :
    (st.put n o).get m = st.get m := by
  unfold Store.put
  split
  · exact Store.get_map_ne st n m o h
  · unfold Store.get
    rw [List.find?_append]
    cases hf : st.find? (·.1 == m) with
    | some x => simp
    | none =>
      have : (n == m) = false := by simp; exact fun e => h e.symm
      simp [this]

end ObiVerif.SeqOps
