import ObiVerif.Model.SeqOps
/-! # Lemmas on the sequence operations of `Model/SeqOps.lean` (C07) -/
namespace ObiVerif.SeqOps

/-! ## Object store: frame lemmas -/

theorem Store.get_map_ne (st : Store) (n m : String) (o : Obj) (h : m ≠ n) :
    Store.get (st.map (fun p => if p.1 == n then (n, o) else p)) m = Store.get st m := by
  unfold Store.get
  induction st with
  | nil => rfl
  | cons p t ih =>
    simp only [List.map_cons, List.find?_cons]
    by_cases hp : p.1 = n
    · have h1 : (n == m) = false := by simp; exact fun e => h e.symm
      simp only [hp, beq_self_eq_true, if_true, h1]
      exact ih
    · have h1 : (p.1 == n) = false := by simp [hp]
      simp only [h1]
      cases hm : (p.1 == m)
      · simpa [hm] using ih
      · simp [hm]

theorem Store.get_put_ne (st : Store) (n m : String) (o : Obj) (h : m ≠ n) :
    (st.put n o).get m = st.get m := by
  unfold Store.put
  split
  · exact Store.get_map_ne st n m o h
  · unfold Store.get
    rw [List.find?_append]
    cases hf : st.find? (·.1 == m) with
    | some x => simp
    | none =>
      have : (n == m) = false := by simp; exact fun e => h e.symm
      simp [this]

/-! ## Subsequence -/

theorem tmod_neg_one (n : Nat) (h : 1 < n) : Int.tmod (-1) (n : Int) = -1 := by
  rw [Int.neg_tmod, Int.tmod_eq_of_lt (by omega) (by omega)]

/-- circular mode, normalised `from`, and the value `b'` of the normalised `to` known -/
theorem subsequence_circ_core (s : Bytes) (a : Nat) (t : Int) (b' : Nat) (ha : a < s.length)
    (h2 : Int.tmod (t - 1) (s.length : Int) + 1 = (b' : Int)) :
    subsequence s a t true =
      .ok (if a < b' then (s.drop a).take (b' - a) else s.drop a ++ s.take b', a) := by
  have h1 : Int.tmod (a : Int) (s.length : Int) = a := Int.tmod_eq_of_lt (by omega) (by omega)
  have hs : s ≠ [] := List.ne_nil_of_length_pos (by omega)
  have e6 : ¬ (b' : Int) < 0 := by omega
  have e2 : ¬ (a : Int) < 0 := by omega
  unfold subsequence
  simp only [h1, h2]
  by_cases hab : a < b'
  · simp [hs, hab, e2, e6]
  · simp [hs, hab, e2, e6]

theorem window_lt (s : Bytes) (a b : Nat) (ha : a ≤ s.length) (hb : b ≤ s.length) :
    ((s ++ s).drop a).take (b - a) = (s.drop a).take (b - a) := by
  rw [List.drop_append_of_le_length (by omega), List.take_append_of_le_length]
  simp only [List.length_drop]; omega

theorem window_ge (s : Bytes) (a b : Nat) (ha : a ≤ s.length) :
    ((s ++ s).drop a).take (b + s.length - a) = s.drop a ++ s.take b := by
  rw [List.drop_append_of_le_length ha]
  have : b + s.length - a = (s.drop a).length + b := by simp only [List.length_drop]; omega
  rw [this, List.take_length_add_append]

/-! ## The in-place two-index loop -/

/-- the two-index loop, parameterised by the byte transform (`nucComplement` or `id`) -/
def genLoop (f : UInt8 → UInt8) : Nat → Array UInt8 → Nat → Nat → Array UInt8
  | 0, s, _, _ => s
  | fuel+1, s, i1, j =>
    if i1 ≥ j + 1 then
      let i := i1 - 1
      let a := f (s.getD i 0)
      let b := f (s.getD j 0)
      genLoop f fuel ((s.setIfInBounds j a).setIfInBounds i b) i (j + 1)
    else s

theorem rcLoop_eq_genLoop (fuel : Nat) (s : Array UInt8) (i1 j : Nat) :
    rcLoop fuel s i1 j = genLoop nucComplement fuel s i1 j := by
  induction fuel generalizing s i1 j with
  | zero => rfl
  | succ n ih => simp only [rcLoop, genLoop, ih]

theorem revLoop_eq_genLoop (fuel : Nat) (s : Array UInt8) (i1 j : Nat) :
    revLoop fuel s i1 j = genLoop id fuel s i1 j := by
  induction fuel generalizing s i1 j with
  | zero => rfl
  | succ n ih => simp only [revLoop, genLoop, ih, id]

/-- loop invariant: positions `< j` and `≥ i1` hold their final value, the middle is untouched -/
def LoopInv (f : UInt8 → UInt8) (l : List UInt8) (s : Array UInt8) (i1 j : Nat) : Prop :=
  s.size = l.length ∧ j + i1 = l.length ∧
  ∀ k, k < l.length →
    s[k]? = some (if k < j ∨ i1 ≤ k then f (l[l.length - 1 - k]?.getD 0) else l[k]?.getD 0)

theorem LoopInv.init (f : UInt8 → UInt8) (l : List UInt8) : LoopInv f l l.toArray l.length 0 := by
  refine ⟨by simp, by simp, ?_⟩
  intro k hk
  have : ¬ (k < 0 ∨ l.length ≤ k) := by omega
  simp only [this, if_false]
  simp [hk]

theorem LoopInv.final {f : UInt8 → UInt8} {l : List UInt8} {s : Array UInt8} {i1 j : Nat}
    (h : LoopInv f l s i1 j) (hij : i1 ≤ j) : s.toList = (l.map f).reverse := by
  obtain ⟨hsz, hsum, hk⟩ := h
  apply List.ext_getElem?
  intro k
  rw [Array.getElem?_toList]
  by_cases hkn : k < l.length
  · rw [hk k hkn, List.getElem?_reverse (by simpa using hkn)]
    have : k < j ∨ i1 ≤ k := by omega
    simp only [this, if_true, List.length_map, List.getElem?_map]
    have h2 : l.length - 1 - k < l.length := by omega
    simp [h2]
  · rw [Array.getElem?_eq_none (by omega), List.getElem?_eq_none (by simp; omega)]

theorem LoopInv.step {f : UInt8 → UInt8} {l : List UInt8} {s : Array UInt8} {i1 j : Nat}
    (h : LoopInv f l s i1 j) (hij : i1 ≥ j + 1) :
    LoopInv f l ((s.setIfInBounds j (f (s.getD (i1 - 1) 0))).setIfInBounds (i1 - 1) (f (s.getD j 0)))
      (i1 - 1) (j + 1) := by
  obtain ⟨hsz, hsum, hk⟩ := h
  refine ⟨by simp [hsz], by omega, ?_⟩
  intro k hkn
  have hi : s.getD (i1 - 1) 0 = l[i1 - 1]?.getD 0 := by
    rw [Array.getD_eq_getD_getElem?, hk (i1 - 1) (by omega)]
    have : ¬ (i1 - 1 < j ∨ i1 ≤ i1 - 1) := by omega
    simp only [this, if_false, Option.getD_some]
  have hj : s.getD j 0 = l[j]?.getD 0 := by
    rw [Array.getD_eq_getD_getElem?, hk j (by omega)]
    have : ¬ (j < j ∨ i1 ≤ j) := by omega
    simp only [this, if_false, Option.getD_some]
  rw [hi, hj, Array.getElem?_setIfInBounds, Array.getElem?_setIfInBounds, Array.size_setIfInBounds]
  by_cases h1 : i1 - 1 = k
  · have h2 : k < j + 1 ∨ i1 - 1 ≤ k := by omega
    have h3 : l.length - 1 - k = j := by omega
    rw [if_pos h1, if_pos (by omega), if_pos h2, h3]
  · simp only [h1, if_false]
    by_cases h4 : j = k
    · have h2 : k < j + 1 ∨ i1 - 1 ≤ k := by omega
      have h3 : l.length - 1 - k = i1 - 1 := by omega
      rw [if_pos h4, if_pos (by omega), if_pos h2, h3]
    · simp only [h4, if_false]
      rw [hk k hkn]
      have : (k < j + 1 ∨ i1 - 1 ≤ k) ↔ (k < j ∨ i1 ≤ k) := by omega
      simp only [this]

theorem genLoop_spec (f : UInt8 → UInt8) (l : List UInt8) (fuel : Nat) (s : Array UInt8) (i1 j : Nat)
    (h : LoopInv f l s i1 j) (hf : i1 < fuel + j) :
    (genLoop f fuel s i1 j).toList = (l.map f).reverse := by
  induction fuel generalizing s i1 j with
  | zero => exact h.final (by omega)
  | succ n ih =>
    unfold genLoop
    by_cases hij : i1 ≥ j + 1
    · simp only [hij, if_true]
      exact ih _ _ _ (h.step hij) (by omega)
    · simp only [hij, if_false]
      exact h.final (by omega)

/-! ## Position transforms -/

theorem subseqPos_some_iff (a n L p : Nat) (np : Int) (ha : a < n + p) :
    subseqPos a n L p = some np ↔
      (a < p ∧ p ≤ a + L ∧ np = (p : Int) - a) ∨ (p ≤ a ∧ p + n ≤ a + L ∧ np = (p : Int) + n - a) := by
  unfold subseqPos
  simp only [ge_iff_le, Bool.and_eq_true, decide_eq_true_eq]
  by_cases h1 : (p : Int) - a < 1
  · simp only [h1, if_true]
    split
    · simp only [Option.some.injEq]; omega
    · simp only [reduceCtorEq, false_iff]; omega
  · simp only [h1, if_false]
    split
    · simp only [Option.some.injEq]; omega
    · simp only [reduceCtorEq, false_iff]; omega

theorem subseqPos_none_iff (a n L p : Nat) (ha : a < n + p) :
    subseqPos a n L p = none ↔ ¬ (a < p ∧ p ≤ a + L) ∧ ¬ (p ≤ a ∧ p + n ≤ a + L) := by
  unfold subseqPos
  simp only [ge_iff_le, Bool.and_eq_true, decide_eq_true_eq]
  by_cases h1 : (p : Int) - a < 1
  · simp only [h1, if_true]
    split
    · simp only [reduceCtorEq, false_iff]; omega
    · simp only [true_iff]; omega
  · simp only [h1, if_false]
    split
    · simp only [reduceCtorEq, false_iff]; omega
    · simp only [true_iff]; omega

theorem window_length (s : Bytes) (a L : Nat) (h : a + L ≤ 2 * s.length) :
    (((s ++ s).drop a).take L).length = L := by
  simp only [List.length_take, List.length_drop, List.length_append]; omega

theorem window_getElem? (s : Bytes) (a L k : Nat) (hk : k < L) :
    (((s ++ s).drop a).take L)[k]? = (s ++ s)[a + k]? := by
  rw [List.getElem?_take, if_pos hk, List.getElem?_drop]

theorem double_getElem?_left (s : Bytes) (i : Nat) (h : i < s.length) : (s ++ s)[i]? = s[i]? :=
  List.getElem?_append_left h

theorem double_getElem?_right (s : Bytes) (i : Nat) : (s ++ s)[s.length + i]? = s[i]? := by
  rw [List.getElem?_append_right (by omega)]
  congr 1; omega

end ObiVerif.SeqOps
