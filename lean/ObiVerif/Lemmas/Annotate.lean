import ObiVerif.Model.Annotate
/-!
# Helper lemmas on the edits of `obiannotate` (C16): association lists, frames
-/
namespace ObiVerif.Annotate
open ObiVerif.Grep

/-! ## association lists -/

theorem lookup_setKey (k k' : String) (v : AVal) (a : List (String × AVal)) :
    (setKey k v a).lookup k' = if k' = k then some v else a.lookup k' := by
  induction a with
  | nil =>
    unfold setKey
    by_cases h : k' = k
    · have hb : (k' == k) = true := by simp [h]
      simp [List.lookup, hb, h]
    · have hb : (k' == k) = false := by simp [h]
      simp [List.lookup, hb, h]
  | cons x t ih =>
    obtain ⟨kx, vx⟩ := x
    unfold setKey
    by_cases hx : kx = k
    · subst hx
      by_cases h : k' = kx
      · have hb : (k' == kx) = true := by simp [h]
        simp [List.lookup, hb, h]
      · have hb : (k' == kx) = false := by simp [h]
        simp [List.lookup, hb, h]
    · simp only [hx, if_false]
      by_cases h' : k' = kx
      · have hne : k' ≠ k := fun e => hx (h' ▸ e)
        have hb : (k' == kx) = true := by simp [h']
        simp [List.lookup, hb, hne]
      · have hb : (k' == kx) = false := by simp [h']
        simp only [List.lookup, hb, ih]

theorem lookup_filter_key (p : String → Bool) (k : String) (a : List (String × AVal)) :
    (a.filter fun kv => p kv.1).lookup k = if p k then a.lookup k else none := by
  induction a with
  | nil => simp
  | cons x t ih =>
    obtain ⟨kx, vx⟩ := x
    by_cases hk : k = kx
    · subst hk
      cases hp : p k <;> simp [List.filter, hp, List.lookup, ih]
    · have hb : (k == kx) = false := by simp [hk]
      cases hp : p kx <;> simp [List.filter, hp, List.lookup, hb, ih]

theorem lookup_delKey (k k' : String) (a : List (String × AVal)) :
    (delKey k a).lookup k' = if k' = k then none else a.lookup k' := by
  unfold delKey
  have := lookup_filter_key (fun x => decide (x ≠ k)) k' a
  simp only [ne_eq, decide_not] at this ⊢
  rw [this]
  by_cases h : k' = k <;> simp [h]

/-! ## chaining -/

theorem foldl_bind_dropped (es : List Edit) :
    es.foldl (fun acc e => Outcome.bind acc e) Outcome.dropped = Outcome.dropped := by
  induction es with
  | nil => rfl
  | cons e t ih => simpa [Outcome.bind] using ih

theorem foldl_bind_panic (es : List Edit) :
    es.foldl (fun acc e => Outcome.bind acc e) Outcome.panic = Outcome.panic := by
  induction es with
  | nil => rfl
  | cons e t ih => simpa [Outcome.bind] using ih

theorem foldl_bind_fatal (es : List Edit) :
    es.foldl (fun acc e => Outcome.bind acc e) Outcome.fatal = Outcome.fatal := by
  induction es with
  | nil => rfl
  | cons e t ih => simpa [Outcome.bind] using ih

/-- `ChainWorkers`: the first worker, then the rest on its result; a failure ends the chain -/
theorem applyAll_cons (e : Edit) (t : List Edit) (r : Rec) :
    applyAll (e :: t) r = (e r).bind (applyAll t) := by
  unfold applyAll
  rw [List.foldl_cons]
  show t.foldl (fun acc e => Outcome.bind acc e) (e r) = _
  cases e r with
  | ok r1 => rfl
  | dropped => rw [foldl_bind_dropped]; rfl
  | panic => rw [foldl_bind_panic]; rfl
  | fatal => rw [foldl_bind_fatal]; rfl

theorem applyAll_nil (r : Rec) : applyAll [] r = .ok r := rfl

theorem applyAll_append (a b : List Edit) (r : Rec) :
    applyAll (a ++ b) r = (applyAll a r).bind (applyAll b) := by
  induction a generalizing r with
  | nil => rfl
  | cons e t ih =>
    rw [List.cons_append, applyAll_cons, applyAll_cons]
    cases e r with
    | ok r1 => simp [Outcome.bind, ih]
    | dropped => rfl
    | panic => rfl
    | fatal => rfl

theorem bind_ok {x : Outcome} {f : Rec → Outcome} {r' : Rec} (h : x.bind f = .ok r') :
    ∃ r1, x = .ok r1 ∧ f r1 = .ok r' := by
  cases x with
  | ok r1 => exact ⟨r1, rfl, h⟩
  | dropped => simp [Outcome.bind] at h
  | panic => simp [Outcome.bind] at h
  | fatal => simp [Outcome.bind] at h

/-! ## frames: an edit that leaves an observation of the record unchanged -/

def Keeps {α : Type} (obs : Rec → α) (e : Edit) : Prop := ∀ r r', e r = .ok r' → obs r' = obs r

theorem applyAll_keeps {α : Type} (obs : Rec → α) (es : List Edit) (h : ∀ e ∈ es, Keeps obs e) :
    Keeps obs (applyAll es) := by
  induction es with
  | nil => intro r r' hr; simp [applyAll_nil] at hr; rw [hr]
  | cons e t ih =>
    intro r r' hr
    rw [applyAll_cons] at hr
    obtain ⟨r1, h1, h2⟩ := bind_ok hr
    have := ih (fun e' he' => h e' (by simp [he'])) r1 r' h2
    rw [this, h e (by simp) r r1 h1]

theorem foldl_bind_keeps {α β : Type} (obs : Rec → α) (l : List β) (f : β → Edit)
    (h : ∀ b ∈ l, Keeps obs (f b)) :
    Keeps obs (fun r => l.foldl (fun acc b => Outcome.bind acc (f b)) (.ok r)) := by
  have e : ∀ r, l.foldl (fun acc b => Outcome.bind acc (f b)) (.ok r) = applyAll (l.map f) r := by
    intro r; unfold applyAll; rw [List.foldl_map]
  intro r r' hr
  have hr' : l.foldl (fun acc b => Outcome.bind acc (f b)) (.ok r) = .ok r' := hr
  rw [e] at hr'
  refine applyAll_keeps obs (l.map f) ?_ r r' hr'
  exact
    (by intro e' he'; obtain ⟨b, hb, rfl⟩ := List.mem_map.mp he'; exact h b hb)

/-- what `SetAttribute` does when it succeeds -/
theorem setAttribute_ok {k : String} {v : AVal} {r r' : Rec} (h : setAttribute k v r = .ok r') :
    r'.seq = r.seq ∧ (k ≠ "id" → r'.id = r.id ∧ r'.attrs = setKey k v r.attrs) ∧
    (k = "id" → r'.attrs = r.attrs ∧ v = .str r'.id) := by
  unfold setAttribute at h
  by_cases h1 : k = "id"
  · simp only [h1, if_true] at h
    cases v <;> simp at h
    subst h; simp [h1]
  · by_cases h2 : k = "sequence"
    · simp [h1, h2] at h
    · by_cases h3 : k = "qualities"
      · simp [h1, h2, h3] at h
      · simp only [h1, h2, h3, if_false, Outcome.ok.injEq] at h
        subst h; simp [h1]

theorem renameAttribute_ok {new old : String} {r r' : Rec} (h : renameAttribute new old r = .ok r') :
    r'.seq = r.seq ∧ (new ≠ "id" → r'.id = r.id) ∧
    ∀ k, k ≠ new → k ≠ old → r'.attrs.lookup k = r.attrs.lookup k := by
  unfold renameAttribute at h
  cases hg : getAttribute old r with
  | none => simp [hg] at h; subst h; simp
  | some v =>
    simp only [hg] at h
    obtain ⟨r1, h1, h2⟩ := bind_ok h
    simp only [Outcome.ok.injEq] at h2
    subst h2
    obtain ⟨hs, hn, hi⟩ := setAttribute_ok h1
    refine ⟨by simp [deleteAttribute, hs], ?_, ?_⟩
    · intro hne; simp [deleteAttribute, (hn hne).1]
    · intro k hk1 hk2
      simp only [deleteAttribute, lookup_delKey, hk2, if_false]
      by_cases hid : new = "id"
      · rw [(hi hid).1]
      · rw [(hn hid).2, lookup_setKey]; simp [hk1]

theorem mem_ite_singleton {c : Prop} [Decidable c] {e x : Edit} (h : e ∈ (if c then [x] else [])) :
    c ∧ e = x := by
  split at h
  · rename_i hc; exact ⟨hc, by simpa using h⟩
  · simp at h

theorem foldl_delete (ks : List String) (r : Rec) :
    (ks.foldl (fun r k => deleteAttribute k r) r).seq = r.seq ∧
    (ks.foldl (fun r k => deleteAttribute k r) r).id = r.id ∧
    ∀ k, (ks.foldl (fun r k => deleteAttribute k r) r).attrs.lookup k
      = if k ∈ ks then none else r.attrs.lookup k := by
  induction ks generalizing r with
  | nil => simp
  | cons a t ih =>
    obtain ⟨h1, h2, h3⟩ := ih (deleteAttribute a r)
    rw [List.foldl_cons]
    refine ⟨h1.trans rfl, h2.trans rfl, ?_⟩
    intro k
    rw [h3 k]
    show (if k ∈ t then none else (delKey a r.attrs).lookup k) = _
    rw [lookup_delKey]
    by_cases hk : k = a
    · simp [hk]
    · by_cases ht : k ∈ t <;> simp [hk, ht]

/-! ### per-edit frames -/

theorem clearAll_keeps_seq : Keeps (·.seq) clearAll := by
  intro r r' h; simp [clearAll] at h; subst h; rfl
theorem clearAll_keeps_id : Keeps (·.id) clearAll := by
  intro r r' h; simp [clearAll] at h; subst h; rfl

theorem editId_keeps {α : Type} (obs : Rec → α) (O : Oracles) (e : String)
    (hobs : ∀ r s, obs { r with id := s } = obs r) : Keeps obs (editId O e) := by
  intro r r' h
  unfold editId at h
  cases hv : O.evalExpr e r with
  | none => simp [hv] at h
  | some v => simp [hv] at h; subst h; exact hobs r _

theorem deleteAttributes_keeps_seq (ks : List String) : Keeps (·.seq) (deleteAttributes ks) := by
  intro r r' h; simp [deleteAttributes] at h; subst h; exact (foldl_delete ks r).1
theorem deleteAttributes_keeps_id (ks : List String) : Keeps (·.id) (deleteAttributes ks) := by
  intro r r' h; simp [deleteAttributes] at h; subst h; exact (foldl_delete ks r).2.1
theorem deleteAttributes_lookup (ks : List String) (r r' : Rec) (h : deleteAttributes ks r = .ok r') (k : String) :
    r'.attrs.lookup k = if k ∈ ks then none else r.attrs.lookup k := by
  simp [deleteAttributes] at h; subst h; exact (foldl_delete ks r).2.2 k

theorem keepAttributes_keeps_seq (ks : List String) : Keeps (·.seq) (keepAttributes ks) := by
  intro r r' h; simp [keepAttributes] at h; subst h; rfl
theorem keepAttributes_keeps_id (ks : List String) : Keeps (·.id) (keepAttributes ks) := by
  intro r r' h; simp [keepAttributes] at h; subst h; rfl
theorem keepAttributes_lookup (ks : List String) (r r' : Rec) (h : keepAttributes ks r = .ok r') (k : String) :
    r'.attrs.lookup k = if k ∈ ks then r.attrs.lookup k else none := by
  simp [keepAttributes] at h; subst h
  have := lookup_filter_key (fun x => ks.contains x) k r.attrs
  simpa using this

theorem renameAttributes_keeps_seq (ps : List (String × String)) : Keeps (·.seq) (renameAttributes ps) :=
  foldl_bind_keeps (·.seq) ps (fun p => renameAttribute p.1 p.2)
    (fun _ _ _ _ h => (renameAttribute_ok h).1)
theorem renameAttributes_keeps_id (ps : List (String × String)) (hp : ∀ p ∈ ps, p.1 ≠ "id") :
    Keeps (·.id) (renameAttributes ps) :=
  foldl_bind_keeps (·.id) ps (fun p => renameAttribute p.1 p.2)
    (fun p hpm _ _ h => (renameAttribute_ok h).2.1 (hp p hpm))
theorem renameAttributes_keeps_attr (ps : List (String × String)) (k : String)
    (hp : ∀ p ∈ ps, k ≠ p.1 ∧ k ≠ p.2) : Keeps (fun r => r.attrs.lookup k) (renameAttributes ps) :=
  foldl_bind_keeps (fun r => r.attrs.lookup k) ps (fun p => renameAttribute p.1 p.2)
    (fun p hpm _ _ h => (renameAttribute_ok h).2.2 k (hp p hpm).1 (hp p hpm).2)

theorem addSeqLength_keeps_seq : Keeps (·.seq) addSeqLength := by
  intro r r' h; exact (setAttribute_ok h).1
theorem addSeqLength_keeps_id : Keeps (·.id) addSeqLength := by
  intro r r' h; exact ((setAttribute_ok h).2.1 (by decide)).1
theorem addSeqLength_lookup (r r' : Rec) (h : addSeqLength r = .ok r') (k : String) :
    r'.attrs.lookup k = if k = "seq_length" then some (.int r.len) else r.attrs.lookup k := by
  rw [((setAttribute_ok h).2.1 (by decide)).2, lookup_setKey]

theorem editAttribute_ok {O : Oracles} {k e : String} {r r' : Rec} (h : editAttribute O k e r = .ok r') :
    ∃ v, O.evalExpr e r = some v ∧ setAttribute k v r = .ok r' := by
  unfold editAttribute at h
  cases hv : O.evalExpr e r with
  | none => simp [hv] at h
  | some v => exact ⟨v, rfl, by simpa [hv] using h⟩

theorem evalAttributes_keeps_seq (O : Oracles) (ps : List (String × String)) :
    Keeps (·.seq) (evalAttributes O ps) :=
  foldl_bind_keeps (·.seq) ps (fun p => editAttribute O p.1 p.2)
    (fun _ _ _ _ h => by obtain ⟨v, _, hs⟩ := editAttribute_ok h; exact (setAttribute_ok hs).1)
theorem evalAttributes_keeps_id (O : Oracles) (ps : List (String × String)) (hp : ∀ p ∈ ps, p.1 ≠ "id") :
    Keeps (·.id) (evalAttributes O ps) :=
  foldl_bind_keeps (·.id) ps (fun p => editAttribute O p.1 p.2)
    (fun p hpm _ _ h => by obtain ⟨v, _, hs⟩ := editAttribute_ok h; exact ((setAttribute_ok hs).2.1 (hp p hpm)).1)
theorem evalAttributes_keeps_attr (O : Oracles) (ps : List (String × String)) (k : String)
    (hp : ∀ p ∈ ps, k ≠ p.1) : Keeps (fun r => r.attrs.lookup k) (evalAttributes O ps) :=
  foldl_bind_keeps (fun r => r.attrs.lookup k) ps (fun p => editAttribute O p.1 p.2)
    (fun p hpm r r' h => by
      obtain ⟨v, _, hs⟩ := editAttribute_ok h
      obtain ⟨_, hn, hi⟩ := setAttribute_ok hs
      show r'.attrs.lookup k = r.attrs.lookup k
      by_cases hid : p.1 = "id"
      · rw [(hi hid).1]
      · rw [(hn hid).2, lookup_setKey]; simp [hp p hpm])

theorem subsequence_attrs {f t : Int} {r s : Rec} (h : subsequence f t r = some s) : s.attrs = r.attrs := by
  unfold subsequence at h
  split at h; · simp at h
  split at h; · simp at h
  split at h; · simp at h
  split at h; · simp at h
  simp at h; subst h; rfl

theorem cutSequence_keeps_attrs (a b : Int) : Keeps (·.attrs) (cutSequence a b) := by
  intro r r' h
  unfold cutSequence at h
  split at h
  · simp at h; subst h; rfl
  · simp only at h
    split at h
    · rename_i s hs; simp at h; subst h; exact subsequence_attrs hs
    · simp at h

/-! ### library-driven workers: they only set attributes, under names fixed by the options -/

theorem setAttribute_keeps_seq (k : String) (v : AVal) : Keeps (·.seq) (setAttribute k v) :=
  fun _ _ h => (setAttribute_ok h).1
theorem setAttribute_keeps_id (k : String) (v : AVal) (hk : k ≠ "id") : Keeps (·.id) (setAttribute k v) :=
  fun _ _ h => ((setAttribute_ok h).2.1 hk).1
theorem setAttribute_keeps_attr (k : String) (v : AVal) (k' : String) (hk : k' ≠ k) :
    Keeps (fun r => r.attrs.lookup k') (setAttribute k v) := by
  intro r r' h
  obtain ⟨_, hn, hi⟩ := setAttribute_ok h
  show r'.attrs.lookup k' = r.attrs.lookup k'
  by_cases hid : k = "id"
  · rw [(hi hid).1]
  · rw [(hn hid).2, lookup_setKey]; simp [hk]

/-- an edit `r ↦ setAttrs (g r) r` keeps an observation every `SetAttribute(key, _)` with `key` among
the names `K` keeps, when `g` only proposes names of `K` -/
theorem dynAttrs_keeps {α : Type} (obs : Rec → α) (g : Rec → List (String × AVal)) (K : List String)
    (hK : ∀ r, ∀ kv ∈ g r, kv.1 ∈ K) (hobs : ∀ k ∈ K, ∀ v, Keeps obs (setAttribute k v)) :
    Keeps obs (fun r => setAttrs (g r) r) := by
  intro r r' h
  exact foldl_bind_keeps obs (g r) (fun kv => setAttribute kv.1 kv.2)
    (fun kv hkv => hobs kv.1 (hK r kv hkv) kv.2) r r' h

theorem taxonAtRankAttrs_keys (O : Oracles) (rank : String) (r : Rec) :
    ∀ kv ∈ taxonAtRankAttrs O rank r, kv.1 ∈ [rank ++ "_taxid", rank ++ "_name"] := by
  intro kv h
  unfold taxonAtRankAttrs at h
  split at h
  · simp at h
  · simp only [List.mem_cons, List.not_mem_nil, or_false] at h
    rcases h with h | h <;> simp [h]
  · simp only [List.mem_cons, List.not_mem_nil, or_false] at h
    rcases h with h | h <;> simp [h]

theorem ahoCorasickAttrs_keys (O : Oracles) (r : Rec) :
    ∀ kv ∈ ahoCorasickAttrs O r, kv.1 ∈ ["aho_corasick", "aho_corasick_Fwd", "aho_corasick_Rev"] := by
  intro kv h
  unfold ahoCorasickAttrs at h
  simp only at h
  split at h
  · simp only [List.mem_cons, List.not_mem_nil, or_false] at h
    rcases h with h | h | h <;> simp [h]
  · simp at h

theorem matchPatternAttrs_keys (O : Oracles) (pattern name : String) (e : Int) (indel both : Bool) (r : Rec) :
    ∀ kv ∈ matchPatternAttrs O pattern name e indel both r,
      kv.1 ∈ [(patternSlots name).1, (patternSlots name).2.1, (patternSlots name).2.2.1, (patternSlots name).2.2.2] := by
  intro kv h
  unfold matchPatternAttrs at h
  simp only at h
  split at h
  · simp only [List.mem_cons, List.not_mem_nil, or_false] at h
    rcases h with h | h | h | h <;> simp [h]
  · split at h
    · split at h
      · simp only [List.mem_cons, List.not_mem_nil, or_false] at h
        rcases h with h | h | h | h <;> simp [h]
      · simp at h
    · simp at h

theorem lcaAttrs_keys (slot : String) (v : LcaVerdict) :
    ∀ kv ∈ lcaAttrs slot v,
      kv.1 ∈ ["merged_taxid", (lcaSlots slot).1, (lcaSlots slot).2.1, (lcaSlots slot).2.2] := by
  intro kv h
  unfold lcaAttrs at h
  simp only [List.mem_append, List.mem_cons, List.not_mem_nil, or_false] at h
  rcases h with h | h | h | h
  · split at h
    · simp only [List.mem_cons, List.not_mem_nil, or_false] at h; simp [h]
    · simp at h
  · simp [h]
  · simp [h]
  · simp [h]

theorem addLCA_keeps {α : Type} (obs : Rec → α) (O : Oracles) (slot err : String)
    (hobs : ∀ k ∈ ["merged_taxid", (lcaSlots slot).1, (lcaSlots slot).2.1, (lcaSlots slot).2.2], ∀ v,
      Keeps obs (setAttribute k v)) : Keeps obs (addLCA O slot err) := by
  intro r r' h
  unfold addLCA at h
  split at h
  · simp at h
  · rename_i v _
    exact foldl_bind_keeps obs (lcaAttrs slot v) (fun kv => setAttribute kv.1 kv.2)
      (fun kv hkv => hobs kv.1 (lcaAttrs_keys slot v kv hkv) kv.2) r r' h

theorem addTaxonAtRank_keeps {α : Type} (obs : Rec → α) (O : Oracles) (ranks : List String)
    (hobs : ∀ rank ∈ ranks, ∀ k ∈ [rank ++ "_taxid", rank ++ "_name"], ∀ v, Keeps obs (setAttribute k v)) :
    Keeps obs (addTaxonAtRank O ranks) :=
  foldl_bind_keeps obs ranks (fun rank r => setAttrs (taxonAtRankAttrs O rank r) r)
    (fun rank hr => dynAttrs_keeps obs (taxonAtRankAttrs O rank) _ (taxonAtRankAttrs_keys O rank) (hobs rank hr))

theorem setFromTaxonomy_keeps {α : Type} (obs : Rec → α) (key : String) (f : Rec → Option String)
    (hobs : ∀ v, Keeps obs (setAttribute key v)) : Keeps obs (setFromTaxonomy key f) := by
  intro r r' h
  unfold setFromTaxonomy at h
  split at h
  · exact hobs _ r r' h
  · simp at h

theorem mem_libraryKeys_rank (o : AnnotOpts) (rank : String) (h : rank ∈ o.taxonAtRank) :
    ∀ k ∈ [rank ++ "_taxid", rank ++ "_name"], k ∈ libraryKeys o := by
  intro k hk
  unfold libraryKeys
  simp only [List.mem_append, List.mem_flatMap]
  exact Or.inl (Or.inl (Or.inl (Or.inl (Or.inl (Or.inl ⟨rank, h, hk⟩)))))

theorem mem_libraryKeys_lca (o : AnnotOpts) (h : o.lcaSlot ≠ "") :
    ∀ k ∈ ["merged_taxid", (lcaSlots o.lcaSlot).1, (lcaSlots o.lcaSlot).2.1, (lcaSlots o.lcaSlot).2.2],
      k ∈ libraryKeys o := by
  intro k hk
  unfold libraryKeys
  simp only [h, ne_eq, not_false_eq_true, if_true, List.mem_append]
  exact Or.inl (Or.inl (Or.inr hk))

end ObiVerif.Annotate
