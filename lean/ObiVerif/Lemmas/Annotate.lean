import ObiVerif.Model.Annotate
namespace ObiVerif.Annotate
open ObiVerif.Grep
end ObiVerif.Annotate
