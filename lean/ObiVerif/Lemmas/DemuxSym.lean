import ObiVerif.Lemmas.DemuxRead
/-!
# Strand symmetry of the hit collection of the demultiplexer (C12)

`ExtractMultiBarcode` searches the complemented partner primer only when the primer itself has a
hit, and only after the first hit of the primer (`gate`).  On the reverse-complemented read the
roles of the four patterns are exchanged (`mirrorHits`).  This file characterises the hit lists on
which the collection is strand-symmetric:

* `collect_symmetric` : if the gating drops nothing on either strand (`Ungated`) and the hits are
  `Separated`, the sorted list of collected hits of the reverse-complemented read is the mirror
  image of the sorted list of the read (hence `machine_symmetric`: the state machine extracts the
  mirrored pairs in the opposite order);
* `collect_asymmetric_of_gated` : conversely, if the collected hits of the two strands are mirror
  images of each other (as multisets), the gating dropped nothing on either strand.
-/
namespace ObiVerif.Demux

abbrev Triple := Int × Int × Int

/-- hits of a gated call: none if the partner primer has no hit, else those starting after the
partner's first hit -/
def gateList (first l : List Triple) : List Triple :=
  match first with
  | [] => []
  | (b, _, _) :: _ => l.filter (fun x => decide (b + 1 ≤ x.1))

/-- from ALL the hits of the four patterns (`h`) to what ExtractMultiBarcode obtains -/
def gate (h : Hits) : Hits := ⟨h.f, gateList h.f h.cr, h.r, gateList h.r h.cf⟩

def mirrorTriples (L : Int) (l : List Triple) : List Triple :=
  (l.map (fun x => (L - x.2.1, L - x.1, x.2.2))).reverse

/-- all the hits of the four patterns on the reverse-complemented read -/
def mirrorHits (L : Int) (h : Hits) : Hits :=
  ⟨mirrorTriples L h.cf, mirrorTriples L h.r, mirrorTriples L h.cr, mirrorTriples L h.f⟩

/-- the gating drops nothing -/
def Ungated (h : Hits) : Prop := gate h = h

/-- two hits start at different positions, end at different positions, and are in the same order
by begin and by end (neither nested nor co-located).  The relation is symmetric. -/
def SepRel (x y : PrimerMatch) : Prop :=
  x.begin ≠ y.begin ∧ x.end_ ≠ y.end_ ∧ (x.begin < y.begin ↔ x.end_ < y.end_)

/-- the hits, ordered by begin, are also (strictly) ordered by end, and no two start at the same
position (no nested / co-located hits) -/
def Separated (l : List PrimerMatch) : Prop := l.Pairwise SepRel

theorem SepRel.symm {x y : PrimerMatch} (h : SepRel x y) : SepRel y x := by
  obtain ⟨h1, h2, h3⟩ := h
  refine ⟨fun e => h1 e.symm, fun e => h2 e.symm, ?_⟩
  constructor
  · intro hlt
    have : ¬ x.end_ < y.end_ := fun hc => by have := h3.2 hc; omega
    omega
  · intro hlt
    have : ¬ x.begin < y.begin := fun hc => by have := h3.1 hc; omega
    omega

theorem Separated.perm {l l' : List PrimerMatch} (p : l.Perm l') (h : Separated l) :
    Separated l' :=
  List.Perm.pairwise p h (fun hxy => SepRel.symm hxy)

/-! ## gating -/

theorem gateList_nil_left (l : List Triple) : gateList [] l = [] := rfl

theorem gateList_nil_right (first : List Triple) : gateList first [] = [] := by
  cases first with
  | nil => rfl
  | cons a t => obtain ⟨b, e, k⟩ := a; rfl

theorem gateList_length_le (first l : List Triple) : (gateList first l).length ≤ l.length := by
  cases first with
  | nil => simp [gateList]
  | cons a t => obtain ⟨b, e, k⟩ := a; exact List.length_filter_le _ _

/-- a gated call that returns as many hits as the ungated one returns the same hits -/
theorem gateList_eq_of_length (first l : List Triple)
    (h : (gateList first l).length = l.length) : gateList first l = l := by
  cases first with
  | nil =>
    simp only [gateList, List.length_nil] at h
    simp only [gateList]
    exact (List.length_eq_zero_iff.1 h.symm).symm
  | cons a t =>
    obtain ⟨b, e, k⟩ := a
    simp only [gateList] at h ⊢
    exact List.filter_eq_self.2 (List.length_filter_eq_length_iff.1 h)

theorem ungated_iff (h : Hits) :
    Ungated h ↔ gateList h.f h.cr = h.cr ∧ gateList h.r h.cf = h.cf := by
  obtain ⟨f, cr, r, cf⟩ := h
  simp [Ungated, gate]

/-- the gated calls return nothing when the partner has no hit -/
def Closed (h : Hits) : Prop := (h.f = [] → h.cr = []) ∧ (h.r = [] → h.cf = [])

theorem closed_gate (h : Hits) : Closed (gate h) := by
  constructor
  · intro hf
    simp only [gate] at hf ⊢
    rw [hf]; rfl
  · intro hr
    simp only [gate] at hr ⊢
    rw [hr]; rfl

theorem closed_of_ungated {h : Hits} (hu : Ungated h) : Closed h := by
  have := closed_gate h
  rw [show gate h = h from hu] at this
  exact this

/-- the four blocks of hits of one marker -/
def block (h : Hits) (i : Int) : List PrimerMatch :=
  (mkMatches h.f i true ++ mkMatches h.cr (-i) true) ++
    (mkMatches h.r i false ++ mkMatches h.cf (-i) false)

theorem mkMatches_nil (m : Int) (fw : Bool) : mkMatches [] m fw = [] := rfl

theorem collect_cons_closed (h : Hits) (hs : List Hits) (i : Int) (hc : Closed h) :
    collect (h :: hs) i = block h i ++ collect hs (i + 1) := by
  obtain ⟨h1, h2⟩ := hc
  have e1 : (if h.f ≠ [] then mkMatches h.f i true ++ mkMatches h.cr (-i) true else []) =
      mkMatches h.f i true ++ mkMatches h.cr (-i) true := by
    by_cases hf : h.f = []
    · simp [hf, h1 hf, mkMatches_nil]
    · simp [hf]
  have e2 : (if h.r ≠ [] then mkMatches h.r i false ++ mkMatches h.cf (-i) false else []) =
      mkMatches h.r i false ++ mkMatches h.cf (-i) false := by
    by_cases hr : h.r = []
    · simp [hr, h2 hr, mkMatches_nil]
    · simp [hr]
  simp only [collect, block]
  rw [e1, e2]

/-! ## A. the collected hits of the reverse-complemented read -/

theorem mkMatches_mirror (L : Int) (l : List Triple) (m : Int) (fw : Bool) :
    mkMatches (mirrorTriples L l) m fw =
      ((mkMatches l (-m) (!fw)).map (mirrorMatch L)).reverse := by
  simp only [mkMatches, mirrorTriples, List.map_reverse, List.map_map]
  congr 1
  apply List.map_congr_left
  intro x _
  simp [mirrorMatch]

theorem block_mirror_perm (L : Int) (h : Hits) (i : Int) :
    (block (mirrorHits L h) i).Perm ((block h i).map (mirrorMatch L)) := by
  simp only [block, mirrorHits, mkMatches_mirror, Int.neg_neg, Bool.not_true, Bool.not_false]
  rw [List.perm_iff_count]
  intro a
  simp only [List.count_append, List.count_reverse, List.map_append]
  omega

theorem collect_mirror_perm (L : Int) (hs : List Hits) (i : Int)
    (h1 : ∀ h ∈ hs, Ungated h) (h2 : ∀ h ∈ hs, Ungated (mirrorHits L h)) :
    (collect (hs.map (mirrorHits L)) i).Perm ((collect hs i).map (mirrorMatch L)) := by
  induction hs generalizing i with
  | nil => simp [collect]
  | cons h t ih =>
    have c1 := closed_of_ungated (h1 h (List.mem_cons_self))
    have c2 := closed_of_ungated (h2 h (List.mem_cons_self))
    rw [List.map_cons, collect_cons_closed _ _ _ c2, collect_cons_closed _ _ _ c1, List.map_append]
    exact List.Perm.append (block_mirror_perm L h i)
      (ih (i + 1) (fun x hx => h1 x (List.mem_cons_of_mem _ hx))
        (fun x hx => h2 x (List.mem_cons_of_mem _ hx)))

/-! ## B. sorting -/

theorem insertByBegin_perm (x : PrimerMatch) (l : List PrimerMatch) :
    (insertByBegin x l).Perm (x :: l) := by
  induction l with
  | nil => exact List.Perm.refl _
  | cons y ys ih =>
    simp only [insertByBegin]
    split
    · exact List.Perm.refl _
    · exact (List.Perm.cons y ih).trans (List.Perm.swap x y ys)

theorem sortByBegin_perm (l : List PrimerMatch) : (sortByBegin l).Perm l := by
  induction l with
  | nil => exact List.Perm.refl _
  | cons x t ih =>
    show (insertByBegin x (sortByBegin t)).Perm (x :: t)
    exact (insertByBegin_perm x _).trans (List.Perm.cons x ih)

theorem insertByBegin_sorted (x : PrimerMatch) (l : List PrimerMatch)
    (h : l.Pairwise (fun x y => x.begin ≤ y.begin)) :
    (insertByBegin x l).Pairwise (fun x y => x.begin ≤ y.begin) := by
  induction l with
  | nil => simp [insertByBegin]
  | cons y ys ih =>
    rw [List.pairwise_cons] at h
    obtain ⟨hy, hys⟩ := h
    simp only [insertByBegin]
    split
    · rename_i hxy
      rw [List.pairwise_cons]
      refine ⟨?_, List.pairwise_cons.2 ⟨hy, hys⟩⟩
      intro z hz
      rcases List.mem_cons.1 hz with rfl | hz
      · exact hxy
      · exact Int.le_trans hxy (hy z hz)
    · rename_i hxy
      rw [List.pairwise_cons]
      refine ⟨?_, ih hys⟩
      intro z hz
      rcases List.mem_cons.1 ((insertByBegin_perm x ys).mem_iff.1 hz) with rfl | hz
      · omega
      · exact hy z hz

theorem sortByBegin_sorted (l : List PrimerMatch) :
    (sortByBegin l).Pairwise (fun x y => x.begin ≤ y.begin) := by
  induction l with
  | nil => exact List.Pairwise.nil
  | cons x t ih => exact insertByBegin_sorted x _ ih

/-- a list sorted by begin and a permutation of it strictly sorted by begin are equal -/
theorem eq_of_perm_sorted (l₁ l₂ : List PrimerMatch) (p : l₁.Perm l₂)
    (s1 : l₁.Pairwise (fun x y => x.begin ≤ y.begin))
    (s2 : l₂.Pairwise (fun x y => x.begin < y.begin)) : l₁ = l₂ := by
  induction l₁ generalizing l₂ with
  | nil => exact (List.Perm.nil_eq p)
  | cons a t ih =>
    cases l₂ with
    | nil => exact absurd p.length_eq (by simp)
    | cons b u =>
      rw [List.pairwise_cons] at s1 s2
      have hab : a = b := by
        rcases List.mem_cons.1 (p.mem_iff.1 (List.mem_cons_self)) with hab | hau
        · exact hab
        · rcases List.mem_cons.1 (p.mem_iff.2 (List.mem_cons_self)) with hba | hbt
          · exact hba.symm
          · have := s1.1 b hbt
            have := s2.1 a hau
            omega
      subst hab
      rw [ih u (List.Perm.cons_inv p) s1.2 s2.2]

/-- two lists sorted by begin, permutations of each other, with pairwise distinct begins, are
equal -/
theorem eq_of_perm_sorted_distinct (l₁ l₂ : List PrimerMatch) (p : l₁.Perm l₂)
    (s1 : l₁.Pairwise (fun x y => x.begin ≤ y.begin))
    (s2 : l₂.Pairwise (fun x y => x.begin ≤ y.begin))
    (d : l₂.Pairwise (fun x y => x.begin ≠ y.begin)) : l₁ = l₂ :=
  eq_of_perm_sorted l₁ l₂ p s1
    ((s2.and d).imp (fun {a b} h => by have := h.1; have := h.2; omega))

/-! ## C. the symmetric class -/

theorem mirrorList_sorted (L : Int) (l : List PrimerMatch)
    (s : l.Pairwise (fun x y => x.begin ≤ y.begin)) (sep : Separated l) :
    (mirrorList L l).Pairwise (fun x y => x.begin < y.begin) := by
  rw [mirrorList, List.pairwise_reverse, List.pairwise_map]
  refine (s.and sep).imp ?_
  intro a b h
  obtain ⟨h1, h2, h3, h4⟩ := h
  simp only [mirrorMatch]
  have : a.begin < b.begin := by omega
  have := h4.1 this
  omega

theorem collect_symmetric (L : Int) (hs : List Hits)
    (h1 : ∀ h ∈ hs, Ungated h) (h2 : ∀ h ∈ hs, Ungated (mirrorHits L h))
    (sep : Separated (collect hs 1)) :
    sortByBegin (collect (hs.map (mirrorHits L)) 1) =
      mirrorList L (sortByBegin (collect hs 1)) := by
  apply eq_of_perm_sorted
  · refine (sortByBegin_perm _).trans ((collect_mirror_perm L hs 1 h1 h2).trans ?_)
    rw [mirrorList]
    exact ((sortByBegin_perm (collect hs 1)).map (mirrorMatch L)).symm.trans
      (List.reverse_perm _).symm
  · exact sortByBegin_sorted _
  · exact mirrorList_sorted L _ (sortByBegin_sorted _)
      (Separated.perm (sortByBegin_perm _).symm sep)

/-- on the symmetric class the state machine run on the reverse-complemented read extracts the
mirrored pairs of the read, in the opposite order -/
theorem machine_symmetric (L : Int) (hs : List Hits) (markers : List Marker)
    (seq' : SeqOps.Bytes)
    (h1 : ∀ h ∈ hs, Ungated h) (h2 : ∀ h ∈ hs, Ungated (mirrorHits L h))
    (sep : Separated (collect hs 1)) :
    machine markers seq' none (sortByBegin (collect (hs.map (mirrorHits L)) 1)) =
      runPairs markers seq'
        (((adjPairs (sortByBegin (collect hs 1))).map (mirrorPair L)).reverse) := by
  rw [collect_symmetric L hs h1 h2 sep, machine_pairs, adjPairs_mirror]

/-! ## D. the complement: symmetric collections are ungated -/

/-- the class of a hit: (signed marker number, orientation flag) -/
def cls (m : Int) (fw : Bool) (x : PrimerMatch) : Bool := decide (x.marker = m) && (x.forward == fw)

theorem countP_mkMatches (l : List Triple) (m m' : Int) (fw fw' : Bool) :
    (mkMatches l m' fw').countP (cls m fw) = if m' = m ∧ fw' = fw then l.length else 0 := by
  induction l with
  | nil => simp [mkMatches]
  | cons a t ih =>
    have hc : mkMatches (a :: t) m' fw' = ⟨a.1, a.2.1, a.2.2, m', fw'⟩ :: mkMatches t m' fw' := rfl
    rw [hc, List.countP_cons, ih]
    by_cases h : m' = m ∧ fw' = fw
    · simp [h, cls]
    · simp only [h, if_false, cls]
      have : (decide (m' = m) && (fw' == fw)) = false := by
        rcases Classical.not_and_iff_not_or_not.1 h with h | h
        · simp [h]
        · simp [h]
      simp [this]

theorem cls_mirror (L : Int) (m : Int) (fw : Bool) (x : PrimerMatch) :
    cls m fw (mirrorMatch L x) = cls (-m) (!fw) x := by
  have e : (-x.marker = m) ↔ (x.marker = -m) := by omega
  cases hx : x.forward <;> cases fw <;> simp [cls, mirrorMatch, hx, e]

theorem countP_map_mirror (L : Int) (m : Int) (fw : Bool) (l : List PrimerMatch) :
    (l.map (mirrorMatch L)).countP (cls m fw) = l.countP (cls (-m) (!fw)) := by
  rw [List.countP_map]
  congr 1
  funext x
  exact cls_mirror L m fw x

/-- number of hits of each of the four classes in the block of a marker -/
theorem countP_block (h : Hits) (i : Int) (hi : 0 < i) :
    (block h i).countP (cls i true) = h.f.length ∧
    (block h i).countP (cls (-i) true) = h.cr.length ∧
    (block h i).countP (cls i false) = h.r.length ∧
    (block h i).countP (cls (-i) false) = h.cf.length := by
  have n1 : ¬ (-i = i) := by omega
  have n2 : ¬ (i = -i) := by omega
  simp [block, List.countP_append, countP_mkMatches, n1, n2]

theorem length_mirrorTriples (L : Int) (l : List Triple) : (mirrorTriples L l).length = l.length := by
  simp [mirrorTriples]

/-- one marker: if the collected hits of the two strands are mirror images of each other, the
gating dropped nothing -/
theorem block_asymmetric (L : Int) (h : Hits) (i : Int) (hi : 0 < i)
    (p : (block (gate (mirrorHits L h)) i).Perm ((block (gate h) i).map (mirrorMatch L))) :
    Ungated h ∧ Ungated (mirrorHits L h) := by
  obtain ⟨a1, a2, a3, a4⟩ := countP_block (gate (mirrorHits L h)) i hi
  obtain ⟨b1, b2, b3, b4⟩ := countP_block (gate h) i hi
  have c1 := p.countP_eq (cls i true)
  have c2 := p.countP_eq (cls (-i) true)
  have c3 := p.countP_eq (cls i false)
  have c4 := p.countP_eq (cls (-i) false)
  rw [countP_map_mirror] at c1 c2 c3 c4
  simp only [Int.neg_neg, Bool.not_true, Bool.not_false] at c1 c2 c3 c4
  rw [a1, b4] at c1
  rw [a2, b3] at c2
  rw [a3, b2] at c3
  rw [a4, b1] at c4
  simp only [gate, mirrorHits, length_mirrorTriples] at c1 c2 c3 c4
  rw [ungated_iff, ungated_iff]
  refine ⟨⟨gateList_eq_of_length _ _ c3.symm, gateList_eq_of_length _ _ c1.symm⟩, ?_, ?_⟩
  · apply gateList_eq_of_length
    simp only [mirrorHits, length_mirrorTriples]
    exact c2
  · apply gateList_eq_of_length
    simp only [mirrorHits, length_mirrorTriples]
    exact c4

theorem mem_mkMatches_marker {l : List Triple} {m : Int} {fw : Bool} {x : PrimerMatch}
    (hx : x ∈ mkMatches l m fw) : x.marker = m := by
  simp only [mkMatches, List.mem_map] at hx
  obtain ⟨a, _, rfl⟩ := hx
  rfl

theorem block_marker {h : Hits} {i : Int} {x : PrimerMatch} (hx : x ∈ block h i) :
    x.marker = i ∨ x.marker = -i := by
  simp only [block, List.mem_append] at hx
  rcases hx with (hx | hx) | (hx | hx)
  · exact Or.inl (mem_mkMatches_marker hx)
  · exact Or.inr (mem_mkMatches_marker hx)
  · exact Or.inl (mem_mkMatches_marker hx)
  · exact Or.inr (mem_mkMatches_marker hx)

/-- the markers of `collect hs i` are numbered from `i` on -/
theorem collect_marker (hs : List Hits) (i : Int) (hi : 0 < i) (hc : ∀ h ∈ hs, Closed h)
    (x : PrimerMatch) (hx : x ∈ collect hs i) : i ≤ x.marker ∨ x.marker ≤ -i := by
  induction hs generalizing i with
  | nil => simp [collect] at hx
  | cons h t ih =>
    rw [collect_cons_closed _ _ _ (hc h List.mem_cons_self), List.mem_append] at hx
    rcases hx with hx | hx
    · rcases block_marker hx with e | e <;> omega
    · have := ih (i + 1) (by omega) (fun y hy => hc y (List.mem_cons_of_mem _ hy)) hx
      omega

theorem filter_append_split {α : Type} (p : α → Bool) (A B : List α)
    (hA : ∀ x ∈ A, p x = true) (hB : ∀ x ∈ B, p x = false) :
    (A ++ B).filter p = A ∧ (A ++ B).filter (fun x => !p x) = B := by
  have a1 : A.filter p = A := List.filter_eq_self.2 hA
  have b1 : B.filter p = [] := List.filter_eq_nil_iff.2 (fun a ha => by simp [hB a ha])
  have a2 : A.filter (fun x => !p x) = [] :=
    List.filter_eq_nil_iff.2 (fun a ha => by simp [hA a ha])
  have b2 : B.filter (fun x => !p x) = B := List.filter_eq_self.2 (fun a ha => by simp [hB a ha])
  constructor
  · rw [List.filter_append, a1, b1, List.append_nil]
  · rw [List.filter_append, a2, b2, List.nil_append]

/-- is the hit one of marker number `i` ? -/
def ofMarker (i : Int) (x : PrimerMatch) : Bool := decide (x.marker = i ∨ x.marker = -i)

theorem collect_asymmetric_aux (L : Int) (hs : List Hits) (i : Int) (hi : 0 < i)
    (p : (collect ((hs.map (mirrorHits L)).map gate) i).Perm
      ((collect (hs.map gate) i).map (mirrorMatch L))) :
    ∀ h ∈ hs, Ungated h ∧ Ungated (mirrorHits L h) := by
  induction hs generalizing i with
  | nil => intro h hh; cases hh
  | cons h t ih =>
    simp only [List.map_cons] at p
    rw [collect_cons_closed _ _ _ (closed_gate _), collect_cons_closed _ _ _ (closed_gate _),
      List.map_append] at p
    have cl1 : ∀ y ∈ (t.map (mirrorHits L)).map gate, Closed y := by
      intro y hy
      obtain ⟨z, _, rfl⟩ := List.mem_map.1 hy
      exact closed_gate z
    have cl2 : ∀ y ∈ t.map gate, Closed y := by
      intro y hy
      obtain ⟨z, _, rfl⟩ := List.mem_map.1 hy
      exact closed_gate z
    have hA1 : ∀ x ∈ block (gate (mirrorHits L h)) i, ofMarker i x = true := by
      intro x hx
      simpa [ofMarker] using block_marker hx
    have hB1 : ∀ x ∈ collect ((t.map (mirrorHits L)).map gate) (i + 1), ofMarker i x = false := by
      intro x hx
      have := collect_marker _ (i + 1) (by omega) cl1 x hx
      simp only [ofMarker, decide_eq_false_iff_not]
      omega
    have hA2 : ∀ x ∈ (block (gate h) i).map (mirrorMatch L), ofMarker i x = true := by
      intro x hx
      obtain ⟨z, hz, rfl⟩ := List.mem_map.1 hx
      have := block_marker hz
      have e : (mirrorMatch L z).marker = -z.marker := rfl
      simp only [ofMarker, e, decide_eq_true_eq]
      omega
    have hB2 : ∀ x ∈ (collect (t.map gate) (i + 1)).map (mirrorMatch L), ofMarker i x = false := by
      intro x hx
      obtain ⟨z, hz, rfl⟩ := List.mem_map.1 hx
      have := collect_marker _ (i + 1) (by omega) cl2 z hz
      have e : (mirrorMatch L z).marker = -z.marker := rfl
      simp only [ofMarker, e, decide_eq_false_iff_not]
      omega
    obtain ⟨f1, g1⟩ := filter_append_split (ofMarker i) _ _ hA1 hB1
    obtain ⟨f2, g2⟩ := filter_append_split (ofMarker i) _ _ hA2 hB2
    have pb := p.filter (ofMarker i)
    rw [f1, f2] at pb
    have pt := p.filter (fun x => !ofMarker i x)
    rw [g1, g2] at pt
    intro y hy
    rcases List.mem_cons.1 hy with rfl | hy
    · exact block_asymmetric L y i hi pb
    · exact ih (i + 1) (by omega) pt y hy

/-- **the complement of `collect_symmetric`**: `hs` are ALL the hits of the four patterns of every
marker on the read; if the hits collected by `ExtractMultiBarcode` on the two strands are mirror
images of each other (as multisets), the gating dropped nothing on either strand -/
theorem collect_asymmetric_of_gated (L : Int) (hs : List Hits)
    (p : (collect ((hs.map (mirrorHits L)).map gate) 1).Perm
      ((collect (hs.map gate) 1).map (mirrorMatch L))) :
    (∀ h ∈ hs, Ungated h) ∧ (∀ h ∈ hs, Ungated (mirrorHits L h)) :=
  ⟨fun h hh => (collect_asymmetric_aux L hs 1 (by omega) p h hh).1,
   fun h hh => (collect_asymmetric_aux L hs 1 (by omega) p h hh).2⟩

/-- the single-marker instance -/
theorem collect_asymmetric_of_gated_one (L : Int) (h : Hits)
    (p : (collect [gate (mirrorHits L h)] 1).Perm ((collect [gate h] 1).map (mirrorMatch L))) :
    Ungated h ∧ Ungated (mirrorHits L h) := by
  have := collect_asymmetric_of_gated L [h] p
  exact ⟨this.1 h List.mem_cons_self, this.2 h List.mem_cons_self⟩

/-- for separated hits: the collected (sorted) hit lists of the two strands are mirror images of
each other exactly when the gating is vacuous on both strands -/
theorem collect_symmetric_iff (L : Int) (hs : List Hits)
    (sep : Separated (collect (hs.map gate) 1)) :
    sortByBegin (collect ((hs.map (mirrorHits L)).map gate) 1) =
        mirrorList L (sortByBegin (collect (hs.map gate) 1)) ↔
      (∀ h ∈ hs, Ungated h) ∧ (∀ h ∈ hs, Ungated (mirrorHits L h)) := by
  constructor
  · intro e
    apply collect_asymmetric_of_gated
    have p1 := (sortByBegin_perm (collect ((hs.map (mirrorHits L)).map gate) 1)).symm
    rw [e, mirrorList] at p1
    exact p1.trans ((List.reverse_perm _).trans ((sortByBegin_perm _).map _))
  · rintro ⟨h1, h2⟩
    have e1 : hs.map gate = hs := by
      rw [List.map_congr_left (g := id) (fun h hh => h1 h hh), List.map_id]
    have e2 : (hs.map (mirrorHits L)).map gate = hs.map (mirrorHits L) := by
      rw [List.map_map]
      exact List.map_congr_left (fun h hh => h2 h hh)
    rw [e1] at sep ⊢
    rw [e2]
    exact collect_symmetric L hs h1 h2 sep

/-! ## E. concrete instances -/

/-- the hypotheses of `collect_symmetric` are satisfiable -/
example :
    let hs : List Hits := [⟨[(5, 9, 0)], [(20, 24, 1)], [], []⟩]
    (∀ h ∈ hs, Ungated h) ∧ (∀ h ∈ hs, Ungated (mirrorHits 30 h)) ∧
      Separated (collect hs 1) := by
  refine ⟨?_, ?_, ?_⟩
  · intro h hh
    rw [List.mem_singleton] at hh
    subst hh
    rw [ungated_iff]
    decide
  · intro h hh
    rw [List.mem_singleton] at hh
    subst hh
    rw [ungated_iff]
    decide
  · unfold Separated SepRel
    decide

/-- and on that instance the conclusion, checked by evaluation -/
example :
    sortByBegin (collect ([(⟨[(5, 9, 0)], [(20, 24, 1)], [], []⟩ : Hits)].map (mirrorHits 30)) 1) =
      mirrorList 30 (sortByBegin (collect [⟨[(5, 9, 0)], [(20, 24, 1)], [], []⟩] 1)) := by
  decide

/-- the instance of the known finding (`gating_breaks_symmetry`): on the reverse-complemented read
the forward primer has no hit, so the hits of the complemented reverse primer are dropped -/
example :
    let h : Hits := ⟨[(21, 40, 0)], [(246, 268, 0)], [(85, 107, 0)], []⟩
    Ungated h ∧ (gate (mirrorHits 288 h)).cr = [] ∧ (mirrorHits 288 h).cr ≠ [] ∧
      ¬ Ungated (mirrorHits 288 h) := by
  refine ⟨?_, ?_, ?_, ?_⟩
  · rw [ungated_iff]; decide
  · decide
  · decide
  · rw [ungated_iff]; decide

end ObiVerif.Demux
