import ObiVerif.Lemmas.TagTax
/-!
# What `Identify` reads in an index (C15): the entry of the largest recorded distance `≤ D`
-/
namespace ObiVerif.Tag
open ObiVerif.Tax

/-- `e` is the entry of the largest recorded distance `≤ D` -/
def Selected (idx : List (Nat × Nat)) (D : Nat) (e : Nat × Nat) : Prop :=
  e ∈ idx ∧ e.1 ≤ D ∧ ∀ e' ∈ idx, e'.1 ≤ D → e'.1 ≤ e.1

theorem ixRecord_keys_lt : ∀ (as : List Nat) (ds : List (Option Nat)) (old : Nat),
    ∀ e ∈ ixRecord as ds old, e.1 < old := by
  intro as
  induction as with
  | nil => intro ds old e he; simp [ixRecord] at he
  | cons a as ih =>
    intro ds old e he
    cases ds with
    | nil => simp [ixRecord] at he
    | cons d ds =>
      cases d with
      | none => simp only [ixRecord] at he; exact ih ds old e he
      | some d =>
        simp only [ixRecord] at he
        by_cases hlt : d < old
        · simp only [hlt, if_true] at he
          rcases List.mem_cons.1 he with he | he
          · subst he; exact hlt
          · have := ih ds d e he; omega
        · simp only [hlt, if_false] at he
          exact ih ds old e he

theorem ixRecord_selected (lseq : Nat) (c : Nat → Cand) (anc : Nat → Nat) (ow : List Nat)
    (hs : SortedByCw c ow) (hq : QGramBound lseq c ow) :
    ∀ (as pre : List Nat) (st : IxState) (old : Nat),
      IsMin c anc ow pre st.mini → (st.mini = none → st.wordmin ≤ 0) →
      (∀ m, st.mini = some m → old ≤ m) →
      ∀ D, D < old → ∀ e, Selected (ixRecord as (ixOuter thrNew lseq c anc ow as st) old) D e →
        ∃ pre' post, as = pre' ++ e.2 :: post ∧ ∀ j ∈ ow, anc j ∈ pre ++ pre' → D < (c j).dist := by
  intro as
  induction as with
  | nil => intro pre st old _ _ _ D _ e he; simp [ixRecord, Selected] at he
  | cons a as ih =>
    intro pre st old hmin hw hm D hD e he
    obtain ⟨r1, r2⟩ := ixInner_spec lseq c anc a ow st hw hs hq
    have hmin' := isMin_step c anc ow pre a st.mini hmin
    rw [← r1] at hmin'
    have hpreD : ∀ j ∈ ow, anc j ∈ pre → D < (c j).dist := by
      intro j hj hin
      cases hst : st.mini with
      | none => rw [hst] at hmin; exact absurd hin (hmin j hj)
      | some m =>
        rw [hst] at hmin
        have := hmin.1 j hj hin
        have := hm m hst
        omega
    have lift :
        (∃ pre' post, as = pre' ++ e.2 :: post ∧ ∀ j ∈ ow, anc j ∈ (pre ++ [a]) ++ pre' → D < (c j).dist) →
        ∃ pre' post, a :: as = pre' ++ e.2 :: post ∧ ∀ j ∈ ow, anc j ∈ pre ++ pre' → D < (c j).dist := by
      rintro ⟨pre', post, e1, e2⟩
      exact ⟨a :: pre', post, by simp [e1], by intro j hj hin; exact e2 j hj (by simpa using hin)⟩
    unfold ixOuter at he
    simp only at he
    cases hmi : (ixInner thrNew lseq c anc a ow st).mini with
    | none =>
      rw [hmi] at he
      simp only [ixRecord] at he
      exact lift (ih (pre ++ [a]) _ old hmin' r2 (by intro m h; rw [hmi] at h; cases h) D hD e he)
    | some d =>
      rw [hmi] at he hmin'
      simp only [ixRecord] at he
      by_cases hlt : d < old
      · simp only [hlt, if_true] at he
        obtain ⟨hmem, hle, hmax⟩ := he
        by_cases hdD : d ≤ D
        · -- the entry recorded at this level is the selected one
          have hE : e = (d, a) := by
            rcases List.mem_cons.1 hmem with h | h
            · exact h
            · exfalso
              have := ixRecord_keys_lt _ _ _ e h
              have := hmax (d, a) (List.mem_cons_self) hdD
              simp at this
              omega
          subst hE
          exact ⟨[], as, rfl, by simpa using hpreD⟩
        · have hmem' : e ∈ ixRecord as (ixOuter thrNew lseq c anc ow as (ixInner thrNew lseq c anc a ow st)) d := by
            rcases List.mem_cons.1 hmem with h | h
            · subst h; simp at hle; omega
            · exact h
          exact lift (ih (pre ++ [a]) _ d (by rw [hmi]; exact hmin') r2
            (by intro m h; rw [hmi] at h; cases h; exact Nat.le_refl _) D (by omega) e
            ⟨hmem', hle, fun e' he' => hmax e' (List.mem_cons_of_mem _ he')⟩)
      · simp only [hlt, if_false] at he
        exact lift (ih (pre ++ [a]) _ old (by rw [hmi]; exact hmin') r2
          (by intro m h; rw [hmi] at h; cases h; omega) D hD e he)

theorem idxGet_some {idx : List (Nat × Nat)} {d m : Nat} (h : idxGet idx d = some m) : (d, m) ∈ idx := by
  unfold idxGet at h
  cases hf : idx.find? (fun e => e.1 = d) with
  | none => rw [hf] at h; simp at h
  | some e =>
    rw [hf] at h
    simp at h
    have h1 := List.mem_of_find?_eq_some hf
    have h2 := List.find?_some hf
    simp at h2
    have : e = (d, m) := by cases e; simp_all
    rw [← this]; exact h1

theorem idxGet_none {idx : List (Nat × Nat)} {d : Nat} (h : idxGet idx d = none) : ∀ e ∈ idx, e.1 ≠ d := by
  unfold idxGet at h
  cases hf : idx.find? (fun e => e.1 = d) with
  | some e => rw [hf] at h; simp at h
  | none =>
    intro e he
    have := List.find?_eq_none.1 hf e he
    simpa using this

/-- the downward scan of `Identify` finds the entry of the largest recorded distance `≤ D` -/
theorem lookDown_selected {idx : List (Nat × Nat)} :
    ∀ {D a : Nat}, lookDown idx D = some a → ∃ e, Selected idx D e ∧ e.2 = a := by
  intro D
  induction D with
  | zero =>
    intro a h
    have := idxGet_some (show idxGet idx 0 = some a from h)
    exact ⟨(0, a), ⟨this, Nat.le_refl _, by intro e' _ h'; simpa using h'⟩, rfl⟩
  | succ D ih =>
    intro a h
    unfold lookDown at h
    cases hg : idxGet idx (D + 1) with
    | some t =>
      rw [hg] at h; cases h
      exact ⟨(D + 1, a), ⟨idxGet_some hg, Nat.le_refl _, by intro e' _ h'; exact h'⟩, rfl⟩
    | none =>
      rw [hg] at h
      obtain ⟨e, ⟨h1, h2, h3⟩, h4⟩ := ih h
      refine ⟨e, ⟨h1, by omega, ?_⟩, h4⟩
      intro e' he' hle
      have := idxGet_none hg e' he'
      exact h3 e' he' (by omega)

variable {t : Taxo} {root : Nat} {depth : Nat → Nat} {fuel : Nat}

/-- **what `Identify` reads is the LCA**: for an observed distance `D` below the length of the indexed
sequence, the entry found by the downward scan (`lookDown`, the normal path of the selection loop) is the taxon
whose ancestors are exactly the common ancestors of the taxa of ALL the references within `D` -/
theorem indexSequence_lookup_lca (wf : WF t root depth) (hf : FuelOK t fuel)
    (taxids : List Nat) (htax : ∀ x ∈ taxids, ∃ n, t.node x = some n)
    (seqidx lseq : Nat) (hidx : seqidx < taxids.length) (c : Nat → Cand) (ow : List Nat)
    (hperm : ∀ j, j ∈ ow ↔ j < taxids.length)
    (hs : SortedByCw c ow) (hq : QGramBound lseq c ow) (hself : (c seqidx).dist = 0) :
    ∃ idx, indexSequence t fuel taxids seqidx lseq c ow = .ok idx ∧
      ∀ D a, D < lseq → lookDown idx D = some a → ∀ x, Anc t x a ↔
        ∀ j, j < taxids.length → (c j).dist ≤ D → Anc t x (taxids.getD j 0) := by
  have hgetD : ∀ j, j < taxids.length → ∃ n, t.node (taxids.getD j 0) = some n := by
    intro j hj
    apply htax
    rw [List.getD_eq_getElem?_getD, List.getElem?_eq_getElem hj]
    simp
  obtain ⟨ns, hns⟩ := hgetD seqidx hidx
  obtain ⟨zs, hz1, _, hz3⟩ := lcaAll_ok wf hf hns taxids htax
  obtain ⟨p, hp1, hp⟩ := path_total wf hf hns
  refine ⟨indexCore lseq c (fun j => zs.getD j 0) ow p.reverse, by simp only [indexSequence, hz1, hp1], ?_⟩
  intro D a hD hlook x
  obtain ⟨e, hsel, rfl⟩ := lookDown_selected hlook
  obtain ⟨_, _, _, ⟨js, hjs, hajs, hdjs⟩, _, _⟩ :=
    indexCore_entry lseq c (fun j => zs.getD j 0) ow p.reverse hs hq e hsel.1
  obtain ⟨pre, post, hsplit, hpre⟩ :=
    ixRecord_selected lseq c (fun j => zs.getD j 0) ow hs hq p.reverse [] { mini := none, wordmin := 0 } lseq
      (by intro j _; simp) (by intro _; exact Int.le_refl 0) (by intro m h; cases h) D hD e hsel
  have hl : ∀ j, j < taxids.length →
      ∀ a, Anc t a (zs.getD j 0) ↔ (Anc t a (taxids.getD seqidx 0) ∧ Anc t a (taxids.getD j 0)) := by
    intro j hj
    obtain ⟨nj, hnj⟩ := hgetD j hj
    exact (lca_eq_ok wf hf hns hnj (hz3 j hj)).2
  constructor
  · intro hx j hj hd
    have hjo : j ∈ ow := (hperm j).2 hj
    have h1 := (hl j hj (zs.getD j 0)).1 (Anc.refl _)
    have hmem : zs.getD j 0 ∈ p.reverse := by
      have := IsPath.mem_of_anc h1.1 hp
      simpa using this
    rw [hsplit] at hmem
    rcases List.mem_append.1 hmem with hm | hm
    · have := hpre j hjo (by simpa using hm)
      omega
    · have := anc_of_after hp hsplit hm
      exact (hx.trans this).trans h1.2
  · intro hall
    have hjs' : js < taxids.length := (hperm js).1 hjs
    have h1 := hall js hjs' (by have := hsel.2.1; omega)
    have h2 := hall seqidx hidx (by omega)
    have h3 : zs.getD js 0 = e.2 := hajs
    rw [← h3]
    exact (hl js hjs' x).2 ⟨h2, h1⟩

end ObiVerif.Tag
