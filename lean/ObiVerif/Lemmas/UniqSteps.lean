import ObiVerif.Model.UniqSteps
import ObiVerif.Lemmas.UniqChunk
import ObiVerif.Lemmas.UniqSort
set_option Elab.async false
/-!
# The goroutines of `IUniqueSequence`: nothing is lost, nothing is delivered twice, no deadlock — for every
interleaving (`Model/UniqSteps.lean`)
-/
namespace ObiVerif.Uniq.Pipe
open ObiVerif.Uniq

/-- the batches a worker owes `iUnique` in all: nothing as long as it has not seen the end of its input -/
def Worker.owes (srt : Sorter) (o : Opts) (w : Worker) : List (List Rec) :=
  if w.closed then chain srt o w.got else []

theorem sum_map_set (f : Worker → Nat) : ∀ (ws : List Worker) (i : Nat) (w w' : Worker), ws[i]? = some w →
    ((ws.set i w').map f).sum + f w = (ws.map f).sum + f w'
  | [], i, w, w', h => by simp at h
  | x :: t, 0, w, w', h => by
    simp only [List.getElem?_cons_zero, Option.some.injEq] at h
    subst h
    simp only [List.set_cons_zero, List.map_cons, List.sum_cons]
    omega
  | x :: t, i + 1, w, w', h => by
    simp only [List.getElem?_cons_succ] at h
    have := sum_map_set f t i w w' h
    simp only [List.set_cons_succ, List.map_cons, List.sum_cons]
    omega

theorem count_flatMap' {α β : Type} [BEq β] [LawfulBEq β] (g : α → List β) (b : β) : ∀ l : List α,
    (l.flatMap g).count b = (l.map fun x => (g x).count b).sum
  | [] => by simp
  | x :: t => by simp [List.flatMap_cons, List.count_append, count_flatMap' g b t]

theorem sum_zero : ∀ l : List Nat, (∀ x ∈ l, x = 0) → l.sum = 0
  | [], _ => rfl
  | x :: t, h => by
    have h1 := h x (by simp)
    have h2 := sum_zero t (fun y hy => h y (List.mem_cons_of_mem _ hy))
    simp [h1, h2]

theorem mem_set_of {ws : List Worker} {i : Nat} {w' x : Worker} (h : x ∈ ws.set i w') : x = w' ∨ x ∈ ws := by
  rcases List.mem_or_eq_of_mem_set h with h | h
  · exact Or.inr h
  · exact Or.inl h

/-- the invariant of every reachable state -/
structure Inv (srt : Sorter) (o : Opts) (cs : List (List Rec)) (s : State) : Prop where
  /-- every chunk is in the channel or was received by exactly one worker -/
  chunks : ∀ c, (s.ws.map fun w => w.got.count c).sum + s.src.count c = cs.count c
  /-- every batch a chain produces is pushed or still pending, exactly once -/
  batches : ∀ b, s.pushed.count b + (s.ws.map fun w => w.pend.count b).sum =
    (s.ws.map fun w => (w.owes srt o).count b).sum
  open_pend : ∀ w ∈ s.ws, w.closed = false → w.pend = []
  closed_src : ∀ w ∈ s.ws, w.closed = true → s.src = []
  merged_le : s.merged ≤ s.pushed.length

theorem inv_init (srt : Sorter) (o : Opts) (cs : List (List Rec)) (n : Nat) : Inv srt o cs (init cs n) := by
  refine ⟨?_, ?_, ?_, ?_, ?_⟩
  · intro c
    have : ∀ n, ((List.replicate n (⟨[], false, []⟩ : Worker)).map fun w => w.got.count c).sum = 0 := by
      intro n; induction n with
      | zero => rfl
      | succ n ih => simp [List.replicate_succ, ih]
    simp [init, this]
  · intro b
    have h1 : ∀ n, ((List.replicate n (⟨[], false, []⟩ : Worker)).map fun w => w.pend.count b).sum = 0 := by
      intro n; induction n with
      | zero => rfl
      | succ n ih => simp [List.replicate_succ, ih]
    have h2 : ∀ n, ((List.replicate n (⟨[], false, []⟩ : Worker)).map
        fun w => (w.owes srt o).count b).sum = 0 := by
      intro n; induction n with
      | zero => rfl
      | succ n ih => simp [List.replicate_succ, ih, Worker.owes]
    simp only [init]
    rw [h1 n, h2 n]
    simp
  · intro w hw _
    simp only [init, List.mem_replicate] at hw
    rw [hw.2]
  · intro w hw hc
    simp only [init, List.mem_replicate] at hw
    rw [hw.2] at hc
    cases hc
  · simp [init]

theorem inv_workerStep {srt : Sorter} {o : Opts} {cs : List (List Rec)} {s s' : State} (hi : Inv srt o cs s)
    (i : Nat) (h : workerStep srt o i s = some s') : Inv srt o cs s' := by
  unfold workerStep at h
  cases hw : s.ws[i]? with
  | none => simp [hw] at h
  | some w =>
    rw [hw] at h
    dsimp only at h
    have hwm : w ∈ s.ws := List.mem_of_getElem? hw
    by_cases hc : w.closed = true
    · rw [if_pos hc] at h
      cases hp : w.pend with
      | nil => simp [hp] at h
      | cons b p =>
        rw [hp] at h
        simp only [Option.some.injEq] at h
        subst h
        refine ⟨?_, ?_, ?_, ?_, ?_⟩
        · intro c
          have := sum_map_set (fun w => w.got.count c) s.ws i w { w with pend := p } hw
          have := hi.chunks c
          dsimp only at *
          omega
        · intro b'
          have e1 := sum_map_set (fun w => w.pend.count b') s.ws i w { w with pend := p } hw
          have e2 := sum_map_set (fun w => (w.owes srt o).count b') s.ws i w { w with pend := p } hw
          have e3 := hi.batches b'
          have e4 : (Worker.owes srt o { w with pend := p }) = w.owes srt o := rfl
          have e5 : w.pend.count b' = p.count b' + [b].count b' := by
            rw [hp]; simp [List.count_cons, List.count_nil]
          simp only [List.count_append]
          dsimp only at *
          rw [e4] at e2
          omega
        · intro x hx hxc
          rcases mem_set_of hx with rfl | hx
          · rw [hc] at hxc; cases hxc
          · exact hi.open_pend x hx hxc
        · intro x hx hxc
          exact hi.closed_src w hwm hc
        · have := hi.merged_le
          simp only [List.length_append, List.length_singleton]
          omega
    · have hc' : w.closed = false := by cases hcc : w.closed <;> simp_all
      rw [if_neg hc] at h
      cases hs : s.src with
      | cons c t =>
        rw [hs] at h
        simp only [Option.some.injEq] at h
        subst h
        refine ⟨?_, ?_, ?_, ?_, hi.merged_le⟩
        · intro c'
          have e1 := sum_map_set (fun w => w.got.count c') s.ws i w { w with got := w.got ++ [c] } hw
          have e2 := hi.chunks c'
          rw [hs] at e2
          have e3 : (c :: t).count c' = t.count c' + [c].count c' := by
            simp [List.count_cons, List.count_nil]
          simp only [List.count_append] at e1
          dsimp only at *
          omega
        · intro b'
          have e1 := sum_map_set (fun w => w.pend.count b') s.ws i w { w with got := w.got ++ [c] } hw
          have e2 := sum_map_set (fun w => (w.owes srt o).count b') s.ws i w { w with got := w.got ++ [c] } hw
          have e3 := hi.batches b'
          have e4 : (Worker.owes srt o { w with got := w.got ++ [c] }) = [] := by simp [Worker.owes, hc']
          have e5 : w.owes srt o = [] := by simp [Worker.owes, hc']
          dsimp only at *
          rw [e4, e5] at e2
          omega
        · intro x hx hxc
          rcases mem_set_of hx with rfl | hx
          · exact hi.open_pend w hwm hc'
          · exact hi.open_pend x hx hxc
        · intro x hx hxc
          rcases mem_set_of hx with rfl | hx
          · rw [hc'] at hxc; cases hxc
          · have := hi.closed_src x hx hxc
            rw [hs] at this; cases this
      | nil =>
        rw [hs] at h
        simp only [Option.some.injEq] at h
        subst h
        have hp0 := hi.open_pend w hwm hc'
        refine ⟨?_, ?_, ?_, ?_, hi.merged_le⟩
        · intro c'
          have e1 := sum_map_set (fun w => w.got.count c') s.ws i w
            { w with closed := true, pend := chain srt o w.got } hw
          have e2 := hi.chunks c'
          rw [hs] at e2
          dsimp only at *
          omega
        · intro b'
          have e1 := sum_map_set (fun w => w.pend.count b') s.ws i w
            { w with closed := true, pend := chain srt o w.got } hw
          have e2 := sum_map_set (fun w => (w.owes srt o).count b') s.ws i w
            { w with closed := true, pend := chain srt o w.got } hw
          have e3 := hi.batches b'
          have e4 : (Worker.owes srt o { w with closed := true, pend := chain srt o w.got }) =
              chain srt o w.got := by simp [Worker.owes]
          have e5 : w.owes srt o = [] := by simp [Worker.owes, hc']
          dsimp only at *
          rw [e4, e5] at e2
          rw [hp0] at e1
          simp only [List.count_nil] at e1 e2
          omega
        · intro x hx hxc
          rcases mem_set_of hx with rfl | hx
          · cases hxc
          · exact hi.open_pend x hx hxc
        · intro _ _ _; rfl

theorem inv_mergeStep {srt : Sorter} {o : Opts} {cs : List (List Rec)} {s s' : State} (hi : Inv srt o cs s)
    (h : mergeStep s = some s') : Inv srt o cs s' := by
  unfold mergeStep at h
  split at h
  · next hlt =>
    simp only [Option.some.injEq] at h
    subst h
    exact ⟨hi.chunks, hi.batches, hi.open_pend, hi.closed_src, hlt⟩
  · cases h

theorem inv_reach {srt : Sorter} {o : Opts} {cs : List (List Rec)} {n : Nat} {s : State}
    (h : Reach srt o (init cs n) s) : Inv srt o cs s := by
  generalize hs0 : init cs n = s0 at h
  induction h with
  | refl => subst hs0; exact inv_init srt o cs n
  | step _ hst ih =>
    rcases hst with ⟨i, hw⟩ | hm
    · exact inv_workerStep ih i hw
    · exact inv_mergeStep ih hm

/-- **no loss, no duplication, for every interleaving**: in every final state reachable from the chunks `cs`
and `n` workers, the chunks the workers received are together a permutation of `cs`, and the records delivered
by the merge stage are a permutation of `uniqL` applied to what the workers received -/
theorem pipe_delivers (srt : Sorter) (o : Opts) (cs : List (List Rec)) (n : Nat) (s : State)
    (h : Reach srt o (init cs n) s) (hf : final s = true) :
    (s.ws.map (·.got)).flatten.Perm cs ∧ (result o s).Perm (uniqL srt o (s.ws.map (·.got))) := by
  have hi := inv_reach h
  simp only [final, Bool.and_eq_true, List.isEmpty_iff, List.all_eq_true, beq_iff_eq] at hf
  obtain ⟨⟨hsrc, hws⟩, hmg⟩ := hf
  constructor
  · rw [List.perm_iff_count]
    intro c
    have := hi.chunks c
    rw [hsrc] at this
    rw [← this, List.flatten_eq_flatMap, List.flatMap_map, count_flatMap']
    simp
  · have hpush : s.pushed.Perm (s.ws.flatMap fun w => chain srt o w.got) := by
      rw [List.perm_iff_count]
      intro b
      have e := hi.batches b
      have e1 : (s.ws.map fun w => w.pend.count b).sum = 0 := by
        apply sum_zero
        intro x hx
        obtain ⟨w, hw, rfl⟩ := List.mem_map.mp hx
        have := (hws w hw).2
        simp [this]
      have e2 : (s.ws.map fun w => (w.owes srt o).count b) = s.ws.map fun w => (chain srt o w.got).count b := by
        apply List.map_congr_left
        intro w hw
        have := (hws w hw).1
        simp [Worker.owes, this]
      rw [count_flatMap', ← e2, ← e, e1]
      simp
    have htake : s.pushed.take s.merged = s.pushed := by rw [hmg]; exact List.take_length
    unfold result uniqL terminalsL
    rw [htake, List.filter_flatMap, List.flatMap_map]
    exact hpush.filterMap _

/-- **composition with the chunk stage and the refinement theorem**: for every batch size of `Distribute`, every
partition of the input into batches, every order in which the chunks are pushed (`cs`: any permutation of the
chunks of `chunkMem`), every number of workers, every sort and every interleaving of the goroutines, the
delivered records correspond one to one (up to the observable `ObsEq` = key, count, requested `merged_`
weights, kept annotations) to the output of the functional model `uniq`, for which the theorems of
`Props/C06.lean` hold.  The statement lives in `Props/C06.lean` (`pipeline_refines`); here its core. -/
theorem pipe_chunksOK (srt : Sorter) (o : Opts) (h : Seq → Nat) (size : Nat) (batches : List (List Rec))
    (cs : List (List Rec)) (hcs : cs.Perm ((chunkMem (fun r => h r.seq) size batches).map (·.2)))
    (n : Nat) (s : State) (hr : Reach srt o (init cs n) s) (hf : final s = true) :
    ChunksOK h batches.flatten (s.ws.map (·.got)) ∧ (result o s).Perm (uniqL srt o (s.ws.map (·.got))) := by
  obtain ⟨h1, h2⟩ := pipe_delivers srt o cs n s hr hf
  exact ⟨chunkMem_chunksOK h size batches _ (h1.trans hcs), h2⟩

theorem workerStep_len {srt : Sorter} {o : Opts} {i : Nat} {s s' : State}
    (h : workerStep srt o i s = some s') : s'.ws.length = s.ws.length := by
  unfold workerStep at h
  cases hw : s.ws[i]? with
  | none => simp [hw] at h
  | some w =>
    rw [hw] at h
    dsimp only at h
    by_cases hc : w.closed = true
    · rw [if_pos hc] at h
      cases hp : w.pend with
      | nil => simp [hp] at h
      | cons b p =>
        rw [hp] at h
        simp only [Option.some.injEq] at h
        subst h; simp
    · rw [if_neg hc] at h
      cases hs : s.src with
      | nil =>
        rw [hs] at h
        simp only [Option.some.injEq] at h
        subst h; simp
      | cons c t =>
        rw [hs] at h
        simp only [Option.some.injEq] at h
        subst h; simp

/-- **no deadlock**: with at least one worker, a reachable state that is not final has an enabled move -/
theorem pipe_progress (srt : Sorter) (o : Opts) (cs : List (List Rec)) (n : Nat) (hn : 0 < n) (s : State)
    (h : Reach srt o (init cs n) s) (hf : final s = false) : ∃ s', Step srt o s s' := by
  have hi := inv_reach h
  by_cases hm : s.merged < s.pushed.length
  · exact ⟨{ s with merged := s.merged + 1 }, Or.inr (by simp [mergeStep, hm])⟩
  · have hmeq : s.merged = s.pushed.length := by have := hi.merged_le; omega
    -- some worker is not done
    by_cases hall : ∀ w ∈ s.ws, w.closed = true ∧ w.pend = []
    · -- all done: then src = [] as soon as there is a worker
      have hlen : s.ws.length = n := by
        clear hf hm hmeq hall hi
        generalize hs0 : init cs n = s0 at h
        induction h with
        | refl => subst hs0; simp [init]
        | step _ hst ih =>
          rw [← ih]
          rcases hst with ⟨i, hw⟩ | hm
          · exact workerStep_len hw
          · unfold mergeStep at hm
            split at hm
            · simp only [Option.some.injEq] at hm; subst hm; rfl
            · cases hm
      obtain ⟨w, hw⟩ : ∃ w, w ∈ s.ws := by
        cases hws : s.ws with
        | nil => rw [hws] at hlen; simp at hlen; omega
        | cons w t => exact ⟨w, by simp⟩
      have hsrc := hi.closed_src w hw (hall w hw).1
      exfalso
      have : final s = true := by
        simp only [final, Bool.and_eq_true, List.isEmpty_iff, List.all_eq_true, beq_iff_eq]
        exact ⟨⟨hsrc, fun w hw => by simp [(hall w hw).1, (hall w hw).2]⟩, hmeq⟩
      rw [this] at hf; cases hf
    · obtain ⟨w, hw'⟩ := Classical.not_forall.mp hall
      have hw : w ∈ s.ws := Classical.byContradiction fun hn => hw' (fun h => absurd h hn)
      have hnd : ¬ (w.closed = true ∧ w.pend = []) := fun hh => hw' (fun _ => hh)
      obtain ⟨i, hi', hget⟩ := List.getElem_of_mem hw
      have hget' : s.ws[i]? = some w := by rw [List.getElem?_eq_getElem hi', hget]
      by_cases hc : w.closed = true
      · cases hp : w.pend with
        | nil => exact absurd ⟨hc, hp⟩ hnd
        | cons b p =>
          have : ∃ s', workerStep srt o i s = some s' := by simp [workerStep, hget', hc, hp]
          obtain ⟨s', hs'⟩ := this
          exact ⟨s', Or.inl ⟨i, hs'⟩⟩
      · have : ∃ s', workerStep srt o i s = some s' := by
          cases hs : s.src <;> simp [workerStep, hget', hc, hs]
        obtain ⟨s', hs'⟩ := this
        exact ⟨s', Or.inl ⟨i, hs'⟩⟩

end ObiVerif.Uniq.Pipe
