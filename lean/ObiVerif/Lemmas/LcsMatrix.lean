import ObiVerif.Model.Lcs
import ObiVerif.Lemmas.Lcs
/-! C09: the banded matrix of the structural layer `bandLCS` (Model/Lcs.lean), cell by cell: `cellM lo hi A B i j`
and the recurrence it satisfies (`cellM_row0`, `cellM_col0`, `cellM_succ`); the last cell of `bandLast` is
`cellM … |B| |A|`. Used by the refinement proof of the verbatim anti-diagonal kernel (Lemmas/LcsVerbatim.lean). -/
namespace ObiVerif.Lcs

/-! ## the banded matrix by index -/

/-- row `i` of the banded matrix of `A` (columns) against `B` (rows) -/
def rowN (lo hi : Int) (A B : Seq) : Nat → List UInt64
  | 0 => bandRow0 lo hi 0 A
  | i + 1 => bandRow lo hi A (i + 1) (B.getD i 0) (rowN lo hi A B i)

/-- cell `(i, j)` -/
def cellM (lo hi : Int) (A B : Seq) (i j : Nat) : UInt64 := (rowN lo hi A B i).getD j 0

theorem bandRow0_spec (lo hi : Int) (A : Seq) (j0 : Nat) :
    (bandRow0 lo hi j0 A).length = A.length + 1 ∧
    ∀ k, k ≤ A.length → (bandRow0 lo hi j0 A).getD k 0 = bandCell lo hi 0 (j0 + k) false 0 0 0 := by
  induction A generalizing j0 with
  | nil =>
    refine ⟨by simp [bandRow0], fun k hk => ?_⟩
    have : k = 0 := by simpa using hk
    subst this; simp [bandRow0]
  | cons x as ih =>
    obtain ⟨h1, h2⟩ := ih (j0 + 1)
    refine ⟨by simp [bandRow0, h1], fun k hk => ?_⟩
    cases k with
    | zero => simp [bandRow0]
    | succ k =>
      have := h2 k (by simpa using hk)
      simp only [bandRow0, List.getD_cons_succ, this]
      congr 1; omega

theorem bandRowGo_spec (lo hi : Int) (i : Nat) (y : UInt8) (as : Seq) :
    ∀ (j : Nat) (left : UInt64) (prev : List UInt64), prev.length = as.length + 1 →
    (bandRowGo lo hi i y j left as prev).length = as.length ∧
    ∀ k, k < as.length → (bandRowGo lo hi i y j left as prev).getD k 0 =
      bandCell lo hi i (j + k) (samenuc (as.getD k 0) y) (prev.getD k 0) (prev.getD (k + 1) 0)
        (if k = 0 then left else (bandRowGo lo hi i y j left as prev).getD (k - 1) 0) := by
  induction as with
  | nil => intro j left prev _; exact ⟨by cases prev <;> simp [bandRowGo], fun k hk => by simp at hk⟩
  | cons x as ih =>
    intro j left prev hp
    match prev, hp with
    | d :: u :: rest, hp =>
      obtain ⟨h1, h2⟩ := ih (j + 1) (bandCell lo hi i j (samenuc x y) d u left) (u :: rest) (by simpa using hp)
      refine ⟨by simp [bandRowGo, h1], fun k hk => ?_⟩
      cases k with
      | zero => simp [bandRowGo]
      | succ k =>
        have := h2 k (by simpa using hk)
        simp only [bandRowGo, List.getD_cons_succ, this]
        have e1 : j + 1 + k = j + (k + 1) := by omega
        rw [e1]
        cases k with
        | zero => simp
        | succ k => simp

theorem rowN_length (lo hi : Int) (A B : Seq) (i : Nat) : (rowN lo hi A B i).length = A.length + 1 := by
  induction i with
  | zero => exact (bandRow0_spec lo hi A 0).1
  | succ i ih => simp [rowN, bandRow, (bandRowGo_spec lo hi (i + 1) _ A 1 _ _ ih).1]

theorem cellM_row0 (lo hi : Int) (A B : Seq) (j : Nat) (hj : j ≤ A.length) :
    cellM lo hi A B 0 j = bandCell lo hi 0 j false 0 0 0 := by
  have := (bandRow0_spec lo hi A 0).2 j hj
  simpa [cellM, rowN] using this

theorem cellM_col0 (lo hi : Int) (A B : Seq) (i : Nat) :
    cellM lo hi A B (i + 1) 0 = bandCell lo hi (i + 1) 0 false 0 0 0 := by
  simp [cellM, rowN, bandRow]

theorem cellM_succ (lo hi : Int) (A B : Seq) (i j : Nat) (hj : j < A.length) :
    cellM lo hi A B (i + 1) (j + 1) =
      bandCell lo hi (i + 1) (j + 1) (samenuc (A.getD j 0) (B.getD i 0))
        (cellM lo hi A B i j) (cellM lo hi A B i (j + 1)) (cellM lo hi A B (i + 1) j) := by
  have h := (bandRowGo_spec lo hi (i + 1) (B.getD i 0) A 1 (bandCell lo hi (i + 1) 0 false 0 0 0)
    (rowN lo hi A B i) (rowN_length lo hi A B i)).2 j hj
  simp only [cellM, rowN, bandRow, List.getD_cons_succ]
  rw [h]
  have e1 : 1 + j = j + 1 := by omega
  rw [e1]
  cases j with
  | zero => simp
  | succ j => simp

theorem bandRows_rowN (lo hi : Int) (A B : Seq) :
    ∀ (bs : Seq) (k : Nat), k ≤ B.length → B.drop k = bs →
      bandRows lo hi A (k + 1) bs (rowN lo hi A B k) = rowN lo hi A B B.length := by
  intro bs
  induction bs with
  | nil =>
    intro k hk h
    have h1 : B.length ≤ k := by simpa using h
    have : k = B.length := by omega
    subst this; simp [bandRows]
  | cons y bs ih =>
    intro k hk h
    have hlt : k < B.length := by
      rcases Nat.lt_or_ge k B.length with h' | h'
      · exact h'
      · rw [List.drop_of_length_le h'] at h; cases h
    have hy : B.getD k 0 = y := by
      have := List.getElem_cons_drop hlt
      rw [h] at this
      simp only [List.cons.injEq] at this
      simp [List.getD, List.getElem?_eq_getElem hlt, this.1]
    have hd : B.drop (k + 1) = bs := by
      have := List.getElem_cons_drop hlt
      rw [h] at this
      simp only [List.cons.injEq] at this
      exact this.2
    have := ih (k + 1) hlt hd
    simp only [bandRows]
    rw [← this, rowN, hy]

theorem bandLast_eq_rowN (lo hi : Int) (A B : Seq) : bandLast lo hi A B = rowN lo hi A B B.length := by
  have := bandRows_rowN lo hi A B B 0 (by omega) (by simp)
  simpa [bandLast, rowN] using this

theorem bandLast_getLastD (lo hi : Int) (A B : Seq) :
    (bandLast lo hi A B).getLastD 0 = cellM lo hi A B B.length A.length := by
  rw [bandLast_eq_rowN, cellM]
  have h := rowN_length lo hi A B B.length
  generalize rowN lo hi A B B.length = r at h
  rw [List.getLastD_eq_getLast?, List.getLast?_eq_getElem?, h]
  simp [List.getD]

end ObiVerif.Lcs
