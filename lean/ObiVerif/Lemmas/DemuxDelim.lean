import ObiVerif.Lemmas.DemuxRead
/-! helper lemmas for C12: the delimiter scanner `lookForTag` on the layout
`… d T d…d`, the delimited tag extractors on the windows of a built read, and the body of
`constructed_read` factored over the way the tags are extracted (fixed or delimited). -/
namespace ObiVerif.Demux
open ObiVerif.SeqOps (Bytes rc subsequence nucComplement)

theorem getD_mid (P R : Bytes) (x : UInt8) : (P ++ x :: R).toArray.getD P.length 0 = x := by
  simp

theorem skipWhile_stop (P R : Bytes) (x : UInt8) (p : UInt8 → Bool) (h : p x = false) :
    skipWhile (P ++ x :: R).toArray p (P.length + 1) = P.length + 1 := by
  simp only [skipWhile, getD_mid, h]
  simp

theorem skipWhile_step (P R : Bytes) (x : UInt8) (p : UInt8 → Bool) (h : p x = true) :
    skipWhile (P ++ x :: R).toArray p (P.length + 1) = skipWhile (P ++ x :: R).toArray p P.length := by
  simp only [skipWhile, getD_mid, h]
  simp

theorem skipWhile_all (P Q R : Bytes) (p : UInt8 → Bool) (h : ∀ q ∈ Q, p q = true) :
    skipWhile (P ++ Q ++ R).toArray p (P.length + Q.length) = skipWhile (P ++ Q ++ R).toArray p P.length := by
  induction Q generalizing P with
  | nil => simp
  | cons q Q ih =>
    have e : P ++ q :: Q ++ R = (P ++ [q]) ++ Q ++ R := by simp
    have := ih (P ++ [q]) (fun x hx => h x (List.mem_cons_of_mem _ hx))
    rw [e]
    simp only [List.length_append, List.length_cons, List.length_nil] at this ⊢
    rw [show P.length + (Q.length + 1) = P.length + (0 + 1) + Q.length by omega, this]
    have e2 : P ++ [q] ++ Q ++ R = P ++ q :: (Q ++ R) := by simp
    rw [e2]
    exact skipWhile_step P (Q ++ R) q p (h q (by simp))

theorem lookForTag_layout (X T : Bytes) (d : UInt8) (sp : Nat) (hsp : 0 < sp) (hT : T ≠ [])
    (hd : d ∉ T) : lookForTag (X ++ [d] ++ T ++ List.replicate sp d) d = T := by
  obtain ⟨sp', rfl⟩ : ∃ k, sp = k + 1 := ⟨sp - 1, by omega⟩
  obtain ⟨T', tl, rfl⟩ : ∃ T' tl, T = T' ++ [tl] := ⟨T.dropLast, T.getLast hT, (List.dropLast_concat_getLast hT).symm⟩
  have htl : tl ≠ d := by intro h; apply hd; simp [h]
  have hT' : ∀ q ∈ T', (q != d) = true := by
    intro q hq; simp only [bne_iff_ne, ne_eq]; intro h; apply hd; simp [← h, hq]
  unfold lookForTag
  -- step 1: the last character is the delimiter
  have s1 : X ++ [d] ++ (T' ++ [tl]) ++ List.replicate (sp' + 1) d
      = (X ++ [d] ++ (T' ++ [tl]) ++ List.replicate sp' d) ++ d :: [] := by
    rw [List.replicate_succ']; simp
  have l1 : (X ++ [d] ++ (T' ++ [tl]) ++ List.replicate (sp' + 1) d).length
      = (X ++ [d] ++ (T' ++ [tl]) ++ List.replicate sp' d).length + 1 := by
    simp; omega
  have h1 : skipWhile (X ++ [d] ++ (T' ++ [tl]) ++ List.replicate (sp' + 1) d).toArray (· != d)
      (X ++ [d] ++ (T' ++ [tl]) ++ List.replicate (sp' + 1) d).length
      = (X ++ [d] ++ (T' ++ [tl])).length + (List.replicate (sp' + 1) d).length := by
    rw [l1]
    conv => lhs; rw [s1]
    rw [skipWhile_stop _ [] d _ (by simp)]
    simp; omega
  -- step 2: the run of delimiters, stopped by the last character of the tag
  have h2 : skipWhile (X ++ [d] ++ (T' ++ [tl]) ++ List.replicate (sp' + 1) d).toArray (· == d)
      ((X ++ [d] ++ (T' ++ [tl])).length + (List.replicate (sp' + 1) d).length)
      = (X ++ [d] ++ T').length + 1 := by
    have := skipWhile_all (X ++ [d] ++ (T' ++ [tl])) (List.replicate (sp' + 1) d) [] (· == d)
      (by intro q hq; simp [List.eq_of_mem_replicate hq])
    simp only [List.append_nil] at this
    rw [this]
    have e : X ++ [d] ++ (T' ++ [tl]) ++ List.replicate (sp' + 1) d
        = (X ++ [d] ++ T') ++ tl :: List.replicate (sp' + 1) d := by simp
    have l : (X ++ [d] ++ (T' ++ [tl])).length = (X ++ [d] ++ T').length + 1 := by simp; omega
    rw [l, e]
    exact skipWhile_stop _ _ tl _ (by simp [htl])
  -- step 3: the tag, stopped by the delimiter before it
  have h3 : skipWhile (X ++ [d] ++ (T' ++ [tl]) ++ List.replicate (sp' + 1) d).toArray (· != d)
      ((X ++ [d] ++ T').length + 1) = X.length + 1 := by
    have e : X ++ [d] ++ (T' ++ [tl]) ++ List.replicate (sp' + 1) d
        = (X ++ [d]) ++ (T' ++ [tl]) ++ List.replicate (sp' + 1) d := by simp
    have l : (X ++ [d] ++ T').length + 1 = (X ++ [d]).length + (T' ++ [tl]).length := by simp; omega
    rw [l, e, skipWhile_all (X ++ [d]) (T' ++ [tl]) _ (· != d)
      (by intro q hq; rcases List.mem_append.1 hq with hq | hq
          · exact hT' q hq
          · simp at hq; simp [hq, htl])]
    have e2 : X ++ [d] ++ (T' ++ [tl]) ++ List.replicate (sp' + 1) d
        = X ++ d :: ((T' ++ [tl]) ++ List.replicate (sp' + 1) d) := by simp
    have l2 : (X ++ [d]).length = X.length + 1 := by simp
    rw [l2, e2]
    exact skipWhile_stop _ _ d _ (by simp)
  simp only [h1, h2, h3]
  simp
  have : T' ++ tl :: List.replicate (sp' + 1) d = (T' ++ [tl]) ++ List.replicate (sp' + 1) d := by simp
  rw [this, List.take_left' (by simp)]

/-! ## windows ending at a primer match -/

theorem slice_suffix (P S R : Bytes) (fb : Int) (h0 : 0 ≤ fb) (h1 : fb ≤ P.length) :
    slice (P ++ S ++ R) fb ((P.length : Int) + S.length) = .ok (P.drop fb.toNat ++ S) := by
  unfold slice
  have hc : 0 ≤ fb ∧ fb ≤ (P.length : Int) + S.length ∧
      (P.length : Int) + S.length ≤ ((P ++ S ++ R).length : Int) := by
    simp only [List.length_append, Int.natCast_add]; omega
  rw [if_pos hc]
  have hk : fb.toNat ≤ P.length := by omega
  have e1 : (P ++ S ++ R).drop fb.toNat = (P.drop fb.toNat ++ S) ++ R := by
    rw [List.append_assoc, List.drop_append_of_le_length hk, List.append_assoc]
  have e2 : ((P.length : Int) + S.length).toNat - fb.toNat = (P.drop fb.toNat ++ S).length := by
    simp only [List.length_append, List.length_drop]; omega
  rw [e1, e2, List.take_left']
  rfl

/-- `beginDelimitedTagExtractor` on `… d T d^sp | primer`: whatever precedes, the tag is found -/
theorem beginDelimited_window (P T B : Bytes) (sd : Side) (sp : Nat) (hsp : 0 < sp)
    (hl : sd.taglen = T.length) (hs : sd.spacer = sp) (hT : T ≠ []) (hd : sd.delim ∉ T) :
    beginDelimited (P ++ [sd.delim] ++ T ++ List.replicate sp sd.delim ++ B) sd
      ((P.length : Int) + 1 + T.length + sp) = .ok T := by
  unfold beginDelimited
  simp only [hl, hs]
  have e : P ++ [sd.delim] ++ T ++ List.replicate sp sd.delim ++ B
      = P ++ ([sd.delim] ++ T ++ List.replicate sp sd.delim) ++ B := by simp
  have l : (P.length : Int) + 1 + T.length + sp
      = (P.length : Int) + ([sd.delim] ++ T ++ List.replicate sp sd.delim).length := by
    simp only [List.length_append, List.length_cons, List.length_nil, List.length_replicate,
      Int.natCast_add]; omega
  have hlen : 0 < T.length := List.length_pos_iff.2 hT
  rw [e, l]
  generalize hfb : (if (P.length : Int) + ([sd.delim] ++ T ++ List.replicate sp sd.delim).length
      - (2 * (sp : Int) + T.length) * 2 < 0 then (0 : Int)
      else (P.length : Int) + ([sd.delim] ++ T ++ List.replicate sp sd.delim).length
      - (2 * (sp : Int) + T.length) * 2) = fb
  have hfb0 : 0 ≤ fb := by rw [← hfb]; split <;> omega
  have hfb1 : fb ≤ P.length := by
    rw [← hfb]
    simp only [List.length_append, List.length_cons, List.length_nil, List.length_replicate,
      Int.natCast_add]
    split <;> omega
  rw [slice_suffix P _ B fb hfb0 hfb1]
  simp only [bind, Except.bind, pure, Except.pure]
  have := lookForTag_layout (P.drop fb.toNat) T sd.delim sp hsp hT hd
  simp only [List.append_assoc] at this ⊢
  rw [this]

/-- `endDelimitedTagExtractor` on `primer | rc(d^sp) rc(T) x …` with `comp x = d` -/
theorem endDelimited_window (A T F : Bytes) (x : UInt8) (sd : Side) (sp : Nat) (hsp : 0 < sp)
    (hl : sd.taglen = T.length) (hs : sd.spacer = sp) (hT : T ≠ []) (hd : sd.delim ∉ T)
    (hx : nucComplement x = sd.delim)
    (hdd : nucComplement (nucComplement sd.delim) = sd.delim)
    (hTA : ∀ b ∈ T, b ∈ alphabet) :
    endDelimited (A ++ rc (List.replicate sp sd.delim) ++ rc T ++ x :: F) sd (A.length : Int)
      = .ok T := by
  have hlen : 0 < T.length := List.length_pos_iff.2 hT
  -- the window
  let k := min (sp + T.length - 1) F.length
  have hk : k = min (sp + T.length - 1) F.length := rfl
  let W := rc (List.replicate sp sd.delim) ++ rc T ++ x :: F.take k
  have hW : W = rc (List.replicate sp sd.delim) ++ rc T ++ x :: F.take k := rfl
  have hWl : W.length = sp + T.length + 1 + k := by
    simp only [hW, List.length_append, rc_length, List.length_replicate, List.length_cons,
      List.length_take]
    omega
  have e : A ++ rc (List.replicate sp sd.delim) ++ rc T ++ x :: F = A ++ W ++ F.drop k := by
    simp only [hW, List.append_assoc, List.cons_append, List.take_append_drop]
  have hlenS : ((A ++ W ++ F.drop k).length : Int) = (A.length : Int) + sp + T.length + 1 + F.length := by
    simp only [List.length_append, hWl, List.length_drop, Int.natCast_add]
    omega
  unfold endDelimited
  rw [e]
  simp only [hl, hs, hlenS]
  have hfb : (if (A.length : Int) + ((sp : Int) + T.length) * 2 > (A.length : Int) + sp + T.length + 1 + F.length
      then (A.length : Int) + sp + T.length + 1 + F.length
      else (A.length : Int) + ((sp : Int) + T.length) * 2) = (A.length : Int) + W.length := by
    rw [hWl, hk]
    split <;> omega
  rw [hfb]
  have hge : ¬ ((A.length : Int) ≥ (A.length : Int) + W.length) := by omega
  rw [if_neg hge]
  have hsub := sub_window A W (F.drop k) (by omega)
  simp only [subOrFatal, hsub, bind, Except.bind, pure, Except.pure]
  have hrcW : rc W = rc (F.take k) ++ [sd.delim] ++ T ++ List.replicate sp sd.delim := by
    have h1 : rc (rc T) = T := rc_rc T hTA
    have h2 : rc (rc (List.replicate sp sd.delim)) = List.replicate sp sd.delim := by
      simp [rc, hdd]
    have h3 : rc (x :: F.take k) = rc (F.take k) ++ [sd.delim] := by
      simp [rc, hx]
    rw [hW, show rc (List.replicate sp sd.delim) ++ rc T ++ x :: F.take k
      = rc (List.replicate sp sd.delim) ++ (rc T ++ (x :: F.take k)) by simp]
    rw [rc_append, rc_append, h1, h2, h3]
  rw [hrcW, lookForTag_layout _ T sd.delim sp hsp hT hd]

/-! ## one side of a marker against the pieces of a built read -/

/-- The side `sd` of a marker describes the pieces of a built read: tag `T`, spacer `S` (between
the tag and the primer), `o` = the character of the outer flank next to the tag (as read on the
strand of the tag; `none` = the read ends there).  Either the tags have a fixed length (no
delimiter: any spacer, any flank), or they are delimited without rescue (`indels = 0`): the spacer
is a non-empty run of the delimiter `a|c|g|t`, the tag does not contain the delimiter and a
delimiter precedes it. -/
def SideBuilt (sd : Side) (T S : Bytes) (o : Option UInt8) : Prop :=
  sd.taglen = T.length ∧ sd.spacer = S.length ∧
  (sd.delim = 0 ∨
    (sd.indels = 0 ∧ S ≠ [] ∧ (∀ b ∈ S, b = sd.delim) ∧ sd.delim ∉ T ∧
      sd.delim ∈ [97, 99, 103, 116] ∧ (T ≠ [] → o = some sd.delim)))

theorem SideBuilt.mono {sd : Side} {T S : Bytes} {o o' : Option UInt8} (h : SideBuilt sd T S o)
    (ho : sd.delim ∈ [97, 99, 103, 116] → o = some sd.delim → o' = some sd.delim) :
    SideBuilt sd T S o' := by
  obtain ⟨h1, h2, h3⟩ := h
  refine ⟨h1, h2, ?_⟩
  rcases h3 with h3 | ⟨a, b, c, d, e, f⟩
  · exact Or.inl h3
  · exact Or.inr ⟨a, b, c, d, e, fun hT => ho e (f hT)⟩

theorem acgt_comp_comp : ∀ d ∈ ([97, 99, 103, 116] : List UInt8),
    nucComplement (nucComplement d) = d ∧ d ≠ 0 := by decide

theorem eq_replicate_of_all {S : Bytes} {d : UInt8} (h : ∀ b ∈ S, b = d) :
    S = List.replicate S.length d := by
  induction S with
  | nil => rfl
  | cons a t ih =>
    simp only [List.length_cons, List.replicate_succ]
    rw [h a (by simp), ← ih (fun b hb => h b (List.mem_cons_of_mem _ hb))]

theorem beginTag_built (L T S B : Bytes) (sd : Side) (h : SideBuilt sd T S L.getLast?) :
    beginTag (L ++ T ++ S ++ B) sd ((L.length : Int) + T.length + S.length) = .ok T := by
  obtain ⟨hl, hs, hk⟩ := h
  unfold beginTag
  by_cases h0 : T = []
  · subst h0; simp [hl]
  · have hlen : 0 < T.length := List.length_pos_iff.2 h0
    have hne : ¬ (sd.taglen = 0) := by rw [hl]; omega
    rw [if_neg hne]
    rcases hk with hk | ⟨hin, hS, hall, hd, hacgt, ho⟩
    · rw [if_pos hk]
      exact beginFixed_window L T S B sd hl hs
    · have hd0 : ¬ (sd.delim = 0) := (acgt_comp_comp _ hacgt).2
      rw [if_neg hd0, if_pos hin]
      have hlast := ho h0
      have hLne : L ≠ [] := by intro hL; subst hL; simp at hlast
      obtain ⟨P, hP⟩ : ∃ P, L = P ++ [sd.delim] := by
        refine ⟨L.dropLast, ?_⟩
        have := (List.dropLast_concat_getLast hLne).symm
        rw [List.getLast?_eq_some_getLast hLne] at hlast
        injection hlast with hlast
        rw [hlast] at this
        exact this
      have hSr := eq_replicate_of_all hall
      have hsp : 0 < S.length := List.length_pos_iff.2 hS
      have := beginDelimited_window P T B sd S.length hsp hl hs h0 hd
      rw [← hSr] at this
      subst hP
      simp only [List.length_append, List.length_cons, List.length_nil, Int.natCast_add] at this ⊢
      exact this

theorem endTag_built (A S T Rt : Bytes) (sd : Side) (hTA : ∀ b ∈ T, b ∈ alphabet)
    (h : SideBuilt sd T S (Rt.head?.map nucComplement)) :
    endTag (A ++ rc S ++ rc T ++ Rt) sd (A.length : Int) = .ok T := by
  obtain ⟨hl, hs, hk⟩ := h
  unfold endTag
  by_cases h0 : T = []
  · subst h0; simp [hl]
  · have hlen : 0 < T.length := List.length_pos_iff.2 h0
    have hne : ¬ (sd.taglen = 0) := by rw [hl]; omega
    rw [if_neg hne]
    rcases hk with hk | ⟨hin, hS, hall, hd, hacgt, ho⟩
    · rw [if_pos hk]
      have := endFixed_window A (rc S) (rc T) Rt sd (by rw [rc_length]; exact hl)
        (by rw [rc_length]; exact hs) (by rw [rc_length]; exact hlen)
      rw [rc_rc T hTA] at this
      exact this
    · have hd0 : ¬ (sd.delim = 0) := (acgt_comp_comp _ hacgt).2
      rw [if_neg hd0, if_pos hin]
      have hhead := ho h0
      obtain ⟨x, F, hR, hx⟩ : ∃ x F, Rt = x :: F ∧ nucComplement x = sd.delim := by
        cases Rt with
        | nil => simp at hhead
        | cons x F => exact ⟨x, F, rfl, by simpa using hhead⟩
      have hSr := eq_replicate_of_all hall
      have hsp : 0 < S.length := List.length_pos_iff.2 hS
      have := endDelimited_window A T F x sd S.length hsp hl hs h0 hd hx
        (acgt_comp_comp _ hacgt).1 hTA
      rw [← hSr] at this
      subst hR
      exact this

/-! ## the built read, whatever the way its tags are extracted -/

/-- the core of `constructed_read`: a read `P ++ pf ++ bc ++ rc pr ++ Q` with one forward hit and
one complemented-reverse hit of marker `n+1` at the built sites, the two tag extractors returning
`tagF` / `tagR` -/
theorem built_core (ms : List Marker) (n n' : Nat) (mk : Marker) (P pf bc pr Q tagF tagR : Bytes)
    (k1 k2 : Int) (hms : ms[n]? = some mk)
    (hpf : 0 < pf.length) (hbc : 0 < bc.length) (hpr : 0 < pr.length)
    (hprA : ∀ b ∈ pr, b ∈ alphabet)
    (hbt : beginTag (P ++ pf ++ bc ++ rc pr ++ Q) mk.fside (P.length : Int) = .ok tagF)
    (het : endTag (P ++ pf ++ bc ++ rc pr ++ Q) mk.rside
      ((P.length : Int) + pf.length + bc.length + pr.length) = .ok tagR) :
    amplicons ms (P ++ pf ++ bc ++ rc pr ++ Q)
      (List.replicate n noHits ++
        [⟨[((P.length : Int), (P.length : Int) + pf.length, k1)],
          [((P.length : Int) + pf.length + bc.length,
            (P.length : Int) + pf.length + bc.length + pr.length, k2)], [], []⟩] ++
        List.replicate n' noHits)
      = .ok [{ marker := n + 1, forward := true, subFrom := (P.length : Int) + pf.length,
               subTo := (P.length : Int) + pf.length + bc.length, barcode := bc,
               fmatch := pf, rmatch := pr, ferr := k1, rerr := k2, ftag := tagF, rtag := tagR,
               ident := identify mk tagF tagR }] := by
  generalize hb1 : (P.length : Int) = b1 at *
  generalize he1 : b1 + (pf.length : Int) = e1 at *
  generalize hb2 : e1 + (bc.length : Int) = b2 at *
  generalize he2 : b2 + (pr.length : Int) = e2 at *
  generalize hread : P ++ pf ++ bc ++ rc pr ++ Q = read at *
  have hcol : collect (List.replicate n noHits ++ [⟨[(b1, e1, k1)], [(b2, e2, k2)], [], []⟩] ++
      List.replicate n' noHits) 1 =
      [⟨b1, e1, k1, 1 + n, true⟩, ⟨b2, e2, k2, -(1 + n), true⟩] := by
    rw [List.append_assoc, collect_noHits]
    simp [collect, collect_all_noHits, mkMatches]
  have hle : b1 ≤ b2 := by omega
  have hsort : sortByBegin [⟨b1, e1, k1, 1 + n, true⟩, ⟨b2, e2, k2, -(1 + n), true⟩] =
      [(⟨b1, e1, k1, 1 + n, true⟩ : PrimerMatch), ⟨b2, e2, k2, -(1 + n), true⟩] := by
    simp [sortByBegin, insertByBegin, hle]
  have hlen : (read.length : Int) = b1 + pf.length + bc.length + pr.length + Q.length := by
    rw [← hread, ← hb1]
    simp only [List.length_append, rc_length, Int.natCast_add]
  have w1 : slice read b1 e1 = .ok pf := by
    have := slice_window P pf (bc ++ rc pr ++ Q)
    rw [← hread, ← he1, ← hb1]
    simpa only [List.append_assoc] using this
  have w2 : subsequence read b2 e2 false = .ok (rc pr, (P ++ pf ++ bc).length) := by
    have := sub_window (P ++ pf ++ bc) (rc pr) Q (by rw [rc_length]; exact hpr)
    simp only [List.length_append, Int.natCast_add, rc_length] at this
    rw [← hread, ← he2, ← hb2, ← he1, ← hb1]
    simpa only [List.length_append] using this
  have w3 : subsequence read e1 b2 false = .ok (bc, (P ++ pf).length) := by
    have := sub_window (P ++ pf) bc (rc pr ++ Q) hbc
    simp only [List.length_append, Int.natCast_add] at this
    rw [← hread, ← hb2, ← he1, ← hb1]
    simpa only [List.length_append, List.append_assoc] using this
  have w6 : tagExtractor mk read b1 e2 true = .ok (tagF, tagR) := by
    simp [tagExtractor, hbt, het, bind, Except.bind, pure, Except.pure]
  have hpos : (1 + (n : Int)) > 0 := by omega
  have hem := emit_ok ms read ⟨b1, e1, k1, 1 + n, true⟩ ⟨b2, e2, k2, -(1 + n), true⟩ mk pf (rc pr)
    tagF tagR bc _ _
    (by simpa [show (1 + (n : Int)).toNat - 1 = n by omega] using hms)
    (by simp only [hlen]; omega) w1 w2 w6 w3
  simp only [rc_rc pr hprA, if_true, Bool.not_true, Bool.false_eq_true, if_false] at hem
  unfold amplicons
  rw [hcol, hsort]
  simp only [machine, hpos, if_true, and_self, hem, bind, Except.bind, pure, Except.pure]
  simp
  omega

/-- the same on the other strand: `P ++ pr ++ cb ++ rc pf ++ Q` with one reverse hit and one
complemented-forward hit -/
theorem built_core_rc (ms : List Marker) (n n' : Nat) (mk : Marker) (P pf cb pr Q tagF tagR : Bytes)
    (k1 k2 : Int) (hms : ms[n]? = some mk)
    (hpf : 0 < pf.length) (hbc : 0 < cb.length) (hpr : 0 < pr.length)
    (hpfA : ∀ b ∈ pf, b ∈ alphabet)
    (hbt : beginTag (P ++ pr ++ cb ++ rc pf ++ Q) mk.rside (P.length : Int) = .ok tagR)
    (het : endTag (P ++ pr ++ cb ++ rc pf ++ Q) mk.fside
      ((P.length : Int) + pr.length + cb.length + pf.length) = .ok tagF) :
    amplicons ms (P ++ pr ++ cb ++ rc pf ++ Q)
      (List.replicate n noHits ++
        [⟨[], [], [((P.length : Int), (P.length : Int) + pr.length, k2)],
          [((P.length : Int) + pr.length + cb.length,
            (P.length : Int) + pr.length + cb.length + pf.length, k1)]⟩] ++
        List.replicate n' noHits)
      = .ok [{ marker := n + 1, forward := false, subFrom := (P.length : Int) + pr.length,
               subTo := (P.length : Int) + pr.length + cb.length, barcode := rc cb,
               fmatch := pf, rmatch := pr, ferr := k1, rerr := k2, ftag := tagF, rtag := tagR,
               ident := identify mk tagF tagR }] := by
  generalize hb1 : (P.length : Int) = b1 at *
  generalize he1 : b1 + (pr.length : Int) = e1 at *
  generalize hb2 : e1 + (cb.length : Int) = b2 at *
  generalize he2 : b2 + (pf.length : Int) = e2 at *
  generalize hread : P ++ pr ++ cb ++ rc pf ++ Q = read at *
  have hcol : collect (List.replicate n noHits ++ [⟨[], [], [(b1, e1, k2)], [(b2, e2, k1)]⟩] ++
      List.replicate n' noHits) 1 =
      [⟨b1, e1, k2, 1 + n, false⟩, ⟨b2, e2, k1, -(1 + n), false⟩] := by
    rw [List.append_assoc, collect_noHits]
    simp [collect, collect_all_noHits, mkMatches]
  have hle : b1 ≤ b2 := by omega
  have hsort : sortByBegin [⟨b1, e1, k2, 1 + n, false⟩, ⟨b2, e2, k1, -(1 + n), false⟩] =
      [(⟨b1, e1, k2, 1 + n, false⟩ : PrimerMatch), ⟨b2, e2, k1, -(1 + n), false⟩] := by
    simp [sortByBegin, insertByBegin, hle]
  have hlen : (read.length : Int) = b1 + pr.length + cb.length + pf.length + Q.length := by
    rw [← hread, ← hb1]
    simp only [List.length_append, rc_length, Int.natCast_add]
  have w1 : slice read b1 e1 = .ok pr := by
    have := slice_window P pr (cb ++ rc pf ++ Q)
    rw [← hread, ← he1, ← hb1]
    simpa only [List.append_assoc] using this
  have w2 : subsequence read b2 e2 false = .ok (rc pf, (P ++ pr ++ cb).length) := by
    have := sub_window (P ++ pr ++ cb) (rc pf) Q (by rw [rc_length]; exact hpf)
    simp only [List.length_append, Int.natCast_add, rc_length] at this
    rw [← hread, ← he2, ← hb2, ← he1, ← hb1]
    simpa only [List.length_append] using this
  have w3 : subsequence read e1 b2 false = .ok (cb, (P ++ pr).length) := by
    have := sub_window (P ++ pr) cb (rc pf ++ Q) hbc
    simp only [List.length_append, Int.natCast_add] at this
    rw [← hread, ← hb2, ← he1, ← hb1]
    simpa only [List.length_append, List.append_assoc] using this
  have w6 : tagExtractor mk read b1 e2 false = .ok (tagF, tagR) := by
    simp [tagExtractor, hbt, het, bind, Except.bind, pure, Except.pure]
  have hpos : (1 + (n : Int)) > 0 := by omega
  have hem := emit_ok ms read ⟨b1, e1, k2, 1 + n, false⟩ ⟨b2, e2, k1, -(1 + n), false⟩ mk pr (rc pf)
    tagF tagR cb _ _
    (by simpa [show (1 + (n : Int)).toNat - 1 = n by omega] using hms)
    (by simp only [hlen]; omega) w1 w2 w6 w3
  simp only [rc_rc pf hpfA, Bool.not_false, if_true, Bool.false_eq_true, if_false] at hem
  unfold amplicons
  rw [hcol, hsort]
  simp only [machine, hpos, if_true, and_self, hem, bind, Except.bind, pure, Except.pure]
  simp
  omega

/-- a declared tag pair read without error identifies its sample, under the three modes -/
theorem constructed_read_ident (mk : Marker) (s : Sample) (tagF tagR : Bytes)
    (hdecl : lookupPair mk.samples tagF tagR = some s) : (identify mk tagF tagR).pcr = some s := by
  have hmem : s ∈ mk.samples := List.mem_of_find?_eq_some hdecl
  have hp := List.find?_some hdecl
  simp only [Bool.and_eq_true, decide_eq_true_eq] at hp
  have hF : tagF ∈ mk.samples.map (·.ftag) := List.mem_map.2 ⟨s, hmem, hp.1⟩
  have hR : tagR ∈ mk.samples.map (·.rtag) := List.mem_map.2 ⟨s, hmem, hp.2⟩
  unfold identify
  by_cases hf0 : tagF = [] <;> by_cases hr0 : tagR = []
  · simp [hf0, hr0] at hdecl ⊢; exact hdecl
  · simp only [hf0, ne_eq, not_true_eq_false, if_false, hr0, not_false_eq_true, if_true,
      propose_declared mk.rmode _ tagR hr0 hR]
    rw [← hf0]; exact hdecl
  · simp only [hr0, ne_eq, not_true_eq_false, if_false, hf0, not_false_eq_true, if_true,
      propose_declared mk.fmode _ tagF hf0 hF]
    rw [← hr0]; exact hdecl
  · simp only [hf0, hr0, ne_eq, not_false_eq_true, if_true,
      propose_declared mk.fmode _ tagF hf0 hF, propose_declared mk.rmode _ tagR hr0 hR]
    exact hdecl

theorem rc_getLast_eq (l : Bytes) : (rc l).getLast? = l.head?.map nucComplement := by
  cases l <;> simp [rc]

theorem rc_head_eq (l : Bytes) : (rc l).head? = l.getLast?.map nucComplement := by
  simp [rc, List.head?_reverse]

end ObiVerif.Demux
