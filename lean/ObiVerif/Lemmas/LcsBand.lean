import ObiVerif.Model.Lcs
import ObiVerif.Lemmas.Lcs
/-!
# Band containment for the banded LCS matrix (C09)

The banded matrix `bandLast lo hi A B` restricts the textbook recurrence to the diagonals `lo ≤ j - i ≤ hi`, marks
the two border diagonals out-of-band (`_setout`) and never reads beyond them.  We prove

* `Ali.toIn`      : an alignment whose numbers of vertical / horizontal gap columns (`l - |a|`, `l - |b|`) are below
                    `-lo` / `hi` has all its prefix end points strictly inside the band (`AliIn`);
* `bandCell_lb`   : every cell of the banded matrix is, as a packed `uint64`, at least the packed (score, length) of
                    every alignment of the two prefixes that stays strictly inside the band (lower bound invariant
                    `LB`, carried together with the soundness invariant `Good` of `Lemmas/Lcs.lean`);
* `bandLast_inband` : hence, when the optimal alignment fits in the band, the last cell is exactly the optimum;
* `bandLCSAB_exact_band`, `bandLCS_exact_band` : with the band of `FastLCSEGFScoreByte`
                    (`lo = -2·extra`, `hi = 2·(delta+extra)`, `extra = e - delta + 1`) the kernel is exact as soon as
                    `max(|a|,|b|) ≤ LCS + e`, in particular when the optimum has at most `e` differences;
* `bandLCS_beyond` : otherwise no answer, or an answer that itself has more than `e` differences.
-/
namespace ObiVerif.Lcs

/-- `AliIn m lo hi a b s l` : an alignment (as `Ali`, on the reversed prefixes: a constructor = one step of the
matrix) all of whose prefix end points `(i, j)` other than the origin lie strictly inside the band: `lo < j - i < hi`. -/
inductive AliIn (m : UInt8 → UInt8 → Bool) (lo hi : Int) : Seq → Seq → Nat → Nat → Prop where
  | nil : AliIn m lo hi [] [] 0 0
  | gapB (x : UInt8) {a b s l} : AliIn m lo hi a b s l →
      lo < ((a.length + 1 : Nat) : Int) - ((b.length : Nat) : Int) →
      ((a.length + 1 : Nat) : Int) - ((b.length : Nat) : Int) < hi → AliIn m lo hi (x :: a) b s (l + 1)
  | gapA (y : UInt8) {a b s l} : AliIn m lo hi a b s l →
      lo < ((a.length : Nat) : Int) - ((b.length + 1 : Nat) : Int) →
      ((a.length : Nat) : Int) - ((b.length + 1 : Nat) : Int) < hi → AliIn m lo hi a (y :: b) s (l + 1)
  | pair (x y : UInt8) {a b s l} : AliIn m lo hi a b s l →
      lo < ((a.length + 1 : Nat) : Int) - ((b.length + 1 : Nat) : Int) →
      ((a.length + 1 : Nat) : Int) - ((b.length + 1 : Nat) : Int) < hi →
      AliIn m lo hi (x :: a) (y :: b) (s + (if m x y then 1 else 0)) (l + 1)

variable (m : UInt8 → UInt8 → Bool)

theorem AliIn.toAli {lo hi : Int} {a b : Seq} {s l : Nat} (h : AliIn m lo hi a b s l) : Ali m a b s l := by
  induction h with
  | nil => exact .nil
  | gapB x _ _ _ ih => exact .gapB x ih
  | gapA y _ _ _ ih => exact .gapA y ih
  | pair x y _ _ _ ih => exact .pair x y ih

/-- the end point of an in-band alignment is strictly inside the band -/
theorem AliIn.inside {lo hi : Int} (h0 : lo < 0) (h1 : 0 < hi) {a b : Seq} {s l : Nat}
    (h : AliIn m lo hi a b s l) :
    lo < ((a.length : Nat) : Int) - ((b.length : Nat) : Int) ∧
      ((a.length : Nat) : Int) - ((b.length : Nat) : Int) < hi := by
  cases h with
  | nil => simp only [List.length_nil]; omega
  | gapB x _ p q => simp only [List.length_cons]; exact ⟨p, q⟩
  | gapA y _ p q => simp only [List.length_cons]; exact ⟨p, q⟩
  | pair x y _ p q => simp only [List.length_cons]; exact ⟨p, q⟩

/-- matches are pairs: `s ≤ |a| + |b| - l` (the number of pair columns) -/
theorem Ali.score_len {a b : Seq} {s l : Nat} (h : Ali m a b s l) : s + l ≤ a.length + b.length := by
  induction h with
  | nil => simp
  | gapB x _ ih => simp only [List.length_cons]; omega
  | gapA y _ ih => simp only [List.length_cons]; omega
  | pair x y _ ih => simp only [List.length_cons]; split <;> omega

/-- **band containment**: an alignment with `l` columns has `l - |a|` vertical and `l - |b|` horizontal gap
columns; if these are below `-lo` and `hi`, no prefix of the alignment leaves the open band `(lo, hi)`. -/
theorem Ali.toIn {a b : Seq} {s l : Nat} (h : Ali m a b s l) (lo hi : Int)
    (h1 : lo < ((a.length : Nat) : Int) - (l : Int)) (h2 : (l : Int) - ((b.length : Nat) : Int) < hi) :
    AliIn m lo hi a b s l := by
  induction h with
  | nil => exact .nil
  | @gapB x a b s l h' ih =>
    have hb := h'.bounds m
    simp only [List.length_cons] at h1 h2
    exact .gapB x (ih (by omega) (by omega)) (by omega) (by omega)
  | @gapA y a b s l h' ih =>
    have hb := h'.bounds m
    simp only [List.length_cons] at h1 h2
    exact .gapA y (ih (by omega) (by omega)) (by omega) (by omega)
  | @pair x y a b s l h' ih =>
    have hb := h'.bounds m
    simp only [List.length_cons] at h1 h2
    exact .pair x y (ih (by omega) (by omega)) (by omega) (by omega)

/-! ## the lower-bound invariant -/

/-- the cell is at least (as a packed word) every in-band alignment of the two prefixes -/
def LB (lo hi : Int) (pa pb : Seq) (v : UInt64) : Prop :=
  ∀ s l, AliIn m lo hi pa pb s l → encodeValues s l false ≤ v

/-- a sound cell that is above an in-band word is itself in-band, realised, and lexicographically at least it -/
theorem good_ge_in {pa pb : Seq} {v : UInt64} {s l : Nat} (hn : pa.length + pb.length ≤ 30000)
    (hg : Good m pa pb v) (ha : Ali m pa pb s l) (h : encodeValues s l false ≤ v) :
    ∃ s0 l0, v = encodeValues s0 l0 false ∧ Ali m pa pb s0 l0 ∧ (s < s0 ∨ (s = s0 ∧ l0 ≤ l)) := by
  have hb := ha.bounds m
  rcases hg with ⟨s0, l0, rfl, hs, hl⟩ | ⟨s0, l0, rfl, ha0⟩
  · exfalso
    have hlt := encode_out_lt_in s0 l0 s l (by omega) (by omega) (by omega) (by omega)
    rw [UInt64.le_iff_toNat_le] at h
    rw [UInt64.lt_iff_toNat_lt] at hlt
    omega
  · have hb0 := ha0.bounds m
    refine ⟨s0, l0, rfl, ha0, ?_⟩
    rw [encode_le_iff s l s0 l0 false (by omega) (by omega) (by omega) (by omega)] at h
    exact h

theorem lb_step {pa pb : Seq} {v : UInt64} {s l : Nat} (hn : pa.length + pb.length + 1 ≤ 30000)
    (hg : Good m pa pb v) (ha : Ali m pa pb s l) (h : encodeValues s l false ≤ v) :
    encodeValues s (l + 1) false ≤ incpath v := by
  obtain ⟨s0, l0, rfl, ha0, hc⟩ := good_ge_in m (by omega) hg ha h
  have hb := ha.bounds m
  have hb0 := ha0.bounds m
  rw [incpath_encode s0 l0 false (by omega) (by omega),
    encode_le_iff s (l + 1) s0 (l0 + 1) false (by omega) (by omega) (by omega) (by omega)]
  omega

theorem lb_diag {pa pb : Seq} {v : UInt64} {s l : Nat} (x y : UInt8) (hn : pa.length + pb.length + 2 ≤ 30000)
    (hg : Good m pa pb v) (ha : Ali m pa pb s l) (h : encodeValues s l false ≤ v) :
    encodeValues (s + (if m x y then 1 else 0)) (l + 1) false ≤
      (if m x y then incscore (incpath v) else incpath v) := by
  obtain ⟨s0, l0, rfl, ha0, hc⟩ := good_ge_in m (by omega) hg ha h
  have hb := ha.bounds m
  have hb0 := ha0.bounds m
  rw [incpath_encode s0 l0 false (by omega) (by omega)]
  split
  · rw [incscore_encode s0 (l0 + 1) false (by omega) (by omega),
      encode_le_iff (s + 1) (l + 1) (s0 + 1) (l0 + 1) false (by omega) (by omega) (by omega) (by omega)]
    omega
  · rw [encode_le_iff (s + 0) (l + 1) s0 (l0 + 1) false (by omega) (by omega) (by omega) (by omega)]
    omega

/-- interior cell: the lower bound is inherited from the three neighbours -/
theorem bandCell_lb (lo hi : Int) (pa pb : Seq) (x y : UInt8) (diag up left : UInt64)
    (hn : pa.length + pb.length + 2 ≤ 30000)
    (gd : Good samenuc pa pb diag) (gu : Good samenuc (x :: pa) pb up) (gl : Good samenuc pa (y :: pb) left)
    (ld : LB samenuc lo hi pa pb diag) (lu : LB samenuc lo hi (x :: pa) pb up)
    (ll : LB samenuc lo hi pa (y :: pb) left) :
    LB samenuc lo hi (x :: pa) (y :: pb)
      (bandCell lo hi (pb.length + 1) (pa.length + 1) (samenuc x y) diag up left) := by
  intro s l h
  have hi0 : ¬ pb.length + 1 = 0 := by omega
  have hj0 : ¬ pa.length + 1 = 0 := by omega
  -- the end point is strictly inside: no `_setout`, both neighbours are read
  have hin : lo < ((pa.length + 1 : Nat) : Int) - ((pb.length + 1 : Nat) : Int) ∧
      ((pa.length + 1 : Nat) : Int) - ((pb.length + 1 : Nat) : Int) < hi := by
    cases h with
    | gapB _ _ p q => simp only [List.length_cons] at p q; exact ⟨p, q⟩
    | gapA _ _ p q => simp only [List.length_cons] at p q; exact ⟨p, q⟩
    | pair _ _ _ p q => exact ⟨p, q⟩
  have hedge : ¬ (((pa.length + 1 : Nat) : Int) - ((pb.length + 1 : Nat) : Int) = lo ∨
      ((pa.length + 1 : Nat) : Int) - ((pb.length + 1 : Nat) : Int) = hi) := by omega
  unfold bandCell
  simp only [if_neg hi0, if_neg hj0, if_neg hedge, if_pos hin.1, if_pos hin.2]
  have pg := pick_ge (if samenuc x y then incscore (incpath diag) else incpath diag) (incpath up) (incpath left)
  cases h with
  | gapB _ h' p q =>
    exact UInt64.le_trans (lb_step samenuc (by simp only [List.length_cons]; omega) gl (h'.toAli samenuc)
      (ll _ _ h')) pg.2.2
  | gapA _ h' p q =>
    exact UInt64.le_trans (lb_step samenuc (by simp only [List.length_cons]; omega) gu (h'.toAli samenuc)
      (lu _ _ h')) pg.2.1
  | pair _ _ h' p q =>
    exact UInt64.le_trans (lb_diag samenuc x y hn gd (h'.toAli samenuc) (ld _ _ h')) pg.1

theorem bandCell_row0_lb (lo hi : Int) (h0 : lo < 0) (h1 : 0 < hi) (pa : Seq) (hn : pa.length < 30000) :
    LB samenuc lo hi pa [] (bandCell lo hi 0 pa.length false 0 0 0) := by
  intro s l h
  have hin := h.inside samenuc h0 h1
  have hsl := Ali.of_nil_right samenuc (h.toAli samenuc)
  simp only [List.length_nil] at hin
  have hedge : ¬ (((pa.length : Nat) : Int) - ((0 : Nat) : Int) = lo ∨
      ((pa.length : Nat) : Int) - ((0 : Nat) : Int) = hi) := by omega
  unfold bandCell
  simp only [if_true, if_neg hedge]
  rw [pick_row0 _ hn, hsl.1, hsl.2]
  exact UInt64.le_refl _

theorem bandCell_col0_lb (lo hi : Int) (h0 : lo < 0) (h1 : 0 < hi) (pb : Seq) (hne : pb ≠ [])
    (hn : pb.length < 30000) :
    LB samenuc lo hi [] pb (bandCell lo hi pb.length 0 false 0 0 0) := by
  intro s l h
  have hin := h.inside samenuc h0 h1
  have hsl := Ali.of_nil_left samenuc (h.toAli samenuc)
  simp only [List.length_nil] at hin
  have hz : ¬ pb.length = 0 := fun e => hne (List.eq_nil_of_length_eq_zero e)
  have hedge : ¬ (((0 : Nat) : Int) - ((pb.length : Nat) : Int) = lo ∨
      ((0 : Nat) : Int) - ((pb.length : Nat) : Int) = hi) := by omega
  unfold bandCell
  simp only [if_neg hz, if_true, if_neg hedge]
  rw [pick_col0 _ hn, hsl.1, hsl.2]
  exact UInt64.le_refl _

/-- the last cell of the banded matrix is sound and above every in-band alignment of the two sequences -/
theorem bandLast_good_lb (lo hi : Int) (A B : Seq) (hn : A.length + B.length + 1 ≤ 30000)
    (h0 : lo < 0) (h1 : 0 < hi) :
    Good samenuc A.reverse B.reverse ((bandLast lo hi A B).getLastD 0) ∧
      LB samenuc lo hi A.reverse B.reverse ((bandLast lo hi A B).getLastD 0) := by
  refine bandLast_gen (fun pa pb v => Good samenuc pa pb v ∧ LB samenuc lo hi pa pb v) A.length B.length lo hi
    ?_ ?_ ?_ A B (Nat.le_refl _) (Nat.le_refl _)
  · intro pa pb x y diag up left hpa hpb hd hu hl
    exact ⟨bandCell_good samenuc lo hi x y _ _ rfl rfl (by omega) hd.1 hu.1 hl.1,
      bandCell_lb lo hi pa pb x y diag up left (by omega) hd.1 hu.1 hl.1 hd.2 hu.2 hl.2⟩
  · intro pa hpa
    exact ⟨bandCell_row0_good samenuc lo hi pa _ rfl (by omega), bandCell_row0_lb lo hi h0 h1 pa (by omega)⟩
  · intro pb hpb hne
    have hz : ¬ pb.length = 0 := fun e => hne (List.eq_nil_of_length_eq_zero e)
    exact ⟨bandCell_col0_good samenuc lo hi pb _ rfl hz (by omega),
      bandCell_col0_lb lo hi h0 h1 pb hne (by omega)⟩

/-- **exactness of a band that contains the optimal alignment**: if the optimum `(S, L)` has fewer than `-lo`
vertical gap columns (`L - |A|`) and fewer than `hi` horizontal ones (`L - |B|`), the last cell of the banded
matrix is the in-band packed optimum. -/
theorem bandLast_inband (lo hi : Int) (A B : Seq) (hn : A.length + B.length + 1 ≤ 30000)
    (h0 : lo < 0) (h1 : 0 < hi)
    (hlo : lo < ((A.length : Nat) : Int) - ((lcsDP samenuc A B).2 : Int))
    (hhi : ((lcsDP samenuc A B).2 : Int) - ((B.length : Nat) : Int) < hi) :
    (bandLast lo hi A B).getLastD 0 = encP (lcsDP samenuc A B) := by
  obtain ⟨hg, hl⟩ := bandLast_good_lb lo hi A B hn h0 h1
  have hopt := lcsDP_opt samenuc A B
  have hrev := hopt.1.reverse samenuc
  have hinb := hrev.toIn samenuc lo hi (by simpa using hlo) (by simpa using hhi)
  obtain ⟨s0, l0, hv, ha0, hc⟩ := good_ge_in samenuc (by simp; omega) hg hrev (hl _ _ hinb)
  have hbt := hopt.2 s0 l0 (ha0.of_reverse samenuc)
  rw [better_iff] at hbt
  simp only at hbt
  have e1 : s0 = (lcsDP samenuc A B).1 := by omega
  have e2 : l0 = (lcsDP samenuc A B).2 := by omega
  rw [hv, e1, e2]; rfl

/-! ## the band of `FastLCSEGFScoreByte` -/

/-- `A` the sequence laid on the columns (the longer one in `bandLCS`), explicit bound `e`: the kernel is exact as
soon as `|A| ≤ LCS + e` -/
theorem bandLCSAB_exact_band (A B : Seq) (e : Int) (hn : A.length + B.length + 1 ≤ 30000)
    (he : e ≠ -1)
    (hS : ((A.length : Nat) : Int) ≤ ((lcsDP samenuc A B).1 : Int) + e) :
    bandLCSAB A B e = some (lcsDP samenuc A B) := by
  have hopt := (lcsDP_opt samenuc A B).1
  have hb := hopt.bounds samenuc
  have hsl := hopt.score_len samenuc
  unfold bandLCSAB bandGeo
  have hc : ¬ ((A.length : Int) - (B.length : Int) > e) := by omega
  have he' : (e == -1) = false := by simpa using he
  simp only [he', Bool.false_eq_true, if_false, if_neg hc]
  rw [bandLast_inband _ _ A B hn (by omega) (by omega) (by omega) (by omega)]
  unfold bandResult encP
  rw [decode_encode _ _ false (by omega) (by omega)]
  simp

/-- both orders of the arguments -/
theorem bandLCS_exact_band (a b : Seq) (e : Int) (hn : a.length + b.length + 1 ≤ 30000) (he : e ≠ -1)
    (hS : ((max a.length b.length : Nat) : Int) ≤ ((lcsDP samenuc a b).1 : Int) + e) :
    bandLCS a b e = some (lcsDP samenuc a b) := by
  unfold bandLCS
  split
  · rename_i h
    have e1 : max a.length b.length = b.length := by omega
    rw [e1, ← lcsDP_samenuc_swap a b] at hS
    rw [bandLCSAB_exact_band b a e (by omega) he hS, lcsDP_samenuc_swap]
  · rename_i h
    have e1 : max a.length b.length = a.length := by omega
    rw [e1] at hS
    exact bandLCSAB_exact_band a b e hn he hS

/-- the optimum has at most `e` differences ⇒ `max(|a|,|b|) ≤ LCS + e` -/
theorem diff_le_imp_cover (a b : Seq) (e : Int)
    (h : ((lcsDP samenuc a b).2 : Int) - ((lcsDP samenuc a b).1 : Int) ≤ e) :
    ((max a.length b.length : Nat) : Int) ≤ ((lcsDP samenuc a b).1 : Int) + e := by
  have hb := (lcsDP_opt samenuc a b).1.bounds samenuc
  omega

/-- an answer within the bound forces exactness: if the kernel answers `(s, l)` with `l - s ≤ e` then the
optimum is covered by the band and the answer is the optimum -/
theorem bandLCS_within_is_opt (a b : Seq) (e : Int) (s l : Nat) (hn : a.length + b.length + 1 ≤ 30000)
    (he : e ≠ -1) (h : bandLCS a b e = some (s, l)) (hb : (l : Int) - (s : Int) ≤ e) :
    (s, l) = lcsDP samenuc a b := by
  have ha := bandLCS_sound a b e s l hn h
  have hbd := ha.bounds samenuc
  have hopt := (lcsDP_opt samenuc a b).2 s l ha
  rw [better_iff] at hopt
  simp only at hopt
  have hS : ((max a.length b.length : Nat) : Int) ≤ ((lcsDP samenuc a b).1 : Int) + e := by omega
  have := bandLCS_exact_band a b e hn he hS
  rw [this] at h
  injection h with h
  exact h.symm

/-- beyond the bound: no answer, or an answer that is itself beyond the bound -/
theorem bandLCS_beyond (a b : Seq) (e : Int) (hn : a.length + b.length + 1 ≤ 30000) (he : e ≠ -1)
    (h : e < ((lcsDP samenuc a b).2 : Int) - ((lcsDP samenuc a b).1 : Int)) :
    bandLCS a b e = none ∨ ∃ s l, bandLCS a b e = some (s, l) ∧ e < (l : Int) - (s : Int) := by
  cases hr : bandLCS a b e with
  | none => exact .inl rfl
  | some p =>
    obtain ⟨s, l⟩ := p
    refine .inr ⟨s, l, rfl, ?_⟩
    apply Int.lt_of_not_ge
    intro hle
    have := bandLCS_within_is_opt a b e s l hn he hr hle
    rw [← this] at h
    simp only at h
    omega

end ObiVerif.Lcs
