import ObiVerif.Model.PEAlign
import ObiVerif.Spec.Align
/-!
# Lemmas for C08: the fills satisfy the textbook recurrence; backtracking invariants; optimality
-/
namespace ObiVerif.PEAlign
open ObiVerif.Align

/-! ## `best` -/

theorem best_cases (d l t : Int) :
    (best d l t = (d, 0) ∧ l ≤ d ∧ t ≤ d) ∨ (best d l t = (l, 1) ∧ d ≤ l ∧ t ≤ l) ∨
    (best d l t = (t, -1) ∧ d ≤ t ∧ l ≤ t) := by
  unfold best
  by_cases h1 : d ≥ l ∧ d ≥ t
  · simp [h1]
  · by_cases h2 : l ≥ d ∧ l ≥ t
    · simp [h1, h2]
    · simp [h1, h2]; omega

/-! ## shape of the columns -/

theorem firstColAux_length (c : Int) : ∀ (n : Nat) (v : Int), (firstColAux c n v).length = n
  | 0, _ => rfl
  | n + 1, v => by simp [firstColAux, firstColAux_length c n]

theorem firstColAux_getD (c : Int) : ∀ (n : Nat) (v : Int) (k : Nat), k < n →
    (firstColAux c n v).getD k (0, 0) = (v + (k + 1) * c, -1)
  | 0, _, _, h => by omega
  | n + 1, v, 0, _ => by simp [firstColAux]
  | n + 1, v, k + 1, h => by
    simp only [firstColAux, List.getD_cons_succ]
    rw [firstColAux_getD c n (v + c) k (by omega)]
    congr 1
    simp only [Int.add_mul, Int.natCast_add, Int.natCast_one, Int.one_mul]
    omega

theorem scanCol_length (s : Nat → Nat → Int) (cB : Nat → Int) (c : Int) (j : Nat) :
    ∀ (prev : List Cell) (i : Nat) (top : Int), (scanCol s cB c j i top prev).length = prev.length - 1
  | [], _, _ => by simp [scanCol]
  | [_], _, _ => by simp [scanCol]
  | d :: l :: rest, i, top => by
    simp only [scanCol, List.length_cons]
    rw [scanCol_length s cB c j (l :: rest)]
    simp

/-- every cell produced by the scan obeys the three-way recurrence -/
theorem scanCol_getD (s : Nat → Nat → Int) (cB : Nat → Int) (c : Int) (j : Nat) :
    ∀ (prev : List Cell) (i : Nat) (top : Int) (k : Nat), k + 1 < prev.length →
      (scanCol s cB c j i top prev).getD k (0, 0) =
        best ((prev.getD k (0, 0)).1 + s (i + k) j) ((prev.getD (k + 1) (0, 0)).1 + cB (i + k + 1))
          ((if k = 0 then top else ((scanCol s cB c j i top prev).getD (k - 1) (0, 0)).1) + c)
  | [], _, _, _, h => by simp at h
  | [_], _, _, _, h => by simp at h
  | d :: l :: rest, i, top, 0, _ => by simp [scanCol]
  | d :: l :: rest, i, top, k + 1, h => by
    have ih := scanCol_getD s cB c j (l :: rest) (i + 1)
      (best (d.1 + s i j) (l.1 + cB (i + 1)) (top + c)).1 k (by simp at h ⊢; omega)
    simp only [scanCol, List.getD_cons_succ]
    rw [ih]
    have e1 : i + 1 + k = i + (k + 1) := by omega
    rw [e1]
    cases k with
    | zero => simp
    | succ k => simp

theorem nextCol_length (s : Nat → Nat → Int) (cA cB : Nat → Int) (j : Nat) (prev : List Cell) (h : 0 < prev.length) :
    (nextCol s cA cB j prev).length = prev.length := by
  simp [nextCol, scanCol_length]; omega

theorem colAt_length (s : Nat → Nat → Int) (cA cB : Nat → Int) (la : Nat) :
    ∀ j, (colAt s cA cB la j).length = la + 1
  | 0 => by simp [colAt, firstCol, firstColAux_length]
  | j + 1 => by
    have ih := colAt_length s cA cB la j
    simp only [colAt]
    rw [nextCol_length _ _ _ _ _ (by omega), ih]

/-! ## the recurrence, cell by cell -/

/-- score matrix / path matrix as functions of the prefix lengths -/
def Mf (s : Nat → Nat → Int) (cA cB : Nat → Int) (la : Nat) (i j : Nat) : Int := (cellAt s cA cB la i j).1
def Pf (s : Nat → Nat → Int) (cA cB : Nat → Int) (la : Nat) (i j : Nat) : Int := (cellAt s cA cB la i j).2

/-- what the theorems need to know about a pair of matrices: the textbook recurrence with per-row /
per-column indel costs, and the direction recorded with the `best` tie rule -/
structure IsFill (s : Nat → Nat → Int) (cA cB : Nat → Int) (la lb : Nat) (M P : Nat → Nat → Int) : Prop where
  m00 : M 0 0 = 0
  col0 : ∀ i, i < la → M (i + 1) 0 = M i 0 + cA 0 ∧ P (i + 1) 0 = -1
  row0 : ∀ j, j < lb → M 0 (j + 1) = M 0 j + cB 0 ∧ P 0 (j + 1) = 1
  inner : ∀ i j, i < la → j < lb →
    (M (i + 1) (j + 1), P (i + 1) (j + 1)) =
      best (M i j + s i j) (M (i + 1) j + cB (i + 1)) (M i (j + 1) + cA (j + 1))

theorem cell_zero_col (s : Nat → Nat → Int) (cA cB : Nat → Int) (la i : Nat) (h : i ≤ la) :
    cellAt s cA cB la i 0 = if i = 0 then (0, 0) else ((i : Int) * cA 0, -1) := by
  unfold cellAt colAt firstCol
  cases i with
  | zero => simp
  | succ i =>
    simp only [List.getD_cons_succ]
    rw [firstColAux_getD _ _ _ _ (by omega)]
    simp

theorem cell_first_row (s : Nat → Nat → Int) (cA cB : Nat → Int) (la j : Nat) :
    cellAt s cA cB la 0 (j + 1) = ((cellAt s cA cB la 0 j).1 + cB 0, 1) := by
  have hl := colAt_length s cA cB la j
  unfold cellAt
  simp only [colAt, nextCol, List.getD_cons_zero]
  cases hc : colAt s cA cB la j with
  | nil => simp [hc] at hl
  | cons x xs => simp

theorem cell_inner (s : Nat → Nat → Int) (cA cB : Nat → Int) (la i j : Nat) (h : i < la) :
    cellAt s cA cB la (i + 1) (j + 1) =
      best ((cellAt s cA cB la i j).1 + s i j) ((cellAt s cA cB la (i + 1) j).1 + cB (i + 1))
        ((cellAt s cA cB la i (j + 1)).1 + cA (j + 1)) := by
  have hl := colAt_length s cA cB la j
  unfold cellAt
  simp only [colAt, nextCol, List.getD_cons_succ]
  rw [scanCol_getD _ _ _ _ _ _ _ _ (by omega)]
  simp only [Nat.zero_add]
  cases i with
  | zero =>
    cases hc : colAt s cA cB la j with
    | nil => simp [hc] at hl
    | cons x xs => simp
  | succ i => simp

theorem isFill_cells (s : Nat → Nat → Int) (cA cB : Nat → Int) (la lb : Nat) :
    IsFill s cA cB la lb (Mf s cA cB la) (Pf s cA cB la) where
  m00 := by simp [Mf, cell_zero_col]
  col0 := by
    intro i h
    simp only [Mf, Pf]
    rw [cell_zero_col _ _ _ _ _ (by omega : i + 1 ≤ la), cell_zero_col _ _ _ _ _ (by omega : i ≤ la)]
    by_cases h0 : i = 0
    · simp [h0]
    · simp only [h0, if_false, Nat.add_eq_zero_iff, Nat.succ_ne_self, Int.natCast_add, Int.natCast_one,
        Int.add_mul, Int.one_mul, and_self]
  row0 := by
    intro j _
    simp [Mf, Pf, cell_first_row]
  inner := by
    intro i j h _
    simp only [Mf, Pf]
    rw [← cell_inner s cA cB la i j h]

/-! ## what a cell knows about its predecessor -/

/-- the direction stored in a cell points to the predecessor whose value the cell extends -/
def StepFact (s : Nat → Nat → Int) (cA cB : Nat → Int) (M P : Nat → Nat → Int) (i j : Nat) : Prop :=
  (P i j = 0 ∧ ∃ i' j', i = i' + 1 ∧ j = j' + 1 ∧ M i j = M i' j' + s i' j') ∨
  (P i j = 1 ∧ ∃ j', j = j' + 1 ∧ M i j = M i j' + cB i) ∨
  (P i j = -1 ∧ ∃ i', i = i' + 1 ∧ M i j = M i' j + cA j)

theorem stepFact {s : Nat → Nat → Int} {cA cB : Nat → Int} {la lb : Nat} {M P : Nat → Nat → Int}
    (hf : IsFill s cA cB la lb M P) (i j : Nat) (hi : i ≤ la) (hj : j ≤ lb) (h0 : ¬(i = 0 ∧ j = 0)) :
    StepFact s cA cB M P i j := by
  cases i with
  | zero =>
    cases j with
    | zero => simp at h0
    | succ j =>
      have := hf.row0 j (by omega)
      exact Or.inr (Or.inl ⟨this.2, j, rfl, this.1⟩)
  | succ i =>
    cases j with
    | zero =>
      have := hf.col0 i (by omega)
      exact Or.inr (Or.inr ⟨this.2, i, rfl, this.1⟩)
    | succ j =>
      have h := hf.inner i j (by omega) (by omega)
      rcases best_cases (M i j + s i j) (M (i + 1) j + cB (i + 1)) (M i (j + 1) + cA (j + 1)) with hb | hb | hb
      · rw [hb.1] at h
        have h1 := congrArg Prod.fst h
        have h2 := congrArg Prod.snd h
        exact Or.inl ⟨h2, i, j, rfl, rfl, h1⟩
      · rw [hb.1] at h
        have h1 := congrArg Prod.fst h
        have h2 := congrArg Prod.snd h
        exact Or.inr (Or.inl ⟨h2, j, rfl, h1⟩)
      · rw [hb.1] at h
        have h1 := congrArg Prod.fst h
        have h2 := congrArg Prod.snd h
        exact Or.inr (Or.inr ⟨h2, i, rfl, h1⟩)

/-- a cell is at least as good as each of its three candidates -/
theorem cell_ge {s : Nat → Nat → Int} {cA cB : Nat → Int} {la lb : Nat} {M P : Nat → Nat → Int}
    (hf : IsFill s cA cB la lb M P) :
    (∀ i j, i < la → j < lb → M i j + s i j ≤ M (i + 1) (j + 1)) ∧
    (∀ i j, i ≤ la → j < lb → M i j + cB i ≤ M i (j + 1)) ∧
    (∀ i j, i < la → j ≤ lb → M i j + cA j ≤ M (i + 1) j) := by
  refine ⟨?_, ?_, ?_⟩
  · intro i j hi hj
    have h := congrArg Prod.fst (hf.inner i j hi hj)
    rcases best_cases (M i j + s i j) (M (i + 1) j + cB (i + 1)) (M i (j + 1) + cA (j + 1)) with hb | hb | hb <;>
      (rw [hb.1] at h; simp only at h; omega)
  · intro i j hi hj
    cases i with
    | zero => have := (hf.row0 j hj).1; omega
    | succ i =>
      have h := congrArg Prod.fst (hf.inner i j (by omega) hj)
      rcases best_cases (M i j + s i j) (M (i + 1) j + cB (i + 1)) (M i (j + 1) + cA (j + 1)) with hb | hb | hb <;>
        (rw [hb.1] at h; simp only at h; omega)
  · intro i j hi hj
    cases j with
    | zero => have := (hf.col0 i hi).1; omega
    | succ j =>
      have h := congrArg Prod.fst (hf.inner i j hi (by omega))
      rcases best_cases (M i j + s i j) (M (i + 1) j + cB (i + 1)) (M i (j + 1) + cA (j + 1)) with hb | hb | hb <;>
        (rw [hb.1] at h; simp only at h; omega)

/-! ## pending runs -/

/-- score, seen from (i, j), of: `u` bases of A alone, `l` bases of B alone, `dg` diagonal columns, then `acc` -/
def pendScore (s : Nat → Nat → Int) (cA cB : Nat → Int) (i j u l dg : Nat) (acc : Path) : Int :=
  (u : Int) * cA j + (l : Int) * cB i + runD s dg (i + u) (j + l)
    + scoreFrom s cA cB (i + u + dg) (j + l + dg) acc

theorem scoreFrom_pair (s : Nat → Nat → Int) (cA cB : Nat → Int) (i j : Nat) (ind d : Int) (rest : Path)
    (u l dg : Nat) (hu : (-ind).toNat = u) (hl : ind.toNat = l) (hd : d.toNat = dg) :
    scoreFrom s cA cB i j (ind :: d :: rest) = pendScore s cA cB i j u l dg rest := by
  subst hu hl hd
  simp [scoreFrom, pendScore]

section Pend
variable (s : Nat → Nat → Int) (cA cB : Nat → Int)

theorem succ_cast_mul (n : Nat) (c : Int) : ((n + 1 : Nat) : Int) * c = (n : Int) * c + c := by
  simp [Int.add_mul]

theorem pend_left (i j l dg : Nat) (acc : Path) :
    pendScore s cA cB i j 0 (l + 1) dg acc = cB i + pendScore s cA cB i (j + 1) 0 l dg acc := by
  simp only [pendScore, succ_cast_mul, Nat.add_zero, Int.natCast_zero, Int.zero_mul]
  have e1 : j + (l + 1) = j + 1 + l := by omega
  rw [e1]; omega

theorem pend_up (i j u dg : Nat) (acc : Path) :
    pendScore s cA cB i j (u + 1) 0 dg acc = cA j + pendScore s cA cB (i + 1) j u 0 dg acc := by
  simp only [pendScore, succ_cast_mul, Nat.add_zero, Int.natCast_zero, Int.zero_mul]
  have e1 : i + (u + 1) = i + 1 + u := by omega
  rw [e1]; omega

theorem pend_diag (i j dg : Nat) (acc : Path) :
    pendScore s cA cB i j 0 0 (dg + 1) acc = s i j + pendScore s cA cB (i + 1) (j + 1) 0 0 dg acc := by
  simp only [pendScore, Nat.add_zero, Int.natCast_zero, Int.zero_mul, runD]
  have e1 : i + (dg + 1) = i + 1 + dg := by omega
  have e2 : j + (dg + 1) = j + 1 + dg := by omega
  rw [e1, e2]; omega

/-- starting a new run in front of a flushed pair -/
theorem pend_left_flush (i j : Nat) (ind d : Int) (acc : Path) (u l dg : Nat)
    (hu : (-ind).toNat = u) (hl : ind.toNat = l) (hd : d.toNat = dg) :
    pendScore s cA cB i j 0 1 0 (ind :: d :: acc) = cB i + pendScore s cA cB i (j + 1) u l dg acc := by
  simp only [pendScore, Nat.add_zero, Int.natCast_zero, Int.zero_mul, runD]
  rw [scoreFrom_pair s cA cB i (j + 1) ind d acc u l dg hu hl hd]
  simp only [pendScore]; omega

theorem pend_up_flush (i j : Nat) (ind d : Int) (acc : Path) (u l dg : Nat)
    (hu : (-ind).toNat = u) (hl : ind.toNat = l) (hd : d.toNat = dg) :
    pendScore s cA cB i j 1 0 0 (ind :: d :: acc) = cA j + pendScore s cA cB (i + 1) j u l dg acc := by
  simp only [pendScore, Nat.add_zero, Int.natCast_zero, Int.zero_mul, runD]
  rw [scoreFrom_pair s cA cB (i + 1) j ind d acc u l dg hu hl hd]
  simp only [pendScore]; omega

theorem pend_diag_flush (i j : Nat) (ind d : Int) (acc : Path) (u l dg : Nat)
    (hu : (-ind).toNat = u) (hl : ind.toNat = l) (hd : d.toNat = dg) :
    pendScore s cA cB i j 0 0 1 (ind :: d :: acc) = s i j + pendScore s cA cB (i + 1) (j + 1) u l dg acc := by
  simp only [pendScore, Nat.add_zero, Int.natCast_zero, Int.zero_mul, runD]
  rw [scoreFrom_pair s cA cB (i + 1) (j + 1) ind d acc u l dg hu hl hd]
  simp only [pendScore]; omega

end Pend

/-! ## `_Backtracking` on a filled matrix -/

theorem usedA_cons (ind d : Int) (r : Path) : usedA (ind :: d :: r) = (-ind).toNat + d.toNat + usedA r := rfl
theorem usedB_cons (ind d : Int) (r : Path) : usedB (ind :: d :: r) = ind.toNat + d.toNat + usedB r := rfl
theorem wf_cons (ind d : Int) (r : Path) : wf (ind :: d :: r) = (decide (0 ≤ d) && wf r) := rfl

theorem finish_spec (s : Nat → Nat → Int) (cA cB : Nat → Int) (u l dg : Nat) (acc : Path)
    (hul : u = 0 ∨ l = 0) (hw : wf acc = true) :
    wf (finish dg (-(u : Int)) l acc) = true ∧
    usedA (finish dg (-(u : Int)) l acc) = u + dg + usedA acc ∧
    usedB (finish dg (-(u : Int)) l acc) = l + dg + usedB acc ∧
    scoreFrom s cA cB 0 0 (finish dg (-(u : Int)) l acc) = pendScore s cA cB 0 0 u l dg acc := by
  unfold finish
  by_cases hl : l = 0
  · by_cases hu : u = 0
    · subst hl hu
      by_cases hd : dg = 0
      · subst hd
        simp [hw, pendScore, runD]
      · have hd' : (dg : Int) ≠ 0 := by omega
        simp only [Int.natCast_zero, Int.neg_zero, ne_eq, not_true_eq_false, if_false, hd', not_false_eq_true, if_true]
        refine ⟨by simp [wf_cons, hw], by simp [usedA_cons], by simp [usedB_cons], ?_⟩
        exact scoreFrom_pair s cA cB 0 0 0 dg acc 0 0 dg (by simp) (by simp) (by simp)
    · subst hl
      have hu' : -(u : Int) ≠ 0 := by omega
      simp only [Int.natCast_zero, ne_eq, not_true_eq_false, if_false, hu', not_false_eq_true, if_true]
      refine ⟨by simp [wf_cons, hw], by simp [usedA_cons], by simp [usedB_cons], ?_⟩
      exact scoreFrom_pair s cA cB 0 0 (-(u : Int)) dg acc u 0 dg (by simp) (by omega) (by simp)
  · have hu : u = 0 := by omega
    subst hu
    have hl' : (l : Int) ≠ 0 := by omega
    simp only [hl', ne_eq, not_false_eq_true, if_true, Int.natCast_zero, Int.neg_zero, not_true_eq_false, if_false]
    refine ⟨by simp [wf_cons, hw], by simp [usedA_cons], by simp [usedB_cons], ?_⟩
    exact scoreFrom_pair s cA cB 0 0 (l : Int) dg acc 0 l dg (by omega) (by simp) (by simp)

/-- the backtracking loop started anywhere in a filled matrix, with pending runs `u`/`l`/`dg` and the
already written suffix `acc`, ends with a well-formed path that uses exactly what remains and whose
score is the cell value plus the value of what was pending -/
theorem btLoop_ok {s : Nat → Nat → Int} {cA cB : Nat → Int} {la lb : Nat} {M P : Nat → Nat → Int}
    (hf : IsFill s cA cB la lb M P) :
    ∀ (fuel i j : Nat) (ldiag lup lleft : Int) (u l dg : Nat) (acc : Path),
      i + j < fuel → i ≤ la → j ≤ lb → ldiag = dg → lup = -(u : Int) → lleft = l → (u = 0 ∨ l = 0) →
      wf acc = true →
      ∃ p, btLoop P fuel i j ldiag lup lleft acc = some p ∧ wf p = true ∧
        usedA p = i + u + dg + usedA acc ∧ usedB p = j + l + dg + usedB acc ∧
        scoreFrom s cA cB 0 0 p = M i j + pendScore s cA cB i j u l dg acc := by
  intro fuel
  induction fuel with
  | zero => intro i j _ _ _ _ _ _ _ h; omega
  | succ fuel ih =>
    intro i j ldiag lup lleft u l dg acc hfu hi hj hd hu hl hul hw
    subst hd hu hl
    by_cases h0 : i = 0 ∧ j = 0
    · obtain ⟨rfl, rfl⟩ := h0
      have hfin := finish_spec s cA cB u l dg acc hul hw
      refine ⟨finish dg (-(u : Int)) l acc, by simp [btLoop], hfin.1, by omega, by omega, ?_⟩
      rw [hfin.2.2.2, hf.m00]; omega
    · rcases stepFact hf i j hi hj h0 with ⟨hP, i', j', rfl, rfl, hM⟩ | ⟨hP, j', rfl, hM⟩ | ⟨hP, i', rfl, hM⟩
      · -- diagonal
        rw [btLoop]
        simp only [if_false, hP, if_true, Nat.add_eq_zero_iff, Nat.succ_ne_self, and_false, or_self,
          Nat.add_sub_cancel]
        by_cases hl0 : l = 0
        · by_cases hu0 : u = 0
          · subst hl0 hu0
            simp only [Int.natCast_zero, Int.neg_zero, ne_eq, not_true_eq_false, if_false]
            obtain ⟨p, hp, hwp, hA, hB, hS⟩ := ih i' j' ((dg : Int) + 1) 0 0 0 0 (dg + 1) acc (by omega) (by omega)
              (by omega) (by simp) (by simp) (by simp) (Or.inl rfl) hw
            refine ⟨p, hp, hwp, by omega, by omega, ?_⟩
            rw [hS, hM, pend_diag]; omega
          · subst hl0
            have hu' : -(u : Int) ≠ 0 := by omega
            simp only [Int.natCast_zero, ne_eq, not_true_eq_false, if_false, hu', not_false_eq_true, if_true]
            obtain ⟨p, hp, hwp, hA, hB, hS⟩ := ih i' j' ((0 : Int) + 1) 0 0 0 0 1 (-(u : Int) :: (dg : Int) :: acc)
              (by omega) (by omega) (by omega) (by simp) (by simp) (by simp) (Or.inl rfl) (by simp [wf_cons, hw])
            refine ⟨p, hp, hwp, by simp [usedA_cons] at hA; omega, by simp [usedB_cons] at hB; omega, ?_⟩
            rw [hS, hM, pend_diag_flush s cA cB i' j' (-(u : Int)) dg acc u 0 dg (by simp) (by omega) (by simp)]
            omega
        · have hu0 : u = 0 := by omega
          subst hu0
          have hl' : (l : Int) ≠ 0 := by omega
          simp only [hl', ne_eq, not_false_eq_true, if_true, Int.natCast_zero, Int.neg_zero, not_true_eq_false,
            if_false]
          obtain ⟨p, hp, hwp, hA, hB, hS⟩ := ih i' j' ((0 : Int) + 1) 0 0 0 0 1 ((l : Int) :: (dg : Int) :: acc)
            (by omega) (by omega) (by omega) (by simp) (by simp) (by simp) (Or.inl rfl) (by simp [wf_cons, hw])
          refine ⟨p, hp, hwp, by simp [usedA_cons] at hA; omega, by simp [usedB_cons] at hB; omega, ?_⟩
          rw [hS, hM, pend_diag_flush s cA cB i' j' (l : Int) dg acc 0 l dg (by omega) (by simp) (by simp)]
          omega
      · -- left: one base of B alone
        rw [btLoop]
        have h1 : ¬ ((1 : Int) = 0) := by decide
        simp only [h0, if_false, hP, h1, show (1 : Int) > 0 by decide, if_true, Int.toNat_one,
          show ¬ (j' + 1 < 1) by omega, Nat.add_sub_cancel]
        by_cases hu0 : u = 0
        · subst hu0
          simp only [Int.natCast_zero, Int.neg_zero, ne_eq, not_true_eq_false, if_false]
          obtain ⟨p, hp, hwp, hA, hB, hS⟩ := ih i j' dg 0 ((l : Int) + 1) 0 (l + 1) dg acc (by omega) hi
            (by omega) rfl (by simp) (by simp) (Or.inl rfl) hw
          refine ⟨p, hp, hwp, by omega, by omega, ?_⟩
          rw [hS, hM, pend_left]; omega
        · have hl0 : l = 0 := by omega
          subst hl0
          have hu' : -(u : Int) ≠ 0 := by omega
          simp only [hu', ne_eq, not_false_eq_true, if_true, Int.natCast_zero, Int.zero_add]
          obtain ⟨p, hp, hwp, hA, hB, hS⟩ := ih i j' 0 0 1 0 1 0 (-(u : Int) :: (dg : Int) :: acc) (by omega) hi
            (by omega) (by simp) (by simp) (by simp) (Or.inl rfl) (by simp [wf_cons, hw])
          refine ⟨p, hp, hwp, by simp [usedA_cons] at hA; omega, by simp [usedB_cons] at hB; omega, ?_⟩
          rw [hS, hM, pend_left_flush s cA cB i j' (-(u : Int)) dg acc u 0 dg (by simp) (by omega) (by simp)]
          omega
      · -- top: one base of A alone
        rw [btLoop]
        have h1 : ¬ ((-1 : Int) = 0) := by decide
        have h2 : ¬ ((-1 : Int) > 0) := by decide
        simp only [h0, if_false, hP, h1, h2, show (-(-1 : Int)).toNat = 1 by decide,
          show ¬ (i' + 1 < 1) by omega, Nat.add_sub_cancel]
        by_cases hl0 : l = 0
        · subst hl0
          simp only [Int.natCast_zero, ne_eq, not_true_eq_false, if_false]
          obtain ⟨p, hp, hwp, hA, hB, hS⟩ := ih i' j dg (-(u : Int) + -1) 0 (u + 1) 0 dg acc (by omega) (by omega)
            hj rfl (by simp; omega) (by simp) (Or.inr rfl) hw
          refine ⟨p, hp, hwp, by omega, by omega, ?_⟩
          rw [hS, hM, pend_up]; omega
        · have hu0 : u = 0 := by omega
          subst hu0
          have hl' : (l : Int) ≠ 0 := by omega
          simp only [hl', ne_eq, not_false_eq_true, if_true, Int.natCast_zero, Int.neg_zero, Int.zero_add]
          obtain ⟨p, hp, hwp, hA, hB, hS⟩ := ih i' j 0 (-1) 0 1 0 0 ((l : Int) :: (dg : Int) :: acc) (by omega)
            (by omega) hj (by simp) (by simp) (by simp) (Or.inr rfl) (by simp [wf_cons, hw])
          refine ⟨p, hp, hwp, by simp [usedA_cons] at hA; omega, by simp [usedB_cons] at hB; omega, ?_⟩
          rw [hS, hM, pend_up_flush s cA cB i' j (l : Int) dg acc 0 l dg (by omega) (by simp) (by simp)]
          omega

/-! ## the executed table is the specification view -/

theorem table_length (s : Nat → Nat → Int) (cA cB : Nat → Int) (la : Nat) :
    ∀ n, (table s cA cB la n).length = n + 1
  | 0 => rfl
  | n + 1 => by simp [table, table_length s cA cB la n]

theorem table_getD (s : Nat → Nat → Int) (cA cB : Nat → Int) (la : Nat) :
    ∀ n j, j ≤ n → (table s cA cB la n).getD j [] = colAt s cA cB la j
  | 0, j, h => by
    have : j = 0 := by omega
    subst this; rfl
  | n + 1, j, h => by
    have hl := table_length s cA cB la n
    simp only [table, List.getD_eq_getElem?_getD]
    by_cases hj : j ≤ n
    · rw [List.getElem?_append_left (by omega)]
      have := table_getD s cA cB la n j hj
      simpa [List.getD_eq_getElem?_getD] using this
    · have hj' : j = n + 1 := by omega
      subst hj'
      rw [List.getElem?_append_right (by omega)]
      have hlast : (table s cA cB la n).getLastD [] = colAt s cA cB la n := by
        rw [List.getLastD_eq_getLast?, List.getLast?_eq_getElem?, hl]
        have := table_getD s cA cB la n n (Nat.le_refl n)
        simpa [List.getD_eq_getElem?_getD] using this
      rw [List.getLastD_eq_getLast?] at hlast
      simp [hl, hlast, colAt]

/-- the matrices `fill` really reads satisfy the recurrence -/
theorem isFill_table (s : Nat → Nat → Int) (cA cB : Nat → Int) (la lb : Nat) :
    IsFill s cA cB la lb
      (fun i j => (((table s cA cB la lb).getD j []).getD i ((0, 0) : Cell)).1)
      (fun i j => (((table s cA cB la lb).getD j []).getD i ((0, 0) : Cell)).2) := by
  have hf := isFill_cells s cA cB la lb
  have e : ∀ i j, j ≤ lb → ((table s cA cB la lb).getD j []).getD i ((0, 0) : Cell) = cellAt s cA cB la i j := by
    intro i j hj
    rw [table_getD _ _ _ _ _ _ hj]; rfl
  constructor
  · simp only [e 0 0 (Nat.zero_le _)]; exact hf.m00
  · intro i hi
    simp only [e _ 0 (Nat.zero_le _)]; exact hf.col0 i hi
  · intro j hj
    simp only [e 0 (j + 1) (by omega), e 0 j (by omega)]; exact hf.row0 j hj
  · intro i j hi hj
    simp only [e _ (j + 1) (by omega), e _ j (by omega)]; exact hf.inner i j hi hj

/-- **fill + backtracking**: never fails on non-empty reads, returns the corner of the score matrix and a
path that consumes both reads exactly and whose recomputed score is the reported one -/
theorem fill_ok (s : Nat → Nat → Int) (cA cB : Nat → Int) (la lb : Nat) (hla : 0 < la) (hlb : 0 < lb) :
    ∃ p, fill s cA cB la lb = some ⟨Mf s cA cB la la lb, p⟩ ∧ consumes p la lb ∧
      scoreOf s cA cB p = Mf s cA cB la la lb := by
  have hf := isFill_table s cA cB la lb
  obtain ⟨p, hp, hw, hA, hB, hS⟩ := btLoop_ok hf (la + lb + 1) la lb 0 0 0 0 0 0 [] (by omega) (Nat.le_refl _)
    (Nat.le_refl _) (by simp) (by simp) (by simp) (Or.inl rfl) rfl
  have hcorner : (((table s cA cB la lb).getD lb []).getD la ((0, 0) : Cell)).1 = Mf s cA cB la la lb := by
    rw [table_getD _ _ _ _ _ _ (Nat.le_refl _)]; rfl
  refine ⟨p, ?_, ⟨hw, by simpa [usedA] using hA, by simpa [usedB] using hB⟩, ?_⟩
  · unfold fill backtrack
    have h1 : ¬ (la = 0 ∨ lb = 0) := by omega
    simp only [h1, if_false]
    rw [hp]
    simp only [hcorner]
  · unfold scoreOf
    rw [hS]
    simp only [pendScore, runD, scoreFrom, Int.natCast_zero, Int.zero_mul, Int.add_zero]
    exact hcorner

/-! ## optimality -/

section Opt
variable {s : Nat → Nat → Int} {cA cB : Nat → Int} {la lb : Nat} {M P : Nat → Nat → Int}

theorem runA_le (hf : IsFill s cA cB la lb M P) : ∀ (n i j : Nat), i + n ≤ la → j ≤ lb →
    M i j + (n : Int) * cA j ≤ M (i + n) j
  | 0, i, j, _, _ => by simp
  | n + 1, i, j, hi, hj => by
    have h1 := runA_le hf n i j (by omega) hj
    have h2 := (cell_ge hf).2.2 (i + n) j (by omega) hj
    rw [succ_cast_mul]
    have e : i + (n + 1) = i + n + 1 := by omega
    rw [e]; omega

theorem runB_le (hf : IsFill s cA cB la lb M P) : ∀ (n i j : Nat), i ≤ la → j + n ≤ lb →
    M i j + (n : Int) * cB i ≤ M i (j + n)
  | 0, i, j, _, _ => by simp
  | n + 1, i, j, hi, hj => by
    have h1 := runB_le hf n i j hi (by omega)
    have h2 := (cell_ge hf).2.1 i (j + n) hi (by omega)
    rw [succ_cast_mul]
    have e : j + (n + 1) = j + n + 1 := by omega
    rw [e]; omega

theorem runD_le (hf : IsFill s cA cB la lb M P) : ∀ (n i j : Nat), i + n ≤ la → j + n ≤ lb →
    M i j + runD s n i j ≤ M (i + n) (j + n)
  | 0, i, j, _, _ => by simp [runD]
  | n + 1, i, j, hi, hj => by
    have h1 := runD_le hf n (i + 1) (j + 1) (by omega) (by omega)
    have h2 := (cell_ge hf).1 i j (by omega) (by omega)
    simp only [runD]
    have e1 : i + (n + 1) = i + 1 + n := by omega
    have e2 : j + (n + 1) = j + 1 + n := by omega
    rw [e1, e2]; omega

/-- no admissible continuation from cell (i, j) beats the corner -/
theorem opt_from (hf : IsFill s cA cB la lb M P) : ∀ (p : Path) (i j : Nat), wf p = true →
    i + usedA p = la → j + usedB p = lb → M i j + scoreFrom s cA cB i j p ≤ M la lb
  | [], i, j, _, hA, hB => by
    simp only [usedA, usedB, Nat.add_zero] at hA hB
    subst hA hB
    simp [scoreFrom]
  | [_], _, _, hw, _, _ => by simp [wf] at hw
  | ind :: d :: rest, i, j, hw, hA, hB => by
    simp only [wf_cons, Bool.and_eq_true, decide_eq_true_eq] at hw
    rw [usedA_cons] at hA
    rw [usedB_cons] at hB
    have ih := opt_from hf rest (i + (-ind).toNat + d.toNat) (j + ind.toNat + d.toNat) hw.2 (by omega) (by omega)
    have hd := runD_le hf d.toNat (i + (-ind).toNat) (j + ind.toNat) (by omega) (by omega)
    have hind : M i j + ((-ind).toNat : Int) * cA j + (ind.toNat : Int) * cB i ≤ M (i + (-ind).toNat) (j + ind.toNat) := by
      by_cases hneg : ind < 0
      · have hz : ind.toNat = 0 := by omega
        have := runA_le hf (-ind).toNat i j (by omega) (by omega)
        simp only [hz, Int.natCast_zero, Int.zero_mul, Nat.add_zero]
        omega
      · have hz : (-ind).toNat = 0 := by omega
        have := runB_le hf ind.toNat i j (by omega) (by omega)
        simp only [hz, Int.natCast_zero, Int.zero_mul, Nat.add_zero]
        omega
    simp only [scoreFrom]
    omega

end Opt

/-- **optimality of a fill**: every path consuming both reads scores at most the corner cell -/
theorem fill_optimal_cells (s : Nat → Nat → Int) (cA cB : Nat → Int) (la lb : Nat) (p : Path)
    (hp : consumes p la lb) : scoreOf s cA cB p ≤ Mf s cA cB la la lb := by
  have h := opt_from (isFill_cells s cA cB la lb) p 0 0 hp.1 (by simpa using hp.2.1) (by simpa using hp.2.2)
  have h0 := (isFill_cells s cA cB la lb).m00
  unfold scoreOf
  omega

end ObiVerif.PEAlign
