import ObiVerif.Lemmas.Apat
import ObiVerif.Lemmas.ApatLocate
import ObiVerif.Lemmas.ApatIndel
/-!
# Strand symmetry of the matcher with indels (C10, round 3)

`match_revcomp` (mismatch-only) mirrors every hit.  With indels a hit is located by its END position and stands for a
substring of variable length, so the two hit lists are not mirror images of each other position by position; what is
symmetric is the set of substrings within the budget: the edit distance of the complemented pattern (`MirrorList`) to
`d[a:b]` is the edit distance of the pattern to the mirrored substring `rc(d)[n-b : n-a]` (`editDist_sub_rc`).  Hence, for
every error level `K`, the complemented pattern has a hit with at most `K` errors on `d` iff the pattern has one on `rc(d)`
(`manberIndel_revcomp`) — in particular a match is reported on one strand iff it is on the other, and the best error counts
agree — and a hit ending at `pos` whose witness substring starts at `a ≤ pos` corresponds to a hit ending at `n - 1 - a` on the
other strand with at most as many errors (`manberIndel_revcomp_locus`).
-/
namespace ObiVerif.Apat
open ObiVerif

theorem subCost_mirror (a a' c : Nat) (h : MirrorCode a a') (hc : c < 26) (hu : c ≠ 20) :
    subCost accepts a' c = subCost accepts a (compSym c) := by
  unfold subCost; rw [h.2 c hc hu]

/-- an alignment of the mirrored code list with `w` is an alignment of the code list with the complemented `w` -/
theorem ali_mirror {q' w : List Nat} {k : Nat} (h : Ali accepts q' w k) :
    ∀ q, MirrorList q q' → (∀ c ∈ w, c < 26 ∧ c ≠ 20) → Ali accepts q (w.map compSym) k := by
  induction h with
  | nil => intro q hm _; cases hm; exact Ali.nil
  | sub a' c _ ih =>
    intro q hm hw
    cases hm with
    | cons hab hrest =>
      rw [subCost_mirror _ _ _ hab (hw c (by simp)).1 (hw c (by simp)).2, List.map_cons]
      exact Ali.sub _ _ (ih _ hrest (fun c' hc' => hw c' (List.mem_cons_of_mem _ hc')))
  | del a' _ ih =>
    intro q hm hw
    cases hm with
    | cons hab hrest => exact Ali.del _ (ih _ hrest hw)
  | ins c _ ih =>
    intro q hm hw
    rw [List.map_cons]
    exact Ali.ins _ (ih _ hm (fun c' hc' => hw c' (List.mem_cons_of_mem _ hc')))

/-- … and conversely -/
theorem ali_mirror_inv {q w2 : List Nat} {k : Nat} (h : Ali accepts q w2 k) :
    ∀ q' w, MirrorList q q' → w2 = w.map compSym → (∀ c ∈ w, c < 26 ∧ c ≠ 20) → Ali accepts q' w k := by
  induction h with
  | nil =>
    intro q' w hm hw _
    cases hm
    cases w with
    | nil => exact Ali.nil
    | cons _ _ => simp at hw
  | sub a c2 _ ih =>
    intro q' w hm hw2 hw
    cases hm with
    | cons hab hrest =>
      cases w with
      | nil => simp at hw2
      | cons c w =>
        rw [List.map_cons, List.cons.injEq] at hw2
        rw [hw2.1, ← subCost_mirror _ _ _ hab (hw c (by simp)).1 (hw c (by simp)).2]
        exact Ali.sub _ _ (ih _ _ hrest hw2.2 (fun c' hc' => hw c' (List.mem_cons_of_mem _ hc')))
  | del a _ ih =>
    intro q' w hm hw2 hw
    cases hm with
    | cons hab hrest => exact Ali.del _ (ih _ _ hrest hw2 hw)
  | ins c2 _ ih =>
    intro q' w hm hw2 hw
    cases w with
    | nil => simp at hw2
    | cons c w =>
      rw [List.map_cons, List.cons.injEq] at hw2
      exact Ali.ins _ (ih _ _ hm hw2.2 (fun c' hc' => hw c' (List.mem_cons_of_mem _ hc')))

/-- the mirror of a code list without obligatory position has none either -/
theorem MirrorList.no_oblig {q q' : List Nat} (h : MirrorList q q') (hno : ∀ a ∈ q, oblig a = false) :
    ∀ a' ∈ q', oblig a' = false := by
  induction h with
  | nil => intro a' ha'; cases ha'
  | cons hab _ ih =>
    intro x hx
    rcases List.mem_cons.1 hx with rfl | hx
    · rw [hab.1]; exact hno _ (by simp)
    · exact ih (fun a ha => hno a (List.mem_cons_of_mem _ ha)) x hx

theorem editDist_mirror (q q' w : List Nat) (hm : MirrorList q q') (hw : ∀ c ∈ w, c < 26 ∧ c ≠ 20) :
    editDist accepts q' w = editDist accepts q (w.map compSym) :=
  Nat.le_antisymm
    (editDist_le (ali_mirror_inv (ali_editDist accepts q (w.map compSym)) q' w hm rfl hw))
    (editDist_le (ali_mirror (ali_editDist accepts q' w) q hm hw))

/-- the edit distance does not change when both strings are reversed -/
theorem editDist_reverse {α : Type} (mt : α → α → Bool) (p w : List α) :
    editDist mt p.reverse w.reverse = editDist mt p w :=
  Nat.le_antisymm (editDist_le (ali_editDist mt p w).reverse)
    (editDist_le (Ali.of_reverse (ali_editDist mt p.reverse w.reverse)))

/-- **edit distance of the complemented pattern to `w` = edit distance of the pattern to the reverse complement of `w`** -/
theorem editDist_rc (codes codes' w : List Nat) (hmir : MirrorList codes.reverse codes')
    (hw : ∀ c ∈ w, c < 26 ∧ c ≠ 20) :
    editDist accepts codes' w = editDist accepts codes (rcData w) := by
  rw [editDist_mirror _ _ _ hmir hw, ← editDist_reverse accepts codes.reverse, List.reverse_reverse]
  rfl

/-- the substring `d[a:b]` and its mirror image `rc(d)[n-b : n-a]` -/
theorem editDist_sub_rc (codes codes' d : List Nat) (hmir : MirrorList codes.reverse codes')
    (hd : ∀ c ∈ d, c < 26 ∧ c ≠ 20) (a b : Nat) (hab : a ≤ b) (hb : b ≤ d.length) :
    editDist accepts codes' ((d.drop a).take (b - a)) =
      editDist accepts codes (((rcData d).drop (d.length - b)).take (d.length - a - (d.length - b))) := by
  rw [editDist_rc _ _ _ hmir (fun c hc => hd c (List.mem_of_mem_drop (List.mem_of_mem_take hc)))]
  have h := rcData_window d a (b - a) (by omega)
  rw [show d.length - a - (b - a) = d.length - b by omega] at h
  rw [show d.length - a - (d.length - b) = b - a by omega, h]

/-- **the hits of `ManberIndel` up to an error level, in terms of substrings** (whole-sequence search, no obligatory
position): a hit with at most `K` errors is reported iff some substring of the text is within `min K maxerr` edits -/
theorem manberIndel_level_iff (Q : Pattern) (D : List Nat) (hm1 : 1 ≤ Q.patlen) (hm : Q.patlen ≤ 63)
    (hD : ∀ c ∈ D, c < 26) (hno : ∀ a ∈ Q.codes, oblig a = false) (K : Nat) :
    (∃ i k, k ≤ K ∧ (i, k) ∈ manberIndel Q D 0 D.length) ↔
      1 ≤ D.length ∧ ∃ a b, a ≤ b ∧ b ≤ D.length ∧
        editDist accepts Q.codes ((D.drop a).take (b - a)) ≤ min K Q.maxerr := by
  constructor
  · rintro ⟨i, k, hk, hmem⟩
    obtain ⟨pos, _, hpos, _, hke, ⟨a, _, ha, hdist⟩, _⟩ := (manberIndel_mem Q D 0 D.length hm1 hm hD hno i k).1 hmem
    simp only [Nat.zero_add, Nat.min_self] at hpos
    refine ⟨by omega, a, pos + 1, ha, by omega, ?_⟩
    rw [hdist]; omega
  · rintro ⟨hn, a, b, hab, hb, hdist⟩
    -- an empty substring at position 0 is the empty substring after position 0
    have key : ∃ a' pos, a' ≤ pos + 1 ∧ pos < D.length ∧
        editDist accepts Q.codes ((D.drop a').take (pos + 1 - a')) ≤ min K Q.maxerr := by
      by_cases hb0 : b = 0
      · subst hb0
        have ha0 : a = 0 := by omega
        subst ha0
        refine ⟨1, 0, by omega, by omega, ?_⟩
        simpa using hdist
      · exact ⟨a, b - 1, by omega, by omega, by rw [show b - 1 + 1 - a = b - a by omega]; exact hdist⟩
    obtain ⟨a', pos, ha', hpos, hd'⟩ := key
    obtain ⟨k, hmem⟩ := (manberIndel_hit_iff Q D 0 D.length hm1 hm hD hno pos).2
      ⟨Nat.zero_le _, by simpa using hpos, a', Nat.zero_le _, ha', by omega⟩
    refine ⟨_, k, ?_, hmem⟩
    obtain ⟨pos', _, _, hi, _, _, hall⟩ := (manberIndel_mem Q D 0 D.length hm1 hm hD hno _ k).1 hmem
    have : pos' = pos := by omega
    subst this
    have := hall a' (Nat.zero_le _) ha'
    omega

/-- **strand symmetry with indels, per error level.**  `P'` = a pattern whose code list is the mirror of `P`'s (what
`complementPattern` computes), same budget, no obligatory position, letters only and no `u` in the sequence, whole-sequence
search: for every `K`, `P'` has a hit with at most `K` errors on `d` iff `P` has one on the reverse complement of `d`. -/
theorem manberIndel_revcomp (P P' : Pattern) (d : List Nat) (hmir : MirrorList P.codes.reverse P'.codes)
    (he : P'.maxerr = P.maxerr) (hm1 : 1 ≤ P.patlen) (hm : P.patlen ≤ 63)
    (hno : ∀ a ∈ P.codes, oblig a = false) (hno' : ∀ a ∈ P'.codes, oblig a = false)
    (hd : ∀ c ∈ d, c < 26 ∧ c ≠ 20) (K : Nat) :
    (∃ i k, k ≤ K ∧ (i, k) ∈ manberIndel P' d 0 d.length) ↔
      (∃ i k, k ≤ K ∧ (i, k) ∈ manberIndel P (rcData d) 0 d.length) := by
  have hl : P'.patlen = P.patlen := by unfold Pattern.patlen; simpa using hmir.length_eq
  have h1 := manberIndel_level_iff P' d (by omega) (by omega) (fun c hc => (hd c hc).1) hno' K
  have h2 := manberIndel_level_iff P (rcData d) hm1 hm (rcData_lt d (fun c hc => (hd c hc).1)) hno K
  rw [rcData_length] at h2
  rw [h1, h2, he]
  constructor
  · rintro ⟨hn, a, b, hab, hb, hdist⟩
    refine ⟨hn, d.length - b, d.length - a, by omega, by omega, ?_⟩
    rw [← editDist_sub_rc P.codes P'.codes d hmir hd a b hab hb]; exact hdist
  · rintro ⟨hn, a, b, hab, hb, hdist⟩
    refine ⟨hn, d.length - b, d.length - a, by omega, by omega, ?_⟩
    rw [editDist_sub_rc P.codes P'.codes d hmir hd (d.length - b) (d.length - a) (by omega) (by omega),
      show d.length - (d.length - a) = a by omega,
      show d.length - (d.length - b) - a = b - a by omega]
    exact hdist

/-- **the locus**: a hit of `P'` on `d` ending at `pos` with `k` errors stands for a substring `d[a .. pos]`; when that
substring is not empty, `P` has a hit on `rc(d)` ending at the mirror image `n - 1 - a` of its START, with at most `k`
errors. -/
theorem manberIndel_revcomp_locus (P P' : Pattern) (d : List Nat) (hmir : MirrorList P.codes.reverse P'.codes)
    (he : P'.maxerr = P.maxerr) (hm1 : 1 ≤ P.patlen) (hm : P.patlen ≤ 63)
    (hno : ∀ a ∈ P.codes, oblig a = false) (hno' : ∀ a ∈ P'.codes, oblig a = false)
    (hd : ∀ c ∈ d, c < 26 ∧ c ≠ 20) (i : Int) (k : Nat) (hmem : (i, k) ∈ manberIndel P' d 0 d.length) :
    ∃ pos a : Nat, i = (pos : Int) - P.patlen + 1 ∧ pos < d.length ∧ a ≤ pos + 1 ∧
      editDist accepts P'.codes ((d.drop a).take (pos + 1 - a)) = k ∧
      (a ≤ pos → ∃ k', k' ≤ k ∧
        (((d.length - 1 - a : Nat) : Int) - P.patlen + 1, k') ∈ manberIndel P (rcData d) 0 d.length) := by
  have hl : P'.patlen = P.patlen := by unfold Pattern.patlen; simpa using hmir.length_eq
  obtain ⟨pos, _, hpos, hi, hke, ⟨a, _, ha, hdist⟩, _⟩ :=
    (manberIndel_mem P' d 0 d.length (by omega) (by omega) (fun c hc => (hd c hc).1) hno' i k).1 hmem
  simp only [Nat.zero_add, Nat.min_self] at hpos
  refine ⟨pos, a, by rw [hi, hl], hpos, ha, hdist, ?_⟩
  intro hap
  have hsub := editDist_sub_rc P.codes P'.codes d hmir hd a (pos + 1) ha (by omega)
  rw [hdist] at hsub
  have hD := rcData_lt d (fun c hc => (hd c hc).1)
  have hlen := rcData_length d
  obtain ⟨k', hmem'⟩ := (manberIndel_hit_iff P (rcData d) 0 d.length hm1 hm hD hno (d.length - 1 - a)).2
    ⟨Nat.zero_le _, by rw [hlen]; simp only [Nat.zero_add, Nat.min_self]; omega, d.length - (pos + 1), Nat.zero_le _,
      by omega, by
        rw [show d.length - 1 - a + 1 - (d.length - (pos + 1)) = d.length - a - (d.length - (pos + 1)) by omega, ← hsub]
        omega⟩
  refine ⟨k', ?_, hmem'⟩
  obtain ⟨pos', _, _, hi', _, _, hall⟩ := (manberIndel_mem P (rcData d) 0 d.length hm1 hm hD hno _ k').1 hmem'
  have : pos' = d.length - 1 - a := by omega
  subst this
  have h3 := hall (d.length - (pos + 1)) (Nat.zero_le _) (by omega)
  rw [show d.length - 1 - a + 1 - (d.length - (pos + 1)) = d.length - a - (d.length - (pos + 1)) by omega, ← hsub] at h3
  exact h3

/-! ## the byte level: `obiseq` reverse complement of the stored sequence (`SeqOps.rc`) -/

set_option maxRecDepth 100000 in
theorem encode_comp_byte : ∀ n, n < 256 → isLower (UInt8.ofNat n) = true →
    encodeByte (SeqOps.nucComplement (UInt8.ofNat n)) = compSym (encodeByte (UInt8.ofNat n)) := by decide

set_option maxRecDepth 100000 in
theorem encode_letter_byte : ∀ n, n < 256 → isLower (UInt8.ofNat n) = true → UInt8.ofNat n ≠ 117 →
    encodeByte (UInt8.ofNat n) < 26 ∧ encodeByte (UInt8.ofNat n) ≠ 20 := by decide

/-- encoding the reverse complement of a sequence of lower-case letters = `rcData` of the encoded sequence -/
theorem encode_rc (seq : Bytes) (h : ∀ b ∈ seq, isLower b = true) :
    (SeqOps.rc seq).map encodeByte = rcData (seq.map encodeByte) := by
  unfold SeqOps.rc rcData
  rw [List.map_reverse, List.map_map, List.map_map]
  congr 1
  apply List.map_congr_left
  intro b hb
  have := encode_comp_byte b.toNat (UInt8.toNat_lt b)
  rw [UInt8.ofNat_toNat] at this
  exact this (h b hb)

theorem rc_length (seq : Bytes) : (SeqOps.rc seq).length = seq.length := by simp [SeqOps.rc]

theorem encode_letters (seq : Bytes) (h : ∀ b ∈ seq, isLower b = true ∧ b ≠ 117) :
    ∀ c ∈ seq.map encodeByte, c < 26 ∧ c ≠ 20 := by
  intro c hc
  obtain ⟨b, hb, rfl⟩ := List.mem_map.1 hc
  have := encode_letter_byte b.toNat (UInt8.toNat_lt b)
  rw [UInt8.ofNat_toNat] at this
  exact this (h b hb).1 (h b hb).2

/-- the `+ MAX_PAT_LEN` that `FindAllIndex` adds to the window length is clipped at the end of a linear sequence -/
theorem window_clip (d : List Nat) (L : Nat) (h : d.length ≤ L) : window d 0 L = window d 0 d.length := by
  unfold window
  rw [Nat.zero_add, Nat.zero_add, Nat.min_eq_right h, Nat.min_self]

theorem manberIndel_clip (P : Pattern) (d : List Nat) (L : Nat) (h : d.length ≤ L) :
    manberIndel P d 0 L = manberIndel P d 0 d.length := by
  unfold manberIndel; rw [window_clip d L h]

end ObiVerif.Apat
