import ObiVerif.Lemmas.KmerWin
/-!
# The sliding window against the list of all windows, for an arbitrary function of the window
(the lemmas of `KmerWin.lean` on `specLoop`/`canonSpec`, restated for any `f`; used for the De Bruijn graph)
-/
namespace ObiVerif.Kmer

/-- a sliding window of plain digits, reset by any other byte, emitting `f` of every full window -/
def slideLoop (f : List Nat → Nat) (k : Nat) : List Nat → List (Option Nat) → List Nat
  | _, [] => []
  | _, none :: r => slideLoop f k [] r
  | t, some c :: r =>
    if (slide k t c).length = k then f (slide k t c) :: slideLoop f k (slide k t c) r
    else slideLoop f k (slide k t c) r

/-- `f` of every window of `k` plain bases, in order -/
def winSpec (f : List Nat → Nat) (k : Nat) (ds : List (Option Nat)) : List Nat :=
  (windowsAll k ds).filterMap fun w => (allSome w).map (f)

theorem winSpec_none (k : Nat) (f : List Nat → Nat) (R : List Nat) (r : List (Option Nat)) (h : R.length < k) :
    winSpec f k (R.map some ++ none :: r) = winSpec f k r := by
  induction R with
  | nil =>
    simp only [List.map_nil, List.nil_append, winSpec, windowsAll]
    split
    · have := allSome_take_none k [] r h
      simp only [List.map_nil, List.nil_append] at this
      simp [this]
    · rw [windowsAll_short k r (by simp at *; omega)]
  | cons a R ih =>
    have hR : R.length < k := by simp at h; omega
    simp only [List.map_cons, List.cons_append, winSpec, windowsAll]
    split
    · have := allSome_take_none k (a :: R) r h
      simp only [List.map_cons, List.cons_append] at this
      rw [List.filterMap_cons, this]
      exact ih hR
    · rename_i hk
      have h1 : (List.map some R ++ none :: r).length < k := by simp at hk ⊢; omega
      have h2 := ih hR
      simp only [winSpec] at h2
      rw [← h2, windowsAll_short k _ h1]

theorem winSpec_full (k : Nat) (f : List Nat → Nat) (t' : List Nat) (ht : t'.length = k) (hk : 1 ≤ k)
    (r : List (Option Nat)) :
    winSpec f k (t'.map some ++ r) = f t' :: winSpec f k (t'.tail.map some ++ r) := by
  cases t' with
  | nil => simp at ht; omega
  | cons x X =>
    have hlen : k ≤ (some x :: (X.map some ++ r)).length := by simp at ht ⊢; omega
    have htake : (some x :: (X.map some ++ r)).take k = (x :: X).map some := by
      have : (some x :: (X.map some ++ r)) = (x :: X).map some ++ r := by simp
      rw [this, List.take_left' (by simpa using ht)]
    simp only [List.map_cons, List.cons_append, winSpec, windowsAll, List.tail_cons]
    rw [if_pos hlen, List.filterMap_cons, htake, allSome_map_some]
    rfl

theorem slideLoop_eq (k : Nat) (f : List Nat → Nat) (hk : 1 ≤ k) (r : List (Option Nat)) :
    ∀ t : List Nat, t.length ≤ k →
      slideLoop f k t r = winSpec f k ((t.drop (t.length - (k - 1))).map some ++ r) := by
  induction r with
  | nil =>
    intro t _
    simp only [slideLoop, List.append_nil, winSpec]
    rw [windowsAll_short]; · rfl
    simp; omega
  | cons o r ih =>
    intro t ht
    cases o with
    | none =>
      simp only [slideLoop]
      rw [winSpec_none k f _ r (by simp; omega), ih [] (by simp)]
      simp
    | some c =>
      simp only [slideLoop]
      by_cases hA : k - 1 ≤ t.length
      · -- the window is full after this digit
        have ht' : slide k t c = t.drop (t.length - (k - 1)) ++ [c] := by
          by_cases he : t.length = k
          · rw [slide_length_eq c he, he]
            have : k - (k - 1) = 1 := by omega
            rw [this, List.drop_one]
          · rw [slide_length_lt c (by omega)]
            have : t.length - (k - 1) = 0 := by omega
            rw [this, List.drop_zero]
        have hl' : (slide k t c).length = k := by rw [slide_length k t c hk ht]; omega
        rw [if_pos hl', ih _ (by omega), hl']
        have e1 : (t.drop (t.length - (k - 1))).map some ++ some c :: r = (slide k t c).map some ++ r := by
          rw [ht']; simp
        rw [e1, winSpec_full k f _ hl' hk]
        have : k - (k - 1) = 1 := by omega
        rw [this, List.drop_one]
      · have ht' : slide k t c = t ++ [c] := slide_length_lt c (by omega)
        have hl' : ¬ (slide k t c).length = k := by rw [ht']; simp; omega
        rw [if_neg hl', ih _ (by rw [ht']; simp; omega), ht']
        have h1 : t.length - (k - 1) = 0 := by omega
        have h2 : (t ++ [c]).length - (k - 1) = 0 := by simp; omega
        rw [h1, h2]; simp

/-- the rolling loop computes the canonical value of every window of `k` plain bases -/
theorem slideLoop_nil (k : Nat) (f : List Nat → Nat) (hk : 1 ≤ k) (r : List (Option Nat)) :
    slideLoop f k [] r = winSpec f k r := by
  rw [slideLoop_eq k f hk r [] (by simp)]; simp

end ObiVerif.Kmer
