import ObiVerif.Lemmas.HeaderMany
/-! refinement, third pass: the byte state machine `parseFastq sh true` (FastqChunkParser with qualities) on
    **every** text — several records per text included — is the structural reading `readFastqManyS` (title line
    split by `splitTitle`, one sequence line, a `+` line, one quality line).  Exact answer, both directions. -/
namespace ObiVerif.Header

theorem dw_head {p : UInt8 → Bool} {l : Bytes} {a : UInt8} {b : Bytes} (h : l.dropWhile p = a :: b) : p a = false := by
  induction l with
  | nil => simp at h
  | cons c t ih =>
    rw [List.dropWhile_cons] at h
    split at h
    · exact ih h
    · rename_i hp; cases h; simpa using hp

theorem dw_len {p : UInt8 → Bool} {l : Bytes} {a : UInt8} {b : Bytes} (h : l.dropWhile p = a :: b) :
    b.length < l.length := by
  have h1 := congrArg List.length h
  have h2 := (List.dropWhile_suffix p (l := l)).length_le
  simp only [List.length_cons] at h1
  omega

/-- **the structural reading of a FASTQ text after its first `@`** (fuel = an upper bound of the length) -/
def fqManyF (sh : UInt8) : Nat → Bytes → Except Err (List Rec)
  | 0, _ => .ok []
  | n + 1, l =>
    match l with
    | [] => .ok []
    | d :: _ =>
      if isSep d = true then .error .fatal else
      -- title line, then the ends of line before the sequence line
      match (l.dropWhile (fun c => !isEol c)).dropWhile isEol with
      | [] => .ok []
      | c :: t1 =>
        -- the sequence line: its first byte is taken as it is, the others must be letters of the alphabet
        if (t1.takeWhile (fun c => !isEol c)).all (fun c => seqOK (lower c)) = true then
          match t1.dropWhile (fun c => !isEol c) with
          | [] => .ok []                                            -- no end of line after the sequence: nothing
          | _ :: t2 =>
            match t2.dropWhile isEol with
            | [] => .ok [⟨(splitTitle (l.takeWhile (fun c => !isEol c))).1, (splitTitle (l.takeWhile (fun c => !isEol c))).2,
                          lower c :: (t1.takeWhile (fun c => !isEol c)).map lower, none⟩]
            | x :: t3 =>
              if x = 43 then
                -- the `+` line up to its end of line, then the ends of line before the quality line
                match t3.dropWhile (fun c => !isEol c) with
                | [] => .ok [⟨(splitTitle (l.takeWhile (fun c => !isEol c))).1, (splitTitle (l.takeWhile (fun c => !isEol c))).2,
                              lower c :: (t1.takeWhile (fun c => !isEol c)).map lower, none⟩]
                | _ :: t4 =>
                  match t4.dropWhile isEol with
                  | [] => .ok [⟨(splitTitle (l.takeWhile (fun c => !isEol c))).1, (splitTitle (l.takeWhile (fun c => !isEol c))).2,
                                lower c :: (t1.takeWhile (fun c => !isEol c)).map lower, none⟩]
                  | y :: t5 =>
                    -- the quality line: as long as the sequence
                    if (y :: t5.takeWhile (fun c => !isEol c)).length
                        = (lower c :: (t1.takeWhile (fun c => !isEol c)).map lower).length then
                      match t5.dropWhile (fun c => !isEol c) with
                      | [] => .ok [⟨(splitTitle (l.takeWhile (fun c => !isEol c))).1, (splitTitle (l.takeWhile (fun c => !isEol c))).2,
                                    lower c :: (t1.takeWhile (fun c => !isEol c)).map lower,
                                    some ((y :: t5.takeWhile (fun c => !isEol c)).map (readQ sh))⟩]
                      | _ :: t6 =>
                        match t6.dropWhile isEol with
                        | [] => .ok [⟨(splitTitle (l.takeWhile (fun c => !isEol c))).1, (splitTitle (l.takeWhile (fun c => !isEol c))).2,
                                      lower c :: (t1.takeWhile (fun c => !isEol c)).map lower,
                                      some ((y :: t5.takeWhile (fun c => !isEol c)).map (readQ sh))⟩]
                        | z :: l' =>
                          if z = 64 then
                            pre [⟨(splitTitle (l.takeWhile (fun c => !isEol c))).1, (splitTitle (l.takeWhile (fun c => !isEol c))).2,
                                  lower c :: (t1.takeWhile (fun c => !isEol c)).map lower,
                                  some ((y :: t5.takeWhile (fun c => !isEol c)).map (readQ sh))⟩] (fqManyF sh n l')
                          else .error .fatal
                    else .error .fatal
              else .error .fatal
        else .error .fatal

/-- the structural reading of a whole FASTQ chunk -/
def readFastqManyS (sh : UInt8) (text : Bytes) : Except Err (List Rec) :=
  match text with
  | [] => .ok []
  | c :: t => if c = 64 then fqManyF sh t.length t else .error .fatal

/-! ## the machine, state by state -/

theorem storeQ_snoc (sh : UInt8) (k : Nat) (i d s q id df : Bytes) (p : UInt8) (O : List Rec) (x : Rec) :
    storeQ sh ⟨k, i, d, s, q, id, df, p, O ++ [x]⟩ =
      if q = [] then .error .fatal
      else if q.length ≠ x.seq.length then .error .fatal
      else .ok ⟨k, i, d, s, q, id, df, p, O ++ [{ x with qual := some (q.map (readQ sh)) }]⟩ := by
  simp only [storeQ, List.reverse_append, List.reverse_cons, List.reverse_nil, List.nil_append,
    List.singleton_append, List.reverse_reverse]

theorem fq_p11 (sh : UInt8) (l : Bytes) (i d s q id df : Bytes) (p : UInt8) (O : List Rec) :
    fqRun sh ⟨11, i, d, s, q, id, df, p, O⟩ l =
      match l.dropWhile isEol with
      | [] => .ok O
      | z :: l' => if z = 64 then fqRun sh ⟨1, i, d, s, q, id, df, z, O⟩ l' else .error .fatal := by
  induction l generalizing p with
  | nil => rw [fqRun_nil]; simp [fqFin, pure, Except.pure]
  | cons c t ih =>
    cases he : isEol c with
    | true =>
      rw [fqRun_ok (st2 := ⟨11, i, d, s, q, id, df, c, O⟩) (by simp [fqStep, he]), ih]
      simp [he]
    | false =>
      by_cases hc : c = 64
      · subst hc
        rw [fqRun_ok (st2 := ⟨1, i, d, s, q, id, df, 64, O⟩) (by simp [fqStep, he])]
        simp [he]
      · rw [fqRun_err (e := .fatal) (by simp [fqStep, he, hc])]
        simp [he, hc]

theorem fq_p10 (sh : UInt8) (l : Bytes) (i d s q id df : Bytes) (p : UInt8) (O : List Rec) (x : Rec) (hq : q ≠ []) :
    fqRun sh ⟨10, i, d, s, q, id, df, p, O ++ [x]⟩ l =
      if (q ++ l.takeWhile (fun c => !isEol c)).length = x.seq.length then
        match l.dropWhile (fun c => !isEol c) with
        | [] => .ok (O ++ [{ x with qual := some ((q ++ l.takeWhile (fun c => !isEol c)).map (readQ sh)) }])
        | e :: t6 =>
          fqRun sh ⟨11, i, d, s, q ++ l.takeWhile (fun c => !isEol c), id, df, e,
            O ++ [{ x with qual := some ((q ++ l.takeWhile (fun c => !isEol c)).map (readQ sh)) }]⟩ t6
      else .error .fatal := by
  induction l generalizing q p with
  | nil =>
    rw [fqRun_nil]
    simp only [fqFin, ne_eq, List.append_eq_nil_iff, List.cons_ne_self, and_false, not_false_eq_true, and_self,
      ↓reduceIte, storeQ_snoc, hq, List.takeWhile_nil, List.append_nil, List.dropWhile_nil]
    by_cases hlen : q.length = x.seq.length <;> simp [hlen, bind, Except.bind, pure, Except.pure]
  | cons c t ih =>
    cases he : isEol c with
    | false =>
      rw [fqRun_ok (st2 := ⟨10, i, d, s, q ++ [c], id, df, c, O ++ [x]⟩) (by simp [fqStep, he])]
      rw [ih (q ++ [c]) c (by simp)]
      simp [he]
    | true =>
      by_cases hlen : q.length = x.seq.length
      · rw [fqRun_ok (st2 := ⟨11, i, d, s, q, id, df, c, O ++ [{ x with qual := some (q.map (readQ sh)) }]⟩)
          (by simp [fqStep, he, storeQ_snoc, hq, hlen, bind, Except.bind, pure, Except.pure])]
        simp [he, hlen]
      · rw [fqRun_err (e := .fatal) (by simp [fqStep, he, storeQ_snoc, hq, hlen, bind, Except.bind])]
        simp [he, hlen]

theorem fq_p9 (sh : UInt8) (l : Bytes) (i d s q id df : Bytes) (p : UInt8) (O : List Rec) :
    fqRun sh ⟨9, i, d, s, q, id, df, p, O⟩ l =
      match l.dropWhile isEol with
      | [] => .ok O
      | y :: t5 => fqRun sh ⟨10, i, d, s, [y], id, df, y, O⟩ t5 := by
  induction l generalizing p with
  | nil => rw [fqRun_nil]; simp [fqFin, pure, Except.pure]
  | cons c t ih =>
    cases he : isEol c with
    | true =>
      rw [fqRun_ok (st2 := ⟨9, i, d, s, q, id, df, c, O⟩) (by simp [fqStep, he]), ih]
      simp [he]
    | false =>
      rw [fqRun_ok (st2 := ⟨10, i, d, s, [c], id, df, c, O⟩) (by simp [fqStep, he])]
      simp [he]

theorem fq_p8 (sh : UInt8) (l : Bytes) (i d s q id df : Bytes) (p : UInt8) (O : List Rec) :
    fqRun sh ⟨8, i, d, s, q, id, df, p, O⟩ l =
      match l.dropWhile (fun c => !isEol c) with
      | [] => .ok O
      | e :: t4 => fqRun sh ⟨9, i, d, s, q, id, df, e, O⟩ t4 := by
  induction l generalizing p with
  | nil => rw [fqRun_nil]; simp [fqFin, pure, Except.pure]
  | cons c t ih =>
    cases he : isEol c with
    | false =>
      rw [fqRun_ok (st2 := ⟨8, i, d, s, q, id, df, c, O⟩) (by simp [fqStep, he]), ih]
      simp [he]
    | true =>
      rw [fqRun_ok (st2 := ⟨9, i, d, s, q, id, df, c, O⟩) (by simp [fqStep, he])]
      simp [he]

theorem fq_p7 (sh : UInt8) (l : Bytes) (i d s q id df : Bytes) (p : UInt8) (O : List Rec) :
    fqRun sh ⟨7, i, d, s, q, id, df, p, O⟩ l =
      match l.dropWhile isEol with
      | [] => .ok O
      | x :: t3 => if x = 43 then fqRun sh ⟨8, i, d, s, q, id, df, x, O⟩ t3 else .error .fatal := by
  induction l generalizing p with
  | nil => rw [fqRun_nil]; simp [fqFin, pure, Except.pure]
  | cons c t ih =>
    cases he : isEol c with
    | true =>
      rw [fqRun_ok (st2 := ⟨7, i, d, s, q, id, df, c, O⟩) (by simp [fqStep, he]), ih]
      simp [he]
    | false =>
      by_cases hc : c = 43
      · subst hc
        rw [fqRun_ok (st2 := ⟨8, i, d, s, q, id, df, 43, O⟩) (by simp [fqStep, he])]
        simp [he]
      · rw [fqRun_err (e := .fatal) (by simp [fqStep, he, hc])]
        simp [he, hc]

theorem fq_p6 (sh : UInt8) (l : Bytes) (i d s q id df : Bytes) (p : UInt8) (O : List Rec) (hs : s ≠ []) :
    fqRun sh ⟨6, i, d, s, q, id, df, p, O⟩ l =
      if (l.takeWhile (fun c => !isEol c)).all (fun c => seqOK (lower c)) = true then
        match l.dropWhile (fun c => !isEol c) with
        | [] => .ok O
        | e :: t2 =>
          fqRun sh ⟨7, i, d, s ++ (l.takeWhile (fun c => !isEol c)).map lower, q, id, df, e,
            O ++ [⟨id, df, s ++ (l.takeWhile (fun c => !isEol c)).map lower, none⟩]⟩ t2
      else .error .fatal := by
  induction l generalizing s p with
  | nil => rw [fqRun_nil]; simp [fqFin, pure, Except.pure]
  | cons c t ih =>
    cases he : isEol c with
    | true =>
      rw [fqRun_ok (st2 := ⟨7, i, d, s, q, id, df, c, O ++ [⟨id, df, s, none⟩]⟩) (by simp [fqStep, he, hs])]
      simp [he]
    | false =>
      cases ho : seqOK (lower c) with
      | false =>
        rw [fqRun_err (e := .fatal) (by simp [fqStep, he, ho])]
        simp [he, ho]
      | true =>
        rw [fqRun_ok (st2 := ⟨6, i, d, s ++ [lower c], q, id, df, lower c, O⟩) (by simp [fqStep, he, ho])]
        rw [ih (s ++ [lower c]) (lower c) (by simp)]
        simp [he, ho]

theorem fq_p5 (sh : UInt8) (l : Bytes) (i d s q id df : Bytes) (p : UInt8) (O : List Rec) :
    fqRun sh ⟨5, i, d, s, q, id, df, p, O⟩ l =
      match l.dropWhile isEol with
      | [] => .ok O
      | c :: t1 => fqRun sh ⟨6, i, d, [lower c], q, id, df, lower c, O⟩ t1 := by
  induction l generalizing p with
  | nil => rw [fqRun_nil]; simp [fqFin, pure, Except.pure]
  | cons c t ih =>
    cases he : isEol c with
    | true =>
      rw [fqRun_ok (st2 := ⟨5, i, d, s, q, id, df, c, O⟩) (by simp [fqStep, he]), ih]
      simp [he]
    | false =>
      rw [fqRun_ok (st2 := ⟨6, i, d, [lower c], q, id, df, lower c, O⟩) (by simp [fqStep, he])]
      simp [he]

/-! ## the title line -/

theorem fq_p4 (sh : UInt8) (l : Bytes) (i d s q id df : Bytes) (p : UInt8) (O : List Rec) :
    ∃ i' d', fqRun sh ⟨4, i, d, s, q, id, df, p, O⟩ l =
      match l.dropWhile (fun c => !isEol c) with
      | [] => .ok O
      | e :: r => fqRun sh ⟨5, i', d', s, q, id, d ++ l.takeWhile (fun c => !isEol c), e, O⟩ r := by
  induction l generalizing d p with
  | nil => exact ⟨i, d, by rw [fqRun_nil]; simp [fqFin, pure, Except.pure]⟩
  | cons c t ih =>
    cases he : isEol c with
    | true =>
      refine ⟨i, d, ?_⟩
      rw [fqRun_ok (st2 := ⟨5, i, d, s, q, id, d, c, O⟩) (by simp [fqStep, he])]
      simp [he]
    | false =>
      obtain ⟨i', d', h⟩ := ih (d ++ [c]) c
      refine ⟨i', d', ?_⟩
      rw [fqRun_ok (st2 := ⟨4, i, d ++ [c], s, q, id, df, c, O⟩) (by simp [fqStep, he]), h]
      simp [he]

theorem fq_p3 (sh : UInt8) (l : Bytes) (i d s q id df : Bytes) (p : UInt8) (O : List Rec) :
    ∃ i' d', fqRun sh ⟨3, i, d, s, q, id, df, p, O⟩ l =
      match l.dropWhile (fun c => !isEol c) with
      | [] => .ok O
      | e :: r => fqRun sh ⟨5, i', d', s, q, id, (l.takeWhile (fun c => !isEol c)).dropWhile isSpace, e, O⟩ r := by
  induction l generalizing p with
  | nil => exact ⟨i, d, by rw [fqRun_nil]; simp [fqFin, pure, Except.pure]⟩
  | cons c t ih =>
    cases he : isEol c with
    | true =>
      refine ⟨i, d, ?_⟩
      rw [fqRun_ok (st2 := ⟨5, i, d, s, q, id, [], c, O⟩) (by simp [fqStep, he])]
      simp [he]
    | false =>
      cases hs : isSpace c with
      | true =>
        obtain ⟨i', d', h⟩ := ih c
        refine ⟨i', d', ?_⟩
        rw [fqRun_ok (st2 := ⟨3, i, d, s, q, id, df, c, O⟩) (by simp [fqStep, he, hs]), h]
        simp [he, hs]
      | false =>
        obtain ⟨i', d', h⟩ := fq_p4 sh t i [c] s q id df c O
        refine ⟨i', d', ?_⟩
        rw [fqRun_ok (st2 := ⟨4, i, [c], s, q, id, df, c, O⟩) (by simp [fqStep, he, hs]), h]
        simp [he, hs]

theorem fq_p2 (sh : UInt8) (l : Bytes) (i d s q id df : Bytes) (p : UInt8) (O : List Rec) :
    ∃ i' d', fqRun sh ⟨2, i, d, s, q, id, df, p, O⟩ l =
      match l.dropWhile (fun c => !isEol c) with
      | [] => .ok O
      | e :: r =>
        fqRun sh ⟨5, i', d', s, q, i ++ (splitTitle (l.takeWhile (fun c => !isEol c))).1,
          (splitTitle (l.takeWhile (fun c => !isEol c))).2, e, O⟩ r := by
  induction l generalizing i p with
  | nil => exact ⟨i, d, by rw [fqRun_nil]; simp [fqFin, pure, Except.pure]⟩
  | cons c t ih =>
    cases hs : isSep c with
    | false =>
      obtain ⟨_, he⟩ := isSep_false hs
      obtain ⟨i', d', h⟩ := ih (i ++ [c]) c
      refine ⟨i', d', ?_⟩
      rw [fqRun_ok (st2 := ⟨2, i ++ [c], d, s, q, id, df, c, O⟩) (by simp [fqStep, he, hs]), h]
      simp [he, splitTitle, hs]
    | true =>
      cases he : isEol c with
      | true =>
        refine ⟨i, d, ?_⟩
        rw [fqRun_ok (st2 := ⟨5, i, d, s, q, i, [], c, O⟩) (by simp [fqStep, he, hs])]
        simp [he, splitTitle]
      | false =>
        have hsp := isSep_notEol_isSpace hs he
        obtain ⟨i', d', h⟩ := fq_p3 sh t i d s q i df c O
        refine ⟨i', d', ?_⟩
        rw [fqRun_ok (st2 := ⟨3, i, d, s, q, i, df, c, O⟩) (by simp [fqStep, he, hs]), h]
        simp [he, splitTitle, hs, hsp]

/-! ## the whole machine from state 1 -/

/-- **the FASTQ machine from state 1** (just after an `@`), whatever was delivered before and whatever the buffers
    hold, is the structural reading of the rest of the text -/
theorem fq_many (sh : UInt8) (n : Nat) : ∀ (l : Bytes), l.length ≤ n →
    ∀ (i d s q id df : Bytes) (p : UInt8) (out : List Rec),
    fqRun sh ⟨1, i, d, s, q, id, df, p, out⟩ l = pre out (fqManyF sh n l) := by
  induction n with
  | zero =>
    intro l hl i d s q id df p out
    have : l = [] := List.length_eq_zero_iff.mp (Nat.le_zero.mp hl)
    subst this
    rw [fqRun_nil]; simp [fqFin, fqManyF, pure, Except.pure]
  | succ n ih =>
    intro l hl i d s q id df p out
    cases l with
    | nil => rw [fqRun_nil]; simp [fqFin, fqManyF, pure, Except.pure]
    | cons d0 t =>
      cases hs : isSep d0 with
      | true =>
        rw [fqRun_err (e := .fatal) (by simp [fqStep, hs])]
        simp [fqManyF, hs]
      | false =>
        obtain ⟨_, he0⟩ := isSep_false hs
        rw [fqRun_ok (st2 := ⟨2, [d0], d, s, q, id, df, d0, out⟩) (by simp [fqStep, hs])]
        obtain ⟨i', d', h2⟩ := fq_p2 sh t [d0] d s q id df d0 out
        rw [h2]
        have hst : ∀ line : Bytes, splitTitle (d0 :: line) = (d0 :: (splitTitle line).1, (splitTitle line).2) := by
          intro line; simp [splitTitle, hs]
        simp only [fqManyF, hs, Bool.false_eq_true, ↓reduceIte, List.takeWhile_cons, List.dropWhile_cons, he0,
          Bool.not_false, hst, List.singleton_append]
        cases h0 : t.dropWhile (fun c => !isEol c) with
        | nil => simp
        | cons e r =>
          have he : isEol e = true := by simpa using dw_head h0
          have l0 := dw_len h0
          simp only [List.dropWhile_cons, he, ↓reduceIte]
          rw [fq_p5]
          cases h1 : r.dropWhile isEol with
          | nil => simp
          | cons c t1 =>
            have l1 := dw_len h1
            simp only []
            rw [fq_p6 sh t1 _ _ _ _ _ _ _ _ (by simp)]
            cases hall : (t1.takeWhile (fun c => !isEol c)).all (fun c => seqOK (lower c)) with
            | false => simp
            | true =>
              simp only [↓reduceIte, List.singleton_append]
              cases h2' : t1.dropWhile (fun c => !isEol c) with
              | nil => simp
              | cons e2 t2 =>
                have l2 := dw_len h2'
                simp only []
                rw [fq_p7]
                cases h3 : t2.dropWhile isEol with
                | nil => simp
                | cons x t3 =>
                  have l3 := dw_len h3
                  simp only []
                  by_cases hx : x = 43
                  · simp only [hx, ↓reduceIte]
                    rw [fq_p8]
                    cases h4 : t3.dropWhile (fun c => !isEol c) with
                    | nil => simp
                    | cons e4 t4 =>
                      have l4 := dw_len h4
                      simp only []
                      rw [fq_p9]
                      cases h5 : t4.dropWhile isEol with
                      | nil => simp
                      | cons y t5 =>
                        have l5 := dw_len h5
                        simp only []
                        rw [fq_p10 sh t5 _ _ _ _ _ _ _ _ _ (by simp)]
                        simp only [List.singleton_append]
                        by_cases hlen : (y :: t5.takeWhile (fun c => !isEol c)).length
                            = (lower c :: (t1.takeWhile (fun c => !isEol c)).map lower).length
                        · simp only [hlen, ↓reduceIte]
                          cases h6 : t5.dropWhile (fun c => !isEol c) with
                          | nil => simp
                          | cons e6 t6 =>
                            have l6 := dw_len h6
                            simp only []
                            rw [fq_p11]
                            cases h7 : t6.dropWhile isEol with
                            | nil => simp
                            | cons z l' =>
                              have l7 := dw_len h7
                              simp only []
                              by_cases hz : z = 64
                              · simp only [hz, ↓reduceIte]
                                have hlen' : l'.length ≤ n := by
                                  simp only [List.length_cons] at hl
                                  omega
                                rw [ih l' hlen', pre_pre]
                              · simp [hz]
                        · have hlen' : ¬ (t5.takeWhile (fun c => !isEol c)).length
                              = (t1.takeWhile (fun c => !isEol c)).length := by simpa using hlen
                          simp [hlen']
                  · simp [hx]

/-- **`FastqChunkParser` (with qualities) on every text is the structural reading** — several records per text,
    errors included -/
theorem parseFastq_eq_many (sh : UInt8) (text : Bytes) : parseFastq sh true text = readFastqManyS sh text := by
  rw [parseFastq_eq_fqRun]
  cases text with
  | nil => rfl
  | cons c t =>
    by_cases hc : c = 64
    · subst hc
      rw [fqRun_ok (st2 := ⟨1, [], [], [], [], [], [], 64, []⟩) (by simp [fqStep])]
      rw [fq_many sh t.length t (Nat.le_refl _)]
      simp only [readFastqManyS, ↓reduceIte]
      cases fqManyF sh t.length t <;> simp [pre]
    · rw [fqRun_err (e := .fatal) (by simp [fqStep, hc])]
      simp [readFastqManyS, hc]

end ObiVerif.Header
