import ObiVerif.Lemmas.ApatComp
import ObiVerif.Model.SeqOps
/-!
# The sequence side of IUPAC: ambiguity codes in the SEQUENCE, and `_samenuc` against the compiled classes (C10, round 2)

The C matcher encodes a sequence byte as its letter number (`EncodeSequence`: `'a'..'z'` ↦ 0..25, any other byte ↦ 25)
and a pattern position accepts the symbol iff the bit of that number is set in the position's code word.  Every class of
`sDnaCode` is a set of the four BASES, so

* an ambiguity code (`n`, `r`, `y`, …), `u`, `x` or a non-letter in the sequence is accepted by NO un-negated position and by
  EVERY negated one (`seq_symbol_not_base`) — the sequence symbol is an exact code word, never a class;
* this is strand symmetric: `obiseq`'s complement maps a non-base symbol (other than `u`) to a non-base symbol
  (`complement_not_base`); `u` ↦ `a` is known finding D34 (`complement_u`).

`obialign.LocatePattern`, which `AllMatches` / `BestMatch` use to re-align a hit with indels, compares with `_samenuc`: two
letters are the same nucleotide when their classes in `_iupac` (obialign/fastlcsegf.go) INTERSECT.  `samenuc_table_*` give the
exact relation between the two comparisons, decided over the generated tables:

* sequence symbol a base, pattern letter ≠ `X`: `_samenuc` = the compiled class;
* pattern letter `X`: compiled as "any base" (`sDnaCode`), but `_iupac['x'] = 0`: `_samenuc` is false;
* sequence symbol not a base: never accepted by the compiled class; `_samenuc` is true iff the two `_iupac` classes intersect
  (`n` in the sequence is the same nucleotide as every pattern letter but `X`, `u` as `T`, …).
-/
namespace ObiVerif.Apat
open ObiVerif

/-- encoded symbol is one of the four bases a, c, g, t -/
def isBaseSym (c : Nat) : Bool := c == 0 || c == 2 || c == 6 || c == 19

/-- sequence byte is one of `a c g t` -/
def isBaseByte (b : UInt8) : Bool := b == 97 || b == 99 || b == 103 || b == 116

/-- every class of the generated `sDnaCode` contains bases only (bit `c` set ⇒ `c` is a base) -/
theorem dnaCode_bits_base : ∀ l, l < 26 → ∀ c, c < 26 → (Gen.apatDnaCode.getD l 0).testBit c = true → isBaseSym c = true := by
  decide

theorem encodeByte_lt (b : UInt8) : encodeByte b < 26 := by
  unfold encodeByte isLower
  split
  · rename_i h
    simp only [Bool.and_eq_true, decide_eq_true_eq] at h
    have h2 : b.toNat ≤ 122 := UInt8.le_iff_toNat_le.mp h.2
    omega
  · omega

/-- the encoded symbol of a byte is a base iff the byte is one of `a c g t` -/
theorem isBaseSym_encode (b : UInt8) : isBaseSym (encodeByte b) = isBaseByte b := by
  unfold encodeByte isLower isBaseSym isBaseByte
  by_cases h : (b ≥ 97 && b ≤ 122) = true
  · rw [if_pos h]
    simp only [Bool.and_eq_true, decide_eq_true_eq] at h
    have h1 : 97 ≤ b.toNat := UInt8.le_iff_toNat_le.mp h.1
    have h2 : b.toNat ≤ 122 := UInt8.le_iff_toNat_le.mp h.2
    have e : ∀ k : Nat, 97 ≤ k → k ≤ 122 → ((b.toNat - 97 == k - 97) = (b == UInt8.ofNat k)) := by
      intro k hk1 hk2
      have : (b == UInt8.ofNat k) = (b.toNat == k) := by
        rw [Bool.eq_iff_iff]
        simp only [beq_iff_eq]
        constructor
        · intro hb; rw [hb]; simp; omega
        · intro hb; apply UInt8.toNat_inj.mp; rw [hb]; simp; omega
      rw [this, Bool.eq_iff_iff]
      simp only [beq_iff_eq]
      omega
    have e0 := e 97 (by omega) (by omega)
    have e2 := e 99 (by omega) (by omega)
    have e6 := e 103 (by omega) (by omega)
    have e19 := e 116 (by omega) (by omega)
    simp only [show (97 : Nat) - 97 = 0 from rfl, show (99 : Nat) - 97 = 2 from rfl, show (103 : Nat) - 97 = 6 from rfl,
      show (116 : Nat) - 97 = 19 from rfl] at e0 e2 e6 e19
    rw [e0, e2, e6, e19]
    rfl
  · rw [if_neg h]
    have hb : ∀ k : UInt8, (97 ≤ k ∧ k ≤ 122) → (b == k) = false := by
      intro k hk
      rw [beq_eq_false_iff_ne]
      intro hbk
      subst hbk
      apply h
      simp only [Bool.and_eq_true, decide_eq_true_eq]
      exact hk
    rw [hb 97 (by decide), hb 99 (by decide), hb 103 (by decide), hb 116 (by decide)]
    rfl

/-- **a sequence symbol that is not a base is an exact code word, not a class**: a position of the documented grammar
accepts it iff the position is negated (`!`) — whatever its letters: `N` in the pattern does not accept `n`, `r`, `u`, `x`, `-`
in the sequence; `!A` accepts them all -/
theorem seq_symbol_not_base (t : Tok) (ht : t.WF) (b : UInt8) (hb : isBaseByte b = false) :
    accepts t.code (encodeByte b) = t.neg := by
  rw [accepts_code t _ (encodeByte_lt b), valLetters_bit t.letters _ ht.1]
  have : (t.letters.any fun l => (Gen.apatDnaCode.getD (l.toNat - 65) 0).testBit (encodeByte b)) = false := by
    rw [List.any_eq_false]
    intro l hl hbit
    have hu := ht.1 l hl
    unfold isUpper at hu
    simp only [Bool.and_eq_true, decide_eq_true_eq] at hu
    have h2 : l.toNat ≤ 90 := UInt8.le_iff_toNat_le.mp hu.2
    have := dnaCode_bits_base (l.toNat - 65) (by omega) _ (encodeByte_lt b) hbit
    rw [isBaseSym_encode, hb] at this
    cases this
  rw [this]
  cases t.neg <;> rfl

/-- … and a base is accepted according to the IUPAC classes of the letters of the position -/
theorem seq_symbol_base (t : Tok) (ht : t.WF) (b : UInt8) :
    accepts t.code (encodeByte b) =
      ((t.letters.any fun l => (Gen.apatDnaCode.getD (l.toNat - 65) 0).testBit (encodeByte b)) ^^ t.neg) := by
  rw [accepts_code t _ (encodeByte_lt b), valLetters_bit t.letters _ ht.1]

set_option maxRecDepth 100000 in
/-- **strand symmetry of the non-base symbols**: the `obiseq` complement of a byte that is neither a base nor `u` nor an
upper-case letter (the content of a BioSequence is lower-cased) is not a base either — so on the reverse-complemented
sequence it is again accepted exactly by the negated positions (`seq_symbol_not_base`).  Decided over the 256 bytes. -/
theorem complement_not_base : ∀ n, n < 256 → isBaseByte (UInt8.ofNat n) = false → n ≠ 117 → ¬ (65 ≤ n ∧ n ≤ 90) →
    isBaseByte (SeqOps.nucComplement (UInt8.ofNat n)) = false := by
  decide

/-- the exception (known finding D34): `u` is no base for the matcher (`T`/`U` in a pattern accept `t` only) but `obiseq`
complements it to the base `a` -/
theorem complement_u : isBaseByte 117 = false ∧ SeqOps.nucComplement 117 = 97 ∧ isBaseByte 97 = true := by decide

set_option maxRecDepth 100000 in
/-- and the bases are complemented to bases -/
theorem complement_base : ∀ n, n < 256 → isBaseByte (UInt8.ofNat n) = true →
    isBaseByte (SeqOps.nucComplement (UInt8.ofNat n)) = true := by
  decide

/-! ## `_samenuc` against the compiled classes -/

/-- **the exact relation between `_samenuc` (pattern letter `'A'+l`, sequence letter `'a'+c`) and the compiled class of
the letter**, decided over the generated tables `_iupac` and `sDnaCode` (26 × 26 entries) -/
theorem samenuc_table_general : ∀ l, l < 26 → ∀ c, c < 26 →
    samenuc (UInt8.ofNat (65 + l)) (UInt8.ofNat (97 + c)) =
        decide ((Gen.alignIupac.getD l 0 &&& Gen.alignIupac.getD c 0) > 0) := by
  decide

/-- the sequence symbol is a base and the pattern letter is not `X` (l ≠ 23): the two comparisons agree -/
theorem samenuc_table_base : ∀ l, l < 26 → ∀ c, c < 26 → isBaseSym c = true → l ≠ 23 →
    samenuc (UInt8.ofNat (65 + l)) (UInt8.ofNat (97 + c)) = accepts (Gen.apatDnaCode.getD l 0) c := by
  decide

/-- pattern letter `X`: any base for the matcher, nothing for `_samenuc` -/
theorem samenuc_table_X : ∀ c, c < 26 →
    samenuc 88 (UInt8.ofNat (97 + c)) = false ∧ accepts (Gen.apatDnaCode.getD 23 0) c = isBaseSym c := by
  decide

/-- the sequence symbol is not a base: never in a compiled class (while `_samenuc` says "same" as soon as the `_iupac`
classes intersect, `samenuc_table_general`) -/
theorem samenuc_table_nonbase : ∀ l, l < 26 → ∀ c, c < 26 → isBaseSym c = false →
    accepts (Gen.apatDnaCode.getD l 0) c = false := by
  decide

set_option maxRecDepth 100000 in
/-- `_samenuc` of a pattern letter with a sequence byte that is not a letter (`EncodeSequence` maps it to the code of `z`):
false, like the compiled class -/
theorem samenuc_nonletter : ∀ l, l < 26 → ∀ n, n < 256 → ¬ (97 ≤ n ∧ n ≤ 122) → ¬ (65 ≤ n ∧ n ≤ 90) →
    samenuc (UInt8.ofNat (65 + l)) (UInt8.ofNat n) = false := by
  decide

/-- **whenever the compiled class of a pattern letter other than `X` accepts a sequence byte, `_samenuc` agrees** (the
hypothesis `Compat` of the completeness theorems of `AllMatches` / `BestMatch`, for one position) -/
theorem accepts_imp_samenuc (L : UInt8) (hL : isUpper L = true) (hx : L ≠ 88) (b : UInt8)
    (h : accepts (Gen.apatDnaCode.getD (L.toNat - 65) 0) (encodeByte b) = true) : samenuc L b = true := by
  unfold isUpper at hL
  simp only [Bool.and_eq_true, decide_eq_true_eq] at hL
  have h1 : 65 ≤ L.toNat := UInt8.le_iff_toNat_le.mp hL.1
  have h2 : L.toNat ≤ 90 := UInt8.le_iff_toNat_le.mp hL.2
  have hbase := dnaCode_bits_base (L.toNat - 65) (by omega) _ (encodeByte_lt b) h
  rw [isBaseSym_encode] at hbase
  have hLe : L = UInt8.ofNat (65 + (L.toNat - 65)) := by
    apply UInt8.toNat_inj.mp; simp; omega
  have hl23 : L.toNat - 65 ≠ 23 := by
    intro h23
    apply hx
    apply UInt8.toNat_inj.mp
    simp; omega
  -- b is one of the four bases
  unfold isBaseByte at hbase
  simp only [Bool.or_eq_true, beq_iff_eq] at hbase
  have key : ∀ c, c < 26 → isBaseSym c = true → b = UInt8.ofNat (97 + c) → encodeByte b = c → samenuc L b = true := by
    intro c hc hbs hbc henc
    have := samenuc_table_base (L.toNat - 65) (by omega) c hc hbs hl23
    rw [hLe, hbc, this]
    rw [← henc]
    exact h
  rcases hbase with ((hb | hb) | hb) | hb
  · exact key 0 (by omega) (by decide) (by rw [hb]; rfl) (by rw [hb]; decide)
  · exact key 2 (by omega) (by decide) (by rw [hb]; rfl) (by rw [hb]; decide)
  · exact key 6 (by omega) (by decide) (by rw [hb]; rfl) (by rw [hb]; decide)
  · exact key 19 (by omega) (by decide) (by rw [hb]; rfl) (by rw [hb]; decide)

/-- conversely, on a base `_samenuc` of a pattern letter implies that the compiled class accepts it -/
theorem samenuc_imp_accepts (L : UInt8) (hL : isUpper L = true) (b : UInt8) (hb : isBaseByte b = true)
    (h : samenuc L b = true) : accepts (Gen.apatDnaCode.getD (L.toNat - 65) 0) (encodeByte b) = true := by
  unfold isUpper at hL
  simp only [Bool.and_eq_true, decide_eq_true_eq] at hL
  have h1 : 65 ≤ L.toNat := UInt8.le_iff_toNat_le.mp hL.1
  have h2 : L.toNat ≤ 90 := UInt8.le_iff_toNat_le.mp hL.2
  have hLe : L = UInt8.ofNat (65 + (L.toNat - 65)) := by
    apply UInt8.toNat_inj.mp; simp; omega
  unfold isBaseByte at hb
  simp only [Bool.or_eq_true, beq_iff_eq] at hb
  have key : ∀ c, c < 26 → isBaseSym c = true → b = UInt8.ofNat (97 + c) → encodeByte b = c →
      accepts (Gen.apatDnaCode.getD (L.toNat - 65) 0) (encodeByte b) = true := by
    intro c hc hbs hbc henc
    by_cases h23 : L.toNat - 65 = 23
    · have := (samenuc_table_X c hc).1
      have hL88 : L = 88 := by apply UInt8.toNat_inj.mp; simp; omega
      rw [← hbc, ← hL88, h] at this
      cases this
    · rw [henc, ← samenuc_table_base (L.toNat - 65) (by omega) c hc hbs h23, ← hLe, ← hbc]
      exact h
  rcases hb with ((hb | hb) | hb) | hb
  · exact key 0 (by omega) (by decide) (by rw [hb]; rfl) (by rw [hb]; decide)
  · exact key 2 (by omega) (by decide) (by rw [hb]; rfl) (by rw [hb]; decide)
  · exact key 6 (by omega) (by decide) (by rw [hb]; rfl) (by rw [hb]; decide)
  · exact key 19 (by omega) (by decide) (by rw [hb]; rfl) (by rw [hb]; decide)

end ObiVerif.Apat
