import ObiVerif.Model.TaxLoad
import ObiVerif.Lemmas.Tax
import ObiVerif.Lemmas.TaxStr
/-!
# Lemmas on the NCBI taxdump loader (C14)
-/
namespace ObiVerif.TaxLoad
open ObiVerif.Tax

instance exceptDecEq {ε α : Type} [DecidableEq ε] [DecidableEq α] : DecidableEq (Except ε α) := fun a b =>
  match a, b with
  | .ok x, .ok y => if h : x = y then isTrue (by rw [h]) else isFalse (by intro e; cases e; exact h rfl)
  | .error x, .error y => if h : x = y then isTrue (by rw [h]) else isFalse (by intro e; cases e; exact h rfl)
  | .ok _, .error _ => isFalse (by intro e; cases e)
  | .error _, .ok _ => isFalse (by intro e; cases e)

/-- the records correspond one to one to the declarations -/
inductive AllRec {α β : Type} (R : α → β → Prop) : List α → List β → Prop
  | nil : AllRec R [] []
  | cons {a : α} {b : β} {l1 : List α} {l2 : List β} : R a b → AllRec R l1 l2 → AllRec R (a :: l1) (b :: l2)

/-- a record of `nodes.dmp` accepted by `loadNodeTable`: at least three fields, the first two numbers -/
def NodeRec (r : List Bytes) (d : Nat × Nat × Bytes) : Prop :=
  ∃ f0 f1 f2 rest, r = f0 :: f1 :: f2 :: rest ∧ num f0 = .ok d.1 ∧ num f1 = .ok d.2.1 ∧ trimSpace f2 = d.2.2

/-- a record of `merged.dmp` accepted by `loadMergedTable` -/
def MergedRec (r : List Bytes) (d : Nat × Nat) : Prop :=
  ∃ f0 f1 rest, r = f0 :: f1 :: rest ∧ num f0 = .ok d.1 ∧ num f1 = .ok d.2

theorem loadNodeRecs_ok : ∀ (recs : List (List Bytes)) (decl acc : List (Nat × Nat × Bytes)),
    AllRec NodeRec recs decl → loadNodeRecs recs acc = .ok (decl.reverse ++ acc) := by
  intro recs
  induction recs with
  | nil => intro decl acc h; cases h; rfl
  | cons r rest ih =>
    intro decl acc h
    cases h with
    | cons hr hrest =>
      rename_i d ds
      obtain ⟨f0, f1, f2, more, e, h0, h1, h2⟩ := hr
      subst e
      unfold loadNodeRecs
      simp only [h0, h1, h2]
      rw [ih ds _ hrest]
      simp

theorem loadMergedRecs_ok : ∀ (recs : List (List Bytes)) (decl : List (Nat × Nat)),
    AllRec MergedRec recs decl → loadMergedRecs recs = .ok decl := by
  intro recs
  induction recs with
  | nil => intro decl h; cases h; rfl
  | cons r rest ih =>
    intro decl h
    cases h with
    | cons hr hrest =>
      rename_i d ds
      obtain ⟨f0, f1, more, e, h0, h1⟩ := hr
      subst e
      unfold loadMergedRecs
      simp only [h0, h1, ih ds hrest]

/-- a record with a field that is not a number, or with a missing field, is a panic whatever precedes it -/
theorem loadNodeRecs_panic : ∀ (good : List (List Bytes)) (decl acc : List (Nat × Nat × Bytes)) (bad : List Bytes)
    (rest : List (List Bytes)), AllRec NodeRec good decl →
    (bad.length < 3 ∨ ∃ f ∈ bad.take 2, num f = .error .panic) → (∀ f ∈ bad.take 2, num f ≠ .error .unmodelled) →
    loadNodeRecs (good ++ bad :: rest) acc = .error .panic := by
  intro good
  induction good with
  | nil =>
    intro decl acc bad rest h hb hu
    cases h
    simp only [List.nil_append]
    unfold loadNodeRecs
    match bad with
    | [] => rfl
    | [f0] =>
      cases h0 : num f0 with
      | ok v => simp [h0]
      | error e =>
        cases e with
        | panic => simp [h0]
        | unmodelled => exact absurd h0 (hu f0 (by simp))
    | [f0, f1] =>
      cases h0 : num f0 with
      | ok v =>
        cases h1 : num f1 with
        | ok w => simp [h0, h1]
        | error e =>
          cases e with
          | panic => simp [h0, h1]
          | unmodelled => exact absurd h1 (hu f1 (by simp))
      | error e =>
        cases e with
        | panic => simp [h0]
        | unmodelled => exact absurd h0 (hu f0 (by simp))
    | f0 :: f1 :: f2 :: more =>
      rcases hb with hb | ⟨f, hf, hfp⟩
      · simp at hb; omega
      · simp only [List.take_succ_cons, List.take_zero, List.mem_cons, List.not_mem_nil, or_false] at hf
        cases h0 : num f0 with
        | error e =>
          cases e with
          | panic => simp [h0]
          | unmodelled => exact absurd h0 (hu f0 (by simp))
        | ok v =>
          cases h1 : num f1 with
          | error e =>
            cases e with
            | panic => simp [h0, h1]
            | unmodelled => exact absurd h1 (hu f1 (by simp))
          | ok w =>
            rcases hf with e | e
            · rw [e, h0] at hfp; cases hfp
            · rw [e, h1] at hfp; cases hfp
  | cons r good ih =>
    intro decl acc bad rest h hb hu
    cases h with
    | cons hr hrest =>
      rename_i d ds
      obtain ⟨f0, f1, f2, more, e, h0, h1, h2⟩ := hr
      subst e
      simp only [List.cons_append]
      unfold loadNodeRecs
      simp only [h0, h1]
      exact ih ds _ bad rest hrest hb hu

/-! ## `nodes[taxid]` : the last `AddNewTaxa` wins -/

theorem lookupNode_append (l1 l2 : List (Nat × Nat × Bytes)) (k : Nat) :
    lookupNode (l1 ++ l2) k = (lookupNode l1 k).or (lookupNode l2 k) := by
  induction l1 with
  | nil => simp [lookupNode]
  | cons d r ih =>
    obtain ⟨i, p, rk⟩ := d
    simp only [List.cons_append, lookupNode]
    by_cases h : i = k <;> simp [h, ih]

theorem lookupNode_none_iff (l : List (Nat × Nat × Bytes)) (k : Nat) :
    lookupNode l k = none ↔ ∀ d ∈ l, d.1 ≠ k := by
  induction l with
  | nil => simp [lookupNode]
  | cons d r ih =>
    obtain ⟨i, p, rk⟩ := d
    simp only [lookupNode]
    by_cases h : i = k
    · simp [h]
    · simp [h, ih]

/-- the declaration of `id` that no later declaration overrides is what `nodes[id]` holds -/
theorem lookupNode_last (a b : List (Nat × Nat × Bytes)) (id p : Nat) (rk : Bytes)
    (hb : ∀ d ∈ b, d.1 ≠ id) : lookupNode (a ++ (id, p, rk) :: b).reverse id = some (p, rk) := by
  rw [List.reverse_append, List.reverse_cons, List.append_assoc, lookupNode_append, lookupNode_append]
  have : lookupNode b.reverse id = none := by
    rw [lookupNode_none_iff]; intro d hd; exact hb d (List.mem_reverse.1 hd)
  simp [this, lookupNode]

theorem lookupNode_nodup (decl : List (Nat × Nat × Bytes)) (hnd : (decl.map (·.1)).Nodup)
    (id p : Nat) (rk : Bytes) (h : (id, p, rk) ∈ decl) : lookupNode decl.reverse id = some (p, rk) := by
  obtain ⟨a, b, e⟩ := List.append_of_mem h
  subst e
  apply lookupNode_last
  intro d hd hid
  rw [List.map_append, List.map_cons, List.nodup_append] at hnd
  obtain ⟨_, h2, _⟩ := hnd
  rw [List.nodup_cons] at h2
  exact h2.1 (List.mem_map.2 ⟨d, hd, hid⟩)

/-! ## the loaded `Taxo` -/

theorem Loaded.taxo_node (L : Loaded) : L.taxo.node = L.base.node := addAliases_node _ _

theorem Loaded.taxo_ids (L : Loaded) : L.taxo.ids = L.base.ids := by
  unfold Loaded.taxo addAliases
  generalize L.base = t
  induction L.aliases generalizing t with
  | nil => rfl
  | cons a r ih => simp only [List.foldl_cons]; rw [ih]; exact addAlias_ids _ _ _

theorem Loaded.base_aliasOK (L : Loaded) : AliasOK L.base := by
  intro o n h; cases h

theorem Loaded.taxo_aliasOK (L : Loaded) : AliasOK L.taxo := addAliases_aliasOK L.base_aliasOK _

theorem Loaded.ids_complete (L : Loaded) : ∀ x n, L.taxo.node x = some n → x ∈ L.taxo.ids := by
  intro x n h
  rw [L.taxo_node] at h
  rw [L.taxo_ids]
  simp only [Loaded.base] at h ⊢
  cases hl : lookupNode L.nodes x with
  | none => rw [hl] at h; cases h
  | some pr =>
    have : ¬ (∀ d ∈ L.nodes, d.1 ≠ x) := by
      rw [← lookupNode_none_iff, hl]; simp
    simp only [List.mem_map]
    apply Classical.byContradiction
    intro hne
    apply this
    intro d hd hdx
    exact hne ⟨d, hd, hdx⟩

end ObiVerif.TaxLoad
