import ObiVerif.Model.Clean
import ObiVerif.Model.Race
/-! lemmas on the data-set layer of the obiclean model (several samples, annotations, `--head`; property C13) -/
namespace ObiVerif.Clean

theorem mapM_option_congr {α β : Type} (f g : α → Option β) (l : List α) (h : ∀ a ∈ l, f a = g a) :
    l.mapM f = l.mapM g := by
  induction l with
  | nil => rfl
  | cons x xs ih =>
    rw [List.mapM_cons, List.mapM_cons, h x List.mem_cons_self, ih (fun a ha => h a (List.mem_cons_of_mem _ ha))]

/-- two per-sample graph constructions that agree on every sample of the data set give the same results -/
theorem runSamples_congr (f g : Nat → List Node → Outcome) (db : List Rec)
    (h : ∀ name ∈ sampleNames db, f name (sampleOf db name) = g name (sampleOf db name)) :
    runSamples f db = runSamples g db := by
  unfold runSamples
  apply mapM_option_congr
  intro name hn
  rw [h name hn]

theorem runSamples_some (f : Nat → List Node → Outcome) (db : List Rec)
    (h : ∀ name, ∃ outs, f name (sampleOf db name) = .ok outs) : ∃ r, runSamples f db = some r := by
  unfold runSamples
  generalize sampleNames db = l
  induction l with
  | nil => exact ⟨[], rfl⟩
  | cons x xs ih =>
    obtain ⟨r, hr⟩ := ih
    obtain ⟨outs, ho⟩ := h x
    exact ⟨(x, outs) :: r, by rw [List.mapM_cons, hr, ho]; rfl⟩

theorem status_count_total (l : List Status) : l.count .head + l.count .internal + l.count .singleton = l.length := by
  induction l with
  | nil => rfl
  | cons s t ih =>
    cases s <;> simp <;> omega

/-- membership in what `--head` lets through -/
theorem mem_cliOutput (onlyHead : Bool) (as : List Annot) (i : Nat) (a : Annot) :
    (i, a) ∈ cliOutput onlyHead as ↔ as[i]? = some a ∧ (onlyHead = true → a.head = true) := by
  unfold cliOutput
  rw [List.mem_filter, List.mem_map]
  constructor
  · rintro ⟨⟨⟨a', i'⟩, hm, heq⟩, hp⟩
    simp only [Prod.mk.injEq] at heq
    obtain ⟨rfl, rfl⟩ := heq
    refine ⟨(List.mem_zipIdx_iff_getElem?.1 hm), ?_⟩
    intro ho
    simpa [ho] using hp
  · rintro ⟨hg, hh⟩
    refine ⟨⟨(a, i), List.mem_zipIdx_iff_getElem?.2 hg, rfl⟩, ?_⟩
    cases onlyHead with
    | false => rfl
    | true => simpa using hh rfl

/-- the records are written in input order, each at most once -/
theorem cliOutput_sorted (onlyHead : Bool) (as : List Annot) :
    ((cliOutput onlyHead as).map (·.1)).Pairwise (· < ·) := by
  unfold cliOutput
  have hfull : ((as.zipIdx.map (fun (r : Annot × Nat) => (r.2, r.1))).map (·.1)) = List.range as.length := by
    rw [List.map_map]
    apply List.ext_getElem?
    intro k
    by_cases hk : k < as.length
    · simp [List.getElem?_map, List.getElem?_zipIdx, List.getElem?_eq_getElem hk, List.getElem?_range hk]
    · have h1 : as[k]? = none := List.getElem?_eq_none (by omega)
      have h2 : (List.range as.length)[k]? = none := List.getElem?_eq_none (by simp; omega)
      simp [List.getElem?_map, List.getElem?_zipIdx, h1, h2]
  have hsub : ((as.zipIdx.map (fun (r : Annot × Nat) => (r.2, r.1))).filter
      (fun r => !onlyHead || r.2.head)).Sublist (as.zipIdx.map (fun (r : Annot × Nat) => (r.2, r.1))) :=
    List.filter_sublist
  have := (hsub.map (·.1))
  rw [hfull] at this
  exact List.Pairwise.sublist this List.pairwise_lt_range

theorem mapM_option_mem {α β : Type} (f : α → Option β) : ∀ (l : List α) (res : List β), l.mapM f = some res →
    ∀ r ∈ res, ∃ a ∈ l, f a = some r := by
  intro l
  induction l with
  | nil => intro res h r hr; simp [List.mapM_nil] at h; subst h; cases hr
  | cons x xs ih =>
    intro res h r hr
    rw [List.mapM_cons] at h
    cases hx : f x with
    | none => rw [hx] at h; cases h
    | some b =>
      cases hxs : xs.mapM f with
      | none => rw [hx, hxs] at h; cases h
      | some bs =>
        rw [hx, hxs] at h
        have : res = b :: bs := by cases h; rfl
        subst this
        rcases List.mem_cons.1 hr with rfl | hr
        · exact ⟨x, List.mem_cons_self, hx⟩
        · obtain ⟨a, ha, hfa⟩ := ih bs hxs r hr
          exact ⟨a, List.mem_cons_of_mem _ ha, hfa⟩

theorem runSamples_mem (f : Nat → List Node → Outcome) (db : List Rec) (res : List (Nat × List Out))
    (h : runSamples f db = some res) (name : Nat) (outs : List Out) (hm : (name, outs) ∈ res) :
    f name (sampleOf db name) = .ok outs := by
  unfold runSamples at h
  obtain ⟨a, _, ha⟩ := mapM_option_mem _ _ _ h _ hm
  split at ha
  · rename_i o ho
    cases ha
    exact ho
  · cases ha

theorem sampleOf_mem (db : List Rec) (name : Nat) (nd : Node) (h : nd ∈ sampleOf db name) :
    ∃ r, db[nd.orig]? = some r ∧ nd.seq = r.seq := by
  unfold sampleOf at h
  obtain ⟨⟨r, i⟩, hm, hv⟩ := List.mem_filterMap.1 h
  have hg := List.mem_zipIdx_iff_getElem?.1 hm
  cases hf : r.counts.find? (fun kv => kv.1 == name) with
  | none => simp [hf] at hv
  | some kv =>
    simp only [hf, Option.map_some, Option.some.injEq] at hv
    subst hv
    exact ⟨r, hg, rfl⟩

end ObiVerif.Clean
