import ObiVerif.Lemmas.DeBruijnGraph
/-!
# Converse of the single-read round trip (C19, finding C19-roundtrip-km1-repeat)

A single read of plain bases in which some window of `k-1` bases occurs twice (positions `i < j`) gives a graph
with a directed cycle: the k-mer at `j-1` ends with the (k-1)-mer at `j`, which is the (k-1)-mer at `i`, the
beginning of the k-mer at `i`; so `x_i → x_{i+1} → … → x_{j-1} → x_i` is a closed walk (a self-loop when
`j = i + 1`).  `HasCycle` is then true and no consensus is returned.
-/
set_option Elab.async false
namespace ObiVerif.DeBruijn
open ObiVerif.Kmer

/-- a list with a repeated element has two positions holding the same value -/
theorem exists_repeat_of_not_nodup {α : Type} (l : List α) (h : ¬ l.Nodup) :
    ∃ i j, ∃ (hi : i < l.length) (hj : j < l.length), i < j ∧ l[i] = l[j] := by
  apply Classical.byContradiction
  intro hno
  apply h
  unfold List.Nodup
  rw [List.pairwise_iff_getElem]
  intro i j hi hj hij heq
  exact hno ⟨i, j, hi, hj, hij, heq⟩

/-- the nodes of the graph of a single read of plain bases are the words of its windows (no hypothesis on repeats) -/
theorem single_read_keys (k : Nat) (hk : 2 ≤ k) (h32 : k ≤ 32) (s : Bytes) (w : Nat) (hw : 1 ≤ w)
    (hp : ∀ b ∈ s, (plain b).isSome) (x : Nat) :
    x ∈ ((makeGraph k).push s w).keys ↔ x ∈ kwords k (s.map digit) := by
  have hpos : ∀ x ∈ ((makeGraph k).push s w).keys, 0 < ((makeGraph k).push s w).weight x :=
    push_pos (makeGraph k) s w hw (by intro x hx; simp [Graph.keys, makeGraph] at hx)
  have hwt : ∀ x, ((makeGraph k).push s w).weight x = w * (kwords k (s.map digit)).count x := by
    intro x
    have := push_plain (makeGraph k) (by show 1 ≤ k; omega) (by show 2 * k ≤ 64; omega)
      (makeGraph_mask k (by omega)) s w x hp
    have hkk : (makeGraph k).k = k := rfl
    rw [hkk] at this
    rw [this, map_plain_digit s hp, winSpec_digits]
    show weightOf [] x + _ = _
    simp [weightOf]
  constructor
  · intro hx
    have := hpos x hx
    rw [hwt] at this
    apply List.count_pos_iff.mp
    apply Nat.pos_of_ne_zero
    intro h0; rw [h0] at this; omega
  · intro hx
    have hc := List.count_pos_iff.mpr hx
    have hwx : 0 < ((makeGraph k).push s w).weight x := by
      rw [hwt]; exact Nat.mul_pos (by omega) hc
    apply (Graph.has_iff _ x).mp
    unfold Graph.weight weightOf at hwx
    unfold has
    cases hh : List.lookup x ((makeGraph k).push s w).nodes with
    | none => rw [hh] at hwx; simp at hwx
    | some v => rfl

/-- window `a` is linked to window `b` as soon as the last `k-1` digits of the first are the first `k-1` digits of
the second -/
theorem edge_of_overlap (g : Graph) (hwf : g.WF) (k : Nat) (hgk : g.k = k) (hk : 2 ≤ k) (d : List Nat) (hd : Dig d)
    (hkeys : ∀ x, x ∈ g.keys ↔ x ∈ kwords k d) (a b : Nat) (ha : a + k ≤ d.length) (hb : b + k ≤ d.length)
    (hov : (d.drop (a + 1)).take (k - 1) = (d.drop b).take (k - 1)) : g.Edge (kw k d a) (kw k d b) := by
  have hmem : ∀ i, i + k ≤ d.length → kw k d i ∈ g.keys := by
    intro i hi
    rw [hkeys, kwords_eq_range k (by omega)]
    exact List.mem_map.mpr ⟨i, List.mem_range.mpr (by omega), rfl⟩
  rw [edge_iff g hwf, hgk]
  refine ⟨hmem a ha, hmem b hb, ?_⟩
  rw [kw_div k (by omega) d hd b hb, kw_mod k (by omega) d hd a ha]
  unfold kw
  rw [hov]

theorem walk_consecutive (g : Graph) (hwf : g.WF) (k : Nat) (hgk : g.k = k) (hk : 2 ≤ k) (d : List Nat) (hd : Dig d)
    (hkeys : ∀ x, x ∈ g.keys ↔ x ∈ kwords k d) : ∀ (m a : Nat), a + m + k ≤ d.length →
    g.Walk ((List.range' a (m + 1)).map (kw k d)) := by
  intro m
  induction m with
  | zero =>
    intro a ha
    show kw k d a ∈ g.keys
    rw [hkeys, kwords_eq_range k (by omega)]
    exact List.mem_map.mpr ⟨a, List.mem_range.mpr (by omega), rfl⟩
  | succ m ih =>
    intro a ha
    have := ih (a + 1) (by omega)
    rw [List.range'_succ] at this
    rw [List.range'_succ, List.range'_succ]
    simp only [List.map_cons] at this ⊢
    exact ⟨edge_of_overlap g hwf k hgk hk d hd hkeys a (a + 1) (by omega) (by omega) rfl, this⟩

/-- **A repeated (k-1)-mer closes a cycle.** -/
theorem cyclic_of_repeat (g : Graph) (hwf : g.WF) (k : Nat) (hgk : g.k = k) (hk : 2 ≤ k) (d : List Nat) (hd : Dig d)
    (hl : k ≤ d.length) (hkeys : ∀ x, x ∈ g.keys ↔ x ∈ kwords k d) (hrep : ¬ (windowsAll (k - 1) d).Nodup) :
    g.Cyclic := by
  rw [windowsAll_eq_range (k - 1) (by omega)] at hrep
  obtain ⟨i, j, hi, hj, hij, heq⟩ := exists_repeat_of_not_nodup _ hrep
  simp only [List.length_map, List.length_range] at hi hj
  simp only [List.getElem_map, List.getElem_range] at heq
  -- j = i + m + 1
  obtain ⟨m, rfl⟩ : ∃ m, j = i + m + 1 := ⟨j - i - 1, by omega⟩
  have hw := walk_consecutive g hwf k hgk hk d hd hkeys m i (by omega)
  have hedge : g.Edge (kw k d (i + m)) (kw k d i) :=
    edge_of_overlap g hwf k hgk hk d hd hkeys (i + m) i (by omega) (by omega) heq.symm
  rw [List.range'_concat, List.map_append] at hw
  simp only [List.map_cons, List.map_nil, Nat.one_mul] at hw
  have hw2 := Graph.Walk.snoc _ _ _ hw hedge
  refine ⟨kw k d i, (List.range' (i + 1) m).map (kw k d), ?_⟩
  have e : kw k d i :: ((List.range' (i + 1) m).map (kw k d) ++ [kw k d i]) =
      (List.range' i m).map (kw k d) ++ [kw k d (i + m)] ++ [kw k d i] := by
    have : (List.range' i m).map (kw k d) ++ [kw k d (i + m)] = (List.range' i (m + 1)).map (kw k d) := by
      rw [List.range'_concat, List.map_append]; simp
    rw [this, List.range'_succ]
    simp
  rw [e]
  exact hw2

/-- a single read of plain bases with a repeated (k-1)-mer: the graph has a cycle -/
theorem single_read_cyclic_of_repeat (k : Nat) (hk : 2 ≤ k) (h32 : k ≤ 32) (s : Bytes) (w : Nat) (hw : 1 ≤ w)
    (hp : ∀ b ∈ s, (plain b).isSome) (hl : k ≤ s.length) (hrep : ¬ (windowsAll (k - 1) (s.map digit)).Nodup) :
    ((makeGraph k).push s w).Cyclic :=
  cyclic_of_repeat _ (push_wf _ (makeGraph_wf k (by omega) h32) s w) k (push_k (makeGraph k) s w).1 hk
    (s.map digit) (dig_digits s) (by simpa using hl) (single_read_keys k hk h32 s w hw hp) hrep

/-- over a, c, g, t the windows of the read and of its digits repeat together -/
theorem windows_digit_nodup_iff (k : Nat) (s : Bytes) (h : ∀ b ∈ s, b = 97 ∨ b = 99 ∨ b = 103 ∨ b = 116) :
    (windowsAll k (s.map digit)).Nodup ↔ (windowsAll k s).Nodup := by
  constructor
  · intro hn
    rw [windowsAll_map] at hn
    unfold List.Nodup at hn ⊢
    rw [List.pairwise_map] at hn
    exact hn.imp (fun hne heq => hne (by rw [heq]))
  · exact windows_digit_nodup k s h

end ObiVerif.DeBruijn
