import ObiVerif.Model.FlatFile
import ObiVerif.Lemmas.Chunk
/-!
# EMBL: the line machine returns to its initial state at `//` (after the repair), hence record locality
-/
namespace ObiVerif.Parse
open ObiVerif.Chunk

/-- line splitting distributes over a text that ends with `\n` -/
theorem splitNl_append (y : Seq) : ∀ (x' : Seq) (cur : Seq),
    splitNl (x' ++ 10 :: y) cur =
      ((splitNl (x' ++ [10]) cur).1 ++ (splitNl y []).1, (splitNl y []).2) ∧
    (splitNl (x' ++ [10]) cur).2 = [] := by
  intro x'
  induction x' with
  | nil =>
    intro cur
    simp [splitNl]
  | cons c t ih =>
    intro cur
    by_cases hc : c = 10
    · subst hc
      obtain ⟨h1, h2⟩ := ih []
      simp only [List.cons_append, splitNl, beq_self_eq_true, if_true]
      rw [h1]
      exact ⟨by simp, h2⟩
    · have : (c == 10) = false := by simpa using hc
      obtain ⟨h1, h2⟩ := ih (c :: cur)
      simp only [List.cons_append, splitNl, this]
      exact ⟨h1, h2⟩

theorem linesScan_append (x' y : Seq) :
    linesScan (x' ++ 10 :: y) = linesScan (x' ++ [10]) ++ linesScan y := by
  obtain ⟨h1, h2⟩ := splitNl_append y x' []
  unfold linesScan
  rw [h1]
  generalize splitNl (x' ++ [10]) [] = p at h2 ⊢
  obtain ⟨ls, last⟩ := p
  simp only at h2
  subst h2
  generalize splitNl y [] = q
  obtain ⟨ls2, last2⟩ := q
  simp

theorem emRun_append (wf : Bool) : ∀ (l1 l2 : List Seq) (s : EmSt),
    emRun wf s (l1 ++ l2) =
      ((emRun wf (emRun wf s l1).1 l2).1, (emRun wf s l1).2 ++ (emRun wf (emRun wf s l1).1 l2).2) := by
  intro l1
  induction l1 with
  | nil => intro l2 s; simp [emRun]
  | cons l t ih =>
    intro l2 s
    simp only [List.cons_append, emRun]
    rw [ih]
    simp

/-- at `//` the record is emitted and every accumulator is back to its initial value -/
theorem emLine_slashes (wf : Bool) (s : EmSt) : (emLine wf s slashes).1 = {} := by
  have h1 : hasPrefix emID slashes = false := by decide
  have h2 : hasPrefix emOS slashes = false := by decide
  have h3 : hasPrefix emDE slashes = false := by decide
  have h4 : hasPrefix emFH slashes = false := by decide
  have h5 : (slashes == emFHalone) = false := by decide
  have h6 : hasPrefix emFT slashes = false := by decide
  have h7 : hasPrefix emSEQ slashes = false := by decide
  simp [emLine, h1, h2, h3, h4, h5, h6, h7]

/-- the records `EmblChunkParser` returns (it has no error path) -/
def emblRecs (wf : Bool) (c : Seq) : List Rec := (emRun wf {} (linesScan c)).2

/-- `parseEmbl` in terms of the scanner with its real token limit (the unlimited `emblRecs` is what it
returns on chunks without over-long lines: `parseEmbl_eq_short`, Lemmas/ScanMax.lean) -/
theorem parseEmbl_eq (wf : Bool) (c : Seq) :
    parseEmbl wf c = if scanErr maxScanTok c then .error .fatal
      else .ok (emRun wf {} (linesScanMax maxScanTok c)).2 := rfl

/-- the text ends with an end-of-record line: `\n//\n` or `\n//\r\n` -/
def FlatEnd (a : Seq) : Prop := ∃ p, a = p ++ [10, 47, 47, 10] ∨ a = p ++ [10, 47, 47, 13, 10]

theorem linesScan_flatEnd {a : Seq} (h : FlatEnd a) : ∃ L, linesScan a = L ++ [slashes] ∧
    ∀ b, linesScan (a ++ b) = L ++ [slashes] ++ linesScan b := by
  obtain ⟨p, h | h⟩ := h
  · refine ⟨linesScan (p ++ [10]), ?_, ?_⟩
    · rw [h]
      have := linesScan_append p [47, 47, 10]
      rw [this]; rfl
    · intro b
      have e1 : a ++ b = (p ++ [10, 47, 47]) ++ 10 :: b := by rw [h]; simp
      have e2 : (p ++ [10, 47, 47]) ++ [10] = p ++ 10 :: [47, 47, 10] := by simp
      rw [e1, linesScan_append, e2, linesScan_append]; rfl
  · refine ⟨linesScan (p ++ [10]), ?_, ?_⟩
    · rw [h]
      have := linesScan_append p [47, 47, 13, 10]
      rw [this]; rfl
    · intro b
      have e1 : a ++ b = (p ++ [10, 47, 47, 13]) ++ 10 :: b := by rw [h]; simp
      have e2 : (p ++ [10, 47, 47, 13]) ++ [10] = p ++ 10 :: [47, 47, 13, 10] := by simp
      rw [e1, linesScan_append, e2, linesScan_append]; rfl

/-- **EMBL record locality**: after a text that ends with an end-of-record line the parser is in its
initial state, so the records of `a ++ b` are the records of `a` followed by the records of `b`
(whatever `b` is) -/
theorem emblRecs_append (wf : Bool) {a : Seq} (h : FlatEnd a) (b : Seq) :
    emblRecs wf (a ++ b) = emblRecs wf a ++ emblRecs wf b := by
  obtain ⟨L, h1, h2⟩ := linesScan_flatEnd h
  unfold emblRecs
  rw [h2 b, h1, emRun_append, emRun_append]
  simp only [emRun, emLine_slashes]

end ObiVerif.Parse
