import ObiVerif.Model.Kseq
/-! helper lemmas for the kseq reader (C17): what a `-1` means, and progress of every loop -/
namespace ObiVerif.Kseq

/-! ## `-1` is only answered once a short or failed `gzread` has been seen -/

theorem skipToHeader_none_eof (ks : KS) (h : (skipToHeader ks).1 = none) :
    (skipToHeader ks).2.isEof = true := by
  fun_induction skipToHeader ks with
  | case1 ks ks' hg => exact getc_none_eof hg
  | case2 ks c ks' hg hc => simp at h
  | case3 ks c ks' hg hc ih => exact ih h

theorem skipToHeader_le (ks : KS) : size (skipToHeader ks).2 ≤ size ks := by
  fun_induction skipToHeader ks with
  | case1 ks ks' hg => have := getc_le ks; rw [hg] at this; exact this
  | case2 ks c ks' hg hc => exact Nat.le_of_lt (getc_lt hg)
  | case3 ks c ks' hg hc ih => exact Nat.le_trans ih (Nat.le_of_lt (getc_lt hg))

theorem skipLine_le (ks : KS) : size (skipLine ks).2 ≤ size ks := by
  fun_induction skipLine ks with
  | case1 ks ks' hg => have := getc_le ks; rw [hg] at this; exact this
  | case2 ks c ks' hg hc => exact Nat.le_of_lt (getc_lt hg)
  | case3 ks c ks' hg hc ih => exact Nat.le_trans ih (Nat.le_of_lt (getc_lt hg))

theorem qualLoop_le (n : Nat) (ks : KS) (acc : Bytes) : size (qualLoop n ks acc).2 ≤ size ks := by
  fun_induction qualLoop n ks acc with
  | case1 ks acc ks' hg => have := getc_le ks; rw [hg] at this; exact this
  | case2 ks acc c ks' hg hc hq ih => exact Nat.le_trans ih (Nat.le_of_lt (getc_lt hg))
  | case3 ks acc c ks' hg hc hq ih => exact Nat.le_trans ih (Nat.le_of_lt (getc_lt hg))
  | case4 ks acc c ks' hg hc => exact Nat.le_of_lt (getc_lt hg)

/-- every character put in the sequence has been taken from the stream -/
theorem seqLoop_le (ks : KS) (acc : Bytes) :
    size (seqLoop ks acc).2.2 + (seqLoop ks acc).2.1.length ≤ size ks + acc.length := by
  fun_induction seqLoop ks acc with
  | case1 ks acc ks' hg =>
    have := getc_le ks; rw [hg] at this
    show size ks' + acc.length ≤ size ks + acc.length
    simp only at this; omega
  | case2 ks acc c ks' hg hc =>
    have := getc_lt hg
    show size ks' + acc.length ≤ size ks + acc.length
    omega
  | case3 ks acc c ks' hg hc hgr ih =>
    have := getc_lt hg
    simp only [List.length_append, List.length_singleton] at ih
    omega
  | case4 ks acc c ks' hg hc hgr ih =>
    have := getc_lt hg
    omega

theorem dropWhile_length_le {α} (p : α → Bool) (l : List α) : (l.dropWhile p).length ≤ l.length := by
  have h2 := List.takeWhile_append_dropWhile (p := p) (l := l)
  have := congrArg List.length h2
  simp only [List.length_append] at this
  omega

theorem guLoop_le (isSep : UInt8 → Bool) (next : List Rd) (cur : Bytes) (e : Bool) (b : UInt8) (acc : Bytes) :
    size (guLoop isSep next cur e b acc).2.2 ≤ cur.length + nextSize next := by
  induction next generalizing cur e b acc with
  | nil =>
    unfold guLoop
    have hs := dropWhile_length_le (fun c => !isSep c) cur
    simp only
    split
    · rename_i d r heq
      rw [heq] at hs; simp only [List.length_cons] at hs
      simp only [size, nextSize]; omega
    · split <;> simp [size, nextSize]
  | cons rd rest ih =>
    unfold guLoop
    have hs := dropWhile_length_le (fun c => !isSep c) cur
    simp only
    split
    · rename_i d r heq
      rw [heq] at hs; simp only [List.length_cons] at hs
      simp only [size]; omega
    · split
      · simp only [size, List.length_nil]; omega
      · cases rd with
        | fail => simp only [size, List.length_nil, nextSize, rdSize]; omega
        | short bb =>
          have := ih bb true (bb.headD b) (acc ++ cur.takeWhile (fun c => !isSep c))
          simp only [nextSize, rdSize]; omega
        | full c r =>
          have := ih (c :: r) false c (acc ++ cur.takeWhile (fun c => !isSep c))
          simp only [nextSize, rdSize]; simp only [List.length_cons] at this; omega

theorem getuntil_le (isSep : UInt8 → Bool) (ks : KS) : size (getuntil isSep ks).ks ≤ size ks := by
  unfold getuntil
  split
  · exact Nat.le_refl _
  · exact guLoop_le isSep ks.next ks.cur ks.isEof ks.buf0 []

theorem getuntil_neg_eof (isSep : UInt8 → Bool) (ks : KS) (h : (getuntil isSep ks).ret < 0) :
    (getuntil isSep ks).ks.isEof = true := by
  unfold getuntil at h ⊢
  split
  · rename_i hc
    simp only [Bool.and_eq_true] at hc
    exact hc.2
  · rename_i hc
    simp only [hc] at h
    simp only [Bool.false_eq_true, if_false] at h
    omega

/-! ## `kseq_read` -/

/-- the comment part of `kseq_read` -/
def cmOf (g : GU) : GU :=
  if g.dret != 10 then getuntil (fun c => c == 10) g.ks else ⟨0, [], 0, g.ks⟩

theorem cmOf_le (g : GU) : size (cmOf g).ks ≤ size g.ks := by
  unfold cmOf
  split
  · exact getuntil_le _ _
  · exact Nat.le_refl _

theorem kseqBody_spec (lc : UInt8) (ks : KS) :
    ((kseqBody lc ks).1 = -1 → (kseqBody lc ks).2.2.ks.isEof = true) ∧
    (0 < (kseqBody lc ks).1 → size (kseqBody lc ks).2.2.ks < size ks) ∧
    ((kseqBody lc ks).1 = -1 ∨ (kseqBody lc ks).1 = -2 ∨ 0 ≤ (kseqBody lc ks).1) := by
  have h1 := getuntil_le isSpace ks
  by_cases hg : (getuntil isSpace ks).ret < 0
  · have e : kseqBody lc ks = (-1, ⟨[], [], [], []⟩, ⟨lc, (getuntil isSpace ks).ks⟩) := by
      simp only [kseqBody, hg, if_true]
    rw [e]
    exact ⟨fun _ => getuntil_neg_eof _ _ hg, fun h => by simp at h, Or.inl rfl⟩
  · have h2 := cmOf_le (getuntil isSpace ks)
    have h3 := seqLoop_le (cmOf (getuntil isSpace ks)).ks []
    simp only [List.length_nil, Nat.add_zero] at h3
    by_cases hs : (seqLoop (cmOf (getuntil isSpace ks)).ks []).1 != some 43
    · have e : (kseqBody lc ks).1 = ((seqLoop (cmOf (getuntil isSpace ks)).ks []).2.1.length : Int) ∧
          (kseqBody lc ks).2.2.ks = (seqLoop (cmOf (getuntil isSpace ks)).ks []).2.2 := by
        simp only [kseqBody, hg, if_false, cmOf] at hs ⊢
        simp only [hs, if_true, and_self]
      rw [e.1, e.2]
      refine ⟨fun h => by omega, fun h => by omega, Or.inr (Or.inr (Int.natCast_nonneg _))⟩
    · have h4 := skipLine_le (seqLoop (cmOf (getuntil isSpace ks)).ks []).2.2
      cases hk : (skipLine (seqLoop (cmOf (getuntil isSpace ks)).ks []).2.2).1 with
      | none =>
        have e : (kseqBody lc ks).1 = -2 := by
          simp only [kseqBody, hg, if_false, cmOf] at hs hk ⊢
          simp only [hs, hk]
          rfl
        rw [e]
        exact ⟨fun h => by omega, fun h => by omega, Or.inr (Or.inl rfl)⟩
      | some x =>
        have h5 := qualLoop_le (seqLoop (cmOf (getuntil isSpace ks)).ks []).2.1.length
          (skipLine (seqLoop (cmOf (getuntil isSpace ks)).ks []).2.2).2 []
        by_cases hq : (seqLoop (cmOf (getuntil isSpace ks)).ks []).2.1.length !=
            (qualLoop (seqLoop (cmOf (getuntil isSpace ks)).ks []).2.1.length
              (skipLine (seqLoop (cmOf (getuntil isSpace ks)).ks []).2.2).2 []).1.length
        · have e : (kseqBody lc ks).1 = -2 := by
            simp only [kseqBody, hg, if_false, cmOf] at hs hk hq ⊢
            simp only [hs, hk, hq]
            rfl
          rw [e]
          exact ⟨fun h => by omega, fun h => by omega, Or.inr (Or.inl rfl)⟩
        · have e : (kseqBody lc ks).1 = ((seqLoop (cmOf (getuntil isSpace ks)).ks []).2.1.length : Int) ∧
              (kseqBody lc ks).2.2.ks = (qualLoop (seqLoop (cmOf (getuntil isSpace ks)).ks []).2.1.length
                (skipLine (seqLoop (cmOf (getuntil isSpace ks)).ks []).2.2).2 []).2 := by
            simp only [kseqBody, hg, if_false, cmOf] at hs hk hq ⊢
            simp only [hs, hk, hq]
            exact ⟨rfl, rfl⟩
          rw [e.1, e.2]
          refine ⟨fun h => by omega, fun h => by omega, Or.inr (Or.inr (Int.natCast_nonneg _))⟩

theorem kseqBody_eof (lc : UInt8) (ks : KS) (h : (kseqBody lc ks).1 = -1) :
    (kseqBody lc ks).2.2.ks.isEof = true := (kseqBody_spec lc ks).1 h

theorem kseqBody_pos_lt (lc : UInt8) (ks : KS) (h : 0 < (kseqBody lc ks).1) :
    size (kseqBody lc ks).2.2.ks < size ks := (kseqBody_spec lc ks).2.1 h

theorem kseqBody_codes (lc : UInt8) (ks : KS) :
    (kseqBody lc ks).1 = -1 ∨ (kseqBody lc ks).1 = -2 ∨ 0 ≤ (kseqBody lc ks).1 := (kseqBody_spec lc ks).2.2

theorem kseqRead_cases (st : St) :
    (st.lastChar ≠ 0 ∧ kseqRead st = kseqBody st.lastChar st.ks) ∨
    (st.lastChar = 0 ∧ (skipToHeader st.ks).1 = none ∧
      kseqRead st = (-1, ⟨[], [], [], []⟩, ⟨0, (skipToHeader st.ks).2⟩)) ∨
    (st.lastChar = 0 ∧ ∃ c, (skipToHeader st.ks).1 = some c ∧ kseqRead st = kseqBody c (skipToHeader st.ks).2) := by
  by_cases hl : st.lastChar = 0
  · cases hh : (skipToHeader st.ks).1 with
    | none =>
      refine Or.inr (Or.inl ⟨hl, rfl, ?_⟩)
      simp only [kseqRead, hl, beq_self_eq_true, if_true, hh]
    | some c =>
      refine Or.inr (Or.inr ⟨hl, c, rfl, ?_⟩)
      simp only [kseqRead, hl, beq_self_eq_true, if_true, hh]
  · refine Or.inl ⟨hl, ?_⟩
    have : (st.lastChar == 0) = false := by simpa using hl
    simp only [kseqRead, this, Bool.false_eq_true, if_false]

theorem kseqRead_eof (st : St) (h : (kseqRead st).1 = -1) : (kseqRead st).2.2.ks.isEof = true := by
  rcases kseqRead_cases st with ⟨_, e⟩ | ⟨_, hn, e⟩ | ⟨_, c, _, e⟩
  · rw [e] at h ⊢; exact kseqBody_eof _ _ h
  · rw [e]; exact skipToHeader_none_eof st.ks hn
  · rw [e] at h ⊢; exact kseqBody_eof _ _ h

theorem kseqRead_pos_lt (st : St) (h : 0 < (kseqRead st).1) : size (kseqRead st).2.2.ks < size st.ks := by
  have hh := skipToHeader_le st.ks
  rcases kseqRead_cases st with ⟨_, e⟩ | ⟨_, hn, e⟩ | ⟨_, c, _, e⟩
  · rw [e] at h ⊢; exact kseqBody_pos_lt _ _ h
  · rw [e] at h; simp at h
  · rw [e] at h ⊢
    have := kseqBody_pos_lt _ _ h
    omega

theorem kseqRead_codes (st : St) :
    (kseqRead st).1 = -1 ∨ (kseqRead st).1 = -2 ∨ 0 ≤ (kseqRead st).1 := by
  rcases kseqRead_cases st with ⟨_, e⟩ | ⟨_, hn, e⟩ | ⟨_, c, _, e⟩
  · rw [e]; exact kseqBody_codes _ _
  · rw [e]; exact Or.inl rfl
  · rw [e]; exact kseqBody_codes _ _

/-! ## `next_fast_sek` -/

theorem nextFastSek_ks (fin : Fin) (early : Bool) (st : St) :
    (nextFastSek fin early st).2.2 = (kseqRead st).2.2 := by
  unfold nextFastSek
  simp only
  split <;> rfl

/-- the regular end (0) is only answered for a stream whose final status is clean -/
theorem nextFastSek_zero_clean (fin : Fin) (early : Bool) (st : St) (h : (nextFastSek fin early st).1 = 0) :
    fin = .clean := by
  unfold nextFastSek at h
  simp only at h
  split at h
  · simp only at h
    split at h
    · omega
    · rename_i he
      split at h
      · rename_i hc
        have hc' : (kseqRead st).1 = -1 := by simpa using hc
        have := kseqRead_eof st hc'
        simp only [errnum, this, Bool.true_or, if_true] at he
        simpa using he
      · split at h
        · omega
        · rename_i h1 h2
          have h1' : ¬ (kseqRead st).1 = -1 := by simpa using h1
          have h2' : ¬ (kseqRead st).1 = 0 := by simpa using h2
          omega
  · simp at h

theorem nextFastSek_pos (fin : Fin) (early : Bool) (st : St) (h : 0 < (nextFastSek fin early st).1) :
    0 < (kseqRead st).1 := by
  unfold nextFastSek at h
  simp only at h
  split at h
  · rename_i hle
    simp only at h
    split at h
    · omega
    · split at h
      · omega
      · split at h
        · omega
        · omega
  · omega

/-- on a clean stream `next_fast_sek` never answers -1 (error of the stream) -/
theorem nextFastSek_clean_codes (early : Bool) (st : St) :
    (nextFastSek .clean early st).1 = 0 ∨ (nextFastSek .clean early st).1 = -2 ∨
    (nextFastSek .clean early st).1 = -4 ∨ (nextFastSek .clean early st).1 = 1 := by
  have hc := kseqRead_codes st
  unfold nextFastSek
  simp only
  split
  · rename_i hle
    simp only
    have he : errnum .clean early (kseqRead st).2.2.ks = .clean := by
      unfold errnum; split <;> rfl
    simp only [he, bne_self_eq_false, Bool.false_eq_true, if_false]
    split
    · exact Or.inl rfl
    · split
      · exact Or.inr (Or.inr (Or.inl rfl))
      · rename_i h1 h2
        have h1' : ¬ (kseqRead st).1 = -1 := by simpa using h1
        have h2' : ¬ (kseqRead st).1 = 0 := by simpa using h2
        refine Or.inr (Or.inl ?_)
        omega
  · exact Or.inr (Or.inr (Or.inr rfl))

/-! ## the loop of `_FastseqReader` -/

theorem readLoop_never_ok (fin : Fin) (early : Bool) (hf : fin ≠ .clean) (st : St) (acc : List Rec) :
    (readLoop fin early st acc).2 ≠ .ok := by
  fun_induction readLoop fin early st acc with
  | case1 st acc r h0 =>
    have : (nextFastSek fin early st).1 = 0 := by simpa using h0
    exact absurd (nextFastSek_zero_clean fin early st this) hf
  | case2 st acc r h0 hneg => simp
  | case3 st acc r h0 hneg hlt ih => exact ih
  | case4 st acc r h0 hneg hlt => simp

theorem nextFastSek_progress (fin : Fin) (early : Bool) (st : St)
    (h0 : ¬ ((nextFastSek fin early st).1 == 0) = true) (hneg : ¬ (nextFastSek fin early st).1 < 0) :
    size (nextFastSek fin early st).2.2.ks < size st.ks := by
  have h0' : ¬ (nextFastSek fin early st).1 = 0 := by simpa using h0
  have hpos : 0 < (nextFastSek fin early st).1 := by omega
  have := kseqRead_pos_lt st (nextFastSek_pos fin early st hpos)
  rw [← nextFastSek_ks fin early st] at this
  exact this

theorem readLoop_not_stuck (fin : Fin) (early : Bool) (st : St) (acc : List Rec) :
    (readLoop fin early st acc).2 ≠ .stuck := by
  fun_induction readLoop fin early st acc with
  | case1 st acc r h0 => simp
  | case2 st acc r h0 hneg => simp
  | case3 st acc r h0 hneg hlt ih => exact ih
  | case4 st acc r h0 hneg hlt => exact absurd (nextFastSek_progress fin early st h0 hneg) hlt

theorem readLoop_clean_outcomes (early : Bool) (st : St) (acc : List Rec) :
    (readLoop .clean early st acc).2 = .ok ∨ (readLoop .clean early st acc).2 = .fatal (-2) ∨
    (readLoop .clean early st acc).2 = .fatal (-4) := by
  fun_induction readLoop .clean early st acc with
  | case1 st acc r h0 => exact Or.inl rfl
  | case2 st acc r h0 hneg =>
    have h0' : ¬ (nextFastSek .clean early st).1 = 0 := by simpa using h0
    have hneg' : (nextFastSek .clean early st).1 < 0 := hneg
    rcases nextFastSek_clean_codes early st with h | h | h | h
    · exact absurd h h0'
    · exact Or.inr (Or.inl (by show Outcome.fatal (nextFastSek .clean early st).1 = _; rw [h]))
    · exact Or.inr (Or.inr (by show Outcome.fatal (nextFastSek .clean early st).1 = _; rw [h]))
    · omega
  | case3 st acc r h0 hneg hlt ih => exact ih
  | case4 st acc r h0 hneg hlt => exact absurd (nextFastSek_progress .clean early st h0 hneg) hlt

theorem nextFastSek_clean_early (e1 e2 : Bool) (st : St) :
    nextFastSek .clean e1 st = nextFastSek .clean e2 st := by
  have he : ∀ e ks, errnum .clean e ks = .clean := by
    intro e ks; unfold errnum; split <;> rfl
  unfold nextFastSek
  simp only [he]

theorem readLoop_clean_early (e1 e2 : Bool) (st : St) (acc : List Rec) :
    readLoop .clean e1 st acc = readLoop .clean e2 st acc := by
  fun_induction readLoop .clean e1 st acc with
  | case1 st acc r h0 =>
    conv => rhs; rw [readLoop]
    rw [← nextFastSek_clean_early e1 e2 st]
    simp only [show ((nextFastSek .clean e1 st).1 == 0) = true from h0, if_true]
  | case2 st acc r h0 hneg =>
    conv => rhs; rw [readLoop]
    rw [← nextFastSek_clean_early e1 e2 st]
    have h0' : ((nextFastSek .clean e1 st).1 == 0) = false := by simpa using h0
    have hneg' : (nextFastSek .clean e1 st).1 < 0 := hneg
    simp only [h0', Bool.false_eq_true, if_false, hneg', if_true]
    rfl
  | case3 st acc r h0 hneg hlt ih =>
    conv => rhs; rw [readLoop]
    rw [← nextFastSek_clean_early e1 e2 st]
    have h0' : ((nextFastSek .clean e1 st).1 == 0) = false := by simpa using h0
    have hneg' : ¬ (nextFastSek .clean e1 st).1 < 0 := hneg
    have hlt' : size (nextFastSek .clean e1 st).2.2.ks < size st.ks := hlt
    simp only [h0', Bool.false_eq_true, if_false, hneg', hlt', dite_true]
    exact ih
  | case4 st acc r h0 hneg hlt => exact absurd (nextFastSek_progress .clean e1 st h0 hneg) hlt

end ObiVerif.Kseq
