import ObiVerif.Model.ReadGlueCli
import ObiVerif.Lemmas.ReadGlue
import ObiVerif.Lemmas.Reseq
set_option Elab.async false
/-! helper lemmas for `Props/C01Glue.lean`: the order of the batches of each file in the transition system of
`ReadSequencesBatchFromFiles`, the soundness of the replay, the re-sequencing of a numbered list -/
namespace ObiVerif.ReadGlue
open ObiVerif.ReadErr

variable {β : Type}

/-- for every input file: a prefix of its batches has been pushed, in order (a sub-list of what has been pushed so far);
the rest is nothing, the whole file still in the channel, or what a reader still holds -/
def FileOrd (files : List (FileRes β)) (s : St β) : Prop :=
  ∀ f ∈ files, ∃ pre rest, f.batches = pre ++ rest ∧ pre.Sublist (s.out.map Prod.snd) ∧
    (rest = [] ∨ (pre = [] ∧ f ∈ s.queue) ∨ ∃ fin, RState.reading rest fin ∈ s.readers)

theorem step_fileOrd {files : List (FileRes β)} {a b : St β} (h : Step a b) (hp : FileOrd files a) : FileOrd files b := by
  classical
  intro f hf
  obtain ⟨pre, rest, hb, hsub, hcase⟩ := hp f hf
  cases h with
  | takeBad f0 q l t c out hf0 =>
    rcases hcase with h | ⟨hpre, hq⟩ | ⟨fin, hr⟩
    · exact ⟨pre, rest, hb, hsub, Or.inl h⟩
    · rcases List.mem_cons.mp hq with rfl | hq
      · refine ⟨pre, rest, hb, hsub, Or.inl ?_⟩
        have : f.batches = [] := by rcases hf0 with rfl | rfl <;> rfl
        rw [this, hpre] at hb
        simpa using hb.symm
      · exact ⟨pre, rest, hb, hsub, Or.inr (Or.inl ⟨hpre, hq⟩)⟩
    · exact ⟨pre, rest, hb, hsub, Or.inr (Or.inr ⟨fin, hr⟩)⟩
  | take bs fin0 q l t c out =>
    rcases hcase with h | ⟨hpre, hq⟩ | ⟨fin, hr⟩
    · exact ⟨pre, rest, hb, hsub, Or.inl h⟩
    · rcases List.mem_cons.mp hq with rfl | hq
      · refine ⟨pre, rest, hb, hsub, Or.inr (Or.inr ⟨fin0, ?_⟩)⟩
        have : rest = bs := by
          rw [hpre] at hb
          simpa [FileRes.batches] using hb.symm
        subst this
        simp
      · exact ⟨pre, rest, hb, hsub, Or.inr (Or.inl ⟨hpre, hq⟩)⟩
    · refine ⟨pre, rest, hb, hsub, Or.inr (Or.inr ⟨fin, ?_⟩)⟩
      simp only [List.mem_append, List.mem_cons] at hr ⊢
      rcases hr with h | h | h
      · exact Or.inl h
      · cases h
      · exact Or.inr (Or.inr h)
  | push b0 rest0 fin0 q l t c out =>
    have hsub' : pre.Sublist ((out ++ [(c, b0)]).map Prod.snd) := by
      rw [List.map_append]
      exact hsub.trans (List.sublist_append_left _ _)
    rcases hcase with h | ⟨hpre, hq⟩ | ⟨fin, hr⟩
    · exact ⟨pre, rest, hb, hsub', Or.inl h⟩
    · exact ⟨pre, rest, hb, hsub', Or.inr (Or.inl ⟨hpre, hq⟩)⟩
    · simp only [List.mem_append, List.mem_cons] at hr
      rcases hr with h | h | h
      · exact ⟨pre, rest, hb, hsub', Or.inr (Or.inr ⟨fin, by simp [h]⟩)⟩
      · have hrest : rest = b0 :: rest0 := by cases h; rfl
        subst hrest
        refine ⟨pre ++ [b0], rest0, by simp [hb], ?_, Or.inr (Or.inr ⟨fin0, by simp⟩)⟩
        rw [List.map_append]
        exact List.Sublist.append hsub (List.Sublist.refl _)
      · exact ⟨pre, rest, hb, hsub', Or.inr (Or.inr ⟨fin, by simp [h]⟩)⟩
  | fileEnd q l t c out =>
    rcases hcase with h | ⟨hpre, hq⟩ | ⟨fin, hr⟩
    · exact ⟨pre, rest, hb, hsub, Or.inl h⟩
    · exact ⟨pre, rest, hb, hsub, Or.inr (Or.inl ⟨hpre, hq⟩)⟩
    · simp only [List.mem_append, List.mem_cons] at hr
      rcases hr with h | h | h
      · exact ⟨pre, rest, hb, hsub, Or.inr (Or.inr ⟨fin, by simp [h]⟩)⟩
      · have hrest : rest = [] := by cases h; rfl
        exact ⟨pre, rest, hb, hsub, Or.inl hrest⟩
      · exact ⟨pre, rest, hb, hsub, Or.inr (Or.inr ⟨fin, by simp [h]⟩)⟩
  | die rest0 q l t c out =>
    exact ⟨pre, rest, hb, hsub, hcase⟩
  | finish l t c out =>
    rcases hcase with h | ⟨hpre, hq⟩ | ⟨fin, hr⟩
    · exact ⟨pre, rest, hb, hsub, Or.inl h⟩
    · exact ⟨pre, rest, hb, hsub, Or.inr (Or.inl ⟨hpre, hq⟩)⟩
    · simp only [List.mem_append, List.mem_cons] at hr
      rcases hr with h | h | h
      · exact ⟨pre, rest, hb, hsub, Or.inr (Or.inr ⟨fin, by simp [h]⟩)⟩
      · cases h
      · exact ⟨pre, rest, hb, hsub, Or.inr (Or.inr ⟨fin, by simp [h]⟩)⟩

theorem reach_fileOrd {files : List (FileRes β)} {n : Nat} {s : St β} (h : Reach (init files n) s) : FileOrd files s := by
  induction h with
  | start =>
    intro f hf
    exact ⟨[], f.batches, by simp, by simp, Or.inr (Or.inl ⟨rfl, hf⟩)⟩
  | next _ hs ih => exact step_fileOrd hs ih

end ObiVerif.ReadGlue

namespace ObiVerif.ReadGlueCli
open ObiVerif.ReadGlue ObiVerif.ReadErr

theorem feed_reach {s0 : St (Nat × Nat)} (j : Nat) (fuel : Nat) : ∀ (s s' : St (Nat × Nat)), Reach s0 s →
    feed j fuel s = some s' → Reach s0 s' := by
  induction fuel with
  | zero => intro s s' _ h; simp [feed] at h
  | succ k ih =>
    intro s s' hr h
    unfold feed at h
    split at h
    · exact Reach.next hr (stepAt_sound h)
    · split at h
      · obtain ⟨m, hm, hm'⟩ := Option.bind_eq_some_iff.mp h
        exact ih _ _ (Reach.next hr (stepAt_sound hm)) hm'
      · split at h
        · split at h
          · cases h
          · obtain ⟨m, hm, hm'⟩ := Option.bind_eq_some_iff.mp h
            exact ih _ _ (Reach.next hr (stepAt_sound hm)) hm'
        · cases h

theorem feedAll_reach {s0 : St (Nat × Nat)} (js : List Nat) : ∀ (s s' : St (Nat × Nat)), Reach s0 s →
    feedAll js s = some s' → Reach s0 s' := by
  induction js with
  | nil => intro s s' hr h; simp only [feedAll, Option.some.injEq] at h; exact h ▸ hr
  | cons j js ih =>
    intro s s' hr h
    obtain ⟨m, hm, hm'⟩ := Option.bind_eq_some_iff.mp h
    exact ih _ _ (feed_reach j _ _ _ hr hm) hm'

/-- an accepted observation is the end of an execution: the state returned is reachable, the process is alive, every
reader has left, and the file of the batch numbered `n` is `trace[n]` -/
theorem replay_reach {ks : List Nat} {nreader : Nat} {trace : List Nat} {s : St (Nat × Nat)}
    (h : replay ks nreader trace = some s) :
    Reach (init (tagged ks) nreader) s ∧ s.endedOk ∧ s.out.map (fun p => p.2.1) = trace := by
  unfold replay at h
  simp only at h
  split at h
  · cases h
  · rename_i m hm
    split at h
    · rename_i hc
      simp only [Option.some.injEq] at h
      subst h
      simp only [Bool.and_eq_true, Bool.not_eq_true', List.all_eq_true, beq_iff_eq] at hc
      exact ⟨run_reach _ _ _ _ (feedAll_reach _ _ _ Reach.start hm), ⟨hc.1.1, hc.1.2⟩, hc.2⟩
    · cases h

end ObiVerif.ReadGlueCli

namespace ObiVerif.Reseq

variable {α : Type}

/-- a list numbered 0, 1, 2, … is re-sequenced into itself from EVERY arrival order -/
theorem reseq_of_numbered (out arr : List (Nat × α)) (hnum : out.map Prod.fst = List.range out.length)
    (hp : arr.Perm out) : reseq arr = out.map Prod.snd := by
  cases hout : out with
  | nil =>
    subst hout
    have : arr = [] := List.Perm.eq_nil hp
    subst this
    rfl
  | cons x xs =>
    rw [← hout]
    let v : Nat → α := fun k => (out.map Prod.snd).getD k x.2
    have hform : out = (List.range out.length).map (fun k => (k, v k)) := by
      apply List.ext_getElem
      · simp
      · intro i h1 h2
        have hfst : out[i].1 = i := by
          have := congrArg (fun l => l[i]?) hnum
          simp only [List.getElem?_map, List.getElem?_eq_getElem h1, Option.map_some] at this
          have hi : (List.range out.length)[i]? = some i := by simp [h1]
          rw [hi] at this
          exact Option.some.inj this
        have hsnd : v i = out[i].2 := by
          simp only [v, List.getD_eq_getElem?_getD, List.getElem?_map, List.getElem?_eq_getElem h1, Option.map_some,
            Option.getD_some]
        simp only [List.getElem_map, List.getElem_range]
        rw [hsnd]
        exact Prod.ext hfst rfl
    have hmem : ∀ p ∈ arr, p = (p.1, v p.1) := by
      intro p hpm
      have hpo : p ∈ out := hp.mem_iff.mp hpm
      rw [hform] at hpo
      obtain ⟨k, _, rfl⟩ := List.mem_map.mp hpo
      rfl
    have harr : arr = (arr.map Prod.fst).map (fun k => (k, v k)) := by
      rw [List.map_map]
      conv => lhs; rw [← List.map_id arr]
      apply List.map_congr_left
      intro p hpm
      exact hmem p hpm
    have hks : (arr.map Prod.fst).Perm (List.range out.length) := by
      rw [← hnum]
      exact hp.map _
    rw [harr, reseq_perm v out.length _ hks]
    conv => rhs; rw [hform]
    simp [List.map_map, Function.comp_def]

end ObiVerif.Reseq
