import ObiVerif.Model.Chunk
/-!
# Lemmas on `ReadSeqFileChunk` (Model/Chunk.lean), for any splitter

`Pieces Cut cs file`: the chunk texts `cs` are obtained by cutting `file` at positions where the
splitter's cut predicate holds, stripping the trailing end-of-line bytes of each piece and dropping the
pieces that become empty; only the last piece may be sent unstripped (final flush).
`chunks_pieces`: what `chunks` returns is such a cutting.  `chunks_terminates`: the fuel is never
exhausted when the splitter returns a negative value or a value in `[1, len]` and the buffer has at
least 2 bytes.
-/
namespace ObiVerif.Chunk

def AllEol (e : Seq) : Prop := ∀ c ∈ e, isEol c = true

/-- contract of a record splitter w.r.t. a cut predicate on (emitted part, carried-over part) -/
structure SplitterOK (split : Seq → Int) (Cut : Seq → Seq → Prop) : Prop where
  /-- "not found" or a position in `[1, len]` (0 would make `ReadSeqFileChunk` loop forever) -/
  range : ∀ buf, split buf < 0 ∨ (1 ≤ split buf ∧ split buf ≤ buf.length)
  /-- a found position is a cut -/
  cut : ∀ buf, 0 ≤ split buf → Cut (buf.take (split buf).toNat) (buf.drop (split buf).toNat)
  /-- a cut stays a cut when more bytes follow -/
  ext : ∀ a b x, Cut a b → Cut a (b ++ x)

inductive Pieces (Cut : Seq → Seq → Prop) : List Seq → Seq → Prop
  | nil {t : Seq} : AllEol t → Pieces Cut [] t
  | lastStripped {t : Seq} : stripEol t ≠ [] → Pieces Cut [stripEol t] t
  | lastRaw {t : Seq} : t ≠ [] → Pieces Cut [t] t
  | cut {a b : Seq} {cs : List Seq} : Cut a b → stripEol a ≠ [] → Pieces Cut cs b →
      Pieces Cut (stripEol a :: cs) (a ++ b)
  | skip {a b : Seq} {cs : List Seq} : Cut a b → stripEol a = [] → Pieces Cut cs b →
      Pieces Cut cs (a ++ b)

theorem mem_takeWhile_prop {α : Type} (p : α → Bool) : ∀ (l : List α) (x : α), x ∈ l.takeWhile p → p x = true
  | [], x, h => by simp at h
  | a :: t, x, h => by
    simp only [List.takeWhile_cons] at h
    split at h
    · rename_i hpa
      simp only [List.mem_cons] at h
      rcases h with rfl | h
      · exact hpa
      · exact mem_takeWhile_prop p t x h
    · simp at h

theorem stripEol_decomp (b : Seq) : ∃ e, b = stripEol b ++ e ∧ AllEol e := by
  refine ⟨(b.reverse.takeWhile isEol).reverse, ?_, ?_⟩
  · have h := List.takeWhile_append_dropWhile (p := isEol) (l := b.reverse)
    have h2 := congrArg List.reverse h
    simp only [List.reverse_append, List.reverse_reverse] at h2
    exact h2.symm
  · intro c hc
    simp only [List.mem_reverse] at hc
    exact mem_takeWhile_prop _ _ _ hc

theorem allEol_of_strip_nil {b : Seq} (h : stripEol b = []) : AllEol b := by
  obtain ⟨e, he, hall⟩ := stripEol_decomp b
  rw [h] at he
  simp at he
  rw [he]; exact hall

theorem allEol_nil : AllEol [] := by intro c hc; cases hc

/-! ### readFull -/

theorem readFull_spec (n : Nat) (rest : Seq) :
    (readFull n rest).1 ++ (readFull n rest).2.1 = rest ∧
    ((readFull n rest).2.2 = .none → (readFull n rest).1.length = n) ∧
    ((readFull n rest).2.2 ≠ .none → (readFull n rest).2.1 = []) := by
  unfold readFull
  simp only
  refine ⟨List.take_append_drop n rest, ?_, ?_⟩
  · intro h
    split at h
    · assumption
    · split at h <;> cases h
  · intro h
    split at h
    · exact absurd rfl h
    · rename_i hne
      rw [List.length_take] at hne
      apply List.drop_eq_nil_of_le
      omega

theorem readFull_eof (n : Nat) (rest : Seq) (h : (readFull n rest).2.2 = .eof) : rest = [] := by
  unfold readFull at h
  simp only at h
  split at h
  · cases h
  · rename_i hne
    split at h
    · rename_i h0
      rw [List.length_take] at h0 hne
      cases rest with
      | nil => rfl
      | cons a t => simp at h0 hne; omega
    · cases h

/-! ### the inner loop -/

theorem grow_spec (split : Seq → Int) (bufsz : Nat) :
    ∀ (fuel : Nat) (buff rest : Seq) (buff' rest' : Seq) (err : RErr) (e : Int),
      grow split bufsz fuel buff rest = some (buff', rest', err, e) →
      buff' ++ rest' = buff ++ rest ∧ e = split buff' ∧ (err = .none → 0 ≤ e) ∧ (err ≠ .none → rest' = []) := by
  intro fuel
  induction fuel with
  | zero => intro buff rest buff' rest' err e h; simp [grow] at h
  | succ fuel ih =>
    intro buff rest buff' rest' err e h
    simp only [grow] at h
    split at h
    · rename_i hneg
      obtain ⟨h1, _, h3⟩ := readFull_spec (bufsz - 1) rest
      generalize readFull (bufsz - 1) rest = rf at h h1 h3
      obtain ⟨got, rest1, err1⟩ := rf
      simp only at h h1 h3
      split at h
      · obtain ⟨a, b, c, d⟩ := ih _ _ _ _ _ _ h
        refine ⟨?_, b, c, d⟩
        rw [a, List.append_assoc, h1]
      · rename_i hne
        simp only [Option.some.injEq, Prod.mk.injEq] at h
        obtain ⟨rfl, rfl, rfl, rfl⟩ := h
        refine ⟨?_, rfl, fun hc => absurd hc hne, fun _ => h3 hne⟩
        rw [List.append_assoc, h1]
    · rename_i hpos
      simp only [Option.some.injEq, Prod.mk.injEq] at h
      obtain ⟨rfl, rfl, rfl, rfl⟩ := h
      exact ⟨rfl, rfl, fun _ => by omega, fun hc => absurd rfl hc⟩

theorem grow_some (split : Seq → Int) (bufsz : Nat) (hb : 2 ≤ bufsz) :
    ∀ (fuel : Nat) (buff rest : Seq), rest.length < fuel → (grow split bufsz fuel buff rest).isSome := by
  intro fuel
  induction fuel with
  | zero => intro buff rest h; omega
  | succ fuel ih =>
    intro buff rest h
    simp only [grow]
    split
    · obtain ⟨h1, h2, _⟩ := readFull_spec (bufsz - 1) rest
      generalize readFull (bufsz - 1) rest = rf at h1 h2
      obtain ⟨got, rest1, err1⟩ := rf
      simp only at h1 h2 ⊢
      split
      · rename_i hnone
        apply ih
        have hl := h2 hnone
        have : rest.length = got.length + rest1.length := by rw [← h1]; simp
        omega
      · rfl
    · rfl

/-! ### the outer loop -/

theorem outer_pieces (split : Seq → Int) (Cut : Seq → Seq → Prop) (hs : SplitterOK split Cut) (bufsz : Nat) :
    ∀ (fuel : Nat) (buff rest : Seq) (out res : List Seq),
      outer split bufsz fuel buff rest out = some res →
      ∃ cs, res = out.reverse ++ cs ∧ Pieces Cut cs (buff ++ rest) := by
  intro fuel
  induction fuel with
  | zero => intro buff rest out res h; simp [outer] at h
  | succ fuel ih =>
    intro buff rest out res h
    simp only [outer] at h
    split at h
    · cases h
    · rename_i buff' rest' err e hg
      obtain ⟨hcat, he, hpos, hend⟩ := grow_spec split bufsz _ _ _ _ _ _ _ hg
      rw [← hcat]
      by_cases hlen : buff'.length > 0
      · simp only [hlen, if_true] at h
        by_cases herr : err = .none
        · -- the loop goes on: a cut was found
          simp only [herr, if_true] at h
          have he0 : 0 ≤ e := hpos herr
          have hneg : ¬ e < 0 := by omega
          simp only [hneg, if_false] at h
          have hcut := hs.cut buff' (by rw [← he]; exact he0)
          rw [← he] at hcut
          have hcut' := hs.ext _ _ rest' hcut
          by_cases hch : (stripEol (List.take e.toNat buff')).length > 0
          · simp only [hch, if_true] at h
            obtain ⟨cs, hres, hp⟩ := ih _ _ _ _ h
            refine ⟨stripEol (List.take e.toNat buff') :: cs, ?_, ?_⟩
            · rw [hres]; simp
            · have := Pieces.cut hcut' (by intro hh; rw [hh] at hch; simp at hch) hp
              rw [← List.append_assoc, List.take_append_drop] at this
              exact this
          · simp only [hch, if_false] at h
            obtain ⟨cs, hres, hp⟩ := ih _ _ _ _ h
            refine ⟨cs, hres, ?_⟩
            have hnil : stripEol (List.take e.toNat buff') = [] := by
              cases hx : stripEol (List.take e.toNat buff') with
              | nil => rfl
              | cons a t => rw [hx] at hch; simp at hch
            have := Pieces.skip hcut' hnil hp
            rw [← List.append_assoc, List.take_append_drop] at this
            exact this
        · -- last turn: the reader is exhausted
          simp only [herr, if_false] at h
          have hr : rest' = [] := hend herr
          subst hr
          simp only [List.append_nil]
          by_cases hneg : e < 0
          · simp only [hneg, if_true, List.take_length, List.drop_length] at h
            by_cases hch : (stripEol buff').length > 0
            · simp only [hch, if_true, List.length_nil, Nat.lt_irrefl, if_false, Option.some.injEq] at h
              refine ⟨[stripEol buff'], ?_, ?_⟩
              · rw [← h]; simp
              · exact Pieces.lastStripped (by intro hh; rw [hh] at hch; simp at hch)
            · simp only [hch, if_false, List.length_nil, Nat.lt_irrefl, Option.some.injEq] at h
              refine ⟨[], ?_, ?_⟩
              · rw [← h]; simp
              · apply Pieces.nil
                apply allEol_of_strip_nil
                cases hx : stripEol buff' with
                | nil => rfl
                | cons a t => rw [hx] at hch; simp at hch
          · simp only [hneg, if_false] at h
            have he0 : 0 ≤ e := by omega
            have hcut := hs.cut buff' (by rw [← he]; exact he0)
            rw [← he] at hcut
            have hlast : ∃ cl, (if (List.drop e.toNat buff').length > 0 then [List.drop e.toNat buff'] else []) = cl ∧
                Pieces Cut cl (List.drop e.toNat buff') := by
              by_cases hd : (List.drop e.toNat buff').length > 0
              · refine ⟨_, rfl, ?_⟩
                simp only [hd, if_true]
                exact Pieces.lastRaw (by intro hh; rw [hh] at hd; simp at hd)
              · refine ⟨_, rfl, ?_⟩
                simp only [hd, if_false]
                apply Pieces.nil
                have : List.drop e.toNat buff' = [] := by
                  cases hx : List.drop e.toNat buff' with
                  | nil => rfl
                  | cons a t => rw [hx] at hd; simp at hd
                rw [this]; exact allEol_nil
            obtain ⟨cl, hcl, hpl⟩ := hlast
            by_cases hch : (stripEol (List.take e.toNat buff')).length > 0
            · simp only [hch, if_true, Option.some.injEq] at h
              refine ⟨stripEol (List.take e.toNat buff') :: cl, ?_, ?_⟩
              · rw [← h, ← hcl]
                split <;> simp
              · have := Pieces.cut hcut (by intro hh; rw [hh] at hch; simp at hch) hpl
                rw [List.take_append_drop] at this
                exact this
            · simp only [hch, if_false, Option.some.injEq] at h
              refine ⟨cl, ?_, ?_⟩
              · rw [← h, ← hcl]
                split <;> simp
              · have hnil : stripEol (List.take e.toNat buff') = [] := by
                  cases hx : stripEol (List.take e.toNat buff') with
                  | nil => rfl
                  | cons a t => rw [hx] at hch; simp at hch
                have := Pieces.skip hcut hnil hpl
                rw [List.take_append_drop] at this
                exact this
      · -- empty buffer
        have hb : buff' = [] := by
          cases hx : buff' with
          | nil => rfl
          | cons a t => rw [hx] at hlen; simp at hlen
        subst hb
        simp only [List.length_nil, Nat.lt_irrefl, if_false, gt_iff_lt] at h
        by_cases herr : err = .none
        · exfalso
          have he0 := hpos herr
          rcases hs.range [] with hr | hr
          · rw [← he] at hr; omega
          · rw [← he] at hr; simp at hr; omega
        · simp only [herr, if_false, Option.some.injEq] at h
          have hr : rest' = [] := hend herr
          subst hr
          refine ⟨[], ?_, Pieces.nil allEol_nil⟩
          rw [← h]; simp

theorem outer_some (split : Seq → Int) (Cut : Seq → Seq → Prop) (hs : SplitterOK split Cut) (bufsz : Nat)
    (hb : 2 ≤ bufsz) :
    ∀ (fuel : Nat) (buff rest : Seq) (out : List Seq),
      buff.length + rest.length < fuel → (outer split bufsz fuel buff rest out).isSome := by
  intro fuel
  induction fuel with
  | zero => intro buff rest out h; omega
  | succ fuel ih =>
    intro buff rest out h
    simp only [outer]
    have hg := grow_some split bufsz hb (rest.length + 2) buff rest (by omega)
    cases hgr : grow split bufsz (rest.length + 2) buff rest with
    | none => rw [hgr] at hg; cases hg
    | some r =>
      obtain ⟨buff', rest', err, e⟩ := r
      obtain ⟨hcat, he, hpos, hend⟩ := grow_spec split bufsz _ _ _ _ _ _ _ hgr
      simp only
      have hlen : buff'.length + rest'.length = buff.length + rest.length := by
        have := congrArg List.length hcat
        simpa using this
      by_cases herr : err = .none
      · simp only [herr, if_true]
        have he0 := hpos herr
        have hrange := hs.range buff'
        rw [← he] at hrange
        have h1 : 1 ≤ e ∧ e ≤ buff'.length := by
          rcases hrange with hr | hr
          · omega
          · exact hr
        have hpos' : buff'.length > 0 := by omega
        have hneg : ¬ e < 0 := by omega
        simp only [hpos', if_true, hneg, if_false]
        apply ih
        simp only [List.length_drop]
        omega
      · simp only [herr, if_false]
        rfl

/-- the chunks are a cutting of the file at splitter cuts -/
theorem chunks_pieces (split : Seq → Int) (Cut : Seq → Seq → Prop) (hs : SplitterOK split Cut)
    (bufsz : Nat) (file : Seq) (cs : List Seq) (h : chunks split bufsz file = some cs) :
    Pieces Cut cs file := by
  unfold chunks at h
  obtain ⟨h1, _, _⟩ := readFull_spec bufsz file
  generalize hrf : readFull bufsz file = rf at h h1
  obtain ⟨buff, rest, err⟩ := rf
  simp only at h h1
  split at h
  · rename_i heof
    simp only [Option.some.injEq] at h
    subst h
    -- l = 0 at the first read: the file is empty
    have := readFull_eof bufsz file (by rw [hrf]; exact heof)
    subst this
    exact Pieces.nil allEol_nil
  · obtain ⟨cs', hres, hp⟩ := outer_pieces split Cut hs bufsz _ _ _ _ _ h
    simp at hres
    subst hres
    rw [h1] at hp
    exact hp

/-- the file is: a run of end-of-line bytes, chunk 0, a run of end-of-line bytes, chunk 1, …, a run
of end-of-line bytes (runs may be empty) -/
inductive StripJoin : List Seq → Seq → Prop
  | nil {e : Seq} : AllEol e → StripJoin [] e
  | cons {e c rest : Seq} {cs : List Seq} : AllEol e → StripJoin cs rest → StripJoin (c :: cs) (e ++ c ++ rest)

theorem allEol_append {a b : Seq} (ha : AllEol a) (hb : AllEol b) : AllEol (a ++ b) := by
  intro c hc
  rcases List.mem_append.mp hc with h | h
  · exact ha c h
  · exact hb c h

theorem StripJoin.prepend {e t : Seq} {cs : List Seq} (he : AllEol e) (h : StripJoin cs t) :
    StripJoin cs (e ++ t) := by
  cases h with
  | nil h0 => exact StripJoin.nil (allEol_append he h0)
  | cons h0 hr =>
    rename_i e0 c rest cs'
    have := StripJoin.cons (c := c) (allEol_append he h0) hr
    simpa [List.append_assoc] using this

theorem pieces_stripJoin {Cut : Seq → Seq → Prop} {cs : List Seq} {t : Seq} (h : Pieces Cut cs t) :
    StripJoin cs t ∧ ∀ c ∈ cs, c ≠ [] := by
  induction h with
  | nil h0 => exact ⟨StripJoin.nil h0, by simp⟩
  | @lastStripped t hne =>
    obtain ⟨e, he, hall⟩ := stripEol_decomp t
    constructor
    · have := StripJoin.cons (e := []) (c := stripEol t) allEol_nil (StripJoin.nil hall)
      simp only [List.nil_append] at this
      rw [← he] at this
      exact this
    · intro c hc; simp at hc; rw [hc]; exact hne
  | @lastRaw t hne =>
    constructor
    · have := StripJoin.cons (e := []) (c := t) allEol_nil (StripJoin.nil allEol_nil)
      simpa using this
    · intro c hc; simp at hc; rw [hc]; exact hne
  | @cut a b cs _ hne _ ih =>
    obtain ⟨e, he, hall⟩ := stripEol_decomp a
    constructor
    · have := StripJoin.cons (e := []) (c := stripEol a) allEol_nil (ih.1.prepend hall)
      simp only [List.nil_append] at this
      rw [← List.append_assoc, ← he] at this
      exact this
    · intro c hc
      simp only [List.mem_cons] at hc
      rcases hc with rfl | hc
      · exact hne
      · exact ih.2 c hc
  | @skip a b cs _ hnil _ ih =>
    exact ⟨ih.1.prepend (allEol_of_strip_nil hnil), ih.2⟩

theorem range_map_getD {α β : Type} (cs : List α) (d : α) (f : α → β) :
    (List.range cs.length).map (fun k => f (cs.getD k d)) = cs.map f := by
  apply List.ext_getElem
  · simp
  · intro i h1 h2
    simp at h1
    simp [h1]

end ObiVerif.Chunk
