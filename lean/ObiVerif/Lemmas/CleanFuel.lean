import ObiVerif.Lemmas.Clean
/-!
# The fuel of `reweight` always suffices; the count sort is stable (property C13)

`reweightSequences` loops `for done := true; done;` over the nodes whose `AddedSons == SonCount`.  In the graph
of `buildSamplePairs` every edge of row `i` points to a row `j > i` (`for j := i + 1; …`), and a turn scans the
rows in increasing order: when the FIRST turn reaches row `k`, all its sons (rows `< k`) have already handed their
weight over (leaves in the leaf pass, the others earlier in this very turn), so `AddedSons == SonCount` and `k`
fires.  After the first turn every `AddedSons` is 0, the second turn fires nothing and the loop stops:
`innerLoop_two_turns`, for any fuel `≥ 2`.
-/
namespace ObiVerif.Clean

/-! ## generic -/

theorem foldl_range_inv {β : Type} (f : β → Nat → β) (P : Nat → β → Prop) (b : β) (n : Nat) (h0 : P 0 b)
    (hs : ∀ k b, k < n → P k b → P (k + 1) (f b k)) : P n ((List.range n).foldl f b) := by
  induction n with
  | zero => exact h0
  | succ m ih =>
    rw [List.range_succ, List.foldl_append]
    exact hs m _ (Nat.lt_succ_self m) (ih (fun k b hk hp => hs k b (Nat.lt_succ_of_lt hk) hp))

/-! ## `rfunc` on the `added` counters -/

/-- what `rfunc k` does to `AddedSons` -/
def addStep (edges : Array (List Edge)) (k : Nat) (a : Array Nat) : Array Nat :=
  (edges.getD k []).foldl (fun a e => a.modify e.father (· + 1)) (a.setIfInBounds k 0)

theorem foldl_rw_added (g : RW → Edge → Array Nat) (es : List Edge) (s : RW) :
    (es.foldl (fun s e => ({ weight := g s e, added := s.added.modify e.father (· + 1) } : RW)) s).added
      = es.foldl (fun a e => a.modify e.father (· + 1)) s.added := by
  induction es generalizing s with
  | nil => rfl
  | cons e es ih => simp only [List.foldl_cons]; rw [ih]

theorem rfunc_added (counts : Array Nat) (edges : Array (List Edge)) (k : Nat) (s : RW) :
    (rfunc counts edges k s).added = addStep edges k s.added := by
  unfold rfunc addStep
  exact foldl_rw_added _ _ _

theorem foldl_modify_get (es : List Edge) (a : Array Nat) (j : Nat) :
    (es.foldl (fun a e => a.modify e.father (· + 1)) a)[j]? = a[j]?.map (· + (es.map (·.father)).count j) := by
  induction es generalizing a with
  | nil =>
    simp only [List.foldl_nil, List.map_nil, List.count_nil, Nat.add_zero]
    generalize a[j]? = o; cases o <;> rfl
  | cons e es ih =>
    simp only [List.foldl_cons, List.map_cons, List.count_cons]
    rw [ih, Array.getElem?_modify]
    by_cases h : e.father = j
    · subst h
      cases a[e.father]? with
      | none => simp
      | some v => simp; omega
    · have : (e.father == j) = false := by simpa using h
      simp [h, this]

theorem addStep_size (edges : Array (List Edge)) (k : Nat) (a : Array Nat) : (addStep edges k a).size = a.size := by
  unfold addStep
  generalize edges.getD k [] = es
  have : ∀ (es : List Edge) (b : Array Nat), (es.foldl (fun a e => a.modify e.father (· + 1)) b).size = b.size := by
    intro es
    induction es with
    | nil => intro b; rfl
    | cons e es ih => intro b; simp only [List.foldl_cons]; rw [ih, Array.size_modify]
  rw [this, Array.size_setIfInBounds]

theorem addStep_getD (edges : Array (List Edge)) (k : Nat) (a : Array Nat) (j : Nat) (hj : j < a.size) :
    (addStep edges k a).getD j 0 = (if k = j then 0 else a.getD j 0) + (fathers edges k).count j := by
  unfold addStep fathers
  rw [Array.getD_eq_getD_getElem?, foldl_modify_get, Array.getElem?_setIfInBounds, Array.getD_eq_getD_getElem?]
  by_cases h : k = j
  · subst h
    simp [hj]
  · simp [h, Array.getElem?_eq_getElem hj]

/-! ## the graph hypotheses and the two counting functions -/

/-- what `buildSamplePairs` guarantees: `n` rows; every edge of row `i` points further down; `sons` is the number
of edges pointing to each row -/
structure Forward (n : Nat) (edges : Array (List Edge)) (sons : Array Nat) : Prop where
  fwd : ∀ i f, i < n → f ∈ fathers edges i → i < f
  sons_eq : ∀ j, j < n → sons.getD j 0 = ((List.range n).flatMap (fathers edges)).count j

/-- edges to `j` from the LEAF rows `< k` -/
def cntL (edges : Array (List Edge)) (sons : Array Nat) (k j : Nat) : Nat :=
  ((List.range k).flatMap (fun i => if sons.getD i 0 == 0 then fathers edges i else [])).count j

/-- edges to `j` from the NON-leaf rows `< k` -/
def cntT (edges : Array (List Edge)) (sons : Array Nat) (k j : Nat) : Nat :=
  ((List.range k).flatMap (fun i => if sons.getD i 0 == 0 then [] else fathers edges i)).count j

theorem cntL_succ (edges : Array (List Edge)) (sons : Array Nat) (k j : Nat) :
    cntL edges sons (k + 1) j = cntL edges sons k j + (if sons.getD k 0 == 0 then fathers edges k else []).count j := by
  unfold cntL
  rw [List.range_succ, List.flatMap_append, List.count_append]
  simp

theorem cntT_succ (edges : Array (List Edge)) (sons : Array Nat) (k j : Nat) :
    cntT edges sons (k + 1) j = cntT edges sons k j + (if sons.getD k 0 == 0 then [] else fathers edges k).count j := by
  unfold cntT
  rw [List.range_succ, List.flatMap_append, List.count_append]
  simp

theorem cntL_add_cntT (edges : Array (List Edge)) (sons : Array Nat) (m j : Nat) :
    cntL edges sons m j + cntT edges sons m j = ((List.range m).flatMap (fathers edges)).count j := by
  induction m with
  | zero => rfl
  | succ m ih =>
    rw [cntL_succ, cntT_succ, List.range_succ, List.flatMap_append, List.count_append, ← ih]
    by_cases h : (sons.getD m 0 == 0) = true
    · rw [if_pos h, if_pos h]; simp; omega
    · rw [if_neg h, if_neg h]; simp; omega

section
variable {n : Nat} {edges : Array (List Edge)} {sons : Array Nat} (F : Forward n edges sons)
include F

theorem Forward.count_zero (i j : Nat) (hi : i < n) (hji : j ≤ i) : (fathers edges i).count j = 0 := by
  rw [List.count_eq_zero]
  intro hm
  have := F.fwd i j hi hm
  omega

/-- nothing points to a leaf -/
theorem Forward.leaf_count_zero (i j : Nat) (hi : i < n) (hj : j < n) (hleaf : sons.getD j 0 = 0) :
    (fathers edges i).count j = 0 := by
  rw [List.count_eq_zero]
  intro hm
  have h := F.sons_eq j hj
  rw [hleaf] at h
  have h0 := List.count_eq_zero.1 h.symm
  exact h0 (List.mem_flatMap.2 ⟨i, List.mem_range.2 hi, hm⟩)

theorem Forward.cntL_leaf (k j : Nat) (hk : k ≤ n) (hj : j < n) (hleaf : sons.getD j 0 = 0) :
    cntL edges sons k j = 0 := by
  unfold cntL
  rw [List.count_eq_zero]
  intro hm
  obtain ⟨i, hi, hmem⟩ := List.mem_flatMap.1 hm
  have hi' : i < n := Nat.lt_of_lt_of_le (List.mem_range.1 hi) hk
  split at hmem
  · exact List.count_eq_zero.1 (F.leaf_count_zero i j hi' hj hleaf) hmem
  · cases hmem

theorem Forward.cntT_stable (k m : Nat) (hkm : k + m ≤ n) : cntT edges sons (k + m) k = cntT edges sons k k := by
  induction m with
  | zero => rfl
  | succ m ih =>
    rw [← Nat.add_assoc, cntT_succ, ih (by omega)]
    split
    · simp
    · rw [F.count_zero (k + m) k (by omega) (by omega)]; rfl

/-- when the first turn reaches `k`, `AddedSons k = SonCount k` -/
theorem Forward.sons_reached (k : Nat) (hk : k < n) : cntL edges sons n k + cntT edges sons k k = sons.getD k 0 := by
  rw [F.sons_eq k hk, ← cntL_add_cntT edges sons n k]
  have := F.cntT_stable k (n - k) (by omega)
  rw [show k + (n - k) = n by omega] at this
  rw [this]

/-! ## the leaf pass -/

theorem Forward.leafPass_added (counts : Array Nat) (hn : counts.size = n) (s : RW) (hs : s.added.size = n)
    (h0 : ∀ j, j < n → s.added.getD j 0 = 0) :
    (leafPass counts edges sons s).added.size = n ∧
      ∀ j, j < n → (leafPass counts edges sons s).added.getD j 0 = cntL edges sons n j := by
  unfold leafPass
  rw [hn]
  refine foldl_range_inv _ (fun k (s : RW) => s.added.size = n ∧ ∀ j, j < n → s.added.getD j 0 = cntL edges sons k j)
    s n ⟨hs, fun j hj => by rw [h0 j hj]; rfl⟩ ?_
  intro k s hk ⟨hsz, hv⟩
  by_cases hleaf : (sons.getD k 0 == 0) = true
  · rw [if_pos hleaf, rfunc_added]
    refine ⟨by rw [addStep_size, hsz], fun j hj => ?_⟩
    rw [addStep_getD _ _ _ _ (by omega), cntL_succ, if_pos hleaf]
    by_cases hkj : k = j
    · subst hkj
      rw [if_pos rfl, F.cntL_leaf k k (by omega) hk (by simpa using hleaf)]
    · rw [if_neg hkj, hv j hj]
  · rw [if_neg hleaf]
    refine ⟨hsz, fun j hj => ?_⟩
    rw [hv j hj, cntL_succ, if_neg hleaf]
    rfl

/-! ## the first turn fires every non-leaf row and leaves every `AddedSons` at 0 -/

theorem Forward.innerPass_first (counts : Array Nat) (hn : counts.size = n) (s : RW) (hs : s.added.size = n)
    (hv : ∀ j, j < n → s.added.getD j 0 = cntL edges sons n j) :
    (innerPass counts edges sons s).1.added.size = n ∧
      ∀ j, j < n → (innerPass counts edges sons s).1.added.getD j 0 = 0 := by
  unfold innerPass
  rw [hn]
  have := foldl_range_inv
    (fun (acc : RW × Bool) k =>
      if sons.getD k 0 > 0 ∧ sons.getD k 0 == acc.1.added.getD k 0 then (rfunc counts edges k acc.1, true) else acc)
    (fun k (acc : RW × Bool) => acc.1.added.size = n ∧
      ∀ j, j < n → acc.1.added.getD j 0 = if j < k then 0 else cntL edges sons n j + cntT edges sons k j)
    (s, false) n ⟨hs, fun j hj => by rw [if_neg (Nat.not_lt_zero j)]; exact hv j hj⟩ ?_
  · refine ⟨this.1, fun j hj => ?_⟩
    rw [this.2 j hj, if_pos hj]
  intro k acc hk ⟨hsz, hinv⟩
  have hk_val : acc.1.added.getD k 0 = sons.getD k 0 := by
    rw [hinv k hk, if_neg (Nat.lt_irrefl k), F.sons_reached k hk]
  by_cases hpos : sons.getD k 0 > 0
  · have hnl : ¬ (sons.getD k 0 == 0) = true := fun h => by have := beq_iff_eq.1 h; omega
    rw [if_pos ⟨hpos, by rw [hk_val]; simp⟩]
    show (rfunc counts edges k acc.1).added.size = n ∧ ∀ j, j < n → (rfunc counts edges k acc.1).added.getD j 0 = _
    rw [rfunc_added]
    refine ⟨by rw [addStep_size, hsz], fun j hj => ?_⟩
    rw [addStep_getD _ _ _ _ (by omega), cntT_succ, if_neg hnl]
    by_cases hkj : k = j
    · subst hkj
      rw [if_pos rfl, if_pos (Nat.lt_succ_self k), F.count_zero k k hk (Nat.le_refl k)]
    · rw [if_neg hkj, hinv j hj]
      by_cases hjk : j < k
      · rw [if_pos hjk, if_pos (by omega), F.count_zero k j hk (by omega)]
      · rw [if_neg hjk, if_neg (by omega)]
        omega
  · have hleaf : sons.getD k 0 = 0 := by omega
    rw [if_neg (fun h => hpos h.1)]
    refine ⟨hsz, fun j hj => ?_⟩
    have hcnt : cntT edges sons (k + 1) j = cntT edges sons k j := by
      rw [cntT_succ, if_pos (by rw [hleaf]; rfl)]; rfl
    rw [hinv j hj, hcnt]
    by_cases hjk : j < k
    · rw [if_pos hjk, if_pos (by omega)]
    · rw [if_neg hjk]
      by_cases hkj : k = j
      · subst hkj
        rw [if_pos (Nat.lt_succ_self k), F.sons_reached k hk, hleaf]
      · rw [if_neg (by omega)]

omit F in
/-- a turn that starts with every `AddedSons` at 0 fires nothing -/
theorem innerPass_idle (counts : Array Nat) (edges : Array (List Edge)) (sons : Array Nat) (s : RW)
    (hv : ∀ j, j < counts.size → s.added.getD j 0 = 0) :
    innerPass counts edges sons s = (s, false) := by
  unfold innerPass
  refine foldl_range_inv _ (fun _ (acc : RW × Bool) => acc = (s, false)) (s, false) counts.size rfl ?_
  intro k acc hk hacc
  subst hacc
  rw [if_neg]
  intro h
  have h2 : sons.getD k 0 = s.added.getD k 0 := by simpa using h.2
  rw [hv k hk] at h2
  omega

/-- **two turns**: with any fuel `≥ 2` the loop stops, and its result is the state after the first turn -/
theorem Forward.innerLoop_two_turns (counts : Array Nat) (hn : counts.size = n) (s : RW) (hs : s.added.size = n)
    (hv : ∀ j, j < n → s.added.getD j 0 = cntL edges sons n j) (fuel : Nat) :
    innerLoop counts edges sons (fuel + 2) s = some (innerPass counts edges sons s).1 := by
  have h1 := F.innerPass_first counts hn s hs hv
  have h2 := innerPass_idle counts edges sons (innerPass counts edges sons s).1 (by rw [hn]; exact h1.2)
  show (if (innerPass counts edges sons s).2 then innerLoop counts edges sons (fuel + 1) (innerPass counts edges sons s).1
    else some (innerPass counts edges sons s).1) = _
  split
  · show (if (innerPass counts edges sons (innerPass counts edges sons s).1).2 then _ else _) = _
    rw [h2]
    rfl
  · rfl

/-- `reweightSequences` stops: the weights are those after the leaf pass and ONE turn -/
theorem Forward.reweight_eq (counts : Array Nat) (hn : counts.size = n) :
    reweight counts edges sons = some (innerPass counts edges sons
      (leafPass counts edges sons { weight := counts, added := Array.replicate counts.size 0 })).1.weight := by
  unfold reweight
  have hl := F.leafPass_added counts hn { weight := counts, added := Array.replicate counts.size 0 }
    (by simp [hn]) (fun j hj => by simp [Array.getD_eq_getD_getElem?, hn, hj])
  simp only
  rw [show counts.size + 2 = counts.size + 2 from rfl, F.innerLoop_two_turns counts hn _ hl.1 hl.2]
  rfl
end

/-! ## the graph of `cleanSample` is forward -/

theorem edges1_forward (K : Kernels) (ns : Array Node) :
    Forward ns.size (edges1 K ns).toArray (sonCount ns.size (edges1 K ns)).toArray := by
  have hrow : ∀ i, i < ns.size → fathers (edges1 K ns).toArray i = (rowEdges1 K ns i).map (·.father) := by
    intro i hi
    simp [fathers, edges1, Array.getD_eq_getD_getElem?, List.getElem?_range hi]
  constructor
  · intro i f hi hf
    rw [hrow i hi] at hf
    obtain ⟨e, he, rfl⟩ := List.mem_map.1 hf
    obtain ⟨j, hij, hj, hej⟩ := (mem_rowEdges1 _ _ _ _).1 he
    rw [edgeTo1_eq _ _ _ _ hi hj] at hej
    split at hej
    · cases hej; exact hij
    · cases hej
  · intro j hj
    have h1 : (sonCount ns.size (edges1 K ns)).toArray.getD j 0 = sonsOf (edges1 K ns) j := by
      simp [sonCount, Array.getD_eq_getD_getElem?, List.getElem?_range hj]
    rw [h1, edges1, sonsOf_map]
    congr 1
    have : ∀ l : List Nat, (∀ i ∈ l, i < ns.size) →
        l.flatMap (fun i => (rowEdges1 K ns i).map (·.father)) = l.flatMap (fathers (edges1 K ns).toArray) := by
      intro l
      induction l with
      | nil => intro _; rfl
      | cons x xs ih =>
        intro h
        simp only [List.flatMap_cons]
        rw [ih (fun i hi => h i (List.mem_cons_of_mem _ hi)), hrow x (h x List.mem_cons_self)]
    exact this _ (fun i hi => List.mem_range.1 hi)

/-- `cleanSample` never reports `hang` -/
theorem cleanSample_ne_hang (K : Kernels) (cfg : Config) (sample : List Node) : cleanSample K cfg sample ≠ .hang := by
  unfold cleanSample finish
  simp only
  rw [(edges1_forward K (sortByCount sample).toArray).reweight_eq _ (by simp)]
  intro h
  cases h

/-! ## the sort is stable -/

theorem insertByCount_filter_ne (x : Node) (c : Nat) (hx : x.count ≠ c) (l : List Node) :
    (insertByCount x l).filter (fun y => y.count == c) = l.filter (fun y => y.count == c) := by
  have hxf : (x.count == c) = false := by simpa using hx
  induction l with
  | nil => simp [insertByCount, hxf]
  | cons y ys ih =>
    simp only [insertByCount]
    split
    · simp [List.filter_cons, hxf]
    · simp only [List.filter_cons, ih]

theorem insertByCount_filter_eq (x : Node) (l : List Node) (hs : l.Pairwise (fun a b => a.count ≤ b.count)) :
    (insertByCount x l).filter (fun y => y.count == x.count) = x :: l.filter (fun y => y.count == x.count) := by
  induction l with
  | nil => simp [insertByCount]
  | cons y ys ih =>
    simp only [insertByCount]
    split
    · simp [List.filter_cons]
    · rename_i hxy
      have hyf : (y.count == x.count) = false := by simp; omega
      simp only [List.filter_cons, hyf, Bool.false_eq_true, if_false]
      exact ih (List.pairwise_cons.1 hs).2

/-- stability: for every count `c`, the sequences of count `c` come out in their input order -/
theorem sortByCount_stable (l : List Node) (c : Nat) :
    (sortByCount l).filter (fun y => y.count == c) = l.filter (fun y => y.count == c) := by
  induction l with
  | nil => rfl
  | cons x xs ih =>
    show (insertByCount x (sortByCount xs)).filter _ = _
    by_cases hx : x.count = c
    · subst hx
      rw [insertByCount_filter_eq x _ (sortByCount_sorted xs), ih]
      simp
    · rw [insertByCount_filter_ne x c hx, ih]
      have hxf : (x.count == c) = false := by simpa using hx
      simp [hxf]

end ObiVerif.Clean
