import ObiVerif.Model.Header
import ObiVerif.Spec.JsonTok
/-! helper lemmas for property C02: the scanner invariant, folding, qualities, title split -/
namespace ObiVerif.Header
open ObiVerif.JsonTok

theorem scanLoop_nil (st : Scan) (i : Nat) : scanLoop st i [] = st := by
  unfold scanLoop; rfl

theorem scanLoop_cons (st : Scan) (i : Nat) (c : UInt8) (t : Bytes) :
    scanLoop st i (c :: t) =
      if st.stop ≥ 0 then st
      else if st.inquote = true ∧ c = 92 then
        match t with
        | [] => st
        | _ :: t' => scanLoop st (i + 2) t'
      else scanLoop (scanStep st i c) (i + 1) t := by
  conv => lhs; unfold scanLoop
  rfl

theorem scanLoop_stopped (st : Scan) (h : st.stop ≥ 0) (i : Nat) (l : Bytes) : scanLoop st i l = st := by
  cases l with
  | nil => exact scanLoop_nil _ _
  | cons c t => rw [scanLoop_cons]; simp [h]

theorem scan_body (s n : Nat) (hn : 1 ≤ n) (b rest : Bytes) (pos : Nat) (h : EscOK b) :
    scanLoop ⟨s, -1, n, true⟩ pos (b ++ 34 :: rest)
      = scanLoop ⟨s, -1, n, false⟩ (pos + b.length + 1) rest := by
  have h0 : n ≠ 0 := by omega
  have hs : (-1 : Int) < s := by omega
  induction h generalizing pos with
  | nil => simp [scanLoop_cons, scanStep, h0, hs]
  | esc c t _ ih =>
    simp only [List.cons_append, scanLoop_cons]
    simp only [ge_iff_le, Int.reduceNeg, Int.reduceLE, ↓reduceIte, and_self]
    rw [ih]; simp only [List.length_cons]; congr 1; omega
  | plain c t h1 h2 _ ih =>
    simp only [List.cons_append, scanLoop_cons, scanStep]
    simp [h1, h2, h0]
    rw [ih]; congr 1; omega

theorem flat_cons (t : Tok) (ts : List Tok) : flat (t :: ts) = t.flat ++ flat ts := by simp [flat]

theorem scan_tokens (s : Nat) (n : Nat) (hn : 1 ≤ n) (ts : List Tok) (rest : Bytes) (pos : Nat)
    (hok : ∀ t ∈ ts, t.ok) (hc : ClosesAt n ts) :
    scanLoop ⟨s, -1, n, false⟩ pos (flat ts ++ rest)
      = ⟨s, ((pos + (flat ts).length : Nat) : Int) - 1, 0, false⟩ := by
  have hs : (-1 : Int) < s := by omega
  induction ts generalizing n pos with
  | nil => simp [ClosesAt] at hc
  | cons t ts ih =>
    have hok' : ∀ t ∈ ts, t.ok := fun t ht => hok t (List.mem_cons_of_mem _ ht)
    have ht := hok t (by simp)
    have h0 : n ≠ 0 := by omega
    rw [flat_cons]
    cases t with
    | str b =>
      simp only [ClosesAt] at hc
      have e := ih n hn (pos + 1 + b.length + 1) hok' hc
      simp only [Tok.flat, List.cons_append, List.append_assoc, List.nil_append, scanLoop_cons, scanStep]
      simp [h0, hs]
      rw [scan_body s n hn b _ (pos + 1) ht, e]
      congr 1; omega
    | opn =>
      simp only [ClosesAt] at hc
      have e := ih (n + 1) (by omega) (pos + 1) hok' hc
      have ec : ((n + 1 : Nat) : Int) = (n : Int) + 1 := by omega
      have h1 : ¬ ((n : Int) + 1 = 0) := by omega
      rw [ec] at e
      simp only [Tok.flat, List.cons_append, List.nil_append, scanLoop_cons, scanStep]
      simp [h0, h1]
      rw [e]; congr 1; omega
    | cls =>
      simp only [ClosesAt] at hc
      simp only [Tok.flat, List.cons_append, List.nil_append, scanLoop_cons, scanStep]
      simp [h0]
      split at hc
      · rename_i h1; subst h1; subst hc
        simp [scanLoop_stopped, flat]
      · rename_i h1
        have e := ih (n - 1) (by omega) (pos + 1) hok' hc
        have ec : ((n - 1 : Nat) : Int) = (n : Int) - 1 := by omega
        have h2 : ¬ ((n : Int) - 1 = 0) := by omega
        rw [ec] at e
        simp [h2]
        rw [e]; congr 1; omega
    | other c =>
      simp only [ClosesAt] at hc
      obtain ⟨h1, h2, h3⟩ := ht
      have e := ih n hn (pos + 1) hok' hc
      simp only [Tok.flat, List.cons_append, List.nil_append, scanLoop_cons, scanStep]
      simp [h0, h1, h2, h3]
      rw [e]; congr 1; omega

theorem scan_finds_object_aux (ts : List Tok) (hb : BalancedObj ts) (rest : Bytes) :
    scanJson (flat ts ++ rest) = some (0, (flat ts).length) := by
  obtain ⟨body, rfl, hok, hc⟩ := hb
  have e := scan_tokens 0 1 (Nat.le_refl 1) body rest 1 hok hc
  rw [flat_cons]
  simp only [scanJson, Scan.init, Tok.flat, List.cons_append, List.nil_append, scanLoop_cons, scanStep]
  simp only [Int.natCast_zero, Int.natCast_one] at e
  simp
  rw [e]
  simp only
  omega

/-- the scanner as it was before the repair (every `"` toggles the quote state, escaped or not) —
    kept only to state the defect as a theorem -/
def scanLoopOld : Scan → Nat → Bytes → Scan
  | st, _, [] => st
  | st, i, c :: t => if st.stop ≥ 0 then st else scanLoopOld (scanStep st i c) (i + 1) t

def scanJsonOld (h : Bytes) : Option (Nat × Nat) :=
  let st := scanLoopOld Scan.init 0 h
  if st.start < 0 ∨ st.stop < 0 then none else some (st.start.toNat, st.stop.toNat + 1)

/-! ## bytes, qualities -/

theorem forall_uint8 (P : UInt8 → Prop) (h : ∀ n, n < 256 → P (UInt8.ofNat n)) : ∀ c, P c := fun c => by
  have := h c.toNat c.toNat_lt
  simpa using this

theorem clamp_eq_min (q : UInt8) : (if q > 93 then 93 else q) = min q 93 := by
  by_cases h : q > 93
  · have h' : ¬ q ≤ 93 := by simpa using h
    simp only [h, ↓reduceIte]
    exact Eq.symm (Std.LawfulOrderLeftLeaningMin.min_eq_right q 93 h')
  · have h' : q ≤ 93 := by simpa using h
    simp only [h, ↓reduceIte]
    exact Eq.symm (Std.LawfulOrderLeftLeaningMin.min_eq_left q 93 h')

set_option maxRecDepth 100000 in
theorem seqOK_spec : ∀ c : UInt8, seqOK c = true → isSep c = false ∧ lower c = c := by
  apply forall_uint8
  decide

/-! ## folding -/

theorem foldLinesF_nil (n : Nat) : foldLinesF n [] = [] := by cases n <;> simp [foldLinesF]

theorem foldLinesF_filter (n : Nat) (s : Bytes) (h : s.length ≤ n) :
    (foldLinesF n s).filter (fun c => !isSep c) = s.filter (fun c => !isSep c) := by
  induction n generalizing s with
  | zero =>
    have : s = [] := List.length_eq_zero_iff.mp (by omega)
    subst this; simp [foldLinesF]
  | succ n ih =>
    simp only [foldLinesF]
    split
    · rename_i h0; subst h0; simp
    · rename_i h0
      have hl : (s.drop 60).length ≤ n := by
        have : 0 < s.length := List.length_pos_iff.mpr h0
        simp only [List.length_drop]; omega
      have e10 : isSep 10 = true := by decide
      rw [List.filter_append, List.filter_cons, ih _ hl]
      simp only [e10, Bool.not_true, Bool.false_eq_true, ↓reduceIte]
      rw [← List.filter_append, List.take_append_drop]

theorem foldLinesF_ends (n : Nat) (s : Bytes) (h : s.length ≤ n) (h0 : s ≠ []) :
    ∃ x, foldLinesF n s = x ++ [10] := by
  induction n generalizing s with
  | zero =>
    have : s = [] := List.length_eq_zero_iff.mp (by omega)
    exact absurd this h0
  | succ n ih =>
    simp only [foldLinesF, h0, ↓reduceIte]
    by_cases hd : s.drop 60 = []
    · rw [hd, foldLinesF_nil]; exact ⟨s.take 60, rfl⟩
    · have hl : (s.drop 60).length ≤ n := by
        have : 0 < s.length := List.length_pos_iff.mpr h0
        simp only [List.length_drop]; omega
      obtain ⟨y, hy⟩ := ih _ hl hd
      rw [hy]; exact ⟨s.take 60 ++ 10 :: y, by simp⟩

theorem fold60_filter (s : Bytes) :
    (fold60 s).filter (fun c => !isSep c) = s.filter (fun c => !isSep c) := by
  unfold fold60
  split
  · rename_i h; subst h; rfl
  · rename_i h
    obtain ⟨x, hx⟩ := foldLinesF_ends s.length s (Nat.le_refl _) h
    have e := foldLinesF_filter s.length s (Nat.le_refl _)
    have e10 : isSep 10 = true := by decide
    unfold foldLines
    rw [hx] at e ⊢
    rw [List.dropLast_concat]
    rw [← e, List.filter_append]
    simp [e10]

theorem unfold_id (s : Bytes) (hA : ∀ c ∈ s, seqOK c = true) :
    (s.filter (fun c => !isSep c)).map lower = s := by
  induction s with
  | nil => rfl
  | cons c t ih =>
    have ⟨h1, h2⟩ := seqOK_spec c (hA c (by simp))
    have := ih (fun c hc => hA c (List.mem_cons_of_mem _ hc))
    simp [h1, h2, this]

/-! ## title line -/

theorem splitTitle_writeTitle (id info : Bytes) (hid : ∀ c ∈ id, isSep c = false)
    (hinfo : ∀ c, info.head? = some c → isSpace c = false) :
    splitTitle (writeTitle id info) = (id, info) := by
  have e32 : isSep 32 = true := by decide
  have s32 : isSpace 32 = true := by decide
  have hi : info.dropWhile isSpace = info := by
    cases info with
    | nil => rfl
    | cons c t => simp [hinfo c rfl]
  unfold splitTitle writeTitle
  induction id with
  | nil => simp [e32, s32, hi]
  | cons c t ih =>
    have hc := hid c (by simp)
    have := ih (fun c hc => hid c (List.mem_cons_of_mem _ hc))
    simp only [Prod.mk.injEq] at this
    simp [hc, this.1, this.2]

/-! ## the FASTA parser state machine on a written record -/

theorem isSep_false {c : UInt8} (h : isSep c = false) : isSpace c = false ∧ isEol c = false := by
  simp [isSep] at h; exact h

theorem isEol_isSep {c : UInt8} (h : isEol c = true) : isSep c = true := by simp [isSep, h]

theorem foldlM_cons_ok {σ : Type} (f : σ → UInt8 → Except Err σ) (st st' : σ) (c : UInt8) (t : Bytes)
    (h : f st c = .ok st') : List.foldlM f st (c :: t) = List.foldlM f st' t := by
  simp [List.foldlM_cons, h]
  rfl

/-- FASTA state 2: the identifier is accumulated up to the first separator -/
theorem fa_id (w rest : Bytes) (hw : ∀ c ∈ w, isSep c = false)
    (idB dB sB qB ident defn : Bytes) (prev : UInt8) (out : List Rec) :
    ∃ p, List.foldlM faStep ⟨2, idB, dB, sB, qB, ident, defn, prev, out⟩ (w ++ rest)
       = List.foldlM faStep ⟨2, idB ++ w, dB, sB, qB, ident, defn, p, out⟩ rest := by
  induction w generalizing idB prev with
  | nil => exact ⟨prev, by simp⟩
  | cons c t ih =>
    have hc := hw c (by simp)
    obtain ⟨h1, h2⟩ := isSep_false hc
    obtain ⟨p, hp⟩ := ih (fun c h => hw c (List.mem_cons_of_mem _ h)) (idB ++ [c]) c
    refine ⟨p, ?_⟩
    rw [List.cons_append, foldlM_cons_ok faStep _ ⟨2, idB ++ [c], dB, sB, qB, ident, defn, c, out⟩]
    · rw [hp]; simp
    · simp [faStep, hc, h2]

/-- FASTA state 4: the definition is accumulated up to the end of the line -/
theorem fa_def (w rest : Bytes) (hw : ∀ c ∈ w, isEol c = false)
    (idB dB sB qB ident defn : Bytes) (prev : UInt8) (out : List Rec) :
    ∃ p, List.foldlM faStep ⟨4, idB, dB, sB, qB, ident, defn, prev, out⟩ (w ++ rest)
       = List.foldlM faStep ⟨4, idB, dB ++ w, sB, qB, ident, defn, p, out⟩ rest := by
  induction w generalizing dB prev with
  | nil => exact ⟨prev, by simp⟩
  | cons c t ih =>
    have hc := hw c (by simp)
    obtain ⟨p, hp⟩ := ih (fun c h => hw c (List.mem_cons_of_mem _ h)) (dB ++ [c]) c
    refine ⟨p, ?_⟩
    rw [List.cons_append, foldlM_cons_ok faStep _ ⟨4, idB, dB ++ [c], sB, qB, ident, defn, c, out⟩]
    · rw [hp]; simp
    · simp [faStep, hc]

/-- FASTA state 6: sequence lines are accumulated, separators dropped -/
theorem fa_seq (w : Bytes) (hw : ∀ c ∈ w, isSep c = true ∨ seqOK c = true)
    (idB dB sB qB ident defn : Bytes) (prev : UInt8) (out : List Rec) :
    ∃ p, List.foldlM faStep ⟨6, idB, dB, sB, qB, ident, defn, prev, out⟩ w
       = .ok ⟨6, idB, dB, sB ++ (w.filter (fun c => !isSep c)).map lower, qB, ident, defn, p, out⟩ := by
  induction w generalizing sB prev with
  | nil => exact ⟨prev, by simp; rfl⟩
  | cons c t ih =>
    have ht := fun c h => hw c (List.mem_cons_of_mem _ h)
    have h62s : isSep 62 = false := by decide
    have h62o : seqOK 62 = false := by decide
    have hne : c ≠ 62 := by
      intro e; subst e
      rcases hw 62 (by simp) with h | h
      · rw [h62s] at h; cases h
      · rw [h62o] at h; cases h
    rcases hw c (by simp) with hc | hc
    · obtain ⟨p, hp⟩ := ih ht sB c
      refine ⟨p, ?_⟩
      rw [foldlM_cons_ok faStep _ ⟨6, idB, dB, sB, qB, ident, defn, c, out⟩]
      · rw [hp]; simp [hc]
      · simp [faStep, hc, hne]
    · obtain ⟨h1, h2⟩ := seqOK_spec c hc
      obtain ⟨p, hp⟩ := ih ht (sB ++ [c]) c
      refine ⟨p, ?_⟩
      rw [foldlM_cons_ok faStep _ ⟨6, idB, dB, sB ++ [c], qB, ident, defn, c, out⟩]
      · rw [hp]; simp [h1, h2]
      · simp [faStep, h1, h2, hc, hne]

/-- from state 3 (after the identifier and one blank) over `info ++ "\n"` : state 5 with the definition = info -/
theorem fa_title (info rest : Bytes) (hinfo : ∀ c ∈ info, isEol c = false)
    (hhead : ∀ c, info.head? = some c → isSpace c = false)
    (idB dB sB qB ident defn : Bytes) (prev : UInt8) (out : List Rec) :
    ∃ p d, List.foldlM faStep ⟨3, idB, dB, sB, qB, ident, defn, prev, out⟩ (info ++ 10 :: rest)
       = List.foldlM faStep ⟨5, idB, d, sB, qB, ident, info, p, out⟩ rest := by
  have e10 : isEol 10 = true := by decide
  cases info with
  | nil =>
    refine ⟨10, dB, ?_⟩
    rw [List.nil_append, foldlM_cons_ok faStep _ ⟨5, idB, dB, sB, qB, ident, [], 10, out⟩]
    simp [faStep, e10]
  | cons c t =>
    have hc := hinfo c (by simp)
    have hs := hhead c rfl
    obtain ⟨p, hp⟩ := fa_def t (10 :: rest) (fun c h => hinfo c (List.mem_cons_of_mem _ h)) idB [c] sB qB ident defn c out
    refine ⟨10, c :: t, ?_⟩
    rw [List.cons_append, foldlM_cons_ok faStep _ ⟨4, idB, [c], sB, qB, ident, defn, c, out⟩]
    · rw [hp, foldlM_cons_ok faStep _ ⟨5, idB, c :: t, sB, qB, ident, c :: t, 10, out⟩]
      simp [faStep, e10]
    · simp [faStep, hc, hs]


theorem mem_foldLinesF (n : Nat) (s : Bytes) (c : UInt8) (h : c ∈ foldLinesF n s) : c = 10 ∨ c ∈ s := by
  induction n generalizing s with
  | zero => simp [foldLinesF] at h
  | succ n ih =>
    simp only [foldLinesF] at h
    split at h
    · simp at h
    · simp only [List.mem_append, List.mem_cons] at h
      rcases h with h | h | h
      · exact Or.inr (List.mem_of_mem_take h)
      · exact Or.inl h
      · rcases ih _ h with h | h
        · exact Or.inl h
        · exact Or.inr (List.mem_of_mem_drop h)

theorem fold60_cons (s0 : UInt8) (t : Bytes) :
    ∃ r, fold60 (s0 :: t) = s0 :: r ∧ ∀ c ∈ r, c = 10 ∨ c ∈ s0 :: t := by
  have hne : t.take 59 ++ 10 :: foldLinesF t.length ((s0 :: t).drop 60) ≠ [] := by simp
  refine ⟨(t.take 59 ++ 10 :: foldLinesF t.length ((s0 :: t).drop 60)).dropLast, ?_, ?_⟩
  · simp only [fold60, foldLines, List.length_cons, foldLinesF]
    simp only [reduceCtorEq, ↓reduceIte, List.take_succ_cons, List.cons_append]
    rw [List.dropLast_cons_of_ne_nil hne]
  · intro c hc
    have hc := List.dropLast_subset _ hc
    simp only [List.mem_append, List.mem_cons] at hc
    rcases hc with h | h | h
    · exact Or.inr (List.mem_cons_of_mem _ (List.mem_of_mem_take h))
    · exact Or.inl h
    · rcases mem_foldLinesF _ _ _ h with h | h
      · exact Or.inl h
      · exact Or.inr (List.mem_of_mem_drop h)

/-- **FASTA write then parse** (the real state machine): one record written by `FormatFastaBatch` is parsed back
    as the same identifier, title remainder and sequence -/
theorem parseFasta_formatFasta (id info seq : Bytes)
    (hid0 : id ≠ []) (hid : ∀ c ∈ id, isSep c = false)
    (hinfo : ∀ c ∈ info, isEol c = false) (hhead : ∀ c, info.head? = some c → isSpace c = false)
    (hseq0 : seq ≠ []) (hseq : ∀ c ∈ seq, seqOK c = true) :
    parseFasta (formatFasta id info seq ++ [10]) = .ok [⟨id, info, seq, none⟩] := by
  cases id with
  | nil => exact absurd rfl hid0
  | cons i0 id' =>
  cases seq with
  | nil => exact absurd rfl hseq0
  | cons s0 seq' =>
  have hi0 := hid i0 (by simp)
  obtain ⟨hi0s, hi0e⟩ := isSep_false hi0
  have hne32 : i0 ≠ 32 := by intro e; subst e; revert hi0; decide
  obtain ⟨r, hr, hrm⟩ := fold60_cons s0 seq'
  obtain ⟨hs0sep, hs0low⟩ := seqOK_spec s0 (hseq s0 (by simp))
  obtain ⟨_, hs0e⟩ := isSep_false hs0sep
  have e32s : isSep 32 = true := by decide
  have e32e : isEol 32 = false := by decide
  -- the text
  have htext : formatFasta (i0 :: id') info (s0 :: seq') ++ [10]
      = 62 :: i0 :: (id' ++ 32 :: (info ++ 10 :: s0 :: (r ++ [10]))) := by
    simp [formatFasta, hr]
  rw [htext]
  simp only [parseFasta, ne_eq, not_true_eq_false, ↓reduceIte, hne32]
  -- run the machine
  rw [foldlM_cons_ok faStep _ ⟨1, [], [], [], [], [], [], 62, []⟩ _ _ (by simp [faStep])]
  rw [foldlM_cons_ok faStep _ ⟨2, [i0], [], [], [], [], [], i0, []⟩ _ _ (by simp [faStep, hi0])]
  obtain ⟨p1, h1⟩ := fa_id id' (32 :: (info ++ 10 :: s0 :: (r ++ [10])))
    (fun c h => hid c (List.mem_cons_of_mem _ h)) [i0] [] [] [] [] [] i0 []
  rw [h1]
  rw [foldlM_cons_ok faStep _ ⟨3, [], [], [], [], i0 :: id', [], 32, []⟩ _ _ (by simp [faStep, e32s, e32e])]
  obtain ⟨p2, d2, h2⟩ := fa_title info (s0 :: (r ++ [10])) hinfo hhead [] [] [] [] (i0 :: id') [] 32 []
  rw [h2]
  rw [foldlM_cons_ok faStep _ ⟨6, [], d2, [s0], [], i0 :: id', info, s0, []⟩ _ _
    (by simp [faStep, hs0e, hs0low, hseq s0 (by simp)])]
  have hrw : ∀ c ∈ r ++ [10], isSep c = true ∨ seqOK c = true := by
    intro c hc
    simp only [List.mem_append, List.mem_singleton] at hc
    rcases hc with hc | hc
    · rcases hrm c hc with h | h
      · subst h; exact Or.inl (by decide)
      · exact Or.inr (hseq c h)
    · subst hc; exact Or.inl (by decide)
  obtain ⟨p3, h3⟩ := fa_seq (r ++ [10]) hrw [] d2 [s0] [] (i0 :: id') info s0 []
  rw [h3]
  -- the sequence collected is the sequence written
  have hf := fold60_filter (s0 :: seq')
  rw [hr] at hf
  have hseq' : ∀ c ∈ seq', seqOK c = true := fun c h => hseq c (List.mem_cons_of_mem _ h)
  have hf2 : (List.filter (fun c => !isSep c) (r ++ [10])).map lower = seq' := by
    have e10 : isSep 10 = true := by decide
    simp only [List.filter_cons, hs0sep, Bool.not_false, ↓reduceIte, List.cons.injEq, true_and] at hf
    rw [List.filter_append, hf]
    simp only [List.filter_cons, e10, Bool.not_true, Bool.false_eq_true, ↓reduceIte, List.filter_nil,
      List.append_nil]
    exact unfold_id seq' hseq'
  rw [hf2]
  simp
  rfl

/-! ## the FASTQ parser state machine on a written record -/

theorem fq_id (sh : UInt8) (w rest : Bytes) (hw : ∀ c ∈ w, isSep c = false)
    (idB dB sB qB ident defn : Bytes) (prev : UInt8) (out : List Rec) :
    ∃ p, List.foldlM (fqStep sh true) ⟨2, idB, dB, sB, qB, ident, defn, prev, out⟩ (w ++ rest)
       = List.foldlM (fqStep sh true) ⟨2, idB ++ w, dB, sB, qB, ident, defn, p, out⟩ rest := by
  induction w generalizing idB prev with
  | nil => exact ⟨prev, by simp⟩
  | cons c t ih =>
    have hc := hw c (by simp)
    obtain ⟨h1, h2⟩ := isSep_false hc
    obtain ⟨p, hp⟩ := ih (fun c h => hw c (List.mem_cons_of_mem _ h)) (idB ++ [c]) c
    refine ⟨p, ?_⟩
    rw [List.cons_append, foldlM_cons_ok (fqStep sh true) _ ⟨2, idB ++ [c], dB, sB, qB, ident, defn, c, out⟩]
    · rw [hp]; simp
    · simp [fqStep, hc, h2]

theorem fq_def (sh : UInt8) (w rest : Bytes) (hw : ∀ c ∈ w, isEol c = false)
    (idB dB sB qB ident defn : Bytes) (prev : UInt8) (out : List Rec) :
    ∃ p, List.foldlM (fqStep sh true) ⟨4, idB, dB, sB, qB, ident, defn, prev, out⟩ (w ++ rest)
       = List.foldlM (fqStep sh true) ⟨4, idB, dB ++ w, sB, qB, ident, defn, p, out⟩ rest := by
  induction w generalizing dB prev with
  | nil => exact ⟨prev, by simp⟩
  | cons c t ih =>
    have hc := hw c (by simp)
    obtain ⟨p, hp⟩ := ih (fun c h => hw c (List.mem_cons_of_mem _ h)) (dB ++ [c]) c
    refine ⟨p, ?_⟩
    rw [List.cons_append, foldlM_cons_ok (fqStep sh true) _ ⟨4, idB, dB ++ [c], sB, qB, ident, defn, c, out⟩]
    · rw [hp]; simp
    · simp [fqStep, hc]

theorem fq_title (sh : UInt8) (info rest : Bytes) (hinfo : ∀ c ∈ info, isEol c = false)
    (hhead : ∀ c, info.head? = some c → isSpace c = false)
    (idB dB sB qB ident defn : Bytes) (prev : UInt8) (out : List Rec) :
    ∃ p d, List.foldlM (fqStep sh true) ⟨3, idB, dB, sB, qB, ident, defn, prev, out⟩ (info ++ 10 :: rest)
       = List.foldlM (fqStep sh true) ⟨5, idB, d, sB, qB, ident, info, p, out⟩ rest := by
  have e10 : isEol 10 = true := by decide
  cases info with
  | nil =>
    refine ⟨10, dB, ?_⟩
    rw [List.nil_append, foldlM_cons_ok (fqStep sh true) _ ⟨5, idB, dB, sB, qB, ident, [], 10, out⟩]
    simp [fqStep, e10]
  | cons c t =>
    have hc := hinfo c (by simp)
    have hs := hhead c rfl
    obtain ⟨p, hp⟩ := fq_def sh t (10 :: rest) (fun c h => hinfo c (List.mem_cons_of_mem _ h)) idB [c] sB qB ident defn c out
    refine ⟨10, c :: t, ?_⟩
    rw [List.cons_append, foldlM_cons_ok (fqStep sh true) _ ⟨4, idB, [c], sB, qB, ident, defn, c, out⟩]
    · rw [hp, foldlM_cons_ok (fqStep sh true) _ ⟨5, idB, c :: t, sB, qB, ident, c :: t, 10, out⟩]
      simp [fqStep, e10]
    · simp [fqStep, hc, hs]

/-- FASTQ state 6: the sequence line -/
theorem fq_seq (sh : UInt8) (w rest : Bytes) (hw : ∀ c ∈ w, seqOK c = true)
    (idB dB sB qB ident defn : Bytes) (prev : UInt8) (out : List Rec) :
    ∃ p, List.foldlM (fqStep sh true) ⟨6, idB, dB, sB, qB, ident, defn, prev, out⟩ (w ++ rest)
       = List.foldlM (fqStep sh true) ⟨6, idB, dB, sB ++ w, qB, ident, defn, p, out⟩ rest := by
  induction w generalizing sB prev with
  | nil => exact ⟨prev, by simp⟩
  | cons c t ih =>
    have hc := hw c (by simp)
    obtain ⟨h1, h2⟩ := seqOK_spec c hc
    obtain ⟨_, h3⟩ := isSep_false h1
    obtain ⟨p, hp⟩ := ih (fun c h => hw c (List.mem_cons_of_mem _ h)) (sB ++ [c]) c
    refine ⟨p, ?_⟩
    rw [List.cons_append, foldlM_cons_ok (fqStep sh true) _ ⟨6, idB, dB, sB ++ [c], qB, ident, defn, c, out⟩]
    · rw [hp]; simp
    · simp [fqStep, hc, h2, h3]

/-- FASTQ state 10: the quality line -/
theorem fq_qual (sh : UInt8) (w rest : Bytes) (hw : ∀ c ∈ w, isEol c = false)
    (idB dB sB qB ident defn : Bytes) (prev : UInt8) (out : List Rec) :
    ∃ p, List.foldlM (fqStep sh true) ⟨10, idB, dB, sB, qB, ident, defn, prev, out⟩ (w ++ rest)
       = List.foldlM (fqStep sh true) ⟨10, idB, dB, sB, qB ++ w, ident, defn, p, out⟩ rest := by
  induction w generalizing qB prev with
  | nil => exact ⟨prev, by simp⟩
  | cons c t ih =>
    have hc := hw c (by simp)
    obtain ⟨p, hp⟩ := ih (fun c h => hw c (List.mem_cons_of_mem _ h)) (qB ++ [c]) c
    refine ⟨p, ?_⟩
    rw [List.cons_append, foldlM_cons_ok (fqStep sh true) _ ⟨10, idB, dB, sB, qB ++ [c], ident, defn, c, out⟩]
    · rw [hp]; simp
    · simp [fqStep, hc]

/-- **FASTQ write then parse** (the real state machine) -/
theorem parseFastq_formatFastq (so si : UInt8) (id info seq : Bytes) (q : Option Bytes)
    (hid0 : id ≠ []) (hid : ∀ c ∈ id, isSep c = false)
    (hinfo : ∀ c ∈ info, isEol c = false) (hhead : ∀ c, info.head? = some c → isSpace c = false)
    (hseq0 : seq ≠ []) (hseq : ∀ c ∈ seq, seqOK c = true)
    (hql : (qualities seq q).length = seq.length)
    (hqe : ∀ c ∈ (qualities seq q).map (writeQ so), isEol c = false) :
    parseFastq si true (formatFastq so id info seq q)
      = .ok [⟨id, info, seq, some (((qualities seq q).map (writeQ so)).map (readQ si))⟩] := by
  generalize hQ : (qualities seq q).map (writeQ so) = Q at hqe ⊢
  have hQl : Q.length = seq.length := by rw [← hQ, List.length_map, hql]
  cases id with
  | nil => exact absurd rfl hid0
  | cons i0 id' =>
  cases seq with
  | nil => exact absurd rfl hseq0
  | cons s0 seq' =>
  cases Q with
  | nil => simp at hQl
  | cons q0 Q' =>
  have hi0 := hid i0 (by simp)
  obtain ⟨hs0sep, hs0low⟩ := seqOK_spec s0 (hseq s0 (by simp))
  obtain ⟨_, hs0e⟩ := isSep_false hs0sep
  have e32s : isSep 32 = true := by decide
  have e32e : isEol 32 = false := by decide
  have e10 : isEol 10 = true := by decide
  have e43 : isEol 43 = false := by decide
  have hq0 := hqe q0 (by simp)
  have htext : formatFastq so (i0 :: id') info (s0 :: seq') q
      = 64 :: i0 :: (id' ++ 32 :: (info ++ 10 :: s0 :: (seq' ++ 10 :: 43 :: 10 :: q0 :: (Q' ++ [10])))) := by
    simp [formatFastq, hQ]
  rw [htext]
  simp only [parseFastq]
  rw [foldlM_cons_ok (fqStep si true) _ ⟨1, [], [], [], [], [], [], 64, []⟩ _ _ (by simp [fqStep])]
  rw [foldlM_cons_ok (fqStep si true) _ ⟨2, [i0], [], [], [], [], [], i0, []⟩ _ _ (by simp [fqStep, hi0])]
  obtain ⟨p1, h1⟩ := fq_id si id' (32 :: (info ++ 10 :: s0 :: (seq' ++ 10 :: 43 :: 10 :: q0 :: (Q' ++ [10]))))
    (fun c h => hid c (List.mem_cons_of_mem _ h)) [i0] [] [] [] [] [] i0 []
  rw [h1]
  rw [foldlM_cons_ok (fqStep si true) _ ⟨3, [i0] ++ id', [], [], [], i0 :: id', [], 32, []⟩ _ _
    (by simp [fqStep, e32s, e32e])]
  obtain ⟨p2, d2, h2⟩ := fq_title si info (s0 :: (seq' ++ 10 :: 43 :: 10 :: q0 :: (Q' ++ [10]))) hinfo hhead
    ([i0] ++ id') [] [] [] (i0 :: id') [] 32 []
  rw [h2]
  rw [foldlM_cons_ok (fqStep si true) _ ⟨6, [i0] ++ id', d2, [s0], [], i0 :: id', info, s0, []⟩ _ _
    (by simp [fqStep, hs0e, hs0low])]
  obtain ⟨p3, h3⟩ := fq_seq si seq' (10 :: 43 :: 10 :: q0 :: (Q' ++ [10]))
    (fun c h => hseq c (List.mem_cons_of_mem _ h)) ([i0] ++ id') d2 [s0] [] (i0 :: id') info s0 []
  rw [h3]
  rw [foldlM_cons_ok (fqStep si true) _
    ⟨7, [i0] ++ id', d2, [s0] ++ seq', [], i0 :: id', info, 10, [⟨i0 :: id', info, [s0] ++ seq', none⟩]⟩ _ _
    (by simp [fqStep, e10])]
  rw [foldlM_cons_ok (fqStep si true) _
    ⟨8, [i0] ++ id', d2, [s0] ++ seq', [], i0 :: id', info, 43, [⟨i0 :: id', info, [s0] ++ seq', none⟩]⟩ _ _
    (by simp [fqStep, e43])]
  rw [foldlM_cons_ok (fqStep si true) _
    ⟨9, [i0] ++ id', d2, [s0] ++ seq', [], i0 :: id', info, 10, [⟨i0 :: id', info, [s0] ++ seq', none⟩]⟩ _ _
    (by simp [fqStep, e10])]
  rw [foldlM_cons_ok (fqStep si true) _
    ⟨10, [i0] ++ id', d2, [s0] ++ seq', [q0], i0 :: id', info, q0, [⟨i0 :: id', info, [s0] ++ seq', none⟩]⟩ _ _
    (by simp [fqStep, hq0])]
  obtain ⟨p4, h4⟩ := fq_qual si Q' [10] (fun c h => hqe c (List.mem_cons_of_mem _ h))
    ([i0] ++ id') d2 ([s0] ++ seq') [q0] (i0 :: id') info q0 [⟨i0 :: id', info, [s0] ++ seq', none⟩]
  rw [h4]
  have hlen : ([q0] ++ Q').length = ([s0] ++ seq').length := by simpa using hQl
  rw [foldlM_cons_ok (fqStep si true) _
    ⟨11, [i0] ++ id', d2, [s0] ++ seq', [q0] ++ Q', i0 :: id', info, 10,
      [⟨i0 :: id', info, [s0] ++ seq', some (([q0] ++ Q').map (readQ si))⟩]⟩ _ _
    (by
      have hl' : Q'.length = seq'.length := by simpa using hQl
      simp [fqStep, e10, storeQ, hl']
      rfl)]
  simp
  rfl

/-! ## the JSON library contract and the header round trip -/

/-- the contract of the JSON library assumed by the round-trip theorems, for one annotation value `p`
    (validated by the harness on every generated annotation map, not proved) -/
structure JsonLib.OKat {α : Type} (J : JsonLib α) (p : α × Option Bytes) : Prop where
  /-- the encoder emits one balanced object whose string bodies are properly escaped -/
  balanced : ∃ ts, J.marshal p = flat ts ∧ BalancedObj ts
  /-- … on one line -/
  oneLine : ∀ c ∈ J.marshal p, isEol c = false
  /-- decoding what was encoded gives the same annotations (numbers by value) -/
  roundtrip : J.unmarshal (J.marshal p) = some p

/-- the contract for every annotation value -/
def JsonLib.OK {α : Type} (J : JsonLib α) : Prop := ∀ p, J.OKat p

theorem trimSpace_nil : trimSpace [] = [] := by decide

theorem scanJson_nil : scanJson [] = none := by decide

theorem header_roundtrip_aux {α : Type} [DecidableEq α] (J : JsonLib α) (ann : α) (defn : Option Bytes) (hJ : J.OKat (ann, defn)) :
    parseFastSeqJsonHeader J.empty (J.lib (info J ann defn)) (info J ann defn) = some ⟨ann, defn⟩ := by
  unfold info
  split
  · rename_i h
    obtain ⟨h1, h2⟩ := h
    simp [parseFastSeqJsonHeader, parseJsonHeader, scanJson_nil, h1, h2]
  · obtain ⟨ts, hts, hb⟩ := hJ.balanced
    have hs := scan_finds_object_aux ts hb []
    rw [List.append_nil, ← hts] at hs
    have hl : J.lib (J.marshal (ann, defn)) 0 (J.marshal (ann, defn)).length = some (ann, defn) := by
      simp [JsonLib.lib, hJ.roundtrip]
    simp [parseFastSeqJsonHeader, parseJsonHeader, hs, hl, trimSpace_nil]

theorem info_head {α : Type} [DecidableEq α] (J : JsonLib α) (ann : α) (defn : Option Bytes) (hJ : J.OKat (ann, defn)) :
    ∀ c, (info J ann defn).head? = some c → isSpace c = false := by
  intro c hc
  unfold info at hc
  split at hc
  · simp at hc
  · obtain ⟨ts, hts, body, rfl, _, _⟩ := hJ.balanced
    rw [hts, flat_cons] at hc
    simp [Tok.flat] at hc
    subst hc; decide

theorem info_oneLine {α : Type} [DecidableEq α] (J : JsonLib α) (ann : α) (defn : Option Bytes) (hJ : J.OKat (ann, defn)) :
    ∀ c ∈ info J ann defn, isEol c = false := by
  intro c hc
  unfold info at hc
  split at hc
  · simp at hc
  · exact hJ.oneLine c hc

/-! ## whole records -/

/-- a quality offset under which no written quality byte is an end of line (what the FASTQ round trip needs) -/
def ShiftOK (sh : UInt8) : Prop := ∀ q : UInt8, isEol (writeQ sh q) = false

set_option maxRecDepth 100000 in
theorem shiftOK_33_64 (sh : UInt8) (h : sh = 33 ∨ sh = 64) : ShiftOK sh := by
  intro q
  rcases h with rfl | rfl
  · revert q; apply forall_uint8; decide
  · revert q; apply forall_uint8; decide

theorem writeQ_noEol (sh : UInt8) (h : ShiftOK sh) (q : UInt8) : isEol (writeQ sh q) = false := h q

/-- every offset from 14 to 172 is fine: the written byte `min q 93 + sh` (mod 256) is never 10 or 13 -/
theorem shiftOK_range (sh : UInt8) (h1 : 14 ≤ sh) (h2 : sh ≤ 172) : ShiftOK sh := by
  intro q
  have hx : (min q 93).toNat ≤ 93 := by
    have : min q 93 ≤ 93 := by
      by_cases h : q ≤ 93
      · rw [Std.LawfulOrderLeftLeaningMin.min_eq_left q 93 h]; exact h
      · rw [Std.LawfulOrderLeftLeaningMin.min_eq_right q 93 h]; exact UInt8.le_refl _
    exact UInt8.le_iff_toNat_le.mp this
  have h1' : 14 ≤ sh.toNat := UInt8.le_iff_toNat_le.mp h1
  have h2' : sh.toNat ≤ 172 := UInt8.le_iff_toNat_le.mp h2
  simp only [writeQ, clamp_eq_min, isEol]
  have hn : (min q 93 + sh).toNat = ((min q 93).toNat + sh.toNat) % 256 := UInt8.toNat_add _ _
  have a : (min q 93 + sh) ≠ 13 := by
    intro e; have := congrArg UInt8.toNat e; rw [hn] at this; simp at this; omega
  have b : (min q 93 + sh) ≠ 10 := by
    intro e; have := congrArg UInt8.toNat e; rw [hn] at this; simp at this; omega
  simp [a, b]

/-- the quality value `≤ 93` whose written byte is an end of line when the offset is outside 14..172 -/
def badQ (sh : UInt8) : UInt8 := if sh ≤ 10 then 10 - sh else if sh ≤ 13 then 13 - sh else 10 - sh

set_option maxRecDepth 100000 in
/-- … and outside that range some quality value of the stated range 0..93 is written as an end of line -/
theorem shift_bad : ∀ sh : UInt8, ¬ (14 ≤ sh ∧ sh ≤ 172) → badQ sh ≤ 93 ∧ isEol (writeQ sh (badQ sh)) = true := by
  apply forall_uint8; decide

set_option maxRecDepth 100000 in
theorem writeQ_clamp (sh q : UInt8) : writeQ sh (min q 93) = writeQ sh q := by
  have : ∀ q : UInt8, (if min q 93 > 93 then 93 else min q 93) = (if q > 93 then (93 : UInt8) else q) := by
    apply forall_uint8; decide
  simp only [writeQ, this]

/-- well-formed record (the quantifier of the property): identifier non-empty without blank,
    sequence non-empty over the parser alphabet (lower case, as `SetSequence` stores it) -/
structure WF {α : Type} (r : Record α) : Prop where
  id_ne : r.id ≠ []
  id_noBlank : ∀ c ∈ r.id, isSep c = false
  seq_ne : r.seq ≠ []
  seq_ok : ∀ c ∈ r.seq, seqOK c = true

theorem write_read_fasta_aux {α : Type} [DecidableEq α] (J : JsonLib α) (r : Record α) (hJ : J.OKat (r.ann, r.defn)) (h : WF r) :
    readFasta J (writeFasta J r) = some [{ r with qual := none }] := by
  unfold readFasta writeFasta
  rw [parseFasta_formatFasta r.id _ r.seq h.id_ne h.id_noBlank (info_oneLine J _ _ hJ) (info_head J _ _ hJ)
    h.seq_ne h.seq_ok]
  simp [readRec, header_roundtrip_aux J _ _ hJ]

theorem write_read_fastq_aux {α : Type} [DecidableEq α] (J : JsonLib α) (sh : UInt8)
    (hsh : ShiftOK sh) (r : Record α) (hJ : J.OKat (r.ann, r.defn)) (h : WF r)
    (hq : (qualities r.seq r.qual).length = r.seq.length) :
    readFastq J sh (writeFastq J sh r)
      = some [{ r with qual := some ((qualities r.seq r.qual).map (fun q => min q 93)) }] := by
  unfold readFastq writeFastq
  rw [parseFastq_formatFastq sh sh r.id _ r.seq r.qual h.id_ne h.id_noBlank (info_oneLine J _ _ hJ)
    (info_head J _ _ hJ) h.seq_ne h.seq_ok hq
    (by intro c hc; simp only [List.mem_map] at hc; obtain ⟨q, _, rfl⟩ := hc; exact writeQ_noEol sh hsh q)]
  have hm : ((qualities r.seq r.qual).map (writeQ sh)).map (readQ sh)
      = (qualities r.seq r.qual).map (fun q => min q 93) := by
    rw [List.map_map]
    apply List.map_congr_left
    intro q _
    simp only [Function.comp, readQ, writeQ]
    rw [UInt8.add_sub_cancel, clamp_eq_min]
  simp [readRec, header_roundtrip_aux J _ _ hJ, hm]

theorem qualities_some (s Q : Bytes) (h : Q ≠ []) : qualities s (some Q) = Q := by
  simp [qualities, h]

theorem write_fastq_clamped {α : Type} [DecidableEq α] (J : JsonLib α) (sh : UInt8) (r : Record α)
    (hne : r.seq ≠ []) (hq : (qualities r.seq r.qual).length = r.seq.length) :
    writeFastq J sh { r with qual := some ((qualities r.seq r.qual).map (fun q => min q 93)) }
      = writeFastq J sh r := by
  have hQ : (qualities r.seq r.qual).map (fun q => min q 93) ≠ [] := by
    intro e
    have := congrArg List.length e
    simp only [List.length_map, hq, List.length_nil] at this
    exact hne (List.length_eq_zero_iff.mp this)
  have e : qualities r.seq (some ((qualities r.seq r.qual).map (fun q => min q 93)))
      = (qualities r.seq r.qual).map (fun q => min q 93) := qualities_some _ _ hQ
  simp only [writeFastq, formatFastq, e, List.map_map]
  have : (writeQ sh ∘ fun q => min q 93) = writeQ sh := by
    funext q; exact writeQ_clamp sh q
  rw [this]

/-! ## FASTA: any number of records -/

/-- FASTA state 6 with a continuation -/
theorem fa_seq_rest (w rest : Bytes) (hw : ∀ c ∈ w, isSep c = true ∨ seqOK c = true)
    (idB dB sB qB ident defn : Bytes) (prev : UInt8) (out : List Rec) :
    ∃ p, List.foldlM faStep ⟨6, idB, dB, sB, qB, ident, defn, prev, out⟩ (w ++ rest)
       = List.foldlM faStep ⟨6, idB, dB, sB ++ (w.filter (fun c => !isSep c)).map lower, qB, ident, defn, p, out⟩ rest := by
  induction w generalizing sB prev with
  | nil => exact ⟨prev, by simp⟩
  | cons c t ih =>
    have ht := fun c h => hw c (List.mem_cons_of_mem _ h)
    have h62s : isSep 62 = false := by decide
    have h62o : seqOK 62 = false := by decide
    have hne : c ≠ 62 := by
      intro e; subst e
      rcases hw 62 (by simp) with h | h
      · rw [h62s] at h; cases h
      · rw [h62o] at h; cases h
    rcases hw c (by simp) with hc | hc
    · obtain ⟨p, hp⟩ := ih ht sB c
      refine ⟨p, ?_⟩
      rw [List.cons_append, foldlM_cons_ok faStep _ ⟨6, idB, dB, sB, qB, ident, defn, c, out⟩]
      · rw [hp]; simp [hc]
      · simp [faStep, hc, hne]
    · obtain ⟨h1, h2⟩ := seqOK_spec c hc
      obtain ⟨p, hp⟩ := ih ht (sB ++ [c]) c
      refine ⟨p, ?_⟩
      rw [List.cons_append, foldlM_cons_ok faStep _ ⟨6, idB, dB, sB ++ [c], qB, ident, defn, c, out⟩]
      · rw [hp]; simp [h1, h2]
      · simp [faStep, h1, h2, hc, hne]

/-- the text of one FASTA record after its leading `>` (as `FormatFastaBatch` prints it) -/
def faBody (id info seq : Bytes) : Bytes := id ++ 32 :: (info ++ 10 :: (fold60 seq ++ [10]))

theorem formatFasta_eq (id info seq : Bytes) : formatFasta id info seq ++ [10] = 62 :: faBody id info seq := by
  simp [formatFasta, faBody]

/-- one written record drives the FASTA machine from state 1 to state 6 with the record pending -/
theorem fa_record (id info seq rest : Bytes)
    (hid0 : id ≠ []) (hid : ∀ c ∈ id, isSep c = false)
    (hinfo : ∀ c ∈ info, isEol c = false) (hhead : ∀ c, info.head? = some c → isSpace c = false)
    (hseq0 : seq ≠ []) (hseq : ∀ c ∈ seq, seqOK c = true)
    (idB dB sB qB ident defn : Bytes) (prev : UInt8) (out : List Rec) :
    ∃ d, List.foldlM faStep ⟨1, idB, dB, sB, qB, ident, defn, prev, out⟩ (faBody id info seq ++ rest)
       = List.foldlM faStep ⟨6, [], d, seq, qB, id, info, 10, out⟩ rest := by
  cases id with
  | nil => exact absurd rfl hid0
  | cons i0 id' =>
  cases seq with
  | nil => exact absurd rfl hseq0
  | cons s0 seq' =>
  have hi0 := hid i0 (by simp)
  obtain ⟨r, hr, hrm⟩ := fold60_cons s0 seq'
  obtain ⟨hs0sep, hs0low⟩ := seqOK_spec s0 (hseq s0 (by simp))
  obtain ⟨_, hs0e⟩ := isSep_false hs0sep
  have e32s : isSep 32 = true := by decide
  have e32e : isEol 32 = false := by decide
  have e10s : isSep 10 = true := by decide
  have e1062 : (10 : UInt8) ≠ 62 := by decide
  have htext : faBody (i0 :: id') info (s0 :: seq') ++ rest
      = i0 :: (id' ++ 32 :: (info ++ 10 :: s0 :: (r ++ 10 :: rest))) := by
    simp [faBody, hr]
  rw [htext]
  rw [foldlM_cons_ok faStep _ ⟨2, [i0], dB, sB, qB, ident, defn, i0, out⟩ _ _ (by simp [faStep, hi0])]
  obtain ⟨p1, h1⟩ := fa_id id' (32 :: (info ++ 10 :: s0 :: (r ++ 10 :: rest)))
    (fun c h => hid c (List.mem_cons_of_mem _ h)) [i0] dB sB qB ident defn i0 out
  rw [h1]
  rw [foldlM_cons_ok faStep _ ⟨3, [], dB, sB, qB, i0 :: id', defn, 32, out⟩ _ _ (by simp [faStep, e32s, e32e])]
  obtain ⟨p2, d2, h2⟩ := fa_title info (s0 :: (r ++ 10 :: rest)) hinfo hhead [] dB sB qB (i0 :: id') defn 32 out
  rw [h2]
  rw [foldlM_cons_ok faStep _ ⟨6, [], d2, [s0], qB, i0 :: id', info, s0, out⟩ _ _
    (by simp [faStep, hs0e, hs0low, hseq s0 (by simp)])]
  have hrw : ∀ c ∈ r, isSep c = true ∨ seqOK c = true := by
    intro c hc
    rcases hrm c hc with h | h
    · subst h; exact Or.inl (by decide)
    · exact Or.inr (hseq c h)
  obtain ⟨p3, h3⟩ := fa_seq_rest r (10 :: rest) hrw [] d2 [s0] qB (i0 :: id') info s0 out
  rw [h3]
  have hf := fold60_filter (s0 :: seq')
  rw [hr] at hf
  have hseq' : ∀ c ∈ seq', seqOK c = true := fun c h => hseq c (List.mem_cons_of_mem _ h)
  have hf2 : (List.filter (fun c => !isSep c) r).map lower = seq' := by
    simp only [List.filter_cons, hs0sep, Bool.not_false, ↓reduceIte, List.cons.injEq, true_and] at hf
    rw [hf]
    exact unfold_id seq' hseq'
  rw [hf2]
  refine ⟨d2, ?_⟩
  rw [foldlM_cons_ok faStep _ ⟨6, [], d2, [s0] ++ seq', qB, i0 :: id', info, 10, out⟩ _ _
    (by simp [faStep, e10s, e1062])]
  rfl


/-- identifier, title remainder, sequence of a written record -/
abbrev R3 := Bytes × Bytes × Bytes

def recOf (r : R3) : Rec := ⟨r.1, r.2.1, r.2.2, none⟩

/-- what the writer needs for its record to be re-readable -/
def OK3 (r : R3) : Prop :=
  r.1 ≠ [] ∧ (∀ c ∈ r.1, isSep c = false) ∧ (∀ c ∈ r.2.1, isEol c = false) ∧
  (∀ c, r.2.1.head? = some c → isSpace c = false) ∧ r.2.2 ≠ [] ∧ ∀ c ∈ r.2.2, seqOK c = true

/-- `FormatFastaBatch` on a list of records -/
def faText : List R3 → Bytes
  | [] => []
  | r :: rs => 62 :: (faBody r.1 r.2.1 r.2.2 ++ faText rs)

theorem fa_records (rs : List R3) (r : R3) (hr : OK3 r) (hrs : ∀ x ∈ rs, OK3 x)
    (idB dB sB qB ident defn : Bytes) (prev : UInt8) (out : List Rec) :
    ∃ st, List.foldlM faStep ⟨1, idB, dB, sB, qB, ident, defn, prev, out⟩ (faBody r.1 r.2.1 r.2.2 ++ faText rs) = .ok st
      ∧ st.state = 6 ∧ st.seqB ≠ [] ∧ st.out ++ [⟨st.ident, st.defn, st.seqB, none⟩] = out ++ (r :: rs).map recOf := by
  induction rs generalizing r idB dB sB qB ident defn prev out with
  | nil =>
    obtain ⟨h1, h2, h3, h4, h5, h6⟩ := hr
    obtain ⟨d, hd⟩ := fa_record r.1 r.2.1 r.2.2 [] h1 h2 h3 h4 h5 h6 idB dB sB qB ident defn prev out
    refine ⟨⟨6, [], d, r.2.2, qB, r.1, r.2.1, 10, out⟩, ?_, rfl, h5, ?_⟩
    · rw [faText, hd]; rfl
    · simp [recOf]
  | cons r' rs ih =>
    obtain ⟨h1, h2, h3, h4, h5, h6⟩ := hr
    obtain ⟨d, hd⟩ := fa_record r.1 r.2.1 r.2.2 (faText (r' :: rs)) h1 h2 h3 h4 h5 h6 idB dB sB qB ident defn prev out
    rw [hd, faText]
    rw [foldlM_cons_ok faStep _ ⟨1, [], d, r.2.2, qB, r.1, r.2.1, 62, out ++ [⟨r.1, r.2.1, r.2.2, none⟩]⟩ _ _
      (by simp [faStep, h5])]
    obtain ⟨st, e1, e2, e3, e4⟩ := ih r' (hrs r' (by simp)) (fun x hx => hrs x (List.mem_cons_of_mem _ hx))
      [] d r.2.2 qB r.1 r.2.1 62 (out ++ [⟨r.1, r.2.1, r.2.2, none⟩])
    refine ⟨st, e1, e2, e3, ?_⟩
    rw [e4]; simp [recOf]

/-- **FASTA, any number of records**: what `FormatFastaBatch` prints for a non-empty list of records is parsed back
    by the real state machine as exactly these records, in order -/
theorem parseFasta_faText (r : R3) (rs : List R3) (hr : OK3 r) (hrs : ∀ x ∈ rs, OK3 x) :
    parseFasta (faText (r :: rs)) = .ok ((r :: rs).map recOf) := by
  obtain ⟨st, e1, e2, e3, e4⟩ := fa_records rs r hr hrs [] [] [] [] [] [] 62 []
  obtain ⟨h1, h2, _⟩ := hr
  have hb : ∃ i0 t, faBody r.1 r.2.1 r.2.2 ++ faText rs = i0 :: t ∧ i0 ≠ 32 := by
    cases hid : r.1 with
    | nil => exact absurd hid h1
    | cons i0 id' =>
      refine ⟨i0, _, rfl, ?_⟩
      have := h2 i0 (by rw [hid]; simp)
      intro e; subst e; revert this; decide
  obtain ⟨i0, t, ht, hne⟩ := hb
  rw [ht] at e1
  rw [faText, ht]
  simp only [parseFasta, ne_eq, not_true_eq_false, ↓reduceIte, hne]
  rw [foldlM_cons_ok faStep _ ⟨1, [], [], [], [], [], [], 62, []⟩ _ _ (by simp [faStep])]
  rw [e1]
  simp only [List.nil_append] at e4
  show (if st.state = 6 then
      (if st.seqB = [] then Except.error Err.fatal
       else pure (st.out ++ [⟨st.ident, st.defn, st.seqB, none⟩]))
    else pure st.out) = _
  rw [if_pos e2, if_neg e3, e4]; rfl

def toR3 {α : Type} [DecidableEq α] (J : JsonLib α) (x : Record α) : R3 := (x.id, info J x.ann x.defn, x.seq)

theorem writeFasta_flatten {α : Type} [DecidableEq α] (J : JsonLib α) (rs : List (Record α)) :
    (rs.map (writeFasta J)).flatten = faText (rs.map (toR3 J)) := by
  induction rs with
  | nil => rfl
  | cons r rs ih =>
    simp only [List.map_cons, List.flatten_cons, ih, faText, writeFasta, formatFasta_eq, toR3]
    rfl

theorem toR3_OK {α : Type} [DecidableEq α] (J : JsonLib α) (x : Record α) (hJ : J.OKat (x.ann, x.defn)) (h : WF x) :
    OK3 (toR3 J x) :=
  ⟨h.id_ne, h.id_noBlank, info_oneLine J _ _ hJ, info_head J _ _ hJ, h.seq_ne, h.seq_ok⟩

theorem mapM_readRec {α : Type} [DecidableEq α] (J : JsonLib α) (rs : List (Record α))
    (hJ : ∀ x ∈ rs, J.OKat (x.ann, x.defn)) :
    ((rs.map (toR3 J)).map recOf).mapM (readRec J) = some (rs.map (fun x => { x with qual := none })) := by
  induction rs with
  | nil => rfl
  | cons r rs ih =>
    have e : readRec J (recOf (toR3 J r)) = some { r with qual := none } := by
      simp [readRec, recOf, toR3, header_roundtrip_aux J r.ann r.defn (hJ r (by simp))]
    simp only [List.map_cons]
    rw [List.mapM_cons, e, ih (fun x hx => hJ x (List.mem_cons_of_mem _ hx))]
    rfl

theorem write_read_fasta_many_aux {α : Type} [DecidableEq α] (J : JsonLib α) (r : Record α) (rs : List (Record α))
    (hJ : ∀ x ∈ r :: rs, J.OKat (x.ann, x.defn)) (h : ∀ x ∈ r :: rs, WF x) :
    readFasta J ((r :: rs).map (writeFasta J)).flatten = some ((r :: rs).map (fun x => { x with qual := none })) := by
  unfold readFasta
  rw [writeFasta_flatten, List.map_cons,
    parseFasta_faText (toR3 J r) (rs.map (toR3 J)) (toR3_OK J r (hJ r (by simp)) (h r (by simp)))
      (by
        intro x hx
        obtain ⟨y, hy, rfl⟩ := List.mem_map.mp hx
        exact toR3_OK J y (hJ y (List.mem_cons_of_mem _ hy)) (h y (List.mem_cons_of_mem _ hy)))]
  exact mapM_readRec J (r :: rs) hJ

/-! ## the guessed header parser on what the writer prints -/

theorem info_head123 {α : Type} [DecidableEq α] (J : JsonLib α) (ann : α) (defn : Option Bytes) (hJ : J.OKat (ann, defn)) :
    info J ann defn = [] ∨ (info J ann defn).head? = some 123 := by
  unfold info
  split
  · exact Or.inl rfl
  · obtain ⟨ts, hts, body, rfl, _, _⟩ := hJ.balanced
    rw [hts, flat_cons]
    exact Or.inr rfl

/-- **dispatch of `ParseGuessedFastSeqHeader`**: on a header printed by `FormatFastSeqJsonHeader` the guessed parser
    is the JSON parser (`hobi`: what the OBI parser does with an empty definition — nothing) -/
theorem parseGuessed_info {α : Type} [DecidableEq α] (J : JsonLib α) (obi : Bytes → Option (Parsed α))
    (hobi : obi [] = some ⟨J.empty, none⟩) (ann : α) (defn : Option Bytes) (hJ : J.OKat (ann, defn)) :
    parseGuessed obi J.empty (J.lib (info J ann defn)) (info J ann defn)
      = parseFastSeqJsonHeader J.empty (J.lib (info J ann defn)) (info J ann defn) := by
  rcases info_head123 J ann defn hJ with h | h
  · rw [h]
    simp [parseGuessed, hobi, parseFastSeqJsonHeader, parseJsonHeader, scanJson_nil]
  · simp [parseGuessed, h]

theorem readRecG_written {α : Type} [DecidableEq α] (J : JsonLib α) (obi : Bytes → Option (Parsed α))
    (hobi : obi [] = some ⟨J.empty, none⟩) (id seq : Bytes) (q : Option Bytes) (ann : α) (defn : Option Bytes)
    (hJ : J.OKat (ann, defn)) :
    readRecG J obi ⟨id, info J ann defn, seq, q⟩ = readRec J ⟨id, info J ann defn, seq, q⟩ := by
  simp only [readRecG, readRec, parseGuessed_info J obi hobi ann defn hJ]

theorem write_read_fastaG_aux {α : Type} [DecidableEq α] (J : JsonLib α) (obi : Bytes → Option (Parsed α))
    (hobi : obi [] = some ⟨J.empty, none⟩) (r : Record α) (hJ : J.OKat (r.ann, r.defn)) (h : WF r) :
    readFastaG J obi (writeFasta J r) = some [{ r with qual := none }] := by
  unfold readFastaG writeFasta
  rw [parseFasta_formatFasta r.id _ r.seq h.id_ne h.id_noBlank (info_oneLine J _ _ hJ) (info_head J _ _ hJ)
    h.seq_ne h.seq_ok]
  simp [readRecG_written J obi hobi _ _ _ _ _ hJ, readRec, header_roundtrip_aux J _ _ hJ]

theorem write_read_fastqG_aux {α : Type} [DecidableEq α] (J : JsonLib α) (obi : Bytes → Option (Parsed α))
    (hobi : obi [] = some ⟨J.empty, none⟩) (sh : UInt8)
    (hsh : ShiftOK sh) (r : Record α) (hJ : J.OKat (r.ann, r.defn)) (h : WF r)
    (hq : (qualities r.seq r.qual).length = r.seq.length) :
    readFastqG J obi sh (writeFastq J sh r)
      = some [{ r with qual := some ((qualities r.seq r.qual).map (fun q => min q 93)) }] := by
  have e := write_read_fastq_aux J sh hsh r hJ h hq
  unfold readFastq writeFastq at e
  unfold readFastqG writeFastq
  rw [parseFastq_formatFastq sh sh r.id _ r.seq r.qual h.id_ne h.id_noBlank (info_oneLine J _ _ hJ)
    (info_head J _ _ hJ) h.seq_ne h.seq_ok hq
    (by intro c hc; simp only [List.mem_map] at hc; obtain ⟨q, _, rfl⟩ := hc; exact writeQ_noEol sh hsh q)] at e ⊢
  simp only [List.mapM_cons, List.mapM_nil] at e ⊢
  rw [readRecG_written J obi hobi _ _ _ _ _ hJ]
  exact e

end ObiVerif.Header
