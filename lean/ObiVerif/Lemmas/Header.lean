import ObiVerif.Model.Header
import ObiVerif.Spec.JsonTok
/-! helper lemmas for property C02: the scanner invariant, folding, qualities, title split -/
namespace ObiVerif.Header
open ObiVerif.JsonTok

theorem scanLoop_nil (st : Scan) (i : Nat) : scanLoop st i [] = st := by
  unfold scanLoop; rfl

theorem scanLoop_cons (st : Scan) (i : Nat) (c : UInt8) (t : Bytes) :
    scanLoop st i (c :: t) =
      if st.stop ≥ 0 then st
      else if st.inquote = true ∧ c = 92 then
        match t with
        | [] => st
        | _ :: t' => scanLoop st (i + 2) t'
      else scanLoop (scanStep st i c) (i + 1) t := by
  conv => lhs; unfold scanLoop
  rfl

theorem scanLoop_stopped (st : Scan) (h : st.stop ≥ 0) (i : Nat) (l : Bytes) : scanLoop st i l = st := by
  cases l with
  | nil => exact scanLoop_nil _ _
  | cons c t => rw [scanLoop_cons]; simp [h]

theorem scan_body (s n : Nat) (hn : 1 ≤ n) (b rest : Bytes) (pos : Nat) (h : EscOK b) :
    scanLoop ⟨s, -1, n, true⟩ pos (b ++ 34 :: rest)
      = scanLoop ⟨s, -1, n, false⟩ (pos + b.length + 1) rest := by
  have h0 : n ≠ 0 := by omega
  have hs : (-1 : Int) < s := by omega
  induction h generalizing pos with
  | nil => simp [scanLoop_cons, scanStep, h0, hs]
  | esc c t _ ih =>
    simp only [List.cons_append, scanLoop_cons]
    simp only [ge_iff_le, Int.reduceNeg, Int.reduceLE, ↓reduceIte, and_self]
    rw [ih]; simp only [List.length_cons]; congr 1; omega
  | plain c t h1 h2 _ ih =>
    simp only [List.cons_append, scanLoop_cons, scanStep]
    simp [h1, h2, h0]
    rw [ih]; congr 1; omega

theorem flat_cons (t : Tok) (ts : List Tok) : flat (t :: ts) = t.flat ++ flat ts := by simp [flat]

theorem scan_tokens (s : Nat) (n : Nat) (hn : 1 ≤ n) (ts : List Tok) (rest : Bytes) (pos : Nat)
    (hok : ∀ t ∈ ts, t.ok) (hc : ClosesAt n ts) :
    scanLoop ⟨s, -1, n, false⟩ pos (flat ts ++ rest)
      = ⟨s, ((pos + (flat ts).length : Nat) : Int) - 1, 0, false⟩ := by
  have hs : (-1 : Int) < s := by omega
  induction ts generalizing n pos with
  | nil => simp [ClosesAt] at hc
  | cons t ts ih =>
    have hok' : ∀ t ∈ ts, t.ok := fun t ht => hok t (List.mem_cons_of_mem _ ht)
    have ht := hok t (by simp)
    have h0 : n ≠ 0 := by omega
    rw [flat_cons]
    cases t with
    | str b =>
      simp only [ClosesAt] at hc
      have e := ih n hn (pos + 1 + b.length + 1) hok' hc
      simp only [Tok.flat, List.cons_append, List.append_assoc, List.nil_append, scanLoop_cons, scanStep]
      simp [h0, hs]
      rw [scan_body s n hn b _ (pos + 1) ht, e]
      congr 1; omega
    | opn =>
      simp only [ClosesAt] at hc
      have e := ih (n + 1) (by omega) (pos + 1) hok' hc
      have ec : ((n + 1 : Nat) : Int) = (n : Int) + 1 := by omega
      have h1 : ¬ ((n : Int) + 1 = 0) := by omega
      rw [ec] at e
      simp only [Tok.flat, List.cons_append, List.nil_append, scanLoop_cons, scanStep]
      simp [h0, h1]
      rw [e]; congr 1; omega
    | cls =>
      simp only [ClosesAt] at hc
      simp only [Tok.flat, List.cons_append, List.nil_append, scanLoop_cons, scanStep]
      simp [h0]
      split at hc
      · rename_i h1; subst h1; subst hc
        simp [scanLoop_stopped, flat]
      · rename_i h1
        have e := ih (n - 1) (by omega) (pos + 1) hok' hc
        have ec : ((n - 1 : Nat) : Int) = (n : Int) - 1 := by omega
        have h2 : ¬ ((n : Int) - 1 = 0) := by omega
        rw [ec] at e
        simp [h2]
        rw [e]; congr 1; omega
    | other c =>
      simp only [ClosesAt] at hc
      obtain ⟨h1, h2, h3⟩ := ht
      have e := ih n hn (pos + 1) hok' hc
      simp only [Tok.flat, List.cons_append, List.nil_append, scanLoop_cons, scanStep]
      simp [h0, h1, h2, h3]
      rw [e]; congr 1; omega

theorem scan_finds_object_aux (ts : List Tok) (hb : BalancedObj ts) (rest : Bytes) :
    scanJson (flat ts ++ rest) = some (0, (flat ts).length) := by
  obtain ⟨body, rfl, hok, hc⟩ := hb
  have e := scan_tokens 0 1 (Nat.le_refl 1) body rest 1 hok hc
  rw [flat_cons]
  simp only [scanJson, Scan.init, Tok.flat, List.cons_append, List.nil_append, scanLoop_cons, scanStep]
  simp only [Int.natCast_zero, Int.natCast_one] at e
  simp
  rw [e]
  simp only
  omega

end ObiVerif.Header
