import ObiVerif.Lemmas.DeBruijnGraph
import ObiVerif.Model.DeBruijnHeap
/-!
# The transcription of `container/heap` refines "extract-min of a multiset" (C19)

`heapPush` / `heapPop` of `Model/DeBruijnHeap.lean` keep the heap order, permute the queued words, and
`heapPop` returns a minimum.  The sorted list `absQ a` (insertion sort of the cells) is therefore pushed /
popped exactly like the list queue of `Model/DeBruijn.lean`, and `HaviestPath` run on the binary heap equals the
model run on the sorted list, for every graph and fuel.
-/
namespace ObiVerif.DeBruijn

/-! ## `Swap` -/

theorem size_swapA (a : Array Nat) (i j : Nat) : (swapA a i j).size = a.size := by
  simp [swapA]

theorem getD_swapA (a : Array Nat) (i j k : Nat) (hi : i < a.size) (hj : j < a.size) :
    (swapA a i j).getD k 0 = if k = j then a.getD i 0 else if k = i then a.getD j 0 else a.getD k 0 := by
  simp only [swapA, Array.getD_eq_getD_getElem?, Array.getElem?_setIfInBounds, Array.size_setIfInBounds]
  by_cases h1 : j = k
  · subst h1; simp [hj]
  · have h1' : ¬ k = j := fun e => h1 e.symm
    simp only [if_neg h1, if_neg h1']
    by_cases h2 : i = k
    · subst h2; simp [hi]
    · have h2' : ¬ k = i := fun e => h2 e.symm
      simp [if_neg h2, if_neg h2']

theorem swapA_eq_swap (a : Array Nat) (i j : Nat) (hi : i < a.size) (hj : j < a.size) :
    swapA a i j = a.swap i j hi hj := by
  rw [Array.swap_def]
  simp [swapA, Array.setIfInBounds, hi, hj]

theorem swapA_perm (a : Array Nat) (i j : Nat) (hi : i < a.size) (hj : j < a.size) :
    (swapA a i j).toList.Perm a.toList := by
  rw [swapA_eq_swap a i j hi hj]
  exact (Array.swap_perm hi hj).toList
/-! ## `up` and `heap.Push` -/

def IsHeap (a : Array Nat) : Prop := ∀ i, 0 < i → i < a.size → a.getD ((i - 1) / 2) 0 ≤ a.getD i 0

/-- invariant of `up`: heap order everywhere except between `j` and its parent; the parent of `j` is below
the children of `j` -/
def UpInv (a : Array Nat) (j : Nat) : Prop :=
  (∀ k, 0 < k → k < a.size → k ≠ j → a.getD ((k - 1) / 2) 0 ≤ a.getD k 0) ∧
  (∀ c, 0 < c → c < a.size → (c - 1) / 2 = j → 0 < j → a.getD ((j - 1) / 2) 0 ≤ a.getD c 0)

theorem UpInv_swap (a : Array Nat) (j : Nat) (hj : j < a.size) (h0 : 0 < j) (h : UpInv a j)
    (hlt : a.getD j 0 < a.getD ((j - 1) / 2) 0) : UpInv (swapA a ((j - 1) / 2) j) ((j - 1) / 2) := by
  have hi : (j - 1) / 2 < a.size := by omega
  obtain ⟨h1, h2⟩ := h
  constructor
  · intro k hk0 hk hki
    rw [size_swapA] at hk
    rw [getD_swapA a _ _ _ hi hj, getD_swapA a _ _ _ hi hj]
    by_cases hkj : k = j
    · subst hkj
      rw [if_pos rfl, if_neg (by omega), if_pos rfl]; omega
    · rw [if_neg hkj, if_neg hki]
      by_cases hp : (k - 1) / 2 = j
      · rw [if_pos hp]; exact h2 k hk0 hk hp h0
      · rw [if_neg hp]
        by_cases hp' : (k - 1) / 2 = (j - 1) / 2
        · rw [if_pos hp']
          have := h1 k hk0 hk hkj
          rw [hp'] at this; omega
        · rw [if_neg hp']; exact h1 k hk0 hk hkj
  · intro c hc0 hc hp hi0
    rw [size_swapA] at hc
    rw [getD_swapA a _ _ _ hi hj, getD_swapA a _ _ _ hi hj]
    rw [if_neg (by omega), if_neg (by omega)]
    have hpi := h1 ((j - 1) / 2) hi0 hi (by omega)
    by_cases hcj : c = j
    · rw [if_pos hcj]; exact hpi
    · rw [if_neg hcj, if_neg (by omega)]
      have := h1 c hc0 hc hcj
      rw [hp] at this; omega

theorem heapUp_spec : ∀ (f : Nat) (a : Array Nat) (j : Nat), j < f → j < a.size → UpInv a j →
    IsHeap (heapUp f a j) ∧ (heapUp f a j).toList.Perm a.toList
  | 0, _, _, hf, _, _ => by omega
  | f + 1, a, j, hf, hj, h => by
    have e : heapUp (f + 1) a j = if (j - 1) / 2 = j ∨ ¬ (a.getD j 0 < a.getD ((j - 1) / 2) 0) then a
        else heapUp f (swapA a ((j - 1) / 2) j) ((j - 1) / 2) := rfl
    rw [e]
    by_cases hc : (j - 1) / 2 = j ∨ ¬ (a.getD j 0 < a.getD ((j - 1) / 2) 0)
    · rw [if_pos hc]
      refine ⟨?_, List.Perm.refl _⟩
      intro k hk0 hk
      by_cases hkj : k = j
      · subst hkj
        rcases hc with hc | hc
        · omega
        · omega
      · exact h.1 k hk0 hk hkj
    · rw [if_neg hc]
      have hc1 : ¬ (j - 1) / 2 = j := fun e => hc (Or.inl e)
      have hc2 : a.getD j 0 < a.getD ((j - 1) / 2) 0 := by
        apply Decidable.byContradiction; intro e; exact hc (Or.inr e)
      have h0 : 0 < j := by omega
      have hi : (j - 1) / 2 < a.size := by omega
      have := heapUp_spec f (swapA a ((j - 1) / 2) j) ((j - 1) / 2) (by omega) (by rw [size_swapA]; exact hi)
        (UpInv_swap a j hj h0 h hc2)
      exact ⟨this.1, this.2.trans (swapA_perm a _ _ hi hj)⟩

theorem getD_push (a : Array Nat) (x k : Nat) :
    (a.push x).getD k 0 = if k = a.size then x else a.getD k 0 := by
  simp only [Array.getD_eq_getD_getElem?, Array.getElem?_push]
  split <;> simp

theorem heapPush_spec (a : Array Nat) (x : Nat) (h : IsHeap a) :
    IsHeap (heapPush a x) ∧ (heapPush a x).toList.Perm (x :: a.toList) := by
  simp only [heapPush]
  have := heapUp_spec (a.push x).size (a.push x) ((a.push x).size - 1) (by simp) (by simp) (by
    constructor
    · intro k hk0 hk hkj
      simp only [Array.size_push] at hk hkj
      rw [getD_push, getD_push, if_neg (by omega), if_neg (by omega)]
      exact h k hk0 (by omega)
    · intro c hc0 hc hp hi0
      simp only [Array.size_push] at hc hp
      omega)
  refine ⟨this.1, this.2.trans ?_⟩
  simp

/-! ## `down` and `heap.Pop` -/

/-- heap order on the first `n` cells -/
def IsHeapN (a : Array Nat) (n : Nat) : Prop := ∀ k, 0 < k → k < n → a.getD ((k - 1) / 2) 0 ≤ a.getD k 0

/-- invariant of `down` -/
def DownInv (a : Array Nat) (i n : Nat) : Prop :=
  (∀ k, 0 < k → k < n → (k - 1) / 2 ≠ i → a.getD ((k - 1) / 2) 0 ≤ a.getD k 0) ∧
  (∀ k, 0 < k → k < n → (k - 1) / 2 = i → 0 < i → a.getD ((i - 1) / 2) 0 ≤ a.getD k 0)

theorem heapDown_succ (f : Nat) (a : Array Nat) (i n : Nat) :
    heapDown (f + 1) a i n =
      if 2 * i + 1 ≥ n then a else
        if ¬ (a.getD (if 2 * i + 1 + 1 < n ∧ a.getD (2 * i + 1 + 1) 0 < a.getD (2 * i + 1) 0
                        then 2 * i + 1 + 1 else 2 * i + 1) 0 < a.getD i 0) then a
        else heapDown f (swapA a i (if 2 * i + 1 + 1 < n ∧ a.getD (2 * i + 1 + 1) 0 < a.getD (2 * i + 1) 0
                        then 2 * i + 1 + 1 else 2 * i + 1))
              (if 2 * i + 1 + 1 < n ∧ a.getD (2 * i + 1 + 1) 0 < a.getD (2 * i + 1) 0
                        then 2 * i + 1 + 1 else 2 * i + 1) n := rfl

theorem DownInv_stop (a : Array Nat) (i n j : Nat)
    (hj : j = if 2 * i + 1 + 1 < n ∧ a.getD (2 * i + 1 + 1) 0 < a.getD (2 * i + 1) 0
                        then 2 * i + 1 + 1 else 2 * i + 1)
    (h : DownInv a i n) (hge : ¬ a.getD j 0 < a.getD i 0) : IsHeapN a n := by
  intro k hk0 hk
  by_cases hp : (k - 1) / 2 = i
  · rw [hp]
    have hk2 : k = 2 * i + 1 ∨ k = 2 * i + 1 + 1 := by omega
    split at hj
    · rename_i hc; subst hj
      rcases hk2 with rfl | rfl <;> omega
    · rename_i hc; subst hj
      rcases hk2 with rfl | rfl
      · omega
      · have : ¬ a.getD (2 * i + 1 + 1) 0 < a.getD (2 * i + 1) 0 := fun e => hc ⟨hk, e⟩
        omega
  · exact h.1 k hk0 hk hp

theorem DownInv_swap (a : Array Nat) (i n j : Nat) (hn : n ≤ a.size) (hj1 : 2 * i + 1 < n)
    (hj : j = if 2 * i + 1 + 1 < n ∧ a.getD (2 * i + 1 + 1) 0 < a.getD (2 * i + 1) 0
                        then 2 * i + 1 + 1 else 2 * i + 1)
    (h : DownInv a i n) (hlt : a.getD j 0 < a.getD i 0) : DownInv (swapA a i j) j n := by
  have hjn : j < n := by split at hj <;> omega
  have hji : (j - 1) / 2 = i := by split at hj <;> omega
  have hia : i < a.size := by omega
  have hja : j < a.size := by omega
  obtain ⟨h1, h2⟩ := h
  constructor
  · intro k hk0 hk hp
    rw [getD_swapA a _ _ _ hia hja, getD_swapA a _ _ _ hia hja, if_neg hp]
    by_cases hkj : k = j
    · subst hkj
      rw [if_pos hji, if_pos rfl]; omega
    · rw [if_neg hkj]
      by_cases hki : k = i
      · subst hki
        rw [if_pos rfl, if_neg (by omega)]
        exact h2 j (by omega) hjn hji hk0
      · rw [if_neg hki]
        by_cases hpi : (k - 1) / 2 = i
        · rw [if_pos hpi]
          have hk2 : k = 2 * i + 1 ∨ k = 2 * i + 1 + 1 := by omega
          split at hj
          · rename_i hc; subst hj
            rcases hk2 with rfl | rfl <;> omega
          · rename_i hc; subst hj
            rcases hk2 with rfl | rfl
            · omega
            · have : ¬ a.getD (2 * i + 1 + 1) 0 < a.getD (2 * i + 1) 0 := fun e => hc ⟨hk, e⟩
              omega
        · rw [if_neg hpi]; exact h1 k hk0 hk hpi
  · intro k hk0 hk hp _
    rw [getD_swapA a _ _ _ hia hja, getD_swapA a _ _ _ hia hja]
    rw [if_neg (by omega), if_pos hji, if_neg (by omega), if_neg (by omega)]
    exact hp ▸ h1 k hk0 hk (by omega)

theorem heapDown_spec : ∀ (f : Nat) (a : Array Nat) (i n : Nat), n - i ≤ f → n ≤ a.size → DownInv a i n →
    IsHeapN (heapDown f a i n) n
  | 0, a, i, n, hf, _, h => by
    intro k hk0 hk
    exact h.1 k hk0 hk (by omega)
  | f + 1, a, i, n, hf, hn, h => by
    rw [heapDown_succ]
    by_cases hc : 2 * i + 1 ≥ n
    · rw [if_pos hc]
      intro k hk0 hk
      exact h.1 k hk0 hk (by omega)
    · rw [if_neg hc]
      generalize hj : (if 2 * i + 1 + 1 < n ∧ a.getD (2 * i + 1 + 1) 0 < a.getD (2 * i + 1) 0
                        then 2 * i + 1 + 1 else 2 * i + 1) = j
      by_cases hc2 : ¬ a.getD j 0 < a.getD i 0
      · rw [if_pos hc2]
        exact DownInv_stop a i n j hj.symm h hc2
      · rw [if_neg hc2]
        have hc2' : a.getD j 0 < a.getD i 0 := Decidable.byContradiction hc2
        have hji : i < j := by rw [← hj]; split <;> omega
        exact heapDown_spec f (swapA a i j) j n (by omega) (by rw [size_swapA]; exact hn)
          (DownInv_swap a i n j hn (by omega) hj.symm h hc2')

/-- `down` only permutes the cells below `n` -/
theorem heapDown_frame : ∀ (f : Nat) (a : Array Nat) (i n : Nat), n ≤ a.size →
    (heapDown f a i n).size = a.size ∧ (heapDown f a i n).toList.Perm a.toList ∧
      ∀ k, n ≤ k → (heapDown f a i n).getD k 0 = a.getD k 0
  | 0, a, i, n, _ => ⟨rfl, List.Perm.refl _, fun _ _ => rfl⟩
  | f + 1, a, i, n, hn => by
    rw [heapDown_succ]
    by_cases hc : 2 * i + 1 ≥ n
    · rw [if_pos hc]; exact ⟨rfl, List.Perm.refl _, fun _ _ => rfl⟩
    · rw [if_neg hc]
      generalize hj : (if 2 * i + 1 + 1 < n ∧ a.getD (2 * i + 1 + 1) 0 < a.getD (2 * i + 1) 0
                        then 2 * i + 1 + 1 else 2 * i + 1) = j
      by_cases hc2 : ¬ a.getD j 0 < a.getD i 0
      · rw [if_pos hc2]; exact ⟨rfl, List.Perm.refl _, fun _ _ => rfl⟩
      · rw [if_neg hc2]
        have hjn : j < n := by rw [← hj]; split <;> omega
        have hia : i < a.size := by omega
        have hja : j < a.size := by omega
        obtain ⟨r1, r2, r3⟩ := heapDown_frame f (swapA a i j) j n (by rw [size_swapA]; exact hn)
        refine ⟨by rw [r1, size_swapA], r2.trans (swapA_perm a i j hia hja), ?_⟩
        intro k hk
        rw [r3 k hk, getD_swapA a _ _ _ hia hja, if_neg (by omega), if_neg (by omega)]

/-! ## the specification of `heap.Push` / `heap.Pop` -/

theorem heapUp_succ (f : Nat) (a : Array Nat) (j : Nat) :
    heapUp (f + 1) a j = if (j - 1) / 2 = j ∨ ¬ (a.getD j 0 < a.getD ((j - 1) / 2) 0) then a
        else heapUp f (swapA a ((j - 1) / 2) j) ((j - 1) / 2) := rfl

theorem heapUp_perm : ∀ (f : Nat) (a : Array Nat) (j : Nat), j < a.size → (heapUp f a j).toList.Perm a.toList
  | 0, _, _, _ => List.Perm.refl _
  | f + 1, a, j, hj => by
    rw [heapUp_succ]
    by_cases hc : (j - 1) / 2 = j ∨ ¬ (a.getD j 0 < a.getD ((j - 1) / 2) 0)
    · rw [if_pos hc]
    · rw [if_neg hc]
      have hi : (j - 1) / 2 < a.size := by omega
      exact (heapUp_perm f _ _ (by rw [size_swapA]; exact hi)).trans (swapA_perm a _ _ hi hj)

theorem heapPush_isHeap (a : Array Nat) (x : Nat) (h : IsHeap a) : IsHeap (heapPush a x) :=
  (heapPush_spec a x h).1

theorem heapPush_perm (a : Array Nat) (x : Nat) : (heapPush a x).toList.Perm (x :: a.toList) := by
  simp only [heapPush]
  refine (heapUp_perm _ _ _ (by simp)).trans ?_
  simp

theorem IsHeap.root_le {a : Array Nat} (h : IsHeap a) : ∀ (n k : Nat), k ≤ n → k < a.size → a.getD 0 0 ≤ a.getD k 0
  | 0, k, hk, _ => by have : k = 0 := by omega
                      subst this; exact Nat.le_refl _
  | n + 1, k, hk, hs => by
    by_cases h0 : k = 0
    · subst h0; exact Nat.le_refl _
    · have := h.root_le n ((k - 1) / 2) (by omega) (by omega)
      have := h k (by omega) hs
      omega

theorem mem_toList_getD (a : Array Nat) (y : Nat) (hy : y ∈ a.toList) : ∃ k, k < a.size ∧ a.getD k 0 = y := by
  rw [Array.mem_toList_iff, Array.mem_iff_getElem] at hy
  obtain ⟨k, hk, e⟩ := hy
  exact ⟨k, hk, by simp [Array.getD_eq_getD_getElem?, hk, e]⟩

theorem toList_pop_back (a : Array Nat) (hne : a.size ≠ 0) :
    a.toList = a.pop.toList ++ [a.getD (a.size - 1) 0] := by
  have hl : a.toList ≠ [] := by
    intro e; apply hne; simpa using congrArg List.length e
  rw [Array.toList_pop]
  conv => lhs; rw [← List.dropLast_concat_getLast hl]
  congr 2
  rw [List.getLast_eq_getElem]
  simp [Array.getD_eq_getD_getElem?]
  have : a.size - 1 < a.size := by omega
  simp [this]

theorem getD_pop (a : Array Nat) (k : Nat) (hk : k < a.size - 1) : a.pop.getD k 0 = a.getD k 0 := by
  simp only [Array.getD_eq_getD_getElem?, Array.getElem?_pop, if_pos hk]

theorem heapPop_none (a : Array Nat) : heapPop a = none ↔ a.size = 0 := by
  simp only [heapPop]
  split <;> simp [*]

theorem heapPop_spec (a : Array Nat) (h : IsHeap a) (hne : a.size ≠ 0) :
    ∃ m a', heapPop a = some (m, a') ∧ IsHeap a' ∧ a.toList.Perm (m :: a'.toList) ∧ ∀ y ∈ a.toList, m ≤ y := by
  have hn : a.size - 1 < a.size := by omega
  have h0 : 0 < a.size := by omega
  have hs1 : a.size - 1 ≤ (swapA a 0 (a.size - 1)).size := by rw [size_swapA]; omega
  have inv : DownInv (swapA a 0 (a.size - 1)) 0 (a.size - 1) := by
    constructor
    · intro k hk0 hk hp
      rw [getD_swapA a _ _ _ h0 hn, getD_swapA a _ _ _ h0 hn]
      rw [if_neg (by omega), if_neg hp, if_neg (by omega), if_neg (by omega)]
      exact h k hk0 (by omega)
    · intro k _ _ _ hi; omega
  have hH := heapDown_spec a.size _ 0 (a.size - 1) (by omega) hs1 inv
  obtain ⟨r1, r2, r3⟩ := heapDown_frame a.size (swapA a 0 (a.size - 1)) 0 (a.size - 1) hs1
  rw [size_swapA] at r1
  refine ⟨_, _, by simp only [heapPop]; rw [if_neg hne], ?_, ?_, ?_⟩
  · intro k hk0 hk
    rw [Array.size_pop, r1] at hk
    rw [getD_pop _ _ (by omega), getD_pop _ _ (by omega)]
    exact hH k hk0 hk
  · have e := toList_pop_back (heapDown a.size (swapA a 0 (a.size - 1)) 0 (a.size - 1)) (by omega)
    rw [r1] at e
    have p : a.toList.Perm (heapDown a.size (swapA a 0 (a.size - 1)) 0 (a.size - 1)).toList :=
      ((r2.trans (swapA_perm a _ _ h0 hn))).symm
    rw [e] at p
    exact p.trans (List.perm_append_comm)
  · intro y hy
    obtain ⟨k, hk, rfl⟩ := mem_toList_getD a y hy
    rw [r3 _ (Nat.le_refl _), getD_swapA a _ _ _ h0 hn, if_pos rfl]
    exact h.root_le k k (Nat.le_refl _) hk

/-! ## abstraction to the sorted list -/

theorem qPush_comm (x y : Nat) : ∀ l : List Nat, qPush x (qPush y l) = qPush y (qPush x l)
  | [] => by
    simp only [qPush]
    by_cases h1 : x ≤ y <;> by_cases h2 : y ≤ x <;> simp [h1, h2] <;> omega
  | z :: t => by
    have ih := qPush_comm x y t
    by_cases h1 : x ≤ z <;> by_cases h2 : y ≤ z <;> by_cases h3 : x ≤ y <;> by_cases h4 : y ≤ x <;>
      simp [qPush, h1, h2, h3, h4, ih] <;> omega

def absQ (a : Array Nat) : List Nat := a.toList.foldr qPush []

theorem foldr_qPush_perm {l₁ l₂ : List Nat} (p : l₁.Perm l₂) : l₁.foldr qPush [] = l₂.foldr qPush [] :=
  p.foldr_eq' (fun x _ y _ z => qPush_comm y x z) []

theorem mem_foldr_qPush (y : Nat) : ∀ l : List Nat, y ∈ l.foldr qPush [] ↔ y ∈ l
  | [] => by simp
  | x :: t => by rw [List.foldr_cons, mem_qPush, mem_foldr_qPush y t]; simp

theorem length_absQ (a : Array Nat) : (absQ a).length = a.size := by
  have : ∀ l : List Nat, (l.foldr qPush []).length = l.length := by
    intro l; induction l with
    | nil => rfl
    | cons x t ih => rw [List.foldr_cons, length_qPush, ih]; rfl
  rw [absQ, this, Array.length_toList]

theorem absQ_eq_nil (a : Array Nat) : absQ a = [] ↔ a.size = 0 := by
  rw [← length_absQ, List.length_eq_zero_iff]

theorem qPush_min (m : Nat) (l : List Nat) (h : ∀ y ∈ l, m ≤ y) : qPush m l = m :: l := by
  cases l with
  | nil => rfl
  | cons y t => simp [qPush, h y (by simp)]

theorem absQ_push' (a : Array Nat) (x : Nat) : absQ (heapPush a x) = qPush x (absQ a) := by
  simp only [absQ]
  rw [foldr_qPush_perm (heapPush_perm a x)]; rfl

theorem absQ_push {a : Array Nat} {x : Nat} (_h : IsHeap a) : absQ (heapPush a x) = qPush x (absQ a) :=
  absQ_push' a x

theorem absQ_pop {a a' : Array Nat} {m : Nat} (h : IsHeap a) (e : heapPop a = some (m, a')) :
    absQ a = m :: absQ a' := by
  have hne : a.size ≠ 0 := by
    intro h0; rw [(heapPop_none a).mpr h0] at e; cases e
  obtain ⟨m', a'', e', _, p, hmin⟩ := heapPop_spec a h hne
  rw [e'] at e
  cases e
  simp only [absQ]
  rw [foldr_qPush_perm p, List.foldr_cons]
  apply qPush_min
  intro y hy
  rw [mem_foldr_qPush] at hy
  exact hmin y (p.mem_iff.mpr (List.mem_cons_of_mem _ hy))

theorem heapPop_isHeap {a a' : Array Nat} {m : Nat} (h : IsHeap a) (e : heapPop a = some (m, a')) : IsHeap a' := by
  have hne : a.size ≠ 0 := by
    intro h0; rw [(heapPop_none a).mpr h0] at e; cases e
  obtain ⟨m', a'', e', hh, _, _⟩ := heapPop_spec a h hne
  rw [e'] at e
  cases e
  exact hh

/-! ## `HaviestPath` on the heap = the model on the sorted list -/

def HPH.abs (h : HPH) : HP := ⟨h.dist, h.visited, h.prev, absQ h.queue, h.hNode, h.hWeight⟩

theorem relaxH_abs (g : Graph) (cur : Nat) : ∀ (l : List Nat) (h : HPH), IsHeap h.queue →
    IsHeap (relaxH g cur l h).queue ∧ (relaxH g cur l h).abs = relax g cur l h.abs
  | [], _, hq => ⟨hq, rfl⟩
  | nx :: t, h, hq => by
    simp only [relaxH, relax]
    by_cases hc : getD0 h.dist nx < g.weight nx + getD0 h.dist cur
    · have hc' : getD0 h.abs.dist nx < g.weight nx + getD0 h.abs.dist cur := hc
      rw [if_pos hc, if_pos hc']
      by_cases hw : g.weight nx + getD0 h.dist cur > h.hWeight
      · have hw' : g.weight nx + getD0 h.abs.dist cur > h.abs.hWeight := hw
        simp only [if_pos hw, if_pos hw']
        have := relaxH_abs g cur t
          { dist := setKV h.dist nx (g.weight nx + getD0 h.dist cur), visited := setKV h.visited nx 0,
            prev := setKV h.prev nx cur, queue := heapPush h.queue nx, hNode := nx,
            hWeight := g.weight nx + getD0 h.dist cur } (heapPush_isHeap _ _ hq)
        refine ⟨this.1, this.2.trans ?_⟩
        simp only [HPH.abs, absQ_push hq]
      · have hw' : ¬ g.weight nx + getD0 h.abs.dist cur > h.abs.hWeight := hw
        simp only [if_neg hw, if_neg hw']
        have := relaxH_abs g cur t
          { dist := setKV h.dist nx (g.weight nx + getD0 h.dist cur), visited := setKV h.visited nx 0,
            prev := setKV h.prev nx cur, queue := heapPush h.queue nx, hNode := h.hNode,
            hWeight := h.hWeight } (heapPush_isHeap _ _ hq)
        refine ⟨this.1, this.2.trans ?_⟩
        simp only [HPH.abs, absQ_push hq]
    · have hc' : ¬ getD0 h.abs.dist nx < g.weight nx + getD0 h.abs.dist cur := hc
      rw [if_neg hc, if_neg hc']
      exact relaxH_abs g cur t h hq

theorem hpLoopH_abs (g : Graph) : ∀ (fuel : Nat) (h : HPH), IsHeap h.queue →
    (hpLoopH g fuel h).map HPH.abs = hpLoop g fuel h.abs
  | 0, h, _ => by
    simp only [hpLoopH, hpLoop]
    by_cases he : h.queue.size = 0
    · have e1 : h.queue.isEmpty = true := by simp [Array.isEmpty, he]
      have e2 : h.abs.queue.isEmpty = true := by
        show (absQ h.queue).isEmpty = true
        rw [(absQ_eq_nil _).mpr he]; rfl
      rw [e1, e2]; rfl
    · have e1 : h.queue.isEmpty = false := by simp [Array.isEmpty, he]
      have e2 : h.abs.queue.isEmpty = false := by
        show (absQ h.queue).isEmpty = false
        cases hq : absQ h.queue with
        | nil => exact absurd ((absQ_eq_nil _).mp hq) he
        | cons _ _ => rfl
      rw [e1, e2]; rfl
  | fuel + 1, h, hq => by
    simp only [hpLoopH, hpLoop]
    cases hp : heapPop h.queue with
    | none =>
      have he := (heapPop_none _).mp hp
      have : h.abs.queue = [] := (absQ_eq_nil _).mpr he
      rw [this]; rfl
    | some r =>
      obtain ⟨cur, q⟩ := r
      have hq' := heapPop_isHeap hq hp
      have : h.abs.queue = cur :: absQ q := absQ_pop hq hp
      rw [this]
      simp only []
      by_cases hv : getD0 h.visited cur = 1
      · have hv' : getD0 h.abs.visited cur = 1 := hv
        rw [if_pos hv, if_pos hv']
        exact hpLoopH_abs g fuel { h with queue := q } hq'
      · have hv' : ¬ getD0 h.abs.visited cur = 1 := hv
        rw [if_neg hv, if_neg hv']
        by_cases hw : getD0 h.dist cur > h.hWeight
        · have hw' : getD0 h.abs.dist cur > h.abs.hWeight := hw
          simp only [if_pos hw, if_pos hw']
          have r := relaxH_abs g cur (g.succ cur)
            { dist := h.dist, visited := setKV h.visited cur 1, prev := h.prev, queue := q, hNode := cur,
              hWeight := getD0 h.dist cur } hq'
          rw [hpLoopH_abs g fuel _ r.1, r.2]; rfl
        · have hw' : ¬ getD0 h.abs.dist cur > h.abs.hWeight := hw
          simp only [if_neg hw, if_neg hw']
          have r := relaxH_abs g cur (g.succ cur)
            { dist := h.dist, visited := setKV h.visited cur 1, prev := h.prev, queue := q, hNode := h.hNode,
              hWeight := h.hWeight } hq'
          rw [hpLoopH_abs g fuel _ r.1, r.2]; rfl

theorem isHeap_empty : IsHeap #[] := by
  intro i _ hi; simp at hi

/-- one turn of the loop of `hpInitH` -/
def initStepH (g : Graph) (h : HPH) (n : Nat) : HPH :=
  { h with queue := heapPush h.queue n, dist := setKV h.dist n (g.weight n),
           prev := setKV h.prev n 0, visited := setKV h.visited n 0 }

/-- one turn of the loop of `hpInit` -/
def initStep (g : Graph) (h : HP) (n : Nat) : HP :=
  { h with queue := qPush n h.queue, dist := setKV h.dist n (g.weight n),
           prev := setKV h.prev n 0, visited := setKV h.visited n 0 }

theorem foldl_initStepH_abs (g : Graph) : ∀ (l : List Nat) (h : HPH), IsHeap h.queue →
    IsHeap (l.foldl (initStepH g) h).queue ∧ (l.foldl (initStepH g) h).abs = l.foldl (initStep g) h.abs
  | [], _, hq => ⟨hq, rfl⟩
  | n :: t, h, hq => by
    simp only [List.foldl_cons]
    have := foldl_initStepH_abs g t (initStepH g h n) (heapPush_isHeap _ _ hq)
    refine ⟨this.1, this.2.trans ?_⟩
    simp only [HPH.abs, initStepH, initStep, absQ_push hq]

theorem hpInitH_abs (g : Graph) : IsHeap (hpInitH g).queue ∧ (hpInitH g).abs = hpInit g :=
  foldl_initStepH_abs g g.heads ⟨[], [], [], #[], 0, 0⟩ isHeap_empty

theorem heaviestPathH_eq (g : Graph) (fuel : Nat) : g.heaviestPathH fuel = g.heaviestPath fuel := by
  simp only [Graph.heaviestPathH, Graph.heaviestPath]
  have e := hpLoopH_abs g fuel (hpInitH g) (hpInitH_abs g).1
  rw [(hpInitH_abs g).2] at e
  rw [← e]
  cases hpLoopH g fuel (hpInitH g) <;> rfl

theorem longestConsensusH_eq (g : Graph) (fuel : Nat) : g.longestConsensusH fuel = g.longestConsensus fuel := by
  unfold Graph.longestConsensusH Graph.longestConsensus
  rw [heaviestPathH_eq]
  rfl

/-! ## fuel adequacy: the fuel of the model never cuts the Go loops short -/

theorem heapUp_fuel_irrel : ∀ (f f' : Nat) (a : Array Nat) (j : Nat), j < f → j < f' →
    heapUp f a j = heapUp f' a j
  | 0, _, _, _, h, _ => by omega
  | _ + 1, 0, _, _, _, h => by omega
  | f + 1, f' + 1, a, j, h, h' => by
    rw [heapUp_succ, heapUp_succ]
    by_cases hc : (j - 1) / 2 = j ∨ ¬ (a.getD j 0 < a.getD ((j - 1) / 2) 0)
    · rw [if_pos hc, if_pos hc]
    · rw [if_neg hc, if_neg hc]
      have : ¬ (j - 1) / 2 = j := fun e => hc (Or.inl e)
      exact heapUp_fuel_irrel f f' _ _ (by omega) (by omega)

theorem heapUp_fuel {a : Array Nat} {j f : Nat} (_hj : j < a.size) (hf : j + 1 ≤ f) :
    heapUp f a j = heapUp (j + 1) a j :=
  heapUp_fuel_irrel f (j + 1) a j (by omega) (by omega)

theorem heapDown_fuel_irrel : ∀ (f f' : Nat) (a : Array Nat) (i n : Nat), n - i ≤ f → n - i ≤ f' →
    heapDown f a i n = heapDown f' a i n
  | 0, 0, _, _, _, _, _ => rfl
  | 0, f' + 1, a, i, n, h, _ => by
    rw [heapDown_succ, if_pos (by omega)]; rfl
  | f + 1, 0, a, i, n, _, h => by
    rw [heapDown_succ, if_pos (by omega)]; rfl
  | f + 1, f' + 1, a, i, n, h, h' => by
    rw [heapDown_succ, heapDown_succ]
    by_cases hc : 2 * i + 1 ≥ n
    · rw [if_pos hc, if_pos hc]
    · rw [if_neg hc, if_neg hc]
      generalize hj : (if 2 * i + 1 + 1 < n ∧ a.getD (2 * i + 1 + 1) 0 < a.getD (2 * i + 1) 0
                        then 2 * i + 1 + 1 else 2 * i + 1) = j
      by_cases hc2 : ¬ a.getD j 0 < a.getD i 0
      · rw [if_pos hc2, if_pos hc2]
      · rw [if_neg hc2, if_neg hc2]
        have hji : i < j := by rw [← hj]; split <;> omega
        exact heapDown_fuel_irrel f f' _ _ _ (by omega) (by omega)

theorem heapDown_fuel {a : Array Nat} {i n f : Nat} (hf : n ≤ f) : heapDown f a i n = heapDown n a i n :=
  heapDown_fuel_irrel f n a i n (by omega) (by omega)

end ObiVerif.DeBruijn
