import ObiVerif.Model.Clean
import ObiVerif.Lemmas.Clean
/-! lemmas on the second phase (`extendSimilarityGraph`) and on the ratio filter of the obiclean graph (property C13) -/
namespace ObiVerif.Clean

theorem edgeTo2_eq (K : Kernels) (step : Int) (ns : Array Node) (i j : Nat) (hi : i < ns.size) (hj : j < ns.size) :
    edgeTo2 K step ns i j =
      if (K.d1 ns[i].seq ns[j].seq).verdict < 0 then
        match K.lcs ns[i].seq ns[j].seq step with
        | some (lcs, lali) => if (lali : Int) - (lcs : Int) ≤ step ∧ step > 0 then some ⟨j, (lali : Int) - (lcs : Int), -1, 45, 45⟩ else none
        | none => none
      else none := by
  unfold edgeTo2
  rw [Array.getElem?_eq_getElem hi, Array.getElem?_eq_getElem hj]
  rfl

theorem mem_rowEdges2 (K : Kernels) (step : Int) (ns : Array Node) (i : Nat) (e : Edge) :
    e ∈ rowEdges2 K step ns [] i ↔ ∃ j, i < j ∧ j < ns.size ∧ edgeTo2 K step ns i j = some e := by
  simp only [rowEdges2, List.isEmpty_nil, if_true, List.mem_filterMap, List.mem_range'_1]
  constructor
  · rintro ⟨j, ⟨h1, h2⟩, he⟩
    exact ⟨j, by omega, by omega, he⟩
  · rintro ⟨j, h1, h2, he⟩
    exact ⟨j, ⟨by omega, by omega⟩, he⟩

theorem rowEdges2_of_ne (K : Kernels) (step : Int) (ns : Array Node) (prev : List Edge) (i : Nat) (h : prev ≠ []) :
    rowEdges2 K step ns prev i = [] := by
  unfold rowEdges2
  cases prev with
  | nil => exact absurd rfl h
  | cons _ _ => rfl

/-- an edge produced for the pair `(i, j)` points to `j` -/
theorem edgeTo2_father (K : Kernels) (step : Int) (ns : Array Node) (i j : Nat) (e : Edge)
    (h : edgeTo2 K step ns i j = some e) : e.father = j := by
  unfold edgeTo2 at h
  split at h
  · split at h
    · split at h
      · simp only at h
        split at h
        · cases h; rfl
        · cases h
      · cases h
    · cases h
  · cases h

theorem edgeTo1_father (K : Kernels) (ns : Array Node) (i j : Nat) (e : Edge)
    (h : edgeTo1 K ns i j = some e) : e.father = j := by
  unfold edgeTo1 at h
  split at h
  · split at h
    · simp only at h
      split at h
      · cases h; rfl
      · cases h
    · cases h
  · cases h

/-- `finish_edges` with the weights named: the array `weight` the ratio filter reads is the `weight` written for
every node -/
theorem finish_edges_weight (cfg : Config) (ns : Array Node) (es1 es2 : List (List Edge)) (sons1 sons2 : List Nat)
    (hl1 : es1.length = ns.size) (hl2 : es2.length = ns.size) (outs : List Out)
    (h : finish cfg ns es1 sons1 es2 sons2 = .ok outs) :
    outs.length = ns.size ∧ ∃ weight : Array Nat,
      (∀ (k : Nat) (o' : Out), outs[k]? = some o' → o'.weight = weight.getD k 0) ∧
      ∀ (i : Nat) (o : Out), outs[i]? = some o →
        i < ns.size ∧ o.node = ns.getD i ⟨0, 0, []⟩ ∧
        o.edges = if cfg.p < cfg.q then filterRow cfg.p cfg.q weight i (es1.getD i [] ++ es2.getD i [])
                  else es1.getD i [] ++ es2.getD i [] := by
  unfold finish at h
  simp only at h
  split at h
  · cases h
  · rename_i weight _
    injection h with h
    have hlen : outs.length = ns.size := by rw [← h]; simp
    refine ⟨hlen, weight, ?_, ?_⟩
    · intro k o' hk
      rw [← h, List.getElem?_map] at hk
      by_cases hkn : k < ns.size
      · rw [List.getElem?_range hkn] at hk
        simp only [Option.map_some, Option.some.injEq] at hk
        rw [← hk]
      · rw [List.getElem?_eq_none (by simp; omega)] at hk
        simp at hk
    · intro i o hi
      rw [← h, List.getElem?_map] at hi
      by_cases hk : i < ns.size
      · rw [List.getElem?_range hk] at hi
        simp only [Option.map_some, Option.some.injEq] at hi
        refine ⟨hk, by rw [← hi], ?_⟩
        rw [← hi]
        simp only
        have happ : (appendRows es1 es2)[i]? = some (es1.getD i [] ++ es2.getD i []) := by
          have h1 : es1[i]? = some es1[i] := List.getElem?_eq_getElem (by omega)
          have h2 : es2[i]? = some es2[i] := List.getElem?_eq_getElem (by omega)
          simp [appendRows, List.getElem?_zipWith, h1, h2, List.getD_eq_getElem?_getD]
        split
        · simp [filterEdges, List.getD_eq_getElem?_getD, List.getElem?_map, List.getElem?_zipIdx, happ]
        · simp [List.getD_eq_getElem?_getD, happ]
      · rw [List.getElem?_eq_none (by simp; omega)] at hi
        simp at hi

end ObiVerif.Clean
